(* C09 — lemmas about Model/C09.v (the success path of ptt.DoPostArticle). *)
From Verif Require Import Base.Common Base.Dec Base.ListX Base.Sweep Gen.Consts_default Gen.PostTab Model.C13 Proofs.C13 Model.C09.

Ltac Zify.zify_post_hook ::= Z.div_mod_to_equations.

(* the date functions assume UTC+8: the source must still say Asia/Taipei *)
Lemma tz_is_taipei : TIME_LOCATION = [65; 115; 105; 97; 47; 84; 97; 105; 112; 101; 105].
Proof. reflexivity. Qed.

(* ------------------------------------------------------------------ lists *)
Lemma firstn_app_exact {A} (a b : list A) n : length a = n -> firstn n (a ++ b) = a.
Proof. intros <-. rewrite firstn_app, Nat.sub_diag, firstn_all. cbn. apply app_nil_r. Qed.

Lemma skipn_app_exact {A} (a b : list A) n : length a = n -> skipn n (a ++ b) = b.
Proof. intros <-. rewrite skipn_app, Nat.sub_diag, skipn_all. reflexivity. Qed.

Lemma skipn_repeat {A} (x : A) k n : skipn k (repeat x n) = repeat x (n - k).
Proof.
  revert n. induction k as [|k IH]; intros n; [rewrite Nat.sub_0_r; reflexivity|].
  destruct n as [|n]; [reflexivity|]. cbn. apply IH.
Qed.

Lemma copy_into_length dst src : length (copy_into dst src) = length dst.
Proof. unfold copy_into. rewrite app_length, firstn_length, skipn_length. lia. Qed.

(* copy into a zeroed array = pad / truncate *)
Lemma copy_into_zeros n src : copy_into (repeat 0 n) src = fixlen n src.
Proof. unfold copy_into, fixlen. rewrite repeat_length, skipn_repeat. reflexivity. Qed.

(* a second copy of the same length overwrites the first *)
Lemma copy_into_twice n a b : length a = length b -> copy_into (fixlen n a) b = fixlen n b.
Proof.
  intros E. unfold copy_into. rewrite fixlen_length. unfold fixlen. f_equal. rewrite <- E.
  destruct (Nat.le_gt_cases (length a) n) as [H|H].
  - rewrite firstn_all2 by lia. apply skipn_app_exact. reflexivity.
  - replace (n - length a)%nat with O by lia. cbn [repeat]. rewrite app_nil_r.
    apply skipn_all2. rewrite firstn_length. lia.
Qed.

Lemma cprefix_nonzero l r : Forall (fun c => c <> 0) l -> cprefix (l ++ 0 :: r) = l.
Proof.
  induction 1 as [|c l Hc _ IH]; cbn [app cprefix]; [reflexivity|].
  destruct (Z.eqb_spec c 0); [contradiction|]. f_equal. exact IH.
Qed.

Lemma cprefix_nonzero_all l : Forall (fun c => c <> 0) l -> cprefix l = l.
Proof.
  induction 1 as [|c l Hc _ IH]; cbn [cprefix]; [reflexivity|].
  destruct (Z.eqb_spec c 0); [contradiction|]. f_equal. exact IH.
Qed.

(* ------------------------------------------------------------------ byte-string equality and the directory map *)
Lemma bytes_eqb_eq a : forall b, bytes_eqb a b = true <-> a = b.
Proof.
  induction a as [|x a IH]; intros [|y b]; cbn [bytes_eqb]; try (split; [discriminate|congruence]); [tauto|].
  rewrite andb_true_iff, Z.eqb_eq, IH. split; [intros [-> ->]; reflexivity | intros E; inversion E; auto].
Qed.

Lemma bytes_eqb_refl a : bytes_eqb a a = true.
Proof. apply bytes_eqb_eq. reflexivity. Qed.

Lemma bytes_eqb_neq a b : a <> b -> bytes_eqb a b = false.
Proof. intros H. destruct (bytes_eqb a b) eqn:E; [|reflexivity]. apply bytes_eqb_eq in E. contradiction. Qed.

Lemma bytes_eqb_sym a b : bytes_eqb a b = bytes_eqb b a.
Proof.
  destruct (bytes_eqb a b) eqn:E.
  - apply bytes_eqb_eq in E. subst. symmetry. apply bytes_eqb_refl.
  - destruct (bytes_eqb b a) eqn:E'; [|reflexivity]. apply bytes_eqb_eq in E'. subst. rewrite bytes_eqb_refl in E. discriminate.
Qed.

Lemma lookup_set_same n c fs : lookup n (fs_set n c fs) = Some c.
Proof.
  induction fs as [|[k v] r IH]; cbn [fs_set lookup].
  - rewrite bytes_eqb_refl. reflexivity.
  - destruct (bytes_eqb k n) eqn:E; cbn [lookup]; rewrite E; [reflexivity|exact IH].
Qed.

Lemma lookup_set_other n m c fs : n <> m -> lookup m (fs_set n c fs) = lookup m fs.
Proof.
  intros H. induction fs as [|[k v] r IH]; cbn [fs_set lookup].
  - rewrite bytes_eqb_neq by exact H. reflexivity.
  - destruct (bytes_eqb k n) eqn:E; cbn [lookup].
    + apply bytes_eqb_eq in E. subst k. rewrite bytes_eqb_neq by exact H. reflexivity.
    + destruct (bytes_eqb k m); [reflexivity|exact IH].
Qed.

Lemma lookup_remove_same n fs : lookup n (fs_remove n fs) = None.
Proof.
  induction fs as [|[k v] r IH]; cbn [fs_remove lookup]; [reflexivity|].
  destruct (bytes_eqb k n) eqn:E; [exact IH|]. cbn [lookup]. rewrite E. exact IH.
Qed.

Lemma lookup_remove_other n m fs : n <> m -> lookup m (fs_remove n fs) = lookup m fs.
Proof.
  intros H. induction fs as [|[k v] r IH]; cbn [fs_remove lookup]; [reflexivity|].
  destruct (bytes_eqb k n) eqn:E.
  - apply bytes_eqb_eq in E. subst k. rewrite bytes_eqb_neq by exact H. exact IH.
  - cbn [lookup]. destruct (bytes_eqb k m); [reflexivity|exact IH].
Qed.

Lemma fexists_false fs n : fexists fs n = false <-> lookup n fs = None.
Proof. unfold fexists. destruct (lookup n fs); split; congruence. Qed.

(* [fs'] is [fs] plus one new file *)
Definition files_plus (fs : files) (name c : list Z) (fs' : files) : Prop :=
  forall n, lookup n fs' = if bytes_eqb name n then Some c else lookup n fs.

(* ------------------------------------------------------------------ Stampfile *)
Lemma stamp_fresh rnds : forall fs now t r rest,
  stamp fs now rnds = Some (t, r, rest) -> fexists fs (stamp_name t r) = false.
Proof.
  induction rnds as [|x rnds IH]; intros fs now t r rest H; cbn [stamp] in H; [discriminate|].
  destruct (fexists fs (stamp_name (wrap32 (now + 1)) x)) eqn:E.
  - eapply IH. exact H.
  - inversion H. subst. exact E.
Qed.

Lemma wrap32_small x : 0 <= x < 2147483648 -> wrap32 x = x.
Proof.
  intros H. unfold wrap32. rewrite Z.mod_small by lia. destruct (Z.ltb_spec x 2147483648); lia.
Qed.

Lemma stamp_range rnds : forall fs now t r rest,
  0 <= now -> now + Z.of_nat (length rnds) < 2147483648 ->
  stamp fs now rnds = Some (t, r, rest) ->
  now < t /\ t + Z.of_nat (length rest) <= now + Z.of_nat (length rnds) /\ In r rnds /\ (forall x, In x rest -> In x rnds).
Proof.
  induction rnds as [|x rnds IH]; intros fs now t r rest H0 H1 H; cbn [stamp] in H; [discriminate|].
  cbn [length] in H1. rewrite Nat2Z.inj_succ in H1.
  rewrite wrap32_small in H by lia.
  destruct (fexists fs (stamp_name (now + 1) x)) eqn:E.
  - destruct (IH fs (now + 1) t r rest ltac:(lia) ltac:(lia) H) as (A & B & C & D).
    cbn [length]. rewrite Nat2Z.inj_succ. repeat split; [lia|lia|right; exact C|intros y Hy; right; apply D; exact Hy].
  - inversion H. subst. cbn [length]. rewrite Nat2Z.inj_succ.
    repeat split; [lia|lia|left; reflexivity|intros y Hy; right; exact Hy].
Qed.

(* ------------------------------------------------------------------ names: the stamp name is C13's mk_name *)
Lemma print_dec_10 t : 1000000000 <= t < 2147483648 -> print_dec t = map dec_char (digitsB 10 10 t).
Proof.
  intros H. unfold print_dec. destruct (Z.ltb_spec t 0); [lia|].
  rewrite (min_digits_exact 10 9) by (cbn; lia). reflexivity.
Qed.

Definition name_body (t r : Z) : list Z :=
  77 :: 46 :: map dec_char (digitsB 10 10 t) ++ [46; 65; 46] ++ map hexU_char (digitsB 16 3 r).

Lemma stamp_name_body t r : 1000000000 <= t < 2147483648 -> stamp_name t r = name_body t r.
Proof. intros H. unfold stamp_name, name_body. rewrite print_dec_10 by exact H. reflexivity. Qed.

Lemma name_body_length t r : length (name_body t r) = 18%nat.
Proof. unfold name_body. cbn [length]. rewrite !app_length, !map_length, !digitsB_length. reflexivity. Qed.

Lemma mk_name_body t r : mk_name 77 t r = name_body t r ++ repeat 0 10.
Proof.
  unfold mk_name. fold (name_body t r). unfold fixlen. rewrite name_body_length.
  rewrite firstn_all2 by (rewrite name_body_length; lia). reflexivity.
Qed.

Lemma dec_char_nz d : 0 <= d -> dec_char d <> 0.
Proof. unfold dec_char. lia. Qed.
Lemma hexU_char_nz d : 0 <= d -> hexU_char d <> 0.
Proof. unfold hexU_char. destruct (d <? 10); lia. Qed.

Lemma name_body_nonzero t r : Forall (fun c => c <> 0) (name_body t r).
Proof.
  unfold name_body. constructor; [lia|]. constructor; [lia|].
  apply Forall_app. split.
  - apply Forall_forall. intros c Hc. apply in_map_iff in Hc. destruct Hc as (d & <- & Hd).
    apply dec_char_nz. pose proof (digitsB_range 10 10 ltac:(lia) t) as R. rewrite Forall_forall in R. apply R in Hd. lia.
  - apply Forall_app. split.
    + constructor; [lia|]. constructor; [lia|]. constructor; [lia|]. constructor.
    + apply Forall_forall. intros c Hc. apply in_map_iff in Hc. destruct Hc as (d & <- & Hd).
      apply hexU_char_nz. pose proof (digitsB_range 16 3 ltac:(lia) r) as R. rewrite Forall_forall in R. apply R in Hd. lia.
Qed.

Lemma cprefix_mk_name t r : cprefix (mk_name 77 t r) = name_body t r.
Proof. rewrite mk_name_body. change (repeat 0 10) with (0 :: repeat 0 9). apply cprefix_nonzero. apply name_body_nonzero. Qed.

Lemma fn_first_stamp t r : 1000000000 <= t < 2147483648 ->
  copy_into (repeat 0 (Z.to_nat ptttype.FNLEN)) (stamp_name t r) = mk_name 77 t r.
Proof.
  intros H. rewrite copy_into_zeros, stamp_name_body by exact H. reflexivity.
Qed.

Lemma fn_second_stamp t1 r1 t2 r2 : 1000000000 <= t1 < 2147483648 -> 1000000000 <= t2 < 2147483648 ->
  copy_into (copy_into (repeat 0 (Z.to_nat ptttype.FNLEN)) (stamp_name t1 r1)) (stamp_name t2 r2) = mk_name 77 t2 r2.
Proof.
  intros H1 H2. rewrite copy_into_zeros, !stamp_name_body by assumption.
  rewrite copy_into_twice by (rewrite !name_body_length; reflexivity). reflexivity.
Qed.

(* the article id of a stamped name decodes back to it (C13) *)
Lemma cprefix_aidc a : 0 <= a < 2 ^ 48 -> cprefix (aidu_to_aidc a) = aidu_to_aidc a.
Proof.
  intros Ha. unfold aidu_to_aidc. cbn [to_aidc_loop].
  repeat match goal with |- context [enc_digit ?x] =>
    let H := fresh in
    assert (H : enc_digit x <> 0) by (apply (enc_dec x); lia);
    generalize dependent (enc_digit x); intros end.
  cbn [cprefix].
  repeat match goal with H : ?z <> 0 |- context [?z =? 0] => destruct (Z.eqb_spec z 0); [contradiction|] end.
  reflexivity.
Qed.

Lemma aid_roundtrip t r : 1000000000 <= t < 2147483648 -> 0 <= r < 4096 ->
  articleid_to_fn (fn_to_articleid (mk_name 77 t r)) = Ok (mk_name 77 t r).
Proof.
  intros Ht Hr. unfold articleid_to_fn, fn_to_articleid.
  pose proof (name_aidu_range 77 t r ltac:(change (2 ^ 31) with 2147483648; lia) Hr) as R.
  rewrite cprefix_aidc by exact R.
  assert (L : forall s, length s = 8%nat -> fixlen 8 s = s).
  { intros s Hs. unfold fixlen. rewrite Hs, firstn_all2 by lia. change (repeat 0 (8 - 8)) with (@nil Z). apply app_nil_r. }
  rewrite L by apply aidc_length.
  rewrite num_text_num by exact R. cbn [res_map]. f_equal.
  apply name_roundtrip; [left; reflexivity | change (2 ^ 31) with 2147483648; lia | exact Hr].
Qed.

(* ------------------------------------------------------------------ the chain of file operations of one post *)
Lemma files_chain fs N1 N2 text url :
  lookup N1 fs = None ->
  lookup N2 (fs_write0 N1 text (fs_set N1 [] fs)) = None ->
  files_plus fs N2 (text ++ url)
    (fs_rename N1 N2 (fs_append N1 url (fs_set N2 [] (fs_write0 N1 text (fs_set N1 [] fs)))))
  /\ N1 <> N2 /\ lookup N2 fs = None.
Proof.
  intros H1 H2.
  assert (W : fs_write0 N1 text (fs_set N1 [] fs) = fs_set N1 text (fs_set N1 [] fs)).
  { unfold fs_write0. rewrite lookup_set_same, skipn_nil, app_nil_r. reflexivity. }
  rewrite W in *.
  assert (A2 : lookup N1 (fs_set N1 text (fs_set N1 [] fs)) = Some text) by apply lookup_set_same.
  assert (NE : N1 <> N2). { intros E. subst N2. rewrite A2 in H2. discriminate. }
  assert (NE' : N2 <> N1) by congruence.
  set (fs2 := fs_set N1 text (fs_set N1 [] fs)) in *.
  assert (A3 : lookup N1 (fs_set N2 [] fs2) = Some text) by (rewrite lookup_set_other by exact NE'; exact A2).
  assert (F4 : fs_append N1 url (fs_set N2 [] fs2) = fs_set N1 (text ++ url) (fs_set N2 [] fs2)).
  { unfold fs_append. rewrite A3. reflexivity. }
  rewrite F4. unfold fs_rename. rewrite lookup_set_same.
  split; [|split; [exact NE|]].
  - intros n. destruct (bytes_eqb N2 n) eqn:E.
    + apply bytes_eqb_eq in E. subst n. apply lookup_set_same.
    + assert (Hn : N2 <> n) by (intros ->; rewrite bytes_eqb_refl in E; discriminate).
      rewrite lookup_set_other by exact Hn.
      destruct (bytes_eqb N1 n) eqn:E1.
      * apply bytes_eqb_eq in E1. subst n. rewrite lookup_remove_same. symmetry. exact H1.
      * assert (Hn1 : N1 <> n) by (intros ->; rewrite bytes_eqb_refl in E1; discriminate).
        rewrite lookup_remove_other by exact Hn1.
        rewrite lookup_set_other by exact Hn1. rewrite lookup_set_other by exact Hn.
        unfold fs2. rewrite !lookup_set_other by exact Hn1. reflexivity.
  - rewrite <- H2. unfold fs2. rewrite !lookup_set_other by exact NE. reflexivity.
Qed.

(* ------------------------------------------------------------------ one post: inversion of the success path *)
Definition the_title (role : bool) (q : req) : list Z := tn_safe_strip role (full_title (q_class q) (q_title q)).
Definition the_text (role : bool) (u : user) (b : board) (q : req) : list Z :=
  article_text u b (the_title role q) (q_nowH q) (q_lines q) (q_ip q).

Record post_facts (role : bool) (u : user) (b : board) (q : req) (u' : user) (b' : board) (o : outcome) (t1 r1 t2 r2 : Z) : Prop := {
  pf_stamp1 : exists rest, stamp (b_files b) (q_nowA q) (q_rnds q) = Some (t1, r1, rest) /\
              exists fs2 rest2, stamp fs2 (q_nowB q) rest = Some (t2, r2, rest2);
  pf_fresh1 : fexists (b_files b) (stamp_name t1 r1) = false;
  pf_fresh2 : fexists (b_files b) (stamp_name t2 r2) = false;
  pf_files : files_plus (b_files b) (stamp_name t2 r2) (the_text role u b q ++ url_line b (o_fn o)) (b_files b');
  pf_fn : o_fn o = copy_into (copy_into (repeat 0 (Z.to_nat ptttype.FNLEN)) (stamp_name t1 r1)) (stamp_name t2 r2);
  pf_entry : o_entry o = mk_entry (o_fn o) (q_mtime q) (u_id u)
                           (copy_into (copy_into (repeat 0 6) (cdatemd t1)) (cdatemd t2)) (the_title role q);
  pf_dir : b_dir b' = append_rec (b_dir b) (o_entry o);
  pf_idx : o_idx o = lenZ (b_dir b) / lenZ (o_entry o) + 1;
  pf_aid : o_aid o = fn_to_articleid (o_fn o);
  pf_total : b_total b' = wrap32 (lenZ (b_dir b') / ptttype.FILE_HEADER_RAW_SZ);
  pf_user : u' = mkUser (u_id u) (u_nick u) (u_priv u) (wrapu32 (u_numposts u + 1));
  pf_bname : b_name b' = b_name b;
  pf_mods : b_mods b' = b_mods b
}.

Lemma post_on_inv role u b q u' b' o :
  post_on role u b q = Ok (u', b', o) -> exists t1 r1 t2 r2, post_facts role u b q u' b' o t1 r1 t2 r2.
Proof.
  intros H. unfold post_on in H.
  destruct (stamp (b_files b) (q_nowA q) (q_rnds q)) as [[[t1 r1] rest]|] eqn:S1; [|discriminate].
  cbv zeta in H.
  match type of H with context [stamp ?fs (q_nowB q) rest] => set (fs2 := fs) in *; destruct (stamp fs2 (q_nowB q) rest) as [[[t2 r2] rest2]|] eqn:S2; [|discriminate] end.
  inversion H; subst u' b' o; clear H.
  pose proof (stamp_fresh _ _ _ _ _ _ S1) as F1. pose proof (stamp_fresh _ _ _ _ _ _ S2) as F2.
  apply fexists_false in F1. apply fexists_false in F2.
  destruct (files_chain (b_files b) (stamp_name t1 r1) (stamp_name t2 r2)
              (article_text u b (tn_safe_strip role (full_title (q_class q) (q_title q))) (q_nowH q) (q_lines q) (q_ip q))
              (url_line b (copy_into (copy_into (repeat 0 (Z.to_nat ptttype.FNLEN)) (stamp_name t1 r1)) (stamp_name t2 r2)))
              F1 F2) as (FP & NE & F2').
  exists t1, r1, t2, r2. constructor; cbn [o_fn o_entry o_idx o_aid b_dir b_files b_total b_name b_mods]; try reflexivity.
  - exists rest. split; [exact S1|]. exists fs2, rest2. exact S2.
  - apply fexists_false. exact F1.
  - apply fexists_false. exact F2'.
  - exact FP.
Qed.

(* ------------------------------------------------------------------ the index entry *)
Lemma le32_length x : length (le32 x) = 4%nat.
Proof. reflexivity. Qed.

Lemma mk_entry_length fn mt own date title : length fn = 28%nat -> length date = 6%nat ->
  length (mk_entry fn mt own date title) = 128%nat.
Proof.
  intros Hf Hd. unfold mk_entry. rewrite !app_length, !copy_into_length, !repeat_length, Hf, Hd, le32_length. reflexivity.
Qed.

Lemma entry_length role u b q u' b' o : post_on role u b q = Ok (u', b', o) -> length (o_entry o) = 128%nat.
Proof.
  intros H. destruct (post_on_inv _ _ _ _ _ _ _ H) as (t1 & r1 & t2 & r2 & F).
  rewrite (pf_entry _ _ _ _ _ _ _ _ _ _ _ F). apply mk_entry_length.
  - rewrite (pf_fn _ _ _ _ _ _ _ _ _ _ _ F), !copy_into_length, repeat_length. reflexivity.
  - rewrite !copy_into_length, repeat_length. reflexivity.
Qed.

Lemma index_grows role u b q u' b' o : post_on role u b q = Ok (u', b', o) ->
  length (o_entry o) = 128%nat /\
  b_dir b' = firstn (Z.to_nat (lenZ (b_dir b) / 128 * 128)) (b_dir b) ++ o_entry o /\
  o_idx o = lenZ (b_dir b) / 128 + 1 /\
  (lenZ (b_dir b) mod 128 = 0 -> b_dir b' = b_dir b ++ o_entry o /\ lenZ (b_dir b') = lenZ (b_dir b) + 128).
Proof.
  intros H. pose proof (entry_length _ _ _ _ _ _ _ H) as L.
  destruct (post_on_inv _ _ _ _ _ _ _ H) as (t1 & r1 & t2 & r2 & F).
  pose proof (pf_dir _ _ _ _ _ _ _ _ _ _ _ F) as D. pose proof (pf_idx _ _ _ _ _ _ _ _ _ _ _ F) as I.
  unfold append_rec in D. unfold lenZ in D at 2 3. unfold lenZ in I at 2. rewrite L in D, I. change (Z.of_nat 128) with 128 in D, I.
  split; [exact L|]. split; [exact D|]. split; [exact I|].
  intros M. assert (E : lenZ (b_dir b) / 128 * 128 = lenZ (b_dir b)) by lia.
  rewrite E in D. unfold lenZ in D. rewrite Nat2Z.id, firstn_all in D.
  split; [exact D|]. rewrite D. unfold lenZ. rewrite app_length, L. lia.
Qed.

(* slicing the 128 bytes *)
Lemma entry_fields fn mt own date title : length fn = 28%nat -> length date = 6%nat ->
  let e := mk_entry fn mt own date title in
  firstn 28 e = fn /\
  firstn 4 (skipn 28 e) = le32 mt /\
  firstn 14 (skipn 34 e) = fixlen 14 own /\
  firstn 6 (skipn 48 e) = date /\
  firstn 65 (skipn 54 e) = fixlen 65 title /\
  skipn 119 e = repeat 0 9.
Proof.
  intros Hf Hd e. subst e. unfold mk_entry.
  change (Z.to_nat (ptttype.IDLEN + 2)) with 14%nat. change (Z.to_nat (ptttype.TTLEN + 1)) with 65%nat.
  rewrite !copy_into_zeros.
  set (O := fixlen 14 own). set (T := fixlen 65 title).
  assert (LO : length O = 14%nat) by apply fixlen_length.
  assert (LT : length T = 65%nat) by apply fixlen_length.
  split; [apply firstn_app_exact; exact Hf|].
  split. { rewrite skipn_app_exact by exact Hf. apply firstn_app_exact. reflexivity. }
  split. { rewrite (app_assoc fn), (app_assoc (fn ++ le32 mt)).
           rewrite skipn_app_exact by (rewrite !app_length, Hf; reflexivity). apply firstn_app_exact. exact LO. }
  split. { rewrite (app_assoc fn), (app_assoc (fn ++ le32 mt)), (app_assoc ((fn ++ le32 mt) ++ [0; 0])).
           rewrite skipn_app_exact by (rewrite !app_length, Hf, LO; reflexivity). apply firstn_app_exact. exact Hd. }
  split. { rewrite (app_assoc fn), (app_assoc (fn ++ le32 mt)), (app_assoc ((fn ++ le32 mt) ++ [0; 0])), (app_assoc (((fn ++ le32 mt) ++ [0; 0]) ++ O)).
           rewrite skipn_app_exact by (rewrite !app_length, Hf, LO, Hd; reflexivity). apply firstn_app_exact. exact LT. }
  rewrite (app_assoc fn), (app_assoc (fn ++ le32 mt)), (app_assoc ((fn ++ le32 mt) ++ [0; 0])), (app_assoc (((fn ++ le32 mt) ++ [0; 0]) ++ O)),
          (app_assoc ((((fn ++ le32 mt) ++ [0; 0]) ++ O) ++ date)).
  rewrite skipn_app_exact by (rewrite !app_length, Hf, LO, Hd, LT; reflexivity). reflexivity.
Qed.

(* ------------------------------------------------------------------ observed inputs in range *)
(* clock readings are 10-digit times below 2^31 (with room for the increments of Stampfile), draws are < 4096 *)
Definition in_range (q : req) : Prop :=
  1000000000 <= q_nowA q /\ 1000000000 <= q_nowB q /\
  q_nowA q + lenZ (q_rnds q) < 2147483648 /\ q_nowB q + lenZ (q_rnds q) < 2147483648 /\
  Forall (fun r => 0 <= r < 4096) (q_rnds q).

Lemma post_names role u b q u' b' o t1 r1 t2 r2 : in_range q -> post_facts role u b q u' b' o t1 r1 t2 r2 ->
  1000000000 <= t1 < 2147483648 /\ 1000000000 <= t2 < 2147483648 /\ 0 <= r2 < 4096 /\
  o_fn o = mk_name 77 t2 r2 /\ cprefix (o_fn o) = stamp_name t2 r2.
Proof.
  intros (HA & HB & HA' & HB' & HR) F.
  destruct (pf_stamp1 _ _ _ _ _ _ _ _ _ _ _ F) as (rest & S1 & fs2 & rest2 & S2).
  unfold lenZ in *.
  destruct (stamp_range (q_rnds q) (b_files b) (q_nowA q) t1 r1 rest ltac:(lia) HA' S1) as (A1 & A2 & A3 & A4).
  assert (Hlen : (length rest <= length (q_rnds q))%nat) by lia.
  destruct (stamp_range rest fs2 (q_nowB q) t2 r2 rest2 ltac:(lia) ltac:(lia) S2) as (B1 & B2 & B3 & B4).
  assert (T1 : 1000000000 <= t1 < 2147483648) by lia.
  assert (T2 : 1000000000 <= t2 < 2147483648) by lia.
  assert (R2 : 0 <= r2 < 4096). { rewrite Forall_forall in HR. apply HR. apply A4. exact B3. }
  split; [exact T1|]. split; [exact T2|]. split; [exact R2|].
  assert (E : o_fn o = mk_name 77 t2 r2).
  { rewrite (pf_fn _ _ _ _ _ _ _ _ _ _ _ F). apply fn_second_stamp; assumption. }
  split; [exact E|]. rewrite E, cprefix_mk_name, stamp_name_body by exact T2. reflexivity.
Qed.

(* ------------------------------------------------------------------ dates: Cdatemd is always 5 characters in the range of times *)
Definition md_of_day (d : Z) : list Z :=
  let '(y, m, dd) := civil d in
  let s := print_dec m ++ [47] ++ two dd in
  if (length s =? 4)%nat then 32 :: s else s.

Lemma cdatemd_day t : cdatemd t = md_of_day ((t + TZ_OFFSET) / 86400).
Proof. reflexivity. Qed.

Definition md5_ok (i : Z) : bool := (length (md_of_day (11574 + i)) =? 5)%nat.

Lemma md5_sweep : forallb md5_ok (zrange (Z.to_nat 13290)) = true.
Proof. vm_compute. reflexivity. Qed.

Lemma cdatemd_length t : 1000000000 <= t < 2147483648 -> length (cdatemd t) = 5%nat.
Proof.
  intros H. rewrite cdatemd_day. unfold TZ_OFFSET.
  set (d := (t + 28800) / 86400).
  assert (Hd : 0 <= d - 11574 < Z.of_nat (Z.to_nat 13290)) by (rewrite Z2Nat.id by lia; subst d; lia).
  pose proof (sweep md5_ok _ md5_sweep _ Hd) as S. unfold md5_ok in S.
  replace (11574 + (d - 11574)) with d in S by lia. apply Nat.eqb_eq in S. exact S.
Qed.

Lemma date_field t1 t2 : 1000000000 <= t1 < 2147483648 -> 1000000000 <= t2 < 2147483648 ->
  copy_into (copy_into (repeat 0 6) (cdatemd t1)) (cdatemd t2) = fixlen 6 (cdatemd t2).
Proof.
  intros H1 H2. rewrite copy_into_zeros. apply copy_into_twice. rewrite !cdatemd_length by assumption. reflexivity.
Qed.

(* ------------------------------------------------------------------ theorems about one post *)
Lemma file_content role u b q u' b' o : in_range q -> post_on role u b q = Ok (u', b', o) ->
  let name := cprefix (o_fn o) in
  fexists (b_files b) name = false /\
  lookup name (b_files b') =
    Some (header u b (tn_safe_strip role (full_title (q_class q) (q_title q))) (q_nowH q)
          ++ process_lines (q_lines q) ++ signature (q_ip q) ++ url_line b (o_fn o)) /\
  (forall n, n <> name -> lookup n (b_files b') = lookup n (b_files b)).
Proof.
  intros R H name. destruct (post_on_inv _ _ _ _ _ _ _ H) as (t1 & r1 & t2 & r2 & F).
  destruct (post_names _ _ _ _ _ _ _ _ _ _ _ R F) as (_ & _ & _ & _ & E).
  subst name. rewrite E.
  split; [exact (pf_fresh2 _ _ _ _ _ _ _ _ _ _ _ F)|].
  pose proof (pf_files _ _ _ _ _ _ _ _ _ _ _ F) as P.
  split.
  - rewrite P, bytes_eqb_refl. unfold the_text, the_title, article_text. rewrite <- !app_assoc. reflexivity.
  - intros n Hn. rewrite P, bytes_eqb_neq by congruence. reflexivity.
Qed.

Lemma header_fields role u b q u' b' o : in_range q -> post_on role u b q = Ok (u', b', o) ->
  exists t2 r2, 1000000000 <= t2 < 2147483648 /\ 0 <= r2 < 4096 /\
    o_fn o = mk_name 77 t2 r2 /\
    let e := o_entry o in
    firstn 28 e = mk_name 77 t2 r2 /\
    firstn 4 (skipn 28 e) = le32 (q_mtime q) /\
    firstn 14 (skipn 34 e) = fixlen 14 (u_id u) /\
    firstn 6 (skipn 48 e) = fixlen 6 (cdatemd t2) /\
    firstn 65 (skipn 54 e) = fixlen 65 (tn_safe_strip role (full_title (q_class q) (q_title q))) /\
    skipn 119 e = repeat 0 9.
Proof.
  intros R H. destruct (post_on_inv _ _ _ _ _ _ _ H) as (t1 & r1 & t2 & r2 & F).
  destruct (post_names _ _ _ _ _ _ _ _ _ _ _ R F) as (T1 & T2 & R2 & E & _).
  exists t2, r2. split; [exact T2|]. split; [exact R2|]. split; [exact E|].
  intros e. subst e. rewrite (pf_entry _ _ _ _ _ _ _ _ _ _ _ F), date_field by assumption. rewrite E.
  apply entry_fields.
  - unfold mk_name. apply fixlen_length.
  - apply fixlen_length.
Qed.

(* the stored title is the leading bytes of "[class] title" (tag dropped for authors who may not use it) *)
Lemma stored_title_prefix role cls title :
  firstn 65 (fixlen 65 (tn_safe_strip role (full_title cls title))) = fixlen 65 (tn_safe_strip role (full_title cls title)) /\
  firstn (Nat.min 65 (length (tn_safe_strip role (full_title cls title)))) (fixlen 65 (tn_safe_strip role (full_title cls title)))
    = firstn 65 (tn_safe_strip role (full_title cls title)) /\
  (tn_safe_strip role (full_title cls title) = full_title cls title \/
   (role = false /\ full_title cls title = TN_ANNOUNCE_BIG5 ++ tn_safe_strip role (full_title cls title))).
Proof.
  set (T := tn_safe_strip role (full_title cls title)).
  split; [apply firstn_all2; rewrite fixlen_length; lia|]. split.
  - unfold fixlen. rewrite firstn_app. rewrite firstn_firstn.
    replace (Nat.min (Nat.min 65 (length T)) 65) with (Nat.min 65 (length T)) by lia.
    rewrite firstn_length. replace (Nat.min 65 (length T) - Nat.min 65 (length T))%nat with O by lia.
    rewrite firstn_O, app_nil_r.
    destruct (Nat.le_gt_cases (length T) 65).
    + rewrite Nat.min_r by lia. rewrite !firstn_all2 by lia. reflexivity.
    + rewrite Nat.min_l by lia. reflexivity.
  - subst T. unfold tn_safe_strip. change ALLOW_FREE_TN_ANNOUNCE with false. cbn [orb].
    destruct role; cbn [orb]; [left; reflexivity|].
    destruct (is_tn_announce (full_title cls title)) eqn:E; cbn [negb]; [|left; reflexivity].
    right. split; [reflexivity|]. unfold is_tn_announce in E.
    revert E. generalize (full_title cls title). generalize TN_ANNOUNCE_BIG5.
    induction l as [|x p IH]; intros s E; [reflexivity|].
    destruct s as [|y s]; cbn [has_prefix] in E; [discriminate|].
    apply andb_true_iff in E. destruct E as [E1 E2]. apply Z.eqb_eq in E1. subst y.
    cbn [length skipn app]. f_equal. apply IH. exact E2.
Qed.

Lemma total_after role u b q u' b' o : lenZ (b_dir b) < 2147483648 * 128 - 128 -> post_on role u b q = Ok (u', b', o) ->
  b_total b' = lenZ (b_dir b') / 128 /\ b_total b' = lenZ (b_dir b) / 128 + 1.
Proof.
  intros B H. destruct (index_grows _ _ _ _ _ _ _ H) as (L & D & _ & _).
  destruct (post_on_inv _ _ _ _ _ _ _ H) as (t1 & r1 & t2 & r2 & F).
  rewrite (pf_total _ _ _ _ _ _ _ _ _ _ _ F). change ptttype.FILE_HEADER_RAW_SZ with 128.
  assert (E : lenZ (b_dir b') = lenZ (b_dir b) / 128 * 128 + 128).
  { rewrite D. unfold lenZ. rewrite app_length, firstn_length, L.
    assert (0 <= Z.of_nat (length (b_dir b))) by lia.
    rewrite Nat.min_l by lia. lia. }
  assert (P : 0 <= lenZ (b_dir b)) by (unfold lenZ; lia).
  rewrite E. rewrite wrap32_small by lia. split; lia.
Qed.

Lemma numposts_after role u b q u' b' o : post_on role u b q = Ok (u', b', o) ->
  u_numposts u' = (u_numposts u + 1) mod 4294967296 /\
  (0 <= u_numposts u < 4294967295 -> u_numposts u' = u_numposts u + 1) /\
  u_id u' = u_id u /\ u_nick u' = u_nick u /\ u_priv u' = u_priv u.
Proof.
  intros H. destruct (post_on_inv _ _ _ _ _ _ _ H) as (t1 & r1 & t2 & r2 & F).
  rewrite (pf_user _ _ _ _ _ _ _ _ _ _ _ F). cbn [u_numposts u_id u_nick u_priv]. unfold wrapu32.
  split; [reflexivity|]. split; [intros B; apply Z.mod_small; lia|]. repeat split.
Qed.

Lemma fetch_after role u b q u' b' o : in_range q -> post_on role u b q = Ok (u', b', o) ->
  fetch b' (o_aid o) =
    Ok (Some (header u b (tn_safe_strip role (full_title (q_class q) (q_title q))) (q_nowH q)
              ++ process_lines (q_lines q) ++ signature (q_ip q) ++ url_line b (o_fn o))).
Proof.
  intros R H. destruct (file_content _ _ _ _ _ _ _ R H) as (_ & C & _).
  destruct (post_on_inv _ _ _ _ _ _ _ H) as (t1 & r1 & t2 & r2 & F).
  destruct (post_names _ _ _ _ _ _ _ _ _ _ _ R F) as (_ & T2 & R2 & E & _).
  unfold fetch. rewrite (pf_aid _ _ _ _ _ _ _ _ _ _ _ F), E, aid_roundtrip by assumption.
  rewrite <- E. rewrite C. rewrite E. unfold mk_name, fixlen. cbn [firstn app nth]. reflexivity.
Qed.

(* ------------------------------------------------------------------ no crash *)
Lemma post_on_no_crash role u b q : post_on role u b q <> Crash.
Proof.
  unfold post_on. destruct (stamp (b_files b) (q_nowA q) (q_rnds q)) as [[[t1 r1] rest]|]; [|discriminate].
  cbv zeta. match goal with |- context [stamp ?fs (q_nowB q) rest] => destruct (stamp fs (q_nowB q) rest) as [[[t2 r2] rest2]|] end; discriminate.
Qed.

Lemma post_no_crash st q : post st q <> Crash.
Proof.
  unfold post. pose proof (post_on_no_crash (allowed_by_role (q_user q) (nth (Z.to_nat (q_user q)) (s_users st) dflt_user) (nth (Z.to_nat (q_board q)) (s_boards st) dflt_board))
    (nth (Z.to_nat (q_user q)) (s_users st) dflt_user) (nth (Z.to_nat (q_board q)) (s_boards st) dflt_board) q) as N.
  destruct (post_on _ _ _ q) as [[[u' b'] o]| |]; [discriminate|contradiction|discriminate].
Qed.

Lemma post_seq_no_crash qs : forall st, post_seq st qs <> Crash.
Proof.
  induction qs as [|q qs IH]; intros st; cbn [post_seq]; [discriminate|].
  pose proof (post_no_crash st q) as N. destruct (post st q) as [[st' o]| |]; [|contradiction|discriminate].
  pose proof (IH st') as N'. destruct (post_seq st' qs) as [[st'' os]| |]; [discriminate|contradiction|discriminate].
Qed.

(* the only failure of the model is "the observed stream of random draws ended": a fresh first name suffices *)
Lemma stamp_first_fresh fs now r rest : fexists fs (stamp_name (wrap32 (now + 1)) r) = false ->
  stamp fs now (r :: rest) = Some (wrap32 (now + 1), r, rest).
Proof. intros H. cbn [stamp]. rewrite H. reflexivity. Qed.

(* ------------------------------------------------------------------ what "processed line" means *)
Lemma defuse_length l : forall s, length (defuse s l) = length l.
Proof.
  induction l as [|c r IH]; intros s; cbn [defuse]; [reflexivity|].
  destruct (c =? types_ansi.ESC_CHR); [cbn [length]; rewrite IH; reflexivity|].
  destruct s; [|cbn [length]; rewrite IH; reflexivity].
  destruct (memb c PATTERN_ANSI_CODE); [cbn [length]; rewrite IH; reflexivity|].
  destruct (memb c PATTERN_ANSI_MOVECMD); cbn [length]; rewrite IH; reflexivity.
Qed.

(* only command bytes of cursor-movement sequences change, and they become 's' *)
Lemma defuse_pointwise l : forall s,
  Forall2 (fun a b => b = a \/ (memb a PATTERN_ANSI_MOVECMD = true /\ b = 115)) l (defuse s l).
Proof.
  induction l as [|c r IH]; intros s; cbn [defuse]; [constructor|].
  destruct (c =? types_ansi.ESC_CHR); [constructor; [left; reflexivity|apply IH]|].
  destruct s; [|constructor; [left; reflexivity|apply IH]].
  destruct (memb c PATTERN_ANSI_CODE); [constructor; [left; reflexivity|apply IH]|].
  destruct (memb c PATTERN_ANSI_MOVECMD) eqn:E; constructor; try apply IH; [right; split; [exact E|reflexivity]|left; reflexivity].
Qed.

(* the output contains nothing left to defuse: it is a fixed point *)
Lemma defuse_idem l : forall s, defuse s (defuse s l) = defuse s l.
Proof.
  induction l as [|c r IH]; intros s; cbn [defuse]; [reflexivity|].
  destruct (c =? types_ansi.ESC_CHR) eqn:E1.
  - cbn [defuse]. rewrite E1, IH. reflexivity.
  - destruct s.
    + destruct (memb c PATTERN_ANSI_CODE) eqn:E2.
      * cbn [defuse]. rewrite E1, E2, IH. reflexivity.
      * destruct (memb c PATTERN_ANSI_MOVECMD) eqn:E3.
        -- cbn [defuse]. change (115 =? types_ansi.ESC_CHR) with false. change (memb 115 PATTERN_ANSI_CODE) with false.
           change (memb 115 PATTERN_ANSI_MOVECMD) with false. cbv iota. rewrite IH. reflexivity.
        -- cbn [defuse]. rewrite E1, E2, E3, IH. reflexivity.
    + cbn [defuse]. rewrite E1, IH. reflexivity.
Qed.

Lemma rtrim_sp_spec l : exists k, l = rtrim_sp l ++ repeat 32 k /\ (rtrim_sp l = [] \/ last (rtrim_sp l) 0 <> 32).
Proof.
  induction l as [|c r (k & E & L)]; [exists O; split; [reflexivity|left; reflexivity]|].
  cbn [rtrim_sp]. destruct (rtrim_sp r) as [|x r'] eqn:R.
  - destruct (Z.eqb_spec c 32) as [->|Hc].
    + exists (S k). split; [cbn [repeat app]; rewrite E at 1; reflexivity|left; reflexivity].
    + exists k. split; [cbn [app]; rewrite E at 1; reflexivity|right; exact Hc].
  - exists k. split; [cbn [app]; rewrite E at 1; reflexivity|].
    right. destruct L as [L|L]; [discriminate|]. exact L.
Qed.

Lemma cprefix_nul_free l : Forall (fun c => c <> 0) (cprefix l).
Proof.
  induction l as [|c r IH]; cbn [cprefix]; [constructor|].
  destruct (Z.eqb_spec c 0); [constructor|constructor; assumption].
Qed.

(* trim: the bytes before the first NUL, without the trailing blanks; no NUL, no trailing blank *)
Lemma trim_spec l : exists k, cprefix l = trim l ++ repeat 32 k /\ (trim l = [] \/ last (trim l) 0 <> 32) /\ Forall (fun c => c <> 0) (trim l).
Proof.
  unfold trim. destruct (rtrim_sp_spec (cprefix l)) as (k & E & L). exists k. split; [exact E|]. split; [exact L|].
  pose proof (cprefix_nul_free l) as N. rewrite E in N. apply Forall_app in N. apply N.
Qed.

(* the body: every line but an empty last one *)
Lemma process_lines_last_empty ls : process_lines (ls ++ [[]]) = flat_map process_line ls.
Proof.
  induction ls as [|l r IH]; [reflexivity|].
  cbn [app flat_map]. rewrite <- IH. cbn [process_lines].
  destruct (r ++ [[]]) eqn:E; [destruct r; discriminate|reflexivity].
Qed.

Lemma process_lines_last_nonempty ls l : l <> [] -> process_lines (ls ++ [l]) = flat_map process_line (ls ++ [l]).
Proof.
  intros H. induction ls as [|x r IH].
  - cbn. destruct l; [contradiction|]. rewrite app_nil_r. reflexivity.
  - cbn [app flat_map]. rewrite <- IH. cbn [process_lines].
    destruct (r ++ [l]) eqn:E; [destruct r; discriminate|reflexivity].
Qed.

(* ------------------------------------------------------------------ sequences of posts *)
Lemma upd_length {A} n (x : A) l : length (upd n x l) = length l.
Proof. revert n. induction l as [|a l IH]; intros [|n]; cbn; try reflexivity. rewrite IH. reflexivity. Qed.

Lemma nth_upd_same {A} n (x d : A) l : (n < length l)%nat -> nth n (upd n x l) d = x.
Proof. revert n. induction l as [|a l IH]; intros [|n] H; cbn in *; try lia; [reflexivity|]. apply IH. lia. Qed.

Lemma nth_upd_other {A} n m (x d : A) l : n <> m -> nth m (upd n x l) d = nth m l d.
Proof.
  revert n m. induction l as [|a l IH]; intros [|n] [|m] H; cbn; try reflexivity; try congruence.
  apply IH. congruence.
Qed.

Definition usr (st : state) (j : nat) : user := nth j (s_users st) dflt_user.
Definition brd (st : state) (i : nat) : board := nth i (s_boards st) dflt_board.
Definition dir_ok (b : board) : Prop := lenZ (b_dir b) mod 128 = 0.

Fixpoint entries_for (i : nat) (qs : list req) (os : list outcome) : list Z :=
  match qs, os with
  | q :: qs', o :: os' => (if (Z.to_nat (q_board q) =? i)%nat then o_entry o else []) ++ entries_for i qs' os'
  | _, _ => []
  end.
Fixpoint posts_by (j : nat) (qs : list req) : Z :=
  match qs with
  | [] => 0
  | q :: qs' => (if (Z.to_nat (q_user q) =? j)%nat then 1 else 0) + posts_by j qs'
  end.

Lemma post_step st q st' o : req_ok st q = true -> post st q = Ok (st', o) ->
  exists u' b',
    post_on (allowed_by_role (q_user q) (usr st (Z.to_nat (q_user q))) (brd st (Z.to_nat (q_board q))))
            (usr st (Z.to_nat (q_user q))) (brd st (Z.to_nat (q_board q))) q = Ok (u', b', o) /\
    s_users st' = upd (Z.to_nat (q_user q)) u' (s_users st) /\
    s_boards st' = upd (Z.to_nat (q_board q)) b' (s_boards st) /\
    (Z.to_nat (q_user q) < length (s_users st))%nat /\ (Z.to_nat (q_board q) < length (s_boards st))%nat.
Proof.
  intros R H. unfold post in H. fold (usr st (Z.to_nat (q_user q))) in H. fold (brd st (Z.to_nat (q_board q))) in H.
  destruct (post_on _ _ _ q) as [[[u' b'] o']| |] eqn:P; try discriminate.
  inversion H; subst st' o'; clear H. exists u', b'. split; [reflexivity|]. cbn [s_users s_boards].
  unfold req_ok, lenZ in R. rewrite !andb_true_iff in R. destruct R as (((R1 & R2) & R3) & R4).
  repeat split; lia.
Qed.

Lemma req_ok_step st q st' o q2 : req_ok st q = true -> post st q = Ok (st', o) -> req_ok st' q2 = req_ok st q2.
Proof.
  intros R H. destruct (post_step _ _ _ _ R H) as (u' & b' & _ & EU & EB & _ & _).
  unfold req_ok, lenZ. rewrite EU, EB, !upd_length. reflexivity.
Qed.

(* frame of one post at the level of the whole state *)
Lemma post_frame st q st' o : req_ok st q = true -> post st q = Ok (st', o) ->
  (forall i, i <> Z.to_nat (q_board q) -> brd st' i = brd st i) /\
  (forall j, j <> Z.to_nat (q_user q) -> usr st' j = usr st j) /\
  (forall i n c, lookup n (b_files (brd st i)) = Some c -> lookup n (b_files (brd st' i)) = Some c) /\
  (forall i, dir_ok (brd st i) ->
     b_dir (brd st' i) = b_dir (brd st i) ++ (if (Z.to_nat (q_board q) =? i)%nat then o_entry o else []) /\ dir_ok (brd st' i)) /\
  (forall j, u_numposts (usr st' j) = (u_numposts (usr st j) + (if (Z.to_nat (q_user q) =? j)%nat then 1 else 0)) mod 4294967296
             \/ (j <> Z.to_nat (q_user q) /\ u_numposts (usr st' j) = u_numposts (usr st j))).
Proof.
  intros R H. destruct (post_step _ _ _ _ R H) as (u' & b' & P & EU & EB & LU & LB).
  set (ui := Z.to_nat (q_user q)) in *. set (bi := Z.to_nat (q_board q)) in *.
  assert (Bsame : brd st' bi = b') by (unfold brd; rewrite EB; apply nth_upd_same; exact LB).
  assert (Usame : usr st' ui = u') by (unfold usr; rewrite EU; apply nth_upd_same; exact LU).
  assert (Bother : forall i, i <> bi -> brd st' i = brd st i) by (intros i Hi; unfold brd; rewrite EB; apply nth_upd_other; congruence).
  assert (Uother : forall j, j <> ui -> usr st' j = usr st j) by (intros j Hj; unfold usr; rewrite EU; apply nth_upd_other; congruence).
  split; [exact Bother|]. split; [exact Uother|].
  destruct (post_on_inv _ _ _ _ _ _ _ P) as (t1 & r1 & t2 & r2 & F).
  split; [|split].
  - intros i n c L. destruct (Nat.eq_dec i bi) as [->|Hi]; [|rewrite Bother by exact Hi; exact L].
    rewrite Bsame. rewrite (pf_files _ _ _ _ _ _ _ _ _ _ _ F).
    destruct (bytes_eqb (stamp_name t2 r2) n) eqn:E; [|exact L].
    apply bytes_eqb_eq in E. subst n. pose proof (pf_fresh2 _ _ _ _ _ _ _ _ _ _ _ F) as Fr.
    apply fexists_false in Fr. fold bi in Fr. rewrite Fr in L. discriminate.
  - intros i D. destruct (Nat.eqb_spec bi i) as [<-|Hi].
    + rewrite Bsame. destruct (index_grows _ _ _ _ _ _ _ P) as (_ & _ & _ & G). destruct (G D) as (G1 & G2).
      split; [exact G1|]. unfold dir_ok in *. rewrite G2. lia.
    + rewrite Bother by congruence. rewrite app_nil_r. split; [reflexivity|exact D].
  - intros j. destruct (Nat.eqb_spec ui j) as [<-|Hj].
    + left. rewrite Usame. destruct (numposts_after _ _ _ _ _ _ _ P) as (N & _). exact N.
    + right. split; [congruence|]. rewrite Uother by congruence. reflexivity.
Qed.

Lemma sequence qs : forall st st' os,
  forallb (req_ok st) qs = true -> post_seq st qs = Ok (st', os) ->
  length os = length qs /\
  length (s_users st') = length (s_users st) /\ length (s_boards st') = length (s_boards st) /\
  (forall i, dir_ok (brd st i) -> b_dir (brd st' i) = b_dir (brd st i) ++ entries_for i qs os /\ dir_ok (brd st' i)) /\
  (forall j, u_numposts (usr st' j) = u_numposts (usr st j) /\ posts_by j qs = 0
             \/ u_numposts (usr st' j) = (u_numposts (usr st j) + posts_by j qs) mod 4294967296) /\
  (forall i n c, lookup n (b_files (brd st i)) = Some c -> lookup n (b_files (brd st' i)) = Some c).
Proof.
  induction qs as [|q qs IH]; intros st st' os R H.
  - cbn [post_seq] in H. inversion H; subst. cbn [entries_for posts_by length].
    split; [reflexivity|]. split; [reflexivity|]. split; [reflexivity|].
    split; [intros i D; rewrite app_nil_r; split; [reflexivity|exact D]|].
    split; [intros j; left; split; reflexivity|]. intros i n c L; exact L.
  - cbn [forallb] in R. apply andb_true_iff in R. destruct R as [Rq Rs].
    cbn [post_seq] in H. destruct (post st q) as [[st1 o]| |] eqn:P; try discriminate.
    destruct (post_seq st1 qs) as [[st2 os']| |] eqn:PS; try discriminate.
    inversion H; subst st' os; clear H.
    assert (Rs' : forallb (req_ok st1) qs = true).
    { rewrite forallb_forall in *. intros q2 Hq2. rewrite (req_ok_step _ _ _ _ q2 Rq P). apply Rs. exact Hq2. }
    destruct (IH _ _ _ Rs' PS) as (L & LU & LB & D & N & K).
    destruct (post_frame _ _ _ _ Rq P) as (_ & _ & K1 & D1 & N1).
    destruct (post_step _ _ _ _ Rq P) as (u' & b' & _ & EU & EB & _ & _).
    split; [cbn [length]; rewrite L; reflexivity|].
    split; [rewrite LU, EU, upd_length; reflexivity|].
    split; [rewrite LB, EB, upd_length; reflexivity|].
    split; [|split].
    + intros i Di. destruct (D1 i Di) as (E1 & Di1). destruct (D i Di1) as (E2 & Di2).
      split; [|exact Di2]. rewrite E2, E1. cbn [entries_for]. rewrite app_assoc. reflexivity.
    + intros j. cbn [posts_by]. destruct (N j) as [(E2 & Z2)|E2]; destruct (N1 j) as [E1|(Hj & E1)].
      * right. rewrite E2, E1, Z2, Z.add_0_r. reflexivity.
      * destruct (Nat.eqb_spec (Z.to_nat (q_user q)) j); [congruence|].
        left. split; [rewrite E2, E1; reflexivity|rewrite Z2; reflexivity].
      * right. rewrite E2, E1. rewrite Zplus_mod_idemp_l. f_equal. lia.
      * destruct (Nat.eqb_spec (Z.to_nat (q_user q)) j); [congruence|].
        right. rewrite E2, E1. reflexivity.
    + intros i n c Lk. apply K. apply K1. exact Lk.
Qed.

(* an article stays retrievable, with the same bytes, whatever is posted afterwards to the same or to other boards *)
Lemma sequence_retrievable st q st1 o qs st2 os : in_range q ->
  req_ok st q = true -> post st q = Ok (st1, o) ->
  forallb (req_ok st1) qs = true -> post_seq st1 qs = Ok (st2, os) ->
  exists content,
    fetch (brd st1 (Z.to_nat (q_board q))) (o_aid o) = Ok (Some content) /\
    fetch (brd st2 (Z.to_nat (q_board q))) (o_aid o) = Ok (Some content).
Proof.
  intros IR R P Rs PS.
  destruct (post_step _ _ _ _ R P) as (u' & b' & Pon & EU & EB & LU & LB).
  assert (Bsame : brd st1 (Z.to_nat (q_board q)) = b') by (unfold brd; rewrite EB; apply nth_upd_same; exact LB).
  pose proof (fetch_after _ _ _ _ _ _ _ IR Pon) as Fa.
  eexists. rewrite Bsame. split; [exact Fa|].
  destruct (sequence _ _ _ _ Rs PS) as (_ & _ & _ & _ & _ & K).
  unfold fetch in *. destruct (articleid_to_fn (o_aid o)) as [fn| |]; try discriminate.
  destruct ((nth 0 fn 0 =? 76) || (nth 0 fn 0 =? 0)); [discriminate|].
  inversion Fa as [Fa']. rewrite <- Bsame in Fa'. rewrite (K _ _ _ Fa'). reflexivity.
Qed.

(* ------------------------------------------------------------------ non-vacuity: a concrete post and a concrete sequence meet the hypotheses *)
Definition ex_users : list user :=
  [mkUser [83;89;83;79;80;0;0;0;0;0;0;0;0] [175;171;0] true 0;
   mkUser [116;101;115;116;49;0;0;0;0;0;0;0;0] [116;101;115;116;49;0] false 7;
   mkUser [67;111;100;105;110;103;77;97;110;0;0;0;0] [181;123;0] false 0].
Definition ex_boards : list board :=
  [mkBoard [87;104;111;65;109;73;0] [1] (repeat 7 256) [([46;68;73;82;46;98;111;116;116;111;109], [1;2;3])] 2;
   mkBoard [69;100;105;116;69;120;112;0] [] [] [] 0].
Definition ex_state : state := mkState ex_users ex_boards.
(* a plain user, no class, a title shorter than the announcement tag, a body with trailing blanks, a NUL,
   a cursor-movement escape and an empty last line *)
Definition ex_req1 : req :=
  mkReq 2 0 [] [104;105] [[97;32;32]; [98;0;99]; [27;91;49;59;50;72;120]; []] [49;50;55;46;48;46;48;46;49]
        1790800000 1790800000 1790800001 1790800000 [542; 1774; 2477; 447].
Definition ex_req2 : req :=
  mkReq 1 1 [116;101;115;116] [91;164;189;167;105;93;32;110;101;119;115] [[120]] [49;50;55;46;48;46;48;46;49]
        1790800001 1790800001 1790800001 1790800001 [542; 542; 9; 10].
Definition ex_req3 : req :=
  mkReq 0 0 [] [] [] [49;50;55;46;48;46;48;46;49]
        1790800000 1790800000 1790800000 1790800000 [542; 1774; 1774; 5].

Example ex_in_range : in_range ex_req1 /\ in_range ex_req2 /\ in_range ex_req3.
Proof.
  unfold in_range, ex_req1, ex_req2, ex_req3, lenZ; cbn [q_nowA q_nowB q_rnds length].
  repeat split; try lia; repeat constructor; lia.
Qed.

Example ex_post_ok : is_ok (post ex_state ex_req1) = true /\ req_ok ex_state ex_req1 = true.
Proof. vm_compute. split; reflexivity. Qed.

(* second and third post collide with names taken by the earlier ones: Stampfile's loop is exercised *)
Example ex_seq_ok : is_ok (post_seq ex_state [ex_req1; ex_req2; ex_req3; ex_req1]) = true /\
                    forallb (req_ok ex_state) [ex_req1; ex_req2; ex_req3; ex_req1] = true /\
                    dir_ok (brd ex_state 0) /\ dir_ok (brd ex_state 1).
Proof. vm_compute. repeat split; reflexivity. Qed.

Example ex_defuse : defuse false [27;91;49;59;50;72;120; 27;91;51;49;109; 27;65] = [27;91;49;59;50;115;120; 27;91;51;49;109; 27;115].
Proof. vm_compute. reflexivity. Qed.

(* ------------------------------------------------------------------ no submitted line is dropped, whatever the number of lines *)
Lemma process_lines_kept ls : process_lines ls = flat_map process_line (kept_lines ls).
Proof.
  induction ls as [|l r IH]; [reflexivity|].
  destruct r as [|l2 r'].
  - destruct l; cbn [process_lines kept_lines flat_map]; [reflexivity|rewrite app_nil_r; reflexivity].
  - change (process_lines (l :: l2 :: r')) with (process_line l ++ process_lines (l2 :: r')).
    change (kept_lines (l :: l2 :: r')) with (l :: kept_lines (l2 :: r')).
    cbn [flat_map]. rewrite IH. reflexivity.
Qed.

(* kept_lines = all the lines but an empty last one *)
Lemma kept_lines_spec ls : if ends_empty ls then ls = kept_lines ls ++ [[]] else kept_lines ls = ls.
Proof.
  induction ls as [|l r IH]; [reflexivity|].
  destruct r as [|l2 r'].
  - destruct l; reflexivity.
  - change (ends_empty (l :: l2 :: r')) with (ends_empty (l2 :: r')).
    change (kept_lines (l :: l2 :: r')) with (l :: kept_lines (l2 :: r')).
    destruct (ends_empty (l2 :: r')); cbn [app]; [rewrite <- IH|rewrite IH]; reflexivity.
Qed.

Lemma ends_empty_spec ls : ends_empty ls = true <-> exists ls', ls = ls' ++ [[]].
Proof.
  split.
  - intros E. pose proof (kept_lines_spec ls) as K. rewrite E in K. exists (kept_lines ls). exact K.
  - intros (ls' & ->). induction ls' as [|l r IH]; [reflexivity|].
    cbn [app]. destruct (r ++ [[]]) eqn:Er; [destruct r; discriminate|]. exact IH.
Qed.

Lemma kept_lines_length ls : length (kept_lines ls) = (length ls - (if ends_empty ls then 1 else 0))%nat.
Proof.
  pose proof (kept_lines_spec ls) as K. destruct (ends_empty ls).
  - rewrite K at 2. rewrite app_length. cbn [length]. lia.
  - rewrite K. lia.
Qed.

(* ... in order: the i-th stored line is made from the i-th submitted line *)
Lemma kept_lines_nth ls i : (i < length (kept_lines ls))%nat -> nth i (kept_lines ls) [] = nth i ls [].
Proof.
  intros H. pose proof (kept_lines_spec ls) as K. destruct (ends_empty ls).
  - rewrite K at 2. rewrite app_nth1 by exact H. reflexivity.
  - rewrite K. reflexivity.
Qed.

Lemma kept_lines_Forall (P : list Z -> Prop) ls : Forall P ls -> Forall P (kept_lines ls).
Proof.
  intros F. pose proof (kept_lines_spec ls) as K. destruct (ends_empty ls).
  - rewrite K in F. apply Forall_app in F. apply F.
  - rewrite K. exact F.
Qed.

(* counting the stored lines in the file: a processed line holds exactly one line feed (its terminator) when the
   submitted line holds none *)
Lemma count_nl_app a b : count_nl (a ++ b) = (count_nl a + count_nl b)%nat.
Proof. unfold count_nl. induction a as [|x a IH]; [reflexivity|]. cbn [app count_occ]. destruct (Z.eq_dec x 10); rewrite IH; reflexivity. Qed.

Lemma defuse_count_nl l : forall s, count_nl (defuse s l) = count_nl l.
Proof.
  unfold count_nl. induction l as [|c r IH]; intros s; cbn [defuse]; [reflexivity|].
  destruct (c =? types_ansi.ESC_CHR); [cbn [count_occ]; rewrite IH; reflexivity|].
  destruct s; [|cbn [count_occ]; rewrite IH; reflexivity].
  destruct (memb c PATTERN_ANSI_CODE); [cbn [count_occ]; rewrite IH; reflexivity|].
  destruct (memb c PATTERN_ANSI_MOVECMD) eqn:E; [|cbn [count_occ]; rewrite IH; reflexivity].
  cbn [count_occ]. rewrite IH.
  destruct (Z.eq_dec c 10) as [->|N]; [discriminate E|].
  destruct (Z.eq_dec 115 10); [discriminate|reflexivity].
Qed.

Lemma cprefix_In x l : In x (cprefix l) -> In x l.
Proof.
  induction l as [|c r IH]; cbn [cprefix]; [intros []|].
  destruct (c =? 0); [intros []|]. intros [->|H]; [left; reflexivity|right; apply IH; exact H].
Qed.

Lemma trim_In x l : In x (trim l) -> In x l.
Proof.
  intros H. destruct (trim_spec l) as (k & E & _). apply cprefix_In. rewrite E. apply in_or_app. left. exact H.
Qed.

Lemma process_line_count_nl l : ~ In 10 l -> count_nl (process_line l) = 1%nat.
Proof.
  intros N. unfold process_line. rewrite count_nl_app, defuse_count_nl.
  assert (Z0 : count_nl (trim l) = 0%nat).
  { unfold count_nl. apply count_occ_not_In. intros H. apply N. apply trim_In. exact H. }
  rewrite Z0. reflexivity.
Qed.

Lemma flat_map_count_nl ls : Forall (fun l => ~ In 10 l) ls -> count_nl (flat_map process_line ls) = length ls.
Proof.
  induction 1 as [|l r Hl Hr IH]; [reflexivity|].
  cbn [flat_map length]. rewrite count_nl_app, IH, (process_line_count_nl _ Hl). reflexivity.
Qed.

(* the published file holds one processed line for every submitted line, in order, for every number of lines; only an
   empty last line is skipped *)
Lemma all_lines_stored role u b q u' b' o : in_range q -> post_on role u b q = Ok (u', b', o) ->
  let ls := q_lines q in
  lookup (cprefix (o_fn o)) (b_files b') =
    Some (header u b (tn_safe_strip role (full_title (q_class q) (q_title q))) (q_nowH q)
          ++ flat_map process_line (kept_lines ls) ++ signature (q_ip q) ++ url_line b (o_fn o)) /\
  (if ends_empty ls then ls = kept_lines ls ++ [[]] else kept_lines ls = ls) /\
  (ends_empty ls = true <-> exists ls', ls = ls' ++ [[]]) /\
  length (kept_lines ls) = (length ls - (if ends_empty ls then 1 else 0))%nat /\
  (forall i, (i < length (kept_lines ls))%nat -> nth i (kept_lines ls) [] = nth i ls []) /\
  (Forall (fun l => ~ In 10 l) ls -> count_nl (flat_map process_line (kept_lines ls)) = length (kept_lines ls)).
Proof.
  intros R H ls. destruct (file_content _ _ _ _ _ _ _ R H) as (_ & F & _).
  split; [rewrite <- process_lines_kept; exact F|].
  split; [exact (kept_lines_spec ls)|]. split; [exact (ends_empty_spec ls)|]. split; [exact (kept_lines_length ls)|].
  split; [exact (kept_lines_nth ls)|].
  intros N. apply flat_map_count_nl. apply kept_lines_Forall. exact N.
Qed.

(* instances at the sizes the check posts: one more line than the terminal editor's MAX_EDIT_LINE (Gen/PostTab.v), and 5000 lines
   (with and without an empty last line) — every one of them is in the file the example post publishes *)
Definition ex_req_lines (ls : list (list Z)) : req :=
  mkReq 2 0 [] [104;105] ls [49;50;55;46;48;46;48;46;49] 1790800000 1790800000 1790800001 1790800000 [542; 1774; 2477; 447].
Definition ex_file_nl (ls : list (list Z)) : option nat :=
  match post ex_state (ex_req_lines ls) with
  | Ok (st', o) => option_map count_nl (lookup (cprefix (o_fn o)) (b_files (brd st' 0)))
  | _ => None
  end.
Definition ex_lines (n : Z) : list (list Z) := map (fun i => [108; 105; 110; 101; 32] ++ print_dec i ++ [32; 32]) (zrange (Z.to_nat n)).

Example ex_all_lines_stored :
  let n := MAX_EDIT_LINE + 1 in
  1 < n /\
  length (kept_lines (ex_lines n)) = Z.to_nat n /\ length (kept_lines (ex_lines n ++ [[]])) = Z.to_nat n /\
  count_nl (process_lines (ex_lines n)) = Z.to_nat n /\
  count_nl (process_lines (ex_lines 5000 ++ [[]])) = Z.to_nat 5000 /\
  ex_file_nl (ex_lines n) = option_map (Nat.add (Z.to_nat n)) (ex_file_nl []) /\
  ex_file_nl (ex_lines 5000) = option_map (Nat.add (Z.to_nat 5000)) (ex_file_nl []) /\
  ex_file_nl [] <> None.
Proof. vm_compute. repeat split; try reflexivity. discriminate. Qed.

(* ------------------------------------------------------------------ progress: two fresh names suffice *)
Lemma post_on_succeeds role u b q r1 r2 rest :
  q_rnds q = r1 :: r2 :: rest ->
  let n1 := stamp_name (wrap32 (q_nowA q + 1)) r1 in
  let n2 := stamp_name (wrap32 (q_nowB q + 1)) r2 in
  fexists (b_files b) n1 = false -> fexists (b_files b) n2 = false -> n1 <> n2 ->
  exists r, post_on role u b q = Ok r.
Proof.
  intros E n1 n2 F1 F2 NE. unfold post_on. rewrite E.
  rewrite (stamp_first_fresh _ _ _ _ F1). cbv zeta. fold n1.
  match goal with |- context [stamp ?fs (q_nowB q) (r2 :: rest)] => set (fs2 := fs) end.
  assert (F2' : fexists fs2 n2 = false).
  { apply fexists_false. apply fexists_false in F2. rewrite <- F2. subst fs2. unfold fs_write0.
    rewrite lookup_set_same. rewrite !lookup_set_other by exact NE. reflexivity. }
  rewrite (stamp_first_fresh _ _ _ _ F2'). fold n2.
  eexists. reflexivity.
Qed.

(* ------------------------------------------------------------------ the calendar algorithm against its inverse (days_from_civil), on every day of the range *)
Definition days_from_civil (y m d : Z) : Z :=
  let y' := if m <=? 2 then y - 1 else y in
  let era := y' / 400 in
  let yoe := y' - era * 400 in
  let doy := (153 * (if m >? 2 then m - 3 else m + 9) + 2) / 5 + d - 1 in
  let doe := yoe * 365 + yoe / 4 - yoe / 100 + doy in
  era * 146097 + doe - 719468.
Definition is_leap (y : Z) : bool := ((y mod 4 =? 0) && negb (y mod 100 =? 0)) || (y mod 400 =? 0).
Definition month_len (y m : Z) : Z :=
  if m =? 2 then (if is_leap y then 29 else 28)
  else if (m =? 4) || (m =? 6) || (m =? 9) || (m =? 11) then 30 else 31.
Definition civil_ok (i : Z) : bool :=
  let '(y, m, d) := civil (11574 + i) in
  (1 <=? m) && (m <=? 12) && (1 <=? d) && (d <=? month_len y m) && (2001 <=? y) && (y <=? 2038)
  && (days_from_civil y m d =? 11574 + i).

Lemma civil_sweep : forallb civil_ok (zrange (Z.to_nat 13290)) = true.
Proof. vm_compute. reflexivity. Qed.

(* for every time of the range, the (year, month, day) used for the date field and the header is a valid calendar
   date of the local day number (t + 8h) / 86400 *)
Lemma civil_correct t : 1000000000 <= t < 2147483648 ->
  let '(y, m, d) := civil ((t + TZ_OFFSET) / 86400) in
  1 <= m <= 12 /\ 1 <= d <= month_len y m /\ 2001 <= y <= 2038 /\ days_from_civil y m d = (t + TZ_OFFSET) / 86400.
Proof.
  intros H. unfold TZ_OFFSET. set (dd := (t + 28800) / 86400).
  assert (Hd : 0 <= dd - 11574 < Z.of_nat (Z.to_nat 13290)) by (rewrite Z2Nat.id by lia; subst dd; lia).
  pose proof (sweep civil_ok _ civil_sweep _ Hd) as S. unfold civil_ok in S.
  replace (11574 + (dd - 11574)) with dd in S by lia.
  destruct (civil dd) as [[y m] d]. rewrite !andb_true_iff in S.
  destruct S as ((((((S1 & S2) & S3) & S4) & S5) & S6) & S7).
  apply Z.eqb_eq in S7. lia.
Qed.

(* ------------------------------------------------------------------ SetBTotal and the shared memory around a post *)
Lemma create_time_mk_name t r : 0 <= t < 2147483648 -> create_time (mk_name 77 t r) = Some t.
Proof.
  intros Ht. unfold create_time, mk_name.
  destruct (name_fields 77 (map dec_char (digitsB 10 10 t)) (map hexU_char (digitsB 16 3 r)))
    as (_ & _ & _ & _ & ED & _); [rewrite map_length; apply digitsB_length | rewrite map_length; apply digitsB_length |].
  cbv zeta in ED. rewrite ED.
  rewrite atoi_digits.
  2:{ intros E. apply (f_equal (@length Z)) in E. rewrite digitsB_length in E. discriminate. }
  2:{ apply digitsB_range. lia. }
  rewrite parse_digits by lia. change (10 ^ Z.of_nat 10) with 10000000000.
  rewrite Z.mod_small by lia. rewrite wrap32_small by lia. reflexivity.
Qed.

Lemma mk_name_not_safedel t r : bytes_eqb (cprefix (mk_name 77 t r)) FN_SAFEDEL = false.
Proof.
  rewrite cprefix_mk_name. apply bytes_eqb_neq. intros E. apply (f_equal (@length Z)) in E.
  rewrite name_body_length in E. discriminate.
Qed.

(* SetBTotal on the index a successful post leaves: Total = the value post_on records, LastPostTime = the time in
   the new entry's name, no error — whatever LastPostTime was before *)
Lemma set_btotal_after role u b q u' b' o old : in_range q -> lenZ (b_dir b) < 2147483648 * 128 - 128 ->
  post_on role u b q = Ok (u', b', o) ->
  exists t2 r2, 1000000000 <= t2 < 2147483648 /\ o_fn o = mk_name 77 t2 r2 /\
    set_btotal (b_dir b') old = (b_total b', t2, false).
Proof.
  intros R B H.
  destruct (header_fields _ _ _ _ _ _ _ R H) as (t2 & r2 & T2 & R2 & E & F).
  cbv zeta in F. destruct F as (F28 & _).
  destruct (index_grows _ _ _ _ _ _ _ H) as (L & D & _ & _).
  destruct (total_after _ _ _ _ _ _ _ B H) as (TA & TB).
  destruct (post_on_inv _ _ _ _ _ _ _ H) as (t1' & r1' & t2' & r2' & PF).
  pose proof (pf_total _ _ _ _ _ _ _ _ _ _ _ PF) as PT. change ptttype.FILE_HEADER_RAW_SZ with 128 in PT.
  exists t2, r2. split; [exact T2|]. split; [exact E|].
  unfold set_btotal. change ptttype.FILE_HEADER_RAW_SZ with 128. change (Z.to_nat ptttype.FNLEN) with 28%nat.
  rewrite <- PT. clear PT TA.
  assert (P : 0 <= lenZ (b_dir b)) by (unfold lenZ; lia).
  set (k := lenZ (b_dir b) / 128) in *.
  assert (K : 0 <= k /\ k * 128 <= lenZ (b_dir b)) by (subst k; lia).
  rewrite TB. destruct (Z.eqb_spec (k + 1) 0) as [Z0|_]; [lia|].
  replace ((k + 1 - 1) * 128) with (k * 128) by lia. cbv zeta.
  rewrite D. rewrite skipn_app_exact by (rewrite firstn_length; unfold lenZ in K; lia).
  rewrite F28, mk_name_not_safedel, create_time_mk_name by lia. reflexivity.
Qed.

Lemma upd_upd {A} n (x y : A) l : upd n x (upd n y l) = upd n x l.
Proof. revert n. induction l as [|a l IH]; intros [|n]; cbn; try reflexivity. rewrite IH. reflexivity. Qed.

Lemma with_total_same b : with_total b (b_total b) = b.
Proof. destruct b; reflexivity. Qed.

Definition dir_small (b : board) : Prop := lenZ (b_dir b) < 2147483648 * 128 - 128.

(* one post with the shared memory explicit: for EVERY value of BBusyState, of the per-board busy stamps, of
   LastPostTime (and of the old Total: it is a field of the state) the post is the post of [post], SetBTotal raises
   no error, the cached count is the index length, the flags are left alone, LastPostTime of the board becomes the
   time in the new entry's name and that of every other board stays *)
Lemma post_shm_spec sh st q sh' st' o err : in_range q -> req_ok st q = true ->
  dir_small (brd st (Z.to_nat (q_board q))) ->
  post_shm sh st q = Ok (sh', st', o, err) ->
  let bi := Z.to_nat (q_board q) in
  err = false /\ post st q = Ok (st', o) /\
  b_total (brd st' bi) = lenZ (b_dir (brd st' bi)) / 128 /\
  b_total (brd st' bi) = lenZ (b_dir (brd st bi)) / 128 + 1 /\
  sh_bbusy sh' = sh_bbusy sh /\ sh_busyb sh' = sh_busyb sh /\
  length (sh_lastpost sh') = length (sh_lastpost sh) /\
  (forall j, j <> bi -> nth j (sh_lastpost sh') 0 = nth j (sh_lastpost sh) 0) /\
  exists t2 r2, o_fn o = mk_name 77 t2 r2 /\ 1000000000 <= t2 < 2147483648 /\
    ((bi < length (sh_lastpost sh))%nat -> nth bi (sh_lastpost sh') 0 = t2).
Proof.
  intros IR R S H bi. unfold post_shm in H. fold bi in H.
  destruct (post st q) as [[st1 o1]| |] eqn:P; try discriminate.
  destruct (post_step _ _ _ _ R P) as (u' & b' & Pon & EU & EB & LU & LB). fold bi in Pon, EB, LB.
  assert (Bsame : nth bi (s_boards st1) dflt_board = b') by (rewrite EB; apply nth_upd_same; exact LB).
  rewrite Bsame in H.
  destruct (set_btotal_after _ _ _ _ _ _ _ (nth bi (sh_lastpost sh) 0) IR S Pon) as (t2 & r2 & T2 & E & SB).
  rewrite SB in H. inversion H; subst sh' st' o err; clear H.
  rewrite with_total_same, EB, upd_upd, <- EB.
  assert (ST : mkState (s_users st1) (s_boards st1) = st1) by (destruct st1; reflexivity).
  rewrite ST. cbn [sh_bbusy sh_busyb sh_lastpost].
  destruct (total_after _ _ _ _ _ _ _ S Pon) as (TA & TB).
  assert (B1 : brd st1 bi = b') by exact Bsame.
  split; [reflexivity|]. split; [reflexivity|]. rewrite B1.
  split; [exact TA|]. split; [exact TB|]. split; [reflexivity|]. split; [reflexivity|].
  split; [apply upd_length|]. split; [intros j Hj; apply nth_upd_other; congruence|].
  exists t2, r2. split; [exact E|]. split; [exact T2|]. intros Hl. apply nth_upd_same. exact Hl.
Qed.

(* histories: over any sequence of posts made under any condition of that shared memory, SetBTotal never raises its
   error, the states are those of post_seq, the busy flags are never written, and every board that was in sync
   before or was posted to has its cached count equal to its index length at the end *)
Definition synced (b : board) : Prop := b_total b = lenZ (b_dir b) / 128.

Lemma post_dir_growth st q st' o i : req_ok st q = true -> post st q = Ok (st', o) ->
  lenZ (b_dir (brd st' i)) <= lenZ (b_dir (brd st i)) + 128.
Proof.
  intros R P. destruct (post_step _ _ _ _ R P) as (u' & b' & Pon & EU & EB & LU & LB).
  destruct (Nat.eq_dec i (Z.to_nat (q_board q))) as [->|Hi].
  - unfold brd at 1. rewrite EB, nth_upd_same by exact LB.
    destruct (index_grows _ _ _ _ _ _ _ Pon) as (L & D & _ & _). fold (brd st (Z.to_nat (q_board q))) in D.
    rewrite D. unfold lenZ. rewrite app_length, firstn_length, L. lia.
  - unfold brd. rewrite EB, nth_upd_other by congruence. lia.
Qed.

Lemma sequence_shm qs : forall sh st sh' st' os err,
  Forall in_range qs -> forallb (req_ok st) qs = true ->
  (forall i, lenZ (b_dir (brd st i)) + 128 * lenZ qs < 2147483648 * 128) ->
  post_seq_shm sh st qs = Ok (sh', st', os, err) ->
  err = false /\ post_seq st qs = Ok (st', os) /\
  sh_bbusy sh' = sh_bbusy sh /\ sh_busyb sh' = sh_busyb sh /\
  (forall i, synced (brd st i) \/ In i (map (fun q => Z.to_nat (q_board q)) qs) -> synced (brd st' i)).
Proof.
  induction qs as [|q qs IH]; intros sh st sh' st' os err IR R S H.
  - cbn [post_seq_shm] in H. inversion H; subst. cbn [post_seq map In].
    repeat split; try reflexivity. intros i [Hs|[]]. exact Hs.
  - cbn [forallb] in R. apply andb_true_iff in R. destruct R as [Rq Rs].
    inversion IR as [|? ? IRq IRs]; subst.
    assert (Sq : dir_small (brd st (Z.to_nat (q_board q)))).
    { unfold dir_small. specialize (S (Z.to_nat (q_board q))). unfold lenZ in *. cbn [length] in S. lia. }
    cbn [post_seq_shm] in H.
    destruct (post_shm sh st q) as [[[[sh1 st1] o1] e1]| |] eqn:P; try discriminate.
    destruct (post_shm_spec _ _ _ _ _ _ _ IRq Rq Sq P) as (E1 & P1 & T1 & _ & F1 & F2 & _ & _ & _).
    subst e1.
    destruct (post_seq_shm sh1 st1 qs) as [[[[sh2 st2] os2] e2]| |] eqn:PS; try discriminate.
    inversion H; subst sh' st' os err; clear H.
    assert (Rs' : forallb (req_ok st1) qs = true).
    { rewrite forallb_forall in *. intros q2 Hq2. rewrite (req_ok_step _ _ _ _ q2 Rq P1). apply Rs. exact Hq2. }
    assert (S' : forall i, lenZ (b_dir (brd st1 i)) + 128 * lenZ qs < 2147483648 * 128).
    { intros i. pose proof (post_dir_growth _ _ _ _ i Rq P1) as G. specialize (S i).
      unfold lenZ in *. cbn [length] in S. lia. }
    destruct (IH _ _ _ _ _ _ IRs Rs' S' PS) as (E2 & P2 & G1 & G2 & Y).
    split; [exact E2|]. split; [cbn [post_seq]; rewrite P1, P2; reflexivity|].
    split; [rewrite G1; exact F1|]. split; [rewrite G2; exact F2|].
    intros i Hi. apply Y. cbn [map In] in Hi.
    destruct (Nat.eq_dec (Z.to_nat (q_board q)) i) as [<-|Ne].
    + left. exact T1.
    + destruct Hi as [Hs|[Hh|Ht]]; [left|congruence|right; exact Ht].
      destruct (post_frame _ _ _ _ Rq P1) as (Bo & _). rewrite Bo by congruence. exact Hs.
Qed.

(* non-vacuity: the example state and requests, with the busy flag left set, a per-board busy stamp, a stale
   LastPostTime; and the example boards' cached counts are stale (ex_boards) *)
Definition ex_shm : shm := mkShm 1 [1790836246; 0] [2147483647; 1].
Example ex_post_shm_ok :
  match post_seq_shm ex_shm ex_state [ex_req1; ex_req2; ex_req3; ex_req1] with
  | Ok (sh', st', os, err) => err = false /\ sh_bbusy sh' = 1 /\ length os = 4%nat /\
                              forallb (fun b => b_total b =? lenZ (b_dir b) / 128) (s_boards st') = true
  | _ => False
  end.
Proof. vm_compute. repeat split; reflexivity. Qed.

(* ------------------------------------------------------------------ the recorded date over the life of one process *)
(* the date is a function of the local day number (t + 8 h) / 86400 of the stamp time alone ... *)
Lemma cdatemd_same_local_day t t' : (t + TZ_OFFSET) / 86400 = (t' + TZ_OFFSET) / 86400 -> cdatemd t = cdatemd t'.
Proof. intros H. rewrite !cdatemd_day, H. reflexivity. Qed.

(* ... and consecutive local days never share it (sweep over every pair of consecutive days of the range) *)
Definition md_next_ok (i : Z) : bool := negb (bytes_eqb (md_of_day (11574 + i)) (md_of_day (11574 + i + 1))).

Lemma md_next_sweep : forallb md_next_ok (zrange (Z.to_nat 13290)) = true.
Proof. vm_compute. reflexivity. Qed.

Lemma cdatemd_next_local_day t t' : 1000000000 <= t < 2147483648 -> 1000000000 <= t' < 2147483648 ->
  (t' + TZ_OFFSET) / 86400 = (t + TZ_OFFSET) / 86400 + 1 -> cdatemd t' <> cdatemd t.
Proof.
  intros H H' N. rewrite !cdatemd_day, N. unfold TZ_OFFSET. set (d := (t + 28800) / 86400).
  assert (Hd : 0 <= d - 11574 < Z.of_nat (Z.to_nat 13290)) by (rewrite Z2Nat.id by lia; subst d; lia).
  pose proof (sweep md_next_ok _ md_next_sweep _ Hd) as S. unfold md_next_ok in S.
  replace (11574 + (d - 11574)) with d in S by lia.
  intros E. rewrite E, bytes_eqb_refl in S. discriminate S.
Qed.

Lemma date_is_local_day t t' : 1000000000 <= t < 2147483648 -> 1000000000 <= t' < 2147483648 ->
  ((t + TZ_OFFSET) / 86400 = (t' + TZ_OFFSET) / 86400 -> cdatemd t = cdatemd t') /\
  ((t' + TZ_OFFSET) / 86400 = (t + TZ_OFFSET) / 86400 + 1 -> cdatemd t' <> cdatemd t) /\
  ((t + 1 + TZ_OFFSET) mod 86400 = 0 -> t' = t + 1 -> cdatemd t' <> cdatemd t) /\
  length (cdatemd t) = 5%nat /\ date_field_of t = cdatemd t ++ [0].
Proof.
  intros H H'. split; [apply cdatemd_same_local_day|]. split; [apply cdatemd_next_local_day; assumption|].
  split.
  - intros M E. apply cdatemd_next_local_day; try assumption. subst t'. unfold TZ_OFFSET in *. lia.
  - pose proof (cdatemd_length t H) as L. split; [exact L|].
    unfold date_field_of, fixlen. rewrite L. rewrite firstn_all2 by (rewrite L; repeat constructor). reflexivity.
Qed.

(* a history of stamp times asked of one process: the k-th answer depends on the k-th time only *)
Lemma stamp_dates_history_free pre t post_ :
  length (stamp_dates (pre ++ t :: post_)) = length (pre ++ t :: post_) /\
  nth (length pre) (stamp_dates (pre ++ t :: post_)) [] = date_field_of t.
Proof.
  unfold stamp_dates. rewrite map_length. split; [reflexivity|].
  rewrite map_app. rewrite app_nth2 by (rewrite map_length; lia). rewrite map_length, Nat.sub_diag. reflexivity.
Qed.

(* one post of a history: the entry's date is the date of the time in the entry's own name *)
Definition date_ok (o : outcome) : Prop :=
  exists t2 r2, 1000000000 <= t2 < 2147483648 /\ 0 <= r2 < 4096 /\ o_fn o = mk_name 77 t2 r2 /\
    firstn 6 (skipn 48 (o_entry o)) = date_field_of t2.

Lemma post_date st q st' o : in_range q -> post st q = Ok (st', o) -> date_ok o.
Proof.
  intros R H. unfold post in H.
  destruct (post_on (allowed_by_role (q_user q) (nth (Z.to_nat (q_user q)) (s_users st) dflt_user) (nth (Z.to_nat (q_board q)) (s_boards st) dflt_board))
                    (nth (Z.to_nat (q_user q)) (s_users st) dflt_user) (nth (Z.to_nat (q_board q)) (s_boards st) dflt_board) q) as [[[u' b'] o']| |] eqn:E;
    try discriminate H.
  inversion H; subst.
  destruct (header_fields _ _ _ _ _ _ _ R E) as (t2 & r2 & T & Rr & N & F). cbv zeta in F.
  destruct F as (_ & _ & _ & F & _).
  exists t2, r2. split; [exact T|]. split; [exact Rr|]. split; [exact N|]. exact F.
Qed.

Lemma sequence_dates qs : forall st st' os, Forall in_range qs -> post_seq st qs = Ok (st', os) -> Forall date_ok os.
Proof.
  induction qs as [|q qs IH]; intros st st' os R H; cbn [post_seq] in H.
  - inversion H; subst. constructor.
  - inversion R as [|? ? Rq Rqs]; subst.
    destruct (post st q) as [[st1 o]| |] eqn:E1; try discriminate H.
    destruct (post_seq st1 qs) as [[st2 os2]| |] eqn:E2; try discriminate H.
    inversion H; subst. constructor; [exact (post_date _ _ _ _ Rq E1) | exact (IH _ _ _ Rqs E2)].
Qed.

(* non-vacuity: a process that is asked across a local midnight inside one UTC day (15:59:59 and 16:00:00 UTC of
   2026-10-01), across new year, and back again *)
Example stamp_dates_example :
  stamp_dates [1790870399; 1790870400; 1798732799; 1798732800; 1790870399] =
  [[49; 48; 47; 48; 49; 0]; [49; 48; 47; 48; 50; 0]; [49; 50; 47; 51; 49; 0]; [32; 49; 47; 48; 49; 0]; [49; 48; 47; 48; 49; 0]].
Proof. vm_compute. reflexivity. Qed.
