From Verif Require Import Base.Common Base.Dec Base.ListX Gen.Consts_default Gen.PostTab Model.C13 Proofs.C13 Model.C09.

Lemma tz_is_taipei : TIME_LOCATION = [65; 115; 105; 97; 47; 84; 97; 105; 112; 101; 105].
Proof. reflexivity. Qed.
