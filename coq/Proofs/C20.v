(* C20 — lemmas: the segment, the Money field of .PASSWDS and plain arithmetic agree after every history. *)
From Verif Require Import Base.Common Model.C20.
Ltac Zify.zify_post_hook ::= Z.div_mod_to_equations.

(* ------------------------------------------------------------------ constants regenerated from the source *)
Lemma layout_ok : 0 <= MONEY_OFF /\ MONEY_OFF + 4 <= RECSZ /\ 0 < MAXU /\ MAXU < 2147483648.
Proof. vm_compute. repeat split; discriminate. Qed.

Lemma recsz_mul (u u' : Z) : u < u' -> RECSZ * (u - 1) + RECSZ <= RECSZ * (u' - 1).
Proof. pose proof layout_ok. nia. Qed.

(* ------------------------------------------------------------------ int32 codec *)
Lemma wrap32_small x : -2147483648 <= x <= 2147483647 -> wrap32 x = x.
Proof.
  intros H. unfold wrap32. cbv zeta.
  destruct (Z.ltb_spec (x mod 4294967296) 2147483648); lia.
Qed.

Lemma dec_enc32 m : int32 m -> dec32 (enc32 m) = m.
Proof.
  intros H. unfold int32 in H. unfold dec32, enc32. cbv zeta. cbn [nth].
  set (u := m mod 4294967296).
  assert (Hu : 0 <= u < 4294967296) by (subst u; lia).
  replace (u mod 256 + 256 * ((u / 256) mod 256) + 65536 * ((u / 65536) mod 256) + 16777216 * ((u / 16777216) mod 256)) with u by lia.
  subst u. unfold wrap32. cbv zeta.
  rewrite Z.mod_mod by lia.
  destruct (Z.ltb_spec (m mod 4294967296) 2147483648); lia.
Qed.

Lemma enc32_length m : length (enc32 m) = 4%nat.
Proof. reflexivity. Qed.

(* ------------------------------------------------------------------ positional write *)
Lemma write_at_length : forall off f bs, (off + length bs <= length f)%nat -> length (write_at f off bs) = length f.
Proof.
  induction off as [|o IH]; intros f bs H; cbn [write_at].
  - rewrite app_length, skipn_length. lia.
  - destruct f as [|x r]; [cbn in H; lia|]. cbn [length] in *. rewrite IH by lia. reflexivity.
Qed.

Lemma nth_skipn {A} (d : A) : forall p l k, nth k (skipn p l) d = nth (p + k) l d.
Proof.
  induction p as [|p IH]; intros l k; [reflexivity|].
  destruct l as [|a l]; [destruct k; reflexivity|]. cbn [skipn plus nth]. apply IH.
Qed.

Lemma nth_firstn {A} (d : A) : forall n l k, (k < n)%nat -> nth k (firstn n l) d = nth k l d.
Proof.
  induction n as [|n IH]; intros l k H; [lia|].
  destruct l as [|a l]; [reflexivity|]. destruct k as [|k]; [reflexivity|]. cbn [firstn nth]. apply IH. lia.
Qed.

Lemma nth_write_at (d : Z) : forall off f bs i, (off + length bs <= length f)%nat ->
  nth i (write_at f off bs) d =
  if ((off <=? i) && (i <? off + length bs))%nat then nth (i - off) bs d else nth i f d.
Proof.
  induction off as [|o IH]; intros f bs i H; cbn [write_at].
  - cbn [Nat.leb andb plus]. rewrite Nat.sub_0_r.
    destruct (Nat.ltb_spec i (length bs)) as [Hi|Hi].
    + apply app_nth1. exact Hi.
    + rewrite app_nth2 by exact Hi. rewrite nth_skipn. f_equal. lia.
  - destruct f as [|x r]; [cbn in H; lia|]. cbn [length] in H.
    destruct i as [|i].
    + reflexivity.
    + cbn [nth]. rewrite IH by lia.
      change (S o <=? S i)%nat with (o <=? i)%nat.
      change (S i <? S o + length bs)%nat with (i <? o + length bs)%nat.
      reflexivity.
Qed.

Lemma read4_nth f p : read_at f p 4 = firstn 4 (skipn p f).
Proof. reflexivity. Qed.

(* the decoded field in terms of the four bytes at its position *)
Definition field_at (f : list Z) (p : nat) : Z :=
  wrap32 (nth p f 0 + 256 * nth (p + 1) f 0 + 65536 * nth (p + 2) f 0 + 16777216 * nth (p + 3) f 0).

Lemma money_field_at f u : money_field f u = field_at f (money_pos u).
Proof.
  unfold money_field, dec32, read_at, field_at.
  rewrite !nth_firstn by lia. rewrite !nth_skipn. rewrite Nat.add_0_r. reflexivity.
Qed.

Lemma field_at_write_same f p m : (p + 4 <= length f)%nat -> int32 m -> field_at (write_at f p (enc32 m)) p = m.
Proof.
  intros Hl Hm. unfold field_at.
  rewrite !nth_write_at by (rewrite enc32_length; lia). rewrite enc32_length.
  replace ((p <=? p) && (p <? p + 4))%nat with true by (symmetry; apply andb_true_intro; split; [apply Nat.leb_le|apply Nat.ltb_lt]; lia).
  replace ((p <=? p + 1) && (p + 1 <? p + 4))%nat with true by (symmetry; apply andb_true_intro; split; [apply Nat.leb_le|apply Nat.ltb_lt]; lia).
  replace ((p <=? p + 2) && (p + 2 <? p + 4))%nat with true by (symmetry; apply andb_true_intro; split; [apply Nat.leb_le|apply Nat.ltb_lt]; lia).
  replace ((p <=? p + 3) && (p + 3 <? p + 4))%nat with true by (symmetry; apply andb_true_intro; split; [apply Nat.leb_le|apply Nat.ltb_lt]; lia).
  replace (p - p)%nat with 0%nat by lia. replace (p + 1 - p)%nat with 1%nat by lia.
  replace (p + 2 - p)%nat with 2%nat by lia. replace (p + 3 - p)%nat with 3%nat by lia.
  exact (dec_enc32 m Hm).
Qed.

Lemma nth_write_at_other f p bs i : (p + length bs <= length f)%nat -> (i < p \/ p + length bs <= i)%nat ->
  nth i (write_at f p bs) 0 = nth i f 0.
Proof.
  intros Hl Hi. rewrite nth_write_at by exact Hl.
  destruct (Nat.leb_spec p i); destruct (Nat.ltb_spec i (p + length bs)); cbn [andb]; try reflexivity; lia.
Qed.

Lemma field_at_write_other f p q m : (p + 4 <= length f)%nat -> (q + 4 <= p \/ p + 4 <= q)%nat ->
  field_at (write_at f p (enc32 m)) q = field_at f q.
Proof.
  intros Hl Hq. unfold field_at.
  rewrite !nth_write_at_other by (rewrite ?enc32_length; lia). reflexivity.
Qed.

(* any write that does not touch the 4 bytes at q / a write that carries them *)
Lemma field_at_write_outside f p bs q : (p + length bs <= length f)%nat -> (q + 4 <= p \/ p + length bs <= q)%nat ->
  field_at (write_at f p bs) q = field_at f q.
Proof.
  intros Hl Hq. unfold field_at.
  rewrite !nth_write_at_other by lia. reflexivity.
Qed.

Lemma nth_write_at_inside f p bs k : (p + length bs <= length f)%nat -> (k < length bs)%nat ->
  nth (p + k) (write_at f p bs) 0 = nth k bs 0.
Proof.
  intros Hl Hk. rewrite nth_write_at by exact Hl.
  replace ((p <=? p + k) && (p + k <? p + length bs))%nat with true
    by (symmetry; apply andb_true_intro; split; [apply Nat.leb_le|apply Nat.ltb_lt]; lia).
  f_equal. lia.
Qed.

Lemma field_at_write_inside f p bs q : (p + length bs <= length f)%nat -> (q + 4 <= length bs)%nat ->
  field_at (write_at f p bs) (p + q) = field_at bs q.
Proof.
  intros Hl Hq. unfold field_at.
  replace (p + q + 1)%nat with (p + (q + 1))%nat by lia.
  replace (p + q + 2)%nat with (p + (q + 2))%nat by lia.
  replace (p + q + 3)%nat with (p + (q + 3))%nat by lia.
  rewrite !nth_write_at_inside by lia. reflexivity.
Qed.

Lemma wrap32_int32 x : int32 (wrap32 x).
Proof. unfold int32, wrap32. cbv zeta. destruct (Z.ltb_spec (x mod 4294967296) 2147483648); lia. Qed.

(* ------------------------------------------------------------------ positions of the Money fields *)
Lemma money_pos_Z u : valid u -> Z.of_nat (money_pos u) = RECSZ * (u - 1) + MONEY_OFF.
Proof. intros [H1 H2]. unfold money_pos. pose proof layout_ok. rewrite Z2Nat.id; nia. Qed.

(* the 4 bytes of the field lie inside record u *)
Lemma money_pos_in_record u : valid u ->
  RECSZ * (u - 1) <= Z.of_nat (money_pos u) /\ Z.of_nat (money_pos u) + 4 <= RECSZ * u.
Proof. intros H. rewrite money_pos_Z by exact H. pose proof layout_ok. nia. Qed.

Lemma money_pos_fits u (f : list Z) : valid u -> length f = Z.to_nat (MAXU * RECSZ) -> (money_pos u + 4 <= length f)%nat.
Proof.
  intros H Hl. pose proof (money_pos_in_record u H) as [_ Hp]. destruct H as [H1 H2]. pose proof layout_ok.
  rewrite Hl. apply Nat2Z.inj_le. rewrite Nat2Z.inj_add. rewrite Z2Nat.id by nia. change (Z.of_nat 4) with 4. nia.
Qed.

Lemma money_pos_apart u u' : valid u -> valid u' -> u <> u' ->
  (money_pos u' + 4 <= money_pos u \/ money_pos u + 4 <= money_pos u')%nat.
Proof.
  intros H H' Hne. pose proof (money_pos_Z u H). pose proof (money_pos_Z u' H'). pose proof layout_ok.
  destruct (Z.lt_total u u') as [Hlt|[Heq|Hgt]]; [|contradiction|].
  - right. pose proof (recsz_mul u u' Hlt). lia.
  - left. pose proof (recsz_mul u' u Hgt). lia.
Qed.

(* ------------------------------------------------------------------ positions of the records and of the one-field updates *)
Lemma layout_fields : forall k, 0 <= pf_off k /\ 0 <= pf_len k /\ pf_off k + pf_len k <= RECSZ /\
  (pf_off k + pf_len k <= MONEY_OFF \/ MONEY_OFF + 4 <= pf_off k).
Proof. intros [|]; vm_compute; (repeat split; try discriminate); (left; discriminate) || (right; discriminate). Qed.

Lemma rec_pos_Z u : valid u -> Z.of_nat (rec_pos u) = RECSZ * (u - 1).
Proof. intros [H1 H2]. unfold rec_pos. pose proof layout_ok. rewrite Z2Nat.id; nia. Qed.

Lemma money_pos_rec u : valid u -> money_pos u = (rec_pos u + Z.to_nat MONEY_OFF)%nat.
Proof.
  intros H. apply Nat2Z.inj. rewrite Nat2Z.inj_add, money_pos_Z, rec_pos_Z by exact H.
  pose proof layout_ok. rewrite Z2Nat.id by lia. reflexivity.
Qed.

Lemma rec_fits u (f : list Z) : valid u -> length f = Z.to_nat (MAXU * RECSZ) -> (rec_pos u + Z.to_nat RECSZ <= length f)%nat.
Proof.
  intros H Hl. pose proof (rec_pos_Z u H). destruct H as [H1 H2]. pose proof layout_ok.
  rewrite Hl. apply Nat2Z.inj_le. rewrite Nat2Z.inj_add. rewrite !Z2Nat.id by nia. nia.
Qed.

(* the Money field of another user lies outside record u *)
Lemma money_pos_outside_rec u u' : valid u -> valid u' -> u' <> u ->
  (money_pos u' + 4 <= rec_pos u \/ rec_pos u + Z.to_nat RECSZ <= money_pos u')%nat.
Proof.
  intros H H' Hne. pose proof (rec_pos_Z u H). pose proof (money_pos_in_record u' H') as [Ha Hb]. pose proof layout_ok.
  assert (Hr : Z.of_nat (Z.to_nat RECSZ) = RECSZ) by (apply Z2Nat.id; lia).
  destruct (Z.lt_total u u') as [Hlt|[Heq|Hgt]]; [|congruence|].
  - right. apply Nat2Z.inj_le. rewrite Nat2Z.inj_add. nia.
  - left. apply Nat2Z.inj_le. rewrite Nat2Z.inj_add. change (Z.of_nat 4) with 4. nia.
Qed.

Lemma uid_is_valid_true u : valid u -> uid_is_valid u = true.
Proof. intros [H1 H2]. unfold uid_is_valid. apply andb_true_intro. split; apply Z.leb_le; assumption. Qed.
Lemma uid_is_valid_false u : ~ valid u -> uid_is_valid u = false.
Proof.
  unfold valid, uid_is_valid. intros H.
  destruct (Z.leb_spec 1 u); destruct (Z.leb_spec u MAXU); cbn [andb]; try reflexivity; lia.
Qed.
Lemma valid_dec u : valid u \/ ~ valid u.
Proof. unfold valid. lia. Qed.

(* ------------------------------------------------------------------ the Go functions on a valid slot *)
Lemma upd_same f k v : upd f k v k = v.
Proof. unfold upd. rewrite Z.eqb_refl. reflexivity. Qed.
Lemma upd_other f k v x : x <> k -> upd f k v x = f x.
Proof. unfold upd. intros H. destruct (Z.eqb_spec x k); congruence. Qed.

Lemma valid_guard u : valid u -> (u <=? 0) || (MAXU <? u) = false.
Proof. intros [H1 H2]. destruct (Z.leb_spec u 0); destruct (Z.ltb_spec MAXU u); cbn; try reflexivity; lia. Qed.
Lemma valid_guard' u : valid u -> (u <? 1) || (MAXU <? u) = false.
Proof. intros [H1 H2]. destruct (Z.ltb_spec u 1); destruct (Z.ltb_spec MAXU u); cbn; try reflexivity; lia. Qed.
Lemma invalid_guard u : ~ valid u -> (u <=? 0) || (MAXU <? u) = true.
Proof. unfold valid. intros H. destruct (Z.leb_spec u 0); destruct (Z.ltb_spec MAXU u); cbn; try reflexivity; lia. Qed.

Lemma valid_index u : valid u -> wrap32 (u - 1) = u - 1 /\ in_range (u - 1) = true.
Proof.
  intros [H1 H2]. pose proof layout_ok. split.
  - apply wrap32_small. lia.
  - unfold in_range. apply andb_true_intro. split; [apply Z.leb_le|apply Z.ltb_lt]; lia.
Qed.

Lemma money_of_valid s u : valid u -> money_of s u = Ok (shm s (u - 1)).
Proof. intros H. unfold money_of. cbv zeta. destruct (valid_index u H) as [-> ->]. reflexivity. Qed.

(* SetUMoney on a valid slot: what it returns and the state it leaves *)
Lemma set_umoney_valid s u m : valid u ->
  set_umoney s u m = (mkst (upd (shm s) (u - 1) m) (write_at (file s) (money_pos u) (enc32 m)), OVal m).
Proof.
  intros H. unfold set_umoney. rewrite (valid_guard u H). cbv zeta.
  destruct (valid_index u H) as [Hw Hr]. rewrite Hw, Hr. cbn [negb].
  unfold passwd_update_money. cbn [shm file]. rewrite (valid_guard' u H).
  rewrite money_of_valid by exact H. cbn [shm]. rewrite upd_same. reflexivity.
Qed.

Lemma set_umoney_agree s b u m : Agree s b -> valid u -> int32 m ->
  Agree (fst (set_umoney s u m)) (upd b u m) /\ snd (set_umoney s u m) = OVal m.
Proof.
  intros [Hl Ha] Hu Hm. rewrite set_umoney_valid by exact Hu. cbn [fst snd]. split; [|reflexivity].
  pose proof (money_pos_fits u (file s) Hu Hl) as Hfit.
  split; cbn [file shm].
  - rewrite write_at_length by (rewrite enc32_length; exact Hfit). exact Hl.
  - intros u' Hu'. destruct (Z.eq_dec u' u) as [->|Hne].
    + rewrite !upd_same. split; [reflexivity|]. rewrite money_field_at. apply field_at_write_same; assumption.
    + rewrite upd_other by lia. rewrite (upd_other b) by exact Hne.
      destruct (Ha u' Hu') as [Hs Hf]. split; [exact Hs|].
      rewrite money_field_at. rewrite field_at_write_other; [rewrite <- money_field_at; exact Hf|exact Hfit|].
      apply money_pos_apart; auto.
Qed.

(* a write that misses every Money field keeps the agreement *)
Lemma write_outside_agree s b p (bs : list Z) : Agree s b -> (p + length bs <= length (file s))%nat ->
  (forall u, valid u -> (money_pos u + 4 <= p \/ p + length bs <= money_pos u)%nat) ->
  Agree (mkst (shm s) (write_at (file s) p bs)) b.
Proof.
  intros [Hl Ha] Hfit Hout. split; cbn [file shm].
  - rewrite write_at_length by exact Hfit. exact Hl.
  - intros u Hu. destruct (Ha u Hu) as [Hs Hf]. split; [exact Hs|].
    rewrite money_field_at, field_at_write_outside; [rewrite <- money_field_at; exact Hf|exact Hfit|apply Hout; exact Hu].
Qed.

Lemma rec_with_money_length (rec : list Z) m : length rec = Z.to_nat RECSZ -> length (rec_with_money rec m) = Z.to_nat RECSZ.
Proof.
  intros H. unfold rec_with_money. rewrite write_at_length; [exact H|].
  rewrite enc32_length, H. pose proof layout_ok. apply Nat2Z.inj_le. rewrite Nat2Z.inj_add, !Z2Nat.id by lia. change (Z.of_nat 4) with 4. lia.
Qed.

Lemma money_off_fits (rec : list Z) : length rec = Z.to_nat RECSZ -> (Z.to_nat MONEY_OFF + 4 <= length rec)%nat.
Proof.
  intros H. rewrite H. pose proof layout_ok. apply Nat2Z.inj_le. rewrite Nat2Z.inj_add, !Z2Nat.id by lia. change (Z.of_nat 4) with 4. lia.
Qed.

(* passwdSyncUpdate on a valid slot: what it returns and the state it leaves *)
Lemma sync_update_valid s u (rec : list Z) : valid u ->
  passwd_sync_update s u rec =
  (mkst (shm s) (write_at (file s) (rec_pos u) (rec_with_money rec (shm s (u - 1)))), OVal (shm s (u - 1))).
Proof.
  intros H. unfold passwd_sync_update, passwd_update. rewrite (uid_is_valid_true u H). cbn [negb].
  rewrite money_of_valid by exact H. reflexivity.
Qed.

(* ... the Money field of the record in the file is the cached balance, whatever the caller's record carried *)
Lemma sync_update_field s u (rec : list Z) : valid u -> length (file s) = Z.to_nat (MAXU * RECSZ) -> length rec = Z.to_nat RECSZ ->
  int32 (shm s (u - 1)) ->
  money_field (file (fst (passwd_sync_update s u rec))) u = shm s (u - 1).
Proof.
  intros Hu Hl Hr Hm. rewrite sync_update_valid by exact Hu. cbn [fst file].
  rewrite money_field_at, (money_pos_rec u Hu).
  pose proof (rec_fits u (file s) Hu Hl) as Hfit. pose proof (money_off_fits rec Hr) as Hmo.
  rewrite field_at_write_inside by (rewrite rec_with_money_length by exact Hr; first [exact Hfit | rewrite <- Hr; exact Hmo]).
  unfold rec_with_money. apply field_at_write_same; assumption.
Qed.

Lemma agree_int32 s b u : Agree s b -> valid u -> int32 (b u).
Proof.
  intros [_ Ha] Hu. destruct (Ha u Hu) as [_ Hf]. rewrite <- Hf. unfold money_field, dec32. apply wrap32_int32.
Qed.

Lemma sync_update_agree s b u (rec : list Z) : Agree s b -> valid u -> length rec = Z.to_nat RECSZ ->
  Agree (fst (passwd_sync_update s u rec)) b /\ snd (passwd_sync_update s u rec) = OVal (b u).
Proof.
  intros HA Hu Hr. pose proof (agree_int32 s b u HA Hu) as Hi. destruct HA as [Hl Ha].
  destruct (Ha u Hu) as [Hsu Hfu].
  assert (Hfld : money_field (file (fst (passwd_sync_update s u rec))) u = shm s (u - 1))
    by (apply sync_update_field; try assumption; rewrite Hsu; exact Hi).
  rewrite sync_update_valid in * by exact Hu. cbn [fst snd file shm] in *. rewrite Hsu in Hfld. split; [|rewrite Hsu; reflexivity].
  pose proof (rec_fits u (file s) Hu Hl) as Hfit.
  assert (Hlen : length (rec_with_money rec (b u)) = Z.to_nat RECSZ) by (apply rec_with_money_length; exact Hr).
  rewrite Hsu. split; cbn [file shm].
  - rewrite write_at_length by (rewrite Hlen; exact Hfit). exact Hl.
  - intros u' Hu'. destruct (Z.eq_dec u' u) as [->|Hne].
    + split; [exact Hsu|exact Hfld].
    + destruct (Ha u' Hu') as [Hs Hf]. split; [exact Hs|].
      rewrite money_field_at, field_at_write_outside; [rewrite <- money_field_at; exact Hf|rewrite Hlen; exact Hfit|].
      rewrite Hlen. apply money_pos_outside_rec; assumption.
Qed.

(* the bytes of a one-field update miss every Money field *)
Lemma part_outside u k u' : valid u -> valid u' ->
  (money_pos u' + 4 <= rec_pos u + Z.to_nat (pf_off k) \/ rec_pos u + Z.to_nat (pf_off k) + Z.to_nat (pf_len k) <= money_pos u')%nat.
Proof.
  intros Hu Hu'. pose proof (layout_fields k) as [Ho [Hn [Hin Hdis]]]. pose proof layout_ok.
  pose proof (rec_pos_Z u Hu) as Hp. pose proof (money_pos_Z u' Hu') as Hm.
  assert (Hgoal : Z.of_nat (money_pos u') + 4 <= Z.of_nat (rec_pos u) + pf_off k \/
                  Z.of_nat (rec_pos u) + pf_off k + pf_len k <= Z.of_nat (money_pos u')).
  { destruct (Z.lt_total u u') as [Hlt|[Heq|Hgt]].
    - right. nia.
    - subst u'. rewrite Hp, Hm. lia.
    - left. nia. }
  destruct Hgoal as [Hg|Hg]; [left|right]; apply Nat2Z.inj_le; rewrite ?Nat2Z.inj_add, ?Z2Nat.id by lia; change (Z.of_nat 4) with 4; lia.
Qed.

Lemma part_fits u k (f : list Z) : valid u -> length f = Z.to_nat (MAXU * RECSZ) ->
  (rec_pos u + Z.to_nat (pf_off k) + Z.to_nat (pf_len k) <= length f)%nat.
Proof.
  intros Hu Hl. pose proof (rec_fits u f Hu Hl). pose proof (layout_fields k) as [Ho [Hn [Hin _]]].
  assert (Z.to_nat (pf_off k) + Z.to_nat (pf_len k) <= Z.to_nat RECSZ)%nat; [|lia].
  apply Nat2Z.inj_le. rewrite Nat2Z.inj_add, !Z2Nat.id by lia. exact Hin.
Qed.

Lemma part_agree s b u k (bs : list Z) : Agree s b -> valid u -> length bs = Z.to_nat (pf_len k) ->
  Agree (fst (passwd_update_field s u k bs)) b /\ snd (passwd_update_field s u k bs) = OVal 0.
Proof.
  intros HA Hu Hb. unfold passwd_update_field. rewrite (uid_is_valid_true u Hu). cbn [negb fst snd].
  split; [|reflexivity]. apply write_outside_agree; [exact HA| |].
  - rewrite Hb. apply part_fits; [exact Hu|exact (proj1 HA)].
  - intros u' Hu'. rewrite Hb. apply part_outside; assumption.
Qed.

Lemma int32_0 : int32 0.
Proof. unfold int32. lia. Qed.

(* one step of a history *)
Lemma step_agree s b o : Agree s b -> op_ok b o ->
  Agree (fst (step s o)) (fst (spec_step b o)) /\ snd (step s o) = OVal (snd (spec_step b o)).
Proof.
  intros HA Hok. destruct o as [u m|u m|u|u rec|u k bs]; cbn [step spec_step fst snd];
    [| | |destruct Hok as [Hu Hr]; apply sync_update_agree; assumption|destruct Hok as [Hu Hb]; apply part_agree; assumption].
  - destruct Hok as [Hu Hm]. apply set_umoney_agree; assumption.
  - destruct Hok as [Hu [Hm Hsum]]. unfold de_umoney. rewrite (valid_guard u Hu).
    rewrite money_of_valid by exact Hu. destruct HA as [Hl Ha]. destruct (Ha u Hu) as [Hs _]. rewrite Hs.
    destruct ((m <? 0) && (b u <? - m)) eqn:E.
    + apply set_umoney_agree; [split; assumption|exact Hu|exact int32_0].
    + assert (Hin : int32 (b u + m)).
      { destruct Hsum as [[H1 H2]|H]; [|exact H]. apply andb_false_iff in E. destruct E as [E|E]; [apply Z.ltb_ge in E|apply Z.ltb_ge in E]; lia. }
      rewrite wrap32_small by exact Hin. apply set_umoney_agree; [split; assumption|exact Hu|exact Hin].
  - rewrite money_of_valid by exact Hok. destruct HA as [Hl Ha]. destruct (Ha u Hok) as [Hs _]. rewrite Hs.
    split; [split; assumption|reflexivity].
Qed.

Lemma run_cons s o r : run s (o :: r) = (fst (run (fst (step s o)) r), snd (step s o) :: snd (run (fst (step s o)) r)).
Proof. cbn [run]. destruct (step s o) as [s1 x]. cbn [fst snd]. destruct (run s1 r) as [s2 xs]. reflexivity. Qed.
Lemma spec_run_cons b o r :
  spec_run b (o :: r) = (fst (spec_run (fst (spec_step b o)) r), snd (spec_step b o) :: snd (spec_run (fst (spec_step b o)) r)).
Proof. cbn [spec_run]. destruct (spec_step b o) as [b1 v]. cbn [fst snd]. destruct (spec_run b1 r) as [b2 vs]. reflexivity. Qed.

(* all histories *)
Lemma run_agree : forall h s b, Agree s b -> hist_ok b h ->
  Agree (fst (run s h)) (fst (spec_run b h)) /\ snd (run s h) = map OVal (snd (spec_run b h)).
Proof.
  induction h as [|o r IH]; intros s b HA Hok.
  - cbn. split; [exact HA|reflexivity].
  - destruct Hok as [Ho Hr]. rewrite run_cons, spec_run_cons. cbn [fst snd map].
    destruct (step_agree s b o HA Ho) as [HA1 Hx]. destruct (IH _ _ HA1 Hr) as [HA2 Hxs].
    split; [exact HA2|]. rewrite Hx, Hxs. reflexivity.
Qed.

Lemma hist_ok_firstn : forall n h b, hist_ok b h -> hist_ok b (firstn n h).
Proof.
  induction n as [|n IH]; intros h b H; [exact I|]. destruct h as [|o r]; [exact I|].
  destruct H as [Ho Hr]. cbn [firstn hist_ok]. split; [exact Ho|apply IH; exact Hr].
Qed.

(* "after every step": the statement for every prefix of the history *)
Lemma agree_every_step : forall h s b n, Agree s b -> hist_ok b h ->
  let h' := firstn n h in
  (forall u, valid u ->
     shm (fst (run s h')) (u - 1) = fst (spec_run b h') u /\
     money_field (file (fst (run s h'))) u = fst (spec_run b h') u /\
     money_of (fst (run s h')) u = Ok (fst (spec_run b h') u)) /\
  snd (run s h') = map OVal (snd (spec_run b h')).
Proof.
  intros h s b n HA Hok h'. destruct (run_agree h' s b HA (hist_ok_firstn n h b Hok)) as [[Hl Ha] Hx].
  split; [|exact Hx]. intros u Hu. destruct (Ha u Hu) as [H1 H2]. repeat split; try assumption.
  rewrite money_of_valid by exact Hu. rewrite H1. reflexivity.
Qed.

(* ------------------------------------------------------------------ cold load establishes the agreement *)
Lemma nth_load_table f k : (k < Z.to_nat MAXU)%nat ->
  nth k (load_table f) 0 =
  (let i := Z.of_nat k in if lenZ f >=? RECSZ * (i + 1) then money_field f (i + 1) else 0).
Proof.
  intros H. unfold load_table. cbv zeta.
  set (g := fun k0 : nat => if lenZ f >=? RECSZ * (Z.of_nat k0 + 1) then money_field f (Z.of_nat k0 + 1) else 0).
  rewrite (nth_indep _ 0 (g 0%nat)) by (rewrite map_length, seq_length; exact H).
  rewrite map_nth. rewrite seq_nth by exact H. subst g. cbn beta. reflexivity.
Qed.

Lemma load_agree f : length f = Z.to_nat (MAXU * RECSZ) -> Agree (cold_load f) (fun u => money_field f u).
Proof.
  intros Hl. split; [exact Hl|]. intros u Hu. split; [|reflexivity].
  unfold cold_load. cbv zeta. cbn [shm]. destruct (valid_index u Hu) as [_ ->].
  destruct Hu as [H1 H2]. pose proof layout_ok.
  rewrite nth_load_table by lia. cbv zeta. rewrite Z2Nat.id by lia.
  replace (u - 1 + 1) with u by lia.
  replace (lenZ f >=? RECSZ * u) with true; [reflexivity|].
  symmetry. apply Z.geb_le. unfold lenZ. rewrite Hl. rewrite Z2Nat.id by nia. nia.
Qed.

(* ------------------------------------------------------------------ saturation, non-negativity *)
Lemma saturate s b u m : Agree s b -> valid u -> int32 m -> m < 0 -> b u < - m ->
  let s' := fst (step s (OpDe u m)) in
  snd (step s (OpDe u m)) = OVal 0 /\ shm s' (u - 1) = 0 /\ money_field (file s') u = 0 /\ fst (spec_step b (OpDe u m)) u = 0.
Proof.
  intros HA Hu Hm Hneg Hlt s'.
  assert (Hok : op_ok b (OpDe u m)) by (cbn [op_ok]; split; [exact Hu|]; split; [exact Hm|]; left; split; assumption).
  destruct (step_agree s b (OpDe u m) HA Hok) as [[Hl Ha] Hx].
  assert (E : (m <? 0) && (b u <? - m) = true) by (apply andb_true_intro; split; apply Z.ltb_lt; assumption).
  cbn [spec_step fst snd] in *. rewrite E in *. cbv zeta in *. cbn [fst snd] in *.
  destruct (Ha u Hu) as [H1 H2]. rewrite upd_same in H1, H2.
  repeat split; try assumption. apply upd_same.
Qed.

Definition sets_nonneg (h : list op) : Prop := forall u m, In (OpSet u m) h -> 0 <= m.

Lemma spec_nonneg : forall h b, (forall u, valid u -> 0 <= b u) -> hist_ok b h -> sets_nonneg h ->
  forall u, valid u -> 0 <= fst (spec_run b h) u.
Proof.
  induction h as [|o r IH]; intros b Hb Hok Hs u Hu; [apply Hb; exact Hu|].
  rewrite spec_run_cons. cbn [fst]. destruct Hok as [Ho Hr].
  apply IH; [|exact Hr|intros u' m' Hin; apply (Hs u' m'); right; exact Hin|exact Hu].
  intros u' Hu'. destruct o as [uo m|uo m|uo|uo rec|uo k bs]; cbn [spec_step fst]; [| | |apply Hb; exact Hu'|apply Hb; exact Hu'].
  - unfold upd. destruct (Z.eqb_spec u' uo); [apply (Hs uo m); left; reflexivity|apply Hb; exact Hu'].
  - cbv zeta. cbn [fst]. unfold upd. destruct (Z.eqb_spec u' uo) as [->|]; [|apply Hb; exact Hu'].
    specialize (Hb uo Hu').
    destruct (Z.ltb_spec m 0); destruct (Z.ltb_spec (b uo) (- m)); cbn [andb]; lia.
  - apply Hb; exact Hu'.
Qed.

Lemma nonneg h s b : Agree s b -> (forall u, valid u -> 0 <= b u) -> hist_ok b h -> sets_nonneg h ->
  forall u, valid u -> 0 <= shm (fst (run s h)) (u - 1) /\ 0 <= money_field (file (fst (run s h))) u.
Proof.
  intros HA Hb Hok Hs u Hu. destruct (run_agree h s b HA Hok) as [[_ Ha] _].
  destruct (Ha u Hu) as [H1 H2]. rewrite H1, H2.
  pose proof (spec_nonneg h b Hb Hok Hs u Hu). split; assumption.
Qed.

(* ------------------------------------------------------------------ invalid slots *)
Lemma invalid_slot s u m : ~ valid u ->
  step s (OpSet u m) = (s, OErr (-1) ERR_INVALID_UID) /\ step s (OpDe u m) = (s, OErr (-1) ERR_INVALID_UID).
Proof.
  intros H. cbn [step]. unfold set_umoney, de_umoney. rewrite (invalid_guard u H). split; reflexivity.
Qed.

(* ------------------------------------------------------------------ frame *)
Lemma set_umoney_frame s u m : length (file s) = Z.to_nat (MAXU * RECSZ) ->
  let s' := fst (set_umoney s u m) in
  length (file s') = length (file s) /\
  (forall i, (i < money_pos u \/ money_pos u + 4 <= i)%nat -> nth i (file s') 0 = nth i (file s) 0) /\
  (forall j, j <> u - 1 -> shm s' j = shm s j).
Proof.
  intros Hl. destruct (Z.leb_spec u 0) as [H0|H0]; [|destruct (Z.ltb_spec MAXU u) as [H1|H1]].
  - unfold set_umoney. replace (u <=? 0) with true by (symmetry; apply Z.leb_le; exact H0). cbn. auto.
  - unfold set_umoney. replace (MAXU <? u) with true by (symmetry; apply Z.ltb_lt; exact H1). rewrite orb_true_r. cbn. auto.
  - assert (Hu : valid u) by (unfold valid; lia).
    rewrite set_umoney_valid by exact Hu. cbn [fst file shm].
    pose proof (money_pos_fits u (file s) Hu Hl) as Hfit.
    split; [apply write_at_length; rewrite enc32_length; exact Hfit|]. split.
    + intros i Hi. apply nth_write_at_other; rewrite enc32_length; assumption.
    + intros j Hj. apply upd_other. exact Hj.
Qed.

Lemma sync_update_frame s u (rec : list Z) : length (file s) = Z.to_nat (MAXU * RECSZ) -> length rec = Z.to_nat RECSZ ->
  let s' := fst (passwd_sync_update s u rec) in
  length (file s') = length (file s) /\
  (forall i, (i < rec_pos u \/ rec_pos u + Z.to_nat RECSZ <= i)%nat -> nth i (file s') 0 = nth i (file s) 0) /\
  (forall j, shm s' j = shm s j).
Proof.
  intros Hl Hr. destruct (valid_dec u) as [Hu|Hu].
  - rewrite sync_update_valid by exact Hu. cbn [fst file shm].
    pose proof (rec_fits u (file s) Hu Hl) as Hfit.
    assert (Hlen : length (rec_with_money rec (shm s (u - 1))) = Z.to_nat RECSZ) by (apply rec_with_money_length; exact Hr).
    split; [apply write_at_length; rewrite Hlen; exact Hfit|]. split; [|reflexivity].
    intros i Hi. apply nth_write_at_other; rewrite Hlen; assumption.
  - unfold passwd_sync_update. rewrite (uid_is_valid_false u Hu). cbn. auto.
Qed.

Lemma part_frame s u k (bs : list Z) : length (file s) = Z.to_nat (MAXU * RECSZ) -> length bs = Z.to_nat (pf_len k) ->
  let s' := fst (passwd_update_field s u k bs) in let p := (rec_pos u + Z.to_nat (pf_off k))%nat in
  length (file s') = length (file s) /\
  (forall i, (i < p \/ p + Z.to_nat (pf_len k) <= i)%nat -> nth i (file s') 0 = nth i (file s) 0) /\
  (forall j, shm s' j = shm s j).
Proof.
  intros Hl Hb. destruct (valid_dec u) as [Hu|Hu].
  - unfold passwd_update_field. rewrite (uid_is_valid_true u Hu). cbn [negb fst file shm].
    pose proof (part_fits u k (file s) Hu Hl) as Hfit.
    split; [apply write_at_length; rewrite Hb; exact Hfit|]. split; [|reflexivity].
    intros i Hi. apply nth_write_at_other; rewrite Hb; assumption.
  - unfold passwd_update_field. rewrite (uid_is_valid_false u Hu). cbn. auto.
Qed.

Lemma frame s o : length (file s) = Z.to_nat (MAXU * RECSZ) -> op_shape o ->
  let s' := fst (step s o) in let u := target o in let p := fst (footprint o) in let n := snd (footprint o) in
  length (file s') = length (file s) /\
  (forall i, (i < p \/ p + n <= i)%nat -> nth i (file s') 0 = nth i (file s) 0) /\
  (forall j, j <> u - 1 -> shm s' j = shm s j).
Proof.
  intros Hl Hsh. destruct o as [u m|u m|u|u rec|u k bs]; cbn [step target footprint fst snd].
  - apply set_umoney_frame. exact Hl.
  - unfold de_umoney. destruct ((u <=? 0) || (MAXU <? u)); [cbn; auto|].
    destruct (money_of s u) as [cur| |]; [|cbn; auto|cbn; auto].
    destruct ((m <? 0) && (cur <? - m)); apply set_umoney_frame; exact Hl.
  - cbn. auto.
  - destruct (sync_update_frame s u rec Hl Hsh) as [H1 [H2 H3]]. repeat split; auto.
  - destruct (part_frame s u k bs Hl Hsh) as [H1 [H2 H3]]. repeat split; auto.
Qed.

(* a whole-record write-back and a one-field update leave EVERY balance of the segment alone *)
Lemma writers_keep_shm s o : length (file s) = Z.to_nat (MAXU * RECSZ) -> op_shape o ->
  match o with OpRewrite _ _ | OpPart _ _ _ => forall j, shm (fst (step s o)) j = shm s j | _ => True end.
Proof.
  intros Hl Hsh. destruct o as [u m|u m|u|u rec|u k bs]; try exact I; cbn [step].
  - apply (sync_update_frame s u rec Hl Hsh).
  - apply (part_frame s u k bs Hl Hsh).
Qed.

(* the bytes an operation on a valid slot may write lie inside that slot's record *)
Lemma footprint_in_record o : valid (target o) ->
  RECSZ * (target o - 1) <= Z.of_nat (fst (footprint o)) /\
  Z.of_nat (fst (footprint o)) + Z.of_nat (snd (footprint o)) <= RECSZ * target o.
Proof.
  intros Hu. pose proof layout_ok.
  destruct o as [u m|u m|u|u rec|u k bs]; cbn [target footprint fst snd] in *;
    try (change (Z.of_nat 4) with 4; apply money_pos_in_record; exact Hu).
  - rewrite rec_pos_Z by exact Hu. rewrite Z2Nat.id by lia. lia.
  - pose proof (layout_fields k) as [Ho [Hn [Hin _]]].
    rewrite Nat2Z.inj_add, rec_pos_Z by exact Hu. rewrite !Z2Nat.id by lia. lia.
Qed.

(* an operation on an invalid slot changes nothing at all *)
Lemma invalid_step_id s o : ~ valid (target o) -> match o with OpGet _ => True | _ => fst (step s o) = s end.
Proof.
  intros Hu. destruct o as [u m|u m|u|u rec|u k bs]; cbn [target step] in *; try exact I.
  - unfold set_umoney. rewrite (invalid_guard u Hu). reflexivity.
  - unfold de_umoney. rewrite (invalid_guard u Hu). reflexivity.
  - unfold passwd_sync_update. rewrite (uid_is_valid_false u Hu). reflexivity.
  - unfold passwd_update_field. rewrite (uid_is_valid_false u Hu). reflexivity.
Qed.

Lemma invalid_slot_writers s u (rec : list Z) k (bs : list Z) : ~ valid u ->
  step s (OpRewrite u rec) = (s, OErr (rec_money rec) ERR_INVALID_UID) /\ step s (OpPart u k bs) = (s, OErr 0 ERR_INVALID_UID).
Proof.
  intros H. cbn [step]. unfold passwd_sync_update, passwd_update_field. rewrite (uid_is_valid_false u H). split; reflexivity.
Qed.

(* the overlay: after a whole-record write-back the Money field of the record is the cached balance — whatever
   balance the caller's record carried and whatever the file held (no agreement is assumed) — the segment is
   untouched, and every other byte of the record is the caller's *)
Lemma rewrite_overlay s u (rec : list Z) : length (file s) = Z.to_nat (MAXU * RECSZ) -> valid u ->
  length rec = Z.to_nat RECSZ -> int32 (shm s (u - 1)) ->
  let s' := fst (step s (OpRewrite u rec)) in
  snd (step s (OpRewrite u rec)) = OVal (shm s (u - 1)) /\
  money_field (file s') u = shm s (u - 1) /\
  (forall j, shm s' j = shm s j) /\
  (forall k, (k < Z.to_nat RECSZ)%nat -> (k < Z.to_nat MONEY_OFF \/ Z.to_nat MONEY_OFF + 4 <= k)%nat ->
     nth (rec_pos u + k) (file s') 0 = nth k rec 0).
Proof.
  intros Hl Hu Hr Hm. cbn [step]. split; [rewrite sync_update_valid by exact Hu; reflexivity|].
  split; [apply sync_update_field; assumption|].
  split; [apply (sync_update_frame s u rec Hl Hr)|].
  intros k Hk Hout. rewrite sync_update_valid by exact Hu. cbn [fst file].
  pose proof (rec_fits u (file s) Hu Hl) as Hfit.
  assert (Hlen : length (rec_with_money rec (shm s (u - 1))) = Z.to_nat RECSZ) by (apply rec_with_money_length; exact Hr).
  rewrite nth_write_at_inside by (rewrite Hlen; assumption).
  unfold rec_with_money. apply nth_write_at_other; rewrite enc32_length; [apply money_off_fits; exact Hr|exact Hout].
Qed.

(* "no other user's record changes", for whole histories: a user no operation addresses keeps every byte of the
   record and the balance in the segment *)
Lemma run_frame : forall h s v, length (file s) = Z.to_nat (MAXU * RECSZ) -> Forall op_shape h -> valid v ->
  (forall o, In o h -> target o <> v) ->
  length (file (fst (run s h))) = length (file s) /\
  (forall i, RECSZ * (v - 1) <= Z.of_nat i < RECSZ * v -> nth i (file (fst (run s h))) 0 = nth i (file s) 0) /\
  shm (fst (run s h)) (v - 1) = shm s (v - 1).
Proof.
  induction h as [|o r IH]; intros s v Hl Hsh Hv Hne; [cbn; auto|].
  rewrite run_cons. cbn [fst].
  assert (Ho : target o <> v) by (apply Hne; left; reflexivity).
  pose proof (Forall_inv Hsh) as Hso. pose proof (Forall_inv_tail Hsh) as Hsr.
  destruct (frame s o Hl Hso) as [F1 [F2 F3]].
  destruct (IH (fst (step s o)) v) as [I1 [I2 I3]]; [rewrite F1; exact Hl|exact Hsr|exact Hv|intros o' Hin; apply Hne; right; exact Hin|].
  split; [rewrite I1; exact F1|]. split.
  - intros i Hi. rewrite I2 by exact Hi.
    destruct (valid_dec (target o)) as [Hu|Hu].
    + apply F2. pose proof (footprint_in_record o Hu) as [Ha Hb]. pose proof layout_ok.
      destruct (Z.lt_total (target o) v) as [Hlt|[Heq|Hgt]]; [|contradiction|].
      * right. apply Nat2Z.inj_le. rewrite Nat2Z.inj_add. nia.
      * left. apply Nat2Z.inj_lt. nia.
    + pose proof (invalid_step_id s o Hu) as Hid. destruct o; try (rewrite Hid; reflexivity). reflexivity.
  - rewrite I3. apply F3. lia.
Qed.

(* ------------------------------------------------------------------ non-vacuity *)
Definition ex_file : list Z := repeat 0 (Z.to_nat (MAXU * RECSZ)).
Definition ex_hist : list op := [OpSet MAXU 7; OpDe MAXU (-9); OpDe 1 2147483647; OpDe 1 (-2147483648); OpGet 1; OpSet 2 (-5); OpDe 2 5].

Example ex_file_length : length ex_file = Z.to_nat (MAXU * RECSZ).
Proof. apply repeat_length. Qed.

Example ex_run : snd (run (cold_load ex_file) ex_hist) = [OVal 7; OVal 0; OVal 2147483647; OVal 0; OVal 0; OVal (-5); OVal 0].
Proof. vm_compute. reflexivity. Qed.

Example ex_last_slot_on_disk : money_field (file (fst (run (cold_load ex_file) [OpSet MAXU 7]))) MAXU = 7.
Proof. vm_compute. reflexivity. Qed.

Example ex_hist_ok : hist_ok (fun u => money_field ex_file u) ex_hist.
Proof.
  assert (H0 : forall u, money_field ex_file u = 0).
  { intros u. rewrite money_field_at. unfold field_at, ex_file. rewrite !nth_repeat. reflexivity. }
  unfold ex_hist. cbn [hist_ok spec_step fst op_ok]. cbv zeta. unfold upd, valid, int32. rewrite !H0.
  pose proof layout_ok. change MAXU with 50 in *. cbn. lia.
Qed.

Example ex_invalid : step (cold_load ex_file) (OpSet 0 5) = (cold_load ex_file, OErr (-1) ERR_INVALID_UID).
Proof. apply invalid_slot. unfold valid. lia. Qed.

(* record writers between money operations: killUser's zeroed record after a credit, a stale record written back after
   a debit (pwcuStart ... DeUMoney ... pwcuEnd), a password update *)
Definition ex_zero_rec : list Z := repeat 0 (Z.to_nat RECSZ).
Definition ex_stale_rec : list Z := rec_with_money ex_zero_rec 1000.
Definition ex_hist2 : list op :=
  [OpDe 2 640; OpRewrite 2 ex_zero_rec; OpSet MAXU 1000; OpDe MAXU (-300); OpRewrite MAXU ex_stale_rec;
   OpPart MAXU FPasswd (repeat 65 (Z.to_nat PASSLEN)); OpGet MAXU; OpGet 2].

Example ex_run2 : snd (run (cold_load ex_file) ex_hist2) = [OVal 640; OVal 640; OVal 1000; OVal 700; OVal 700; OVal 0; OVal 700; OVal 640].
Proof. vm_compute. reflexivity. Qed.

Example ex_rewrite_on_disk :
  let s := fst (run (cold_load ex_file) ex_hist2) in
  money_field (file s) 2 = 640 /\ money_field (file s) MAXU = 700 /\ rec_money ex_stale_rec = 1000.
Proof. vm_compute. repeat split. Qed.

Example ex_hist2_ok : hist_ok (fun u => money_field ex_file u) ex_hist2.
Proof.
  assert (H0 : forall u, money_field ex_file u = 0).
  { intros u. rewrite money_field_at. unfold field_at, ex_file. rewrite !nth_repeat. reflexivity. }
  assert (Hz : length ex_zero_rec = Z.to_nat RECSZ) by apply repeat_length.
  assert (Hs : length ex_stale_rec = Z.to_nat RECSZ) by (apply rec_with_money_length; exact Hz).
  unfold ex_hist2. cbn [hist_ok spec_step fst op_ok]. cbv zeta. unfold upd, valid, int32. rewrite !H0.
  rewrite repeat_length. pose proof layout_ok. change MAXU with 50 in *.
  repeat split; try assumption; try reflexivity; cbn; lia.
Qed.

Example ex_hist2_shape : Forall op_shape ex_hist2.
Proof.
  assert (Hz : length ex_zero_rec = Z.to_nat RECSZ) by apply repeat_length.
  assert (Hs : length ex_stale_rec = Z.to_nat RECSZ) by (apply rec_with_money_length; exact Hz).
  unfold ex_hist2. repeat constructor; try assumption; cbn [op_shape]; try apply repeat_length.
Qed.

Example ex_invalid_writer : step (cold_load ex_file) (OpRewrite (MAXU + 1) ex_zero_rec) = (cold_load ex_file, OErr 0 ERR_INVALID_UID).
Proof.
  assert (H : ~ valid (MAXU + 1)) by (unfold valid; lia).
  destruct (invalid_slot_writers (cold_load ex_file) (MAXU + 1) ex_zero_rec FPasswd [] H) as [H1 _]. exact H1.
Qed.

(* ------------------------------------------------------------------ refused writes and planted disagreement *)
Lemma bupd_same d k v : bupd d k v k = v.
Proof. unfold bupd. rewrite Z.eqb_refl. reflexivity. Qed.
Lemma bupd_other d k v x : x <> k -> bupd d k v x = d x.
Proof. unfold bupd. intros H. destruct (Z.eqb_spec x k); congruence. Qed.

Lemma agree_is_except s b : Agree s b -> AgreeExcept s b (fun _ => false).
Proof.
  intros HA. pose proof (fun u => agree_int32 s b u HA) as Hi. destruct HA as [Hl Ha]. split; [exact Hl|].
  intros u Hu. destruct (Ha u Hu) as [H1 H2]. split; [exact H1|]. split; [apply Hi; exact Hu|]. intros _. exact H2.
Qed.
Lemma except_none_is_agree s b d : AgreeExcept s b d -> (forall u, valid u -> d u = false) -> Agree s b.
Proof.
  intros [Hl Ha] Hd. split; [exact Hl|]. intros u Hu. destruct (Ha u Hu) as [H1 [_ H3]]. split; [exact H1|apply H3, Hd; exact Hu].
Qed.

(* a store into the segment alone: arithmetic follows, the slot becomes dirty *)
Lemma shm_store_except s b d u m : AgreeExcept s b d -> valid u -> int32 m ->
  AgreeExcept (mkst (upd (shm s) (u - 1) m) (file s)) (upd b u m) (bupd d u true).
Proof.
  intros [Hl Ha] Hu Hm. split; [exact Hl|]. cbn [shm file]. intros u' Hu'.
  destruct (Z.eq_dec u' u) as [->|Hne].
  - rewrite !upd_same, bupd_same. split; [reflexivity|]. split; [exact Hm|]. discriminate.
  - rewrite upd_other by lia. rewrite (upd_other b) by exact Hne. rewrite bupd_other by exact Hne. apply Ha. exact Hu'.
Qed.

(* a successful SetUMoney: the three views of the slot are equal afterwards WHATEVER the file held, the slot is clean *)
Lemma set_umoney_except s b d u m : AgreeExcept s b d -> valid u -> int32 m ->
  AgreeExcept (fst (set_umoney s u m)) (upd b u m) (bupd d u false) /\ snd (set_umoney s u m) = OVal m.
Proof.
  intros [Hl Ha] Hu Hm. rewrite set_umoney_valid by exact Hu. cbn [fst snd]. split; [|reflexivity].
  pose proof (money_pos_fits u (file s) Hu Hl) as Hfit.
  split; cbn [file shm].
  - rewrite write_at_length by (rewrite enc32_length; exact Hfit). exact Hl.
  - intros u' Hu'. destruct (Z.eq_dec u' u) as [->|Hne].
    + rewrite !upd_same. split; [reflexivity|]. split; [exact Hm|]. intros _.
      rewrite money_field_at. apply field_at_write_same; assumption.
    + rewrite upd_other by lia. rewrite (upd_other b) by exact Hne. rewrite bupd_other by exact Hne.
      destruct (Ha u' Hu') as [Hs [Hi Hf]]. split; [exact Hs|]. split; [exact Hi|]. intros Hd.
      rewrite money_field_at. rewrite field_at_write_other; [rewrite <- money_field_at; apply Hf; exact Hd|exact Hfit|].
      apply money_pos_apart; auto.
Qed.

Lemma refused_set_valid s u m : valid u ->
  refused_set s u m = (mkst (upd (shm s) (u - 1) m) (file s), OErr m ERR_IO).
Proof.
  intros H. unfold refused_set. rewrite (valid_guard u H). cbv zeta.
  destruct (valid_index u H) as [Hw Hr]. rewrite Hw, Hr. cbn [negb]. rewrite (valid_guard' u H). reflexivity.
Qed.

Lemma de_value_int32 b u m : int32 (b u) -> int32 m -> ((m < 0 /\ b u < - m) \/ int32 (b u + m)) ->
  int32 (de_value b u m) /\
  (if (m <? 0) && (b u <? - m) then 0 else wrap32 (b u + m)) = de_value b u m.
Proof.
  intros Hb Hm Hsum. unfold de_value. destruct ((m <? 0) && (b u <? - m)) eqn:E.
  - split; [exact int32_0|reflexivity].
  - assert (Hin : int32 (b u + m)).
    { destruct Hsum as [[H1 H2]|H]; [|exact H]. apply andb_false_iff in E. destruct E as [E|E]; apply Z.ltb_ge in E; lia. }
    split; [exact Hin|apply wrap32_small; exact Hin].
Qed.

Lemma write_outside_except s b d p (bs : list Z) : AgreeExcept s b d -> (p + length bs <= length (file s))%nat ->
  (forall u, valid u -> (money_pos u + 4 <= p \/ p + length bs <= money_pos u)%nat) ->
  AgreeExcept (mkst (shm s) (write_at (file s) p bs)) b d.
Proof.
  intros [Hl Ha] Hfit Hout. split; cbn [file shm].
  - rewrite write_at_length by exact Hfit. exact Hl.
  - intros u Hu. destruct (Ha u Hu) as [Hs [Hi Hf]]. split; [exact Hs|]. split; [exact Hi|]. intros Hd.
    rewrite money_field_at, field_at_write_outside; [rewrite <- money_field_at; apply Hf; exact Hd|exact Hfit|apply Hout; exact Hu].
Qed.

(* a whole-record write-back: the cached balance lands in the file, the slot is clean *)
Lemma sync_update_except s b d u (rec : list Z) : AgreeExcept s b d -> valid u -> length rec = Z.to_nat RECSZ ->
  AgreeExcept (fst (passwd_sync_update s u rec)) b (bupd d u false) /\ snd (passwd_sync_update s u rec) = OVal (b u).
Proof.
  intros [Hl Ha] Hu Hr. destruct (Ha u Hu) as [Hsu [Hiu _]].
  assert (Hfld : money_field (file (fst (passwd_sync_update s u rec))) u = shm s (u - 1))
    by (apply sync_update_field; try assumption; rewrite Hsu; exact Hiu).
  rewrite sync_update_valid in * by exact Hu. cbn [fst snd file shm] in *. rewrite Hsu in Hfld. split; [|rewrite Hsu; reflexivity].
  pose proof (rec_fits u (file s) Hu Hl) as Hfit.
  assert (Hlen : length (rec_with_money rec (b u)) = Z.to_nat RECSZ) by (apply rec_with_money_length; exact Hr).
  rewrite Hsu. split; cbn [file shm].
  - rewrite write_at_length by (rewrite Hlen; exact Hfit). exact Hl.
  - intros u' Hu'. destruct (Z.eq_dec u' u) as [->|Hne].
    + split; [exact Hsu|]. split; [exact Hiu|]. intros _. exact Hfld.
    + rewrite bupd_other by exact Hne. destruct (Ha u' Hu') as [Hs [Hi Hf]]. split; [exact Hs|]. split; [exact Hi|]. intros Hd.
      rewrite money_field_at, field_at_write_outside; [rewrite <- money_field_at; apply Hf; exact Hd|rewrite Hlen; exact Hfit|].
      rewrite Hlen. apply money_pos_outside_rec; assumption.
Qed.

(* one step, refused writes and planted disagreement included *)
Lemma xstep_except s b d x : AgreeExcept s b d -> xop_ok b x ->
  AgreeExcept (fst (xstep s x)) (fst (fst (xspec_step b d x))) (snd (fst (xspec_step b d x))) /\
  snd (xstep s x) = snd (xspec_step b d x).
Proof.
  intros HA Hok. pose proof HA as [Hl Ha].
  destruct x as [o|o|u m|u m]; cbn [xstep].
  - (* the call goes through *)
    destruct o as [u m|u m|u|u rec|u k bs]; cbn [step xspec_step spec_step fst snd] in *.
    + destruct Hok as [Hu Hm]. destruct (set_umoney_except s b d u m HA Hu Hm) as [H1 H2]. split; [exact H1|exact H2].
    + destruct Hok as [Hu [Hm Hsum]]. destruct (Ha u Hu) as [Hs [Hi _]].
      destruct (de_value_int32 b u m Hi Hm Hsum) as [Hv Heq].
      unfold de_umoney. rewrite (valid_guard u Hu). rewrite money_of_valid by exact Hu. rewrite Hs.
      assert (E : (if (m <? 0) && (b u <? - m) then set_umoney s u 0 else set_umoney s u (wrap32 (b u + m))) =
                  set_umoney s u (de_value b u m)).
      { rewrite <- Heq. destruct ((m <? 0) && (b u <? - m)); reflexivity. }
      rewrite E. cbv zeta. cbn [fst snd]. fold (de_value b u m).
      destruct (set_umoney_except s b d u (de_value b u m) HA Hu Hv) as [H1 H2]. split; [exact H1|exact H2].
    + rewrite money_of_valid by exact Hok. destruct (Ha u Hok) as [Hs _]. rewrite Hs. split; [exact HA|reflexivity].
    + destruct Hok as [Hu Hr]. destruct (sync_update_except s b d u rec HA Hu Hr) as [H1 H2]. split; [exact H1|exact H2].
    + destruct Hok as [Hu Hb]. unfold passwd_update_field. rewrite (uid_is_valid_true u Hu). cbn [negb fst snd]. split; [|reflexivity].
      apply write_outside_except; [exact HA| |].
      * rewrite Hb. apply part_fits; [exact Hu|exact Hl].
      * intros u' Hu'. rewrite Hb. apply part_outside; assumption.
  - (* the file refuses the write *)
    destruct o as [u m|u m|u|u rec|u k bs]; cbn [refused_step xspec_step fst snd] in *.
    + destruct Hok as [Hu Hm]. rewrite refused_set_valid by exact Hu. cbn [fst snd]. split; [|reflexivity].
      apply shm_store_except; assumption.
    + destruct Hok as [Hu [Hm Hsum]]. destruct (Ha u Hu) as [Hs [Hi _]].
      destruct (de_value_int32 b u m Hi Hm Hsum) as [Hv Heq].
      unfold refused_de. rewrite (valid_guard u Hu). rewrite money_of_valid by exact Hu. rewrite Hs.
      assert (E : (if (m <? 0) && (b u <? - m) then refused_set s u 0 else refused_set s u (wrap32 (b u + m))) =
                  refused_set s u (de_value b u m)).
      { rewrite <- Heq. destruct ((m <? 0) && (b u <? - m)); reflexivity. }
      rewrite E. rewrite refused_set_valid by exact Hu. cbn [fst snd]. split; [|reflexivity].
      apply shm_store_except; assumption.
    + cbn [step]. rewrite money_of_valid by exact Hok. destruct (Ha u Hok) as [Hs _]. rewrite Hs. split; [exact HA|reflexivity].
    + destruct Hok as [Hu Hr]. rewrite (uid_is_valid_true u Hu). cbn [negb]. rewrite money_of_valid by exact Hu.
      destruct (Ha u Hu) as [Hs _]. rewrite Hs. split; [exact HA|reflexivity].
    + destruct Hok as [Hu Hb]. rewrite (uid_is_valid_true u Hu). cbn [negb]. split; [exact HA|reflexivity].
  - destruct Hok as [Hu Hm]. cbn [xspec_step fst snd]. split; [|reflexivity]. apply shm_store_except; assumption.
  - destruct Hok as [Hu Hm]. cbn [xspec_step fst snd]. split; [|reflexivity].
    pose proof (money_pos_fits u (file s) Hu Hl) as Hfit.
    split; cbn [file shm].
    + rewrite write_at_length by (rewrite enc32_length; exact Hfit). exact Hl.
    + intros u' Hu'. destruct (Ha u' Hu') as [Hs [Hi Hf]]. split; [exact Hs|]. split; [exact Hi|].
      destruct (Z.eq_dec u' u) as [->|Hne]; [rewrite bupd_same; discriminate|].
      rewrite bupd_other by exact Hne. intros Hd.
      rewrite money_field_at. rewrite field_at_write_other; [rewrite <- money_field_at; apply Hf; exact Hd|exact Hfit|].
      apply money_pos_apart; auto.
Qed.

Lemma xrun_cons s x r : xrun s (x :: r) = (fst (xrun (fst (xstep s x)) r), snd (xstep s x) :: snd (xrun (fst (xstep s x)) r)).
Proof. cbn [xrun]. destruct (xstep s x) as [s1 o]. cbn [fst snd]. destruct (xrun s1 r) as [s2 os]. reflexivity. Qed.
Lemma xspec_run_cons b d x r :
  xspec_run b d (x :: r) =
  (fst (xspec_run (fst (fst (xspec_step b d x))) (snd (fst (xspec_step b d x))) r),
   snd (xspec_step b d x) :: snd (xspec_run (fst (fst (xspec_step b d x))) (snd (fst (xspec_step b d x))) r)).
Proof.
  cbn [xspec_run]. destruct (xspec_step b d x) as [[b1 d1] o]. cbn [fst snd].
  destruct (xspec_run b1 d1 r) as [[b2 d2] os]. reflexivity.
Qed.

(* all histories *)
Lemma xrun_except : forall h s b d, AgreeExcept s b d -> xhist_ok b d h ->
  AgreeExcept (fst (xrun s h)) (fst (fst (xspec_run b d h))) (snd (fst (xspec_run b d h))) /\
  snd (xrun s h) = snd (xspec_run b d h).
Proof.
  induction h as [|x r IH]; intros s b d HA Hok.
  - cbn. split; [exact HA|reflexivity].
  - destruct Hok as [Hx Hr]. rewrite xrun_cons, xspec_run_cons. cbn [fst snd].
    destruct (xstep_except s b d x HA Hx) as [HA1 Ho]. destruct (IH _ _ _ HA1 Hr) as [HA2 Hos].
    split; [exact HA2|]. rewrite Ho, Hos. reflexivity.
Qed.

Lemma xhist_ok_firstn : forall n h b d, xhist_ok b d h -> xhist_ok b d (firstn n h).
Proof.
  induction n as [|n IH]; intros h b d H; [exact I|]. destruct h as [|x r]; [exact I|].
  destruct H as [Hx Hr]. cbn [firstn xhist_ok]. split; [exact Hx|apply IH; exact Hr].
Qed.

(* after every prefix of every history in which writes are refused and disagreement is planted anywhere: the segment,
   MoneyOf and arithmetic agree on every valid slot, the Money field of the record too on every slot that is not dirty *)
Lemma resync_every_step : forall h s b n, Agree s b -> xhist_ok b (fun _ => false) h ->
  let h' := firstn n h in
  let s' := fst (xrun s h') in let b' := fst (fst (xspec_run b (fun _ => false) h')) in
  let d' := snd (fst (xspec_run b (fun _ => false) h')) in
  (forall u, valid u ->
     shm s' (u - 1) = b' u /\ money_of s' u = Ok (b' u) /\ (d' u = false -> money_field (file s') u = b' u)) /\
  snd (xrun s h') = snd (xspec_run b (fun _ => false) h').
Proof.
  intros h s b n HA Hok h' s' b' d'.
  destruct (xrun_except h' s b (fun _ => false) (agree_is_except s b HA) (xhist_ok_firstn n h b _ Hok)) as [[Hl Ha] Hx].
  split; [|exact Hx]. intros u Hu. destruct (Ha u Hu) as [H1 [_ H3]]. split; [exact H1|]. split; [|exact H3].
  subst s' b'. rewrite money_of_valid by exact Hu. rewrite H1. reflexivity.
Qed.

(* the repair, one call, NO agreement between file and segment assumed for the slot (nor for any other): a successful
   set / credit / debit / whole-record write-back leaves the three views of its slot equal *)
Lemma write_resyncs s b d x u : AgreeExcept s b d -> xop_ok b x ->
  (exists m, x = XOk (OpSet u m)) \/ (exists m, x = XOk (OpDe u m)) \/ (exists rec, x = XOk (OpRewrite u rec)) ->
  let s' := fst (xstep s x) in let b' := fst (fst (xspec_step b d x)) in
  shm s' (u - 1) = b' u /\ money_field (file s') u = b' u /\ snd (xstep s x) = OVal (b' u) /\
  b' u = match x with XOk (OpSet _ m) => m | XOk (OpDe _ m) => de_value b u m | _ => b u end.
Proof.
  intros HA Hok Hx s' b'.
  assert (Hu : valid u).
  { destruct Hx as [[m ->]|[[m ->]|[rec ->]]]; cbn [xop_ok op_ok] in Hok; tauto. }
  destruct (xstep_except s b d x HA Hok) as [[_ Ha] Ho].
  assert (Hd : snd (fst (xspec_step b d x)) u = false).
  { destruct Hx as [[m ->]|[[m ->]|[rec ->]]]; cbn [xspec_step fst snd]; apply bupd_same. }
  destruct (Ha u Hu) as [H1 [_ H3]]. split; [exact H1|]. split; [exact (H3 Hd)|]. subst s' b'.
  destruct Hx as [[m ->]|[[m ->]|[rec ->]]]; cbn [xspec_step spec_step fst snd] in *.
  - rewrite upd_same. split; [exact Ho|reflexivity].
  - cbv zeta in *. cbn [fst snd] in *. rewrite upd_same. split; [|reflexivity]. rewrite Ho. unfold de_value. reflexivity.
  - split; [exact Ho|reflexivity].
Qed.

(* ------------------------------------------------------------------ any table size (the production build: 2 000 000 slots) *)
Section AnySize.
Variable N : Z.
Hypothesis HN : 0 < N < 2147483648.

Lemma g_guards u : gvalid N u ->
  (u <=? 0) || (N <? u) = false /\ (u <? 1) || (N <? u) = false /\ wrap32 (u - 1) = u - 1 /\
  g_in_range N (u - 1) = true /\ g_valid N u = true.
Proof.
  intros [H1 H2]. repeat split.
  - destruct (Z.leb_spec u 0); destruct (Z.ltb_spec N u); cbn; try reflexivity; lia.
  - destruct (Z.ltb_spec u 1); destruct (Z.ltb_spec N u); cbn; try reflexivity; lia.
  - apply wrap32_small. lia.
  - unfold g_in_range. apply andb_true_intro. split; [apply Z.leb_le|apply Z.ltb_lt]; lia.
  - unfold g_valid. apply andb_true_intro. split; apply Z.leb_le; lia.
Qed.

Lemma g_money_of_valid s u : gvalid N u -> g_money_of N s u = Ok (gshm s (u - 1)).
Proof. intros H. destruct (g_guards u H) as [_ [_ [Hw [Hr _]]]]. unfold g_money_of. cbv zeta. rewrite Hw, Hr. reflexivity. Qed.

Lemma g_set_valid w s u m : gvalid N u ->
  g_set N w s u m =
  if w then (mkg (upd (gshm s) (u - 1) m) (upd (gfld s) u m), OVal m)
  else (mkg (upd (gshm s) (u - 1) m) (gfld s), OErr m ERR_IO).
Proof.
  intros H. destruct (g_guards u H) as [G1 [G2 [Hw [Hr _]]]]. unfold g_set. rewrite G1. cbv zeta. rewrite Hw, Hr. cbn [negb].
  rewrite G2. destruct w; [|reflexivity].
  rewrite g_money_of_valid by exact H. cbn [gshm]. rewrite upd_same. reflexivity.
Qed.

Lemma g_store s b d u m (w : bool) : GAgree N s b d -> gvalid N u ->
  GAgree N (if w then mkg (upd (gshm s) (u - 1) m) (upd (gfld s) u m) else mkg (upd (gshm s) (u - 1) m) (gfld s))
         (upd b u m) (bupd d u (negb w)).
Proof.
  intros Ha Hu u' Hu'. destruct (Z.eq_dec u' u) as [->|Hne].
  - destruct w; cbn [gshm gfld negb]; rewrite !upd_same, bupd_same; (split; [reflexivity|]); [reflexivity|discriminate].
  - destruct (Ha u' Hu') as [Hs Hf].
    destruct w; cbn [gshm gfld]; rewrite upd_other by lia; rewrite (upd_other b) by exact Hne; rewrite bupd_other by exact Hne;
      (split; [exact Hs|]); [rewrite upd_other by exact Hne|]; exact Hf.
Qed.

Lemma g_step_agree s b d x : GAgree N s b d -> g_op_ok N b x ->
  GAgree N (fst (g_step N s x)) (fst (fst (xspec_step b d x))) (snd (fst (xspec_step b d x))) /\
  snd (g_step N s x) = snd (xspec_step b d x).
Proof.
  intros Ha Hok.
  assert (Hset : forall (w : bool) u m, gvalid N u ->
            GAgree N (fst (g_set N w s u m)) (upd b u m) (bupd d u (negb w)) /\
            snd (g_set N w s u m) = if w then OVal m else OErr m ERR_IO).
  { intros w u m Hu. rewrite g_set_valid by exact Hu. pose proof (g_store s b d u m w Ha Hu) as G.
    destruct w; cbn [fst snd]; (split; [exact G|reflexivity]). }
  assert (Hde : forall (w : bool) u m, gvalid N u -> ((m < 0 /\ b u < - m) \/ int32 (b u + m)) ->
            g_de N w s u m = g_set N w s u (de_value b u m)).
  { intros w u m Hu Hsum. destruct (g_guards u Hu) as [G1 _]. unfold g_de. rewrite G1.
    rewrite g_money_of_valid by exact Hu. destruct (Ha u Hu) as [Hs _]. rewrite Hs. unfold de_value.
    destruct ((m <? 0) && (b u <? - m)) eqn:E; [reflexivity|].
    assert (Hin : int32 (b u + m)).
    { destruct Hsum as [[H1 H2]|H]; [|exact H]. apply andb_false_iff in E. destruct E as [E|E]; apply Z.ltb_ge in E; lia. }
    rewrite wrap32_small by exact Hin. reflexivity. }
  destruct x as [o|o|u m|u m]; cbn [g_op_ok] in Hok.
  - destruct o as [u m|u m|u|u rec|u k bs]; cbn [g_step xspec_step spec_step fst snd].
    + destruct Hok as [Hu Hm]. exact (Hset true u m Hu).
    + destruct Hok as [Hu [Hm Hsum]]. rewrite (Hde true u m Hu Hsum). cbv zeta. cbn [fst snd]. fold (de_value b u m).
      exact (Hset true u (de_value b u m) Hu).
    + rewrite g_money_of_valid by exact Hok. destruct (Ha u Hok) as [Hs _]. rewrite Hs. split; [exact Ha|reflexivity].
    + destruct (g_guards u Hok) as [_ [_ [_ [_ Hv]]]]. unfold g_rewrite. rewrite Hv. cbn [negb].
      rewrite g_money_of_valid by exact Hok. destruct (Ha u Hok) as [Hs _]. rewrite Hs. cbn [fst snd]. split; [|reflexivity].
      intros u' Hu'. cbn [gshm gfld]. destruct (Ha u' Hu') as [Hs' Hf']. split; [exact Hs'|].
      destruct (Z.eq_dec u' u) as [->|Hne]; [rewrite upd_same; reflexivity|].
      rewrite upd_other by exact Hne. rewrite bupd_other by exact Hne. exact Hf'.
    + destruct (g_guards u Hok) as [_ [_ [_ [_ Hv]]]]. rewrite Hv. cbn [negb fst snd]. split; [exact Ha|reflexivity].
  - destruct o as [u m|u m|u|u rec|u k bs]; cbn [g_step xspec_step fst snd].
    + destruct Hok as [Hu Hm]. exact (Hset false u m Hu).
    + destruct Hok as [Hu [Hm Hsum]]. rewrite (Hde false u m Hu Hsum). exact (Hset false u (de_value b u m) Hu).
    + rewrite g_money_of_valid by exact Hok. destruct (Ha u Hok) as [Hs _]. rewrite Hs. split; [exact Ha|reflexivity].
    + destruct (g_guards u Hok) as [_ [_ [_ [_ Hv]]]]. unfold g_rewrite. rewrite Hv. cbn [negb].
      rewrite g_money_of_valid by exact Hok. destruct (Ha u Hok) as [Hs _]. rewrite Hs. split; [exact Ha|reflexivity].
    + destruct (g_guards u Hok) as [_ [_ [_ [_ Hv]]]]. rewrite Hv. cbn [negb fst snd]. split; [exact Ha|reflexivity].
  - destruct Hok as [Hu Hm]. cbn [g_step xspec_step fst snd]. split; [|reflexivity]. exact (g_store s b d u m false Ha Hu).
  - destruct Hok as [Hu Hm]. cbn [g_step xspec_step fst snd]. split; [|reflexivity].
    intros u' Hu'. cbn [gshm gfld]. destruct (Ha u' Hu') as [Hs' Hf']. split; [exact Hs'|].
    destruct (Z.eq_dec u' u) as [->|Hne]; [rewrite bupd_same; discriminate|].
    rewrite upd_other by exact Hne. rewrite bupd_other by exact Hne. exact Hf'.
Qed.

Lemma g_run_cons s x r :
  g_run N s (x :: r) = (fst (g_run N (fst (g_step N s x)) r), snd (g_step N s x) :: snd (g_run N (fst (g_step N s x)) r)).
Proof. cbn [g_run]. destruct (g_step N s x) as [s1 o]. cbn [fst snd]. destruct (g_run N s1 r) as [s2 os]. reflexivity. Qed.

Lemma g_run_agree : forall h s b d, GAgree N s b d -> g_hist_ok N b d h ->
  GAgree N (fst (g_run N s h)) (fst (fst (xspec_run b d h))) (snd (fst (xspec_run b d h))) /\
  snd (g_run N s h) = snd (xspec_run b d h).
Proof.
  induction h as [|x r IH]; intros s b d HA Hok.
  - cbn. split; [exact HA|reflexivity].
  - destruct Hok as [Hx Hr]. rewrite g_run_cons, xspec_run_cons. cbn [fst snd].
    destruct (g_step_agree s b d x HA Hx) as [HA1 Ho]. destruct (IH _ _ _ HA1 Hr) as [HA2 Hos].
    split; [exact HA2|]. rewrite Ho, Hos. reflexivity.
Qed.

Lemma g_hist_ok_firstn : forall n h b d, g_hist_ok N b d h -> g_hist_ok N b d (firstn n h).
Proof.
  induction n as [|n IH]; intros h b d H; [exact I|]. destruct h as [|x r]; [exact I|].
  destruct H as [Hx Hr]. cbn [firstn g_hist_ok]. split; [exact Hx|apply IH; exact Hr].
Qed.
End AnySize.

(* for every table size, after every prefix of every history (refused writes and planted disagreement anywhere), on
   every slot 1..N: segment = MoneyOf = arithmetic, and = the Money field of the record unless the slot is dirty *)
Lemma any_size_every_step : forall N, 0 < N < 2147483648 -> forall h s b d n, GAgree N s b d -> g_hist_ok N b d h ->
  let h' := firstn n h in
  let s' := fst (g_run N s h') in let b' := fst (fst (xspec_run b d h')) in let d' := snd (fst (xspec_run b d h')) in
  (forall u, 1 <= u <= N ->
     gshm s' (u - 1) = b' u /\ g_money_of N s' u = Ok (b' u) /\ (d' u = false -> gfld s' u = b' u)) /\
  snd (g_run N s h') = snd (xspec_run b d h').
Proof.
  intros N HN h s b d n HA Hok h' s' b' d'.
  destruct (g_run_agree N HN h' s b d HA (g_hist_ok_firstn N n h b d Hok)) as [Ha Hx].
  split; [|exact Hx]. intros u Hu. destruct (Ha u Hu) as [H1 H2]. split; [exact H1|]. split; [|exact H2].
  subst s' b'. rewrite (g_money_of_valid N HN) by exact Hu. rewrite H1. reflexivity.
Qed.

(* the two builds *)
Lemma sizes_ok : 0 < g_size 0 < 2147483648 /\ 0 < g_size 1 < 2147483648 /\ g_size 0 = MAXU /\ g_size 1 = 2000000.
Proof. vm_compute. repeat split; discriminate || reflexivity. Qed.

Lemma production_size_every_step : forall h s b d n, GAgree (g_size 1) s b d -> g_hist_ok (g_size 1) b d h ->
  let h' := firstn n h in
  let s' := fst (g_run (g_size 1) s h') in let b' := fst (fst (xspec_run b d h')) in let d' := snd (fst (xspec_run b d h')) in
  (forall u, 1 <= u <= 2000000 ->
     gshm s' (u - 1) = b' u /\ g_money_of (g_size 1) s' u = Ok (b' u) /\ (d' u = false -> gfld s' u = b' u)) /\
  snd (g_run (g_size 1) s h') = snd (xspec_run b d h').
Proof.
  intros h s b d n HA Hok. destruct sizes_ok as [_ [H1 [_ H2]]].
  pose proof (any_size_every_step (g_size 1) H1 h s b d n HA Hok) as G. cbv zeta in *. rewrite H2 in G at 1. exact G.
Qed.

(* ------------------------------------------------------------------ non-vacuity of the refused-write / any-size statements *)
(* set 100; set 250 refused (the segment already holds 250, the file still 100, an error is returned); the repeated set 250
   succeeds and brings the file into line; credit 0 and a debit keep it there *)
Definition ex_xhist : list xop :=
  [XOk (OpSet 1 100); XRefused (OpSet 1 250); XOk (OpSet 1 250); XOk (OpDe 1 0); XPlantFile MAXU 77; XOk (OpSet MAXU 0);
   XPlantShm 2 9; XOk (OpRewrite 2 ex_zero_rec)].
Example ex_xhist_ok : xhist_ok (fun u => money_field ex_file u) (fun _ => false) ex_xhist.
Proof. vm_compute. repeat split; try discriminate; right; split; discriminate. Qed.
Example ex_refused_leaves_disagreement :
  let s := fst (xrun (cold_load ex_file) (firstn 2 ex_xhist)) in
  shm s 0 = 250 /\ money_field (file s) 1 = 100 /\ snd (xrun (cold_load ex_file) (firstn 2 ex_xhist)) = [OVal 100; OErr 250 ERR_IO].
Proof. vm_compute. repeat split. Qed.
Example ex_repeat_resyncs :
  let s := fst (xrun (cold_load ex_file) ex_xhist) in
  shm s 0 = 250 /\ money_field (file s) 1 = 250 /\ shm s (MAXU - 1) = 0 /\ money_field (file s) MAXU = 0 /\
  shm s 1 = 9 /\ money_field (file s) 2 = 9.
Proof. vm_compute. repeat split. Qed.
(* the production table: slots 65536, 65537 and the last one *)
Definition ex_ghist : list xop :=
  [XOk (OpSet 65537 100); XOk (OpDe 65537 5); XOk (OpDe 65537 (-30)); XOk (OpSet 2000000 7); XRefused (OpDe 2000000 1);
   XOk (OpDe 2000000 0); XOk (OpSet 65536 3); XOk (OpRewrite 65537 ex_zero_rec)].
Example ex_ghist_ok : g_hist_ok (g_size 1) (fun _ => 0) (fun _ => false) ex_ghist.
Proof. vm_compute. repeat split; try discriminate; right; split; discriminate. Qed.
Example ex_ghist_run :
  let s := fst (g_run (g_size 1) (mkg (fun _ => 0) (fun _ => 0)) ex_ghist) in
  gshm s 65536 = 75 /\ gfld s 65537 = 75 /\ gshm s 1999999 = 8 /\ gfld s 2000000 = 8 /\ gfld s 65536 = 3.
Proof. vm_compute. repeat split. Qed.

(* ------------------------------------------------------------------ several goroutines, each on slots of its own *)
(* Any interleaving of WHOLE operations is a history (run), so the lemmas over all histories speak about it; what is added
   here is that arithmetic for one slot does not depend on how the operations on other slots are interleaved with its own. *)
From Coq Require Import ZArith List Lia Bool.
Import ListNotations.
Open Scope Z_scope.
Definition on_slot (u : Z) (o : op) : bool := target o =? u.

Lemma spec_run_cons_fst : forall b o r, fst (spec_run b (o :: r)) = fst (spec_run (fst (spec_step b o)) r).
Proof.
  intros b o r. cbn [spec_run]. destruct (spec_step b o) as [b1 v]. cbn [fst]. destruct (spec_run b1 r) as [b2 vs]. reflexivity.
Qed.

Lemma spec_step_other : forall b o u, target o <> u -> fst (spec_step b o) u = b u.
Proof.
  intros b o u Hne. destruct o as [v m | v m | v | v rec | v k bs]; cbn [spec_step target fst] in *; unfold upd;
    try reflexivity; destruct (u =? v) eqn:E; try reflexivity; apply Z.eqb_eq in E; congruence.
Qed.

Lemma spec_step_same : forall b b' o, b (target o) = b' (target o) ->
  fst (spec_step b o) (target o) = fst (spec_step b' o) (target o).
Proof.
  intros b b' o Heq. destruct o as [v m | v m | v | v rec | v k bs]; cbn [spec_step target fst] in *; unfold upd;
    try rewrite Z.eqb_refl; try rewrite Heq; try reflexivity; exact Heq.
Qed.

Lemma slot_own_history_gen : forall h b b' u, b u = b' u ->
  fst (spec_run b h) u = fst (spec_run b' (filter (on_slot u) h)) u.
Proof.
  induction h as [| o r IH]; intros b b' u Heq.
  - exact Heq.
  - cbn [filter]. unfold on_slot at 1. destruct (target o =? u) eqn:E.
    + apply Z.eqb_eq in E. rewrite !spec_run_cons_fst. apply IH. subst u. apply spec_step_same. exact Heq.
    + apply Z.eqb_neq in E. rewrite spec_run_cons_fst. apply IH. rewrite spec_step_other by exact E. exact Heq.
Qed.

Lemma slot_own_history : forall h b u,
  fst (spec_run b h) u = fst (spec_run b (filter (on_slot u) h)) u.
Proof. intros h b u. apply slot_own_history_gen. reflexivity. Qed.

(* with the agreement of all histories: after ANY interleaving of whole operations the segment and the Money field of
   slot u hold what u's own operations, in their own order, compute *)
Lemma interleaved_whole_ops : forall h s b u, Agree s b -> hist_ok b h -> valid u ->
  shm (fst (run s h)) (u - 1) = fst (spec_run b (filter (on_slot u) h)) u /\
  money_field (file (fst (run s h))) u = fst (spec_run b (filter (on_slot u) h)) u.
Proof.
  intros h s b u HA HH Hu.
  pose proof (agree_every_step h s b (length h) HA HH) as [Hall _].
  rewrite firstn_all in Hall. destruct (Hall u Hu) as [H1 [H2 _]].
  rewrite <- slot_own_history. split; assumption.
Qed.

(* non-vacuity: two goroutines, slots 1 and 2, two interleavings of the same four operations *)
Example interleavings_agree :
  let b := fun _ : Z => 10 in
  let h1 := [OpSet 1 1000; OpSet 2 2005; OpDe 1 7; OpDe 2 (-5000)] in
  let h2 := [OpSet 2 2005; OpDe 2 (-5000); OpSet 1 1000; OpDe 1 7] in
  (fst (spec_run b h1) 1, fst (spec_run b h1) 2) = (1007, 0) /\
  (fst (spec_run b h2) 1, fst (spec_run b h2) 2) = (1007, 0) /\
  filter (on_slot 1) h1 = filter (on_slot 1) h2.
Proof. vm_compute. repeat split; reflexivity. Qed.
