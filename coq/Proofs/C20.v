(* C20 — lemmas: the segment, the Money field of .PASSWDS and plain arithmetic agree after every history. *)
From Verif Require Import Base.Common Model.C20.
Ltac Zify.zify_post_hook ::= Z.div_mod_to_equations.

(* ------------------------------------------------------------------ constants regenerated from the source *)
Lemma layout_ok : 0 <= MONEY_OFF /\ MONEY_OFF + 4 <= RECSZ /\ 0 < MAXU /\ MAXU < 2147483648.
Proof. vm_compute. repeat split; discriminate. Qed.

Lemma recsz_mul (u u' : Z) : u < u' -> RECSZ * (u - 1) + RECSZ <= RECSZ * (u' - 1).
Proof. pose proof layout_ok. nia. Qed.

(* ------------------------------------------------------------------ int32 codec *)
Lemma wrap32_small x : -2147483648 <= x <= 2147483647 -> wrap32 x = x.
Proof.
  intros H. unfold wrap32. cbv zeta.
  destruct (Z.ltb_spec (x mod 4294967296) 2147483648); lia.
Qed.

Lemma dec_enc32 m : int32 m -> dec32 (enc32 m) = m.
Proof.
  intros H. unfold int32 in H. unfold dec32, enc32. cbv zeta. cbn [nth].
  set (u := m mod 4294967296).
  assert (Hu : 0 <= u < 4294967296) by (subst u; lia).
  replace (u mod 256 + 256 * ((u / 256) mod 256) + 65536 * ((u / 65536) mod 256) + 16777216 * ((u / 16777216) mod 256)) with u by lia.
  subst u. unfold wrap32. cbv zeta.
  rewrite Z.mod_mod by lia.
  destruct (Z.ltb_spec (m mod 4294967296) 2147483648); lia.
Qed.

Lemma enc32_length m : length (enc32 m) = 4%nat.
Proof. reflexivity. Qed.

(* ------------------------------------------------------------------ positional write *)
Lemma write_at_length : forall off f bs, (off + length bs <= length f)%nat -> length (write_at f off bs) = length f.
Proof.
  induction off as [|o IH]; intros f bs H; cbn [write_at].
  - rewrite app_length, skipn_length. lia.
  - destruct f as [|x r]; [cbn in H; lia|]. cbn [length] in *. rewrite IH by lia. reflexivity.
Qed.

Lemma nth_skipn {A} (d : A) : forall p l k, nth k (skipn p l) d = nth (p + k) l d.
Proof.
  induction p as [|p IH]; intros l k; [reflexivity|].
  destruct l as [|a l]; [destruct k; reflexivity|]. cbn [skipn plus nth]. apply IH.
Qed.

Lemma nth_firstn {A} (d : A) : forall n l k, (k < n)%nat -> nth k (firstn n l) d = nth k l d.
Proof.
  induction n as [|n IH]; intros l k H; [lia|].
  destruct l as [|a l]; [reflexivity|]. destruct k as [|k]; [reflexivity|]. cbn [firstn nth]. apply IH. lia.
Qed.

Lemma nth_write_at (d : Z) : forall off f bs i, (off + length bs <= length f)%nat ->
  nth i (write_at f off bs) d =
  if ((off <=? i) && (i <? off + length bs))%nat then nth (i - off) bs d else nth i f d.
Proof.
  induction off as [|o IH]; intros f bs i H; cbn [write_at].
  - cbn [Nat.leb andb plus]. rewrite Nat.sub_0_r.
    destruct (Nat.ltb_spec i (length bs)) as [Hi|Hi].
    + apply app_nth1. exact Hi.
    + rewrite app_nth2 by exact Hi. rewrite nth_skipn. f_equal. lia.
  - destruct f as [|x r]; [cbn in H; lia|]. cbn [length] in H.
    destruct i as [|i].
    + reflexivity.
    + cbn [nth]. rewrite IH by lia.
      change (S o <=? S i)%nat with (o <=? i)%nat.
      change (S i <? S o + length bs)%nat with (i <? o + length bs)%nat.
      reflexivity.
Qed.

Lemma read4_nth f p : read_at f p 4 = firstn 4 (skipn p f).
Proof. reflexivity. Qed.

(* the decoded field in terms of the four bytes at its position *)
Definition field_at (f : list Z) (p : nat) : Z :=
  wrap32 (nth p f 0 + 256 * nth (p + 1) f 0 + 65536 * nth (p + 2) f 0 + 16777216 * nth (p + 3) f 0).

Lemma money_field_at f u : money_field f u = field_at f (money_pos u).
Proof.
  unfold money_field, dec32, read_at, field_at.
  rewrite !nth_firstn by lia. rewrite !nth_skipn. rewrite Nat.add_0_r. reflexivity.
Qed.

Lemma field_at_write_same f p m : (p + 4 <= length f)%nat -> int32 m -> field_at (write_at f p (enc32 m)) p = m.
Proof.
  intros Hl Hm. unfold field_at.
  rewrite !nth_write_at by (rewrite enc32_length; lia). rewrite enc32_length.
  replace ((p <=? p) && (p <? p + 4))%nat with true by (symmetry; apply andb_true_intro; split; [apply Nat.leb_le|apply Nat.ltb_lt]; lia).
  replace ((p <=? p + 1) && (p + 1 <? p + 4))%nat with true by (symmetry; apply andb_true_intro; split; [apply Nat.leb_le|apply Nat.ltb_lt]; lia).
  replace ((p <=? p + 2) && (p + 2 <? p + 4))%nat with true by (symmetry; apply andb_true_intro; split; [apply Nat.leb_le|apply Nat.ltb_lt]; lia).
  replace ((p <=? p + 3) && (p + 3 <? p + 4))%nat with true by (symmetry; apply andb_true_intro; split; [apply Nat.leb_le|apply Nat.ltb_lt]; lia).
  replace (p - p)%nat with 0%nat by lia. replace (p + 1 - p)%nat with 1%nat by lia.
  replace (p + 2 - p)%nat with 2%nat by lia. replace (p + 3 - p)%nat with 3%nat by lia.
  exact (dec_enc32 m Hm).
Qed.

Lemma nth_write_at_other f p bs i : (p + length bs <= length f)%nat -> (i < p \/ p + length bs <= i)%nat ->
  nth i (write_at f p bs) 0 = nth i f 0.
Proof.
  intros Hl Hi. rewrite nth_write_at by exact Hl.
  destruct (Nat.leb_spec p i); destruct (Nat.ltb_spec i (p + length bs)); cbn [andb]; try reflexivity; lia.
Qed.

Lemma field_at_write_other f p q m : (p + 4 <= length f)%nat -> (q + 4 <= p \/ p + 4 <= q)%nat ->
  field_at (write_at f p (enc32 m)) q = field_at f q.
Proof.
  intros Hl Hq. unfold field_at.
  rewrite !nth_write_at_other by (rewrite ?enc32_length; lia). reflexivity.
Qed.

(* ------------------------------------------------------------------ positions of the Money fields *)
Lemma money_pos_Z u : valid u -> Z.of_nat (money_pos u) = RECSZ * (u - 1) + MONEY_OFF.
Proof. intros [H1 H2]. unfold money_pos. pose proof layout_ok. rewrite Z2Nat.id; nia. Qed.

(* the 4 bytes of the field lie inside record u *)
Lemma money_pos_in_record u : valid u ->
  RECSZ * (u - 1) <= Z.of_nat (money_pos u) /\ Z.of_nat (money_pos u) + 4 <= RECSZ * u.
Proof. intros H. rewrite money_pos_Z by exact H. pose proof layout_ok. nia. Qed.

Lemma money_pos_fits u (f : list Z) : valid u -> length f = Z.to_nat (MAXU * RECSZ) -> (money_pos u + 4 <= length f)%nat.
Proof.
  intros H Hl. pose proof (money_pos_in_record u H) as [_ Hp]. destruct H as [H1 H2]. pose proof layout_ok.
  rewrite Hl. apply Nat2Z.inj_le. rewrite Nat2Z.inj_add. rewrite Z2Nat.id by nia. change (Z.of_nat 4) with 4. nia.
Qed.

Lemma money_pos_apart u u' : valid u -> valid u' -> u <> u' ->
  (money_pos u' + 4 <= money_pos u \/ money_pos u + 4 <= money_pos u')%nat.
Proof.
  intros H H' Hne. pose proof (money_pos_Z u H). pose proof (money_pos_Z u' H'). pose proof layout_ok.
  destruct (Z.lt_total u u') as [Hlt|[Heq|Hgt]]; [|contradiction|].
  - right. pose proof (recsz_mul u u' Hlt). lia.
  - left. pose proof (recsz_mul u' u Hgt). lia.
Qed.

(* ------------------------------------------------------------------ the Go functions on a valid slot *)
Lemma upd_same f k v : upd f k v k = v.
Proof. unfold upd. rewrite Z.eqb_refl. reflexivity. Qed.
Lemma upd_other f k v x : x <> k -> upd f k v x = f x.
Proof. unfold upd. intros H. destruct (Z.eqb_spec x k); congruence. Qed.

Lemma valid_guard u : valid u -> (u <=? 0) || (MAXU <? u) = false.
Proof. intros [H1 H2]. destruct (Z.leb_spec u 0); destruct (Z.ltb_spec MAXU u); cbn; try reflexivity; lia. Qed.
Lemma valid_guard' u : valid u -> (u <? 1) || (MAXU <? u) = false.
Proof. intros [H1 H2]. destruct (Z.ltb_spec u 1); destruct (Z.ltb_spec MAXU u); cbn; try reflexivity; lia. Qed.
Lemma invalid_guard u : ~ valid u -> (u <=? 0) || (MAXU <? u) = true.
Proof. unfold valid. intros H. destruct (Z.leb_spec u 0); destruct (Z.ltb_spec MAXU u); cbn; try reflexivity; lia. Qed.

Lemma valid_index u : valid u -> wrap32 (u - 1) = u - 1 /\ in_range (u - 1) = true.
Proof.
  intros [H1 H2]. pose proof layout_ok. split.
  - apply wrap32_small. lia.
  - unfold in_range. apply andb_true_intro. split; [apply Z.leb_le|apply Z.ltb_lt]; lia.
Qed.

Lemma money_of_valid s u : valid u -> money_of s u = Ok (shm s (u - 1)).
Proof. intros H. unfold money_of. cbv zeta. destruct (valid_index u H) as [-> ->]. reflexivity. Qed.

(* SetUMoney on a valid slot: what it returns and the state it leaves *)
Lemma set_umoney_valid s u m : valid u ->
  set_umoney s u m = (mkst (upd (shm s) (u - 1) m) (write_at (file s) (money_pos u) (enc32 m)), OVal m).
Proof.
  intros H. unfold set_umoney. rewrite (valid_guard u H). cbv zeta.
  destruct (valid_index u H) as [Hw Hr]. rewrite Hw, Hr. cbn [negb].
  unfold passwd_update_money. cbn [shm file]. rewrite (valid_guard' u H).
  rewrite money_of_valid by exact H. cbn [shm]. rewrite upd_same. reflexivity.
Qed.

Lemma set_umoney_agree s b u m : Agree s b -> valid u -> int32 m ->
  Agree (fst (set_umoney s u m)) (upd b u m) /\ snd (set_umoney s u m) = OVal m.
Proof.
  intros [Hl Ha] Hu Hm. rewrite set_umoney_valid by exact Hu. cbn [fst snd]. split; [|reflexivity].
  pose proof (money_pos_fits u (file s) Hu Hl) as Hfit.
  split; cbn [file shm].
  - rewrite write_at_length by (rewrite enc32_length; exact Hfit). exact Hl.
  - intros u' Hu'. destruct (Z.eq_dec u' u) as [->|Hne].
    + rewrite !upd_same. split; [reflexivity|]. rewrite money_field_at. apply field_at_write_same; assumption.
    + rewrite upd_other by lia. rewrite (upd_other b) by exact Hne.
      destruct (Ha u' Hu') as [Hs Hf]. split; [exact Hs|].
      rewrite money_field_at. rewrite field_at_write_other; [rewrite <- money_field_at; exact Hf|exact Hfit|].
      apply money_pos_apart; auto.
Qed.

Lemma int32_0 : int32 0.
Proof. unfold int32. lia. Qed.

(* one step of a history *)
Lemma step_agree s b o : Agree s b -> op_ok b o ->
  Agree (fst (step s o)) (fst (spec_step b o)) /\ snd (step s o) = OVal (snd (spec_step b o)).
Proof.
  intros HA Hok. destruct o as [u m|u m|u]; cbn [step spec_step fst snd].
  - destruct Hok as [Hu Hm]. apply set_umoney_agree; assumption.
  - destruct Hok as [Hu [Hm Hsum]]. unfold de_umoney. rewrite (valid_guard u Hu).
    rewrite money_of_valid by exact Hu. destruct HA as [Hl Ha]. destruct (Ha u Hu) as [Hs _]. rewrite Hs.
    destruct ((m <? 0) && (b u <? - m)) eqn:E.
    + apply set_umoney_agree; [split; assumption|exact Hu|exact int32_0].
    + assert (Hin : int32 (b u + m)).
      { destruct Hsum as [[H1 H2]|H]; [|exact H]. apply andb_false_iff in E. destruct E as [E|E]; [apply Z.ltb_ge in E|apply Z.ltb_ge in E]; lia. }
      rewrite wrap32_small by exact Hin. apply set_umoney_agree; [split; assumption|exact Hu|exact Hin].
  - rewrite money_of_valid by exact Hok. destruct HA as [Hl Ha]. destruct (Ha u Hok) as [Hs _]. rewrite Hs.
    split; [split; assumption|reflexivity].
Qed.

Lemma run_cons s o r : run s (o :: r) = (fst (run (fst (step s o)) r), snd (step s o) :: snd (run (fst (step s o)) r)).
Proof. cbn [run]. destruct (step s o) as [s1 x]. cbn [fst snd]. destruct (run s1 r) as [s2 xs]. reflexivity. Qed.
Lemma spec_run_cons b o r :
  spec_run b (o :: r) = (fst (spec_run (fst (spec_step b o)) r), snd (spec_step b o) :: snd (spec_run (fst (spec_step b o)) r)).
Proof. cbn [spec_run]. destruct (spec_step b o) as [b1 v]. cbn [fst snd]. destruct (spec_run b1 r) as [b2 vs]. reflexivity. Qed.

(* all histories *)
Lemma run_agree : forall h s b, Agree s b -> hist_ok b h ->
  Agree (fst (run s h)) (fst (spec_run b h)) /\ snd (run s h) = map OVal (snd (spec_run b h)).
Proof.
  induction h as [|o r IH]; intros s b HA Hok.
  - cbn. split; [exact HA|reflexivity].
  - destruct Hok as [Ho Hr]. rewrite run_cons, spec_run_cons. cbn [fst snd map].
    destruct (step_agree s b o HA Ho) as [HA1 Hx]. destruct (IH _ _ HA1 Hr) as [HA2 Hxs].
    split; [exact HA2|]. rewrite Hx, Hxs. reflexivity.
Qed.

Lemma hist_ok_firstn : forall n h b, hist_ok b h -> hist_ok b (firstn n h).
Proof.
  induction n as [|n IH]; intros h b H; [exact I|]. destruct h as [|o r]; [exact I|].
  destruct H as [Ho Hr]. cbn [firstn hist_ok]. split; [exact Ho|apply IH; exact Hr].
Qed.

(* "after every step": the statement for every prefix of the history *)
Lemma agree_every_step : forall h s b n, Agree s b -> hist_ok b h ->
  let h' := firstn n h in
  (forall u, valid u ->
     shm (fst (run s h')) (u - 1) = fst (spec_run b h') u /\
     money_field (file (fst (run s h'))) u = fst (spec_run b h') u /\
     money_of (fst (run s h')) u = Ok (fst (spec_run b h') u)) /\
  snd (run s h') = map OVal (snd (spec_run b h')).
Proof.
  intros h s b n HA Hok h'. destruct (run_agree h' s b HA (hist_ok_firstn n h b Hok)) as [[Hl Ha] Hx].
  split; [|exact Hx]. intros u Hu. destruct (Ha u Hu) as [H1 H2]. repeat split; try assumption.
  rewrite money_of_valid by exact Hu. rewrite H1. reflexivity.
Qed.

(* ------------------------------------------------------------------ cold load establishes the agreement *)
Lemma nth_load_table f k : (k < Z.to_nat MAXU)%nat ->
  nth k (load_table f) 0 =
  (let i := Z.of_nat k in if lenZ f >=? RECSZ * (i + 1) then money_field f (i + 1) else 0).
Proof.
  intros H. unfold load_table. cbv zeta.
  set (g := fun k0 : nat => if lenZ f >=? RECSZ * (Z.of_nat k0 + 1) then money_field f (Z.of_nat k0 + 1) else 0).
  rewrite (nth_indep _ 0 (g 0%nat)) by (rewrite map_length, seq_length; exact H).
  rewrite map_nth. rewrite seq_nth by exact H. subst g. cbn beta. reflexivity.
Qed.

Lemma load_agree f : length f = Z.to_nat (MAXU * RECSZ) -> Agree (cold_load f) (fun u => money_field f u).
Proof.
  intros Hl. split; [exact Hl|]. intros u Hu. split; [|reflexivity].
  unfold cold_load. cbv zeta. cbn [shm]. destruct (valid_index u Hu) as [_ ->].
  destruct Hu as [H1 H2]. pose proof layout_ok.
  rewrite nth_load_table by lia. cbv zeta. rewrite Z2Nat.id by lia.
  replace (u - 1 + 1) with u by lia.
  replace (lenZ f >=? RECSZ * u) with true; [reflexivity|].
  symmetry. apply Z.geb_le. unfold lenZ. rewrite Hl. rewrite Z2Nat.id by nia. nia.
Qed.

(* ------------------------------------------------------------------ saturation, non-negativity *)
Lemma saturate s b u m : Agree s b -> valid u -> int32 m -> m < 0 -> b u < - m ->
  let s' := fst (step s (OpDe u m)) in
  snd (step s (OpDe u m)) = OVal 0 /\ shm s' (u - 1) = 0 /\ money_field (file s') u = 0 /\ fst (spec_step b (OpDe u m)) u = 0.
Proof.
  intros HA Hu Hm Hneg Hlt s'.
  assert (Hok : op_ok b (OpDe u m)) by (cbn [op_ok]; split; [exact Hu|]; split; [exact Hm|]; left; split; assumption).
  destruct (step_agree s b (OpDe u m) HA Hok) as [[Hl Ha] Hx].
  assert (E : (m <? 0) && (b u <? - m) = true) by (apply andb_true_intro; split; apply Z.ltb_lt; assumption).
  cbn [spec_step fst snd] in *. rewrite E in *. cbv zeta in *. cbn [fst snd] in *.
  destruct (Ha u Hu) as [H1 H2]. rewrite upd_same in H1, H2.
  repeat split; try assumption. apply upd_same.
Qed.

Definition sets_nonneg (h : list op) : Prop := forall u m, In (OpSet u m) h -> 0 <= m.

Lemma spec_nonneg : forall h b, (forall u, valid u -> 0 <= b u) -> hist_ok b h -> sets_nonneg h ->
  forall u, valid u -> 0 <= fst (spec_run b h) u.
Proof.
  induction h as [|o r IH]; intros b Hb Hok Hs u Hu; [apply Hb; exact Hu|].
  rewrite spec_run_cons. cbn [fst]. destruct Hok as [Ho Hr].
  apply IH; [|exact Hr|intros u' m' Hin; apply (Hs u' m'); right; exact Hin|exact Hu].
  intros u' Hu'. destruct o as [uo m|uo m|uo]; cbn [spec_step fst].
  - unfold upd. destruct (Z.eqb_spec u' uo); [apply (Hs uo m); left; reflexivity|apply Hb; exact Hu'].
  - cbv zeta. cbn [fst]. unfold upd. destruct (Z.eqb_spec u' uo) as [->|]; [|apply Hb; exact Hu'].
    specialize (Hb uo Hu').
    destruct (Z.ltb_spec m 0); destruct (Z.ltb_spec (b uo) (- m)); cbn [andb]; lia.
  - apply Hb; exact Hu'.
Qed.

Lemma nonneg h s b : Agree s b -> (forall u, valid u -> 0 <= b u) -> hist_ok b h -> sets_nonneg h ->
  forall u, valid u -> 0 <= shm (fst (run s h)) (u - 1) /\ 0 <= money_field (file (fst (run s h))) u.
Proof.
  intros HA Hb Hok Hs u Hu. destruct (run_agree h s b HA Hok) as [[_ Ha] _].
  destruct (Ha u Hu) as [H1 H2]. rewrite H1, H2.
  pose proof (spec_nonneg h b Hb Hok Hs u Hu). split; assumption.
Qed.

(* ------------------------------------------------------------------ invalid slots *)
Lemma invalid_slot s u m : ~ valid u ->
  step s (OpSet u m) = (s, OErr (-1) ERR_INVALID_UID) /\ step s (OpDe u m) = (s, OErr (-1) ERR_INVALID_UID).
Proof.
  intros H. cbn [step]. unfold set_umoney, de_umoney. rewrite (invalid_guard u H). split; reflexivity.
Qed.

(* ------------------------------------------------------------------ frame *)
Lemma set_umoney_frame s u m : length (file s) = Z.to_nat (MAXU * RECSZ) ->
  let s' := fst (set_umoney s u m) in
  length (file s') = length (file s) /\
  (forall i, (i < money_pos u \/ money_pos u + 4 <= i)%nat -> nth i (file s') 0 = nth i (file s) 0) /\
  (forall j, j <> u - 1 -> shm s' j = shm s j).
Proof.
  intros Hl. destruct (Z.leb_spec u 0) as [H0|H0]; [|destruct (Z.ltb_spec MAXU u) as [H1|H1]].
  - unfold set_umoney. replace (u <=? 0) with true by (symmetry; apply Z.leb_le; exact H0). cbn. auto.
  - unfold set_umoney. replace (MAXU <? u) with true by (symmetry; apply Z.ltb_lt; exact H1). rewrite orb_true_r. cbn. auto.
  - assert (Hu : valid u) by (unfold valid; lia).
    rewrite set_umoney_valid by exact Hu. cbn [fst file shm].
    pose proof (money_pos_fits u (file s) Hu Hl) as Hfit.
    split; [apply write_at_length; rewrite enc32_length; exact Hfit|]. split.
    + intros i Hi. apply nth_write_at_other; rewrite enc32_length; assumption.
    + intros j Hj. apply upd_other. exact Hj.
Qed.

Lemma frame s o : length (file s) = Z.to_nat (MAXU * RECSZ) ->
  let s' := fst (step s o) in let u := target o in
  length (file s') = length (file s) /\
  (forall i, (i < money_pos u \/ money_pos u + 4 <= i)%nat -> nth i (file s') 0 = nth i (file s) 0) /\
  (forall j, j <> u - 1 -> shm s' j = shm s j).
Proof.
  intros Hl. destruct o as [u m|u m|u]; cbn [step target].
  - apply set_umoney_frame. exact Hl.
  - unfold de_umoney. destruct ((u <=? 0) || (MAXU <? u)); [cbn; auto|].
    destruct (money_of s u) as [cur| |]; [|cbn; auto|cbn; auto].
    destruct ((m <? 0) && (cur <? - m)); apply set_umoney_frame; exact Hl.
  - cbn. auto.
Qed.

(* ------------------------------------------------------------------ non-vacuity *)
Definition ex_file : list Z := repeat 0 (Z.to_nat (MAXU * RECSZ)).
Definition ex_hist : list op := [OpSet MAXU 7; OpDe MAXU (-9); OpDe 1 2147483647; OpDe 1 (-2147483648); OpGet 1; OpSet 2 (-5); OpDe 2 5].

Example ex_file_length : length ex_file = Z.to_nat (MAXU * RECSZ).
Proof. apply repeat_length. Qed.

Example ex_run : snd (run (cold_load ex_file) ex_hist) = [OVal 7; OVal 0; OVal 2147483647; OVal 0; OVal 0; OVal (-5); OVal 0].
Proof. vm_compute. reflexivity. Qed.

Example ex_last_slot_on_disk : money_field (file (fst (run (cold_load ex_file) [OpSet MAXU 7]))) MAXU = 7.
Proof. vm_compute. reflexivity. Qed.

Example ex_hist_ok : hist_ok (fun u => money_field ex_file u) ex_hist.
Proof.
  assert (H0 : forall u, money_field ex_file u = 0).
  { intros u. rewrite money_field_at. unfold field_at, ex_file. rewrite !nth_repeat. reflexivity. }
  unfold ex_hist. cbn [hist_ok spec_step fst op_ok]. cbv zeta. unfold upd, valid, int32. rewrite !H0.
  pose proof layout_ok. change MAXU with 50 in *. cbn. lia.
Qed.

Example ex_invalid : step (cold_load ex_file) (OpSet 0 5) = (cold_load ex_file, OErr (-1) ERR_INVALID_UID).
Proof. apply invalid_slot. unfold valid. lia. Qed.
