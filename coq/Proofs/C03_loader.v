(* C03 — ids are ASCII; requests naming a malformed id; the loader's choice of records (cache/uhash_loader.go). *)
From Verif Require Import Base.Common Gen.Consts_default Model.C03 Proofs.C03_ops.
From Coq Require Import Arith PeanoNat.

(* ------------------------------------------------------------------ well-formed ids are ASCII alphanumerics *)
Definition ascii_alnum (ch : Z) : Prop := (48 <= ch <= 57) \/ (65 <= ch <= 90) \/ (97 <= ch <= 122).
Definition ascii_letter (ch : Z) : Prop := (65 <= ch <= 90) \/ (97 <= ch <= 122).

Lemma isalpha_spec ch : isalpha ch = true -> ascii_letter ch.
Proof. unfold isalpha, ascii_letter. intros H. lia. Qed.
Lemma isalnum_spec ch : isalnum ch = true -> ascii_alnum ch.
Proof. unfold isalnum, isalpha, isdigit, ascii_alnum. intros H. lia. Qed.

Theorem valid_id_ascii name : id_valid name = true ->
  (2 <= length (cid name) <= Z.to_nat ptttype.IDLEN)%nat /\ ascii_letter (hd 0 (cid name)) /\
  (forall ch, In ch (cid name) -> ascii_alnum ch /\ ch < 128).
Proof.
  unfold id_valid. intros H.
  apply andb_prop in H. destruct H as [H Hall]. apply andb_prop in H. destruct H as [H Hhd].
  apply andb_prop in H. destruct H as [Hlo Hhi].
  apply Nat.leb_le in Hlo. apply Nat.leb_le in Hhi.
  split; [split; assumption|]. split; [apply isalpha_spec; exact Hhd|].
  intros ch Hin. rewrite forallb_forall in Hall. specialize (Hall ch Hin). apply isalnum_spec in Hall.
  split; [exact Hall|]. unfold ascii_alnum in Hall. lia.
Qed.

(* an id with a byte outside the ASCII alphanumerics (in particular any byte >= 0x80) is not well-formed *)
Corollary high_byte_invalid name ch : In ch (cid name) -> 128 <= ch -> id_valid name = false.
Proof.
  intros Hin Hhi. destruct (id_valid name) eqn:E; [|reflexivity].
  destruct (valid_id_ascii name E) as (_ & _ & Hall). specialize (Hall ch Hin). lia.
Qed.

(* the id an operation names *)
Definition op_name (o : op) : option (list Z) :=
  match o with
  | ORegister n _ _ | OLogin n _ | OCheckPw n _ | OChangePw n _ _ | OChangeEmail n _ | OExists n | OGetUser n => Some n
  | OHour => None
  end.

(* every request naming a malformed id is refused and leaves the state as it is *)
Theorem malformed_id_refused c o name : op_name o = Some name -> id_valid name = false ->
  (exists e, fst (step c o) = RErr e) /\ snd (step c o) = c.
Proof.
  intros Hn Hv. destruct o; cbn in Hn; inversion Hn; subst;
    cbn [step]; unfold register, login, check_pw, change_pw, change_email, exists_user, get_user;
    rewrite Hv; cbn [negb orb fst snd]; split; eauto.
Qed.
Theorem malformed_id_refused_api c o name : op_name o = Some name -> id_valid name = false ->
  (exists e, fst (api_step c o) = RErr e) /\ snd (api_step c o) = c.
Proof.
  intros Hn Hv. unfold api_step.
  destruct (match o with OChangePw n _ _ | OChangeEmail n _ => eqbl n ptttype.STR_GUEST | _ => false end); [cbn; split; eauto|].
  destruct (malformed_id_refused c o name Hn Hv) as ((e & He) & Hs).
  destruct (step c o) as [r c'] eqn:E. cbn in He, Hs. subst r c'. cbn. split; eauto.
Qed.

(* ------------------------------------------------------------------ the loader *)
(* number of records whose id is not well-formed (free slots, garbage) *)
Definition ninv (l : list acct) : nat := length (filter (fun a => negb (id_valid (a_id a))) l).

Lemma indexed_length pre : forall recs inv, length (indexed pre inv recs) = length recs.
Proof. induction recs as [|a r IH]; intros inv; cbn; [reflexivity|]. destruct (id_valid (a_id a)); cbn; rewrite IH; reflexivity. Qed.

(* exactly: a record is put into the index iff its id is well-formed or it is among the first [pre] that are not *)
Theorem indexed_exact pre : forall recs inv k a, nth_error recs k = Some a ->
  nth_error (indexed pre inv recs) k = Some (id_valid (a_id a) || (inv + ninv (firstn (S k) recs) <=? pre)%nat).
Proof.
  induction recs as [|x r IH]; intros inv k a Hk; [destruct k; discriminate|].
  destruct k as [|k].
  - cbn in Hk. inversion Hk; subst x. cbn [indexed firstn]. unfold ninv. cbn [filter].
    destruct (id_valid (a_id a)) eqn:E; cbn [negb nth_error orb length]; [reflexivity|].
    rewrite Nat.add_1_r. reflexivity.
  - cbn in Hk. cbn [indexed]. change (firstn (S (S k)) (x :: r)) with (x :: firstn (S k) r).
    unfold ninv. cbn [filter]. destruct (id_valid (a_id x)) eqn:E; cbn [negb nth_error length].
    + rewrite (IH inv k a Hk). reflexivity.
    + rewrite (IH (S inv) k a Hk). unfold ninv. rewrite Nat.add_succ_r. reflexivity.
Qed.

(* hence no account is ever left out, however many free records precede it *)
Theorem loader_keeps_accounts pre recs k a : nth_error recs k = Some a -> id_valid (a_id a) = true ->
  nth_error (indexed pre 0 recs) k = Some true.
Proof. intros Hk Hv. rewrite (indexed_exact pre recs 0 k a Hk), Hv. reflexivity. Qed.

(* a table of accounts: every slot is free or holds a well-formed id *)
Definition accounts_only (sl : list acct) : Prop := forall k a, nth_error sl k = Some a -> a_id a = [] \/ id_valid (a_id a) = true.

Lemma id_valid_cid id : id_valid id = true -> id <> [].
Proof. intros H E. subst id. cbn in H. discriminate. Qed.

Lemma ninv_all_valid : forall l, (forall a, In a l -> id_valid (a_id a) = true) -> ninv l = 0%nat.
Proof.
  induction l as [|x l IH]; intros H; [reflexivity|]. unfold ninv. cbn [filter]. rewrite (H x (or_introl eq_refl)). cbn [negb].
  apply IH. intros a Ha. apply H. right. exact Ha.
Qed.

(* the first free record is in the index as soon as one slot is pre-allocated *)
Theorem loader_keeps_first_free pre sl k : (0 < pre)%nat -> accounts_only sl -> find_empty sl = Some k ->
  nth_error (indexed pre 0 sl) k = Some true.
Proof.
  intros Hpre Hacc Hf. unfold find_empty in Hf. apply find_idx_some in Hf. destruct Hf as (a & Hk & He & Hbefore).
  rewrite (indexed_exact pre sl 0 k a Hk). apply empty_spec in He.
  assert (Hn : ninv (firstn (S k) sl) = 1%nat).
  { clear Hpre. revert k a Hk He Hbefore Hacc. induction sl as [|x r IH]; intros k a Hk He Hb Hacc; [destruct k; discriminate|].
    destruct k as [|k].
    - cbn in Hk. inversion Hk; subst x. cbn [firstn]. unfold ninv. cbn [filter]. rewrite He. cbn. reflexivity.
    - cbn in Hk. change (firstn (S (S k)) (x :: r)) with (x :: firstn (S k) r). unfold ninv. cbn [filter].
      assert (Hx : id_valid (a_id x) = true).
      { destruct (Hacc 0%nat x eq_refl) as [E|E]; [|exact E]. specialize (Hb 0%nat x (Nat.lt_0_succ k) eq_refl).
        rewrite E in Hb. cbn in Hb. discriminate. }
      rewrite Hx. cbn [negb]. apply (IH k a Hk He).
      + intros j b Hj Hjb. apply (Hb (S j) b); [lia|exact Hjb].
      + intros j b Hjb. apply (Hacc (S j) b). exact Hjb. }
  rewrite Hn. cbn [Nat.add]. destruct (Nat.leb_spec 1 pre) as [_|H]; [rewrite orb_true_r; reflexivity|lia].
Qed.

(* searching through an index that holds the answer is searching the table *)
Lemma find_ix_eq (f : acct -> bool) : forall sl ix, length ix = length sl ->
  (forall k, find_idx f sl = Some k -> nth_error ix k = Some true) ->
  find_idx (fun p : bool * acct => fst p && f (snd p)) (combine ix sl) = find_idx f sl.
Proof.
  induction sl as [|x r IH]; intros ix Hl H; [destruct ix; reflexivity|].
  destruct ix as [|b ix]; [discriminate|]. cbn [combine find_idx fst snd].
  destruct (f x) eqn:E.
  - specialize (H 0%nat). cbn [find_idx] in H. rewrite E in H. specialize (H eq_refl). cbn in H. inversion H; subst b. reflexivity.
  - rewrite andb_false_r. rewrite IH; [reflexivity|cbn in Hl; lia|].
    intros k Hk. specialize (H (S k)). cbn [find_idx] in H. rewrite E, Hk in H. exact (H eq_refl).
Qed.

(* after a load, on a table of accounts, the index answers as the table does: every lookup, and the free slot a
   registration is given — wherever the accounts are stored and however many free records the file has *)
Theorem index_after_load pre sl : (0 < pre)%nat -> accounts_only sl ->
  (forall id, lookup_ix (indexed pre 0 sl) sl id = lookup sl id) /\
  find_empty_ix (indexed pre 0 sl) sl = find_empty sl.
Proof.
  intros Hpre Hacc. split.
  - intros id. unfold lookup_ix, lookup. destruct (is_empty id) eqn:Ee; [reflexivity|].
    apply (find_ix_eq (fun a => ci_eqb (a_id a) id)); [apply indexed_length|].
    intros k Hk. apply find_idx_some in Hk. destruct Hk as (a & Hk & Hc & _).
    apply (loader_keeps_accounts pre sl k a Hk).
    destruct (Hacc k a Hk) as [E|E]; [|exact E]. exfalso.
    assert (Hne : id <> []) by (intros E'; subst id; discriminate).
    exact (ci_nonempty (a_id a) id Hne Hc E).
  - unfold find_empty_ix. apply (find_ix_eq (fun a => is_empty (a_id a))); [apply indexed_length|].
    intros k Hk. apply (loader_keeps_first_free pre sl k Hpre Hacc Hk).
Qed.

(* the account of a slot is found at that slot *)
Lemma lookup_own c k a : WF c -> nth_error (slots c) k = Some a -> a_id a <> [] -> lookup (slots c) (a_id a) = Some k.
Proof.
  intros W Hk Hne. unfold lookup. destruct (is_empty (a_id a)) eqn:Ee; [apply empty_spec in Ee; contradiction|].
  assert (Hex : existsb (fun b => ci_eqb (a_id b) (a_id a)) (slots c) = true).
  { apply existsb_nth. exists k, a. split; [exact Hk|]. apply ci_key. reflexivity. }
  apply find_idx_is_some in Hex. destruct Hex as [k' Hk'].
  assert (Hl : lookup (slots c) (a_id a) = Some k') by (unfold lookup; rewrite Ee; exact Hk').
  rewrite Hk'. f_equal. symmetry. exact (lookup_unique c (a_id a) k' k a W Hl Hk Hne eq_refl).
Qed.

(* the statement for the file: after a server start every account of .PASSWDS - wherever it is stored, behind any
   number of free records - is answered by the index with its own slot *)
Theorem account_found_after_load pre c k a : (0 < pre)%nat -> WF c -> accounts_only (slots c) ->
  nth_error (slots c) k = Some a -> a_id a <> [] ->
  lookup_ix (indexed pre 0 (slots c)) (slots c) (a_id a) = Some k.
Proof.
  intros Hpre W Hacc Hk Hne. destruct (index_after_load pre (slots c) Hpre Hacc) as [Hl _]. rewrite Hl.
  exact (lookup_own c k a W Hk Hne).
Qed.

(* non-vacuity: 3 pre-allocated slots, four free records, then an account: it is in the index, the fourth free record is not *)
Definition ex_acct (id : list Z) : acct := mkAcct id None [] false false.
Example loader_example :
  indexed 3 0 [ex_acct [83;89]; no_acct; no_acct; no_acct; no_acct; ex_acct [108;97;116;101]] = [true; true; true; true; false; true]
  /\ lookup_ix (indexed 3 0 [no_acct; no_acct; no_acct; no_acct; ex_acct [108;97;116;101]]) [no_acct; no_acct; no_acct; no_acct; ex_acct [108;97;116;101]] [76;65;84;69] = Some 4%nat
  /\ id_valid [65; 192; 115; 170; 76] = false /\ id_valid [65; 98] = true.
Proof. vm_compute. repeat split. Qed.
