(* C18 — double-byte helpers: StripNoneBig5, DBCSStatus, DBCSSafeTrim, TrimDBCS, SubjectEx, Trim, StripBlank *)
From Verif Require Import Base.Common Base.Cstr Gen.Consts_default Gen.StrTab Model.C18 Proofs.C18_cmp.

(* ------------------------------------------------------------------ StripNoneBig5 *)
Inductive big5_units : list Z -> Prop :=
| BU_nil : big5_units []
| BU_ascii c r : 32 <= c < 128 -> big5_units r -> big5_units (c :: r)
| BU_pair l t r : 128 <= l -> big5_trail t = true -> big5_units r -> big5_units (l :: t :: r).

Lemma none_big5_units_n : forall n s, (length s <= n)%nat -> big5_units (strip_none_big5 s).
Proof.
  induction n as [|n IH]; intros s L.
  - destruct s; [constructor|cbn in L; lia].
  - destruct s as [|c r]; [constructor|]. cbn [length] in L. cbn [strip_none_big5].
    destruct (c =? 0); [constructor|].
    destruct ((32 <=? c) && (c <? 128)) eqn:A.
    + apply andb_true_iff in A. destruct A as [A1 A2]. apply Z.leb_le in A1. apply Z.ltb_lt in A2.
      apply BU_ascii; [lia|apply IH; lia].
    + destruct (128 <=? c) eqn:B; [|apply IH; lia]. apply Z.leb_le in B.
      destruct r as [|t r']; [constructor|]. cbn [length] in L.
      destruct (big5_trail t) eqn:T; [|apply IH; cbn [length]; lia].
      apply BU_pair; [exact B|exact T|apply IH; lia].
Qed.
Lemma none_big5_fixpoint : forall o, big5_units o -> strip_none_big5 o = o.
Proof.
  induction 1 as [|c r H U IH|l t r H T U IH]; [reflexivity| |].
  - cbn [strip_none_big5]. destruct (c =? 0) eqn:E; [apply Z.eqb_eq in E; lia|].
    replace ((32 <=? c) && (c <? 128)) with true; [rewrite IH; reflexivity|].
    symmetry. apply andb_true_iff. split; [apply Z.leb_le|apply Z.ltb_lt]; lia.
  - cbn [strip_none_big5]. destruct (l =? 0) eqn:E; [apply Z.eqb_eq in E; lia|].
    replace ((32 <=? l) && (l <? 128)) with false.
    + replace (128 <=? l) with true by (symmetry; apply Z.leb_le; lia). rewrite T, IH. reflexivity.
    + symmetry. apply andb_false_iff. right. apply Z.ltb_ge. lia.
Qed.
Lemma dbcs_wellformed s :
  big5_units (strip_none_big5 s) /\ strip_none_big5 (strip_none_big5 s) = strip_none_big5 s /\
  length (write_back s (strip_none_big5 s)) = length s.
Proof.
  pose proof (none_big5_units_n (length s) s (le_n _)) as U. split; [exact U|]. split; [apply none_big5_fixpoint; exact U|].
  assert (L : forall n s, (length s <= n)%nat -> (length (strip_none_big5 s) <= length s)%nat).
  { induction n as [|n IH]; intros s' L'.
    - destruct s'; [cbn; lia|cbn in L'; lia].
    - destruct s' as [|c r]; [cbn; lia|]. cbn [length] in L'. cbn [strip_none_big5].
      destruct (c =? 0); [cbn; lia|]. destruct ((32 <=? c) && (c <? 128)).
      + cbn [length]. specialize (IH r). lia.
      + destruct (128 <=? c); [|cbn [length]; specialize (IH r); lia].
        destruct r as [|t r']; [cbn; lia|]. cbn [length] in L'. destruct (big5_trail t).
        * cbn [length]. specialize (IH r'). lia.
        * specialize (IH (t :: r')). cbn [length] in *. lia. }
  specialize (L (length s) s (le_n _)). unfold write_back. rewrite app_length.
  destruct (skipn (length (strip_none_big5 s)) s) as [|x t] eqn:K.
  - apply (f_equal (@length Z)) in K. rewrite skipn_length in K. cbn [length] in *. lia.
  - apply (f_equal (@length Z)) in K. rewrite skipn_length in K. cbn [length] in *. lia.
Qed.
(* a dangling lead byte, a lead byte before a control byte, a pair with a 0x40-0x7e trail, a pair cut by NUL *)
Example dbcs_wellformed_ex :
  strip_none_big5 [97; 164; 164; 7; 164; 10; 98; 164; 64; 200] = [97; 164; 164; 98; 164; 64] /\
  strip_none_big5 [164; 0; 164] = [] /\ write_back [164; 0; 164] [] = [0; 0; 164].
Proof. vm_compute. repeat split. Qed.

(* ------------------------------------------------------------------ DBCSStatus / DBCSSafeTrim *)
Lemma dbcs_next_step c st : dbcs_next c st = dbcs_step st c.
Proof. reflexivity. Qed.

Lemma dbcs_loop_spec : forall s st pos,
  dbcs_status_loop s pos st = Ok (if pos <? 0 then st else fold_left dbcs_step (firstn (Z.to_nat (pos + 1)) s) st).
Proof.
  induction s as [|c r IH]; intros st pos.
  - cbn [dbcs_status_loop]. destruct (pos <? 0); [reflexivity|]. rewrite firstn_nil. reflexivity.
  - cbn [dbcs_status_loop]. destruct (pos <? 0) eqn:P; [reflexivity|]. apply Z.ltb_ge in P.
    replace (Z.to_nat (pos + 1)) with (S (Z.to_nat pos)) by lia. cbn [firstn fold_left]. rewrite dbcs_next_step.
    destruct r as [|x r']; [rewrite firstn_nil; reflexivity|]. rewrite IH.
    destruct (pos - 1 <? 0) eqn:Q.
    + apply Z.ltb_lt in Q. replace (Z.to_nat pos) with 0%nat by lia. reflexivity.
    + replace (Z.to_nat (pos - 1 + 1)) with (Z.to_nat pos) by lia. reflexivity.
Qed.
(* DBCSStatus(str, pos) is the parity of str[0..pos] *)
Lemma dbcs_status_spec s pos :
  dbcs_status s pos = Ok (if pos <? 0 then 0 else dbcs_final (firstn (Z.to_nat (pos + 1)) s)).
Proof. unfold dbcs_status. rewrite dbcs_loop_spec. reflexivity. Qed.

Lemma dbcs_final_snoc r c : dbcs_final (r ++ [c]) = dbcs_step (dbcs_final r) c.
Proof. unfold dbcs_final. rewrite fold_left_app. reflexivity. Qed.
Lemma dbcs_step_lead st c : dbcs_step st c = 1 -> st <> 1.
Proof. unfold dbcs_step. intros H E. rewrite E in H. cbn in H. discriminate. Qed.

Lemma safetrim_spec s :
  exists r, dbcs_safe_trim s = Ok r /\ (r = s \/ exists c, s = r ++ [c]) /\ (r = s <-> dbcs_final s <> 1) /\ dbcs_final r <> 1.
Proof.
  unfold dbcs_safe_trim. destruct (lenZ s <? 1) eqn:L.
  - apply Z.ltb_lt in L. destruct s; [|unfold lenZ in L; cbn [length] in L; lia].
    exists []. split; [reflexivity|]. split; [left; reflexivity|]. split; [|cbv; discriminate].
    split; [intros _; cbv; discriminate|reflexivity].
  - apply Z.ltb_ge in L. rewrite dbcs_status_spec. replace (lenZ s - 1 <? 0) with false by (symmetry; apply Z.ltb_ge; lia).
    replace (Z.to_nat (lenZ s - 1 + 1)) with (length s) by (unfold lenZ; lia). rewrite firstn_all. cbn [res_map].
    change cmsys.DBCS_LEADING with 1. destruct (dbcs_final s =? 1) eqn:E.
    + apply Z.eqb_eq in E. assert (NE : s <> []) by (intros ->; unfold lenZ in L; cbn in L; lia).
      pose proof (app_removelast_last 0 NE) as S. exists (removelast s). split; [reflexivity|].
      split; [right; exists (last s 0); exact S|]. split.
      * split; [|intros K; contradiction]. intros K. rewrite K in S.
        apply (f_equal (@length Z)) in S. rewrite app_length in S. cbn in S. lia.
      * rewrite S, dbcs_final_snoc in E. exact (dbcs_step_lead _ _ E).
    + apply Z.eqb_neq in E. exists s. split; [reflexivity|]. split; [left; reflexivity|]. split; [|exact E].
      split; [intros _; exact E|reflexivity].
Qed.
Example safetrim_ex :
  dbcs_safe_trim [97; 164] = Ok [97] /\ dbcs_safe_trim [164; 164] = Ok [164; 164] /\ dbcs_safe_trim [164; 164; 200] = Ok [164; 164] /\
  dbcs_safe_trim [] = Ok [] /\ dbcs_status [] 0 = Ok 0 /\ dbcs_status [164; 97] 1 = Ok 2.
Proof. vm_compute. repeat split. Qed.

(* ------------------------------------------------------------------ TrimDBCS *)
Lemma dangling_lead_spec : forall l b st, (st =? 1) = b -> dangling_lead l b = (fold_left dbcs_step l st =? 1).
Proof.
  induction l as [|c l IH]; intros b st H; [cbn; rewrite H; reflexivity|].
  cbn [dangling_lead fold_left]. apply IH. unfold dbcs_step. rewrite H. destruct b; [reflexivity|].
  cbn [negb andb]. destruct (128 <=? c); reflexivity.
Qed.
Lemma trimdbcs_spec a :
  exists r arr, trim_dbcs a = Ok (r, arr) /\ (r = cprefix a \/ exists c, cprefix a = r ++ [c]) /\
                (r = cprefix a <-> dbcs_final (cprefix a) <> 1) /\ dbcs_final r <> 1 /\ length arr = length a.
Proof.
  unfold trim_dbcs. destruct (cprefix a) as [|x p'] eqn:P.
  - exists [], a. split; [reflexivity|]. split; [left; reflexivity|]. split; [split; [intros _; cbv; discriminate|reflexivity]|].
    split; [cbv; discriminate|reflexivity].
  - rewrite <- P. rewrite (dangling_lead_spec (cprefix a) false 0 eq_refl). fold (dbcs_final (cprefix a)).
    assert (NE : cprefix a <> []) by (rewrite P; discriminate).
    assert (LA : (length (cprefix a) <= length a)%nat).
    { clear. induction a as [|y a IH]; [cbn; lia|]. cbn [cprefix]. destruct (y =? 0); cbn [length]; lia. }
    destruct (dbcs_final (cprefix a) =? 1) eqn:E.
    + apply Z.eqb_eq in E. pose proof (app_removelast_last 0 NE) as S.
      exists (removelast (cprefix a)), (firstn (length (cprefix a) - 1) a ++ 0 :: skipn (length (cprefix a)) a).
      split; [reflexivity|]. split; [right; exists (last (cprefix a) 0); exact S|]. split; [|split].
      * split; [|intros K; contradiction]. intros K. rewrite K in S.
        apply (f_equal (@length Z)) in S. rewrite app_length in S. cbn in S. lia.
      * rewrite S, dbcs_final_snoc in E. exact (dbcs_step_lead _ _ E).
      * rewrite app_length, firstn_length. cbn [length]. rewrite skipn_length.
        assert (0 < length (cprefix a))%nat by (destruct (cprefix a); [contradiction|cbn; lia]). lia.
    + apply Z.eqb_neq in E. exists (cprefix a), a. split; [reflexivity|]. split; [left; reflexivity|].
      split; [split; [intros _; exact E|reflexivity]|]. split; [exact E|reflexivity].
Qed.
Example trimdbcs_ex :
  trim_dbcs [97; 164; 164; 0; 9] = Ok ([97; 164; 164], [97; 164; 164; 0; 9]) /\
  trim_dbcs [97; 164; 164; 200; 0; 9] = Ok ([97; 164; 164], [97; 164; 164; 0; 0; 9]) /\ trim_dbcs [0] = Ok ([], [0]).
Proof. vm_compute. repeat split. Qed.

(* ------------------------------------------------------------------ SubjectEx *)
Definition is_rf (ty : Z) : Prop := ty = ptttype.SUBJECT_REPLY \/ ty = ptttype.SUBJECT_FORWARD.
(* the type goes with the prefix stripped last: pre = ... ++ chunk ++ (one optional blank) *)
Definition tag_type (p : list Z) (ty : Z) : Prop :=
  (p = STR_REPLY /\ ty = ptttype.SUBJECT_REPLY) \/ ((p = STR_FORWARD \/ p = STR_LEGACY_FORWARD) /\ ty = ptttype.SUBJECT_FORWARD).
Definition last_chunk (ty : Z) (pre : list Z) : Prop :=
  exists pre0 chunk sp p, pre = pre0 ++ chunk ++ sp /\ map to_lower chunk = map to_lower p /\ (sp = [] \/ sp = [32]) /\ tag_type p ty.
(* nothing strippable is left in front of the returned title *)
Definition no_prefix_left (rest : list Z) : Prop :=
  rest = [] \/ (strcase_starts_with rest STR_REPLY = false /\ strcase_starts_with rest STR_FORWARD = false /\
                strcase_starts_with rest STR_LEGACY_FORWARD = false).
(* what one call returns: a type, the removed part, the rest *)
Definition subj_post (ty0 : Z) (t : list Z) (ty : Z) (pre rest : list Z) : Prop :=
  t = pre ++ rest /\ ((pre = [] /\ ty = ty0) \/ (pre <> [] /\ is_rf ty /\ last_chunk ty pre)) /\
  (forall st, st <> 1 -> fold_left dbcs_step pre st <> 1) /\ no_prefix_left rest.

Lemma to_lower_high x y : to_lower x = to_lower y -> (128 <=? x) = (128 <=? y).
Proof.
  unfold to_lower, is_upper. intros H.
  destruct ((65 <=? x) && (x <=? 90)) eqn:A; destruct ((65 <=? y) && (y <=? 90)) eqn:B;
  try (apply andb_true_iff in A; destruct A as [A1 A2]; apply Z.leb_le in A1; apply Z.leb_le in A2);
  try (apply andb_true_iff in B; destruct B as [B1 B2]; apply Z.leb_le in B1; apply Z.leb_le in B2);
  destruct (128 <=? x) eqn:X; destruct (128 <=? y) eqn:Y; try reflexivity;
  try apply Z.leb_le in X; try apply Z.leb_le in Y; try apply Z.leb_gt in X; try apply Z.leb_gt in Y; lia.
Qed.
Lemma fold_step_lower : forall p t, has_prefix (map to_lower t) (map to_lower p) = true ->
  (length p <= length t)%nat /\ (forall st, fold_left dbcs_step (firstn (length p) t) st = fold_left dbcs_step p st) /\
  map to_lower (firstn (length p) t) = map to_lower p.
Proof.
  induction p as [|y p IH]; intros t H; [split; [cbn; lia|split; reflexivity]|].
  destruct t as [|x t]; [discriminate|]. cbn [map has_prefix] in H. apply andb_true_iff in H. destruct H as [H1 H2].
  apply Z.eqb_eq in H1. destruct (IH t H2) as [L [F G]]. split; [cbn [length]; lia|]. split.
  - intros st. cbn [length firstn fold_left]. rewrite F. unfold dbcs_step. rewrite (to_lower_high _ _ H1). reflexivity.
  - cbn [length firstn map]. rewrite H1, G. reflexivity.
Qed.

Definition chunk_ok (p : list Z) : Prop := p <> [] /\ forall st, st <> 1 -> fold_left dbcs_step p st = 0.
Lemma chunk_reply : chunk_ok STR_REPLY.
Proof. split; [discriminate|]. intros st H. apply Z.eqb_neq in H. cbn [STR_REPLY fold_left]. unfold dbcs_step at 3. rewrite H. reflexivity. Qed.
Lemma chunk_forward : chunk_ok STR_FORWARD.
Proof. split; [discriminate|]. intros st H. apply Z.eqb_neq in H. cbn [STR_FORWARD fold_left]. unfold dbcs_step at 3. rewrite H. reflexivity. Qed.
Lemma chunk_legacy : chunk_ok STR_LEGACY_FORWARD.
Proof. split; [discriminate|]. intros st H. apply Z.eqb_neq in H. cbn [STR_LEGACY_FORWARD fold_left]. unfold dbcs_step at 6. rewrite H. reflexivity. Qed.

Lemma tag_type_rf p ty : tag_type p ty -> is_rf ty.
Proof. intros [[_ H]|[_ H]]; [left|right]; exact H. Qed.

Lemma hit_step f p tyh t :
  (forall ty t, (length t < f)%nat -> exists ty' pre rest, subject_loop f ty t = Ok (ty', rest) /\ subj_post ty t ty' pre rest) ->
  chunk_ok p -> strcase_starts_with t p = true -> (length t < S f)%nat -> tag_type p tyh ->
  exists ty' pre rest,
    match drop_prefix p t with
    | Ok [] => Ok (tyh, [])
    | Ok (c :: r) => subject_loop f tyh (if c =? 32 then r else c :: r)
    | Crash => Crash
    | Hang => Hang
    end = Ok (ty', rest) /\ t = pre ++ rest /\ pre <> [] /\ is_rf ty' /\ last_chunk ty' pre /\
    (forall st, st <> 1 -> fold_left dbcs_step pre st <> 1) /\ no_prefix_left rest.
Proof.
  intros IH [Pne P0] H L TT. pose proof (tag_type_rf _ _ TT) as RF. unfold strcase_starts_with, cstr_tolower in H.
  destruct (fold_step_lower p t H) as [Lp [F G]]. unfold drop_prefix.
  replace (lenZ t <? lenZ p) with false by (symmetry; apply Z.ltb_ge; unfold lenZ; lia).
  assert (Hp : (0 < length p)%nat) by (destruct p; [contradiction|cbn; lia]).
  pose proof (firstn_skipn (length p) t) as S.
  assert (Fne : firstn (length p) t <> []).
  { intros K. apply (f_equal (@length Z)) in K. rewrite firstn_length in K. cbn in K. lia. }
  assert (F0 : forall st, st <> 1 -> fold_left dbcs_step (firstn (length p) t) st = 0) by (intros st Hst; rewrite F; apply P0; exact Hst).
  destruct (skipn (length p) t) as [|c r] eqn:K.
  - exists tyh, t, []. split; [reflexivity|]. split; [rewrite app_nil_r; reflexivity|]. split; [intros ->; apply Fne; apply firstn_nil|].
    split; [exact RF|]. rewrite app_nil_r in S. split; [|split; [|left; reflexivity]].
    + exists [], (firstn (length p) t), [], p. split; [rewrite app_nil_r; symmetry; exact S|]. split; [exact G|]. split; [left; reflexivity|exact TT].
    + intros st Hst. rewrite <- S, F0 by exact Hst. discriminate.
  - assert (Lk : length (c :: r) = (length t - length p)%nat) by (rewrite <- K; apply skipn_length).
    cbn [length] in Lk.
    destruct (c =? 32) eqn:E.
    + destruct (IH tyh r ltac:(lia)) as [ty' [pre [rest [R [A [B [C D]]]]]]]. apply Z.eqb_eq in E. subst c.
      exists ty', (firstn (length p) t ++ 32 :: pre), rest. split; [exact R|]. split; [rewrite <- app_assoc; cbn [app]; rewrite <- A; symmetry; exact S|].
      split; [intros Z; apply app_eq_nil in Z; destruct Z; contradiction|].
      split; [destruct B as [[_ ->]|[_ [B _]]]; assumption|]. split; [|split; [|exact D]].
      * destruct B as [[-> ->]|[_ [_ [pre0 [chunk [sp [p' [B1 [B2 [B3 B4]]]]]]]]]].
        -- exists [], (firstn (length p) t), [32], p. split; [reflexivity|]. split; [exact G|]. split; [right; reflexivity|exact TT].
        -- exists (firstn (length p) t ++ 32 :: pre0), chunk, sp, p'. split; [rewrite B1, <- app_assoc; reflexivity|]. split; [exact B2|]. split; assumption.
      * intros st Hst. rewrite fold_left_app, F0 by exact Hst. cbn [fold_left]. apply C. cbv. discriminate.
    + destruct (IH tyh (c :: r) ltac:(cbn [length]; lia)) as [ty' [pre [rest [R [A [B [C D]]]]]]].
      exists ty', (firstn (length p) t ++ pre), rest. split; [exact R|]. split; [rewrite <- app_assoc, <- A; symmetry; exact S|].
      split; [intros Z; apply app_eq_nil in Z; destruct Z; contradiction|].
      split; [destruct B as [[_ ->]|[_ [B _]]]; assumption|]. split; [|split; [|exact D]].
      * destruct B as [[-> ->]|[_ [_ [pre0 [chunk [sp [p' [B1 [B2 [B3 B4]]]]]]]]]].
        -- exists [], (firstn (length p) t), [], p. split; [rewrite !app_nil_r; reflexivity|]. split; [exact G|]. split; [left; reflexivity|exact TT].
        -- exists (firstn (length p) t ++ pre0), chunk, sp, p'. split; [rewrite B1, <- app_assoc; reflexivity|]. split; [exact B2|]. split; assumption.
      * intros st Hst. rewrite fold_left_app, F0 by exact Hst. apply C. discriminate.
Qed.

Lemma subject_loop_spec : forall fuel ty t, (length t < fuel)%nat ->
  exists ty' pre rest, subject_loop fuel ty t = Ok (ty', rest) /\ subj_post ty t ty' pre rest.
Proof.
  induction fuel as [|f IH]; intros ty t L; [lia|]. cbn [subject_loop].
  destruct t as [|x t'] eqn:Et.
  - exists ty, [], []. split; [reflexivity|]. split; [reflexivity|]. split; [left; split; reflexivity|]. split; [intros st H; exact H|left; reflexivity].
  - rewrite <- Et in *. clear Et x t'.
    assert (Done : forall ty' pre rest X, X = Ok (ty', rest) /\ t = pre ++ rest /\ pre <> [] /\ is_rf ty' /\ last_chunk ty' pre /\
                     (forall st, st <> 1 -> fold_left dbcs_step pre st <> 1) /\ no_prefix_left rest ->
                   X = Ok (ty', rest) /\ subj_post ty t ty' pre rest).
    { intros ty' pre rest X [A [B [C [D [E [F G]]]]]]. split; [exact A|]. split; [exact B|]. split; [right; repeat split; assumption|]. split; assumption. }
    destruct (strcase_starts_with t STR_REPLY) eqn:H1.
    { destruct (hit_step f STR_REPLY ptttype.SUBJECT_REPLY t IH chunk_reply H1 L (or_introl (conj eq_refl eq_refl))) as [ty' [pre [rest K]]].
      exists ty', pre, rest. apply Done. exact K. }
    destruct (strcase_starts_with t STR_FORWARD) eqn:H2.
    { destruct (hit_step f STR_FORWARD ptttype.SUBJECT_FORWARD t IH chunk_forward H2 L (or_intror (conj (or_introl eq_refl) eq_refl))) as [ty' [pre [rest K]]].
      exists ty', pre, rest. apply Done. exact K. }
    destruct (strcase_starts_with t STR_LEGACY_FORWARD) eqn:H3.
    { destruct (hit_step f STR_LEGACY_FORWARD ptttype.SUBJECT_FORWARD t IH chunk_legacy H3 L (or_intror (conj (or_intror eq_refl) eq_refl))) as [ty' [pre [rest K]]].
      exists ty', pre, rest. apply Done. exact K. }
    exists ty, [], t. split; [reflexivity|]. split; [reflexivity|]. split; [left; split; reflexivity|]. split; [intros st H; exact H|].
    right. repeat split; assumption.
Qed.

(* SubjectEx terminates without a panic; what it returns is a suffix of the NUL-terminated title with no reply/forward
   tag left in front; the type is NORMAL exactly when nothing was removed, otherwise it is the type of the tag removed
   last (REPLY for "Re:", FORWARD for "Fw:" and the legacy tag, compared byte-wise case-insensitively, each followed by
   at most one blank); the cut is never after a lead byte *)
Lemma subjectex_spec title :
  exists ty pre rest, subject_ex title = Ok (ty, rest) /\ cprefix title = pre ++ rest /\
    ((pre = [] /\ ty = ptttype.SUBJECT_NORMAL) \/ (pre <> [] /\ last_chunk ty pre)) /\
    no_prefix_left rest /\ dbcs_final pre <> 1.
Proof.
  unfold subject_ex.
  assert (LA : (length (cprefix title) <= length title)%nat).
  { induction title as [|y a IH]; [cbn; lia|]. cbn [cprefix]. destruct (y =? 0); cbn [length]; lia. }
  destruct (subject_loop_spec (S (length title)) ptttype.SUBJECT_NORMAL (cprefix title) ltac:(lia)) as [ty [pre [rest [R [A [B [C D]]]]]]].
  exists ty, pre, rest. split; [exact R|]. split; [exact A|]. split; [|split; [exact D|apply C; discriminate]].
  destruct B as [B|[B1 [_ B2]]]; [left; exact B|right; split; assumption].
Qed.
Example subjectex_ex :
  subject_ex [82; 101; 58; 32; 102; 87; 58; 91; 194; 224; 191; 253; 93; 32; 164; 164; 0; 82; 101; 58] = Ok (2, [164; 164]) /\
  subject_ex [82; 101; 58; 32; 32; 82; 101; 58] = Ok (1, [32; 82; 101; 58]) /\ subject_ex [82; 101; 58] = Ok (1, []) /\
  subject_ex [91; 128; 128; 128; 128; 93; 97] = Ok (0, [91; 128; 128; 128; 128; 93; 97]).
Proof. vm_compute. repeat split. Qed.

(* ------------------------------------------------------------------ Trim, StripBlank, CstrTokenR *)
Lemma strip_blank_spec : forall s, exists rest, s = strip_blank s ++ rest /\ ~ In 32 (strip_blank s) /\ (rest = [] \/ exists t, rest = 32 :: t).
Proof.
  induction s as [|c s [rest [A [B C]]]]; [exists []; split; [reflexivity|split; [intros []|left; reflexivity]]|].
  cbn [strip_blank]. destruct (c =? 32) eqn:E.
  - apply Z.eqb_eq in E. subst c. exists (32 :: s). split; [reflexivity|]. split; [intros []|right; exists s; reflexivity].
  - apply Z.eqb_neq in E. exists rest. split; [cbn [app]; rewrite <- A; reflexivity|]. split; [|exact C].
    intros [K|K]; [lia|exact (B K)].
Qed.
Lemma trim_right_spec : forall l, exists sp, l = trim_right_sp l ++ sp /\ Forall (fun c => c = 32) sp /\ last (trim_right_sp l) 0 <> 32.
Proof.
  induction l as [|c l [sp [A [B C]]]]; [exists []; split; [reflexivity|split; [constructor|cbn; lia]]|].
  cbn [trim_right_sp]. destruct (trim_right_sp l) as [|y t] eqn:T.
  - destruct (c =? 32) eqn:E.
    + apply Z.eqb_eq in E. subst c. exists (32 :: sp). cbn [app] in *. split; [rewrite <- A; reflexivity|]. split; [constructor; [reflexivity|exact B]|cbn; lia].
    + apply Z.eqb_neq in E. exists sp. cbn [app] in *. split; [rewrite <- A; reflexivity|]. split; [exact B|cbn; exact E].
  - exists sp. cbn [app] in *. split; [rewrite <- A; reflexivity|]. split; [exact B|exact C].
Qed.
Lemma trim_spec s : exists sp, cprefix s = trim s ++ sp /\ Forall (fun c => c = 32) sp /\ last (trim s) 0 <> 32.
Proof. unfold trim. apply trim_right_spec. Qed.
