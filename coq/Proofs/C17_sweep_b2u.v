(* C17 — sweep over every row of the Big5 -> UCS table as gosync re-read it (Gen/Big5Tab.v):
   the code is a two-byte code with a lead byte >= 0x80, the value is a scalar value above ASCII, the
   loaded map returns this row's entry (no later row overwrote it), and the model converts the code
   to the standard UTF-8 encoding of the entry. *)
From Verif Require Import Base.Common Gen.Big5Tab Model.C17 Proofs.C17_spec.

Definition b2u_row_ok (r : Z * Z) : bool :=
  let (c, u) := r in
  (32768 <=? c) && (c <? 65536) && scalar u
  && opt_eqb (lookup b2u_map (big5_bytes c)) (utf8_enc u)
  && res_eqb (big5_to_utf8 (big5_bytes c)) (utf8_std u).

Lemma b2u_rows_sweep : forallb b2u_row_ok b2u_rows = true.
Proof. vm_compute. reflexivity. Qed.

Lemma b2u_row c u : In (c, u) b2u_rows ->
  32768 <= c < 65536 /\ scalar u = true /\ lookup b2u_map (big5_bytes c) = Some (utf8_enc u) /\
  big5_to_utf8 (big5_bytes c) = Ok (utf8_std u).
Proof.
  intros Hin. pose proof b2u_rows_sweep as H. rewrite forallb_forall in H. specialize (H _ Hin).
  unfold b2u_row_ok in H. repeat (apply andb_true_iff in H; destruct H as [H ?]).
  apply Z.leb_le in H. apply Z.ltb_lt in H3.
  split; [lia|]. split; [assumption|]. split; [apply opt_eqb_eq; assumption | apply res_eqb_eq; assumption].
Qed.

(* non-vacuity: the table has rows (whatever they are: the witness is computed from the table itself) *)
Example b2u_rows_nonempty : exists c u, In (c, u) b2u_rows.
Proof.
  assert (H : exists r, hd_error b2u_rows = Some r) by (vm_compute; eexists; reflexivity).
  destruct H as [[c u] H]. exists c, u. destruct b2u_rows as [|r l]; [discriminate|]. inversion H. left. reflexivity.
Qed.
