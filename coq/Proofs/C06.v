(* C06 — lemmas about the model of cmsys/record.go (Model/C06.v). *)
From Verif Require Import Base.Common Model.C06.
Ltac Zify.zify_post_hook ::= Z.to_euclidean_division_equations.

(* entry i of the file is parsable and is tn *)
Definition vat (es : list entry) (i : Z) (tn : Z * Z) : Prop := rd es i = FOk (Some tn).

(* parsable creation times never decrease along the file *)
Definition sorted (es : list entry) : Prop :=
  forall i j ti tj, i <= j -> vat es i ti -> vat es j tj -> fst ti <= fst tj.

(* file names are unique within an index *)
Definition names_unique (es : list entry) : Prop :=
  forall i j tn, vat es i tn -> vat es j tn -> i = j.

Ltac bool_to_prop :=
  repeat (rewrite ?andb_true_iff, ?andb_false_iff, ?orb_true_iff, ?orb_false_iff, ?negb_true_iff, ?negb_false_iff,
                  ?Z.eqb_eq, ?Z.eqb_neq, ?Z.ltb_lt, ?Z.ltb_ge, ?Z.leb_le, ?Z.leb_gt in * ).

Lemma rd_range es i e : rd es i = FOk e -> 0 <= i < lenZ es.
Proof.
  unfold rd, lenZ. destruct (Z.ltb_spec i 0); [discriminate|].
  destruct (nth_error es (Z.to_nat i)) eqn:E; [|discriminate]. intros _.
  assert (Z.to_nat i < length es)%nat by (apply nth_error_Some; congruence). lia.
Qed.

Lemma rd_total es i : 0 <= i < lenZ es -> exists e, rd es i = FOk e.
Proof.
  unfold rd, lenZ. intros H. destruct (Z.ltb_spec i 0); [lia|].
  destruct (nth_error es (Z.to_nat i)) eqn:E; [eauto|].
  apply nth_error_None in E. lia.
Qed.

Lemma vat_range es i tn : vat es i tn -> 0 <= i < lenZ es.
Proof. apply rd_range. Qed.

Lemma vat_fun es i a b : vat es i a -> vat es i b -> a = b.
Proof. unfold vat. intros H1 H2. rewrite H1 in H2. congruence. Qed.

Lemma rd_cons_S a r j : 0 <= j -> rd (a :: r) (j + 1) = rd r j.
Proof.
  intros H. unfold rd. destruct (Z.ltb_spec (j + 1) 0); [lia|]. destruct (Z.ltb_spec j 0); [lia|].
  replace (Z.to_nat (j + 1)) with (S (Z.to_nat j)) by lia. reflexivity.
Qed.

(* ---- the two loop shapes ---- *)
Definition scan_up_post (es : list entry) (idx b : Z) (p : Z * Z -> bool) (r : fr (option (Z * (Z * Z)))) : Prop :=
  match r with
  | FOk (Some (j, tn)) => idx <= j <= b /\ vat es j tn /\ p tn = true /\
                          (forall i tn', idx <= i < j -> vat es i tn' -> p tn' = false)
  | FOk None => forall i tn', idx <= i <= b -> vat es i tn' -> p tn' = false
  | _ => False
  end.

Lemma scan_up_spec es p : forall fuel idx b,
  0 <= idx -> b < lenZ es -> b - idx + 1 < Z.of_nat fuel -> (0 < fuel)%nat ->
  scan_up_post es idx b p (scan_up fuel es idx b p).
Proof.
  induction fuel as [|f IH]; intros idx b H0 Hb Hf Hpos; [lia|].
  cbn [scan_up]. destruct (Z.leb_spec idx b) as [Hle|Hgt].
  - destruct (rd_total es idx) as [e He]; [lia|]. rewrite He.
    assert (Hrec : scan_up_post es (idx + 1) b p (scan_up f es (idx + 1) b p)) by (apply IH; lia).
    assert (Hstep : scan_up_post es (idx + 1) b p (scan_up f es (idx + 1) b p) ->
                    (forall tn', vat es idx tn' -> p tn' = false) ->
                    scan_up_post es idx b p (scan_up f es (idx + 1) b p)).
    { intros Hr Hidx. unfold scan_up_post in *. destruct (scan_up f es (idx + 1) b p) as [[[j tn']|]|c|]; auto.
      - destruct Hr as (Hj & Hv & Hp & Hall). repeat split; auto; try lia.
        intros i t' Hi Hvi. destruct (Z.eq_dec i idx) as [->|Hne]; [auto|]. apply (Hall i); auto; lia.
      - intros i t' Hi Hvi. destruct (Z.eq_dec i idx) as [->|Hne]; [auto|]. apply (Hr i); auto; lia. }
    destruct e as [tn|].
    + destruct (p tn) eqn:Ep.
      * cbn. repeat split; auto; try lia; intros; lia.
      * apply Hstep; auto. intros tn' Hv. rewrite (vat_fun _ _ _ _ Hv He). exact Ep.
    + apply Hstep; auto. intros tn' Hv. unfold vat in Hv. congruence.
  - cbn. intros; lia.
Qed.

Definition scan_down_post (es : list entry) (idx b : Z) (p : Z * Z -> bool) (r : fr (option (Z * (Z * Z)))) : Prop :=
  match r with
  | FOk (Some (j, tn)) => b <= j <= idx /\ vat es j tn /\ p tn = true /\
                          (forall i tn', j < i <= idx -> vat es i tn' -> p tn' = false)
  | FOk None => forall i tn', b <= i <= idx -> vat es i tn' -> p tn' = false
  | _ => False
  end.

Lemma scan_down_spec es p : forall fuel idx b,
  0 <= b -> idx < lenZ es -> idx - b + 1 < Z.of_nat fuel -> (0 < fuel)%nat ->
  scan_down_post es idx b p (scan_down fuel es idx b p).
Proof.
  induction fuel as [|f IH]; intros idx b H0 Hb Hf Hpos; [lia|].
  cbn [scan_down]. destruct (Z.leb_spec b idx) as [Hle|Hgt].
  - destruct (rd_total es idx) as [e He]; [lia|]. rewrite He.
    assert (Hrec : scan_down_post es (idx - 1) b p (scan_down f es (idx - 1) b p)) by (apply IH; lia).
    assert (Hstep : scan_down_post es (idx - 1) b p (scan_down f es (idx - 1) b p) ->
                    (forall tn', vat es idx tn' -> p tn' = false) ->
                    scan_down_post es idx b p (scan_down f es (idx - 1) b p)).
    { intros Hr Hidx. unfold scan_down_post in *. destruct (scan_down f es (idx - 1) b p) as [[[j tn']|]|c|]; auto.
      - destruct Hr as (Hj & Hv & Hp & Hall). repeat split; auto; try lia.
        intros i t' Hi Hvi. destruct (Z.eq_dec i idx) as [->|Hne]; [auto|]. apply (Hall i); auto; lia.
      - intros i t' Hi Hvi. destruct (Z.eq_dec i idx) as [->|Hne]; [auto|]. apply (Hr i); auto; lia. }
    destruct e as [tn|].
    + destruct (p tn) eqn:Ep.
      * cbn. repeat split; auto; try lia; intros; lia.
      * apply Hstep; auto. intros tn' Hv. rewrite (vat_fun _ _ _ _ Hv He). exact Ep.
    + apply Hstep; auto. intros tn' Hv. unfold vat in Hv. congruence.
  - cbn. intros; lia.
Qed.

Lemma lfuel_pos es : (0 < lfuel es)%nat.
Proof. unfold lfuel. lia. Qed.
Lemma lfuel_val es : Z.of_nat (lfuel es) = lenZ es + 2.
Proof. unfold lfuel, lenZ. lia. Qed.

(* ---- the linear-scan specification in terms of positions ---- *)
Lemma first_idx_is p : forall es k r e,
  rd es r = FOk e -> p e = true -> (forall j e', j < r -> rd es j = FOk e' -> p e' = false) ->
  first_idx p es k = Some (r + k).
Proof.
  induction es as [|a es IH]; intros k r e Hr Hp Hall.
  - apply rd_range in Hr. cbn in Hr. lia.
  - cbn [first_idx]. destruct (Z.eq_dec r 0) as [->|Hne].
    + cbn in Hr. inversion Hr; subst. rewrite Hp. f_equal; lia.
    + assert (Hr0 := rd_range _ _ _ Hr).
      rewrite (Hall 0 a) by (try reflexivity; lia).
      replace r with ((r - 1) + 1) in Hr by lia. rewrite rd_cons_S in Hr by lia.
      rewrite (IH (k + 1) (r - 1) e Hr Hp).
      * f_equal; lia.
      * intros j e' Hj Hrd. assert (0 <= j) by (apply rd_range in Hrd; lia).
        apply (Hall (j + 1)); [lia|]. rewrite rd_cons_S by lia. exact Hrd.
Qed.

Lemma first_idx_none p : forall es k, (forall j e', rd es j = FOk e' -> p e' = false) -> first_idx p es k = None.
Proof.
  induction es as [|a es IH]; intros k Hall; [reflexivity|].
  cbn [first_idx]. rewrite (Hall 0 a) by reflexivity. apply IH.
  intros j e' Hrd. assert (0 <= j) by (apply rd_range in Hrd; lia).
  apply (Hall (j + 1)). rewrite rd_cons_S by lia. exact Hrd.
Qed.

Lemma last_idx_none p : forall es k, (forall j e', rd es j = FOk e' -> p e' = false) -> last_idx p es k = None.
Proof.
  induction es as [|a es IH]; intros k Hall; [reflexivity|].
  cbn [last_idx]. rewrite IH.
  - rewrite (Hall 0 a) by reflexivity. reflexivity.
  - intros j e' Hrd. assert (0 <= j) by (apply rd_range in Hrd; lia).
    apply (Hall (j + 1)). rewrite rd_cons_S by lia. exact Hrd.
Qed.

Lemma last_idx_is p : forall es k r e,
  rd es r = FOk e -> p e = true -> (forall j e', r < j -> rd es j = FOk e' -> p e' = false) ->
  last_idx p es k = Some (r + k).
Proof.
  induction es as [|a es IH]; intros k r e Hr Hp Hall.
  - apply rd_range in Hr. cbn in Hr. lia.
  - cbn [last_idx]. destruct (Z.eq_dec r 0) as [->|Hne].
    + rewrite last_idx_none.
      * cbn in Hr. inversion Hr; subst. rewrite Hp. f_equal; lia.
      * intros j e' Hrd. assert (0 <= j) by (apply rd_range in Hrd; lia).
        apply (Hall (j + 1)); [lia|]. rewrite rd_cons_S by lia. exact Hrd.
    + assert (Hr0 := rd_range _ _ _ Hr).
      replace r with ((r - 1) + 1) in Hr by lia. rewrite rd_cons_S in Hr by lia.
      rewrite (IH (k + 1) (r - 1) e Hr Hp).
      * f_equal; lia.
      * intros j e' Hj Hrd. assert (0 <= j) by (apply rd_range in Hrd; lia).
        apply (Hall (j + 1)); [lia|]. rewrite rd_cons_S by lia. exact Hrd.
Qed.

(* ---- clean forms of the specification ---- *)
Definition hit (T : Z) (name : option Z) (tn : Z * Z) : Prop := T = fst tn /\ name_eq name (snd tn) = true.

Lemma hit_some T nm tn : hit T (Some nm) tn <-> tn = (T, nm).
Proof. unfold hit. destruct tn as [t n]. cbn. bool_to_prop. split; [intros [-> ->]; reflexivity|intros H; inversion H; auto]. Qed.
Lemma hit_none T tn : hit T None tn <-> T = fst tn.
Proof. unfold hit. cbn. tauto. Qed.

Ltac spec_false :=
  let j := fresh "j" in let e' := fresh "e" in let Hj := fresh "Hj" in let Hrd := fresh "Hrd" in
  intros j e'; intros; destruct e' as [[? ?]|]; [|reflexivity].

Lemma spec_last_exact es T nm i :
  vat es i (T, nm) -> (forall k tn, i < k -> vat es k tn -> tn <> (T, nm)) ->
  last_idx (is_exact T nm) es 1 = Some (i + 1).
Proof.
  intros Hv Hall. apply (last_idx_is _ es 1 i (Some (T, nm))); [exact Hv|cbn; rewrite !Z.eqb_refl; reflexivity|].
  intros j e' Hj Hrd. destruct e' as [[t n]|]; [|reflexivity]. cbn.
  specialize (Hall j (t, n) Hj Hrd). bool_to_prop.
  destruct (Z.eq_dec t T); [right|left; auto]. intros ->. subst. congruence.
Qed.
Lemma spec_first_exact es T nm i :
  vat es i (T, nm) -> (forall k tn, k < i -> vat es k tn -> tn <> (T, nm)) ->
  first_idx (is_exact T nm) es 1 = Some (i + 1).
Proof.
  intros Hv Hall. apply (first_idx_is _ es 1 i (Some (T, nm))); [exact Hv|cbn; rewrite !Z.eqb_refl; reflexivity|].
  intros j e' Hj Hrd. destruct e' as [[t n]|]; [|reflexivity]. cbn.
  specialize (Hall j (t, n) Hj Hrd). bool_to_prop.
  destruct (Z.eq_dec t T); [right|left; auto]. intros ->. subst. congruence.
Qed.
Lemma spec_no_exact es T nm :
  (forall k tn, vat es k tn -> tn <> (T, nm)) ->
  last_idx (is_exact T nm) es 1 = None /\ first_idx (is_exact T nm) es 1 = None.
Proof.
  intros Hall.
  assert (H : forall j e', rd es j = FOk e' -> is_exact T nm e' = false).
  { intros j e' Hrd. destruct e' as [[t n]|]; [|reflexivity]. cbn.
    specialize (Hall j (t, n) Hrd). bool_to_prop.
    destruct (Z.eq_dec t T); [right|left; auto]. intros ->. subst. congruence. }
  split; [apply last_idx_none|apply first_idx_none]; exact H.
Qed.
Lemma spec_last_le es T i tn :
  vat es i tn -> fst tn <= T -> (forall k tn', i < k -> vat es k tn' -> T < fst tn') ->
  last_idx (is_le T) es 1 = Some (i + 1).
Proof.
  intros Hv Hle Hall. apply (last_idx_is _ es 1 i (Some tn)); [exact Hv|destruct tn; cbn in *; bool_to_prop; lia|].
  intros j e' Hj Hrd. destruct e' as [[t n]|]; [|reflexivity]. cbn.
  specialize (Hall j (t, n) Hj Hrd). cbn in Hall. bool_to_prop. lia.
Qed.
Lemma spec_no_le es T : (forall k tn, vat es k tn -> T < fst tn) -> last_idx (is_le T) es 1 = None.
Proof.
  intros Hall. apply last_idx_none. intros j e' Hrd. destruct e' as [[t n]|]; [|reflexivity]. cbn.
  specialize (Hall j (t, n) Hrd). cbn in Hall. bool_to_prop. lia.
Qed.
Lemma spec_first_ge es T i tn :
  vat es i tn -> T <= fst tn -> (forall k tn', k < i -> vat es k tn' -> fst tn' < T) ->
  first_idx (is_ge T) es 1 = Some (i + 1).
Proof.
  intros Hv Hle Hall. apply (first_idx_is _ es 1 i (Some tn)); [exact Hv|destruct tn; cbn in *; bool_to_prop; lia|].
  intros j e' Hj Hrd. destruct e' as [[t n]|]; [|reflexivity]. cbn.
  specialize (Hall j (t, n) Hj Hrd). cbn in Hall. bool_to_prop. lia.
Qed.
Lemma spec_no_ge es T : (forall k tn, vat es k tn -> fst tn < T) -> first_idx (is_ge T) es 1 = None.
Proof.
  intros Hall. apply first_idx_none. intros j e' Hrd. destruct e' as [[t n]|]; [|reflexivity]. cbn.
  specialize (Hall j (t, n) Hrd). cbn in Hall. bool_to_prop. lia.
Qed.

(* ---- the two linear searches ---- *)
Definition lin_down_post (es : list entry) (i0 ss T : Z) (name : option Z) (r : fr Z) : Prop :=
  match r with
  | FOk i => exists tn, ss <= i <= i0 /\ vat es i tn /\ (hit T name tn \/ (name = None /\ fst tn < T)) /\
             (forall k tn', i < k <= i0 -> vat es k tn' -> ~ hit T name tn' /\ T <= fst tn')
  | FErr c => c = E_NOTFOUND /\
       ((forall k tn', ss <= k <= i0 -> vat es k tn' -> ~ hit T name tn' /\ T <= fst tn') \/
        (name <> None /\ exists i tn, ss <= i <= i0 /\ vat es i tn /\ fst tn < T /\
             forall k tn', i < k <= i0 -> vat es k tn' -> ~ hit T name tn' /\ T <= fst tn'))
  | FHang => False
  end.

Lemma q_false_down T name tn :
  ((T =? fst tn) && name_eq name (snd tn) || (fst tn <? T)) = false -> ~ hit T name tn /\ T <= fst tn.
Proof. unfold hit. intros H. bool_to_prop. destruct H as [[H|H] H2]; split; try lia; intros [? ?]; congruence. Qed.

Lemma lin_down_spec es i0 ss T name : 0 <= ss -> i0 < lenZ es -> lin_down_post es i0 ss T name (lin_down es i0 ss T name).
Proof.
  intros H0 H1. unfold lin_down.
  pose proof (scan_down_spec es (fun tn => (T =? fst tn) && name_eq name (snd tn) || (fst tn <? T)) (lfuel es) i0 ss H0 H1) as H.
  rewrite lfuel_val in H. specialize (H ltac:(lia) (lfuel_pos es)). unfold scan_down_post in H.
  destruct (scan_down _ _ _ _ _) as [[[i [t n]]|]|c|]; try contradiction.
  - destruct H as (Hi & Hv & Hq & Hall). cbn [fst snd] in Hq.
    assert (Hall' : forall k tn', i < k <= i0 -> vat es k tn' -> ~ hit T name tn' /\ T <= fst tn').
    { intros k tn' Hk Hvk. apply q_false_down. exact (Hall k tn' Hk Hvk). }
    destruct ((T =? t) && name_eq name n) eqn:E.
    + cbn. exists (t, n). split; [lia|]. split; [exact Hv|]. split; [|exact Hall'].
      left. unfold hit. cbn. bool_to_prop. tauto.
    + cbn in Hq. bool_to_prop.
      destruct name as [nm|]; cbn.
      * split; [reflexivity|]. right. split; [congruence|]. exists i, (t, n).
        split; [lia|]. split; [exact Hv|]. split; [cbn; lia|exact Hall'].
      * exists (t, n). split; [lia|]. split; [exact Hv|]. split; [|exact Hall']. right. cbn. split; [reflexivity|lia].
  - cbn. split; [reflexivity|]. left. intros k tn' Hk Hvk. apply q_false_down. exact (H k tn' Hk Hvk).
Qed.

Definition lin_up_post (es : list entry) (i0 ee T : Z) (name : option Z) (r : fr Z) : Prop :=
  match r with
  | FOk i => exists tn, i0 <= i <= ee /\ vat es i tn /\ (hit T name tn \/ (name = None /\ T < fst tn)) /\
             (forall k tn', i0 <= k < i -> vat es k tn' -> ~ hit T name tn' /\ fst tn' <= T)
  | FErr c => c = E_NOTFOUND /\
       ((forall k tn', i0 <= k <= ee -> vat es k tn' -> ~ hit T name tn' /\ fst tn' <= T) \/
        (name <> None /\ exists i tn, i0 <= i <= ee /\ vat es i tn /\ T < fst tn /\
             forall k tn', i0 <= k < i -> vat es k tn' -> ~ hit T name tn' /\ fst tn' <= T))
  | FHang => False
  end.

Lemma q_false_up T name tn :
  ((T =? fst tn) && name_eq name (snd tn) || (T <? fst tn)) = false -> ~ hit T name tn /\ fst tn <= T.
Proof. unfold hit. intros H. bool_to_prop. destruct H as [[H|H] H2]; split; try lia; intros [? ?]; congruence. Qed.

Lemma lin_up_spec es i0 ee T name : 0 <= i0 -> ee < lenZ es -> lin_up_post es i0 ee T name (lin_up es i0 ee T name).
Proof.
  intros H0 H1. unfold lin_up.
  pose proof (scan_up_spec es (fun tn => (T =? fst tn) && name_eq name (snd tn) || (T <? fst tn)) (lfuel es) i0 ee H0 H1) as H.
  rewrite lfuel_val in H. specialize (H ltac:(lia) (lfuel_pos es)). unfold scan_up_post in H.
  destruct (scan_up _ _ _ _ _) as [[[i [t n]]|]|c|]; try contradiction.
  - destruct H as (Hi & Hv & Hq & Hall). cbn [fst snd] in Hq.
    assert (Hall' : forall k tn', i0 <= k < i -> vat es k tn' -> ~ hit T name tn' /\ fst tn' <= T).
    { intros k tn' Hk Hvk. apply q_false_up. exact (Hall k tn' Hk Hvk). }
    destruct ((T =? t) && name_eq name n) eqn:E.
    + cbn. exists (t, n). split; [lia|]. split; [exact Hv|]. split; [|exact Hall'].
      left. unfold hit. cbn. bool_to_prop. tauto.
    + cbn in Hq. bool_to_prop.
      destruct name as [nm|]; cbn.
      * split; [reflexivity|]. right. split; [congruence|]. exists i, (t, n).
        split; [lia|]. split; [exact Hv|]. split; [cbn; lia|exact Hall'].
      * exists (t, n). split; [lia|]. split; [exact Hv|]. split; [|exact Hall']. right. cbn. split; [reflexivity|lia].
  - cbn. split; [reflexivity|]. left. intros k tn' Hk Hvk. apply q_false_up. exact (H k tn' Hk Hvk).
Qed.

(* ---- the post-search from ANY in-range start equals the linear scan ---- *)
(* every parsable entry lies within [ss, ee] *)
Definition bounds (es : list entry) (ss ee : Z) : Prop :=
  0 <= ss /\ ss <= ee /\ ee < lenZ es /\ (forall i tn, vat es i tn -> ss <= i <= ee).

Definition spec_res (o : option Z) : fr Z := match o with Some i => FOk (i - 1) | None => FErr E_NOTFOUND end.

Lemma post_desc_any_start es ss ee idx T name :
  sorted es -> bounds es ss ee -> ss <= idx <= ee ->
  post_desc es idx ss ee T name = spec_res (find_spec es T name true).
Proof.
  intros Hs (B0 & B1 & B2 & Bv) Hidx. unfold post_desc.
  pose proof (scan_up_spec es (fun tn => T <? fst tn) (lfuel es) idx ee ltac:(lia) B2) as H.
  rewrite lfuel_val in H. specialize (H ltac:(lia) (lfuel_pos es)). unfold scan_up_post in H.
  destruct (scan_up _ _ _ _ _) as [r|c|]; try contradiction.
  assert (Hi0 : exists i0, match r with Some (i, _) => i | None => ee end = i0 /\ ss <= i0 <= ee /\
                           (forall k tn, i0 < k -> vat es k tn -> T < fst tn)).
  { destruct r as [[j tnj]|].
    - exists j. destruct H as (Hj & Hv & Hp & _). split; [reflexivity|]. split; [lia|].
      intros k tn Hk Hvk. bool_to_prop. pose proof (Hs j k tnj tn ltac:(lia) Hv Hvk). lia.
    - exists ee. split; [reflexivity|]. split; [lia|]. intros k tn Hk Hvk. apply Bv in Hvk. lia. }
  destruct Hi0 as (i0 & -> & Hi0 & HB). clear H.
  pose proof (lin_down_spec es i0 ss T name B0 ltac:(lia)) as L1.
  destruct (lin_down es i0 ss T name) as [i|c|]; unfold lin_down_post in L1; [| |contradiction].
  - destruct L1 as (tn & Hi & Hv & Hhit & Habove). unfold find_spec.
    destruct name as [nm|].
    + destruct Hhit as [Hhit|[Hx _]]; [|discriminate]. apply hit_some in Hhit. subst tn.
      rewrite (spec_last_exact es T nm i Hv); [cbn; f_equal; lia|].
      intros k tn' Hk Hvk ->. destruct (Z_le_gt_dec k i0) as [Hle|Hgt].
      * destruct (Habove k (T, nm) ltac:(lia) Hvk) as [Hn _]. apply Hn. apply hit_some. reflexivity.
      * specialize (HB k (T, nm) ltac:(lia) Hvk). cbn in HB. lia.
    + rewrite (spec_last_le es T i tn Hv); [cbn; f_equal; lia| |].
      * destruct Hhit as [Hhit|[_ Hlt]]; [apply hit_none in Hhit; lia|lia].
      * intros k tn' Hk Hvk. destruct (Z_le_gt_dec k i0) as [Hle|Hgt].
        -- destruct (Habove k tn' ltac:(lia) Hvk) as [Hn Hge]. rewrite hit_none in Hn. lia.
        -- apply (HB k tn'); [lia|exact Hvk].
  - destruct L1 as (-> & L1).
    assert (Hnoex : match name with Some nm => forall k tn, vat es k tn -> tn <> (T, nm) | None => True end).
    { destruct name as [nm|]; [|exact I]. intros k tn Hvk ->. pose proof (Bv _ _ Hvk) as Hk.
      destruct L1 as [A|(_ & i & tni & Hi & Hvi & Hlt & Habove)].
      - destruct (Z_le_gt_dec k i0) as [Hle|Hgt].
        + destruct (A k (T, nm) ltac:(lia) Hvk) as [Hn _]. apply Hn. apply hit_some. reflexivity.
        + specialize (HB k (T, nm) ltac:(lia) Hvk). cbn in HB. lia.
      - destruct (Z_le_gt_dec k i0) as [Hle|Hgt].
        + destruct (Z_lt_le_dec i k) as [Hik|Hki].
          * destruct (Habove k (T, nm) ltac:(lia) Hvk) as [Hn _]. apply Hn. apply hit_some. reflexivity.
          * pose proof (Hs k i (T, nm) tni Hki Hvk Hvi) as Hsort. cbn in Hsort. lia.
        + specialize (HB k (T, nm) ltac:(lia) Hvk). cbn in HB. lia. }
    clear L1.
    pose proof (lin_down_spec es i0 ss T None B0 ltac:(lia)) as L2.
    destruct (lin_down es i0 ss T None) as [i'|c'|]; unfold lin_down_post in L2; [| |contradiction].
    + destruct L2 as (tn' & Hi' & Hv' & Hhit' & Habove').
      assert (Hle : last_idx (is_le T) es 1 = Some (i' + 1)).
      { apply (spec_last_le es T i' tn' Hv').
        - destruct Hhit' as [Hh|[_ Hlt]]; [apply hit_none in Hh; lia|lia].
        - intros k tn'' Hk Hvk. destruct (Z_le_gt_dec k i0) as [Hle|Hgt].
          + destruct (Habove' k tn'' ltac:(lia) Hvk) as [Hn Hge]. rewrite hit_none in Hn. lia.
          + apply (HB k tn''); [lia|exact Hvk]. }
      unfold find_spec. destruct name as [nm|].
      * rewrite (proj1 (spec_no_exact es T nm Hnoex)). rewrite Hle. cbn. f_equal. lia.
      * rewrite Hle. cbn. f_equal. lia.
    + destruct L2 as (-> & [A|(Hx & _)]); [|congruence].
      assert (Hle : last_idx (is_le T) es 1 = None).
      { apply spec_no_le. intros k tn Hvk. pose proof (Bv _ _ Hvk) as Hk. destruct (Z_le_gt_dec k i0) as [Hle|Hgt].
        - destruct (A k tn ltac:(lia) Hvk) as [Hn Hge]. rewrite hit_none in Hn. lia.
        - apply (HB k tn); [lia|exact Hvk]. }
      unfold find_spec. destruct name as [nm|].
      * rewrite (proj1 (spec_no_exact es T nm Hnoex)). rewrite Hle. reflexivity.
      * rewrite Hle. reflexivity.
Qed.

Lemma post_asc_any_start es ss ee idx T name :
  sorted es -> bounds es ss ee -> ss <= idx <= ee ->
  post_asc es idx ss ee T name = spec_res (find_spec es T name false).
Proof.
  intros Hs (B0 & B1 & B2 & Bv) Hidx. unfold post_asc.
  pose proof (scan_down_spec es (fun tn => fst tn <? T) (lfuel es) idx ss B0 ltac:(lia)) as H.
  rewrite lfuel_val in H. specialize (H ltac:(lia) (lfuel_pos es)). unfold scan_down_post in H.
  destruct (scan_down _ _ _ _ _) as [r|c|]; try contradiction.
  assert (Hi0 : exists i0, match r with Some (i, _) => i | None => ss end = i0 /\ ss <= i0 <= ee /\
                           (forall k tn, k < i0 -> vat es k tn -> fst tn < T)).
  { destruct r as [[j tnj]|].
    - exists j. destruct H as (Hj & Hv & Hp & _). split; [reflexivity|]. split; [lia|].
      intros k tn Hk Hvk. bool_to_prop. pose proof (Hs k j tn tnj ltac:(lia) Hvk Hv). lia.
    - exists ss. split; [reflexivity|]. split; [lia|]. intros k tn Hk Hvk. apply Bv in Hvk. lia. }
  destruct Hi0 as (i0 & -> & Hi0 & HB). clear H.
  pose proof (lin_up_spec es i0 ee T name ltac:(lia) B2) as L1.
  destruct (lin_up es i0 ee T name) as [i|c|]; unfold lin_up_post in L1; [| |contradiction].
  - destruct L1 as (tn & Hi & Hv & Hhit & Habove). unfold find_spec.
    destruct name as [nm|].
    + destruct Hhit as [Hhit|[Hx _]]; [|discriminate]. apply hit_some in Hhit. subst tn.
      rewrite (spec_first_exact es T nm i Hv); [cbn; f_equal; lia|].
      intros k tn' Hk Hvk ->. destruct (Z_lt_le_dec k i0) as [Hlt|Hge].
      * specialize (HB k (T, nm) ltac:(lia) Hvk). cbn in HB. lia.
      * destruct (Habove k (T, nm) ltac:(lia) Hvk) as [Hn _]. apply Hn. apply hit_some. reflexivity.
    + rewrite (spec_first_ge es T i tn Hv); [cbn; f_equal; lia| |].
      * destruct Hhit as [Hhit|[_ Hlt]]; [apply hit_none in Hhit; lia|lia].
      * intros k tn' Hk Hvk. destruct (Z_lt_le_dec k i0) as [Hlt|Hge].
        -- apply (HB k tn'); [lia|exact Hvk].
        -- destruct (Habove k tn' ltac:(lia) Hvk) as [Hn Hle]. rewrite hit_none in Hn. lia.
  - destruct L1 as (-> & L1).
    assert (Hnoex : match name with Some nm => forall k tn, vat es k tn -> tn <> (T, nm) | None => True end).
    { destruct name as [nm|]; [|exact I]. intros k tn Hvk ->. pose proof (Bv _ _ Hvk) as Hk.
      destruct L1 as [A|(_ & i & tni & Hi & Hvi & Hlt & Habove)].
      - destruct (Z_lt_le_dec k i0) as [Hlt|Hge].
        + specialize (HB k (T, nm) ltac:(lia) Hvk). cbn in HB. lia.
        + destruct (A k (T, nm) ltac:(lia) Hvk) as [Hn _]. apply Hn. apply hit_some. reflexivity.
      - destruct (Z_lt_le_dec k i0) as [Hlt0|Hge].
        + specialize (HB k (T, nm) ltac:(lia) Hvk). cbn in HB. lia.
        + destruct (Z_lt_le_dec k i) as [Hki|Hik].
          * destruct (Habove k (T, nm) ltac:(lia) Hvk) as [Hn _]. apply Hn. apply hit_some. reflexivity.
          * pose proof (Hs i k tni (T, nm) Hik Hvi Hvk) as Hsort. cbn in Hsort. lia. }
    clear L1.
    pose proof (lin_up_spec es i0 ee T None ltac:(lia) B2) as L2.
    destruct (lin_up es i0 ee T None) as [i'|c'|]; unfold lin_up_post in L2; [| |contradiction].
    + destruct L2 as (tn' & Hi' & Hv' & Hhit' & Habove').
      assert (Hge : first_idx (is_ge T) es 1 = Some (i' + 1)).
      { apply (spec_first_ge es T i' tn' Hv').
        - destruct Hhit' as [Hh|[_ Hlt]]; [apply hit_none in Hh; lia|lia].
        - intros k tn'' Hk Hvk. destruct (Z_lt_le_dec k i0) as [Hlt|Hge].
          + apply (HB k tn''); [lia|exact Hvk].
          + destruct (Habove' k tn'' ltac:(lia) Hvk) as [Hn Hle]. rewrite hit_none in Hn. lia. }
      unfold find_spec. destruct name as [nm|].
      * rewrite (proj2 (spec_no_exact es T nm Hnoex)). rewrite Hge. cbn. f_equal. lia.
      * rewrite Hge. cbn. f_equal. lia.
    + destruct L2 as (-> & [A|(Hx & _)]); [|congruence].
      assert (Hge : first_idx (is_ge T) es 1 = None).
      { apply spec_no_ge. intros k tn Hvk. pose proof (Bv _ _ Hvk) as Hk. destruct (Z_lt_le_dec k i0) as [Hlt|Hge].
        - apply (HB k tn); [lia|exact Hvk].
        - destruct (A k tn ltac:(lia) Hvk) as [Hn Hle]. rewrite hit_none in Hn. lia. }
      unfold find_spec. destruct name as [nm|].
      * rewrite (proj2 (spec_no_exact es T nm Hnoex)). rewrite Hge. reflexivity.
      * rewrite Hge. reflexivity.
Qed.

(* ---- the binary search terminates within its fuel and stops at a parsable entry inside [s, e] ---- *)
Definition valid_at (es : list entry) (i : Z) : Prop := exists tn, vat es i tn.

Definition bs_ok (es : list entry) (T : Z) (f : nat) : Prop :=
  forall s e, 0 <= s -> s <= e -> e < lenZ es -> valid_at es s -> valid_at es e -> e - s + 2 <= Z.of_nat f ->
  exists idx tn, binsearch f es s e T = FOk (idx, Some tn) /\ s <= idx <= e /\ vat es idx tn.

Lemma bs_cont_ok es T f s e idx tn :
  bs_ok es T f ->
  0 <= s -> s <= e -> e < lenZ es -> valid_at es s -> valid_at es e -> e - s + 1 <= Z.of_nat f ->
  s <= idx <= e -> (s < e -> idx < e) -> vat es idx tn ->
  exists idx' tn', bs_cont (fun s' e' => binsearch f es s' e' T) T idx tn s e = FOk (idx', Some tn') /\
                   s <= idx' <= e /\ vat es idx' tn'.
Proof.
  intros IH H0 Hse He Hvs Hve Hf Hidx Hlt Hv. unfold bs_cont.
  destruct (wrap32 (T - fst tn) =? 0); [exists idx, tn; auto|].
  destruct (Z.eqb_spec e s); [exists idx, tn; auto|].
  destruct (Z.eqb_spec idx s) as [->|Hne].
  - destruct (IH e e) as (i & t & E & Hi & Hvi); try lia; auto. exists i, t. split; [exact E|]. split; [lia|exact Hvi].
  - destruct (0 <? wrap32 (T - fst tn)).
    + destruct (IH idx e) as (i & t & E & Hi & Hvi); try lia; auto; [exists tn; exact Hv|].
      exists i, t. split; [exact E|]. split; [lia|exact Hvi].
    + destruct (IH s idx) as (i & t & E & Hi & Hvi); try lia; auto; [exists tn; exact Hv|].
      exists i, t. split; [exact E|]. split; [lia|exact Hvi].
Qed.

Lemma binsearch_spec es T : forall f, bs_ok es T f.
Proof.
  induction f as [|f IH]; intros s e H0 Hse He Hvs Hve Hf; [lia|].
  cbn [binsearch].
  assert (Hq : s <= Z.quot (s + e) 2 <= e /\ (s < e -> Z.quot (s + e) 2 < e)) by lia.
  set (i0 := Z.quot (s + e) 2) in *.
  destruct (rd_total es i0) as [e0 He0]; [lia|]. rewrite He0.
  destruct e0 as [tn|].
  - apply bs_cont_ok; auto; lia.
  - assert (Hns : i0 <> s). { intros ->. destruct Hvs as [t Ht]. unfold vat in Ht. congruence. }
    assert (Hne : i0 <> e). { intros ->. destruct Hve as [t Ht]. unfold vat in Ht. congruence. }
    destruct (Z.eqb_spec s e); [lia|].
    unfold valid_idx. destruct (Z.eqb_spec i0 s); [contradiction|]. destruct (Z.eqb_spec i0 e); [contradiction|].
    unfold find_valid.
    pose proof (scan_up_spec es (fun _ => true) (lfuel es) i0 e ltac:(lia) He) as HU.
    rewrite lfuel_val in HU. specialize (HU ltac:(lia) (lfuel_pos es)). unfold scan_up_post in HU.
    destruct (scan_up _ _ _ _ _) as [[[j tnj]|]|c|]; try contradiction.
    2:{ destruct Hve as [t Ht]. specialize (HU e t ltac:(lia) Ht). discriminate. }
    destruct HU as (Hj & Hvj & _ & _). cbn [fbind].
    assert (j <> i0). { intros ->. unfold vat in Hvj. congruence. }
    destruct (Z.eqb_spec j e) as [->|Hje].
    + pose proof (scan_down_spec es (fun _ => true) (lfuel es) i0 s H0 ltac:(lia)) as HD.
      rewrite lfuel_val in HD. specialize (HD ltac:(lia) (lfuel_pos es)). unfold scan_down_post in HD.
      destruct (scan_down _ _ _ _ _) as [[[j2 tn2]|]|c|]; try contradiction.
      2:{ destruct Hvs as [t Ht]. specialize (HD s t ltac:(lia) Ht). discriminate. }
      destruct HD as (Hj2 & Hvj2 & _ & _). cbn [fbind].
      assert (j2 <> i0). { intros ->. unfold vat in Hvj2. congruence. }
      apply bs_cont_ok; auto; lia.
    + apply bs_cont_ok; auto; lia.
Qed.

Lemma bfuel_val es : Z.of_nat (bfuel es) = 2 * lenZ es + 2.
Proof. unfold bfuel, lenZ. lia. Qed.

Lemma binsearch_in_range_terminates es T s e :
  0 <= s -> s <= e -> e < lenZ es -> valid_at es s -> valid_at es e ->
  exists idx tn, binsearch (bfuel es) es s e T = FOk (idx, Some tn) /\ s <= idx <= e /\ vat es idx tn.
Proof.
  intros. apply binsearch_spec; auto. rewrite bfuel_val. lia.
Qed.

(* ---- FindRecordStartIdx = linear scan ---- *)
Definition find_res (o : option Z) : fr Z := match o with Some i => FOk i | None => FErr E_NOTFOUND end.

Lemma find_spec_no_valid es T name desc : (forall k tn, ~ vat es k tn) -> find_spec es T name desc = None.
Proof.
  intros Hno. unfold find_spec.
  assert (E : forall nm, last_idx (is_exact T nm) es 1 = None /\ first_idx (is_exact T nm) es 1 = None).
  { intros nm. apply spec_no_exact. intros k tn Hv. destruct (Hno _ _ Hv). }
  assert (L : last_idx (is_le T) es 1 = None) by (apply spec_no_le; intros k tn Hv; destruct (Hno _ _ Hv)).
  assert (G : first_idx (is_ge T) es 1 = None) by (apply spec_no_ge; intros k tn Hv; destruct (Hno _ _ Hv)).
  destruct desc, name as [nm|]; try rewrite (proj1 (E nm)); try rewrite (proj2 (E nm)); auto.
Qed.

Lemma ends_found es :
  (exists k tn, vat es k tn) ->
  exists ss tns ee tne,
    scan_up (lfuel es) es 0 (lenZ es - 1) (fun _ => true) = FOk (Some (ss, tns)) /\
    scan_down (lfuel es) es (lenZ es - 1) ss (fun _ => true) = FOk (Some (ee, tne)) /\
    bounds es ss ee /\ vat es ss tns /\ vat es ee tne.
Proof.
  intros (k & tnk & Hvk). pose proof (vat_range _ _ _ Hvk) as Hk.
  pose proof (scan_up_spec es (fun _ => true) (lfuel es) 0 (lenZ es - 1) ltac:(lia) ltac:(lia)) as HU.
  rewrite lfuel_val in HU. specialize (HU ltac:(lia) (lfuel_pos es)). unfold scan_up_post in HU.
  destruct (scan_up _ _ _ _ _) as [[[ss tns]|]|c|] eqn:EU; try contradiction.
  2:{ specialize (HU k tnk ltac:(lia) Hvk). discriminate. }
  destruct HU as (Hss & Hvs & _ & Hbelow).
  pose proof (scan_down_spec es (fun _ => true) (lfuel es) (lenZ es - 1) ss ltac:(lia) ltac:(lia)) as HD.
  rewrite lfuel_val in HD. specialize (HD ltac:(lia) (lfuel_pos es)). unfold scan_down_post in HD.
  destruct (scan_down _ _ _ _ _) as [[[ee tne]|]|c|] eqn:ED; try contradiction.
  2:{ specialize (HD ss tns ltac:(lia) Hvs). discriminate. }
  destruct HD as (Hee & Hve & _ & Habove).
  exists ss, tns, ee, tne. split; [reflexivity|]. split; [exact ED|]. split; [|split; assumption].
  unfold bounds. split; [lia|]. split; [lia|]. split; [lia|]. intros i tn H. pose proof (vat_range _ _ _ H). split.
  - destruct (Z_lt_le_dec i ss); [|lia]. specialize (Hbelow i tn ltac:(lia) H). discriminate.
  - destruct (Z_lt_le_dec ee i); [|lia]. specialize (Habove i tn ltac:(lia) H). discriminate.
Qed.

Lemma find_eq_scan es T name desc :
  sorted es -> names_unique es -> find es (lenZ es) T name desc = find_res (find_spec es T name desc).
Proof.
  intros Hs Hu.
  assert (Hdec : (exists k tn, vat es k tn) \/ (forall k tn, ~ vat es k tn)).
  { pose proof (scan_up_spec es (fun _ => true) (lfuel es) 0 (lenZ es - 1) ltac:(lia) ltac:(lia)) as HU.
    rewrite lfuel_val in HU. specialize (HU ltac:(lia) (lfuel_pos es)). unfold scan_up_post in HU.
    destruct (scan_up _ _ _ _ _) as [[[ss tns]|]|c|]; try contradiction.
    - left. exists ss, tns. tauto.
    - right. intros k tn Hv. pose proof (vat_range _ _ _ Hv). specialize (HU k tn ltac:(lia) Hv). discriminate. }
  destruct Hdec as [Hex|Hno].
  2:{ rewrite find_spec_no_valid by exact Hno. unfold find, find_valid.
      pose proof (scan_up_spec es (fun _ => true) (lfuel es) 0 (lenZ es - 1) ltac:(lia) ltac:(lia)) as HU.
      rewrite lfuel_val in HU. specialize (HU ltac:(lia) (lfuel_pos es)). unfold scan_up_post in HU.
      destruct (scan_up _ _ _ _ _) as [[[ss tns]|]|c|]; try contradiction; [|reflexivity].
      destruct HU as (_ & Hv & _). destruct (Hno _ _ Hv). }
  destruct (ends_found es Hex) as (ss & tns & ee & tne & EU & ED & HB & Hvs & Hve).
  unfold find, find_valid. rewrite EU, ED.
  pose proof HB as (B0 & B1 & B2 & Bv).
  destruct (binsearch_in_range_terminates es T ss ee B0 B1 B2 (ex_intro _ tns Hvs) (ex_intro _ tne Hve))
    as (idx & [t n] & EB & Hidx & Hv).
  rewrite EB.
  destruct ((T =? t) && match name with Some m => n =? m | None => false end) eqn:Eq.
  - destruct name as [nm|]; [|bool_to_prop; destruct Eq; discriminate].
    bool_to_prop. destruct Eq as [-> ->]. unfold find_spec.
    assert (Hothers : forall k tn', k <> idx -> vat es k tn' -> tn' <> (t, nm)).
    { intros k tn' Hk Hvk ->. apply Hk. exact (Hu _ _ _ Hvk Hv). }
    destruct desc.
    + rewrite (spec_last_exact es t nm idx Hv); [reflexivity|]. intros k tn' Hk. apply Hothers. lia.
    + rewrite (spec_first_exact es t nm idx Hv); [reflexivity|]. intros k tn' Hk. apply Hothers. lia.
  - destruct desc.
    + rewrite (post_desc_any_start es ss ee idx T name Hs HB Hidx).
      destruct (find_spec es T name true); cbn; [f_equal; lia|reflexivity].
    + rewrite (post_asc_any_start es ss ee idx T name Hs HB Hidx).
      destruct (find_spec es T name false); cbn; [f_equal; lia|reflexivity].
Qed.

(* the answer never is "did not return" *)
Corollary find_terminates es T name desc : sorted es -> names_unique es -> find es (lenZ es) T name desc <> FHang.
Proof. intros Hs Hu. rewrite find_eq_scan by assumption. destruct (find_spec es T name desc); discriminate. Qed.

(* ---- a cursor that names a present entry resolves to that entry, in both directions ---- *)
Lemma find_present es T nm i desc :
  sorted es -> names_unique es -> vat es i (T, nm) -> find es (lenZ es) T (Some nm) desc = FOk (i + 1).
Proof.
  intros Hs Hu Hv. rewrite find_eq_scan by assumption. unfold find_spec.
  assert (Hothers : forall k tn', k <> i -> vat es k tn' -> tn' <> (T, nm)).
  { intros k tn' Hk Hvk ->. apply Hk. exact (Hu _ _ _ Hvk Hv). }
  destruct desc.
  - rewrite (spec_last_exact es T nm i Hv); [reflexivity|]. intros k tn' Hk. apply Hothers. lia.
  - rewrite (spec_first_exact es T nm i Hv); [reflexivity|]. intros k tn' Hk. apply Hothers. lia.
Qed.

Lemma last_idx_sound p : forall es k i, last_idx p es k = Some i -> exists e, rd es (i - k) = FOk e /\ p e = true.
Proof.
  induction es as [|a es IH]; intros k i H; [discriminate|].
  cbn [last_idx] in H. destruct (last_idx p es (k + 1)) as [i'|] eqn:E.
  - inversion H; subst. destruct (IH _ _ E) as (e & Hrd & Hp). exists e. split; [|exact Hp].
    pose proof (rd_range _ _ _ Hrd). replace (i - k) with ((i - (k + 1)) + 1) by lia. rewrite rd_cons_S by lia. exact Hrd.
  - destruct (p a) eqn:Ep; [|discriminate]. inversion H; subst. exists a. rewrite Z.sub_diag. split; [reflexivity|exact Ep].
Qed.

(* GetRecord finds an article by file name exactly when an entry carries that name *)
Lemma getrecord_found es T nm i :
  sorted es -> names_unique es -> vat es i (T, nm) -> get_record es (lenZ es) T nm = FOk (i + 1).
Proof.
  intros Hs Hu Hv. unfold get_record. rewrite (find_present es T nm i true Hs Hu Hv). cbn [fbind].
  replace (i + 1 - 1) with i by lia. rewrite Hv. cbn [fbind]. rewrite !Z.eqb_refl. reflexivity.
Qed.

Lemma getrecord_absent es T nm :
  sorted es -> names_unique es -> (forall i, ~ vat es i (T, nm)) -> get_record es (lenZ es) T nm = FErr E_NOTFOUND.
Proof.
  intros Hs Hu Hno. unfold get_record. rewrite find_eq_scan by assumption. unfold find_spec.
  rewrite (proj1 (spec_no_exact es T nm ltac:(intros k tn Hv ->; exact (Hno _ Hv)))).
  destruct (last_idx (is_le T) es 1) as [i|] eqn:E; [|reflexivity].
  destruct (last_idx_sound _ _ _ _ E) as (e & Hrd & Hp). cbn [find_res fbind]. rewrite Hrd. cbn [fbind].
  destruct e as [[t n]|]; [|reflexivity].
  destruct ((t =? T) && (n =? nm)) eqn:Eq; [|reflexivity].
  bool_to_prop. destruct Eq as [-> ->]. destruct (Hno _ Hrd).
Qed.

(* ---- non-vacuity and the refutation ---- *)
Definition ex_file : list entry := [None; Some (10, 1); Some (10, 2); None; Some (12, 3); Some (15, 4); None].

Lemma rd_Some_nth es i tn : rd es i = FOk (Some tn) -> nth_error es (Z.to_nat i) = Some (Some tn).
Proof.
  unfold rd. destruct (i <? 0); [discriminate|]. destruct (nth_error es (Z.to_nat i)); [|discriminate]. intros H; inversion H; reflexivity.
Qed.

Lemma ex_file_vat i tn : vat ex_file i tn -> (i = 1 /\ tn = (10, 1)) \/ (i = 2 /\ tn = (10, 2)) \/ (i = 4 /\ tn = (12, 3)) \/ (i = 5 /\ tn = (15, 4)).
Proof.
  intros H. pose proof (vat_range _ _ _ H) as Hr. cbn in Hr. apply rd_Some_nth in H.
  assert (Hc : i = 0 \/ i = 1 \/ i = 2 \/ i = 3 \/ i = 4 \/ i = 5 \/ i = 6) by lia.
  destruct Hc as [->|[->|[->|[->|[->|[->| ->]]]]]]; cbn in H; try discriminate; inversion H; subst; tauto.
Qed.

Example ex_file_sorted : sorted ex_file.
Proof.
  intros i j ti tj Hij Hi Hj. apply ex_file_vat in Hi. apply ex_file_vat in Hj.
  destruct Hi as [[-> ->]|[[-> ->]|[[-> ->]| [-> ->]]]]; destruct Hj as [[-> ->]|[[-> ->]|[[-> ->]| [-> ->]]]]; cbn; lia.
Qed.
Example ex_file_unique : names_unique ex_file.
Proof.
  intros i j tn Hi Hj. apply ex_file_vat in Hi. apply ex_file_vat in Hj.
  destruct Hi as [[-> ->]|[[-> ->]|[[-> ->]| [-> ->]]]]; destruct Hj as [[-> E]|[[-> E]|[[-> E]| [-> E]]]]; try reflexivity; discriminate.
Qed.
Example ex_file_find :
  find ex_file 7 11 (Some 9) true = FOk 3 /\ find ex_file 7 11 (Some 9) false = FOk 5 /\
  find ex_file 7 5 None false = FOk 2 /\ find ex_file 7 10 (Some 1) true = FOk 2.
Proof. vm_compute. auto. Qed.
Example ex_file_walk : page_walk ex_file 4 true = FOk (0, 2, [7; 6; 5; 4; 3; 2; 1]).
Proof. vm_compute. reflexivity. Qed.

(* A page boundary on an unparsable (delete-marked) entry ends the walk: entries are never visited.
   File: one article, a deleted entry, another article; page size 1, newest first. *)
Lemma page_walk_refuted_deleted_boundary :
  exists es k desc, sorted es /\ names_unique es /\ (0 < k)%nat /\
    page_walk es k desc = FOk (E_ATOI, 1, [3]) /\ lenZ es = 3.
Proof.
  exists [Some (10, 1); None; Some (11, 2)], 1%nat, true.
  assert (V : forall i tn, vat [Some (10, 1); None; Some (11, 2)] i tn -> (i = 0 /\ tn = (10, 1)) \/ (i = 2 /\ tn = (11, 2))).
  { intros i tn H. pose proof (vat_range _ _ _ H) as Hr. cbn in Hr. apply rd_Some_nth in H.
    assert (Hc : i = 0 \/ i = 1 \/ i = 2) by lia.
    destruct Hc as [->|[->| ->]]; cbn in H; try discriminate; inversion H; subst; tauto. }
  split; [|split; [|split; [lia|split; [vm_compute; reflexivity|reflexivity]]]].
  - intros i j ti tj Hij Hi Hj. apply V in Hi. apply V in Hj.
    destruct Hi as [[-> ->]|[-> ->]]; destruct Hj as [[-> ->]|[-> ->]]; cbn; lia.
  - intros i j tn Hi Hj. apply V in Hi. apply V in Hj.
    destruct Hi as [[-> ->]|[-> ->]]; destruct Hj as [[-> E]|[-> E]]; try reflexivity; discriminate.
Qed.
