(* C06 — lemmas about the model of cmsys/record.go (Model/C06.v). *)
From Verif Require Import Base.Common Model.C06.
From Verif Require Export Proofs.C06_names.
Ltac Zify.zify_post_hook ::= Z.to_euclidean_division_equations.

(* entry i of the file is parsable and is tn *)
Definition vat (es : list entry) (i : Z) (tn : Z * Z) : Prop := rd es i = FOk (Some tn).

(* parsable creation times never decrease along the file *)
Definition sorted (es : list entry) : Prop :=
  forall i j ti tj, i <= j -> vat es i ti -> vat es j tj -> fst ti <= fst tj.

(* file names are unique within an index *)
Definition names_unique (es : list entry) : Prop :=
  forall i j tn, vat es i tn -> vat es j tn -> i = j.

Ltac bool_to_prop :=
  repeat (rewrite ?andb_true_iff, ?andb_false_iff, ?orb_true_iff, ?orb_false_iff, ?negb_true_iff, ?negb_false_iff,
                  ?Z.eqb_eq, ?Z.eqb_neq, ?Z.ltb_lt, ?Z.ltb_ge, ?Z.leb_le, ?Z.leb_gt in * ).

Lemma rd_range es i e : rd es i = FOk e -> 0 <= i < lenZ es.
Proof.
  unfold rd, lenZ. destruct (Z.ltb_spec i 0); [discriminate|].
  destruct (nth_error es (Z.to_nat i)) eqn:E; [|discriminate]. intros _.
  assert (Z.to_nat i < length es)%nat by (apply nth_error_Some; congruence). lia.
Qed.

Lemma rd_total es i : 0 <= i < lenZ es -> exists e, rd es i = FOk e.
Proof.
  unfold rd, lenZ. intros H. destruct (Z.ltb_spec i 0); [lia|].
  destruct (nth_error es (Z.to_nat i)) eqn:E; [eauto|].
  apply nth_error_None in E. lia.
Qed.

Lemma vat_range es i tn : vat es i tn -> 0 <= i < lenZ es.
Proof. apply rd_range. Qed.

Lemma vat_fun es i a b : vat es i a -> vat es i b -> a = b.
Proof. unfold vat. intros H1 H2. rewrite H1 in H2. congruence. Qed.

Lemma rd_cons_S a r j : 0 <= j -> rd (a :: r) (j + 1) = rd r j.
Proof.
  intros H. unfold rd. destruct (Z.ltb_spec (j + 1) 0); [lia|]. destruct (Z.ltb_spec j 0); [lia|].
  replace (Z.to_nat (j + 1)) with (S (Z.to_nat j)) by lia. reflexivity.
Qed.

(* ---- the two loop shapes ---- *)
Definition scan_up_post (es : list entry) (idx b : Z) (p : Z * Z -> bool) (r : fr (option (Z * (Z * Z)))) : Prop :=
  match r with
  | FOk (Some (j, tn)) => idx <= j <= b /\ vat es j tn /\ p tn = true /\
                          (forall i tn', idx <= i < j -> vat es i tn' -> p tn' = false)
  | FOk None => forall i tn', idx <= i <= b -> vat es i tn' -> p tn' = false
  | _ => False
  end.

Lemma scan_up_spec es p : forall fuel idx b,
  0 <= idx -> b < lenZ es -> b - idx + 1 < Z.of_nat fuel -> (0 < fuel)%nat ->
  scan_up_post es idx b p (scan_up fuel es idx b p).
Proof.
  induction fuel as [|f IH]; intros idx b H0 Hb Hf Hpos; [lia|].
  cbn [scan_up]. destruct (Z.leb_spec idx b) as [Hle|Hgt].
  - destruct (rd_total es idx) as [e He]; [lia|]. rewrite He.
    assert (Hrec : scan_up_post es (idx + 1) b p (scan_up f es (idx + 1) b p)) by (apply IH; lia).
    assert (Hstep : scan_up_post es (idx + 1) b p (scan_up f es (idx + 1) b p) ->
                    (forall tn', vat es idx tn' -> p tn' = false) ->
                    scan_up_post es idx b p (scan_up f es (idx + 1) b p)).
    { intros Hr Hidx. unfold scan_up_post in *. destruct (scan_up f es (idx + 1) b p) as [[[j tn']|]|c|]; auto.
      - destruct Hr as (Hj & Hv & Hp & Hall). repeat split; auto; try lia.
        intros i t' Hi Hvi. destruct (Z.eq_dec i idx) as [->|Hne]; [auto|]. apply (Hall i); auto; lia.
      - intros i t' Hi Hvi. destruct (Z.eq_dec i idx) as [->|Hne]; [auto|]. apply (Hr i); auto; lia. }
    destruct e as [tn|].
    + destruct (p tn) eqn:Ep.
      * cbn. repeat split; auto; try lia; intros; lia.
      * apply Hstep; auto. intros tn' Hv. rewrite (vat_fun _ _ _ _ Hv He). exact Ep.
    + apply Hstep; auto. intros tn' Hv. unfold vat in Hv. congruence.
  - cbn. intros; lia.
Qed.

Definition scan_down_post (es : list entry) (idx b : Z) (p : Z * Z -> bool) (r : fr (option (Z * (Z * Z)))) : Prop :=
  match r with
  | FOk (Some (j, tn)) => b <= j <= idx /\ vat es j tn /\ p tn = true /\
                          (forall i tn', j < i <= idx -> vat es i tn' -> p tn' = false)
  | FOk None => forall i tn', b <= i <= idx -> vat es i tn' -> p tn' = false
  | _ => False
  end.

Lemma scan_down_spec es p : forall fuel idx b,
  0 <= b -> idx < lenZ es -> idx - b + 1 < Z.of_nat fuel -> (0 < fuel)%nat ->
  scan_down_post es idx b p (scan_down fuel es idx b p).
Proof.
  induction fuel as [|f IH]; intros idx b H0 Hb Hf Hpos; [lia|].
  cbn [scan_down]. destruct (Z.leb_spec b idx) as [Hle|Hgt].
  - destruct (rd_total es idx) as [e He]; [lia|]. rewrite He.
    assert (Hrec : scan_down_post es (idx - 1) b p (scan_down f es (idx - 1) b p)) by (apply IH; lia).
    assert (Hstep : scan_down_post es (idx - 1) b p (scan_down f es (idx - 1) b p) ->
                    (forall tn', vat es idx tn' -> p tn' = false) ->
                    scan_down_post es idx b p (scan_down f es (idx - 1) b p)).
    { intros Hr Hidx. unfold scan_down_post in *. destruct (scan_down f es (idx - 1) b p) as [[[j tn']|]|c|]; auto.
      - destruct Hr as (Hj & Hv & Hp & Hall). repeat split; auto; try lia.
        intros i t' Hi Hvi. destruct (Z.eq_dec i idx) as [->|Hne]; [auto|]. apply (Hall i); auto; lia.
      - intros i t' Hi Hvi. destruct (Z.eq_dec i idx) as [->|Hne]; [auto|]. apply (Hr i); auto; lia. }
    destruct e as [tn|].
    + destruct (p tn) eqn:Ep.
      * cbn. repeat split; auto; try lia; intros; lia.
      * apply Hstep; auto. intros tn' Hv. rewrite (vat_fun _ _ _ _ Hv He). exact Ep.
    + apply Hstep; auto. intros tn' Hv. unfold vat in Hv. congruence.
  - cbn. intros; lia.
Qed.

Lemma lfuel_pos es : (0 < lfuel es)%nat.
Proof. unfold lfuel. lia. Qed.
Lemma lfuel_val es : Z.of_nat (lfuel es) = lenZ es + 2.
Proof. unfold lfuel, lenZ. lia. Qed.

(* ---- the linear-scan specification in terms of positions ---- *)
Lemma first_idx_is p : forall es k r e,
  rd es r = FOk e -> p e = true -> (forall j e', j < r -> rd es j = FOk e' -> p e' = false) ->
  first_idx p es k = Some (r + k).
Proof.
  induction es as [|a es IH]; intros k r e Hr Hp Hall.
  - apply rd_range in Hr. cbn in Hr. lia.
  - cbn [first_idx]. destruct (Z.eq_dec r 0) as [->|Hne].
    + cbn in Hr. inversion Hr; subst. rewrite Hp. f_equal; lia.
    + assert (Hr0 := rd_range _ _ _ Hr).
      rewrite (Hall 0 a) by (try reflexivity; lia).
      replace r with ((r - 1) + 1) in Hr by lia. rewrite rd_cons_S in Hr by lia.
      rewrite (IH (k + 1) (r - 1) e Hr Hp).
      * f_equal; lia.
      * intros j e' Hj Hrd. assert (0 <= j) by (apply rd_range in Hrd; lia).
        apply (Hall (j + 1)); [lia|]. rewrite rd_cons_S by lia. exact Hrd.
Qed.

Lemma first_idx_none p : forall es k, (forall j e', rd es j = FOk e' -> p e' = false) -> first_idx p es k = None.
Proof.
  induction es as [|a es IH]; intros k Hall; [reflexivity|].
  cbn [first_idx]. rewrite (Hall 0 a) by reflexivity. apply IH.
  intros j e' Hrd. assert (0 <= j) by (apply rd_range in Hrd; lia).
  apply (Hall (j + 1)). rewrite rd_cons_S by lia. exact Hrd.
Qed.

Lemma last_idx_none p : forall es k, (forall j e', rd es j = FOk e' -> p e' = false) -> last_idx p es k = None.
Proof.
  induction es as [|a es IH]; intros k Hall; [reflexivity|].
  cbn [last_idx]. rewrite IH.
  - rewrite (Hall 0 a) by reflexivity. reflexivity.
  - intros j e' Hrd. assert (0 <= j) by (apply rd_range in Hrd; lia).
    apply (Hall (j + 1)). rewrite rd_cons_S by lia. exact Hrd.
Qed.

Lemma last_idx_is p : forall es k r e,
  rd es r = FOk e -> p e = true -> (forall j e', r < j -> rd es j = FOk e' -> p e' = false) ->
  last_idx p es k = Some (r + k).
Proof.
  induction es as [|a es IH]; intros k r e Hr Hp Hall.
  - apply rd_range in Hr. cbn in Hr. lia.
  - cbn [last_idx]. destruct (Z.eq_dec r 0) as [->|Hne].
    + rewrite last_idx_none.
      * cbn in Hr. inversion Hr; subst. rewrite Hp. f_equal; lia.
      * intros j e' Hrd. assert (0 <= j) by (apply rd_range in Hrd; lia).
        apply (Hall (j + 1)); [lia|]. rewrite rd_cons_S by lia. exact Hrd.
    + assert (Hr0 := rd_range _ _ _ Hr).
      replace r with ((r - 1) + 1) in Hr by lia. rewrite rd_cons_S in Hr by lia.
      rewrite (IH (k + 1) (r - 1) e Hr Hp).
      * f_equal; lia.
      * intros j e' Hj Hrd. assert (0 <= j) by (apply rd_range in Hrd; lia).
        apply (Hall (j + 1)); [lia|]. rewrite rd_cons_S by lia. exact Hrd.
Qed.

(* ---- clean forms of the specification ---- *)
Definition hit (T : Z) (name : option Z) (tn : Z * Z) : Prop := T = fst tn /\ name_eq name (snd tn) = true.

Lemma hit_some T nm tn : hit T (Some nm) tn <-> tn = (T, nm).
Proof. unfold hit. destruct tn as [t n]. cbn. bool_to_prop. split; [intros [-> ->]; reflexivity|intros H; inversion H; auto]. Qed.
Lemma hit_none T tn : hit T None tn <-> T = fst tn.
Proof. unfold hit. cbn. tauto. Qed.

Ltac spec_false :=
  let j := fresh "j" in let e' := fresh "e" in let Hj := fresh "Hj" in let Hrd := fresh "Hrd" in
  intros j e'; intros; destruct e' as [[? ?]|]; [|reflexivity].

Lemma spec_last_exact es T nm i :
  vat es i (T, nm) -> (forall k tn, i < k -> vat es k tn -> tn <> (T, nm)) ->
  last_idx (is_exact T nm) es 1 = Some (i + 1).
Proof.
  intros Hv Hall. apply (last_idx_is _ es 1 i (Some (T, nm))); [exact Hv|cbn; rewrite !Z.eqb_refl; reflexivity|].
  intros j e' Hj Hrd. destruct e' as [[t n]|]; [|reflexivity]. cbn.
  specialize (Hall j (t, n) Hj Hrd). bool_to_prop.
  destruct (Z.eq_dec t T); [right|left; auto]. intros ->. subst. congruence.
Qed.
Lemma spec_first_exact es T nm i :
  vat es i (T, nm) -> (forall k tn, k < i -> vat es k tn -> tn <> (T, nm)) ->
  first_idx (is_exact T nm) es 1 = Some (i + 1).
Proof.
  intros Hv Hall. apply (first_idx_is _ es 1 i (Some (T, nm))); [exact Hv|cbn; rewrite !Z.eqb_refl; reflexivity|].
  intros j e' Hj Hrd. destruct e' as [[t n]|]; [|reflexivity]. cbn.
  specialize (Hall j (t, n) Hj Hrd). bool_to_prop.
  destruct (Z.eq_dec t T); [right|left; auto]. intros ->. subst. congruence.
Qed.
Lemma spec_no_exact es T nm :
  (forall k tn, vat es k tn -> tn <> (T, nm)) ->
  last_idx (is_exact T nm) es 1 = None /\ first_idx (is_exact T nm) es 1 = None.
Proof.
  intros Hall.
  assert (H : forall j e', rd es j = FOk e' -> is_exact T nm e' = false).
  { intros j e' Hrd. destruct e' as [[t n]|]; [|reflexivity]. cbn.
    specialize (Hall j (t, n) Hrd). bool_to_prop.
    destruct (Z.eq_dec t T); [right|left; auto]. intros ->. subst. congruence. }
  split; [apply last_idx_none|apply first_idx_none]; exact H.
Qed.
Lemma spec_last_le es T i tn :
  vat es i tn -> fst tn <= T -> (forall k tn', i < k -> vat es k tn' -> T < fst tn') ->
  last_idx (is_le T) es 1 = Some (i + 1).
Proof.
  intros Hv Hle Hall. apply (last_idx_is _ es 1 i (Some tn)); [exact Hv|destruct tn; cbn in *; bool_to_prop; lia|].
  intros j e' Hj Hrd. destruct e' as [[t n]|]; [|reflexivity]. cbn.
  specialize (Hall j (t, n) Hj Hrd). cbn in Hall. bool_to_prop. lia.
Qed.
Lemma spec_no_le es T : (forall k tn, vat es k tn -> T < fst tn) -> last_idx (is_le T) es 1 = None.
Proof.
  intros Hall. apply last_idx_none. intros j e' Hrd. destruct e' as [[t n]|]; [|reflexivity]. cbn.
  specialize (Hall j (t, n) Hrd). cbn in Hall. bool_to_prop. lia.
Qed.
Lemma spec_first_ge es T i tn :
  vat es i tn -> T <= fst tn -> (forall k tn', k < i -> vat es k tn' -> fst tn' < T) ->
  first_idx (is_ge T) es 1 = Some (i + 1).
Proof.
  intros Hv Hle Hall. apply (first_idx_is _ es 1 i (Some tn)); [exact Hv|destruct tn; cbn in *; bool_to_prop; lia|].
  intros j e' Hj Hrd. destruct e' as [[t n]|]; [|reflexivity]. cbn.
  specialize (Hall j (t, n) Hj Hrd). cbn in Hall. bool_to_prop. lia.
Qed.
Lemma spec_no_ge es T : (forall k tn, vat es k tn -> fst tn < T) -> first_idx (is_ge T) es 1 = None.
Proof.
  intros Hall. apply first_idx_none. intros j e' Hrd. destruct e' as [[t n]|]; [|reflexivity]. cbn.
  specialize (Hall j (t, n) Hrd). cbn in Hall. bool_to_prop. lia.
Qed.

(* ---- the two linear searches ---- *)
Definition lin_down_post (es : list entry) (i0 ss T : Z) (name : option Z) (r : fr Z) : Prop :=
  match r with
  | FOk i => exists tn, ss <= i <= i0 /\ vat es i tn /\ (hit T name tn \/ (name = None /\ fst tn < T)) /\
             (forall k tn', i < k <= i0 -> vat es k tn' -> ~ hit T name tn' /\ T <= fst tn')
  | FErr c => c = E_NOTFOUND /\
       ((forall k tn', ss <= k <= i0 -> vat es k tn' -> ~ hit T name tn' /\ T <= fst tn') \/
        (name <> None /\ exists i tn, ss <= i <= i0 /\ vat es i tn /\ fst tn < T /\
             forall k tn', i < k <= i0 -> vat es k tn' -> ~ hit T name tn' /\ T <= fst tn'))
  | FHang => False
  end.

Lemma q_false_down T name tn :
  ((T =? fst tn) && name_eq name (snd tn) || (fst tn <? T)) = false -> ~ hit T name tn /\ T <= fst tn.
Proof. unfold hit. intros H. bool_to_prop. destruct H as [[H|H] H2]; split; try lia; intros [? ?]; congruence. Qed.

Lemma lin_down_spec es i0 ss T name : 0 <= ss -> i0 < lenZ es -> lin_down_post es i0 ss T name (lin_down es i0 ss T name).
Proof.
  intros H0 H1. unfold lin_down.
  pose proof (scan_down_spec es (fun tn => (T =? fst tn) && name_eq name (snd tn) || (fst tn <? T)) (lfuel es) i0 ss H0 H1) as H.
  rewrite lfuel_val in H. specialize (H ltac:(lia) (lfuel_pos es)). unfold scan_down_post in H.
  destruct (scan_down _ _ _ _ _) as [[[i [t n]]|]|c|]; try contradiction.
  - destruct H as (Hi & Hv & Hq & Hall). cbn [fst snd] in Hq.
    assert (Hall' : forall k tn', i < k <= i0 -> vat es k tn' -> ~ hit T name tn' /\ T <= fst tn').
    { intros k tn' Hk Hvk. apply q_false_down. exact (Hall k tn' Hk Hvk). }
    destruct ((T =? t) && name_eq name n) eqn:E.
    + cbn. exists (t, n). split; [lia|]. split; [exact Hv|]. split; [|exact Hall'].
      left. unfold hit. cbn. bool_to_prop. tauto.
    + cbn in Hq. bool_to_prop.
      destruct name as [nm|]; cbn.
      * split; [reflexivity|]. right. split; [congruence|]. exists i, (t, n).
        split; [lia|]. split; [exact Hv|]. split; [cbn; lia|exact Hall'].
      * exists (t, n). split; [lia|]. split; [exact Hv|]. split; [|exact Hall']. right. cbn. split; [reflexivity|lia].
  - cbn. split; [reflexivity|]. left. intros k tn' Hk Hvk. apply q_false_down. exact (H k tn' Hk Hvk).
Qed.

Definition lin_up_post (es : list entry) (i0 ee T : Z) (name : option Z) (r : fr Z) : Prop :=
  match r with
  | FOk i => exists tn, i0 <= i <= ee /\ vat es i tn /\ (hit T name tn \/ (name = None /\ T < fst tn)) /\
             (forall k tn', i0 <= k < i -> vat es k tn' -> ~ hit T name tn' /\ fst tn' <= T)
  | FErr c => c = E_NOTFOUND /\
       ((forall k tn', i0 <= k <= ee -> vat es k tn' -> ~ hit T name tn' /\ fst tn' <= T) \/
        (name <> None /\ exists i tn, i0 <= i <= ee /\ vat es i tn /\ T < fst tn /\
             forall k tn', i0 <= k < i -> vat es k tn' -> ~ hit T name tn' /\ fst tn' <= T))
  | FHang => False
  end.

Lemma q_false_up T name tn :
  ((T =? fst tn) && name_eq name (snd tn) || (T <? fst tn)) = false -> ~ hit T name tn /\ fst tn <= T.
Proof. unfold hit. intros H. bool_to_prop. destruct H as [[H|H] H2]; split; try lia; intros [? ?]; congruence. Qed.

Lemma lin_up_spec es i0 ee T name : 0 <= i0 -> ee < lenZ es -> lin_up_post es i0 ee T name (lin_up es i0 ee T name).
Proof.
  intros H0 H1. unfold lin_up.
  pose proof (scan_up_spec es (fun tn => (T =? fst tn) && name_eq name (snd tn) || (T <? fst tn)) (lfuel es) i0 ee H0 H1) as H.
  rewrite lfuel_val in H. specialize (H ltac:(lia) (lfuel_pos es)). unfold scan_up_post in H.
  destruct (scan_up _ _ _ _ _) as [[[i [t n]]|]|c|]; try contradiction.
  - destruct H as (Hi & Hv & Hq & Hall). cbn [fst snd] in Hq.
    assert (Hall' : forall k tn', i0 <= k < i -> vat es k tn' -> ~ hit T name tn' /\ fst tn' <= T).
    { intros k tn' Hk Hvk. apply q_false_up. exact (Hall k tn' Hk Hvk). }
    destruct ((T =? t) && name_eq name n) eqn:E.
    + cbn. exists (t, n). split; [lia|]. split; [exact Hv|]. split; [|exact Hall'].
      left. unfold hit. cbn. bool_to_prop. tauto.
    + cbn in Hq. bool_to_prop.
      destruct name as [nm|]; cbn.
      * split; [reflexivity|]. right. split; [congruence|]. exists i, (t, n).
        split; [lia|]. split; [exact Hv|]. split; [cbn; lia|exact Hall'].
      * exists (t, n). split; [lia|]. split; [exact Hv|]. split; [|exact Hall']. right. cbn. split; [reflexivity|lia].
  - cbn. split; [reflexivity|]. left. intros k tn' Hk Hvk. apply q_false_up. exact (H k tn' Hk Hvk).
Qed.

(* ---- the post-search from ANY in-range start equals the linear scan ---- *)
(* every parsable entry lies within [ss, ee] *)
Definition bounds (es : list entry) (ss ee : Z) : Prop :=
  0 <= ss /\ ss <= ee /\ ee < lenZ es /\ (forall i tn, vat es i tn -> ss <= i <= ee).

Definition spec_res (o : option Z) : fr Z := match o with Some i => FOk (i - 1) | None => FErr E_NOTFOUND end.

Lemma post_desc_any_start es ss ee idx T name :
  sorted es -> bounds es ss ee -> ss <= idx <= ee ->
  post_desc es idx ss ee T name = spec_res (find_spec es T name true).
Proof.
  intros Hs (B0 & B1 & B2 & Bv) Hidx. unfold post_desc.
  pose proof (scan_up_spec es (fun tn => T <? fst tn) (lfuel es) idx ee ltac:(lia) B2) as H.
  rewrite lfuel_val in H. specialize (H ltac:(lia) (lfuel_pos es)). unfold scan_up_post in H.
  destruct (scan_up _ _ _ _ _) as [r|c|]; try contradiction.
  assert (Hi0 : exists i0, match r with Some (i, _) => i | None => ee end = i0 /\ ss <= i0 <= ee /\
                           (forall k tn, i0 < k -> vat es k tn -> T < fst tn)).
  { destruct r as [[j tnj]|].
    - exists j. destruct H as (Hj & Hv & Hp & _). split; [reflexivity|]. split; [lia|].
      intros k tn Hk Hvk. bool_to_prop. pose proof (Hs j k tnj tn ltac:(lia) Hv Hvk). lia.
    - exists ee. split; [reflexivity|]. split; [lia|]. intros k tn Hk Hvk. apply Bv in Hvk. lia. }
  destruct Hi0 as (i0 & -> & Hi0 & HB). clear H.
  pose proof (lin_down_spec es i0 ss T name B0 ltac:(lia)) as L1.
  destruct (lin_down es i0 ss T name) as [i|c|]; unfold lin_down_post in L1; [| |contradiction].
  - destruct L1 as (tn & Hi & Hv & Hhit & Habove). unfold find_spec.
    destruct name as [nm|].
    + destruct Hhit as [Hhit|[Hx _]]; [|discriminate]. apply hit_some in Hhit. subst tn.
      rewrite (spec_last_exact es T nm i Hv); [cbn; f_equal; lia|].
      intros k tn' Hk Hvk ->. destruct (Z_le_gt_dec k i0) as [Hle|Hgt].
      * destruct (Habove k (T, nm) ltac:(lia) Hvk) as [Hn _]. apply Hn. apply hit_some. reflexivity.
      * specialize (HB k (T, nm) ltac:(lia) Hvk). cbn in HB. lia.
    + rewrite (spec_last_le es T i tn Hv); [cbn; f_equal; lia| |].
      * destruct Hhit as [Hhit|[_ Hlt]]; [apply hit_none in Hhit; lia|lia].
      * intros k tn' Hk Hvk. destruct (Z_le_gt_dec k i0) as [Hle|Hgt].
        -- destruct (Habove k tn' ltac:(lia) Hvk) as [Hn Hge]. rewrite hit_none in Hn. lia.
        -- apply (HB k tn'); [lia|exact Hvk].
  - destruct L1 as (-> & L1).
    assert (Hnoex : match name with Some nm => forall k tn, vat es k tn -> tn <> (T, nm) | None => True end).
    { destruct name as [nm|]; [|exact I]. intros k tn Hvk ->. pose proof (Bv _ _ Hvk) as Hk.
      destruct L1 as [A|(_ & i & tni & Hi & Hvi & Hlt & Habove)].
      - destruct (Z_le_gt_dec k i0) as [Hle|Hgt].
        + destruct (A k (T, nm) ltac:(lia) Hvk) as [Hn _]. apply Hn. apply hit_some. reflexivity.
        + specialize (HB k (T, nm) ltac:(lia) Hvk). cbn in HB. lia.
      - destruct (Z_le_gt_dec k i0) as [Hle|Hgt].
        + destruct (Z_lt_le_dec i k) as [Hik|Hki].
          * destruct (Habove k (T, nm) ltac:(lia) Hvk) as [Hn _]. apply Hn. apply hit_some. reflexivity.
          * pose proof (Hs k i (T, nm) tni Hki Hvk Hvi) as Hsort. cbn in Hsort. lia.
        + specialize (HB k (T, nm) ltac:(lia) Hvk). cbn in HB. lia. }
    clear L1.
    pose proof (lin_down_spec es i0 ss T None B0 ltac:(lia)) as L2.
    destruct (lin_down es i0 ss T None) as [i'|c'|]; unfold lin_down_post in L2; [| |contradiction].
    + destruct L2 as (tn' & Hi' & Hv' & Hhit' & Habove').
      assert (Hle : last_idx (is_le T) es 1 = Some (i' + 1)).
      { apply (spec_last_le es T i' tn' Hv').
        - destruct Hhit' as [Hh|[_ Hlt]]; [apply hit_none in Hh; lia|lia].
        - intros k tn'' Hk Hvk. destruct (Z_le_gt_dec k i0) as [Hle|Hgt].
          + destruct (Habove' k tn'' ltac:(lia) Hvk) as [Hn Hge]. rewrite hit_none in Hn. lia.
          + apply (HB k tn''); [lia|exact Hvk]. }
      unfold find_spec. destruct name as [nm|].
      * rewrite (proj1 (spec_no_exact es T nm Hnoex)). rewrite Hle. cbn. f_equal. lia.
      * rewrite Hle. cbn. f_equal. lia.
    + destruct L2 as (-> & [A|(Hx & _)]); [|congruence].
      assert (Hle : last_idx (is_le T) es 1 = None).
      { apply spec_no_le. intros k tn Hvk. pose proof (Bv _ _ Hvk) as Hk. destruct (Z_le_gt_dec k i0) as [Hle|Hgt].
        - destruct (A k tn ltac:(lia) Hvk) as [Hn Hge]. rewrite hit_none in Hn. lia.
        - apply (HB k tn); [lia|exact Hvk]. }
      unfold find_spec. destruct name as [nm|].
      * rewrite (proj1 (spec_no_exact es T nm Hnoex)). rewrite Hle. reflexivity.
      * rewrite Hle. reflexivity.
Qed.

Lemma post_asc_any_start es ss ee idx T name :
  sorted es -> bounds es ss ee -> ss <= idx <= ee ->
  post_asc es idx ss ee T name = spec_res (find_spec es T name false).
Proof.
  intros Hs (B0 & B1 & B2 & Bv) Hidx. unfold post_asc.
  pose proof (scan_down_spec es (fun tn => fst tn <? T) (lfuel es) idx ss B0 ltac:(lia)) as H.
  rewrite lfuel_val in H. specialize (H ltac:(lia) (lfuel_pos es)). unfold scan_down_post in H.
  destruct (scan_down _ _ _ _ _) as [r|c|]; try contradiction.
  assert (Hi0 : exists i0, match r with Some (i, _) => i | None => ss end = i0 /\ ss <= i0 <= ee /\
                           (forall k tn, k < i0 -> vat es k tn -> fst tn < T)).
  { destruct r as [[j tnj]|].
    - exists j. destruct H as (Hj & Hv & Hp & _). split; [reflexivity|]. split; [lia|].
      intros k tn Hk Hvk. bool_to_prop. pose proof (Hs k j tn tnj ltac:(lia) Hvk Hv). lia.
    - exists ss. split; [reflexivity|]. split; [lia|]. intros k tn Hk Hvk. apply Bv in Hvk. lia. }
  destruct Hi0 as (i0 & -> & Hi0 & HB). clear H.
  pose proof (lin_up_spec es i0 ee T name ltac:(lia) B2) as L1.
  destruct (lin_up es i0 ee T name) as [i|c|]; unfold lin_up_post in L1; [| |contradiction].
  - destruct L1 as (tn & Hi & Hv & Hhit & Habove). unfold find_spec.
    destruct name as [nm|].
    + destruct Hhit as [Hhit|[Hx _]]; [|discriminate]. apply hit_some in Hhit. subst tn.
      rewrite (spec_first_exact es T nm i Hv); [cbn; f_equal; lia|].
      intros k tn' Hk Hvk ->. destruct (Z_lt_le_dec k i0) as [Hlt|Hge].
      * specialize (HB k (T, nm) ltac:(lia) Hvk). cbn in HB. lia.
      * destruct (Habove k (T, nm) ltac:(lia) Hvk) as [Hn _]. apply Hn. apply hit_some. reflexivity.
    + rewrite (spec_first_ge es T i tn Hv); [cbn; f_equal; lia| |].
      * destruct Hhit as [Hhit|[_ Hlt]]; [apply hit_none in Hhit; lia|lia].
      * intros k tn' Hk Hvk. destruct (Z_lt_le_dec k i0) as [Hlt|Hge].
        -- apply (HB k tn'); [lia|exact Hvk].
        -- destruct (Habove k tn' ltac:(lia) Hvk) as [Hn Hle]. rewrite hit_none in Hn. lia.
  - destruct L1 as (-> & L1).
    assert (Hnoex : match name with Some nm => forall k tn, vat es k tn -> tn <> (T, nm) | None => True end).
    { destruct name as [nm|]; [|exact I]. intros k tn Hvk ->. pose proof (Bv _ _ Hvk) as Hk.
      destruct L1 as [A|(_ & i & tni & Hi & Hvi & Hlt & Habove)].
      - destruct (Z_lt_le_dec k i0) as [Hlt|Hge].
        + specialize (HB k (T, nm) ltac:(lia) Hvk). cbn in HB. lia.
        + destruct (A k (T, nm) ltac:(lia) Hvk) as [Hn _]. apply Hn. apply hit_some. reflexivity.
      - destruct (Z_lt_le_dec k i0) as [Hlt0|Hge].
        + specialize (HB k (T, nm) ltac:(lia) Hvk). cbn in HB. lia.
        + destruct (Z_lt_le_dec k i) as [Hki|Hik].
          * destruct (Habove k (T, nm) ltac:(lia) Hvk) as [Hn _]. apply Hn. apply hit_some. reflexivity.
          * pose proof (Hs i k tni (T, nm) Hik Hvi Hvk) as Hsort. cbn in Hsort. lia. }
    clear L1.
    pose proof (lin_up_spec es i0 ee T None ltac:(lia) B2) as L2.
    destruct (lin_up es i0 ee T None) as [i'|c'|]; unfold lin_up_post in L2; [| |contradiction].
    + destruct L2 as (tn' & Hi' & Hv' & Hhit' & Habove').
      assert (Hge : first_idx (is_ge T) es 1 = Some (i' + 1)).
      { apply (spec_first_ge es T i' tn' Hv').
        - destruct Hhit' as [Hh|[_ Hlt]]; [apply hit_none in Hh; lia|lia].
        - intros k tn'' Hk Hvk. destruct (Z_lt_le_dec k i0) as [Hlt|Hge].
          + apply (HB k tn''); [lia|exact Hvk].
          + destruct (Habove' k tn'' ltac:(lia) Hvk) as [Hn Hle]. rewrite hit_none in Hn. lia. }
      unfold find_spec. destruct name as [nm|].
      * rewrite (proj2 (spec_no_exact es T nm Hnoex)). rewrite Hge. cbn. f_equal. lia.
      * rewrite Hge. cbn. f_equal. lia.
    + destruct L2 as (-> & [A|(Hx & _)]); [|congruence].
      assert (Hge : first_idx (is_ge T) es 1 = None).
      { apply spec_no_ge. intros k tn Hvk. pose proof (Bv _ _ Hvk) as Hk. destruct (Z_lt_le_dec k i0) as [Hlt|Hge].
        - apply (HB k tn); [lia|exact Hvk].
        - destruct (A k tn ltac:(lia) Hvk) as [Hn Hle]. rewrite hit_none in Hn. lia. }
      unfold find_spec. destruct name as [nm|].
      * rewrite (proj2 (spec_no_exact es T nm Hnoex)). rewrite Hge. reflexivity.
      * rewrite Hge. reflexivity.
Qed.

(* ---- the binary search terminates within its fuel and stops at a parsable entry inside [s, e] ---- *)
Definition valid_at (es : list entry) (i : Z) : Prop := exists tn, vat es i tn.

Definition bs_ok (es : list entry) (T : Z) (f : nat) : Prop :=
  forall s e, 0 <= s -> s <= e -> e < lenZ es -> valid_at es s -> valid_at es e -> e - s + 2 <= Z.of_nat f ->
  exists idx tn, binsearch f es s e T = FOk (idx, Some tn) /\ s <= idx <= e /\ vat es idx tn.

Lemma bs_cont_ok es T f s e idx tn :
  bs_ok es T f ->
  0 <= s -> s <= e -> e < lenZ es -> valid_at es s -> valid_at es e -> e - s + 1 <= Z.of_nat f ->
  s <= idx <= e -> (s < e -> idx < e) -> vat es idx tn ->
  exists idx' tn', bs_cont (fun s' e' => binsearch f es s' e' T) T idx tn s e = FOk (idx', Some tn') /\
                   s <= idx' <= e /\ vat es idx' tn'.
Proof.
  intros IH H0 Hse He Hvs Hve Hf Hidx Hlt Hv. unfold bs_cont.
  destruct (wrap32 (T - fst tn) =? 0); [exists idx, tn; auto|].
  destruct (Z.eqb_spec e s); [exists idx, tn; auto|].
  destruct (Z.eqb_spec idx s) as [->|Hne].
  - destruct (IH e e) as (i & t & E & Hi & Hvi); try lia; auto. exists i, t. split; [exact E|]. split; [lia|exact Hvi].
  - destruct (0 <? wrap32 (T - fst tn)).
    + destruct (IH idx e) as (i & t & E & Hi & Hvi); try lia; auto; [exists tn; exact Hv|].
      exists i, t. split; [exact E|]. split; [lia|exact Hvi].
    + destruct (IH s idx) as (i & t & E & Hi & Hvi); try lia; auto; [exists tn; exact Hv|].
      exists i, t. split; [exact E|]. split; [lia|exact Hvi].
Qed.

Lemma binsearch_spec es T : forall f, bs_ok es T f.
Proof.
  induction f as [|f IH]; intros s e H0 Hse He Hvs Hve Hf; [lia|].
  cbn [binsearch].
  assert (Hq : s <= Z.quot (s + e) 2 <= e /\ (s < e -> Z.quot (s + e) 2 < e)) by lia.
  set (i0 := Z.quot (s + e) 2) in *.
  destruct (rd_total es i0) as [e0 He0]; [lia|]. rewrite He0.
  destruct e0 as [tn|].
  - apply bs_cont_ok; auto; lia.
  - assert (Hns : i0 <> s). { intros ->. destruct Hvs as [t Ht]. unfold vat in Ht. congruence. }
    assert (Hne : i0 <> e). { intros ->. destruct Hve as [t Ht]. unfold vat in Ht. congruence. }
    destruct (Z.eqb_spec s e); [lia|].
    unfold valid_idx. destruct (Z.eqb_spec i0 s); [contradiction|]. destruct (Z.eqb_spec i0 e); [contradiction|].
    unfold find_valid.
    pose proof (scan_up_spec es (fun _ => true) (lfuel es) i0 e ltac:(lia) He) as HU.
    rewrite lfuel_val in HU. specialize (HU ltac:(lia) (lfuel_pos es)). unfold scan_up_post in HU.
    destruct (scan_up _ _ _ _ _) as [[[j tnj]|]|c|]; try contradiction.
    2:{ destruct Hve as [t Ht]. specialize (HU e t ltac:(lia) Ht). discriminate. }
    destruct HU as (Hj & Hvj & _ & _). cbn [fbind].
    assert (j <> i0). { intros ->. unfold vat in Hvj. congruence. }
    destruct (Z.eqb_spec j e) as [->|Hje].
    + pose proof (scan_down_spec es (fun _ => true) (lfuel es) i0 s H0 ltac:(lia)) as HD.
      rewrite lfuel_val in HD. specialize (HD ltac:(lia) (lfuel_pos es)). unfold scan_down_post in HD.
      destruct (scan_down _ _ _ _ _) as [[[j2 tn2]|]|c|]; try contradiction.
      2:{ destruct Hvs as [t Ht]. specialize (HD s t ltac:(lia) Ht). discriminate. }
      destruct HD as (Hj2 & Hvj2 & _ & _). cbn [fbind].
      assert (j2 <> i0). { intros ->. unfold vat in Hvj2. congruence. }
      apply bs_cont_ok; auto; lia.
    + apply bs_cont_ok; auto; lia.
Qed.

Lemma bfuel_val es : Z.of_nat (bfuel es) = 2 * lenZ es + 2.
Proof. unfold bfuel, lenZ. lia. Qed.

Lemma binsearch_in_range_terminates es T s e :
  0 <= s -> s <= e -> e < lenZ es -> valid_at es s -> valid_at es e ->
  exists idx tn, binsearch (bfuel es) es s e T = FOk (idx, Some tn) /\ s <= idx <= e /\ vat es idx tn.
Proof.
  intros. apply binsearch_spec; auto. rewrite bfuel_val. lia.
Qed.

(* ---- FindRecordStartIdx = linear scan ---- *)
Definition find_res (o : option Z) : fr Z := match o with Some i => FOk i | None => FErr E_NOTFOUND end.

Lemma find_spec_no_valid es T name desc : (forall k tn, ~ vat es k tn) -> find_spec es T name desc = None.
Proof.
  intros Hno. unfold find_spec.
  assert (E : forall nm, last_idx (is_exact T nm) es 1 = None /\ first_idx (is_exact T nm) es 1 = None).
  { intros nm. apply spec_no_exact. intros k tn Hv. destruct (Hno _ _ Hv). }
  assert (L : last_idx (is_le T) es 1 = None) by (apply spec_no_le; intros k tn Hv; destruct (Hno _ _ Hv)).
  assert (G : first_idx (is_ge T) es 1 = None) by (apply spec_no_ge; intros k tn Hv; destruct (Hno _ _ Hv)).
  destruct desc, name as [nm|]; try rewrite (proj1 (E nm)); try rewrite (proj2 (E nm)); auto.
Qed.

Lemma ends_found es :
  (exists k tn, vat es k tn) ->
  exists ss tns ee tne,
    scan_up (lfuel es) es 0 (lenZ es - 1) (fun _ => true) = FOk (Some (ss, tns)) /\
    scan_down (lfuel es) es (lenZ es - 1) ss (fun _ => true) = FOk (Some (ee, tne)) /\
    bounds es ss ee /\ vat es ss tns /\ vat es ee tne.
Proof.
  intros (k & tnk & Hvk). pose proof (vat_range _ _ _ Hvk) as Hk.
  pose proof (scan_up_spec es (fun _ => true) (lfuel es) 0 (lenZ es - 1) ltac:(lia) ltac:(lia)) as HU.
  rewrite lfuel_val in HU. specialize (HU ltac:(lia) (lfuel_pos es)). unfold scan_up_post in HU.
  destruct (scan_up _ _ _ _ _) as [[[ss tns]|]|c|] eqn:EU; try contradiction.
  2:{ specialize (HU k tnk ltac:(lia) Hvk). discriminate. }
  destruct HU as (Hss & Hvs & _ & Hbelow).
  pose proof (scan_down_spec es (fun _ => true) (lfuel es) (lenZ es - 1) ss ltac:(lia) ltac:(lia)) as HD.
  rewrite lfuel_val in HD. specialize (HD ltac:(lia) (lfuel_pos es)). unfold scan_down_post in HD.
  destruct (scan_down _ _ _ _ _) as [[[ee tne]|]|c|] eqn:ED; try contradiction.
  2:{ specialize (HD ss tns ltac:(lia) Hvs). discriminate. }
  destruct HD as (Hee & Hve & _ & Habove).
  exists ss, tns, ee, tne. split; [reflexivity|]. split; [exact ED|]. split; [|split; assumption].
  unfold bounds. split; [lia|]. split; [lia|]. split; [lia|]. intros i tn H. pose proof (vat_range _ _ _ H). split.
  - destruct (Z_lt_le_dec i ss); [|lia]. specialize (Hbelow i tn ltac:(lia) H). discriminate.
  - destruct (Z_lt_le_dec ee i); [|lia]. specialize (Habove i tn ltac:(lia) H). discriminate.
Qed.

Lemma find_eq_scan es T name desc :
  sorted es -> names_unique es -> find es (lenZ es) T name desc = find_res (find_spec es T name desc).
Proof.
  intros Hs Hu.
  assert (Hdec : (exists k tn, vat es k tn) \/ (forall k tn, ~ vat es k tn)).
  { pose proof (scan_up_spec es (fun _ => true) (lfuel es) 0 (lenZ es - 1) ltac:(lia) ltac:(lia)) as HU.
    rewrite lfuel_val in HU. specialize (HU ltac:(lia) (lfuel_pos es)). unfold scan_up_post in HU.
    destruct (scan_up _ _ _ _ _) as [[[ss tns]|]|c|]; try contradiction.
    - left. exists ss, tns. tauto.
    - right. intros k tn Hv. pose proof (vat_range _ _ _ Hv). specialize (HU k tn ltac:(lia) Hv). discriminate. }
  destruct Hdec as [Hex|Hno].
  2:{ rewrite find_spec_no_valid by exact Hno. unfold find, find_valid.
      pose proof (scan_up_spec es (fun _ => true) (lfuel es) 0 (lenZ es - 1) ltac:(lia) ltac:(lia)) as HU.
      rewrite lfuel_val in HU. specialize (HU ltac:(lia) (lfuel_pos es)). unfold scan_up_post in HU.
      destruct (scan_up _ _ _ _ _) as [[[ss tns]|]|c|]; try contradiction; [|reflexivity].
      destruct HU as (_ & Hv & _). destruct (Hno _ _ Hv). }
  destruct (ends_found es Hex) as (ss & tns & ee & tne & EU & ED & HB & Hvs & Hve).
  unfold find, find_valid. rewrite EU, ED.
  pose proof HB as (B0 & B1 & B2 & Bv).
  destruct (binsearch_in_range_terminates es T ss ee B0 B1 B2 (ex_intro _ tns Hvs) (ex_intro _ tne Hve))
    as (idx & [t n] & EB & Hidx & Hv).
  rewrite EB.
  destruct ((T =? t) && match name with Some m => n =? m | None => false end) eqn:Eq.
  - destruct name as [nm|]; [|bool_to_prop; destruct Eq; discriminate].
    bool_to_prop. destruct Eq as [-> ->]. unfold find_spec.
    assert (Hothers : forall k tn', k <> idx -> vat es k tn' -> tn' <> (t, nm)).
    { intros k tn' Hk Hvk ->. apply Hk. exact (Hu _ _ _ Hvk Hv). }
    destruct desc.
    + rewrite (spec_last_exact es t nm idx Hv); [reflexivity|]. intros k tn' Hk. apply Hothers. lia.
    + rewrite (spec_first_exact es t nm idx Hv); [reflexivity|]. intros k tn' Hk. apply Hothers. lia.
  - destruct desc.
    + rewrite (post_desc_any_start es ss ee idx T name Hs HB Hidx).
      destruct (find_spec es T name true); cbn; [f_equal; lia|reflexivity].
    + rewrite (post_asc_any_start es ss ee idx T name Hs HB Hidx).
      destruct (find_spec es T name false); cbn; [f_equal; lia|reflexivity].
Qed.

(* the answer never is "did not return" *)
Corollary find_terminates es T name desc : sorted es -> names_unique es -> find es (lenZ es) T name desc <> FHang.
Proof. intros Hs Hu. rewrite find_eq_scan by assumption. destruct (find_spec es T name desc); discriminate. Qed.

(* ---- a cursor that names a present entry resolves to that entry, in both directions ---- *)
Lemma find_present es T nm i desc :
  sorted es -> names_unique es -> vat es i (T, nm) -> find es (lenZ es) T (Some nm) desc = FOk (i + 1).
Proof.
  intros Hs Hu Hv. rewrite find_eq_scan by assumption. unfold find_spec.
  assert (Hothers : forall k tn', k <> i -> vat es k tn' -> tn' <> (T, nm)).
  { intros k tn' Hk Hvk ->. apply Hk. exact (Hu _ _ _ Hvk Hv). }
  destruct desc.
  - rewrite (spec_last_exact es T nm i Hv); [reflexivity|]. intros k tn' Hk. apply Hothers. lia.
  - rewrite (spec_first_exact es T nm i Hv); [reflexivity|]. intros k tn' Hk. apply Hothers. lia.
Qed.

Lemma last_idx_sound p : forall es k i, last_idx p es k = Some i -> exists e, rd es (i - k) = FOk e /\ p e = true.
Proof.
  induction es as [|a es IH]; intros k i H; [discriminate|].
  cbn [last_idx] in H. destruct (last_idx p es (k + 1)) as [i'|] eqn:E.
  - inversion H; subst. destruct (IH _ _ E) as (e & Hrd & Hp). exists e. split; [|exact Hp].
    pose proof (rd_range _ _ _ Hrd). replace (i - k) with ((i - (k + 1)) + 1) by lia. rewrite rd_cons_S by lia. exact Hrd.
  - destruct (p a) eqn:Ep; [|discriminate]. inversion H; subst. exists a. rewrite Z.sub_diag. split; [reflexivity|exact Ep].
Qed.

(* GetRecord finds an article by file name exactly when an entry carries that name *)
Lemma getrecord_found es T nm i :
  sorted es -> names_unique es -> vat es i (T, nm) -> get_record es (lenZ es) T nm = FOk (i + 1).
Proof.
  intros Hs Hu Hv. unfold get_record. rewrite (find_present es T nm i true Hs Hu Hv). cbn [fbind].
  replace (i + 1 - 1) with i by lia. rewrite Hv. cbn [fbind]. rewrite !Z.eqb_refl. reflexivity.
Qed.

Lemma getrecord_absent es T nm :
  sorted es -> names_unique es -> (forall i, ~ vat es i (T, nm)) -> get_record es (lenZ es) T nm = FErr E_NOTFOUND.
Proof.
  intros Hs Hu Hno. unfold get_record. rewrite find_eq_scan by assumption. unfold find_spec.
  rewrite (proj1 (spec_no_exact es T nm ltac:(intros k tn Hv ->; exact (Hno _ Hv)))).
  destruct (last_idx (is_le T) es 1) as [i|] eqn:E; [|reflexivity].
  destruct (last_idx_sound _ _ _ _ E) as (e & Hrd & Hp). cbn [find_res fbind]. rewrite Hrd. cbn [fbind].
  destruct e as [[t n]|]; [|reflexivity].
  destruct ((t =? T) && (n =? nm)) eqn:Eq; [|reflexivity].
  bool_to_prop. destruct Eq as [-> ->]. destruct (Hno _ Hrd).
Qed.

(* ---- non-vacuity and the refutation ---- *)
Definition ex_file : list entry := [None; Some (10, 1); Some (10, 2); None; Some (12, 3); Some (15, 4); None].

Lemma rd_Some_nth es i tn : rd es i = FOk (Some tn) -> nth_error es (Z.to_nat i) = Some (Some tn).
Proof.
  unfold rd. destruct (i <? 0); [discriminate|]. destruct (nth_error es (Z.to_nat i)); [|discriminate]. intros H; inversion H; reflexivity.
Qed.

Lemma ex_file_vat i tn : vat ex_file i tn -> (i = 1 /\ tn = (10, 1)) \/ (i = 2 /\ tn = (10, 2)) \/ (i = 4 /\ tn = (12, 3)) \/ (i = 5 /\ tn = (15, 4)).
Proof.
  intros H. pose proof (vat_range _ _ _ H) as Hr. cbn in Hr. apply rd_Some_nth in H.
  assert (Hc : i = 0 \/ i = 1 \/ i = 2 \/ i = 3 \/ i = 4 \/ i = 5 \/ i = 6) by lia.
  destruct Hc as [->|[->|[->|[->|[->|[->| ->]]]]]]; cbn in H; try discriminate; inversion H; subst; tauto.
Qed.

Example ex_file_sorted : sorted ex_file.
Proof.
  intros i j ti tj Hij Hi Hj. apply ex_file_vat in Hi. apply ex_file_vat in Hj.
  destruct Hi as [[-> ->]|[[-> ->]|[[-> ->]| [-> ->]]]]; destruct Hj as [[-> ->]|[[-> ->]|[[-> ->]| [-> ->]]]]; cbn; lia.
Qed.
Example ex_file_unique : names_unique ex_file.
Proof.
  intros i j tn Hi Hj. apply ex_file_vat in Hi. apply ex_file_vat in Hj.
  destruct Hi as [[-> ->]|[[-> ->]|[[-> ->]| [-> ->]]]]; destruct Hj as [[-> E]|[[-> E]|[[-> E]| [-> E]]]]; try reflexivity; discriminate.
Qed.
Example ex_file_find :
  find ex_file 7 11 (Some 9) true = FOk 3 /\ find ex_file 7 11 (Some 9) false = FOk 5 /\
  find ex_file 7 5 None false = FOk 2 /\ find ex_file 7 10 (Some 1) true = FOk 2.
Proof. vm_compute. auto. Qed.
Example ex_file_walk : page_walk ex_file 4 true = FOk (0, 2, [7; 6; 5; 4; 3; 2; 1]).
Proof. vm_compute. reflexivity. Qed.

(* A page boundary on an unparsable (delete-marked) entry ends the walk: entries are never visited.
   File: one article, a deleted entry, another article; page size 1, newest first. *)
Lemma page_walk_refuted_deleted_boundary :
  exists es k desc, sorted es /\ names_unique es /\ (0 < k)%nat /\
    page_walk es k desc = FOk (E_ATOI, 1, [3]) /\ lenZ es = 3.
Proof.
  exists [Some (10, 1); None; Some (11, 2)], 1%nat, true.
  assert (V : forall i tn, vat [Some (10, 1); None; Some (11, 2)] i tn -> (i = 0 /\ tn = (10, 1)) \/ (i = 2 /\ tn = (11, 2))).
  { intros i tn H. pose proof (vat_range _ _ _ H) as Hr. cbn in Hr. apply rd_Some_nth in H.
    assert (Hc : i = 0 \/ i = 1 \/ i = 2) by lia.
    destruct Hc as [->|[->| ->]]; cbn in H; try discriminate; inversion H; subst; tauto. }
  split; [|split; [|split; [lia|split; [vm_compute; reflexivity|reflexivity]]]].
  - intros i j ti tj Hij Hi Hj. apply V in Hi. apply V in Hj.
    destruct Hi as [[-> ->]|[-> ->]]; destruct Hj as [[-> ->]|[-> ->]]; cbn; lia.
  - intros i j tn Hi Hj. apply V in Hi. apply V in Hj.
    destruct Hi as [[-> ->]|[-> ->]]; destruct Hj as [[-> E]|[-> E]]; try reflexivity; discriminate.
Qed.

(* ================= the whole page walk ================= *)
(* a, a+d, a+2d, ... (len terms) *)
(* [zseq d a len] = a, a+d, a+2d, ... (len terms) is defined in Model/C06.v *)
Definition up_from (a : Z) (len : nat) : list Z := zseq 1 a len.        (* [a; a+1; ...] *)
Definition down_from (a : Z) (len : nat) : list Z := zseq (-1) a len.   (* [a; a-1; ...] *)

(* number of pages of k entries that n entries fill *)
Definition ceil_div (n k : Z) : Z := (n + k - 1) / k.

(* the order in which a listing must visit the n positions (SortIdx, counted from 1) *)
Definition walk_order (es : list entry) (desc : bool) : list Z :=
  if desc then down_from (lenZ es) (length es) else up_from 1 (length es).

(* every entry whose cursor the walk has to take - the first entry of page 2, 3, ... in the listing direction -
   is parsable (0-based positions j*k ascending, n-1-j*k descending, for every j >= 1 inside the file) *)
Definition boundaries_parsable (es : list entry) (k : nat) (desc : bool) : Prop :=
  forall j, 1 <= j -> j * Z.of_nat k < lenZ es ->
    valid_at es (if desc then lenZ es - 1 - j * Z.of_nat k else j * Z.of_nat k).

Definition all_parsable (es : list entry) : Prop := forall i, 0 <= i < lenZ es -> valid_at es i.

Lemma zseq_length d : forall len a, length (zseq d a len) = len.
Proof. induction len as [|l IH]; intros a; [reflexivity|]. cbn [zseq length]. rewrite IH. reflexivity. Qed.

Lemma zseq_app d : forall p q a, zseq d a (p + q) = zseq d a p ++ zseq d (a + Z.of_nat p * d) q.
Proof.
  induction p as [|p IH]; intros q a.
  - cbn [plus zseq app]. replace (a + Z.of_nat 0 * d) with a by lia. reflexivity.
  - cbn [plus zseq app]. rewrite IH. replace (a + d + Z.of_nat p * d) with (a + Z.of_nat (S p) * d) by lia. reflexivity.
Qed.

Lemma zseq_firstn d : forall p q a, firstn p (zseq d a (p + q)) = zseq d a p.
Proof. induction p as [|p IH]; intros q a; [reflexivity|]. cbn [plus zseq firstn]. rewrite IH. reflexivity. Qed.

Lemma zseq_nth d : forall len a j, (j < len)%nat -> nth_error (zseq d a len) j = Some (a + Z.of_nat j * d).
Proof.
  induction len as [|l IH]; intros a j Hj; [lia|].
  destruct j as [|j]; cbn [zseq nth_error].
  - f_equal. lia.
  - rewrite IH by lia. f_equal. lia.
Qed.

Lemma zseq_In d : forall len a x, In x (zseq d a len) <-> exists j, 0 <= j < Z.of_nat len /\ x = a + j * d.
Proof.
  induction len as [|l IH]; intros a x; cbn [zseq In].
  - split; [tauto|]. intros (j & Hj & _). lia.
  - rewrite IH. split.
    + intros [<-|(j & Hj & ->)]; [exists 0; split; lia|exists (j + 1); split; lia].
    + intros (j & Hj & ->). destruct (Z.eq_dec j 0) as [->|Hne]; [left; lia|right; exists (j - 1); split; lia].
Qed.

Lemma zseq_NoDup d : d <> 0 -> forall len a, NoDup (zseq d a len).
Proof.
  intros Hd. induction len as [|l IH]; intros a; cbn [zseq]; constructor; [|apply IH].
  rewrite zseq_In. intros (j & Hj & E). assert (E' : (j + 1) * d = 0) by lia. apply Z.mul_eq_0 in E'. lia.
Qed.

(* ---- GetRecords, LoadGeneralArticles: closed forms ---- *)
(* [dir], [remn] (entries left in the listing direction, counting position idx itself), [getl], [tag]: Model/C06.v *)

Lemma map_fst_tag es l : map fst (map (tag es) l) = l.
Proof. rewrite map_map. cbn [tag fst]. apply map_id. Qed.

Lemma grl_closed es desc : forall c idx, 0 <= remn es desc idx <= lenZ es ->
  get_records_loop c es idx desc = map (tag es) (zseq (dir desc) idx (Nat.min c (Z.to_nat (remn es desc idx)))).
Proof.
  induction c as [|c IH]; intros idx Hr; [reflexivity|].
  cbn [get_records_loop].
  destruct ((idx =? 0) || (lenZ es <? idx)) eqn:E.
  - assert (H0 : remn es desc idx = 0) by (destruct desc; cbn [remn] in *; bool_to_prop; lia).
    rewrite H0. reflexivity.
  - bool_to_prop. destruct E as [E1 E2].
    destruct (rd_total es (idx - 1)) as [e He]; [destruct desc; cbn [remn] in *; lia|]. rewrite He.
    replace (Nat.min (S c) (Z.to_nat (remn es desc idx)))
      with (S (Nat.min c (Z.to_nat (remn es desc (idx + dir desc))))) by (destruct desc; cbn [remn dir] in *; lia).
    cbn [zseq map]. f_equal.
    + unfold tag, getl. rewrite He. reflexivity.
    + replace (if desc then idx - 1 else idx + 1) with (idx + dir desc) by (destruct desc; cbn [dir]; lia).
      apply IH. destruct desc; cbn [remn dir] in *; lia.
Qed.

Lemma load_page_start es k desc start : 1 <= remn es desc start <= lenZ es ->
  load_page es start k desc =
    fbind (FOk (get_records_loop (S k) es start desc)) (fun l =>
      if Nat.eqb (length l) (S k) then FOk (firstn k l, nth_error l k) else FOk (l, None)).
Proof.
  intros Hr. unfold load_page, get_records.
  destruct (Z.eqb_spec (lenZ es) 0) as [E|_]; [lia|].
  replace ((start =? 0) && desc) with false.
  2:{ destruct desc; cbn [remn] in Hr; [|rewrite andb_false_r; reflexivity]. destruct (Z.eqb_spec start 0); [lia|reflexivity]. }
  destruct (Z.ltb_spec start 1) as [E|_]; [destruct desc; cbn [remn] in Hr; lia|]. reflexivity.
Qed.

(* a page that is followed by another one: k entries and the entry after them as the cursor *)
Lemma load_page_full es k desc start :
  1 <= remn es desc start <= lenZ es -> Z.of_nat k < remn es desc start ->
  load_page es start k desc =
    FOk (map (tag es) (zseq (dir desc) start k), Some (tag es (start + Z.of_nat k * dir desc))).
Proof.
  intros Hr Hk. rewrite load_page_start by exact Hr. cbn [fbind].
  rewrite grl_closed by lia.
  replace (Nat.min (S k) (Z.to_nat (remn es desc start))) with (k + 1)%nat by lia.
  rewrite map_length, zseq_length. replace (k + 1)%nat with (S k) at 1 by lia. rewrite Nat.eqb_refl.
  rewrite firstn_map, zseq_firstn. do 2 f_equal.
  apply map_nth_error. apply zseq_nth. lia.
Qed.

(* the last page: what is left, no cursor *)
Lemma load_page_last es k desc start :
  1 <= remn es desc start <= lenZ es -> remn es desc start <= Z.of_nat k ->
  load_page es start k desc = FOk (map (tag es) (zseq (dir desc) start (Z.to_nat (remn es desc start))), None).
Proof.
  intros Hr Hk. rewrite load_page_start by exact Hr. cbn [fbind].
  rewrite grl_closed by lia.
  replace (Nat.min (S k) (Z.to_nat (remn es desc start))) with (Z.to_nat (remn es desc start)) by lia.
  rewrite map_length, zseq_length.
  destruct (Nat.eqb_spec (Z.to_nat (remn es desc start)) (S k)) as [E|_]; [lia|]. reflexivity.
Qed.

Lemma ceil_div_step r k : 0 < k -> ceil_div r k = 1 + ceil_div (r - k) k.
Proof.
  intros Hk. unfold ceil_div. replace (r + k - 1) with ((r - k + k - 1) + 1 * k) by lia.
  rewrite Z.div_add by lia. lia.
Qed.
Lemma ceil_div_one r k : 1 <= r <= k -> ceil_div r k = 1.
Proof.
  intros H. unfold ceil_div. replace (r + k - 1) with ((r - 1) + 1 * k) by lia.
  rewrite Z.div_add by lia. rewrite Z.div_small by lia. reflexivity.
Qed.
Lemma ceil_div_pos r k : 1 <= r -> 0 < k -> 1 <= ceil_div r k.
Proof.
  intros Hr Hk. unfold ceil_div. pose proof (Z.div_str_pos (r + k - 1) k ltac:(lia)). lia.
Qed.

Lemma walk_S f es k desc start pages acc :
  walk (S f) es k desc start pages acc =
    match load_page es start k desc with
    | FHang => FHang
    | FErr c => FOk (c, pages, acc)
    | FOk (items, next) =>
        let acc' := acc ++ map fst items in
        match next with
        | None => FOk (0, pages + 1, acc')
        | Some (_, None) => FOk (E_ATOI, pages + 1, acc')
        | Some (_, Some (t, nm)) =>
            match find es (lenZ es) t (Some nm) desc with
            | FOk i => walk f es k desc i (pages + 1) acc'
            | FErr c => FOk (c, pages + 1, acc')
            | FHang => FHang
            end
        end
    end.
Proof. reflexivity. Qed.

(* The walk from any position of the file whose remaining page boundaries are parsable: it serves the remaining
   entries in order, in ceil(remaining / k) further pages, and needs no more fuel than there are entries left. *)
Lemma walk_from es k desc : sorted es -> names_unique es -> (0 < k)%nat ->
  forall fuel start pages acc,
    1 <= remn es desc start <= lenZ es ->
    (forall j, 1 <= j -> j * Z.of_nat k < remn es desc start -> valid_at es (start + j * Z.of_nat k * dir desc - 1)) ->
    remn es desc start <= Z.of_nat fuel ->
    walk fuel es k desc start pages acc =
      FOk (0, pages + ceil_div (remn es desc start) (Z.of_nat k),
           acc ++ zseq (dir desc) start (Z.to_nat (remn es desc start))).
Proof.
  intros Hs Hu Hk. induction fuel as [|f IH]; intros start pages acc Hr Hb Hf; [lia|].
  rewrite walk_S.
  destruct (Z_lt_le_dec (Z.of_nat k) (remn es desc start)) as [Hlt|Hle].
  - rewrite (load_page_full es k desc start Hr Hlt).
    set (nxt := start + Z.of_nat k * dir desc).
    destruct (Hb 1 ltac:(lia) ltac:(lia)) as [[t nm] Hv].
    replace (start + 1 * Z.of_nat k * dir desc - 1) with (nxt - 1) in Hv by (unfold nxt; lia).
    assert (Eg : tag es nxt = (nxt, Some (t, nm))) by (unfold tag, getl; rewrite Hv; reflexivity).
    rewrite Eg. cbv zeta. cbv iota beta.
    rewrite (find_present es t nm (nxt - 1) desc Hs Hu Hv).
    replace (nxt - 1 + 1) with nxt by lia.
    assert (Er : remn es desc nxt = remn es desc start - Z.of_nat k) by (unfold nxt; destruct desc; cbn [remn dir]; lia).
    rewrite IH.
    + rewrite Er, map_fst_tag, <- app_assoc.
      rewrite (ceil_div_step (remn es desc start) (Z.of_nat k)) by lia.
      replace (Z.to_nat (remn es desc start)) with (k + Z.to_nat (remn es desc start - Z.of_nat k))%nat by lia.
      rewrite zseq_app. fold nxt. rewrite Z.add_assoc. reflexivity.
    + lia.
    + intros j Hj1 Hj2.
      replace (nxt + j * Z.of_nat k * dir desc - 1) with (start + (j + 1) * Z.of_nat k * dir desc - 1) by (unfold nxt; lia).
      apply Hb; lia.
    + lia.
  - rewrite (load_page_last es k desc start Hr Hle). cbv zeta. cbv iota beta.
    rewrite map_fst_tag, ceil_div_one by lia. reflexivity.
Qed.

(* THE PAGE WALK: following the next-cursor from the first page visits every position exactly once, in order,
   in ceil(n/k) pages (one page for an empty board), and ends normally - never out of fuel. *)
Theorem page_walk_complete es k desc :
  sorted es -> names_unique es -> (0 < k)%nat -> boundaries_parsable es k desc ->
  page_walk es k desc = FOk (0, Z.max 1 (ceil_div (lenZ es) (Z.of_nat k)), walk_order es desc).
Proof.
  intros Hs Hu Hk Hb. unfold page_walk, wfuel, walk_order.
  destruct (Z.eq_dec (lenZ es) 0) as [E0|Hn].
  - assert (es = []) by (apply length_zero_iff_nil; unfold lenZ in E0; lia). subst es.
    rewrite walk_S. cbn [load_page lenZ length Z.of_nat Z.eqb]. cbv zeta. cbv iota beta.
    cbn [map app Z.add length].
    assert (Ec : ceil_div 0 (Z.of_nat k) = 0) by (unfold ceil_div; apply Z.div_small; lia).
    cbn [lenZ length Z.of_nat]. rewrite Ec. destruct desc; reflexivity.
  - assert (Hpos : 1 <= lenZ es) by (unfold lenZ in *; lia).
    set (f := S (S (2 * length es))).
    assert (E : walk (S f) es k desc (if desc then 0 else 1) 0 [] = walk (S f) es k desc (if desc then lenZ es else 1) 0 []).
    { destruct desc; [|reflexivity]. rewrite !walk_S.
      assert (El : load_page es 0 k true = load_page es (lenZ es) k true).
      { unfold load_page. destruct (Z.eqb_spec (lenZ es) 0); [lia|]. cbn [Z.eqb andb].
        destruct (Z.eqb_spec (lenZ es) 0); [lia|]. reflexivity. }
      rewrite El. reflexivity. }
    rewrite E. clear E.
    assert (Er : remn es desc (if desc then lenZ es else 1) = lenZ es) by (destruct desc; cbn [remn]; lia).
    rewrite (walk_from es k desc Hs Hu Hk).
    + rewrite Er. rewrite Z.max_r by (apply ceil_div_pos; lia). cbn [app Z.add].
      replace (Z.to_nat (lenZ es)) with (length es) by (unfold lenZ; lia).
      destruct desc; reflexivity.
    + lia.
    + rewrite Er. intros j Hj1 Hj2. specialize (Hb j Hj1 Hj2).
      destruct desc; cbn [dir]; [replace (lenZ es + j * Z.of_nat k * -1 - 1) with (lenZ es - 1 - j * Z.of_nat k) by lia
                                |replace (1 + j * Z.of_nat k * 1 - 1) with (j * Z.of_nat k) by lia]; exact Hb.
    + rewrite Er. unfold f, lenZ. lia.
Qed.

(* "every entry exactly once": the visited list has no repetition and contains exactly the positions 1..n *)
Lemma walk_order_once es desc :
  NoDup (walk_order es desc) /\ (forall i, In i (walk_order es desc) <-> 1 <= i <= lenZ es) /\
  length (walk_order es desc) = length es.
Proof.
  unfold walk_order, up_from, down_from, lenZ. destruct desc.
  - split; [apply zseq_NoDup; lia|]. split; [|apply zseq_length].
    intros i. rewrite zseq_In. split; [intros (j & Hj & ->); lia|]. intros Hi. exists (Z.of_nat (length es) - i). lia.
  - split; [apply zseq_NoDup; lia|]. split; [|apply zseq_length].
    intros i. rewrite zseq_In. split; [intros (j & Hj & ->); lia|]. intros Hi. exists (i - 1). lia.
Qed.

Lemma all_parsable_boundaries es k desc : all_parsable es -> boundaries_parsable es k desc.
Proof. intros Ha j Hj1 Hj2. apply Ha. destruct desc; lia. Qed.

Corollary page_walk_all_valid es k desc :
  sorted es -> names_unique es -> (0 < k)%nat -> all_parsable es ->
  page_walk es k desc = FOk (0, Z.max 1 (ceil_div (lenZ es) (Z.of_nat k)), walk_order es desc).
Proof. intros Hs Hu Hk Ha. apply page_walk_complete; auto. apply all_parsable_boundaries. exact Ha. Qed.

(* ================= totality: no lookup ever fails to return, on any file, sorted or not ================= *)
Lemma rd_no_hang es i : rd es i <> FHang.
Proof. unfold rd. destruct (i <? 0); [discriminate|]. destruct (nth_error es (Z.to_nat i)); discriminate. Qed.

(* a loop that starts inside the file reads at most to the end of the file and one step beyond (read error) *)
Lemma scan_up_no_hang es p b : forall fuel idx,
  (0 < fuel)%nat -> (0 <= idx -> lenZ es - idx + 1 < Z.of_nat fuel) -> scan_up fuel es idx b p <> FHang.
Proof.
  induction fuel as [|f IH]; intros idx Hp Hf; [lia|].
  cbn [scan_up]. destruct (idx <=? b); [|discriminate].
  destruct (rd es idx) as [e|c|] eqn:E; [|discriminate|exact (fun _ => rd_no_hang _ _ E)].
  apply rd_range in E.
  assert (IHn : scan_up f es (idx + 1) b p <> FHang) by (apply IH; lia).
  destruct e as [tn|]; [destruct (p tn); [discriminate|exact IHn]|exact IHn].
Qed.

Lemma scan_down_no_hang es p b : forall fuel idx,
  (0 < fuel)%nat -> (idx < lenZ es -> idx + 2 < Z.of_nat fuel) -> scan_down fuel es idx b p <> FHang.
Proof.
  induction fuel as [|f IH]; intros idx Hp Hf; [lia|].
  cbn [scan_down]. destruct (b <=? idx); [|discriminate].
  destruct (rd es idx) as [e|c|] eqn:E; [|discriminate|exact (fun _ => rd_no_hang _ _ E)].
  apply rd_range in E.
  assert (IHn : scan_down f es (idx - 1) b p <> FHang) by (apply IH; lia).
  destruct e as [tn|]; [destruct (p tn); [discriminate|exact IHn]|exact IHn].
Qed.

Lemma scan_up_lfuel es p b idx : scan_up (lfuel es) es idx b p <> FHang.
Proof. apply scan_up_no_hang; [apply lfuel_pos|rewrite lfuel_val; lia]. Qed.
Lemma scan_down_lfuel es p b idx : scan_down (lfuel es) es idx b p <> FHang.
Proof. apply scan_down_no_hang; [apply lfuel_pos|rewrite lfuel_val; lia]. Qed.

Lemma find_valid_no_hang es idx desc s e : find_valid es idx desc s e <> FHang.
Proof.
  unfold find_valid. destruct desc.
  - pose proof (scan_down_lfuel es (fun _ => true) s idx) as H.
    destruct (scan_down _ _ _ _ _) as [[r|]|c|]; congruence.
  - pose proof (scan_up_lfuel es (fun _ => true) e idx) as H.
    destruct (scan_up _ _ _ _ _) as [[r|]|c|]; congruence.
Qed.

Lemma lin_down_no_hang es idx ss T name : lin_down es idx ss T name <> FHang.
Proof.
  unfold lin_down. pose proof (scan_down_lfuel es (fun tn => ((T =? fst tn) && name_eq name (snd tn)) || (fst tn <? T)) ss idx) as H.
  destruct (scan_down _ _ _ _ _) as [[[i [t n]]|]|c|]; try congruence.
  destruct ((T =? t) && name_eq name n); [discriminate|]. destruct name; discriminate.
Qed.
Lemma lin_up_no_hang es idx ee T name : lin_up es idx ee T name <> FHang.
Proof.
  unfold lin_up. pose proof (scan_up_lfuel es (fun tn => ((T =? fst tn) && name_eq name (snd tn)) || (T <? fst tn)) ee idx) as H.
  destruct (scan_up _ _ _ _ _) as [[[i [t n]]|]|c|]; try congruence.
  destruct ((T =? t) && name_eq name n); [discriminate|]. destruct name; discriminate.
Qed.

Lemma post_desc_no_hang es idx ss ee T name : post_desc es idx ss ee T name <> FHang.
Proof.
  unfold post_desc. pose proof (scan_up_lfuel es (fun tn => T <? fst tn) ee idx) as H.
  destruct (scan_up _ _ _ _ _) as [r|c|]; try congruence.
  set (i := match r with Some (i, _) => i | None => ee end).
  pose proof (lin_down_no_hang es i ss T name) as H1. pose proof (lin_down_no_hang es i ss T None) as H2.
  destruct (lin_down es i ss T name); congruence.
Qed.
Lemma post_asc_no_hang es idx ss ee T name : post_asc es idx ss ee T name <> FHang.
Proof.
  unfold post_asc. pose proof (scan_down_lfuel es (fun tn => fst tn <? T) ss idx) as H.
  destruct (scan_down _ _ _ _ _) as [r|c|]; try congruence.
  set (i := match r with Some (i, _) => i | None => ss end).
  pose proof (lin_up_no_hang es i ee T name) as H1. pose proof (lin_up_no_hang es i ee T None) as H2.
  destruct (lin_up es i ee T name); congruence.
Qed.

(* what a loop that found something has found - no assumption on the bounds *)
Lemma scan_up_sound es p b : forall fuel idx j tn,
  scan_up fuel es idx b p = FOk (Some (j, tn)) ->
  idx <= j <= b /\ vat es j tn /\ (forall i tn', idx <= i < j -> vat es i tn' -> p tn' = false).
Proof.
  induction fuel as [|f IH]; intros idx j tn H; [discriminate|].
  cbn [scan_up] in H. destruct (Z.leb_spec idx b) as [Hle|]; [|discriminate].
  assert (Hstep : scan_up f es (idx + 1) b p = FOk (Some (j, tn)) -> (forall tn', vat es idx tn' -> p tn' = false) ->
                  idx <= j <= b /\ vat es j tn /\ (forall i tn', idx <= i < j -> vat es i tn' -> p tn' = false)).
  { intros Hr Hidx. destruct (IH _ _ _ Hr) as (A & B & C). split; [lia|]. split; [exact B|].
    intros i tn' Hi Hvi. destruct (Z.eq_dec i idx) as [->|Hne]; [auto|]. apply (C i); [lia|exact Hvi]. }
  destruct (rd es idx) as [[tn0|]|c|] eqn:E; try discriminate.
  - destruct (p tn0) eqn:Ep.
    + inversion H; subst. split; [lia|]. split; [exact E|]. intros; lia.
    + apply Hstep; [exact H|]. intros tn' Hv. rewrite (vat_fun _ _ _ _ Hv E). exact Ep.
  - apply Hstep; [exact H|]. intros tn' Hv. unfold vat in Hv. congruence.
Qed.

Lemma scan_down_sound es p b : forall fuel idx j tn,
  scan_down fuel es idx b p = FOk (Some (j, tn)) -> b <= j <= idx /\ vat es j tn.
Proof.
  induction fuel as [|f IH]; intros idx j tn H; [discriminate|].
  cbn [scan_down] in H. destruct (Z.leb_spec b idx) as [Hle|]; [|discriminate].
  assert (Hstep : scan_down f es (idx - 1) b p = FOk (Some (j, tn)) -> b <= j <= idx /\ vat es j tn).
  { intros Hr. destruct (IH _ _ _ Hr) as (A & B). split; [lia|exact B]. }
  destruct (rd es idx) as [[tn0|]|c|] eqn:E; try discriminate.
  - destruct (p tn0); [|exact (Hstep H)]. inversion H; subst. split; [lia|exact E].
  - exact (Hstep H).
Qed.

Lemma binsearch_S f es s e T :
  binsearch (S f) es s e T =
    let idx := Z.quot (s + e) 2 in
    match rd es idx with
    | FErr c => FErr c
    | FHang => FHang
    | FOk (Some tn) => bs_cont (fun s' e' => binsearch f es s' e' T) T idx tn s e
    | FOk None =>
        if s =? e then FOk (idx, None)
        else match valid_idx es idx s e with
             | FOk (idx', tn, s', e') => bs_cont (fun s' e' => binsearch f es s' e' T) T idx' tn s' e'
             | FErr c => FErr c
             | FHang => FHang
             end
    end.
Proof. reflexivity. Qed.

(* FindRecordStartIdx does not look at the error of its second end search and then runs the binary search with
   end = -1 (reachable when the cached total exceeds the file, so that the read at total-1 fails): it stops within
   two rounds *)
Lemma binsearch_stale_no_hang es T ss tns f :
  vat es ss tns -> (forall i tn, 0 <= i < ss -> ~ vat es i tn) -> binsearch (S (S f)) es ss (-1) T <> FHang.
Proof.
  intros Hv Hfirst. pose proof (vat_range _ _ _ Hv) as Hr.
  rewrite binsearch_S. cbv zeta.
  destruct (Z.eq_dec ss 0) as [->|Hne].
  - change (Z.quot (0 + -1) 2) with 0. unfold vat in Hv. rewrite Hv. unfold bs_cont.
    destruct (wrap32 (T - fst tns) =? 0); [discriminate|].
    change (-1 =? 0) with false. change (0 =? 0) with true. cbv iota.
    rewrite binsearch_S. cbv zeta. change (Z.quot (-1 + -1) 2) with (-1). cbn [rd Z.ltb Z.compare]. discriminate.
  - assert (Hq : 0 <= Z.quot (ss + -1) 2 < ss) by lia.
    set (i0 := Z.quot (ss + -1) 2) in *.
    destruct (rd_total es i0) as [e0 He0]; [lia|]. rewrite He0.
    destruct e0 as [tn|]; [destruct (Hfirst i0 tn Hq He0)|].
    destruct (Z.eqb_spec ss (-1)); [lia|].
    unfold valid_idx. destruct (Z.eqb_spec i0 ss); [lia|]. destruct (Z.eqb_spec i0 (-1)); [lia|].
    unfold find_valid, lfuel. cbn [scan_up]. destruct (Z.leb_spec i0 (-1)); [lia|]. cbn [fbind]. discriminate.
Qed.

Lemma find_no_hang es total T name desc : find es total T name desc <> FHang.
Proof.
  unfold find.
  destruct (find_valid es 0 false 0 (total - 1)) as [[ss tns]|c|] eqn:E1;
    [|discriminate|exact (fun _ => find_valid_no_hang _ _ _ _ _ E1)].
  assert (Hss : 0 <= ss /\ vat es ss tns /\ (forall i tn, 0 <= i < ss -> ~ vat es i tn)).
  { unfold find_valid in E1.
    destruct (scan_up (lfuel es) es 0 (total - 1) (fun _ => true)) as [[[j tn]|]|c|] eqn:EU; try discriminate.
    inversion E1; subst. destruct (scan_up_sound _ _ _ _ _ _ _ EU) as (A & B & C).
    split; [lia|]. split; [exact B|]. intros i tn' Hi Hvi. specialize (C i tn' Hi Hvi). discriminate. }
  destruct Hss as (Hss0 & Hvs & Hfirst).
  assert (HB : forall ee, match find_valid es (total - 1) true ss (total - 1) with
                          | FOk (i, _) => FOk i | FErr _ => FOk (-1) | FHang => FHang end = FOk ee ->
                          binsearch (bfuel es) es ss ee T <> FHang).
  { intros ee Hee. destruct (find_valid es (total - 1) true ss (total - 1)) as [[i tne]|c|] eqn:E2; [| |discriminate].
    - inversion Hee; subst. unfold find_valid in E2.
      destruct (scan_down (lfuel es) es (total - 1) ss (fun _ => true)) as [[[j tn]|]|c|] eqn:ED; try discriminate.
      inversion E2; subst. destruct (scan_down_sound _ _ _ _ _ _ _ ED) as (A & B).
      pose proof (vat_range _ _ _ B) as Hr.
      destruct (binsearch_in_range_terminates es T ss ee Hss0 ltac:(lia) ltac:(lia) (ex_intro _ tns Hvs) (ex_intro _ tne B))
        as (idx & tn & EB & _). rewrite EB. discriminate.
    - inversion Hee; subst. unfold bfuel. apply (binsearch_stale_no_hang es T ss tns _ Hvs Hfirst). }
  destruct (match find_valid es (total - 1) true ss (total - 1) with
            | FOk (i, _) => FOk i | FErr _ => FOk (-1) | FHang => FHang end) as [ee|c|] eqn:E2.
  - specialize (HB ee eq_refl).
    destruct (binsearch (bfuel es) es ss ee T) as [[idx [[t n]|]]|c|]; [|discriminate|discriminate|congruence].
    destruct ((T =? t) && match name with Some m => n =? m | None => false end); [discriminate|].
    destruct desc.
    + pose proof (post_desc_no_hang es idx ss ee T name) as H. destruct (post_desc es idx ss ee T name); cbn [fbind]; congruence.
    + pose proof (post_asc_no_hang es idx ss ee T name) as H. destruct (post_asc es idx ss ee T name); cbn [fbind]; congruence.
  - discriminate.
  - destruct (find_valid es (total - 1) true ss (total - 1)) as [[i tne]|c|] eqn:E3; try discriminate.
    exact (fun _ => find_valid_no_hang _ _ _ _ _ E3).
Qed.

Lemma get_record_no_hang es total T nm : get_record es total T nm <> FHang.
Proof.
  unfold get_record. pose proof (find_no_hang es total T (Some nm) true) as H.
  destruct (find es total T (Some nm) true) as [idx|c|]; cbn [fbind]; [|discriminate|congruence].
  pose proof (rd_no_hang es (idx - 1)) as H1. destruct (rd es (idx - 1)) as [e|c|]; cbn [fbind]; [|discriminate|congruence].
  destruct e as [[t n]|]; [destruct ((t =? T) && (n =? nm))|]; discriminate.
Qed.

Lemma get_records_no_hang es start n desc : get_records es start n desc <> FHang.
Proof. unfold get_records. destruct (start <? 1); discriminate. Qed.

Theorem no_hang es total T name nm desc start n :
  find es total T name desc <> FHang /\ get_record es total T nm <> FHang /\ get_records es start n desc <> FHang.
Proof. split; [apply find_no_hang|]. split; [apply get_record_no_hang|apply get_records_no_hang]. Qed.

(* ---- non-vacuity of the page-walk theorem and of its hypotheses ---- *)
Example zseq_shapes : up_from 1 3 = [1; 2; 3] /\ down_from 3 3 = [3; 2; 1] /\ ceil_div 7 4 = 2 /\ ceil_div 8 4 = 2 /\ ceil_div 9 4 = 3.
Proof. vm_compute. auto. Qed.

(* ex_file has unparsable entries (positions 0, 3, 6) and two entries with the same creation time; with pages of 4
   the only page boundary falls on a parsable entry in both directions - descending on the second of the two
   equal-time entries, where only the name tells the cursor's entry from its neighbour *)
Example ex_file_boundaries : boundaries_parsable ex_file 4 true /\ boundaries_parsable ex_file 4 false.
Proof.
  split; intros j Hj1 Hj2; change (lenZ ex_file) with 7 in *; change (Z.of_nat 4) with 4 in *;
    assert (j = 1) by lia; subst j; cbn [Z.mul Z.sub Z.add Z.opp Z.pos_sub Pos.mul Pos.add Pos.pred_double].
  - exists (10, 2). reflexivity.
  - exists (12, 3). reflexivity.
Qed.
Example ex_file_walk_complete :
  page_walk ex_file 4 true = FOk (0, 2, [7; 6; 5; 4; 3; 2; 1]) /\ page_walk ex_file 4 false = FOk (0, 2, [1; 2; 3; 4; 5; 6; 7]).
Proof.
  split.
  - exact (page_walk_complete ex_file 4 true ex_file_sorted ex_file_unique ltac:(lia) (proj1 ex_file_boundaries)).
  - exact (page_walk_complete ex_file 4 false ex_file_sorted ex_file_unique ltac:(lia) (proj2 ex_file_boundaries)).
Qed.

(* the hypothesis is exactly what the refuted walk lacks: in [article; deleted; article], pages of 1, newest
   first, the second page would have to start on the deleted entry *)
Example refuted_file_boundary : ~ boundaries_parsable [Some (10, 1); None; Some (11, 2)] 1 true.
Proof. intros H. destruct (H 1 ltac:(lia) ltac:(cbn; lia)) as [tn Hv]. cbn in Hv. discriminate. Qed.

(* a file without unparsable entries, two of them at the same time: every page size, both directions *)
Definition ex_valid_file : list entry := [Some (10, 1); Some (10, 2); Some (12, 3)].
Lemma ex_valid_file_vat i tn : vat ex_valid_file i tn -> (i = 0 /\ tn = (10, 1)) \/ (i = 1 /\ tn = (10, 2)) \/ (i = 2 /\ tn = (12, 3)).
Proof.
  intros H. pose proof (vat_range _ _ _ H) as Hr. cbn in Hr. apply rd_Some_nth in H.
  assert (Hc : i = 0 \/ i = 1 \/ i = 2) by lia.
  destruct Hc as [->|[->| ->]]; cbn in H; inversion H; subst; tauto.
Qed.
Example ex_valid_file_ok : sorted ex_valid_file /\ names_unique ex_valid_file /\ all_parsable ex_valid_file.
Proof.
  split; [|split].
  - intros i j ti tj Hij Hi Hj. apply ex_valid_file_vat in Hi. apply ex_valid_file_vat in Hj.
    destruct Hi as [[-> ->]|[[-> ->]|[-> ->]]]; destruct Hj as [[-> ->]|[[-> ->]|[-> ->]]]; cbn; lia.
  - intros i j tn Hi Hj. apply ex_valid_file_vat in Hi. apply ex_valid_file_vat in Hj.
    destruct Hi as [[-> ->]|[[-> ->]|[-> ->]]]; destruct Hj as [[-> E]|[[-> E]|[-> E]]]; try reflexivity; discriminate.
  - intros i Hi. change (lenZ ex_valid_file) with 3 in Hi.
    assert (Hc : i = 0 \/ i = 1 \/ i = 2) by lia.
    destruct Hc as [->|[->| ->]]; eexists; reflexivity.
Qed.
Example ex_valid_file_walks : forall k desc, (0 < k)%nat ->
  page_walk ex_valid_file k desc = FOk (0, Z.max 1 (ceil_div 3 (Z.of_nat k)), if desc then [3; 2; 1] else [1; 2; 3]).
Proof.
  intros k desc Hk. destruct ex_valid_file_ok as (Hs & Hu & Ha).
  rewrite (page_walk_all_valid ex_valid_file k desc Hs Hu Hk Ha). destruct desc; reflexivity.
Qed.

(* names_unique cannot be dropped: with three entries carrying the same file name the cursor of the second page
   resolves to an entry already served and the walk never ends (sorted and all parsable, yet out of fuel) *)
Example walk_needs_unique_names :
  let es := [Some (10, 1); Some (10, 1); Some (10, 1)] in
  all_parsable es /\ ~ names_unique es /\ page_walk es 1 false = FHang.
Proof.
  cbv zeta. split; [|split].
  - intros i Hi. change (lenZ [Some (10, 1); Some (10, 1); Some (10, 1)]) with 3 in Hi.
    assert (Hc : i = 0 \/ i = 1 \/ i = 2) by lia.
    destruct Hc as [->|[->| ->]]; eexists; reflexivity.
  - intros Hu. specialize (Hu 0 1 (10, 1) eq_refl eq_refl). discriminate.
  - vm_compute. reflexivity.
Qed.

(* totality on inputs outside every other theorem: an unsorted file, and a cached total beyond the file (the
   second end search fails, its error is dropped, the binary search runs with end = -1) *)
Example no_hang_instances :
  find [Some (12, 1); Some (10, 2); None; Some (11, 3)] 4 11 (Some 3) false = FOk 4 /\
  find [None; Some (10, 1)] 5 10 None true = FErr E_NOTFOUND /\
  find [Some (10, 1)] 5 12 None true = FErr E_SEEK.
Proof. vm_compute. auto. Qed.

(* ---- without the hypothesis on page boundaries: the walk still ends, on a prefix of the order ---- *)
Lemma getl_some es i tn : getl es i = Some tn -> vat es (i - 1) tn.
Proof. unfold getl, vat. destruct (rd es (i - 1)) as [e|c|]; try discriminate. intros ->. reflexivity. Qed.

Lemma walk_from_any es k desc : sorted es -> names_unique es -> (0 < k)%nat ->
  forall fuel start pages acc,
    1 <= remn es desc start <= lenZ es -> remn es desc start <= Z.of_nat fuel ->
    exists code pg m,
      walk fuel es k desc start pages acc = FOk (code, pg, acc ++ zseq (dir desc) start m) /\
      ((code = 0 /\ m = Z.to_nat (remn es desc start)) \/ (code = E_ATOI /\ (m < Z.to_nat (remn es desc start))%nat)).
Proof.
  intros Hs Hu Hk. induction fuel as [|f IH]; intros start pages acc Hr Hf; [lia|].
  rewrite walk_S.
  destruct (Z_lt_le_dec (Z.of_nat k) (remn es desc start)) as [Hlt|Hle].
  - rewrite (load_page_full es k desc start Hr Hlt).
    set (nxt := start + Z.of_nat k * dir desc).
    assert (Er : remn es desc nxt = remn es desc start - Z.of_nat k) by (unfold nxt; destruct desc; cbn [remn dir]; lia).
    unfold tag at 2. destruct (getl es nxt) as [[t nm]|] eqn:Eg; cbv zeta; cbv iota beta; rewrite map_fst_tag.
    + apply getl_some in Eg. rewrite (find_present es t nm (nxt - 1) desc Hs Hu Eg).
      replace (nxt - 1 + 1) with nxt by lia.
      destruct (IH nxt (pages + 1) (acc ++ zseq (dir desc) start k) ltac:(lia) ltac:(lia)) as (code & pg & m & E & Hc).
      exists code, pg, (k + m)%nat. rewrite E, <- app_assoc, zseq_app. fold nxt. split; [reflexivity|].
      rewrite Er in Hc. destruct Hc as [[-> ->]|[-> Hm]]; [left|right]; split; try reflexivity; lia.
    + exists E_ATOI, (pages + 1), k. split; [reflexivity|]. right. split; [reflexivity|lia].
  - rewrite (load_page_last es k desc start Hr Hle). cbv zeta. cbv iota beta. rewrite map_fst_tag.
    exists 0, (pages + 1), (Z.to_nat (remn es desc start)). split; [reflexivity|]. left. split; reflexivity.
Qed.

Lemma zseq_firstn_le d a m len : (m <= len)%nat -> firstn m (zseq d a len) = zseq d a m.
Proof. intros H. replace len with (m + (len - m))%nat by lia. apply zseq_firstn. Qed.

(* Every walk over a sorted file with unique names ends: either normally after all n positions, or with the
   strconv error of an unparsable page-boundary entry after a proper prefix of them - never out of fuel, never any
   other error, never a position twice or out of order. *)
Theorem page_walk_terminates es k desc :
  sorted es -> names_unique es -> (0 < k)%nat ->
  exists code pg m,
    page_walk es k desc = FOk (code, pg, firstn m (walk_order es desc)) /\
    ((code = 0 /\ m = length es) \/ (code = E_ATOI /\ (m < length es)%nat)).
Proof.
  intros Hs Hu Hk. unfold page_walk, wfuel.
  destruct (Z.eq_dec (lenZ es) 0) as [E0|Hn].
  - assert (es = []) by (apply length_zero_iff_nil; unfold lenZ in E0; lia). subst es.
    exists 0, 1, 0%nat. split; [|left; split; reflexivity]. destruct desc; reflexivity.
  - assert (Hpos : 1 <= lenZ es) by (unfold lenZ in *; lia).
    set (f := S (S (2 * length es))).
    assert (E : walk (S f) es k desc (if desc then 0 else 1) 0 [] = walk (S f) es k desc (if desc then lenZ es else 1) 0 []).
    { destruct desc; [|reflexivity]. rewrite !walk_S.
      assert (El : load_page es 0 k true = load_page es (lenZ es) k true).
      { unfold load_page. destruct (Z.eqb_spec (lenZ es) 0); [lia|]. cbn [Z.eqb andb].
        destruct (Z.eqb_spec (lenZ es) 0); [lia|]. reflexivity. }
      rewrite El. reflexivity. }
    rewrite E. clear E.
    assert (Er : remn es desc (if desc then lenZ es else 1) = lenZ es) by (destruct desc; cbn [remn]; lia).
    destruct (walk_from_any es k desc Hs Hu Hk (S f) (if desc then lenZ es else 1) 0 [] ltac:(lia) ltac:(rewrite Er; unfold f, lenZ; lia))
      as (code & pg & m & E & Hc).
    rewrite Er in Hc. replace (Z.to_nat (lenZ es)) with (length es) in Hc by (unfold lenZ; lia).
    exists code, pg, m. split; [|exact Hc]. rewrite E. cbn [app]. do 2 f_equal.
    unfold walk_order, up_from, down_from. destruct desc; cbn [dir]; rewrite zseq_firstn_le by lia; reflexivity.
Qed.

Example refuted_file_terminates :
  page_walk [Some (10, 1); None; Some (11, 2)] 1 true = FOk (E_ATOI, 1, firstn 1 (walk_order [Some (10, 1); None; Some (11, 2)] true)).
Proof. vm_compute. reflexivity. Qed.

(* ================= bbs.LoadGeneralArticles as one call: client-supplied and stale cursors ================= *)

Lemma first_idx_sound p : forall es k i, first_idx p es k = Some i -> exists e, rd es (i - k) = FOk e /\ p e = true.
Proof.
  induction es as [|a es IH]; intros k i H; [discriminate|].
  cbn [first_idx] in H. destruct (p a) eqn:Ep.
  - inversion H; subst. exists a. rewrite Z.sub_diag. split; [reflexivity|exact Ep].
  - destruct (IH _ _ H) as (e & Hrd & Hp). exists e. split; [|exact Hp].
    pose proof (rd_range _ _ _ Hrd). replace (i - k) with ((i - (k + 1)) + 1) by lia. rewrite rd_cons_S by lia. exact Hrd.
Qed.

Lemma find_spec_range es T name desc s : find_spec es T name desc = Some s -> 1 <= s <= lenZ es.
Proof.
  assert (HL : forall p, last_idx p es 1 = Some s -> 1 <= s <= lenZ es).
  { intros p E. destruct (last_idx_sound _ _ _ _ E) as (e & Hrd & _). apply rd_range in Hrd. lia. }
  assert (HF : forall p, first_idx p es 1 = Some s -> 1 <= s <= lenZ es).
  { intros p E. destruct (first_idx_sound _ _ _ _ E) as (e & Hrd & _). apply rd_range in Hrd. lia. }
  unfold find_spec. intros H.
  destruct desc, name as [nm|].
  - destruct (last_idx (is_exact T nm) es 1) eqn:E; [inversion H; subst; eauto|eauto].
  - eauto.
  - destruct (first_idx (is_exact T nm) es 1) eqn:E; [inversion H; subst; eauto|eauto].
  - eauto.
Qed.

Lemma load_page_of es s k desc : 1 <= s <= lenZ es -> load_page es s k desc = FOk (page_of es s k desc).
Proof.
  intros Hs. assert (Hr : 1 <= remn es desc s <= lenZ es) by (destruct desc; cbn [remn]; lia).
  unfold page_of. destruct (Z.ltb_spec (Z.of_nat k) (remn es desc s)) as [Hlt|Hle].
  - apply load_page_full; assumption.
  - apply load_page_last; assumption.
Qed.

Lemma load_page_zero es k : lenZ es <> 0 -> load_page es 0 k true = load_page es (lenZ es) k true.
Proof.
  intros Hn. unfold load_page. destruct (Z.eqb_spec (lenZ es) 0); [lia|]. cbn [Z.eqb andb].
  destruct (Z.eqb_spec (lenZ es) 0); [lia|]. reflexivity.
Qed.

(* one bbs.LoadGeneralArticles call = the linear-scan page, for every file, every cursor, both directions, every page size *)
Theorem bbs_page_eq_scan es cur k desc :
  sorted es -> names_unique es -> bbs_page es cur k desc = bbs_page_spec es cur k desc.
Proof.
  intros Hs Hu. unfold bbs_page, bbs_page_spec, bbs_start.
  destruct cur as [[T nm]|].
  - destruct (Z.eqb_spec (lenZ es) 0) as [E0|Hn]; [reflexivity|].
    rewrite find_eq_scan by assumption.
    destruct (find_spec es T (Some nm) desc) as [s|] eqn:E; [|reflexivity].
    cbn [find_res fbind]. apply load_page_of. exact (find_spec_range _ _ _ _ _ E).
  - cbn [fbind]. destruct (Z.eqb_spec (lenZ es) 0) as [E0|Hn].
    + unfold load_page. rewrite E0. reflexivity.
    + assert (1 <= lenZ es) by (unfold lenZ in *; lia).
      destruct desc; [rewrite load_page_zero by exact Hn|]; apply load_page_of; lia.
Qed.

(* a cursor with no entry in the listing direction ends the listing: NOT FOUND, never a page *)
Theorem bbs_cursor_out_of_range (es : list entry) (T nm : Z) (k : nat) (desc : bool) :
  sorted es -> names_unique es -> es <> [] ->
  (forall i tn, vat es i tn -> if desc then T < fst tn else fst tn < T) ->
  bbs_page es (Some (T, nm)) k desc = FErr E_NOTFOUND.
Proof.
  intros Hs Hu Hne Hout. rewrite bbs_page_eq_scan by assumption. unfold bbs_page_spec.
  destruct (Z.eqb_spec (lenZ es) 0) as [E0|Hn].
  { destruct es; [congruence|]. unfold lenZ in E0. cbn in E0. lia. }
  assert (Hex : forall k0 tn, vat es k0 tn -> tn <> (T, nm)).
  { intros k0 tn Hv ->. specialize (Hout _ _ Hv). cbn in Hout. destruct desc; lia. }
  unfold find_spec. destruct (spec_no_exact es T nm Hex) as [EL EF].
  destruct desc.
  - rewrite EL, spec_no_le; [reflexivity|]. intros k0 tn Hv. exact (Hout _ _ Hv).
  - rewrite EF, spec_no_ge; [reflexivity|]. intros k0 tn Hv. exact (Hout _ _ Hv).
Qed.

(* ---- stale cursors: the index changes between two pages ---- *)
(* creation times strictly increase along the parsable entries (no two articles of the same second) *)
Definition times_strict (es : list entry) : Prop :=
  forall i j ti tj, i < j -> vat es i ti -> vat es j tj -> fst ti < fst tj.
(* es' is es after any number of deletions: same length, an entry is either unchanged or unparsable now *)
Definition deletions (es es' : list entry) : Prop :=
  lenZ es' = lenZ es /\ forall j tn, vat es' j tn -> vat es j tn.

Lemma strict_sorted es : times_strict es -> sorted es.
Proof.
  intros H i j ti tj Hij Hi Hj. destruct (Z.eq_dec i j) as [->|Hne].
  - rewrite (vat_fun _ _ _ _ Hi Hj). lia.
  - specialize (H i j ti tj ltac:(lia) Hi Hj). lia.
Qed.
Lemma strict_unique es : times_strict es -> names_unique es.
Proof.
  intros H i j tn Hi Hj. destruct (Z.lt_trichotomy i j) as [Hlt|[Heq|Hgt]]; [|exact Heq|].
  - specialize (H i j tn tn Hlt Hi Hj). lia.
  - specialize (H j i tn tn Hgt Hj Hi). lia.
Qed.
Lemma deletions_strict es es' : times_strict es -> deletions es es' -> times_strict es'.
Proof. intros H [_ Hd] i j ti tj Hij Hi Hj. exact (H i j ti tj Hij (Hd _ _ Hi) (Hd _ _ Hj)). Qed.
Lemma deletions_refl es : deletions es es.
Proof. split; auto. Qed.

(* r is (the 1-based position of) the nearest parsable entry of es from 0-based position i in the listing direction,
   i itself included; NOT FOUND when there is none *)
Definition nearest_live (es : list entry) (desc : bool) (i : Z) (r : fr Z) : Prop :=
  (exists j tn, (if desc then j <= i else i <= j) /\ vat es j tn /\
     (forall j' tn', (if desc then j < j' <= i else i <= j' < j) -> ~ vat es j' tn') /\ r = FOk (j + 1)) \/
  ((forall j tn, (if desc then j <= i else i <= j) -> ~ vat es j tn) /\ r = FErr E_NOTFOUND).

Lemma stale_cursor_bookmark es es' i T nm desc :
  times_strict es -> deletions es es' -> vat es i (T, nm) ->
  nearest_live es' desc i (find es' (lenZ es') T (Some nm) desc).
Proof.
  intros Hst Hd Hv. pose proof (deletions_strict _ _ Hst Hd) as Hst'.
  pose proof (strict_sorted _ Hst') as Hs'. pose proof (strict_unique _ Hst') as Hu'.
  destruct Hd as [Hlen Hd]. pose proof (vat_range _ _ _ Hv) as Hi. rewrite <- Hlen in Hi.
  rewrite find_eq_scan by assumption. unfold find_spec, nearest_live.
  (* where the cursor's own entry can be in es' *)
  assert (Hat : forall k tn, vat es' k tn -> (k < i /\ fst tn < T) \/ (k = i /\ tn = (T, nm)) \/ (i < k /\ T < fst tn)).
  { intros k tn Hk. pose proof (Hd _ _ Hk) as Hk0. destruct (Z.lt_trichotomy k i) as [Hlt|[->|Hgt]].
    - left. split; [exact Hlt|]. exact (Hst k i tn (T, nm) Hlt Hk0 Hv).
    - right; left. split; [reflexivity|]. exact (vat_fun _ _ _ _ Hk0 Hv).
    - right; right. split; [exact Hgt|]. exact (Hst i k (T, nm) tn Hgt Hv Hk0). }
  destruct desc.
  - pose proof (scan_down_spec es' (fun _ => true) (lfuel es') i 0 ltac:(lia) ltac:(lia)) as HD.
    rewrite lfuel_val in HD. specialize (HD ltac:(lia) (lfuel_pos es')). unfold scan_down_post in HD.
    destruct (scan_down _ _ _ _ _) as [[[j tn]|]|c|]; try contradiction.
    + destruct HD as (Hj & Hvj & _ & Hbetween). left. exists j, tn. split; [lia|]. split; [exact Hvj|].
      split; [intros j' tn' Hj' Hv'; specialize (Hbetween j' tn' Hj' Hv'); discriminate|].
      destruct (Hat _ _ Hvj) as [[Hlt Ht]|[[-> ->]|[Hgt _]]]; [| |lia].
      * assert (Hno : forall k tn', vat es' k tn' -> tn' <> (T, nm)).
        { intros k tn' Hk ->. destruct (Hat _ _ Hk) as [[_ H]|[[-> _]|[_ H]]]; [cbn in H; lia| |cbn in H; lia].
          specialize (Hbetween i (T, nm) ltac:(lia) Hk). discriminate. }
        rewrite (proj1 (spec_no_exact es' T nm Hno)).
        rewrite (spec_last_le es' T j tn Hvj ltac:(lia)); [reflexivity|].
        intros k tn' Hk Hvk. destruct (Hat _ _ Hvk) as [[Hk' _]|[[-> _]|[_ H]]]; [| |exact H].
        -- specialize (Hbetween k tn' ltac:(lia) Hvk). discriminate.
        -- specialize (Hbetween i tn' ltac:(lia) Hvk). discriminate.
      * rewrite (spec_last_exact es' T nm i Hvj); [reflexivity|].
        intros k tn' Hk Hvk ->. destruct (Hat _ _ Hvk) as [[H _]|[[H _]|[_ H]]]; cbn in H; lia.
    + right. split; [intros j tn Hj Hvj; pose proof (vat_range _ _ _ Hvj); specialize (HD j tn ltac:(lia) Hvj); discriminate|].
      assert (Hno : forall k tn', vat es' k tn' -> tn' <> (T, nm)).
      { intros k tn' Hk ->. destruct (Hat _ _ Hk) as [[_ H]|[[-> _]|[_ H]]]; [cbn in H; lia| |cbn in H; lia].
        specialize (HD i (T, nm) ltac:(lia) Hk). discriminate. }
      rewrite (proj1 (spec_no_exact es' T nm Hno)). rewrite spec_no_le; [reflexivity|].
      intros k tn' Hvk. pose proof (vat_range _ _ _ Hvk) as Hrk. destruct (Hat _ _ Hvk) as [[Hk' _]|[[-> _]|[_ H]]]; [| |exact H].
      * specialize (HD k tn' ltac:(lia) Hvk). discriminate.
      * specialize (HD i tn' ltac:(lia) Hvk). discriminate.
  - pose proof (scan_up_spec es' (fun _ => true) (lfuel es') i (lenZ es' - 1) ltac:(lia) ltac:(lia)) as HU.
    rewrite lfuel_val in HU. specialize (HU ltac:(lia) (lfuel_pos es')). unfold scan_up_post in HU.
    destruct (scan_up _ _ _ _ _) as [[[j tn]|]|c|]; try contradiction.
    + destruct HU as (Hj & Hvj & _ & Hbetween). left. exists j, tn. split; [lia|]. split; [exact Hvj|].
      split; [intros j' tn' Hj' Hv'; specialize (Hbetween j' tn' Hj' Hv'); discriminate|].
      destruct (Hat _ _ Hvj) as [[Hlt _]|[[-> ->]|[Hgt Ht]]]; [lia| |].
      * rewrite (spec_first_exact es' T nm i Hvj); [reflexivity|].
        intros k tn' Hk Hvk ->. destruct (Hat _ _ Hvk) as [[_ H]|[[H _]|[H _]]]; cbn in H; lia.
      * assert (Hno : forall k tn', vat es' k tn' -> tn' <> (T, nm)).
        { intros k tn' Hk ->. destruct (Hat _ _ Hk) as [[_ H]|[[-> _]|[_ H]]]; [cbn in H; lia| |cbn in H; lia].
          specialize (Hbetween i (T, nm) ltac:(lia) Hk). discriminate. }
        rewrite (proj2 (spec_no_exact es' T nm Hno)).
        rewrite (spec_first_ge es' T j tn Hvj ltac:(lia)); [reflexivity|].
        intros k tn' Hk Hvk. destruct (Hat _ _ Hvk) as [[_ H]|[[-> _]|[Hk' _]]]; [exact H| |].
        -- specialize (Hbetween i tn' ltac:(lia) Hvk). discriminate.
        -- specialize (Hbetween k tn' ltac:(lia) Hvk). discriminate.
    + right. split; [intros j tn Hj Hvj; pose proof (vat_range _ _ _ Hvj); specialize (HU j tn ltac:(lia) Hvj); discriminate|].
      assert (Hno : forall k tn', vat es' k tn' -> tn' <> (T, nm)).
      { intros k tn' Hk ->. destruct (Hat _ _ Hk) as [[_ H]|[[-> _]|[_ H]]]; [cbn in H; lia| |cbn in H; lia].
        specialize (HU i (T, nm) ltac:(lia) Hk). discriminate. }
      rewrite (proj2 (spec_no_exact es' T nm Hno)). rewrite spec_no_ge; [reflexivity|].
      intros k tn' Hvk. pose proof (vat_range _ _ _ Hvk) as Hrk. destruct (Hat _ _ Hvk) as [[_ H]|[[-> _]|[Hk' _]]]; [exact H| |].
      * specialize (HU i tn' ltac:(lia) Hvk). discriminate.
      * specialize (HU k tn' ltac:(lia) Hvk). discriminate.
Qed.

Lemma bwalk_S f es k desc cur pg dels vis tr :
  bwalk (S f) es k desc cur pg dels vis tr =
    let es' := apply_dels es pg dels in
    match bbs_page es' cur k desc with
    | FHang => FHang
    | FErr c => FOk (c, pg, vis, tr)
    | FOk (items, next) =>
        let vis' := vis ++ map fst items in
        let tr' := tr ++ page_wire (items, next) in
        match next with
        | None => FOk (0, pg + 1, vis', tr')
        | Some (_, None) => FOk (E_ATOI, pg + 1, vis', tr')
        | Some (_, Some tn) => bwalk f es' k desc (Some tn) (pg + 1) dels vis' tr'
        end
    end.
Proof. reflexivity. Qed.

(* the bbs walk on a file that no longer changes, from any cursor that resolves to [start]: positions start, start+-1, ...
   in order, each once, to the end of the file or to an unparsable page boundary *)
Lemma bwalk_from es k desc : sorted es -> names_unique es -> (0 < k)%nat ->
  forall fuel cur start pg vis tr,
    bbs_page es cur k desc = load_page es start k desc ->
    1 <= remn es desc start <= lenZ es -> remn es desc start <= Z.of_nat fuel ->
    exists code pg' m tr',
      bwalk fuel es k desc cur pg [] vis tr = FOk (code, pg', vis ++ zseq (dir desc) start m, tr') /\
      ((code = 0 /\ m = Z.to_nat (remn es desc start)) \/ (code = E_ATOI /\ (m < Z.to_nat (remn es desc start))%nat)).
Proof.
  intros Hs Hu Hk. induction fuel as [|f IH]; intros cur start pg vis tr Hpage Hr Hf; [lia|].
  rewrite bwalk_S. cbn [apply_dels fold_left]. cbv zeta. rewrite Hpage.
  destruct (Z_lt_le_dec (Z.of_nat k) (remn es desc start)) as [Hlt|Hle].
  - rewrite (load_page_full es k desc start Hr Hlt).
    set (nxt := start + Z.of_nat k * dir desc).
    assert (Er : remn es desc nxt = remn es desc start - Z.of_nat k) by (unfold nxt; destruct desc; cbn [remn dir]; lia).
    change (tag es nxt) with (nxt, getl es nxt). destruct (getl es nxt) as [[t nm]|] eqn:Eg; cbv zeta; cbv iota beta; rewrite map_fst_tag.
    + apply getl_some in Eg.
      assert (Hnext : bbs_page es (Some (t, nm)) k desc = load_page es nxt k desc).
      { unfold bbs_page, bbs_start. destruct (Z.eqb_spec (lenZ es) 0) as [E0|_]; [lia|].
        rewrite (find_present es t nm (nxt - 1) desc Hs Hu Eg). cbn [fbind]. f_equal. lia. }
      match goal with |- context [bwalk f es k desc (Some (t, nm)) (pg + 1) [] ?v ?w] =>
        destruct (IH (Some (t, nm)) nxt (pg + 1) v w Hnext ltac:(lia) ltac:(lia)) as (code & pg' & m & tr' & E & Hc) end.
      exists code, pg', (k + m)%nat, tr'. rewrite E, <- app_assoc, zseq_app. fold nxt. split; [reflexivity|].
      rewrite Er in Hc. destruct Hc as [[-> ->]|[-> Hm]]; [left|right]; split; try reflexivity; lia.
    + eexists E_ATOI, (pg + 1), k, _. split; [reflexivity|]. right. split; [reflexivity|lia].
  - rewrite (load_page_last es k desc start Hr Hle). cbv zeta. cbv iota beta. rewrite map_fst_tag.
    eexists 0, (pg + 1), (Z.to_nat (remn es desc start)), _. split; [reflexivity|]. left. split; reflexivity.
Qed.

(* THE RESUMED WALK.  A cursor (T, nm) was handed out for the entry at 0-based position i of es; by the time the next page
   is requested the file is es' (any deletions).  Then the rest of the walk lists the positions from the nearest surviving
   entry at or after i in the listing direction to the end of the file (or to an unparsable page boundary), each once, in
   order - nothing before that entry is listed again; and if no entry survives in that direction the walk ends at once
   with NOT FOUND, having listed nothing more. *)
Theorem walk_resumes_after_deletions (es es' : list entry) (i T nm : Z) (k : nat) (desc : bool) (pg : Z) (vis tr : list Z) :
  times_strict es -> deletions es es' -> vat es i (T, nm) -> (0 < k)%nat ->
  (exists j tn, (if desc then j <= i else i <= j) /\ vat es' j tn /\
     (forall j' tn', (if desc then j < j' <= i else i <= j' < j) -> ~ vat es' j' tn') /\
     exists code pg' m tr',
       bwalk (bwfuel es') es' k desc (Some (T, nm)) pg [] vis tr = FOk (code, pg', vis ++ zseq (dir desc) (j + 1) m, tr') /\
       ((code = 0 /\ m = Z.to_nat (remn es' desc (j + 1))) \/ (code = E_ATOI /\ (m < Z.to_nat (remn es' desc (j + 1)))%nat))) \/
  ((forall j tn, (if desc then j <= i else i <= j) -> ~ vat es' j tn) /\
   bwalk (bwfuel es') es' k desc (Some (T, nm)) pg [] vis tr = FOk (E_NOTFOUND, pg, vis, tr)).
Proof.
  intros Hst Hd Hv Hk.
  pose proof (deletions_strict _ _ Hst Hd) as Hst'.
  pose proof (strict_sorted _ Hst') as Hs'. pose proof (strict_unique _ Hst') as Hu'.
  pose proof (vat_range _ _ _ Hv) as Hi. destruct Hd as [Hlen Hd0]. assert (Hd : deletions es es') by (split; assumption).
  assert (Hn : lenZ es' <> 0) by lia.
  assert (Hpage : bbs_page es' (Some (T, nm)) k desc = fbind (find es' (lenZ es') T (Some nm) desc) (fun s => load_page es' s k desc)).
  { unfold bbs_page, bbs_start. destruct (Z.eqb_spec (lenZ es') 0); [lia|reflexivity]. }
  destruct (stale_cursor_bookmark es es' i T nm desc Hst Hd Hv) as [(j & tn & Hj & Hvj & Hbt & E)|[Hnone E]].
  - left. exists j, tn. split; [exact Hj|]. split; [exact Hvj|]. split; [exact Hbt|].
    pose proof (vat_range _ _ _ Hvj) as Hrj.
    apply (bwalk_from es' k desc Hs' Hu' Hk).
    + rewrite Hpage, E. reflexivity.
    + destruct desc; cbn [remn]; lia.
    + unfold bwfuel. destruct desc; cbn [remn]; unfold lenZ in *; lia.
  - right. split; [exact Hnone|]. unfold bwfuel. rewrite bwalk_S. cbn [apply_dels fold_left]. cbv zeta.
    rewrite Hpage, E. reflexivity.
Qed.

(* ---- non-vacuity and what the hypotheses exclude ---- *)
Definition ex_strict : list entry := [Some (10, 1); None; Some (12, 2); Some (15, 3); Some (17, 4)].
Lemma ex_strict_vat i tn : vat ex_strict i tn -> (i = 0 /\ tn = (10, 1)) \/ (i = 2 /\ tn = (12, 2)) \/ (i = 3 /\ tn = (15, 3)) \/ (i = 4 /\ tn = (17, 4)).
Proof.
  intros H. pose proof (vat_range _ _ _ H) as R. change (lenZ ex_strict) with 5 in R.
  assert (C : i = 0 \/ i = 1 \/ i = 2 \/ i = 3 \/ i = 4) by lia.
  destruct C as [->|[->|[->|[->| ->]]]]; cbv in H; inversion H; auto.
Qed.
Example ex_strict_ok : times_strict ex_strict /\ deletions ex_strict (delete_at ex_strict 0) /\ vat ex_strict 0 (10, 1).
Proof.
  split; [|split; [split; [reflexivity|]|reflexivity]].
  - intros i j ti tj Hij Hi Hj. apply ex_strict_vat in Hi, Hj.
    destruct Hi as [[-> ->]|[[-> ->]|[[-> ->]|[-> ->]]]], Hj as [[-> ->]|[[-> ->]|[[-> ->]|[-> ->]]]]; cbn; lia.
  - intros j tn H. pose proof (vat_range _ _ _ H) as R. change (lenZ (delete_at ex_strict 0)) with 5 in R.
    assert (C : j = 0 \/ j = 1 \/ j = 2 \/ j = 3 \/ j = 4) by lia.
    destruct C as [->|[->|[->|[->| ->]]]]; cbv in H; inversion H; reflexivity.
Qed.
(* the seeded behaviour in the model's terms: newest first, page size 2, the oldest article - the cursor of page 3 - is
   deleted after page 2: the listing ends with NOT FOUND after 17, 15, 12, (unparsable); it does not start over *)
Example ex_strict_walk_deleted_oldest :
  bbs_walk ex_strict 2 true [(2, 0)] = FOk (E_NOTFOUND, 2, [5; 4; 3; 2], [2; 5; 12; 2; 2; 3; 10; 1]) /\
  bbs_page (delete_at ex_strict 0) (Some (10, 1)) 2 true = FErr E_NOTFOUND /\
  bbs_page ex_strict (Some (18, 9)) 2 false = FErr E_NOTFOUND /\
  bbs_page ex_strict (Some (13, 9)) 2 true = FOk ([(3, Some (12, 2)); (2, None)], Some (1, Some (10, 1))).
Proof. vm_compute. repeat split. Qed.
(* [times_strict] cannot be dropped from the bookmark: with two articles of one second the scan by creation time goes back
   to the far end of that second - position 3, which the descending walk has already listed, is listed again *)
Example stale_cursor_equal_times_goes_back :
  let es := [Some (10, 1); Some (12, 2); Some (12, 3); Some (15, 4)] in
  sorted es /\ vat es 1 (12, 2) /\ find (delete_at es 1) 4 12 (Some 2) true = FOk 3.
Proof.
  cbv zeta. split; [|split; [reflexivity|vm_compute; reflexivity]].
  intros i j ti tj Hij Hi Hj.
  pose proof (vat_range _ _ _ Hi) as Ri. pose proof (vat_range _ _ _ Hj) as Rj. change (lenZ _) with 4 in Ri, Rj.
  assert (Ci : i = 0 \/ i = 1 \/ i = 2 \/ i = 3) by lia. assert (Cj : j = 0 \/ j = 1 \/ j = 2 \/ j = 3) by lia.
  destruct Ci as [->|[->|[->| ->]]], Cj as [->|[->|[->| ->]]]; cbv in Hi, Hj; inversion Hi; inversion Hj; subst; cbn; lia.
Qed.

(* ---- GetRecords returns the records themselves, for every count ---- *)
(* cmsys.GetRecords(start, n, desc) from a position inside the file: min(n, what is left in the listing direction)
   summaries, the j-th of which is (position start +- j, the record stored at that position) - for EVERY n, also one that
   spans several read blocks: a summary handed out earlier is not changed by reading further *)
Theorem getrecords_eq_scan es start n desc : 1 <= start <= lenZ es ->
  get_records es start n desc =
    FOk (map (tag es) (zseq (dir desc) start (Nat.min n (Z.to_nat (remn es desc start))))).
Proof.
  intros Hs. unfold get_records.
  destruct (Z.ltb_spec start 1) as [E|_]; [lia|].
  rewrite grl_closed by (destruct desc; cbn [remn]; lia). reflexivity.
Qed.

Example getrecords_two_blocks :
  let es := map (fun i => Some (i / 3, i)) (zseq 1 0 300) in
  get_records es 1 150 false = FOk (map (fun i => (i + 1, Some (i / 3, i))) (zseq 1 0 150)) /\
  get_records es 300 150 true = FOk (map (fun i => (i + 1, Some (i / 3, i))) (zseq (-1) 299 150)).
Proof. vm_compute. split; reflexivity. Qed.

(* ---- the site configuration is not an input of lookup and paging ---- *)
Lemma config_independent sd op rest : 2 <= sd <= 8 ->
  run_case ([20; sd; op] :: rest) = run_case ([op] :: rest).
Proof.
  intros Hsd. unfold run_case. cbn [env_split Z.eqb andb Pos.eqb]. unfold run_cfg. cbn [cfg_split]. rewrite Z.eqb_refl.
  replace ((2 <=? sd) && (sd <=? 8)) with true; [reflexivity|].
  symmetry. apply andb_true_iff. split; apply Z.leb_le; lia.
Qed.

Example config_independent_instance :
  run_case [[20; 8; 2]; [1607190000; 291; 1607203395; 3948]; [2; 1607213395; 3948]] = [ST_ERR; E_NOTFOUND] /\
  run_case [[20; 8; 2]; [1607190000; 291; 1607203395; 3948]; [2; 1607203395; 3948]] = [ST_OK; 2] /\
  run_case [[20; 8; 21]; [8; 1607203395; 3948; 1607213395; 3948]] = [ST_OK; 0].
Proof. vm_compute. repeat split. Qed.

(* ---- first access: the article count computed from the size of the index file ---- *)
Lemma btotal_of_fsize es slack : 0 <= slack < REC_SZ -> btotal_of_size (fsize es slack) = lenZ es.
Proof.
  unfold btotal_of_size, fsize, REC_SZ. intros H.
  assert (L : 0 <= lenZ es) by (unfold lenZ; lia). lia.
Qed.

Lemma bbs_page_at_len es cur k desc : bbs_page_at es (lenZ es) cur k desc = bbs_page es cur k desc.
Proof.
  unfold bbs_page_at, bbs_page, bbs_start.
  destruct (lenZ es =? 0) eqn:E0.
  - destruct cur as [[T nm]|]; [reflexivity|]. cbn [fbind]. unfold load_page. rewrite E0. reflexivity.
  - destruct cur as [[T nm]|]; [reflexivity|]. cbn [fbind]. unfold load_page. rewrite E0.
    destruct desc; [|reflexivity]. rewrite E0. cbn [andb Z.eqb]. reflexivity.
Qed.

Lemma first_access_page_eq_scan es slack cur k desc : 0 <= slack < REC_SZ -> sorted es -> names_unique es ->
  bbs_page_first es slack cur k desc = bbs_page_spec es cur k desc.
Proof.
  intros Hs Hso Hu. unfold bbs_page_first. rewrite btotal_of_fsize by exact Hs.
  rewrite bbs_page_at_len. apply bbs_page_eq_scan; assumption.
Qed.

(* a count that is NOT the number of records (e.g. the size of something else divided by 128) loses entries:
   two records, count 0 - the listing is empty although the scan finds both *)
Example first_access_wrong_size_loses :
  bbs_page_at [Some (5, 1); Some (7, 2)] (btotal_of_size 8) None 2 true = FOk ([], None) /\
  bbs_page_spec [Some (5, 1); Some (7, 2)] None 2 true = FOk ([(2, Some (7, 2)); (1, Some (5, 1))], None) /\
  bbs_page_first [Some (5, 1); Some (7, 2)] 127 None 2 true = FOk ([(2, Some (7, 2)); (1, Some (5, 1))], None).
Proof. vm_compute. repeat split. Qed.

(* ---- path layout and overlapping operations are not inputs of the model ---- *)
Lemma env_independent c v op rest : (c = 30 /\ 0 <= v <= 4 /\ op <> 7) \/ (c = 31 /\ 1 <= v <= 4) ->
  run_case ([c; v; op] :: rest) = run_case ([op] :: rest).
Proof.
  intros [[-> [Hv Hop]]|[-> Hv]]; unfold run_case; cbn [env_split Z.eqb andb Pos.eqb].
  - replace ((0 <=? v) && (v <=? 4)) with true by (symmetry; apply andb_true_iff; split; apply Z.leb_le; lia).
    unfold run_cfg. cbn [cfg_split]. unfold run_first.
    destruct op as [|q|q]; try reflexivity.
    destruct q as [q|q|]; try reflexivity. destruct q as [q|q|]; try reflexivity. destruct q as [q|q|]; try reflexivity.
    exfalso; apply Hop; reflexivity.
  - replace ((1 <=? v) && (v <=? 4)) with true by (symmetry; apply andb_true_iff; split; apply Z.leb_le; lia).
    unfold run_cfg. cbn [cfg_split]. reflexivity.
Qed.

Lemma first_access_case es hascur T nm k desc v : 0 <= v <= 4 ->
  sorted (entries_of_wire es) -> names_unique (entries_of_wire es) ->
  run_case [[30; v; 7]; es; [hascur; T; nm; k; desc]] = run_case [[9]; es; [hascur; T; nm; k; desc]].
Proof.
  intros Hv Hso Hu. unfold run_case. cbn [env_split Z.eqb andb Pos.eqb].
  replace ((0 <=? v) && (v <=? 4)) with true by (symmetry; apply andb_true_iff; split; apply Z.leb_le; lia).
  unfold run_cfg. cbn [cfg_split run_first run_base].
  rewrite first_access_page_eq_scan; [reflexivity|unfold REC_SZ; lia|assumption|assumption].
Qed.

Example env_instance :
  run_case [[30; 1; 7]; [1607190000; 291; 1607203395; 3948]; [0; 0; 0; 5; 1]] = [ST_OK; 2; 2; -1; 0] /\
  run_case [[31; 1; 2]; [1607190000; 291; 1607203395; 3948]; [2; 1607203395; 3948]] = [ST_OK; 2].
Proof. vm_compute. repeat split. Qed.
