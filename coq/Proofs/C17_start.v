(* C17 — the whole start-up (Model/C17.v: post_config, run_starts): the time zone is loaded before the tables,
   table paths may be symbolic links. Every history of such start-ups is a history of initBig5() calls
   (Proofs/C17_init.v) — the attempts refused for the time zone do not count. *)
From Coq Require Import FMapPositive.
From Verif Require Import Base.Common Gen.Big5Tab Model.C17 Proofs.C17_main Proofs.C17_init.

Local Strategy expand [b2u_map u2b_map].

(* the initBig5() calls a history of start-ups makes *)
Fixpoint eff (h : list attempt) : list (bool * bool) :=
  match h with
  | [] => []
  | a :: r => if at_tz a then attempt_paths a :: eff r else eff r
  end.

Definition after_starts (h : list attempt) : tabs := snd (run_starts h no_tabs).

Lemma run_starts_cons a h t :
  run_starts (a :: h) t =
  (fst (post_config a t) :: fst (run_starts h (snd (post_config a t))), snd (run_starts h (snd (post_config a t)))).
Proof. cbn [run_starts]. destruct (post_config a t) as [ok t1]. cbn [fst snd]. destruct (run_starts h t1). reflexivity. Qed.

Lemma run_starts_eff h : forall t, snd (run_starts h t) = snd (run_inits (eff h) t).
Proof.
  induction h as [|a h IH]; intros t; [reflexivity|].
  rewrite run_starts_cons. cbn [snd eff]. unfold post_config.
  destruct (at_tz a).
  - rewrite run_inits_cons. cbn [snd]. apply IH.
  - cbn [snd]. apply IH.
Qed.

Lemma after_starts_eff h : after_starts h = after (eff h).
Proof. apply run_starts_eff. Qed.

(* a start-up whose time zone does not load is refused and touches nothing *)
Lemma start_refused_without_time_zone a t : at_tz a = false -> post_config a t = (false, t).
Proof. intros E. unfold post_config. rewrite E. reflexivity. Qed.

(* a start-up that returns nil had a time zone and leaves both tables loaded, whatever the attempts before it were *)
Lemma start_success_loads_both h a :
  fst (post_config a (after_starts h)) = true ->
  at_tz a = true /\ snd (post_config a (after_starts h)) = all_tabs.
Proof.
  unfold post_config. destruct (at_tz a) eqn:Z.
  - intros E. split; [reflexivity|]. rewrite after_starts_eff in *. exact (init_success_loads_both _ _ E).
  - cbn [fst]. intros E. discriminate E.
Qed.

(* links: a link behaves as what it points to, at any depth *)
Fixpoint links (k : nat) (n : node) : node := match k with O => n | S k' => NLink (links k' n) end.
Lemma links_readable k n : node_readable (links k n) = node_readable n.
Proof. induction k as [|k IH]; [reflexivity | exact IH]. Qed.

Lemma start_links_transparent tz k1 k2 n1 n2 t :
  post_config (mk_attempt tz (links k1 n1) (links k2 n2)) t = post_config (mk_attempt tz n1 n2) t.
Proof. unfold post_config, attempt_paths. cbn [at_tz at_b2u at_u2b]. rewrite !links_readable. reflexivity. Qed.

(* with a loadable time zone and both paths leading (through any number of links) to the table files the start-up returns nil *)
Lemma start_with_links_succeeds h k1 k2 :
  fst (post_config (mk_attempt true (links k1 NFile) (links k2 NFile)) (after_starts h)) = true.
Proof.
  rewrite start_links_transparent. unfold post_config, attempt_paths. cbn [at_tz at_b2u at_u2b node_readable].
  rewrite after_starts_eff. apply init_retry_succeeds.
Qed.

(* after a start-up that returned nil the converters are the table-exact ones *)
Lemma post_start_converters h a : fst (post_config a (after_starts h)) = true ->
  forall s, big5_to_utf8_of (tb (snd (post_config a (after_starts h)))) s = big5_to_utf8 s /\
            utf8_to_big5_of (tu (snd (post_config a (after_starts h)))) s = utf8_to_big5 s.
Proof.
  intros E s. destruct (start_success_loads_both h a E) as [_ T]. rewrite T. cbn [tb tu all_tabs].
  split; [apply b2u_of_loaded | apply u2b_of_loaded].
Qed.

(* in every state such histories reach both conversions return *)
Lemma any_start_state_total h s :
  (exists o, big5_to_utf8_of (tb (after_starts h)) s = Ok o /\ (2 * length o <= 3 * length s)%nat) /\
  (exists o, utf8_to_big5_of (tu (after_starts h)) s = Ok o /\ (length o <= 2 * length s)%nat).
Proof. rewrite after_starts_eff. apply any_state_total. Qed.

(* non-vacuity: a refused start-up (no time zone, good paths) leaves a new process empty; the retry through two links loads both *)
Example start_examples :
  fst (run_starts [mk_attempt false NFile NFile; mk_attempt true (NLink NFile) (NLink (NLink NFile))] no_tabs) = [false; true] /\
  fst (run_starts [mk_attempt true (NLink NMissing) NFile; mk_attempt true NFile (NLink NDir)] no_tabs) = [false; false] /\
  after_starts [mk_attempt false NFile NFile] = no_tabs.
Proof. vm_compute. repeat split; reflexivity. Qed.
