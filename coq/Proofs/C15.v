From Verif Require Import Base.Common Model.C15.
From Verif Require Export Proofs.C15_sweep.
From Coq Require Import Arith PeanoNat.

(* ------------------------------------------------------------------ small facts *)

Lemma updf_same {A} (f : nat -> A) k v : updf f k v k = v.
Proof. unfold updf. rewrite Nat.eqb_refl. reflexivity. Qed.
Lemma updf_other {A} (f : nat -> A) k v x : x <> k -> updf f k v x = f x.
Proof. unfold updf. intros H. destruct (Nat.eqb_spec x k); congruence. Qed.

Lemma eqbl_spec a : forall b, eqbl a b = true <-> a = b.
Proof.
  induction a as [|x a IH]; intros [|y b]; cbn; split; intros H; try reflexivity; try discriminate.
  - apply andb_true_iff in H. destruct H as [H1 H2]. apply Z.eqb_eq in H1. apply IH in H2. congruence.
  - inversion H; subst. rewrite Z.eqb_refl. cbn. apply IH. reflexivity.
Qed.

Lemma ci_eqb_key a b : ci_eqb a b = true <-> key a = key b.
Proof. unfold ci_eqb. apply eqbl_spec. Qed.

Lemma key_nil a : key a = [] -> a = [].
Proof. destruct a; [reflexivity|discriminate]. Qed.

Lemma exists_id_false n tab id : exists_id n tab id = false ->
  forall k, (k < n)%nat -> key (tab k) <> key id.
Proof.
  unfold exists_id. intros H k Hk E.
  assert (Ht : existsb (fun k => ci_eqb (tab k) id) (seq 0 n) = true).
  { apply existsb_exists. exists k. split; [apply in_seq; lia|apply ci_eqb_key; exact E]. }
  congruence.
Qed.

Lemma find_empty_some n tab k : find_empty n tab = Some k -> (k < n)%nat /\ tab k = [].
Proof.
  unfold find_empty. intros H. apply find_some in H. destruct H as [Hin He].
  apply in_seq in Hin. split; [lia|]. destruct (tab k); [reflexivity|discriminate].
Qed.

Lemma find_empty_none n tab : find_empty n tab = None -> forall k, (k < n)%nat -> tab k <> [].
Proof.
  unfold find_empty. intros H k Hk E.
  assert (Hin : In k (seq 0 n)) by (apply in_seq; lia).
  pose proof (find_none _ _ H k Hin) as Hn. cbv beta in Hn. rewrite E in Hn. discriminate.
Qed.

(* ------------------------------------------------------------------ classification of program counters *)

Definition holder (p : pc) : bool :=
  match p with PRecheck | PFind | PSetID _ | PWrite _ | PUnlock _ | PUnlockErr _ => true | _ => false end.
Definition owned (p : pc) : option nat :=
  match p with PWrite k | PUnlock k | PDoneOk k | PDeadW k | PDeadOk k => Some k | _ => None end.
(* the index holds the id, the .PASSWDS record is not written (yet / and never will be) *)
Definition writing (p : pc) : option nat :=
  match p with PWrite k | PDeadW k => Some k | _ => None end.
Definition dead (p : pc) : bool :=
  match p with PDead | PDeadW _ | PDeadOk _ => true | _ => false end.
Definition finished (p : pc) : bool :=
  match p with PDoneOk _ | PDoneErr _ => true | _ => false end.
Definition passed (p : pc) : bool :=
  match p with PFind | PSetID _ => true | _ => false end.

Section Registrations.
Variable c : cfg.
Variable init : nat -> list Z.
Hypothesis Hids : forall t, uid c t <> [].          (* a registered id is never empty *)

Record Inv (s : st) : Prop := {
  I_sem : forall t, sem s = Some t <-> holder (pcs s t) = true;
  I_own : forall t k, owned (pcs s t) = Some k -> (k < nslots c)%nat /\ idx s k = uid c t /\ init k = [];
  I_set : forall t k, pcs s t = PSetID k -> (k < nslots c)%nat /\ idx s k = [] /\ init k = [];
  I_one : forall t t' k, owned (pcs s t) = Some k -> owned (pcs s t') = Some k -> t = t';
  I_frame : forall k, (exists t, owned (pcs s t) = Some k) \/ idx s k = init k;
  I_pwd : forall k, (forall t, writing (pcs s t) <> Some k) -> pwd s k = idx s k;
  I_cnt : semv s = match sem s with None => 1%nat | Some _ => 0%nat end;    (* the counter: 1 = free, 0 = taken, never more *)
  I_adj : forall p, adj s p = match sem s with Some h => if Nat.eqb (proc c h) p then 1 else 0 | None => 0 end
                                                                            (* SEM_UNDO: 1 for the process inside, else 0 *)
}.

Lemma init_inv : Inv (init_st init).
Proof.
  constructor; cbn; intros; try discriminate; try tauto; try (split; discriminate); try reflexivity.
Qed.

Lemma holder_unique s t t' : Inv s -> holder (pcs s t) = true -> holder (pcs s t') = true -> t = t'.
Proof. intros I H H'. apply (I_sem s I) in H. apply (I_sem s I) in H'. congruence. Qed.

Ltac upd t0 t :=
  destruct (Nat.eq_dec t0 t) as [->|?];
  [rewrite ?updf_same in * | rewrite ?updf_other in * by assumption].

(* any change of the program counters (of one thread or of many at once: a process going away) that keeps what each
   thread owns and is in the middle of writing, puts nobody new at PSetID and leaves the tables alone *)
Lemma pcs_change_inv s pcs' sm sv ad :
  Inv s ->
  (forall t, owned (pcs' t) = owned (pcs s t)) ->
  (forall t, writing (pcs' t) = writing (pcs s t)) ->
  (forall t k, pcs' t = PSetID k -> (k < nslots c)%nat /\ idx s k = [] /\ init k = []) ->
  (forall t0, sm = Some t0 <-> holder (pcs' t0) = true) ->
  sv = match sm with None => 1%nat | Some _ => 0%nat end ->
  (forall q, ad q = match sm with Some h => if Nat.eqb (proc c h) q then 1 else 0 | None => 0 end) ->
  Inv (mkSt pcs' sm sv (idx s) (pwd s) ad).
Proof.
  intros I Ho Hw Hs Hsem Hsv Had. constructor; cbn [pcs sem semv idx pwd adj].
  - exact Hsem.
  - intros t0 k. rewrite Ho. apply (I_own s I).
  - exact Hs.
  - intros t0 t1 k. rewrite !Ho. apply (I_one s I).
  - intros k. destruct (I_frame s I k) as [[t0 H0]|H0]; [left|right; exact H0].
    exists t0. rewrite Ho. exact H0.
  - intros k Hk. apply (I_pwd s I). intros t0. rewrite <- Hw. apply Hk.
  - exact Hsv.
  - exact Had.
Qed.

(* a step that only moves thread t between program counters with the same [owned] and [writing] values *)
Lemma pc_only_inv s t p sm sv ad :
  Inv s ->
  owned p = owned (pcs s t) ->
  writing p = writing (pcs s t) ->
  (forall k, p = PSetID k -> (k < nslots c)%nat /\ idx s k = [] /\ init k = []) ->
  (forall t0, sm = Some t0 <-> holder (updf (pcs s) t p t0) = true) ->
  sv = match sm with None => 1%nat | Some _ => 0%nat end ->
  (forall q, ad q = match sm with Some h => if Nat.eqb (proc c h) q then 1 else 0 | None => 0 end) ->
  Inv (mkSt (updf (pcs s) t p) sm sv (idx s) (pwd s) ad).
Proof.
  intros I Ho Hw Hs Hsem Hsv Had. apply pcs_change_inv; try assumption.
  - intros t0. upd t0 t; [exact Ho|reflexivity].
  - intros t0. upd t0 t; [exact Hw|reflexivity].
  - intros t0 k. upd t0 t; [apply Hs|apply (I_set s I)].
Qed.

Lemma kill_owned p : owned (kill p) = owned p.
Proof. destruct p; reflexivity. Qed.
Lemma kill_writing p : writing (kill p) = writing p.
Proof. destruct p; reflexivity. Qed.
Lemma kill_holder p : holder (kill p) = false.
Proof. destruct p; reflexivity. Qed.
Lemma kill_not_setid p k : kill p <> PSetID k.
Proof. destruct p; discriminate. Qed.
Lemma kill_passed p : passed (kill p) = false.
Proof. destruct p; reflexivity. Qed.

Lemma sem_keep s t p : Inv s -> holder p = holder (pcs s t) ->
  forall t0, sem s = Some t0 <-> holder (updf (pcs s) t p t0) = true.
Proof. intros I Hh t0. upd t0 t; [rewrite Hh|]; apply (I_sem s I). Qed.

Lemma join_inv s p s' : Inv s -> step_join s p = Some s' -> Inv s'.
Proof.
  intros I H. unfold step_join, passwd_init in H. inversion H; subst; clear H.
  destruct I as [I1 I2 I3 I4 I5 I6 I7 I8]. constructor; assumption.
Qed.

(* a process goes away: its calls stop where they are, the kernel adds its adjustment to the semaphore *)
Lemma die_inv s p s' : Inv s -> step_die c s p = Some s' -> Inv s'.
Proof.
  intros I H. unfold step_die in H. inversion H; subst; clear H.
  pose proof (I_adj s I p) as Hp. pose proof (I_cnt s I) as Hc.
  apply pcs_change_inv; try assumption.
  - intros t. destruct (Nat.eqb (proc c t) p); [apply kill_owned|reflexivity].
  - intros t. destruct (Nat.eqb (proc c t) p); [apply kill_writing|reflexivity].
  - intros t k. destruct (Nat.eqb (proc c t) p); [intros E; exfalso; exact (kill_not_setid _ _ E)|apply (I_set s I)].
  - intros t0. destruct (sem s) as [h|] eqn:Eh.
    + assert (Hh : holder (pcs s h) = true) by (apply (I_sem s I); exact Eh).
      destruct (Nat.eqb_spec (proc c h) p) as [Ehp|Nhp].
      * split; [discriminate|]. destruct (Nat.eqb_spec (proc c t0) p) as [E0|N0]; [rewrite kill_holder; discriminate|].
        intros H0. exfalso. apply N0. rewrite (holder_unique s t0 h I H0 Hh). exact Ehp.
      * destruct (Nat.eqb_spec (proc c t0) p) as [E0|N0].
        -- rewrite kill_holder. split; [|discriminate]. intros E; inversion E; subst t0. contradiction.
        -- rewrite <- Eh. apply (I_sem s I).
    + split; [discriminate|]. destruct (Nat.eqb (proc c t0) p); [rewrite kill_holder; discriminate|].
      intros H0. apply (I_sem s I) in H0. congruence.
  - rewrite Hp, Hc. destruct (sem s) as [h|]; [|reflexivity]. destruct (Nat.eqb (proc c h) p); reflexivity.
  - intros q. unfold updf. pose proof (I_adj s I q) as Hq.
    destruct (Nat.eqb_spec q p) as [->|Nq].
    + destruct (sem s) as [h|]; [|reflexivity]. destruct (Nat.eqb_spec (proc c h) p) as [E|N]; [reflexivity|].
      destruct (Nat.eqb_spec (proc c h) p); [contradiction|reflexivity].
    + rewrite Hq. destruct (sem s) as [h|]; [|reflexivity].
      destruct (Nat.eqb_spec (proc c h) p) as [E|N]; [|reflexivity].
      destruct (Nat.eqb_spec (proc c h) q); [congruence|reflexivity].
Qed.

Lemma adj_lock s t : Inv s -> sem s = None ->
  forall q, adj_op c s t 1 q = if Nat.eqb (proc c t) q then 1 else 0.
Proof.
  intros I Eo q. unfold adj_op, updf. pose proof (I_adj s I) as Ha. rewrite Eo in Ha. rewrite !Ha.
  destruct (Nat.eqb_spec q (proc c t)); destruct (Nat.eqb_spec (proc c t) q); try congruence; reflexivity.
Qed.

Lemma adj_unlock s t : Inv s -> sem s = Some t -> forall q, adj_op c s t (-1) q = 0.
Proof.
  intros I Es q. unfold adj_op, updf. pose proof (I_adj s I) as Ha. rewrite Es in Ha. rewrite !Ha, Nat.eqb_refl.
  destruct (Nat.eqb_spec q (proc c t)); [reflexivity|]. destruct (Nat.eqb_spec (proc c t) q); [congruence|reflexivity].
Qed.

Lemma step_inv s a s' : Inv s -> step c s a = Some s' -> Inv s'.
Proof.
  intros I Hstep. destruct a as [t|t|p|p]; cbn [step] in Hstep.
  2:{ (* interrupted wait *)
    unfold step_intr in Hstep. destruct (pcs s t) eqn:Ept; try discriminate. inversion Hstep; subst; clear Hstep.
    unfold set_pc. apply pc_only_inv; try assumption; try (rewrite Ept; reflexivity); try (intros; congruence).
    - apply sem_keep; [exact I|rewrite Ept; reflexivity].
    - exact (I_cnt s I).
    - exact (I_adj s I). }
  2:{ exact (join_inv s p s' I Hstep). }
  2:{ exact (die_inv s p s' I Hstep). }
  unfold step_thread in Hstep. destruct (pcs s t) eqn:Ept.
  - (* PCheck *)
    destruct (exists_id (nslots c) (idx s) (uid c t)); inversion Hstep; subst; clear Hstep; unfold set_pc;
      (apply pc_only_inv; try assumption; try (rewrite Ept; reflexivity); try (intros; congruence);
       [apply sem_keep; [exact I|rewrite Ept; reflexivity]|exact (I_cnt s I)|exact (I_adj s I)]).
  - (* PLock: take the semaphore if it is free *)
    destruct (semv s) as [|v] eqn:Ev; [discriminate|]. inversion Hstep; subst; clear Hstep.
    pose proof (I_cnt s I) as Hc. rewrite Ev in Hc.
    destruct (sem s) as [o|] eqn:Eo; [discriminate|]. assert (v = 0%nat) by lia. subst v.
    assert (Hnoholder : forall t0, holder (pcs s t0) = false).
    { intros t0. destruct (holder (pcs s t0)) eqn:E; [|reflexivity]. apply (I_sem s I) in E. congruence. }
    apply pc_only_inv; try assumption; try (rewrite Ept; destruct (recheck c); reflexivity);
      try (intros; destruct (recheck c); congruence); try (apply adj_lock; assumption); try reflexivity.
    intros t0. upd t0 t.
    + split; [intros _; destruct (recheck c); reflexivity|reflexivity].
    + rewrite Hnoholder. split; [intros H; inversion H; congruence|discriminate].
  - (* PRecheck *)
    destruct (exists_id (nslots c) (idx s) (uid c t)); inversion Hstep; subst; clear Hstep; unfold set_pc;
      (apply pc_only_inv; try assumption; try (rewrite Ept; reflexivity); try (intros; congruence);
       [apply sem_keep; [exact I|rewrite Ept; reflexivity]|exact (I_cnt s I)|exact (I_adj s I)]).
  - (* PFind *)
    destruct (find_empty (nslots c) (idx s)) as [k|] eqn:Ef; inversion Hstep; subst; clear Hstep; unfold set_pc.
    + apply pc_only_inv; try assumption; try (rewrite Ept; reflexivity); try (intros; congruence).
      * intros k0 Hk0. inversion Hk0; subst k0. apply find_empty_some in Ef. destruct Ef as [Hlt He].
        repeat split; [exact Hlt|exact He|].
        destruct (I_frame s I k) as [[t0 H0]|H0]; [|congruence].
        destruct (I_own s I t0 k H0) as (_ & Hid & _). exfalso. apply (Hids t0). congruence.
      * apply sem_keep; [exact I|rewrite Ept; reflexivity].
      * exact (I_cnt s I).
      * exact (I_adj s I).
    + apply pc_only_inv; try assumption; try (rewrite Ept; reflexivity); try (intros; congruence).
      * apply sem_keep; [exact I|rewrite Ept; reflexivity].
      * exact (I_cnt s I).
      * exact (I_adj s I).
  - (* PSetID k: the index now says slot k holds this id *)
    inversion Hstep; subst; clear Hstep.
    destruct (I_set s I t k Ept) as (Hlt & Hempty & Hinit).
    assert (Hnoown : forall t0, owned (pcs s t0) <> Some k).
    { intros t0 H0. destruct (I_own s I t0 k H0) as (_ & Hid & _). apply (Hids t0). congruence. }
    constructor; cbn [pcs sem semv idx pwd adj].
    + apply sem_keep; [exact I|rewrite Ept; reflexivity].
    + intros t0 k0. upd t0 t.
      * cbn. intros H; inversion H; subst k0. rewrite updf_same. repeat split; assumption.
      * intros H0. destruct (I_own s I t0 k0 H0) as (H1 & H2 & H3). repeat split; try assumption.
        rewrite updf_other; [exact H2|]. intros ->. exact (Hnoown t0 H0).
    + intros t0 k0. upd t0 t; [discriminate|]. intros H0. exfalso. apply n.
      apply (holder_unique s t0 t I); [rewrite H0|rewrite Ept]; reflexivity.
    + intros t0 t1 k0. upd t0 t; upd t1 t; try reflexivity.
      * cbn. intros H H1; inversion H; subst k0. exfalso. exact (Hnoown t1 H1).
      * cbn. intros H0 H; inversion H; subst k0. exfalso. exact (Hnoown t0 H0).
      * apply (I_one s I).
    + intros k0. destruct (Nat.eq_dec k0 k) as [->|Nk].
      * left. exists t. rewrite updf_same. reflexivity.
      * rewrite updf_other by assumption. destruct (I_frame s I k0) as [[t0 H0]|H0]; [left|right; exact H0].
        exists t0. upd t0 t; [rewrite Ept in H0; discriminate|exact H0].
    + intros k0 Hk0. destruct (Nat.eq_dec k0 k) as [->|Nk].
      * exfalso. apply (Hk0 t). rewrite updf_same. reflexivity.
      * rewrite updf_other by assumption. apply (I_pwd s I). intros t0. upd t0 t; [rewrite Ept; discriminate|].
        specialize (Hk0 t0). rewrite updf_other in Hk0 by assumption. exact Hk0.
    + exact (I_cnt s I).
    + exact (I_adj s I).
  - (* PWrite k: the record goes to .PASSWDS *)
    inversion Hstep; subst; clear Hstep.
    assert (Hown : owned (pcs s t) = Some k) by (rewrite Ept; reflexivity).
    destruct (I_own s I t k Hown) as (Hlt & Hid & Hinit).
    constructor; cbn [pcs sem semv idx pwd adj].
    + apply sem_keep; [exact I|rewrite Ept; reflexivity].
    + intros t0 k0. upd t0 t; [cbn; rewrite <- Hown|]; apply (I_own s I).
    + intros t0 k0. upd t0 t; [discriminate|apply (I_set s I)].
    + intros t0 t1 k0. upd t0 t; upd t1 t; try reflexivity; cbn [owned]; rewrite <- ?Hown; apply (I_one s I).
    + intros k0. destruct (I_frame s I k0) as [[t0 H0]|H0]; [left|right; exact H0].
      exists t0. upd t0 t; [cbn [owned]; rewrite <- Hown|]; exact H0.
    + intros k0 Hk0. destruct (Nat.eq_dec k0 k) as [->|Nk].
      * rewrite updf_same. symmetry. exact Hid.
      * rewrite updf_other by assumption. apply (I_pwd s I). intros t0. upd t0 t; [rewrite Ept; cbn; congruence|].
        specialize (Hk0 t0). rewrite updf_other in Hk0 by assumption. exact Hk0.
    + exact (I_cnt s I).
    + exact (I_adj s I).
  - (* PUnlock k *)
    inversion Hstep; subst; clear Hstep.
    assert (Es : sem s = Some t) by (apply (I_sem s I); rewrite Ept; reflexivity).
    assert (Hheld : semv s = 0%nat).
    { pose proof (I_cnt s I) as Hc. rewrite Es in Hc. exact Hc. }
    apply pc_only_inv; try assumption; try (rewrite Ept; reflexivity); try (intros; congruence);
      try (apply adj_unlock; assumption); try (rewrite Hheld; reflexivity).
    intros t0. upd t0 t; [cbn; split; discriminate|].
    split; [discriminate|]. intros Hh. exfalso. apply n. apply (holder_unique s t0 t I Hh). rewrite Ept. reflexivity.
  - (* PUnlockErr *)
    inversion Hstep; subst; clear Hstep.
    assert (Es : sem s = Some t) by (apply (I_sem s I); rewrite Ept; reflexivity).
    assert (Hheld : semv s = 0%nat).
    { pose proof (I_cnt s I) as Hc. rewrite Es in Hc. exact Hc. }
    apply pc_only_inv; try assumption; try (rewrite Ept; reflexivity); try (intros; congruence);
      try (apply adj_unlock; assumption); try (rewrite Hheld; reflexivity).
    intros t0. upd t0 t; [cbn; split; discriminate|].
    split; [discriminate|]. intros Hh. exfalso. apply n. apply (holder_unique s t0 t I Hh). rewrite Ept. reflexivity.
  - discriminate.
  - discriminate.
  - discriminate.
  - discriminate.
  - discriminate.
Qed.

Lemma run_inv sch : forall s, Inv s -> Inv (run c sch s).
Proof.
  induction sch as [|a sch IH]; intros s I; [exact I|]. cbn [run fold_left]. apply IH.
  unfold step_skip. destruct (step c s a) eqn:E; [eapply step_inv; eauto|exact I].
Qed.

Lemma replay_run sch : forall s s', replay c sch s = Some s' -> run c sch s = s'.
Proof.
  induction sch as [|a sch IH]; intros s s' H; cbn in *; [congruence|].
  unfold step_skip at 2. destruct (step c s a); [apply IH; exact H|discriminate].
Qed.

Theorem reachable_inv sch : Inv (run c sch (init_st init)).
Proof. apply run_inv, init_inv. Qed.

(* mutual exclusion on the critical section *)
Theorem mutex sch t t' : let s := run c sch (init_st init) in
  holder (pcs s t) = true -> holder (pcs s t') = true -> t = t' /\ sem s = Some t.
Proof.
  cbv zeta. intros H H'. pose proof (reachable_inv sch) as I. split.
  - eapply holder_unique; eauto.
  - apply (I_sem _ I). exact H.
Qed.

(* two successful registrations never get the same slot; the slot was free and now holds that id *)
Theorem distinct_slots sch t t' k : let s := run c sch (init_st init) in
  pcs s t = PDoneOk k -> pcs s t' = PDoneOk k -> t = t'.
Proof.
  cbv zeta. intros H H'. pose proof (reachable_inv sch) as I.
  apply (I_one _ I t t' k); [rewrite H|rewrite H']; reflexivity.
Qed.

Theorem slot_was_free sch t k : let s := run c sch (init_st init) in
  pcs s t = PDoneOk k -> (k < nslots c)%nat /\ init k = [] /\ idx s k = uid c t.
Proof.
  cbv zeta. intros H. pose proof (reachable_inv sch) as I.
  destruct (I_own _ I t k) as (H1 & H2 & H3); [rewrite H; reflexivity|]. repeat split; assumption.
Qed.

Definition quiescent (s : st) : Prop := forall t, pcs s t = PCheck \/ finished (pcs s t) = true.

(* when nobody is inside a call: index and .PASSWDS agree, each slot holds either what it held before or the id of
   the one successful registration that was given it, and the semaphore is free *)
Theorem index_agrees sch : let s := run c sch (init_st init) in quiescent s ->
  sem s = None /\
  forall k, pwd s k = idx s k /\
    ((exists t, pcs s t = PDoneOk k /\ idx s k = uid c t /\ init k = []) \/
     ((forall t, pcs s t <> PDoneOk k) /\ idx s k = init k)).
Proof.
  cbv zeta. intros Q. pose proof (reachable_inv sch) as I. set (s := run c sch (init_st init)) in *.
  split.
  - destruct (sem s) as [o|] eqn:E; [|reflexivity]. apply (I_sem _ I) in E.
    destruct (Q o) as [H|H]; [rewrite H in E; discriminate|]. destruct (pcs s o); discriminate.
  - intros k. split.
    + apply (I_pwd _ I). intros t E. destruct (Q t) as [H|H]; [rewrite H in E; discriminate|].
      destruct (pcs s t); discriminate.
    + destruct (I_frame _ I k) as [[t H0]|H0].
      * left. exists t. destruct (I_own _ I t k H0) as (_ & H2 & H3).
        destruct (Q t) as [H|H]; [rewrite H in H0; discriminate|].
        destruct (pcs s t) eqn:Ept; try discriminate. cbn in H0. inversion H0; subst. repeat split; assumption.
      * right. split; [|exact H0]. intros t E.
        destruct (I_own _ I t k) as (_ & H2 & H3); [rewrite E; reflexivity|]. apply (Hids t). congruence.
Qed.

(* the passwd semaphore as a counter: whatever the schedule — including every refusal inside the critical section
   (id found by the lookup under the lock, no free slot), every interrupted wait and any number of later calls —
   its value never exceeds 1, it is 0 exactly while some call is between its PasswdLock and its PasswdUnlock,
   and it is 1 again whenever no call is inside (in particular when all calls have returned) *)
Theorem sem_counter sch : let s := run c sch (init_st init) in
  (semv s <= 1)%nat /\
  (forall t, holder (pcs s t) = true -> semv s = 0%nat) /\
  ((forall t, holder (pcs s t) = false) -> semv s = 1%nat) /\
  (quiescent s -> semv s = 1%nat).
Proof.
  cbv zeta. pose proof (reachable_inv sch) as I. set (s := run c sch (init_st init)) in *.
  pose proof (I_cnt _ I) as Hc.
  assert (Hfree : (forall t, holder (pcs s t) = false) -> semv s = 1%nat).
  { intros Hn. destruct (sem s) as [o|] eqn:E; [|exact Hc]. apply (I_sem _ I) in E. rewrite Hn in E. discriminate. }
  split; [destruct (sem s); lia|]. split; [|split].
  - intros t Ht. apply (I_sem _ I) in Ht. rewrite Ht in Hc. exact Hc.
  - exact Hfree.
  - intros Q. apply Hfree. intros t. destruct (Q t) as [H|H]; [rewrite H; reflexivity|].
    destruct (pcs s t); try discriminate; reflexivity.
Qed.

(* what the harness runs: the observed trace with observation marks. The final state is the [run] of the trace
   without the marks, and every value recorded at a mark is the counter of a state reachable by a prefix: 0 or 1 *)
Definition unmark (zs : list Z) : list act := map act_of_Z (filter (fun z => negb (z =? OBS)) zs).

Lemma replay_obs_run zs : forall s s' o, replay_obs c zs s = Some (s', o) -> run c (unmark zs) s = s'.
Proof.
  induction zs as [|z zs IH]; intros s s' o H; cbn [replay_obs] in H.
  - inversion H. reflexivity.
  - unfold unmark. cbn [filter]. destruct (z =? OBS) eqn:Ez; cbn [negb].
    + destruct (replay_obs c zs s) as [[s1 o1]|] eqn:E; [|discriminate]. inversion H; subst. exact (IH _ _ _ E).
    + cbn [map run fold_left]. unfold step_skip at 2. destruct (step c s (act_of_Z z)) as [s1|] eqn:E; [|discriminate].
      exact (IH _ _ _ H).
Qed.

Lemma replay_obs_values zs : forall s s' o, Inv s -> replay_obs c zs s = Some (s', o) ->
  Forall (fun v => v = 0 \/ v = 1) o.
Proof.
  induction zs as [|z zs IH]; intros s s' o I H; cbn [replay_obs] in H.
  - inversion H. constructor.
  - destruct (z =? OBS).
    + destruct (replay_obs c zs s) as [[s1 o1]|] eqn:E; [|discriminate]. inversion H; subst. constructor.
      * pose proof (I_cnt s I) as Hc. destruct (sem s); rewrite Hc; [left|right]; reflexivity.
      * exact (IH _ _ _ I E).
    + destruct (step c s (act_of_Z z)) as [s1|] eqn:E; [|discriminate].
      exact (IH _ _ _ (step_inv _ _ _ I E) H).
Qed.

Theorem observed_counter zs s' o : replay_obs c zs (init_st init) = Some (s', o) ->
  s' = run c (unmark zs) (init_st init) /\ Forall (fun v => v = 0 \/ v = 1) o /\ (semv s' <= 1)%nat.
Proof.
  intros H. pose proof (replay_obs_run _ _ _ _ H) as Hr. split; [symmetry; exact Hr|]. split.
  - exact (replay_obs_values _ _ _ _ init_inv H).
  - subst s'. apply (sem_counter (unmark zs)).
Qed.

(* no deadlock: while some call has neither returned nor lost its process, some thread can move - in particular a call
   waiting for the semaphore is never stuck behind a holder whose process went away *)
Theorem progress sch t : let s := run c sch (init_st init) in
  finished (pcs s t) = false -> dead (pcs s t) = false -> exists t', step c s (Step t') <> None.
Proof.
  cbv zeta. intros Hf Hd. pose proof (reachable_inv sch) as I. set (s := run c sch (init_st init)) in *.
  destruct (step c s (Step t)) eqn:E; [exists t; congruence|].
  cbn [step] in E. unfold step_thread in E. destruct (pcs s t) eqn:Ept; try discriminate.
  - destruct (exists_id _ _ _); discriminate.
  - destruct (semv s) as [|v] eqn:Ev; [|discriminate].
    pose proof (I_cnt _ I) as Hc. fold s in Hc. rewrite Ev in Hc.
    destruct (sem s) as [o|] eqn:Eo; [|discriminate].
    exists o. apply (I_sem _ I) in Eo. cbn [step]. unfold step_thread.
    destruct (pcs s o); try discriminate;
      try (destruct (exists_id _ _ _); discriminate); try (destruct (find_empty _ _); discriminate).
  - destruct (exists_id _ _ _); discriminate.
  - destruct (find_empty _ _); discriminate.
Qed.

(* ------------------------------------------------------------------ processes joining and going away *)

Lemma run_snoc sch a s : run c (sch ++ [a]) s = step_skip c (run c sch s) a.
Proof. unfold run. rewrite fold_left_app. reflexivity. Qed.

(* SEM_UNDO: in every reachable state the adjustment the kernel holds for a process is 1 if the call inside the lock
   belongs to it and 0 otherwise - so a process going away gives the semaphore back when, and only when, it held it *)
Theorem undo_adjustment sch p : let s := run c sch (init_st init) in
  (forall t, holder (pcs s t) = true -> adj s p = if Nat.eqb (proc c t) p then 1 else 0) /\
  ((forall t, holder (pcs s t) = false) -> adj s p = 0).
Proof.
  cbv zeta. pose proof (reachable_inv sch) as I. set (s := run c sch (init_st init)) in *.
  pose proof (I_adj _ I p) as Ha. split.
  - intros t Ht. apply (I_sem _ I) in Ht. rewrite Ht in Ha. exact Ha.
  - intros Hn. destruct (sem s) as [h|] eqn:E; [|exact Ha]. apply (I_sem _ I) in E. rewrite Hn in E. discriminate.
Qed.

(* a process starting (PasswdInit on the attach path) in any reachable state: always possible, changes nothing; in
   particular a lock that is held stays held *)
Theorem join_keeps_lock sch p : let s := run c sch (init_st init) in
  exists s', step c s (Join p) = Some s' /\
    semv s' = semv s /\ pcs s' = pcs s /\ idx s' = idx s /\ pwd s' = pwd s /\ adj s' = adj s /\
    (forall t, holder (pcs s t) = true -> semv s' = 0%nat /\ holder (pcs s' t) = true).
Proof.
  cbv zeta. eexists. split; [reflexivity|]. cbn [semv pcs idx pwd adj passwd_init]. repeat split; try assumption.
  destruct (sem_counter sch) as (_ & H0 & _). exact (H0 t H).
Qed.

(* process p goes away in any reachable state: its calls stop where they are ([kill]), the others and both tables are
   untouched; if the call inside the lock (if any) was one of p's, the semaphore is free afterwards (1), if it belongs
   to another process the semaphore stays taken (0) *)
Theorem process_exit sch p :
  let s := run c sch (init_st init) in let s' := run c (sch ++ [Die p]) (init_st init) in
  (forall t, proc c t = p -> pcs s' t = kill (pcs s t)) /\
  (forall t, proc c t <> p -> pcs s' t = pcs s t) /\
  idx s' = idx s /\ pwd s' = pwd s /\
  ((forall t, holder (pcs s t) = true -> proc c t = p) -> semv s' = 1%nat) /\
  (forall t, holder (pcs s t) = true -> proc c t <> p -> semv s' = 0%nat).
Proof.
  cbv zeta. pose proof (sem_counter (sch ++ [Die p])) as Hc. cbv zeta in Hc. destruct Hc as (_ & Hc0 & Hc1 & _).
  rewrite run_snoc in *. unfold step_skip in *. cbn [step step_die] in *. cbn [pcs idx pwd semv] in *.
  set (s := run c sch (init_st init)) in *.
  assert (Hin : forall t, proc c t = p -> (if Nat.eqb (proc c t) p then kill (pcs s t) else pcs s t) = kill (pcs s t)).
  { intros t E. rewrite E, Nat.eqb_refl. reflexivity. }
  assert (Hout : forall t, proc c t <> p -> (if Nat.eqb (proc c t) p then kill (pcs s t) else pcs s t) = pcs s t).
  { intros t N. destruct (Nat.eqb_spec (proc c t) p); [contradiction|reflexivity]. }
  split; [exact Hin|]. split; [exact Hout|]. split; [reflexivity|]. split; [reflexivity|]. split.
  - intros Hall. apply Hc1. intros t. destruct (Nat.eq_dec (proc c t) p) as [E|N].
    + rewrite (Hin t E). apply kill_holder.
    + rewrite (Hout t N). destruct (holder (pcs s t)) eqn:Eh; [|reflexivity]. exfalso. exact (N (Hall t Eh)).
  - intros t Ht N. apply (Hc0 t). rewrite (Hout t N). exact Ht.
Qed.

(* a slot is owned by at most one call, counting the calls that lost their process after writing the index *)
Theorem distinct_owners sch t t' k : let s := run c sch (init_st init) in
  owned (pcs s t) = Some k -> owned (pcs s t') = Some k -> t = t'.
Proof. cbv zeta. apply (I_one _ (reachable_inv sch)). Qed.

Definition settled (s : st) : Prop := forall t, pcs s t = PCheck \/ finished (pcs s t) = true \/ dead (pcs s t) = true.

(* when every call has returned or lost its process: the semaphore is free; the index and .PASSWDS agree on every slot
   except one whose writer lost its process between the two writes; and every slot holds either what it held before
   or the id of the one call - returned with success, or gone after writing - that was given it *)
Theorem settled_agrees sch : let s := run c sch (init_st init) in settled s ->
  semv s = 1%nat /\ sem s = None /\
  forall k, ((forall t, pcs s t <> PDeadW k) -> pwd s k = idx s k) /\
    ((exists t, (pcs s t = PDoneOk k \/ pcs s t = PDeadOk k \/ pcs s t = PDeadW k) /\ idx s k = uid c t /\ init k = []) \/
     ((forall t, owned (pcs s t) <> Some k) /\ idx s k = init k)).
Proof.
  cbv zeta. intros Q. pose proof (reachable_inv sch) as I. pose proof (sem_counter sch) as Hc. cbv zeta in Hc.
  set (s := run c sch (init_st init)) in *.
  assert (Hn : forall t, holder (pcs s t) = false).
  { intros t. destruct (Q t) as [H|[H|H]]; [rewrite H; reflexivity| |]; destruct (pcs s t); try discriminate; reflexivity. }
  split; [destruct Hc as (_ & _ & Hc1 & _); exact (Hc1 Hn)|]. split.
  { destruct (sem s) as [o|] eqn:E; [|reflexivity]. apply (I_sem _ I) in E. rewrite Hn in E. discriminate. }
  intros k. split.
  - intros Hw. apply (I_pwd _ I). intros t E. destruct (Q t) as [H|[H|H]]; [rewrite H in E; discriminate| |];
      destruct (pcs s t) eqn:Ept; try discriminate. cbn in E. inversion E; subst. exact (Hw t Ept).
  - destruct (I_frame _ I k) as [[t H0]|H0].
    + left. exists t. destruct (I_own _ I t k H0) as (_ & H2 & H3). split; [|split; assumption].
      destruct (Q t) as [H|[H|H]]; [rewrite H in H0; discriminate| |];
        destruct (pcs s t) eqn:Ept; try discriminate; cbn in H0; inversion H0; subst; tauto.
    + right. split; [|exact H0]. intros t E.
      destruct (I_own _ I t k E) as (_ & H2 & H3). apply (Hids t). congruence.
Qed.

(* ------------------------------------------------------------------ with the lookup repeated inside the lock *)

Hypothesis Hrecheck : recheck c = true.
Hypothesis Hinit : forall k k', (k < nslots c)%nat -> (k' < nslots c)%nat ->
  init k <> [] -> key (init k) = key (init k') -> k = k'.      (* the table starts without duplicates *)

Record InvU (s : st) : Prop := {
  U_inv : Inv s;
  U_tab : forall k k', (k < nslots c)%nat -> (k' < nslots c)%nat ->
            idx s k <> [] -> key (idx s k) = key (idx s k') -> k = k';
  U_pass : forall t, passed (pcs s t) = true ->
            forall k, (k < nslots c)%nat -> key (idx s k) <> key (uid c t)
}.

Lemma init_invU : InvU (init_st init).
Proof. constructor; [apply init_inv|exact Hinit|cbn; discriminate]. Qed.

Lemma stepU s a s' : InvU s -> step c s a = Some s' -> InvU s'.
Proof.
  intros [I UT UP] Hstep. pose proof (step_inv s a s' I Hstep) as I'.
  constructor; [exact I'| |]; clear I'.
  - (* the table stays duplicate-free *)
    destruct a as [t|t|p|p]; cbn [step] in Hstep.
    2:{ unfold step_intr in Hstep. destruct (pcs s t); try discriminate. inversion Hstep; subst. exact UT. }
    2:{ unfold step_join in Hstep. inversion Hstep; subst. exact UT. }
    2:{ unfold step_die in Hstep. inversion Hstep; subst. exact UT. }
    unfold step_thread in Hstep. destruct (pcs s t) eqn:Ept.
    + destruct (exists_id _ _ _); inversion Hstep; subst; exact UT.
    + destruct (semv s); [discriminate|]. inversion Hstep; subst; exact UT.
    + destruct (exists_id _ _ _); inversion Hstep; subst; exact UT.
    + destruct (find_empty _ _); inversion Hstep; subst; exact UT.
    + (* PSetID k *)
      inversion Hstep; subst; clear Hstep; cbn [idx].
      assert (Hp : forall k0, (k0 < nslots c)%nat -> key (idx s k0) <> key (uid c t)) by (apply UP; rewrite Ept; reflexivity).
      intros k1 k2 H1 H2 Hne Hk. unfold updf in *.
      destruct (Nat.eqb_spec k1 k) as [->|N1]; destruct (Nat.eqb_spec k2 k) as [->|N2]; try reflexivity.
      * exfalso. apply (Hp k2 H2). congruence.
      * exfalso. apply (Hp k1 H1). congruence.
      * apply UT; assumption.
    + inversion Hstep; subst; exact UT.
    + inversion Hstep; subst; exact UT.
    + inversion Hstep; subst; exact UT.
    + discriminate.
    + discriminate.
    + discriminate.
    + discriminate.
    + discriminate.
  - (* a thread past the lookup inside the lock still sees no such id *)
    destruct a as [t|t|p|p]; cbn [step] in Hstep.
    2:{ unfold step_intr in Hstep. destruct (pcs s t) eqn:Ept; try discriminate. inversion Hstep; subst.
        cbn [pcs idx set_pc]. intros t0. destruct (Nat.eq_dec t0 t) as [->|N];
          [rewrite updf_same; discriminate|rewrite updf_other by assumption; apply UP]. }
    2:{ unfold step_join in Hstep. inversion Hstep; subst. exact UP. }
    2:{ unfold step_die in Hstep. inversion Hstep; subst. cbn [pcs idx]. intros t0.
        destruct (Nat.eqb (proc c t0) p); [rewrite kill_passed; discriminate|apply UP]. }
    unfold step_thread in Hstep. destruct (pcs s t) eqn:Ept.
    + destruct (exists_id _ _ _); inversion Hstep; subst; cbn [pcs idx set_pc]; intros t0;
        (destruct (Nat.eq_dec t0 t) as [->|N]; [rewrite updf_same; discriminate|rewrite updf_other by assumption; apply UP]).
    + destruct (semv s); [discriminate|]. inversion Hstep; subst; cbn [pcs idx]. rewrite Hrecheck. intros t0.
      destruct (Nat.eq_dec t0 t) as [->|N]; [rewrite updf_same; discriminate|rewrite updf_other by assumption; apply UP].
    + destruct (exists_id (nslots c) (idx s) (uid c t)) eqn:Ex; inversion Hstep; subst; cbn [pcs idx set_pc]; intros t0;
        (destruct (Nat.eq_dec t0 t) as [->|N]; [rewrite updf_same|rewrite updf_other by assumption; apply UP]);
        [discriminate|]. intros _. apply exists_id_false. exact Ex.
    + destruct (find_empty _ _); inversion Hstep; subst; cbn [pcs idx set_pc]; intros t0;
        (destruct (Nat.eq_dec t0 t) as [->|N]; [rewrite updf_same|rewrite updf_other by assumption; apply UP]);
        [|discriminate]. intros _. apply UP. rewrite Ept. reflexivity.
    + inversion Hstep; subst; cbn [pcs idx]. intros t0.
      destruct (Nat.eq_dec t0 t) as [->|N]; [rewrite updf_same; discriminate|rewrite updf_other by assumption].
      intros Hp. exfalso. apply N. apply (holder_unique s t0 t I); [|rewrite Ept; reflexivity].
      destruct (pcs s t0); try discriminate; reflexivity.
    + inversion Hstep; subst; cbn [pcs idx]. intros t0.
      destruct (Nat.eq_dec t0 t) as [->|N]; [rewrite updf_same; discriminate|rewrite updf_other by assumption; apply UP].
    + inversion Hstep; subst; cbn [pcs idx]. intros t0.
      destruct (Nat.eq_dec t0 t) as [->|N]; [rewrite updf_same; discriminate|rewrite updf_other by assumption; apply UP].
    + inversion Hstep; subst; cbn [pcs idx]. intros t0.
      destruct (Nat.eq_dec t0 t) as [->|N]; [rewrite updf_same; discriminate|rewrite updf_other by assumption; apply UP].
    + discriminate.
    + discriminate.
    + discriminate.
    + discriminate.
    + discriminate.
Qed.

Lemma run_invU sch : forall s, InvU s -> InvU (run c sch s).
Proof.
  induction sch as [|a sch IH]; intros s I; [exact I|]. cbn [run fold_left]. apply IH.
  unfold step_skip. destruct (step c s a) eqn:E; [eapply stepU; eauto|exact I].
Qed.

(* in every reachable state no user id (case-insensitively) is held by two slots of the index *)
Theorem table_unique sch k k' : let s := run c sch (init_st init) in
  (k < nslots c)%nat -> (k' < nslots c)%nat -> idx s k <> [] -> key (idx s k) = key (idx s k') -> k = k'.
Proof. cbv zeta. apply (U_tab _ (run_invU sch _ init_invU)). Qed.

(* hence at most one of the registrations of the same (case-insensitive) id succeeds ... *)
Theorem unique_id sch t t' k k' : let s := run c sch (init_st init) in
  pcs s t = PDoneOk k -> pcs s t' = PDoneOk k' -> key (uid c t) = key (uid c t') -> t = t'.
Proof.
  cbv zeta. intros H H' Hk. pose proof (run_invU sch _ init_invU) as [I UT _].
  destruct (I_own _ I t k) as (L1 & E1 & _); [rewrite H; reflexivity|].
  destruct (I_own _ I t' k') as (L2 & E2 & _); [rewrite H'; reflexivity|].
  assert (k = k').
  { apply UT; try assumption; [rewrite E1; apply Hids|congruence]. }
  subst k'. apply (I_one _ I t t' k); [rewrite H|rewrite H']; reflexivity.
Qed.

(* ... and none succeeds for an id the table already held *)
Theorem unique_vs_initial sch t k k0 : let s := run c sch (init_st init) in
  pcs s t = PDoneOk k -> (k0 < nslots c)%nat -> init k0 <> [] -> key (init k0) <> key (uid c t).
Proof.
  cbv zeta. intros H L0 Hne Hk. pose proof (run_invU sch _ init_invU) as [I UT _].
  destruct (I_own _ I t k) as (L1 & E1 & Hi); [rewrite H; reflexivity|].
  assert (E0 : idx (run c sch (init_st init)) k0 = init k0).
  { destruct (I_frame _ I k0) as [[t0 H0]|H0]; [|exact H0].
    destruct (I_own _ I t0 k0 H0) as (_ & _ & Hi0). congruence. }
  assert (k0 = k) by (apply UT; try assumption; congruence).
  subst k0. congruence.
Qed.

Theorem unique_id_all sch : let s := run c sch (init_st init) in
  (forall k k', (k < nslots c)%nat -> (k' < nslots c)%nat -> idx s k <> [] -> key (idx s k) = key (idx s k') -> k = k') /\
  (forall t t' k k', pcs s t = PDoneOk k -> pcs s t' = PDoneOk k' -> key (uid c t) = key (uid c t') -> t = t') /\
  (forall t k k0, pcs s t = PDoneOk k -> (k0 < nslots c)%nat -> init k0 <> [] -> key (init k0) <> key (uid c t)).
Proof.
  cbv zeta. split; [|split].
  - intros k k'. apply table_unique.
  - intros t t' k k'. apply unique_id.
  - intros t k k0. apply unique_vs_initial.
Qed.

End Registrations.

(* ------------------------------------------------------------------ the code as found: both succeed *)

Definition id_ab : list Z := [97; 98].
Definition id_AB : list Z := [65; 66].
Definition tab4 : nat -> list Z := fun k => match k with O => [83; 89; 83; 79; 80] | _ => [] end.   (* SYSOP + free slots *)
Definition cfg_same (r : bool) : cfg := mkCfg 4 r (fun _ => id_ab) (fun _ => 0%nat).
Definition cfg_twin (r : bool) : cfg := mkCfg 4 r (fun t => match t with O => id_ab | _ => id_AB end) (fun _ => 0%nat).
(* A.Check, B.Check, A.Lock .. A.Unlock, B.Lock .. B.Unlock *)
Definition witness : list act :=
  [Step 0; Step 1; Step 0; Step 0; Step 0; Step 0; Step 0; Step 1; Step 1; Step 1; Step 1; Step 1]%nat.

Lemma tab4_unique : forall k k', (k < 4)%nat -> (k' < 4)%nat -> tab4 k <> [] -> key (tab4 k) = key (tab4 k') -> k = k'.
Proof.
  intros k k' H H' Hne Hk. destruct k as [|k]; [|exfalso; apply Hne; reflexivity].
  destruct k' as [|k']; [reflexivity|discriminate].
Qed.

Lemma race_same : let s := run (cfg_same false) witness (init_st tab4) in
  pcs s 0%nat = PDoneOk 1 /\ pcs s 1%nat = PDoneOk 2 /\ idx s 1%nat = id_ab /\ idx s 2%nat = id_ab.
Proof. vm_compute. repeat split. Qed.

Lemma race_twin : let s := run (cfg_twin false) witness (init_st tab4) in
  pcs s 0%nat = PDoneOk 1 /\ pcs s 1%nat = PDoneOk 2 /\ idx s 1%nat = id_ab /\ idx s 2%nat = id_AB.
Proof. vm_compute. repeat split. Qed.

Theorem unique_id_refuted :
  (exists c init sch t t' k k', recheck c = false /\ (forall t, uid c t <> []) /\
     (forall k k', (k < nslots c)%nat -> (k' < nslots c)%nat -> init k <> [] -> key (init k) = key (init k') -> k = k') /\ t <> t' /\
     uid c t = uid c t' /\
     let s := run c sch (init_st init) in pcs s t = PDoneOk k /\ pcs s t' = PDoneOk k' /\ idx s k = idx s k') /\
  (exists c init sch t t' k k', recheck c = false /\ (forall t, uid c t <> []) /\
     (forall k k', (k < nslots c)%nat -> (k' < nslots c)%nat -> init k <> [] -> key (init k) = key (init k') -> k = k') /\ t <> t' /\
     uid c t <> uid c t' /\ key (uid c t) = key (uid c t') /\
     let s := run c sch (init_st init) in pcs s t = PDoneOk k /\ pcs s t' = PDoneOk k').
Proof.
  split.
  - exists (cfg_same false), tab4, witness, 0%nat, 1%nat, 1%nat, 2%nat.
    split; [reflexivity|]. split; [intros t; discriminate|]. split; [exact tab4_unique|]. split; [discriminate|].
    split; [reflexivity|]. vm_compute. repeat split.
  - exists (cfg_twin false), tab4, witness, 0%nat, 1%nat, 1%nat, 2%nat.
    split; [reflexivity|]. split; [intros [|t]; discriminate|]. split; [exact tab4_unique|]. split; [discriminate|].
    split; [discriminate|]. split; [reflexivity|]. vm_compute. repeat split.
Qed.

Lemma code_rechecks_true : code_rechecks = true.
Proof. reflexivity. Qed.

(* non-vacuity of the repaired protocol: the same schedules (one more step inside each critical section) *)
Definition witness_r : list act :=
  [Step 0; Step 1; Step 0; Step 0; Step 0; Step 0; Step 0; Step 0; Step 1; Step 1; Step 1; Step 1]%nat.
Example ex_fixed_same : let s := run (cfg_same true) witness_r (init_st tab4) in
  (pcs s 0%nat, pcs s 1%nat, idx s 1%nat, idx s 2%nat, pwd s 1%nat, sem s) = (PDoneOk 1, PDoneErr E_EXISTS, id_ab, [], id_ab, None).
Proof. vm_compute. reflexivity. Qed.
Example ex_fixed_twin : let s := run (cfg_twin true) witness_r (init_st tab4) in
  (pcs s 0%nat, pcs s 1%nat, idx s 1%nat, idx s 2%nat) = (PDoneOk 1, PDoneErr E_EXISTS, id_ab, []).
Proof. vm_compute. reflexivity. Qed.
(* the counter along a two-phase history: first a same-id race whose loser is refused INSIDE the lock (steps of
   thread 1 after thread 0 has finished), then two registrations of different ids interleaved on the same semaphore
   and table; the marks read 1 (fresh), 0 (thread 0 inside), 0 (thread 1 inside, about to be refused), 1 (after the
   refusal: the single deferred unlock), 0 (thread 2 inside, thread 3 waiting), 0 (thread 3 inside), 1 (quiescent) *)
Definition cfg_two_phase : cfg :=
  mkCfg 4 true (fun t => match t with O | S O => id_ab | S (S O) => [99] | _ => [100] end) (fun t => t).
Example ex_two_phase_counter :
  match replay_obs cfg_two_phase
    [OBS; 0; 1; 0; OBS; 0; 0; 0; 0; 0; 1; OBS; 1; 1; OBS;
     2; 3; 2; OBS; 2; 2; 2; 2; 2; 3; OBS; 3; 3; 3; 3; 3; OBS] (init_st tab4) with
  | Some (s, o) => (o, semv s, pcs s 0%nat, pcs s 1%nat, pcs s 2%nat, pcs s 3%nat)
                   = ([1; 0; 0; 1; 0; 0; 1], 1%nat, PDoneOk 1, PDoneErr E_EXISTS, PDoneOk 2, PDoneOk 3)
  | None => False
  end.
Proof. vm_compute. reflexivity. Qed.
(* refusal inside the lock because no slot is free: the counter is back at 1 as well *)
Example ex_noslot_counter : let c := mkCfg 1 true (fun t => [97; 48 + Z.of_nat t]) (fun _ => 0%nat) in
  match replay_obs c [0; 0; 0; OBS; 0; 0; OBS] (init_st tab4) with
  | Some (s, o) => (o, semv s, pcs s 0%nat) = ([0; 1], 1%nat, PDoneErr E_NOSLOT)
  | None => False
  end.
Proof. vm_compute. reflexivity. Qed.
(* why the bound matters: nothing in the step relation caps the counter, and from a (not reachable) state in which it
   is 2 — a semaphore that was posted once too often — two registrations of different ids are inside the critical
   section together and are given the SAME slot; the index keeps one of the two ids *)
Example ex_counter_2_shares_slot :
  let c := mkCfg 4 true (fun t => match t with O => [99] | _ => [100] end) (fun t => t) in
  let s := run c [Step 0; Step 1; Step 0; Step 1; Step 0; Step 1; Step 0; Step 1; Step 0; Step 1; Step 0; Step 1; Step 0; Step 1]%nat
               (mkSt (fun _ => PCheck) None 2%nat tab4 tab4 (fun _ => 0)) in
  (pcs s 0%nat, pcs s 1%nat, idx s 1%nat, semv s) = (PDoneOk 1, PDoneOk 1, [100], 2%nat).
Proof. vm_compute. reflexivity. Qed.
(* three threads, different ids, one interrupted wait *)
Example ex_three : let c := mkCfg 3 true (fun t => [97; 98; 48 + Z.of_nat t]) (fun t => t) in
  let s := run c [Step 0; Step 1; Step 2; Step 0; Intr 1; Step 2; Step 0; Step 0; Step 0; Step 0; Step 0;
                  Step 2; Step 2; Step 2; Step 2; Step 2; Step 2]%nat (init_st tab4) in
  (pcs s 0%nat, pcs s 1%nat, pcs s 2%nat, sem s) = (PDoneOk 1, PDoneErr E_INTR, PDoneOk 2, None).
Proof. vm_compute. reflexivity. Qed.

(* ------------------------------------------------------------------ processes joining and going away: examples *)
(* thread t runs in process t *)
Definition cfg_procs : cfg := mkCfg 4 true (fun t => match t with O => [99] | _ => [100] end) (fun t => t).
(* process 1 starts (PasswdInit, attach path) while thread 0 of process 0 is inside the lock, between its slot search and
   its write; then thread 1 (process 1) registers another id: it has to wait, and gets the next slot. Readings: fresh 1,
   held 0, after the join 0, after thread 0 returned 1, at the end 1 *)
Example ex_join_while_held :
  match replay_obs cfg_procs [OBS; 0; 0; 0; 0; OBS; JOINZ + 1; OBS; 1; 0; 0; 0; OBS; 1; 1; 1; 1; 1; 1; OBS] (init_st tab4) with
  | Some (s, o) => (o, pcs s 0%nat, pcs s 1%nat, idx s 1%nat, idx s 2%nat) = ([1; 0; 0; 1; 1], PDoneOk 1, PDoneOk 2, [99], [100])
  | None => False
  end.
Proof. vm_compute. reflexivity. Qed.
(* with the step [1] before thread 0 has returned the replay is refused: thread 1 is blocked in semop *)
Example ex_join_does_not_open_the_lock :
  replay_obs cfg_procs [0; 0; 0; 0; JOINZ + 1; 1; 1] (init_st tab4) = None.
Proof. vm_compute. reflexivity. Qed.
(* what a start-up that "repairs" a semaphore it finds at 0 would do (SETVAL 1 while thread 0 is inside): thread 1 enters
   too, both are given slot 1, the index keeps one id, and the value ends at 2 *)
Example ex_rearm_shares_slot :
  let s0 := run cfg_procs [Step 0; Step 0; Step 0; Step 0]%nat (init_st tab4) in
  let s1 := mkSt (pcs s0) (sem s0) 1%nat (idx s0) (pwd s0) (adj s0) in
  let s := run cfg_procs [Step 1; Step 1; Step 1; Step 1; Step 0; Step 0; Step 0; Step 1; Step 1; Step 1]%nat s1 in
  (semv s0, pcs s 0%nat, pcs s 1%nat, idx s 1%nat, idx s 2%nat, semv s) = (0%nat, PDoneOk 1, PDoneOk 1, [100], [], 2%nat).
Proof. vm_compute. reflexivity. Qed.
(* process 0 goes away while its thread 0 holds the lock after both writes and thread 1 (process 1) waits: the
   kernel's adjustment frees the semaphore (0 -> 1), thread 1 gets it and the next slot; the dead call's account stays *)
Example ex_die_holder_with_waiter :
  match replay_obs cfg_procs [0; 0; 0; 0; 0; 0; 1; OBS; DIEZ + 0; OBS; 1; OBS; 1; 1; 1; 1; 1; OBS] (init_st tab4) with
  | Some (s, o) => (o, pcs s 0%nat, pcs s 1%nat, idx s 1%nat, pwd s 1%nat, idx s 2%nat, adj s 0%nat, adj s 1%nat)
                   = ([0; 1; 0; 1], PDeadOk 1, PDoneOk 2, [99], [99], [100], 0, 0)
  | None => False
  end.
Proof. vm_compute. reflexivity. Qed.
(* the waiter's process goes away instead: the semaphore stays taken; later the holder returns and it is free *)
Example ex_die_waiter :
  match replay_obs cfg_procs [0; 0; 0; 1; OBS; DIEZ + 1; OBS; 0; 0; 0; 0; OBS] (init_st tab4) with
  | Some (s, o) => (o, pcs s 0%nat, pcs s 1%nat) = ([0; 0; 1], PDoneOk 1, PDead)
  | None => False
  end.
Proof. vm_compute. reflexivity. Qed.
(* a process that goes away between SetUserID and the record write leaves the one disagreement [settled_agrees] allows *)
Example ex_die_between_writes :
  let s := run cfg_procs [Step 0; Step 0; Step 0; Step 0; Step 0; Die 0]%nat (init_st tab4) in
  (pcs s 0%nat, idx s 1%nat, pwd s 1%nat, semv s) = (PDeadW 1, [99], [], 1%nat).
Proof. vm_compute. reflexivity. Qed.

(* ------------------------------------------------------------------ the existence check and the size of the table *)
(* DoSearchUserRaw(id) != 0 exactly when SOME slot below MAX_USERS holds the id case-insensitively: no slot of the table is
   outside the reach of the lookup, whatever MAX_USERS is (the production tables have more slots than the index has buckets) *)
Lemma exists_id_spec n tab id : exists_id n tab id = true <-> exists k, (k < n)%nat /\ key (tab k) = key id.
Proof.
  unfold exists_id. rewrite existsb_exists. split.
  - intros [k [Hin E]]. exists k. apply in_seq in Hin. split; [lia|]. apply ci_eqb_key. exact E.
  - intros [k [Hk E]]. exists k. split; [apply in_seq; lia|]. apply ci_eqb_key. exact E.
Qed.

(* in ANY state (reachable or not), for a table of any size: a call whose id is held, in whatever letter case, by any slot of
   the index is refused by the existence check outside the semaphore and by the lookup inside it; it never reaches the slot search *)
Lemma existing_id_refused c s t k : (k < nslots c)%nat -> key (idx s k) = key (uid c t) ->
  (pcs s t = PCheck -> step c s (Step t) = Some (set_pc s t (PDoneErr E_EXISTS))) /\
  (pcs s t = PRecheck -> step c s (Step t) = Some (set_pc s t (PUnlockErr E_EXISTS))).
Proof.
  intros Hk E.
  assert (X : exists_id (nslots c) (idx s) (uid c t) = true) by (apply exists_id_spec; exists k; split; assumption).
  split; intros P; cbn [step]; unfold step_thread; rewrite P, X; reflexivity.
Qed.

(* non-vacuity: a table of 300 slots whose only account sits in the last slot; its case twin is refused at the check, and
   (second call, parked inside the lock by hand) at the lookup under the semaphore *)
Definition cfg_last : cfg := mkCfg 300 true (fun _ => [97; 98]) (fun _ => 0%nat).
Definition tab_last : nat -> list Z := fun k => if Nat.eqb k 299 then [65; 66] else [].
Example ex_last_slot_refused :
  let s := run cfg_last [Step 0]%nat (init_st tab_last) in
  let s1 := set_pc (init_st tab_last) 1%nat PRecheck in
  (pcs s 0%nat, option_map (fun s' => pcs s' 1%nat) (step cfg_last s1 (Step 1%nat))) = (PDoneErr E_EXISTS, Some (PUnlockErr E_EXISTS)).
Proof. vm_compute. reflexivity. Qed.
