(* C17 — specification vocabulary (not part of the executable model): the standard UTF-8 encoding of a
   BMP code point, a strict UTF-8 validator (Unicode 15, table 3-7), boolean equalities for the sweeps. *)
From Verif Require Import Base.Common.

(* RFC 3629 bit layout, by arithmetic *)
Definition utf8_std (u : Z) : list Z :=
  if u <? 128 then [u]
  else if u <? 2048 then [192 + u / 64; 128 + u mod 64]
  else [224 + u / 4096; 128 + (u / 64) mod 64; 128 + u mod 64].

(* Unicode scalar values of the BMP above ASCII: no surrogates *)
Definition scalar (u : Z) : bool := ((128 <=? u) && (u <? 55296)) || ((57344 <=? u) && (u <? 65536)).

Definition is_ascii (b : Z) : bool := (0 <=? b) && (b <? 128).
Definition cont (b : Z) : bool := (128 <=? b) && (b <=? 191).
Definition second3 (b0 b1 : Z) : bool :=       (* E0 excludes overlong forms, ED excludes surrogates *)
  if b0 =? 224 then (160 <=? b1) && (b1 <=? 191) else if b0 =? 237 then (128 <=? b1) && (b1 <=? 159) else cont b1.
Definition second4 (b0 b1 : Z) : bool :=
  if b0 =? 240 then (144 <=? b1) && (b1 <=? 191) else if b0 =? 244 then (128 <=? b1) && (b1 <=? 143) else cont b1.

(* well-formed UTF-8: a sequence of well-formed 1-, 2-, 3- or 4-byte sequences *)
Fixpoint utf8_valid (s : list Z) : bool :=
  match s with
  | [] => true
  | b0 :: r =>
      if is_ascii b0 then utf8_valid r
      else match r with
           | [] => false
           | b1 :: r1 =>
               if (194 <=? b0) && (b0 <=? 223) then cont b1 && utf8_valid r1
               else match r1 with
                    | [] => false
                    | b2 :: r2 =>
                        if (224 <=? b0) && (b0 <=? 239) then second3 b0 b1 && cont b2 && utf8_valid r2
                        else match r2 with
                             | [] => false
                             | b3 :: r3 => (240 <=? b0) && (b0 <=? 244) && second4 b0 b1 && cont b2 && cont b3 && utf8_valid r3
                             end
                    end
           end
  end.

(* one well-formed sequence of at most three bytes *)
Definition wf1 (c : list Z) : bool :=
  match c with
  | [b0; b1] => negb (is_ascii b0) && ((194 <=? b0) && (b0 <=? 223)) && cont b1
  | [b0; b1; b2] => negb (is_ascii b0) && negb ((194 <=? b0) && (b0 <=? 223)) && ((224 <=? b0) && (b0 <=? 239)) && second3 b0 b1 && cont b2
  | _ => false
  end.

Lemma wf1_app c rest : wf1 c = true -> utf8_valid (c ++ rest) = utf8_valid rest.
Proof.
  destruct c as [|b0 [|b1 [|b2 [|b3 c]]]]; cbn [wf1]; try discriminate; intros H.
  - repeat (apply andb_true_iff in H; destruct H as [H ?]).
    cbn [app utf8_valid]. apply negb_true_iff in H. rewrite H. rewrite H1, H0. reflexivity.
  - repeat (apply andb_true_iff in H; destruct H as [H ?]).
    cbn [app utf8_valid]. apply negb_true_iff in H. apply negb_true_iff in H3. rewrite H, H3, H2, H1, H0. reflexivity.
Qed.

Fixpoint zlist_eqb (a b : list Z) : bool :=
  match a, b with
  | [], [] => true
  | x :: a', y :: b' => (x =? y) && zlist_eqb a' b'
  | _, _ => false
  end.
Lemma zlist_eqb_eq a b : zlist_eqb a b = true -> a = b.
Proof.
  revert b. induction a as [|x a IH]; intros [|y b]; cbn [zlist_eqb]; try discriminate; auto.
  intros H. apply andb_true_iff in H. destruct H as [H1 H2]. apply Z.eqb_eq in H1. f_equal; auto.
Qed.
Definition res_eqb (r : res (list Z)) (l : list Z) : bool := match r with Ok o => zlist_eqb o l | _ => false end.
Lemma res_eqb_eq r l : res_eqb r l = true -> r = Ok l.
Proof. destruct r; cbn [res_eqb]; try discriminate. intros H. f_equal. apply zlist_eqb_eq; exact H. Qed.
Definition opt_eqb (r : option (list Z)) (l : list Z) : bool := match r with Some o => zlist_eqb o l | None => false end.
Lemma opt_eqb_eq r l : opt_eqb r l = true -> r = Some l.
Proof. destruct r; cbn [opt_eqb]; try discriminate. intros H. f_equal. apply zlist_eqb_eq; exact H. Qed.

(* start, start+1, ..., start+n-1 with a running Z counter (Base.Sweep.zrange converts every index from
   unary nat, which is quadratic; too slow for 65 536 values) *)
Fixpoint zseq (start : Z) (n : nat) : list Z :=
  match n with O => [] | S k => start :: zseq (start + 1) k end.
Lemma zseq_in n : forall start v, start <= v < start + Z.of_nat n -> In v (zseq start n).
Proof.
  induction n as [|n IH]; intros start v Hv; [lia|].
  cbn [zseq]. destruct (Z.eq_dec v start) as [E|NE]; [left; auto|]. right. apply IH. lia.
Qed.
Lemma zsweep (P : Z -> bool) start n :
  forallb P (zseq start n) = true -> forall v, start <= v < start + Z.of_nat n -> P v = true.
Proof. intros H v Hv. rewrite forallb_forall in H. apply H. apply zseq_in. exact Hv. Qed.
