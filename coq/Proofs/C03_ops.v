From Verif Require Import Base.Common Gen.Consts_default Model.C03.
From Verif Require Model.C15 Proofs.C15.
From Coq Require Import Arith PeanoNat.

(* ------------------------------------------------------------------ lists *)

Lemma find_idx_some {A} (f : A -> bool) : forall (l : list A) k, find_idx f l = Some k ->
  exists a, nth_error l k = Some a /\ f a = true /\ forall j b, (j < k)%nat -> nth_error l j = Some b -> f b = false.
Proof.
  induction l as [|x l IH]; intros k H; cbn in H; [discriminate|].
  destruct (f x) eqn:Ex.
  - inversion H; subst. exists x. repeat split; [exact Ex|]. intros j b Hj. lia.
  - destruct (find_idx f l) as [k'|] eqn:E; [|discriminate]. cbn in H. inversion H; subst.
    destruct (IH k' eq_refl) as (a & Ha & Hf & Hlt). exists a. repeat split; [exact Ha|exact Hf|].
    intros [|j] b Hj Hb; cbn in Hb; [inversion Hb; subst; exact Ex|]. apply (Hlt j b); [lia|exact Hb].
Qed.

Lemma find_idx_none {A} (f : A -> bool) : forall (l : list A), find_idx f l = None <-> existsb f l = false.
Proof.
  induction l as [|x l IH]; cbn; [tauto|]. destruct (f x); cbn; [split; discriminate|].
  destruct (find_idx f l); cbn; split; intros H; try discriminate; try (apply IH; exact H); try reflexivity.
  apply IH in H. discriminate.
Qed.

Lemma find_idx_is_some {A} (f : A -> bool) (l : list A) : existsb f l = true -> exists k, find_idx f l = Some k.
Proof.
  intros H. destruct (find_idx f l) as [k|] eqn:E; [eauto|]. apply find_idx_none in E. congruence.
Qed.

Lemma existsb_nth {A} (f : A -> bool) (l : list A) :
  existsb f l = true <-> exists k a, nth_error l k = Some a /\ f a = true.
Proof.
  rewrite existsb_exists. split.
  - intros (a & Hin & Hf). apply In_nth_error in Hin. destruct Hin as [k Hk]. eauto.
  - intros (k & a & Hk & Hf). exists a. split; [eapply nth_error_In; eauto|exact Hf].
Qed.

Lemma set_nth_length {A} (v : A) : forall l k, length (set_nth k v l) = length l.
Proof. induction l as [|a l IH]; intros [|k]; cbn; try reflexivity. rewrite IH. reflexivity. Qed.

Lemma set_nth_same {A} (v : A) : forall l k, (k < length l)%nat -> nth_error (set_nth k v l) k = Some v.
Proof. induction l as [|a l IH]; intros [|k] H; cbn in *; try lia; [reflexivity|]. apply IH. lia. Qed.

Lemma set_nth_other {A} (v : A) : forall l k j, j <> k -> nth_error (set_nth k v l) j = nth_error l j.
Proof.
  induction l as [|a l IH]; intros [|k] [|j] H; cbn; try reflexivity; try congruence. apply IH. congruence.
Qed.

Lemma nth_nth_error {A} (l : list A) k d a : nth_error l k = Some a -> nth k l d = a.
Proof. intros H. apply nth_error_nth. exact H. Qed.

(* ------------------------------------------------------------------ ids and passwords *)

Lemma ci_key a b : ci_eqb a b = true <-> key a = key b.
Proof. apply C15.ci_eqb_key. Qed.

Lemma empty_spec id : is_empty id = true <-> id = [].
Proof. destruct id; cbn; split; intros H; congruence. Qed.

Lemma ci_nonempty a id : id <> [] -> ci_eqb a id = true -> a <> [].
Proof.
  intros Hne H E. subst a. apply ci_key in H. apply Hne. destruct id; [reflexivity|discriminate].
Qed.

Lemma valid_nonempty name : id_valid name = true -> cid name <> [].
Proof.
  unfold id_valid. intros H E. rewrite E in H. cbn in H. discriminate.
Qed.

(* generate => verify exactly the passwords with the same key block (C02 supplies this for the real hash) *)
Lemma verify_gen pw pw' : verify (gen pw) pw' = true <-> hd 0 pw <> 0 /\ kb pw = kb pw'.
Proof.
  destruct pw as [|ch r]; [cbn; split; [discriminate|intros [H0 _]; congruence]|].
  unfold gen. destruct (Z.eqb_spec ch 0) as [->|N].
  - unfold verify. cbn [hd]. split; [discriminate|intros [H0 _]; congruence].
  - unfold verify, eqbl. cbn [hd]. rewrite Proofs.C15.eqbl_spec. split; [intros E; split; [exact N|exact E]|intros [_ E]; exact E].
Qed.

(* the empty password, and one that starts with NUL, generate the hash that nothing verifies *)
Lemma gen_empty_locks pw pw' : hd 0 pw = 0 -> verify (gen pw) pw' = false.
Proof.
  intros H. destruct (verify (gen pw) pw') eqn:E; [|reflexivity]. apply verify_gen in E. destruct E as [E _]. contradiction.
Qed.

(* ------------------------------------------------------------------ the table predicates of the statements *)

(* well-formed, not new/guest, not reserved — in any letter case *)
Definition acceptable (c : cst) (name : list Z) : bool :=
  id_valid name && negb (ci_eqb (cid name) ptttype.STR_REGNEW) && negb (ci_eqb (cid name) ptttype.STR_GUEST)
  && negb (existsb (fun r => ci_eqb (cid name) r) (reserved c)).
(* some slot holds the id in some letter case *)
Definition taken (c : cst) (name : list Z) : bool :=
  existsb (fun a => ci_eqb (a_id a) (cid name)) (slots c).
(* a free slot exists: empty, or (when the hourly clean-up may run) held by an expired account other than uid 1 *)
Definition room (c : cst) : bool :=
  existsb (fun a => is_empty (a_id a)) (slots c) || (negb (throttle c) && existsb cleanable (tl (slots c))).

(* ids are distinct up to letter case *)
Definition WF (c : cst) : Prop :=
  forall i j a b, nth_error (slots c) i = Some a -> nth_error (slots c) j = Some b ->
    a_id a <> [] -> key (a_id a) = key (a_id b) -> i = j.

Lemma taken_spec c name : cid name <> [] ->
  (taken c name = true <-> exists k a, nth_error (slots c) k = Some a /\ a_id a <> [] /\ key (a_id a) = key (cid name)).
Proof.
  intros Hne. unfold taken. rewrite existsb_nth. split.
  - intros (k & a & Hk & Hf). exists k, a. repeat split; [exact Hk|eapply ci_nonempty; eauto|apply ci_key; exact Hf].
  - intros (k & a & Hk & _ & Hf). exists k, a. split; [exact Hk|apply ci_key; exact Hf].
Qed.

Lemma lookup_taken c name : cid name <> [] ->
  (lookup (slots c) (cid name) = None <-> taken c name = false).
Proof.
  intros Hne. unfold lookup, taken. destruct (is_empty (cid name)) eqn:E; [apply empty_spec in E; contradiction|].
  apply find_idx_none.
Qed.

Lemma lookup_some sl id k : lookup sl id = Some k ->
  exists a, nth_error sl k = Some a /\ a_id a <> [] /\ key (a_id a) = key id.
Proof.
  unfold lookup. destruct (is_empty id) eqn:E; [discriminate|]. intros H.
  apply find_idx_some in H. destruct H as (a & Ha & Hf & _). exists a. repeat split; [exact Ha| |apply ci_key; exact Hf].
  eapply ci_nonempty; [|exact Hf]. intros E'. subst id. discriminate.
Qed.

(* under WF the account found is THE account with that key *)
Lemma lookup_unique c id k j b : WF c -> lookup (slots c) id = Some k ->
  nth_error (slots c) j = Some b -> a_id b <> [] -> key (a_id b) = key id -> j = k.
Proof.
  intros W H Hj Hne Hk. destruct (lookup_some _ _ _ H) as (a & Ha & _ & Hka).
  apply (W j k b a Hj Ha Hne). congruence.
Qed.

Lemma clean_nothing sl : existsb cleanable (tl sl) = false -> clean sl = sl.
Proof.
  destruct sl as [|s0 r]; [reflexivity|]. cbn. intros H. f_equal.
  induction r as [|a r IH]; [reflexivity|]. cbn in *. apply orb_false_iff in H. destruct H as [H1 H2].
  rewrite H1. f_equal. apply IH. exact H2.
Qed.

Lemma clean_length sl : length (clean sl) = length sl.
Proof. destruct sl as [|s0 r]; [reflexivity|]. cbn. rewrite map_length. reflexivity. Qed.

Lemma clean_nth sl j : nth_error (clean sl) j = nth_error sl j \/
  (exists j' a, j = S j' /\ nth_error sl j = Some a /\ cleanable a = true /\ nth_error (clean sl) j = Some no_acct).
Proof.
  destruct sl as [|s0 r]; [left; reflexivity|]. destruct j as [|j]; [left; reflexivity|]. cbn.
  rewrite nth_error_map. destruct (nth_error r j) as [a|] eqn:E; cbn; [|left; reflexivity].
  destruct (cleanable a) eqn:Ec; [right; exists j, a; auto|left; reflexivity].
Qed.

Lemma clean_room sl : existsb (fun a => is_empty (a_id a)) sl = false ->
  existsb (fun a => is_empty (a_id a)) (clean sl) = existsb cleanable (tl sl).
Proof.
  destruct sl as [|s0 r]; [reflexivity|]. cbn. intros H. apply orb_false_iff in H. destruct H as [H0 Hr]. rewrite H0. cbn.
  induction r as [|a r IH]; [reflexivity|]. cbn in *. apply orb_false_iff in Hr. destruct Hr as [Ha Hr].
  rewrite (IH Hr). f_equal. destruct (cleanable a); [reflexivity|exact Ha].
Qed.

Lemma after_clean_room c : (exists k, find_empty (slots (after_clean c)) = Some k) <-> room c = true.
Proof.
  unfold after_clean, room, find_empty.
  destruct (find_idx (fun a => is_empty (a_id a)) (slots c)) as [k|] eqn:E.
  - split; [intros _|intros _; eauto]. apply orb_true_iff. left.
    destruct (existsb (fun a => is_empty (a_id a)) (slots c)) eqn:Ex; [reflexivity|]. apply find_idx_none in Ex. congruence.
  - pose proof E as Ex. apply find_idx_none in Ex. rewrite Ex. cbn [orb].
    destruct (throttle c); cbn [negb andb].
    + rewrite E. split; [intros [k H]; discriminate|discriminate].
    + cbn [slots]. rewrite <- (clean_room _ Ex). split.
      * intros [k H]. destruct (existsb _ (clean (slots c))) eqn:E2; [reflexivity|]. apply find_idx_none in E2. congruence.
      * apply find_idx_is_some.
Qed.

Lemma after_clean_fail c : room c = false -> slots (after_clean c) = slots c.
Proof.
  unfold room, after_clean, find_empty. intros H. apply orb_false_iff in H. destruct H as [H1 H2].
  apply find_idx_none in H1. rewrite H1. destruct (throttle c); [reflexivity|]. cbn in *. apply clean_nothing. exact H2.
Qed.

(* ------------------------------------------------------------------ registration *)

Theorem register_exact c name pw email :
  let rc := register c name pw email in
  if acceptable c name && negb (taken c name) && room c
  then exists k, find_empty (slots (after_clean c)) = Some k /\ fst rc = ROk (cid name) /\
       slots (snd rc) = set_nth k (mkAcct (cid name) (gen pw) (cstr_field (Z.to_nat ptttype.EMAILSZ) email) false false) (slots (after_clean c))
  else (exists e, fst rc = RErr e) /\ slots (snd rc) = slots c.
Proof.
  cbv zeta. unfold register, acceptable.
  destruct (id_valid name) eqn:Ev; [|cbn; split; [eexists; reflexivity|reflexivity]].
  destruct (ci_eqb (cid name) ptttype.STR_REGNEW) eqn:E1; [cbn; split; [eexists; reflexivity|reflexivity]|].
  destruct (ci_eqb (cid name) ptttype.STR_GUEST) eqn:E2; [cbn; split; [eexists; reflexivity|reflexivity]|].
  destruct (existsb (fun r => ci_eqb (cid name) r) (reserved c)) eqn:E3; [cbn; split; [eexists; reflexivity|reflexivity]|].
  cbn [negb orb andb].
  pose proof (valid_nonempty _ Ev) as Hne.
  destruct (lookup (slots c) (cid name)) as [k0|] eqn:El.
  - assert (Ht : taken c name = true).
    { destruct (taken c name) eqn:Et; [reflexivity|]. apply (lookup_taken c name Hne) in Et. congruence. }
    rewrite Ht. cbn. split; [eauto|reflexivity].
  - apply (lookup_taken c name Hne) in El. rewrite El. cbn [negb andb].
    destruct (room c) eqn:Er.
    + apply after_clean_room in Er. destruct Er as [k Hk]. rewrite Hk. exists k. cbn. repeat split.
    + destruct (find_empty (slots (after_clean c))) as [k|] eqn:Ef.
      * exfalso. assert (room c = true) by (apply after_clean_room; eauto). congruence.
      * cbn. split; [eauto|]. apply after_clean_fail. exact Er.
Qed.

(* ------------------------------------------------------------------ login and password check *)

Theorem login_exact c name pw :
  let rc := login c name pw in
  match lookup (slots c) (cid name) with
  | Some k =>
      let a := nth k (slots c) no_acct in
      if id_valid name && (eqbl (a_id a) ptttype.STR_GUEST || verify (a_pw a) pw)
      then fst rc = ROk (shown_id a) /\
           slots (snd rc) = set_nth k (mkAcct (a_id a) (a_pw a) (a_email a) false (a_xempt a)) (slots c)
      else fst rc = RErr E_USERID /\ snd rc = c
  | None => fst rc = RErr E_USERID /\ snd rc = c
  end.
Proof.
  cbv zeta. unfold login. destruct (id_valid name); cbn [negb andb].
  - destruct (lookup (slots c) (cid name)) as [k|]; [|split; reflexivity].
    destruct (eqbl _ _ || verify _ _); split; reflexivity.
  - destruct (lookup (slots c) (cid name)); split; reflexivity.
Qed.

Theorem check_pw_exact c name pw :
  let rc := check_pw c name pw in
  snd rc = c /\
  (fst rc = ROk [] <-> id_valid name = true /\ exists k, lookup (slots c) (cid name) = Some k /\
                        verify (a_pw (nth k (slots c) no_acct)) pw = true).
Proof.
  cbv zeta. unfold check_pw. destruct (id_valid name); cbn [negb].
  - destruct (lookup (slots c) (cid name)) as [k|].
    + destruct (verify _ pw) eqn:Ev; cbn; (split; [reflexivity|]); split.
      * intros _. split; [reflexivity|]. exists k. split; [reflexivity|exact Ev].
      * intros _. reflexivity.
      * discriminate.
      * intros [_ (k' & Hk & Hv)]. inversion Hk; subst. congruence.
    + cbn. split; [reflexivity|]. split; [discriminate|]. intros [_ (k' & Hk & _)]. discriminate.
  - cbn. split; [reflexivity|]. split; [discriminate|]. intros [H _]. discriminate.
Qed.

(* ------------------------------------------------------------------ password change *)

Theorem change_needs_old c name old new :
  let rc := change_pw c name old new in
  (forall p, fst rc = ROk p ->
     exists k, lookup (slots c) (cid name) = Some k /\ id_valid name = true /\
       verify (a_pw (nth k (slots c) no_acct)) old = true /\
       let a := nth k (slots c) no_acct in
       slots (snd rc) = set_nth k (mkAcct (a_id a) (gen new) (a_email a) (a_old a) (a_xempt a)) (slots c)) /\
  ((forall k, lookup (slots c) (cid name) = Some k -> verify (a_pw (nth k (slots c) no_acct)) old = false) ->
     (exists e, fst rc = RErr e) /\ snd rc = c).
Proof.
  cbv zeta. unfold change_pw. destruct (id_valid name); cbn [negb].
  - destruct (lookup (slots c) (cid name)) as [k|].
    + destruct (verify (a_pw (nth k (slots c) no_acct)) old) eqn:Ev.
      * cbn; split.
        -- intros p _. exists k. repeat split. exact Ev.
        -- intros H. specialize (H k eq_refl). congruence.
      * cbn. split; [intros p H; discriminate|]. intros _. split; [eauto|reflexivity].
    + cbn. split; [intros p H; discriminate|]. intros _. split; [eauto|reflexivity].
  - cbn. split; [intros p H; discriminate|]. intros _. split; [eauto|reflexivity].
Qed.

(* ------------------------------------------------------------------ frame: which slots an operation may change *)

Definition same_except (k : nat) (l l' : list acct) : Prop :=
  length l' = length l /\ forall j, j <> k -> nth_error l' j = nth_error l j.

Lemma same_except_refl k l : same_except k l l.
Proof. split; [reflexivity|intros; reflexivity]. Qed.

Lemma same_except_set k v l : same_except k l (set_nth k v l).
Proof. split; [apply set_nth_length|intros j H; apply set_nth_other; exact H]. Qed.

(* every operation other than a registration changes at most the slot of the account it names *)
Theorem slot_frame_other c o : (forall n p e, o <> ORegister n p e) ->
  exists k, same_except k (slots c) (slots (snd (step c o))).
Proof.
  intros Hnr. destruct o as [n p e|n p|n p|n p q|n e|n|n|]; cbn [step].
  - exfalso. eapply Hnr. reflexivity.
  - unfold login. destruct (id_valid n); cbn [negb]; [|exists O; apply same_except_refl].
    destruct (lookup (slots c) (cid n)) as [k|]; [|exists O; apply same_except_refl].
    destruct (_ || _); [exists k; apply same_except_set|exists O; apply same_except_refl].
  - exists O. destruct (check_pw_exact c n p) as [H _]. rewrite H. apply same_except_refl.
  - unfold change_pw. destruct (id_valid n); cbn [negb]; [|exists O; apply same_except_refl].
    destruct (lookup (slots c) (cid n)) as [k|]; [|exists O; apply same_except_refl].
    destruct (verify _ _); [exists k; apply same_except_set|exists O; apply same_except_refl].
  - unfold change_email. destruct (id_valid n); cbn [negb]; [|exists O; apply same_except_refl].
    destruct (lookup (slots c) (cid n)) as [k|]; [exists k; apply same_except_set|exists O; apply same_except_refl].
  - unfold exists_user. destruct (id_valid n); cbn [negb]; [|exists O; apply same_except_refl].
    destruct (lookup (slots c) (cid n)); exists O; apply same_except_refl.
  - unfold get_user. destruct (id_valid n); cbn [negb]; [|exists O; apply same_except_refl].
    destruct (lookup (slots c) (cid n)); exists O; apply same_except_refl.
  - exists O. apply same_except_refl.
Qed.

(* a registration changes the slot it is given and — only when the table was full and the hourly clean-up ran —
   empties slots of expired accounts other than uid 1 *)
Theorem slot_frame_register c name pw email :
  let c' := snd (register c name pw email) in
  length (slots c') = length (slots c) /\
  exists k, forall j, j <> k ->
    nth_error (slots c') j = nth_error (slots c) j \/
    (find_empty (slots c) = None /\ throttle c = false /\
     exists j' a, j = S j' /\ nth_error (slots c) j = Some a /\ cleanable a = true /\ nth_error (slots c') j = Some no_acct).
Proof.
  cbv zeta.
  assert (Hac : length (slots (after_clean c)) = length (slots c) /\ forall j,
    nth_error (slots (after_clean c)) j = nth_error (slots c) j \/
    (find_empty (slots c) = None /\ throttle c = false /\
     exists j' a, j = S j' /\ nth_error (slots c) j = Some a /\ cleanable a = true /\ nth_error (slots (after_clean c)) j = Some no_acct)).
  { unfold after_clean. destruct (find_empty (slots c)) eqn:Ef; [split; [reflexivity|left; reflexivity]|].
    destruct (throttle c) eqn:Et; [split; [reflexivity|left; reflexivity]|]. cbn [slots]. split; [apply clean_length|].
    intros j. destruct (clean_nth (slots c) j) as [H|H]; [left; exact H|right; repeat split; exact H]. }
  destruct Hac as [Hlen Hac].
  unfold register.
  destruct (_ || _ || _); [split; [reflexivity|exists O; left; reflexivity]|].
  destruct (existsb _ (reserved c)); [split; [reflexivity|exists O; left; reflexivity]|].
  destruct (lookup (slots c) (cid name)); [split; [reflexivity|exists O; left; reflexivity]|].
  destruct (find_empty (slots (after_clean c))) as [k|]; cbn [snd].
  - unfold with_slots. cbn [slots]. split; [rewrite set_nth_length; exact Hlen|]. exists k. intros j Hj.
    rewrite (set_nth_other _ _ _ _ Hj). apply Hac.
  - split; [exact Hlen|]. exists O. intros j _. apply Hac.
Qed.

(* ------------------------------------------------------------------ histories: ids stay distinct up to case *)

Lemma WF_set_same_id c k a a' : WF c -> nth_error (slots c) k = Some a -> a_id a' = a_id a ->
  WF (with_slots c (set_nth k a' (slots c))).
Proof.
  intros W Hk Hid i j x y Hi Hj Hne Hkey. unfold with_slots in *. cbn [slots] in *.
  assert (Hlt : (k < length (slots c))%nat) by (apply nth_error_Some; congruence).
  destruct (Nat.eq_dec i k) as [->|Ni]; destruct (Nat.eq_dec j k) as [->|Nj]; try reflexivity.
  - rewrite set_nth_same in Hi by exact Hlt. inversion Hi; subst x. rewrite set_nth_other in Hj by exact Nj.
    apply (W k j a y Hk Hj); congruence.
  - rewrite set_nth_same in Hj by exact Hlt. inversion Hj; subst y. rewrite set_nth_other in Hi by exact Ni.
    apply (W i k x a Hi Hk Hne). congruence.
  - rewrite set_nth_other in Hi, Hj by assumption. apply (W i j x y Hi Hj Hne Hkey).
Qed.

Lemma WF_clean c : WF c -> WF (mkC (clean (slots c)) (reserved c) true).
Proof.
  intros W i j x y Hi Hj Hne Hkey. cbn [slots] in *.
  destruct (clean_nth (slots c) i) as [Ei|(i' & a & _ & _ & _ & Ei)]; [|rewrite Ei in Hi; inversion Hi; subst x; exfalso; apply Hne; reflexivity].
  destruct (clean_nth (slots c) j) as [Ej|(j' & b & _ & _ & _ & Ej)].
  - rewrite Ei in Hi. rewrite Ej in Hj. apply (W i j x y Hi Hj Hne Hkey).
  - rewrite Ej in Hj. inversion Hj; subst y. cbn in Hkey. exfalso. apply Hne. destruct (a_id x); [reflexivity|discriminate].
Qed.

Lemma WF_after_clean c : WF c -> WF (after_clean c).
Proof.
  intros W. unfold after_clean. destruct (find_empty (slots c)); [exact W|]. destruct (throttle c); [exact W|apply WF_clean; exact W].
Qed.

Lemma lookup_after_clean_none c id : id <> [] -> lookup (slots c) id = None -> lookup (slots (after_clean c)) id = None.
Proof.
  intros Hne H. unfold lookup in *. destruct (is_empty id) eqn:E; [reflexivity|]. apply find_idx_none. apply find_idx_none in H.
  destruct (existsb _ (slots (after_clean c))) eqn:Ex; [|reflexivity]. exfalso.
  apply existsb_nth in Ex. destruct Ex as (k & a & Hk & Hf).
  unfold after_clean in Hk. destruct (find_empty (slots c)).
  - assert (existsb (fun a => ci_eqb (a_id a) id) (slots c) = true) by (apply existsb_nth; eauto). congruence.
  - destruct (throttle c).
    + assert (existsb (fun a => ci_eqb (a_id a) id) (slots c) = true) by (apply existsb_nth; eauto). congruence.
    + cbn [slots] in Hk. destruct (clean_nth (slots c) k) as [Ek|(k' & b & _ & _ & _ & Ek)].
      * rewrite Ek in Hk. assert (existsb (fun a => ci_eqb (a_id a) id) (slots c) = true) by (apply existsb_nth; eauto). congruence.
      * rewrite Ek in Hk. inversion Hk; subst a. cbn in Hf. apply (ci_nonempty [] id Hne Hf). reflexivity.
Qed.

Lemma step_WF c o : WF c -> WF (snd (step c o)).
Proof.
  intros W. destruct o as [n p e|n p|n p|n p q|n e|n|n|]; cbn [step].
  - unfold register. destruct (_ || _ || _) eqn:Ebad; [exact W|]. destruct (existsb _ (reserved c)); [exact W|].
    destruct (lookup (slots c) (cid n)) eqn:El; [exact W|].
    assert (Hv : id_valid n = true) by (destruct (id_valid n); [reflexivity|discriminate]).
    pose proof (valid_nonempty _ Hv) as Hne.
    pose proof (WF_after_clean c W) as W1. pose proof (lookup_after_clean_none c _ Hne El) as El1.
    destruct (find_empty (slots (after_clean c))) as [k|] eqn:Ef; cbn [snd]; [|exact W1].
    set (c1 := after_clean c) in *. set (a' := mkAcct _ _ _ _ _).
    apply find_idx_some in Ef. destruct Ef as (a0 & Hk & He & _). apply empty_spec in He.
    assert (Hlt : (k < length (slots c1))%nat) by (apply nth_error_Some; congruence).
    assert (Hfresh : forall j b, nth_error (slots c1) j = Some b -> key (a_id b) <> key (cid n)).
    { intros j b Hj Hkey. unfold lookup in El1. destruct (is_empty (cid n)) eqn:E; [apply empty_spec in E; contradiction|].
      apply find_idx_none in El1. assert (existsb (fun a => ci_eqb (a_id a) (cid n)) (slots c1) = true); [|congruence].
      apply existsb_nth. exists j, b. split; [exact Hj|apply ci_key; exact Hkey]. }
    intros i j x y Hi Hj Hnx Hkey. unfold with_slots in *. cbn [slots] in *.
    destruct (Nat.eq_dec i k) as [->|Ni]; destruct (Nat.eq_dec j k) as [->|Nj]; try reflexivity.
    + rewrite set_nth_same in Hi by exact Hlt. inversion Hi; subst x. rewrite set_nth_other in Hj by exact Nj.
      exfalso. apply (Hfresh j y Hj). unfold a' in Hkey. cbn [a_id] in Hkey. symmetry. exact Hkey.
    + rewrite set_nth_same in Hj by exact Hlt. inversion Hj; subst y. rewrite set_nth_other in Hi by exact Ni.
      exfalso. apply (Hfresh i x Hi). unfold a' in Hkey. cbn [a_id] in Hkey. exact Hkey.
    + rewrite set_nth_other in Hi, Hj by assumption. apply (W1 i j x y Hi Hj Hnx Hkey).
  - unfold login. destruct (id_valid n); cbn [negb]; [|exact W].
    destruct (lookup (slots c) (cid n)) as [k|] eqn:El; [|exact W]. destruct (_ || _); [|exact W]. cbn [snd].
    destruct (lookup_some _ _ _ El) as (a1 & Ha & _). eapply WF_set_same_id; [exact W|exact Ha|]. cbn. rewrite (nth_nth_error _ _ _ _ Ha). reflexivity.
  - destruct (check_pw_exact c n p) as [H _]. rewrite H. exact W.
  - unfold change_pw. destruct (id_valid n); cbn [negb]; [|exact W].
    destruct (lookup (slots c) (cid n)) as [k|] eqn:El; [|exact W]. destruct (verify _ _); [|exact W]. cbn [snd].
    destruct (lookup_some _ _ _ El) as (a1 & Ha & _). eapply WF_set_same_id; [exact W|exact Ha|]. cbn. rewrite (nth_nth_error _ _ _ _ Ha). reflexivity.
  - unfold change_email. destruct (id_valid n); cbn [negb]; [|exact W].
    destruct (lookup (slots c) (cid n)) as [k|] eqn:El; [|exact W]. cbn [snd].
    destruct (lookup_some _ _ _ El) as (a1 & Ha & _). eapply WF_set_same_id; [exact W|exact Ha|]. cbn. rewrite (nth_nth_error _ _ _ _ Ha). reflexivity.
  - unfold exists_user. destruct (id_valid n); cbn [negb]; [|exact W]. destruct (lookup _ _); exact W.
  - unfold get_user. destruct (id_valid n); cbn [negb]; [|exact W]. destruct (lookup _ _); exact W.
  - exact W.
Qed.

Theorem run_WF ops : forall c, WF c -> WF (snd (run c ops)).
Proof.
  induction ops as [|o r IH]; intros c W; [exact W|]. cbn [run].
  pose proof (step_WF c o W) as W1. destruct (step c o) as [x c1]. cbn [snd] in W1.
  specialize (IH c1 W1). destruct (run c1 r) as [xs c2]. exact IH.
Qed.

(* the number of slots never changes *)
Lemma step_length c o : length (slots (snd (step c o))) = length (slots c).
Proof.
  destruct o as [n p e| | | | | | |].
  - apply (slot_frame_register c n p e).
  - destruct (slot_frame_other c (OLogin name pw)) as [k [H _]]; [discriminate|exact H].
  - destruct (slot_frame_other c (OCheckPw name pw)) as [k [H _]]; [discriminate|exact H].
  - destruct (slot_frame_other c (OChangePw name old new)) as [k [H _]]; [discriminate|exact H].
  - destruct (slot_frame_other c (OChangeEmail name email)) as [k [H _]]; [discriminate|exact H].
  - destruct (slot_frame_other c (OExists name)) as [k [H _]]; [discriminate|exact H].
  - destruct (slot_frame_other c (OGetUser name)) as [k [H _]]; [discriminate|exact H].
  - reflexivity.
Qed.

Theorem run_length ops : forall c, length (slots (snd (run c ops))) = length (slots c).
Proof.
  induction ops as [|o r IH]; intros c; [reflexivity|]. cbn [run].
  pose proof (step_length c o) as H1. destruct (step c o) as [x c1]. cbn [snd] in H1.
  specialize (IH c1). destruct (run c1 r) as [xs c2]. cbn [snd] in *. congruence.
Qed.

(* ------------------------------------------------------------------ end to end: the current password, in any letter case of the id *)

Lemma find_idx_set_new {A} (f : A -> bool) v : forall l k, find_idx f l = None -> (k < length l)%nat -> f v = true ->
  find_idx f (set_nth k v l) = Some k.
Proof.
  induction l as [|a l IH]; intros k Hn Hk Hv; cbn in *; [lia|].
  destruct (f a) eqn:Ea; [discriminate|]. destruct (find_idx f l) eqn:El; [discriminate|].
  destruct k as [|k]; cbn; [rewrite Hv; reflexivity|]. rewrite Ea. rewrite (IH k eq_refl); [reflexivity|lia|exact Hv].
Qed.

Lemma existsb_ext' {A} (f g : A -> bool) (l : list A) : (forall a, f a = g a) -> existsb f l = existsb g l.
Proof. intros H. induction l as [|a l IH]; [reflexivity|]. cbn. rewrite H, IH. reflexivity. Qed.

Lemma nth_set_same {A} (v d : A) : forall l k, (k < length l)%nat -> nth k (set_nth k v l) d = v.
Proof. induction l as [|a l IH]; intros [|k] H; cbn in *; try lia; [reflexivity|]. apply IH. lia. Qed.

Theorem register_then_login c name pw email name' pw' :
  acceptable c name && negb (taken c name) && room c = true ->
  id_valid name' = true -> key (cid name') = key (cid name) ->
  let c' := snd (register c name pw email) in
  (fst (login c' name' pw') = ROk (cid name) <-> hd 0 pw <> 0 /\ kb pw = kb pw') /\
  (fst (login c' name' pw') = ROk (cid name) \/ fst (login c' name' pw') = RErr E_USERID).
Proof.
  intros Hacc Hv' Hkey. cbv zeta.
  pose proof (register_exact c name pw email) as R. cbv zeta in R. rewrite Hacc in R.
  destruct R as (k & Hk & _ & Hs).
  apply andb_true_iff in Hacc. destruct Hacc as [Hacc _]. apply andb_true_iff in Hacc. destruct Hacc as [Hacc Hnt].
  unfold acceptable in Hacc.
  apply andb_true_iff in Hacc. destruct Hacc as [Hacc Hres].
  apply andb_true_iff in Hacc. destruct Hacc as [Hacc H0].
  apply andb_true_iff in Hacc. destruct Hacc as [Hacc Hnew].
  pose proof (valid_nonempty _ Hacc) as Hne. pose proof (valid_nonempty _ Hv') as Hne'.
  apply negb_true_iff in Hnt. apply (lookup_taken c name Hne) in Hnt.
  pose proof (lookup_after_clean_none c _ Hne Hnt) as Hl1.
  pose proof Hk as Hk2. apply find_idx_some in Hk2. destruct Hk2 as (a0 & Hk0 & _ & _).
  assert (Hlt : (k < length (slots (after_clean c)))%nat) by (apply nth_error_Some; congruence).
  set (h := gen pw) in *. set (a' := mkAcct (cid name) h (cstr_field (Z.to_nat ptttype.EMAILSZ) email) false false) in *.
  assert (Hl : lookup (slots (snd (register c name pw email))) (cid name') = Some k).
  { rewrite Hs. unfold lookup in *. destruct (is_empty (cid name')) eqn:E1; [apply empty_spec in E1; contradiction|].
    destruct (is_empty (cid name)) eqn:E2; [apply empty_spec in E2; contradiction|].
    apply find_idx_set_new; [|exact Hlt|apply ci_key; cbn; symmetry; exact Hkey].
    apply find_idx_none. apply find_idx_none in Hl1.
    rewrite (existsb_ext' _ (fun a => ci_eqb (a_id a) (cid name))); [exact Hl1|]. intros a. cbn beta.
    destruct (ci_eqb (a_id a) (cid name')) eqn:E3.
    - symmetry. apply ci_key. apply ci_key in E3. congruence.
    - destruct (ci_eqb (a_id a) (cid name)) eqn:E4; [|reflexivity]. apply ci_key in E4.
      assert (ci_eqb (a_id a) (cid name') = true) by (apply ci_key; congruence). congruence. }
  assert (Hng : eqbl (cid name) ptttype.STR_GUEST = false).
  { destruct (eqbl (cid name) ptttype.STR_GUEST) eqn:E; [|reflexivity]. apply Proofs.C15.eqbl_spec in E.
    apply negb_true_iff in H0. rewrite E in H0. vm_compute in H0. discriminate. }
  assert (Hvalid : id_valid (cid name) = true).
  { unfold id_valid in *. unfold cid, cstr_field in *.
    assert (Hidem : cprefix (firstn USER_ID_SZ (cprefix (firstn USER_ID_SZ name))) = cprefix (firstn USER_ID_SZ name)).
    { assert (Hlen : (length (cprefix (firstn USER_ID_SZ name)) <= Z.to_nat ptttype.IDLEN)%nat).
      { apply andb_true_iff in Hacc. destruct Hacc as [Hacc _]. apply andb_true_iff in Hacc. destruct Hacc as [Hacc _].
        apply andb_true_iff in Hacc. destruct Hacc as [_ Hacc]. apply Nat.leb_le in Hacc. exact Hacc. }
      rewrite firstn_all2 by (unfold USER_ID_SZ in *; lia).
      generalize (firstn USER_ID_SZ name). intros l. induction l as [|x l IH]; [reflexivity|]. cbn.
      destruct (x =? 0) eqn:Ex; [reflexivity|]. cbn. rewrite Ex. f_equal. exact IH. }
    rewrite Hidem. exact Hacc. }
  pose proof (login_exact (snd (register c name pw email)) name' pw') as L. cbv zeta in L. rewrite Hl in L.
  rewrite Hs in L. rewrite (nth_set_same _ _ _ _ Hlt) in L. rewrite Hv' in L. cbn [andb a_id a_pw] in L.
  unfold a' in L at 1 2. cbn [a_id a_pw] in L. rewrite Hng in L. cbn [orb] in L.
  assert (Hshown : shown_id a' = cid name) by (unfold shown_id, a'; cbn [a_id]; rewrite Hvalid; reflexivity).
  destruct (verify h pw') eqn:Ever.
  - destruct L as [L _]. rewrite Hshown in L. split; [|left; exact L].
    split; [intros _; apply (verify_gen pw pw'); exact Ever|intros _; exact L].
  - destruct L as [L _]. split; [|right; exact L]. split.
    + intros E. rewrite L in E. discriminate.
    + intros Hq. apply (verify_gen pw pw') in Hq. fold h in Hq. congruence.
Qed.

(* ------------------------------------------------------------------ non-vacuity *)
Definition s_ (l : list Z) := l.
Definition ex_c : cst :=
  mkC [mkAcct [83;89;83;79;80] (Some (kb [49;50;51])) [] true false;          (* SYSOP, old: uid 1 is never reclaimed *)
       mkAcct [111;108;100;49] (Some (kb [112])) [] true false;               (* old1: expired *)
       mkAcct [103;117;101;115;116] None [] true false]                       (* guest *)
      [[116;101;115;116;48]] false.
Example ex_wf : WF ex_c.
Proof.
  intros i j a b Hi Hj Hne Hk.
  assert (Hi3 : (i < length (slots ex_c))%nat) by (apply nth_error_Some; congruence).
  assert (Hj3 : (j < length (slots ex_c))%nat) by (apply nth_error_Some; congruence).
  cbn in Hi3, Hj3.
  destruct i as [|[|[|i]]]; try lia; destruct j as [|[|[|j]]]; try lia; cbn in Hi, Hj;
    inversion Hi; inversion Hj; subst; try reflexivity; try discriminate.
Qed.
(* a full table: "Alice" is registered into the slot reclaimed from old1; "ALICE" is then taken; login needs the password *)
Example ex_history :
  fst (run ex_c [ORegister [65;108;105;99;101] [112;119] [97]; ORegister [65;76;73;67;69] [120] [];
                 OLogin [97;108;105;99;101] [112;119]; OLogin [97;108;105;99;101] [112;120]; OLogin [71;85;69;83;84] [];
                 OChangePw [97;108;105;99;101] [120] [121]; OChangePw [97;108;105;99;101] [112;119] [121]; OCheckPw [65;108;105;99;101] [121]])
  = [ROk [65;108;105;99;101]; RErr E_EXISTS; ROk [65;108;105;99;101]; RErr E_USERID; ROk [103;117;101;115;116];
     RErr E_USERID; ROk []; ROk []].
Proof. vm_compute. reflexivity. Qed.
