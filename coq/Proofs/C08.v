(* C08 — lemmas about the write-authorisation model (Model/C08.v). *)
From Verif Require Import Base.Common Gen.Consts_default Model.C07 Model.C08.

(* ------------------------------------------------------------------ the coded pieces against their specification *)
Ltac wfields :=
  cbn [w_readable w_sysop w_basic w_post w_loginok w_violatelaw w_moderator w_friend w_banned w_readonly w_default
       w_guestpost w_hidden w_restrictedpost w_lvl_violatelaw w_extra0 w_hasextra w_overlimit w_cd_expired
       w_brd_cooldown w_pt_full w_flood].

Lemma postperm_ok w : (postperm w =? 0) = posting_rules w.
Proof.
  unfold postperm, posting_rules.
  destruct (w_readonly w); [reflexivity |].
  destruct (w_sysop w); [reflexivity |].
  destruct (w_banned w); [reflexivity |].
  destruct (w_default w); [reflexivity |].
  destruct (w_guestpost w); [reflexivity |].
  destruct (w_post w); [| reflexivity].
  destruct (w_hidden w); [reflexivity |].
  destruct (w_restrictedpost w), (w_friend w), (w_violatelaw w), (w_lvl_violatelaw w), (w_extra0 w), (w_hasextra w); reflexivity.
Qed.

Lemma postperm_rule : forall w, postperm w = 0 <-> posting_rules w = true.
Proof. intros w. rewrite <- postperm_ok. apply iff_sym, Z.eqb_eq. Qed.

Lemma restricted_limits w : restricted w = negb (limits_ok w).
Proof. unfold restricted, limits_ok. destruct (w_sysop w), (w_moderator w), (w_overlimit w); reflexivity. Qed.

Lemma cooling_active w : cooling w = cooldown_active w.
Proof.
  unfold cooling, cooldown_active.
  destruct (w_cd_expired w), (w_sysop w), (w_brd_cooldown w), (w_pt_full w), (w_flood w); reflexivity.
Qed.

(* the refusal codes of postpermMsg are permission refusals, never 0 *)
Lemma postperm_codes w : postperm w = 0 \/ postperm w = E_READONLY \/ postperm w = E_BANNED \/ postperm w = E_NOPOST \/
  postperm w = E_RESTRICTED \/ postperm w = E_VIOLATELAW \/ postperm w = E_NOTPERMITTED.
Proof.
  unfold postperm.
  destruct (w_readonly w); [tauto |]. destruct (w_sysop w); [tauto |]. destruct (w_banned w); [tauto |].
  destruct (w_default w); [tauto |]. destruct (w_guestpost w); [tauto |]. destruct (w_post w); [| cbn; tauto].
  destruct (w_hidden w); [tauto |].
  destruct (w_restrictedpost w), (w_friend w), (w_violatelaw w), (w_lvl_violatelaw w), (w_extra0 w), (w_hasextra w); cbn; tauto.
Qed.

(* numeric pieces *)
Lemma restriction_none_iff logindays badpost limlogins limbad :
  restriction_reason logindays badpost limlogins limbad = ptttype.RESTRICT_REASON_NONE <->
  limlogins <= logindays / 10 /\ badpost <= 255 - limbad.
Proof.
  unfold restriction_reason.
  destruct (Z.ltb_spec (logindays / 10) limlogins) as [H | H].
  - split; [intros E; discriminate E | intros [H1 _]; lia].
  - destruct (Z.gtb_spec badpost (255 - limbad)) as [H2 | H2].
    + split; [intros E; discriminate E | intros [_ H3]; lia].
    + split; [intros _; lia | reflexivity].
Qed.

(* Go's fixed-width arithmetic changes nothing on the ranges of the Go types *)
Lemma u8_ok_range x : u8_ok x = true <-> 0 <= x < 256.
Proof. unfold u8_ok. rewrite andb_true_iff, Z.leb_le, Z.ltb_lt. tauto. Qed.
Lemma u32_ok_range x : u32_ok x = true <-> 0 <= x < 4294967296.
Proof. unfold u32_ok. rewrite andb_true_iff, Z.leb_le, Z.ltb_lt. tauto. Qed.

Lemma restriction_go_eq logindays badpost limlogins limbad :
  u32_ok logindays = true -> u8_ok badpost = true -> u8_ok limlogins = true -> u8_ok limbad = true ->
  restriction_reason_go logindays badpost limlogins limbad = restriction_reason logindays badpost limlogins limbad.
Proof.
  rewrite u32_ok_range, !u8_ok_range. intros Hd Hb Hl Hk.
  unfold restriction_reason_go, restriction_reason, wrapu32, wrapu8.
  rewrite (Z.mod_small logindays 4294967296) by lia.
  rewrite (Z.mod_small limlogins 256) by lia.
  rewrite (Z.mod_small limlogins 4294967296) by lia.
  rewrite (Z.mod_small badpost 256) by lia.
  rewrite (Z.mod_small limbad 256) by lia.
  rewrite (Z.mod_small (255 - limbad) 256) by lia.
  assert (Hq : 0 <= logindays / 10 < 4294967296).
  { split; [apply Z.div_pos; lia | apply Z.div_lt_upper_bound; lia]. }
  rewrite (Z.mod_small (logindays / 10) 4294967296) by lia.
  reflexivity.
Qed.

(* the rule in days, without division: the board's limit is kept in units of ten login-days *)
Lemma restriction_rule_days logindays badpost limlogins limbad :
  u32_ok logindays = true -> u8_ok badpost = true -> u8_ok limlogins = true -> u8_ok limbad = true ->
  (restriction_reason_go logindays badpost limlogins limbad = ptttype.RESTRICT_REASON_NONE <->
   10 * limlogins <= logindays /\ badpost + limbad <= 255).
Proof.
  intros Hd Hb Hl Hk. rewrite restriction_go_eq by assumption. rewrite restriction_none_iff.
  apply u32_ok_range in Hd.
  split; intros [H1 H2]; (split; [| lia]).
  - pose proof (Z.mul_div_le logindays 10). lia.
  - apply Z.div_le_lower_bound; lia.
Qed.

(* which of the two limits refuses *)
Lemma restriction_reason_cases logindays badpost limlogins limbad :
  u32_ok logindays = true -> u8_ok badpost = true -> u8_ok limlogins = true -> u8_ok limbad = true ->
  (logindays < 10 * limlogins -> restriction_reason_go logindays badpost limlogins limbad = ptttype.RESTRICT_REASON_NUMLOGIN_DAYS) /\
  (10 * limlogins <= logindays -> 255 < badpost + limbad -> restriction_reason_go logindays badpost limlogins limbad = ptttype.RESTRICT_REASON_BADPOST).
Proof.
  intros Hd Hb Hl Hk. rewrite restriction_go_eq by assumption. apply u32_ok_range in Hd. unfold restriction_reason.
  split.
  - intros H. destruct (Z.ltb_spec (logindays / 10) limlogins) as [_ | H1]; [reflexivity |].
    pose proof (Z.mul_div_le logindays 10). pose proof (Z.mod_pos_bound logindays 10). pose proof (Z.div_mod logindays 10). lia.
  - intros H H2. destruct (Z.ltb_spec (logindays / 10) limlogins) as [H1 | _].
    + assert (limlogins <= logindays / 10) by (apply Z.div_le_lower_bound; lia). lia.
    + destruct (Z.gtb_spec badpost (255 - limbad)) as [_ | H3]; [reflexivity | lia].
Qed.

(* non-vacuity, at the limits where a product kept in a uint8 would wrap: 30 stands for 300 login-days *)
Example big_limit_refuses :
  restriction_reason_go 50 0 30 0 = ptttype.RESTRICT_REASON_NUMLOGIN_DAYS /\
  restriction_reason_go 299 0 30 0 = ptttype.RESTRICT_REASON_NUMLOGIN_DAYS /\
  restriction_reason_go 300 0 30 0 = ptttype.RESTRICT_REASON_NONE /\
  restriction_reason_go 2549 0 255 0 = ptttype.RESTRICT_REASON_NUMLOGIN_DAYS /\
  restriction_reason_go 2550 0 255 0 = ptttype.RESTRICT_REASON_NONE /\
  restriction_reason_go 2550 1 255 255 = ptttype.RESTRICT_REASON_BADPOST.
Proof. vm_compute. repeat split; reflexivity. Qed.

Lemma banned_iff tag expire now : banned tag expire now = true <-> tag = true /\ now < expire.
Proof. unfold banned. rewrite andb_true_iff, Z.gtb_lt. tauto. Qed.

Lemma is_owner_iff m l c : is_owner m l c = true <-> m = true /\ l = true /\ c = true.
Proof. destruct m, l, c; cbn; split; intros; try tauto; try discriminate; destruct H as (? & ? & ?); discriminate. Qed.

(* ---- ownership on id strings: Cstrcmp = 0 exactly when the two C strings (bytes before the first NUL) are equal *)
Lemma cstrcmp_zero_iff : forall a b, cstrcmp a b = 0 <-> cprefix a = cprefix b.
Proof.
  induction a as [| x a IH]; intros b.
  - cbn [cstrcmp cprefix]. destruct b as [| y b]; [tauto |]. cbn [cprefix].
    destruct (Z.eqb_spec y 0) as [-> | Hy]; [cbn; tauto |]. split; [intros H; lia | intros H; discriminate H].
  - cbn [cstrcmp cprefix]. destruct (Z.eqb_spec x 0) as [-> | Hx].
    + destruct b as [| y b]; [tauto |]. cbn [cprefix].
      destruct (Z.eqb_spec y 0) as [-> | Hy]; [cbn; tauto |]. split; [intros H; lia | intros H; discriminate H].
    + destruct b as [| y b].
      * cbn [cprefix]. split; [intros H; contradiction | intros H; discriminate H].
      * cbn [cprefix]. destruct (Z.eqb_spec x y) as [<- | Hxy].
        -- destruct (Z.eqb_spec x 0) as [E | _]; [contradiction |]. rewrite IH. split; [intros ->; reflexivity | intros H; injection H; auto].
        -- destruct (Z.eqb_spec y 0) as [_ | _]; (split; [intros H; lia | intros H; try discriminate H; injection H; intros; contradiction]).
Qed.

Lemma owner_matches_iff owner uid :
  owner_matches owner uid = true <-> cprefix (fixlen OWNER_SZ owner) = cprefix (fixlen USERID_SZ uid).
Proof. unfold owner_matches. rewrite Z.eqb_eq. apply cstrcmp_zero_iff. Qed.

Lemma is_file_owner_iff owner uid fname firstlogin :
  is_file_owner owner uid fname firstlogin = true <->
  cprefix (fixlen OWNER_SZ owner) = cprefix (fixlen USERID_SZ uid) /\ 3 < cstrlen (fixlen FN_SZ fname) /\ firstlogin <= create_time fname.
Proof. unfold is_file_owner. rewrite is_owner_iff, owner_matches_iff, Z.ltb_lt, Z.geb_le. tauto. Qed.

(* ids as they are: no NUL inside, short enough to fit their field *)
Definition id_ok (n : nat) (l : list Z) : Prop := Forall (fun c => c <> 0) l /\ (length l <= n)%nat.
Lemma cprefix_nonul l r : Forall (fun c => c <> 0) l -> cprefix (l ++ r) = l ++ cprefix r.
Proof.
  induction 1 as [| c l Hc _ IH]; [reflexivity |]. cbn [app cprefix].
  destruct (Z.eqb_spec c 0) as [E | _]; [contradiction |]. rewrite IH. reflexivity.
Qed.
Lemma cprefix_zeros n : cprefix (repeat 0 n) = [].
Proof. destruct n; reflexivity. Qed.
Lemma cprefix_fixlen n l : id_ok n l -> cprefix (fixlen n l) = l.
Proof.
  intros [Hz Hl]. unfold fixlen. rewrite firstn_all2 by exact Hl.
  rewrite cprefix_nonul by exact Hz. rewrite cprefix_zeros. apply app_nil_r.
Qed.

(* the author check passes only for the very same id: not for a prefix of it, not for an extension, not for another case *)
Lemma owner_exact owner uid fname firstlogin : id_ok OWNER_SZ owner -> id_ok USERID_SZ uid ->
  is_file_owner owner uid fname firstlogin = true -> owner = uid.
Proof.
  intros Ho Hu H. apply is_file_owner_iff in H. destruct H as [H _].
  rewrite (cprefix_fixlen _ _ Ho), (cprefix_fixlen _ _ Hu) in H. exact H.
Qed.
Lemma owner_not_prefix uid rest fname firstlogin : id_ok OWNER_SZ (uid ++ rest) -> id_ok USERID_SZ uid -> rest <> [] ->
  is_file_owner (uid ++ rest) uid fname firstlogin = false.
Proof.
  intros Ho Hu Hr. destruct (is_file_owner (uid ++ rest) uid fname firstlogin) eqn:E; [| reflexivity].
  apply (owner_exact _ _ _ _ Ho Hu) in E. exfalso. apply Hr.
  apply (app_inv_head uid). rewrite app_nil_r. exact E.
Qed.

Definition id_A1 : list Z := [65; 49].
Definition fn_some : list Z := [77; 46; 49; 54; 48; 55; 50; 48; 50; 50; 51; 57; 46; 65; 46; 51; 48; 68].   (* M.1607202239.A.30D *)
Example owner_examples :
  is_file_owner id_A1 id_A1 fn_some 1000 = true /\
  is_file_owner (id_A1 ++ [48]) id_A1 fn_some 1000 = false /\            (* author A10, editor A1 *)
  is_file_owner id_A1 (id_A1 ++ [48]) fn_some 1000 = false /\            (* author A1, editor A10 *)
  is_file_owner (id_A1 ++ [46]) id_A1 fn_some 1000 = false /\            (* "A1." of an external post *)
  is_file_owner [97; 49] id_A1 fn_some 1000 = false /\                   (* a1 *)
  is_file_owner (id_A1 ++ [0; 88]) id_A1 fn_some 1000 = true /\          (* bytes after the NUL are not part of the id *)
  is_file_owner id_A1 id_A1 fn_some 1607202240 = false /\                (* the id was registered again after the article *)
  is_file_owner id_A1 id_A1 [77; 46; 49] 1000 = false /\
  create_time fn_some = 1607202239.
Proof. vm_compute. repeat split; reflexivity. Qed.

(* ------------------------------------------------------------------ running the sequences *)
(* what a refusal must leave alone: the target's index and directory, the author's counter, and every other board *)
Definition frame (st : state) : Z * Z * Z * Z := (s_dir st, s_files st, s_numposts st, s_other st).
Definition accepted (r : verdict * state) : bool := match fst r with Accept => true | Refuse _ => false end.

Ltac atoms w :=
  rewrite ?postperm_ok, ?restricted_limits, ?cooling_active;
  destruct (w_readable w), (posting_rules w), (limits_ok w), (cooldown_active w), (w_loginok w).

(* NewPost *)
Lemma new_post_accept_iff now w st : accepted (run (new_post_steps now w) st) = may_write w.
Proof. unfold new_post_steps, may_write, accepted. cbn [run]. atoms w; reflexivity. Qed.

Lemma new_post_no_trace now w st : accepted (run (new_post_steps now w) st) = false ->
  frame (snd (run (new_post_steps now w) st)) = frame st.
Proof. unfold new_post_steps, accepted. cbn [run]. atoms w; cbn; intros H; try reflexivity; discriminate H. Qed.

Lemma new_post_effect now w st : accepted (run (new_post_steps now w) st) = true ->
  frame (snd (run (new_post_steps now w) st)) = (s_dir st + 1, s_files st + 1, s_numposts st + 1, s_other st + 1).
Proof. unfold new_post_steps, accepted. cbn [run]. atoms w; cbn; intros H; try reflexivity; discriminate H. Qed.

(* Recommend *)
Definition may_write_but_verified (w : winp) : bool :=
  w_readable w && posting_rules w && limits_ok w && negb (cooldown_active w).

Lemma recommend_accept_iff now w a st :
  accepted (run (recommend_steps now w a) st) = may_write_but_verified w && a_exists a && negb (a_norecommend a || a_locked a).
Proof.
  unfold recommend_steps, may_write_but_verified, accepted. cbn [run]. atoms w; try reflexivity;
  destruct (a_exists a), (a_norecommend a), (a_locked a); reflexivity.
Qed.

Lemma recommend_no_trace now w a st : accepted (run (recommend_steps now w a) st) = false ->
  frame (snd (run (recommend_steps now w a) st)) = frame st.
Proof.
  unfold recommend_steps, accepted. cbn [run]. atoms w; cbn; intros H; try reflexivity;
  destruct (a_exists a), (a_norecommend a), (a_locked a); cbn in *; try reflexivity; discriminate H.
Qed.

(* EditPost *)
Definition edit_rules (w : winp) (a : aux) : bool :=
  w_readable w && posting_rules w && limits_ok w && w_basic w && (a_owner a || w_sysop w).

Lemma edit_accept_iff w a st :
  accepted (run (edit_post_steps w a) st) =
  edit_rules w a && negb (a_voteboard a) && a_exists a && negb (a_filevote a) && negb (a_deleted a).
Proof.
  unfold edit_post_steps, edit_rules, accepted. cbn [run].
  assert (R : posting_rules w = true -> w_readonly w = false).
  { unfold posting_rules. destruct (w_readonly w); [discriminate | reflexivity]. }
  rewrite ?postperm_ok, ?restricted_limits.
  destruct (w_readable w); [| reflexivity].
  destruct (posting_rules w) eqn:P.
  - rewrite (R eq_refl). destruct (a_voteboard a), (a_exists a), (a_filevote a), (a_deleted a), (w_basic w), (limits_ok w), (a_owner a), (w_sysop w); reflexivity.
  - destruct (w_readonly w), (a_voteboard a), (a_exists a), (a_filevote a), (a_deleted a), (w_basic w), (limits_ok w), (a_owner a), (w_sysop w); reflexivity.
Qed.

Lemma edit_no_trace w a st : accepted (run (edit_post_steps w a) st) = false ->
  frame (snd (run (edit_post_steps w a) st)) = frame st.
Proof.
  unfold edit_post_steps, accepted. cbn [run].
  destruct (w_readable w), (w_readonly w), (a_voteboard a), (a_exists a), (a_filevote a), (a_deleted a), (w_basic w),
    (postperm w =? 0), (restricted w), (a_owner a), (w_sysop w); cbn; intros H; try reflexivity; discriminate H.
Qed.

(* CrossPost *)
Lemma cross_accept_iff now ws wt a st :
  accepted (run (cross_post_steps now ws wt a) st) =
  negb (a_voteboard a) && w_readable ws && a_exists a && negb (a_deleted a) && negb (w_violatelaw ws) && w_loginok ws &&
  negb (a_cplog a && (negb (posting_rules ws) || negb (limits_ok ws))) &&
  w_readable wt && posting_rules wt && limits_ok wt && negb (cooldown_active wt).
Proof.
  unfold cross_post_steps, accepted. cbn [run].
  rewrite ?postperm_ok, ?restricted_limits, ?cooling_active.
  destruct (a_voteboard a), (w_readable ws), (a_exists a), (a_deleted a), (w_violatelaw ws), (w_loginok ws), (a_cplog a),
    (posting_rules ws), (limits_ok ws); cbn; try reflexivity;
  destruct (w_readable wt), (posting_rules wt), (limits_ok wt), (cooldown_active wt); reflexivity.
Qed.

Lemma cross_no_trace now ws wt a st : accepted (run (cross_post_steps now ws wt a) st) = false ->
  frame (snd (run (cross_post_steps now ws wt a) st)) = frame st.
Proof.
  unfold cross_post_steps, accepted. cbn [run].
  destruct (a_voteboard a), (w_readable ws), (a_exists a), (a_deleted a), (w_violatelaw ws), (w_loginok ws), (a_cplog a),
    (postperm ws =? 0), (restricted ws); cbn; intros H; try reflexivity;
  destruct (w_readable wt), (postperm wt =? 0), (restricted wt), (cooling wt); cbn in *; try reflexivity; discriminate H.
Qed.

(* ------------------------------------------------------------------ statements for Props/C08.v *)
Definition is_accept (v : verdict) : Prop := v = Accept.
Lemma accepted_true r : accepted r = true <-> fst r = Accept.
Proof. unfold accepted. destruct (fst r); split; intros; congruence. Qed.
Lemma accepted_false r : accepted r = false <-> fst r <> Accept.
Proof. unfold accepted. destruct (fst r); split; intros; congruence. Qed.

Lemma accept_implies_rules_new_post : forall now w st, fst (run (new_post_steps now w) st) = Accept -> may_write w = true.
Proof. intros now w st H. apply accepted_true in H. rewrite new_post_accept_iff in H. exact H. Qed.

Lemma accept_implies_rules_cross_post : forall now ws wt a st, w_loginok wt = w_loginok ws ->
  fst (run (cross_post_steps now ws wt a) st) = Accept -> may_write wt = true /\ w_readable ws = true.
Proof.
  intros now ws wt a st L H. apply accepted_true in H. rewrite cross_accept_iff in H.
  unfold may_write. rewrite L.
  repeat (apply andb_prop in H; destruct H as [H ?]).
  repeat match goal with E : _ = true |- _ => rewrite E end. auto.
Qed.

Lemma accept_implies_rules_recommend_partial : forall now w a st,
  fst (run (recommend_steps now w a) st) = Accept ->
  w_readable w = true /\ posting_rules w = true /\ limits_ok w = true /\ cooldown_active w = false.
Proof.
  intros now w a st H. apply accepted_true in H. rewrite recommend_accept_iff in H. unfold may_write_but_verified in H.
  repeat (apply andb_prop in H; destruct H as [H ?]).
  repeat split; try assumption. apply negb_true_iff. assumption.
Qed.

Definition verified_user : winp :=   (* an ordinary verified user on an open board, everything in order *)
  mk_winp true false true true true false false false false false false false false false false true false false true false false false.
Definition unverified_user : winp :=  (* the same without PERM_LOGINOK *)
  mk_winp true false true true false false false false false false false false false false false true false false true false false false.
Definition cooling_user : winp :=     (* verified, but in an active cool-down with a saturated post counter *)
  mk_winp true false true true true false false false false false false false false false false true false false false false true false.
Definition own_article : aux := mk_aux true true false false false false false false.
Definition st_some : state := mk_state 2 5 100 0 0.

Lemma accept_implies_rules_recommend_refuted : exists now w a st,
  fst (run (recommend_steps now w a) st) = Accept /\ may_write w = false /\ w_loginok w = false.
Proof. exists 0, unverified_user, own_article, st_some. vm_compute. auto. Qed.

Lemma accept_implies_rules_edit_post_partial : forall w a st,
  fst (run (edit_post_steps w a) st) = Accept ->
  w_readable w = true /\ posting_rules w = true /\ limits_ok w = true /\ w_basic w = true.
Proof.
  intros w a st H. apply accepted_true in H. rewrite edit_accept_iff in H. unfold edit_rules in H.
  repeat (apply andb_prop in H; destruct H as [H ?]). auto.
Qed.

Lemma accept_implies_rules_edit_post_refuted :
  (exists w a st, fst (run (edit_post_steps w a) st) = Accept /\ may_write w = false /\ w_loginok w = false) /\
  (exists w a st, fst (run (edit_post_steps w a) st) = Accept /\ may_write w = false /\ cooldown_active w = true).
Proof.
  split.
  - exists unverified_user, own_article, st_some. vm_compute. auto.
  - exists cooling_user, own_article, st_some. vm_compute. auto.
Qed.

Lemma edit_owner : forall w a st, fst (run (edit_post_steps w a) st) = Accept -> a_owner a = true \/ w_sysop w = true.
Proof.
  intros w a st H. apply accepted_true in H. rewrite edit_accept_iff in H. unfold edit_rules in H.
  repeat (apply andb_prop in H; destruct H as [H ?]). apply orb_prop. assumption.
Qed.

(* an accepted edit by a non-sysop: the article's owner field holds exactly the editor's id *)
Lemma edit_owner_id : forall w a st owner uid fname firstlogin,
  a_owner a = is_file_owner owner uid fname firstlogin -> id_ok OWNER_SZ owner -> id_ok USERID_SZ uid ->
  fst (run (edit_post_steps w a) st) = Accept -> owner = uid \/ w_sysop w = true.
Proof.
  intros w a st owner uid fname fl Ha Ho Hu H. destruct (edit_owner w a st H) as [E | E]; [left | right; exact E].
  rewrite Ha in E. exact (owner_exact _ _ _ _ Ho Hu E).
Qed.

(* a cross-post out of a board that logs forwards writes into the source article: accepted only under the source's rules *)
Lemma accept_implies_source_rules_cross_post : forall now ws wt a st,
  fst (run (cross_post_steps now ws wt a) st) = Accept -> a_cplog a = true ->
  w_readable ws = true /\ posting_rules ws = true /\ limits_ok ws = true.
Proof.
  intros now ws wt a st H C. apply accepted_true in H. rewrite cross_accept_iff, C in H.
  repeat (apply andb_prop in H; destruct H as [H ?]).
  destruct (w_readable ws), (posting_rules ws), (limits_ok ws); cbn in *; try discriminate; auto.
Qed.

(* non-vacuity of the source-board refusal: target fine, banned from the BRD_CPLOG source -> refused, nothing written anywhere *)
Definition banned_user : winp :=
  mk_winp true false true true true false false false true false false false false false false true false false true false false false.
Definition cplog_article : aux := mk_aux true false false false false false false true.
Example source_refusal_no_trace :
  run (cross_post_steps 0 banned_user verified_user cplog_article) st_some = (Refuse E_NOPOST, st_some) /\
  fst (run (cross_post_steps 0 verified_user verified_user cplog_article) st_some) = Accept /\
  frame (snd (run (cross_post_steps 0 verified_user verified_user cplog_article) st_some)) = (3, 6, 100, 2).
Proof. vm_compute. auto. Qed.

Lemma refusal_no_trace : forall now w ws a st,
  (fst (run (new_post_steps now w) st) <> Accept -> frame (snd (run (new_post_steps now w) st)) = frame st) /\
  (fst (run (recommend_steps now w a) st) <> Accept -> frame (snd (run (recommend_steps now w a) st)) = frame st) /\
  (fst (run (edit_post_steps w a) st) <> Accept -> frame (snd (run (edit_post_steps w a) st)) = frame st) /\
  (fst (run (cross_post_steps now ws w a) st) <> Accept -> frame (snd (run (cross_post_steps now ws w a) st)) = frame st).
Proof.
  intros. repeat split; intros H; apply accepted_false in H.
  - apply new_post_no_trace; assumption.
  - apply recommend_no_trace; assumption.
  - apply edit_no_trace; assumption.
  - apply cross_no_trace; assumption.
Qed.

Lemma rules_implies_accept : forall now w ws a st, may_write w = true ->
  fst (run (new_post_steps now w) st) = Accept /\
  (a_exists a = true -> a_norecommend a = false -> a_locked a = false -> fst (run (recommend_steps now w a) st) = Accept) /\
  (w_basic w = true -> a_owner a = true \/ w_sysop w = true -> a_voteboard a = false -> a_exists a = true -> a_filevote a = false ->
     a_deleted a = false -> fst (run (edit_post_steps w a) st) = Accept) /\
  (w_readable ws = true -> w_violatelaw ws = false -> w_loginok ws = true -> a_cplog a = false -> a_voteboard a = false ->
     a_exists a = true -> a_deleted a = false -> fst (run (cross_post_steps now ws w a) st) = Accept).
Proof.
  intros now w ws a st M. unfold may_write in M.
  repeat (apply andb_prop in M; destruct M as [M ?]).
  apply negb_true_iff in H.
  repeat split; intros.
  - apply accepted_true. rewrite new_post_accept_iff. unfold may_write. rewrite M, H2, H1, H0, H. reflexivity.
  - apply accepted_true. rewrite recommend_accept_iff. unfold may_write_but_verified. rewrite M, H2, H1, H, H3, H4, H5. reflexivity.
  - apply accepted_true. rewrite edit_accept_iff. unfold edit_rules. rewrite M, H2, H1, H3, H5, H6, H7, H8.
    destruct H4 as [E | E]; rewrite E; [reflexivity | destruct (a_owner a); reflexivity].
  - apply accepted_true. rewrite cross_accept_iff. rewrite H3, H4, H5, H6, H7, H8, H9, M, H2, H1, H. reflexivity.
Qed.

(* non-vacuity *)
Example someone_may_write : may_write verified_user = true /\ fst (run (new_post_steps 0 verified_user) st_some) = Accept /\
  frame (snd (run (new_post_steps 0 verified_user) st_some)) = (3, 6, 101, 1).
Proof. vm_compute. auto. Qed.
Example someone_is_refused : fst (run (new_post_steps 0 unverified_user) st_some) = Refuse E_NOTPERMITTED /\
  fst (run (cross_post_steps 0 verified_user cooling_user own_article) st_some) = Refuse E_COOLDOWN.
Proof. vm_compute. auto. Qed.

(* ================================================================== the site configuration: read-only system boards *)
Lemma tolower_zero c : (tolower c =? 0) = (c =? 0).
Proof.
  unfold tolower. destruct (65 <=? c) eqn:A; destruct (c <=? 90) eqn:B; cbn [andb]; try reflexivity.
  apply Z.leb_le in A. destruct (Z.eqb_spec (c + 32) 0); destruct (Z.eqb_spec c 0); try reflexivity; lia.
Qed.
Lemma cprefix_map_tolower l : cprefix (map tolower l) = map tolower (cprefix l).
Proof.
  induction l as [| c l IH]; [reflexivity |]. cbn [map cprefix]. rewrite tolower_zero.
  destruct (c =? 0); [reflexivity |]. cbn [map]. rewrite IH. reflexivity.
Qed.
(* Cstrcasecmp = 0 exactly when the two C strings are equal up to the case of A..Z *)
Lemma cstrcasecmp_zero_iff a b : cstrcasecmp a b = 0 <-> map tolower (cprefix a) = map tolower (cprefix b).
Proof. unfold cstrcasecmp. rewrite cstrcmp_zero_iff, !cprefix_map_tolower. tauto. Qed.

Definition same_board_name (a b : list Z) : Prop :=
  map tolower (cprefix (fixlen BOARDID_SZ a)) = map tolower (cprefix (fixlen BOARDID_SZ b)).
Lemma is_readonly_board_iff sec allpost name :
  is_readonly_board sec allpost name = true <-> same_board_name name sec \/ same_board_name name allpost.
Proof. unfold is_readonly_board, same_board_name. rewrite orb_true_iff, !Z.eqb_eq, !cstrcasecmp_zero_iff. tauto. Qed.

(* for names as they occur (no NUL, at most 12 bytes): the name itself, up to case *)
Lemma same_board_name_ids a b : id_ok 12 a -> id_ok 12 b -> (same_board_name a b <-> map tolower a = map tolower b).
Proof.
  intros [Na La] [Nb Lb]. unfold same_board_name.
  rewrite !cprefix_fixlen by (split; [assumption | unfold BOARDID_SZ; lia]). tauto.
Qed.

Lemma posting_rules_readonly w : w_readonly w = true -> posting_rules w = false.
Proof. intros H. unfold posting_rules. rewrite H. reflexivity. Qed.
Lemma may_write_readonly w : w_readonly w = true -> may_write w = false.
Proof. intros H. unfold may_write. rewrite (posting_rules_readonly w H). rewrite andb_false_r. reflexivity. Qed.

(* a board the configuration names as read-only: all four operations refuse, and leave no trace *)
Lemma readonly_configured_refuses : forall sec allpost name now w ws a st,
  w_readonly w = is_readonly_board sec allpost name -> same_board_name name sec \/ same_board_name name allpost ->
  (fst (run (new_post_steps now w) st) <> Accept /\ frame (snd (run (new_post_steps now w) st)) = frame st) /\
  (fst (run (recommend_steps now w a) st) <> Accept /\ frame (snd (run (recommend_steps now w a) st)) = frame st) /\
  (fst (run (edit_post_steps w a) st) <> Accept /\ frame (snd (run (edit_post_steps w a) st)) = frame st) /\
  (fst (run (cross_post_steps now ws w a) st) <> Accept /\ frame (snd (run (cross_post_steps now ws w a) st)) = frame st).
Proof.
  intros sec allpost name now w ws a st Hw Hn.
  assert (RO : w_readonly w = true) by (rewrite Hw; apply is_readonly_board_iff; exact Hn).
  pose proof (posting_rules_readonly w RO) as PR.
  destruct (refusal_no_trace now w ws a st) as (T1 & T2 & T3 & T4).
  assert (N1 : fst (run (new_post_steps now w) st) <> Accept).
  { intros H. apply accept_implies_rules_new_post in H. rewrite (may_write_readonly w RO) in H. discriminate. }
  assert (N2 : fst (run (recommend_steps now w a) st) <> Accept).
  { intros H. apply accept_implies_rules_recommend_partial in H. destruct H as (_ & H & _). congruence. }
  assert (N3 : fst (run (edit_post_steps w a) st) <> Accept).
  { intros H. apply accept_implies_rules_edit_post_partial in H. destruct H as (_ & H & _). congruence. }
  assert (N4 : fst (run (cross_post_steps now ws w a) st) <> Accept).
  { intros H. apply accepted_true in H. rewrite cross_accept_iff in H.
    repeat (apply andb_prop in H; destruct H as [H ?]).
    repeat match goal with E : (postperm _ =? 0) = true |- _ => rewrite postperm_ok in E end.
    congruence. }
  repeat split; auto.
Qed.

(* and a board the configuration does not name is not read-only, whatever the compiled-in names were *)
Lemma not_configured_not_readonly sec allpost name :
  ~ same_board_name name sec -> ~ same_board_name name allpost -> is_readonly_board sec allpost name = false.
Proof.
  intros H1 H2. destruct (is_readonly_board sec allpost name) eqn:E; [| reflexivity].
  apply is_readonly_board_iff in E. tauto.
Qed.

Definition n_whoami : list Z := [87; 104; 111; 65; 109; 73].
Definition n_whoami_lc : list Z := [119; 104; 111; 97; 109; 105].
Definition n_allpost : list Z := [65; 76; 76; 80; 79; 83; 84].
Definition n_security : list Z := [83; 101; 99; 117; 114; 105; 116; 121].
Example renamed_allpost :     (* BN_ALLPOST = whoami: WhoAmI is read-only, ALLPOST no longer; a longer / shorter name is another board *)
  is_readonly_board n_security n_whoami_lc n_whoami = true /\ is_readonly_board n_security n_whoami_lc n_allpost = false /\
  is_readonly_board n_security n_allpost n_allpost = true /\ is_readonly_board n_security (n_whoami ++ [50]) n_whoami = false /\
  is_readonly_board n_security [87; 104; 111] n_whoami = false.
Proof. vm_compute. repeat split. Qed.

(* ================================================================== the writer's uid: SHM->cooldowntime[uid-1] *)
Lemma uid_slot_inj u v : uid_slot u = uid_slot v -> u = v.
Proof. unfold uid_slot. lia. Qed.
Lemma cd_get_set_same s slot v : cd_get (cd_set s slot v) slot = v.
Proof. unfold cd_set. cbn [cd_get]. rewrite Z.eqb_refl. reflexivity. Qed.
Lemma cd_get_set_other s slot slot' v : slot' <> slot -> cd_get (cd_set s slot' v) slot = cd_get s slot.
Proof. intros H. unfold cd_set. cbn [cd_get]. destruct (Z.eqb_spec slot' slot); [contradiction | reflexivity]. Qed.
(* every user reads his own word: a planting at the writer's uid is what the writer's decision sees, and a planting at
   any other uid — smaller, larger, equal modulo 2^16 or modulo any table size — never is *)
Lemma cd_of_uid_own s uid v : cd_of_uid (cd_set s (uid_slot uid) v) uid = v.
Proof. apply cd_get_set_same. Qed.
Lemma cd_of_uid_other s uid other v : other <> uid -> cd_of_uid (cd_set s (uid_slot other) v) uid = cd_of_uid s uid.
Proof. intros H. apply cd_get_set_other. intros E. apply uid_slot_inj in E. contradiction. Qed.
Lemma cooldown_word_own_slot : forall s uid other v,
  cd_of_uid (cd_set s (uid_slot uid) v) uid = v /\
  (other <> uid -> cd_of_uid (cd_set s (uid_slot other) v) uid = cd_of_uid s uid).
Proof. intros s uid other v. split; [apply cd_of_uid_own | apply cd_of_uid_other]. Qed.
Lemma cd_of_uid_others : forall fuel l s uid maxusers, others_ok uid maxusers l fuel = true ->
  cd_of_uid (plant_others s l fuel) uid = cd_of_uid s uid.
Proof.
  induction fuel as [| f IH]; intros l s uid maxusers H; [reflexivity |].
  cbn [plant_others]. destruct l as [| u [| c [| p r]]]; try reflexivity.
  cbn [others_ok] in H. repeat (apply andb_prop in H; destruct H as [H ?]).
  rewrite (IH r _ uid maxusers) by assumption. apply cd_of_uid_other.
  match goal with E : negb (u =? uid) = true |- _ => apply negb_true_iff, Z.eqb_neq in E; exact E end.
Qed.

(* an active cool-down refuses a new post, a comment and a cross-post; the verdict is a function of the facts only — the
   writer's uid enters through the word read at his own slot and nowhere else *)
Lemma active_cooldown_refuses : forall now w ws a st, cooldown_active w = true ->
  fst (run (new_post_steps now w) st) <> Accept /\
  fst (run (recommend_steps now w a) st) <> Accept /\
  fst (run (cross_post_steps now ws w a) st) <> Accept.
Proof.
  intros now w ws a st C. repeat split; intros H.
  - apply accept_implies_rules_new_post in H. unfold may_write in H. rewrite C in H. cbn in H. rewrite andb_false_r in H. discriminate.
  - apply accept_implies_rules_recommend_partial in H. destruct H as (_ & _ & _ & H). congruence.
  - apply accepted_true in H. rewrite cross_accept_iff in H.
    repeat (apply andb_prop in H; destruct H as [H ?]).
    match goal with E : negb (cooldown_active w) = true |- _ => rewrite C in E; discriminate E end.
Qed.

Example high_uid_reads_own_word :     (* uid 2 000 000 cooling, uid 1 / 20 000 / 65 537-th neighbours idle: the writer's word decides *)
  cd_of_uid (cd_set (plant_others [] [1; -600; 0; 20000; -600; 0; 2000000 - 65536; -600; 0] 9) (uid_slot 2000000) (600, 15)) 2000000 = (600, 15) /\
  cd_of_uid (cd_set (plant_others [] [1; 600; 15] 3) (uid_slot 65537) (-600, 0)) 65537 = (-600, 0) /\
  cd_of_uid (plant_others [] [1; 600; 15] 3) 65537 = (-1, 0).
Proof. vm_compute. repeat split. Qed.

(* ================================================================== the default board, by NAME *)
(* postpermMsg's "this is the default board" holds exactly when the board's name and DEFAULT_BOARD are the same C string *)
Lemma is_default_board_iff dflt name :
  is_default_board dflt name = true <-> cprefix (fixlen BOARDID_SZ name) = cprefix dflt.
Proof. unfold is_default_board. rewrite Z.eqb_eq. apply cstrcmp_zero_iff. Qed.

Lemma cprefix_id n l : id_ok n l -> cprefix l = l.
Proof.
  intros [Hz _]. rewrite <- (app_nil_r l) at 1. rewrite cprefix_nonul by exact Hz. cbn [cprefix]. apply app_nil_r.
Qed.

(* for names as they occur (no NUL, at most 12 bytes): the very same name — not a longer one that starts with it, not a
   shorter one, not another case *)
Lemma default_board_exact dflt name : id_ok 12 name -> id_ok 12 dflt -> (is_default_board dflt name = true <-> name = dflt).
Proof.
  intros [Nn Ln] Hd. rewrite is_default_board_iff.
  rewrite cprefix_fixlen by (split; [assumption | unfold BOARDID_SZ; lia]).
  rewrite (cprefix_id _ _ Hd). tauto.
Qed.
Lemma default_board_other_name dflt name : id_ok 12 name -> id_ok 12 dflt -> name <> dflt -> is_default_board dflt name = false.
Proof.
  intros Hn Hd Hne. destruct (is_default_board dflt name) eqn:E; [| reflexivity].
  apply (default_board_exact _ _ Hn Hd) in E. contradiction.
Qed.
Lemma default_board_not_extension dflt rest : id_ok 12 (dflt ++ rest) -> id_ok 12 dflt -> rest <> [] ->
  is_default_board dflt (dflt ++ rest) = false.
Proof.
  intros Hn Hd Hr. apply (default_board_other_name _ _ Hn Hd). intros E. apply Hr.
  apply (app_inv_head dflt). rewrite app_nil_r. exact E.
Qed.
Lemma default_board_not_prefix name rest : id_ok 12 name -> id_ok 12 (name ++ rest) -> rest <> [] ->
  is_default_board (name ++ rest) name = false.
Proof.
  intros Hn Hd Hr. apply (default_board_other_name _ _ Hn Hd). intros E. apply Hr.
  apply (app_inv_head name). rewrite app_nil_r. symmetry. exact E.
Qed.

(* the posting rules of a board that is NOT the default board: the text's rules without the default-board exception *)
Definition posting_rules_ordinary (w : winp) : bool :=
  negb (w_readonly w) &&
  (w_sysop w ||
   (negb (w_banned w) &&
    (w_guestpost w ||
     (w_post w &&
      (w_hidden w ||
       ((negb (w_restrictedpost w) || w_friend w) &&
        (if w_violatelaw w then w_lvl_violatelaw w else w_extra0 w || w_hasextra w))))))).
Lemma not_default_ordinary_rules w : w_default w = false -> posting_rules w = posting_rules_ordinary w.
Proof. intros H. unfold posting_rules, posting_rules_ordinary. rewrite H. reflexivity. Qed.

(* whoever fails the posting rules is refused by all four operations, without a trace *)
Lemma rules_false_refuses : forall now w ws a st, posting_rules w = false ->
  (fst (run (new_post_steps now w) st) <> Accept /\ frame (snd (run (new_post_steps now w) st)) = frame st) /\
  (fst (run (recommend_steps now w a) st) <> Accept /\ frame (snd (run (recommend_steps now w a) st)) = frame st) /\
  (fst (run (edit_post_steps w a) st) <> Accept /\ frame (snd (run (edit_post_steps w a) st)) = frame st) /\
  (fst (run (cross_post_steps now ws w a) st) <> Accept /\ frame (snd (run (cross_post_steps now ws w a) st)) = frame st).
Proof.
  intros now w ws a st PR.
  destruct (refusal_no_trace now w ws a st) as (T1 & T2 & T3 & T4).
  assert (N1 : fst (run (new_post_steps now w) st) <> Accept).
  { intros H. apply accept_implies_rules_new_post in H. unfold may_write in H. rewrite PR, andb_false_r in H. discriminate. }
  assert (N2 : fst (run (recommend_steps now w a) st) <> Accept).
  { intros H. apply accept_implies_rules_recommend_partial in H. destruct H as (_ & H & _). congruence. }
  assert (N3 : fst (run (edit_post_steps w a) st) <> Accept).
  { intros H. apply accept_implies_rules_edit_post_partial in H. destruct H as (_ & H & _). congruence. }
  assert (N4 : fst (run (cross_post_steps now ws w a) st) <> Accept).
  { intros H. apply accepted_true in H. rewrite cross_accept_iff in H.
    repeat (apply andb_prop in H; destruct H as [H ?]).
    repeat match goal with E : (postperm _ =? 0) = true |- _ => rewrite postperm_ok in E end.
    congruence. }
  repeat split; auto.
Qed.

(* a board with ANY other name than the default board's — a longer name starting with it included — gets no exemption:
   the coded test is the ordinary rule, and a user the ordinary rule refuses is refused by all four operations *)
Lemma other_name_ordinary_rules : forall dflt name w, w_default w = is_default_board dflt name ->
  id_ok 12 name -> id_ok 12 dflt -> name <> dflt -> (postperm w = 0 <-> posting_rules_ordinary w = true).
Proof.
  intros dflt name w Hw Hn Hd Hne. rewrite (default_board_other_name _ _ Hn Hd Hne) in Hw.
  rewrite <- (not_default_ordinary_rules w Hw). apply postperm_rule.
Qed.
Lemma other_name_refused : forall dflt name now w ws a st, w_default w = is_default_board dflt name ->
  id_ok 12 name -> id_ok 12 dflt -> name <> dflt -> posting_rules_ordinary w = false ->
  (fst (run (new_post_steps now w) st) <> Accept /\ frame (snd (run (new_post_steps now w) st)) = frame st) /\
  (fst (run (recommend_steps now w a) st) <> Accept /\ frame (snd (run (recommend_steps now w a) st)) = frame st) /\
  (fst (run (edit_post_steps w a) st) <> Accept /\ frame (snd (run (edit_post_steps w a) st)) = frame st) /\
  (fst (run (cross_post_steps now ws w a) st) <> Accept /\ frame (snd (run (cross_post_steps now ws w a) st)) = frame st).
Proof.
  intros dflt name now w ws a st Hw Hn Hd Hne PR. rewrite (default_board_other_name _ _ Hn Hd Hne) in Hw.
  apply rules_false_refuses. rewrite (not_default_ordinary_rules w Hw). exact PR.
Qed.

Definition n_sysop : list Z := [83; 89; 83; 79; 80].
Definition no_post_user_on (df : bool) : winp :=      (* a user without the post permission on an open board *)
  mk_winp true false true false true false false false false false df false false false false true false false true false false false.
Example default_board_names :     (* SYSOP; SYSOPnote, SYSOP2, SYSO, sysop, Sysop are other boards *)
  is_default_board n_sysop n_sysop = true /\ is_default_board n_sysop (n_sysop ++ [110; 111; 116; 101]) = false /\
  is_default_board n_sysop (n_sysop ++ [50]) = false /\ is_default_board n_sysop [83; 89; 83; 79] = false /\
  is_default_board n_sysop [115; 121; 115; 111; 112] = false /\ is_default_board n_sysop [83; 121; 115; 111; 112] = false /\
  is_default_board n_sysop (n_sysop ++ [0; 88]) = true /\
  postperm (no_post_user_on (is_default_board n_sysop n_sysop)) = 0 /\
  postperm (no_post_user_on (is_default_board n_sysop (n_sysop ++ [50]))) = E_NOPOST /\
  fst (run (new_post_steps 0 (no_post_user_on (is_default_board n_sysop (n_sysop ++ [50])))) st_some) = Refuse E_NOPOST.
Proof. vm_compute. repeat split; reflexivity. Qed.
