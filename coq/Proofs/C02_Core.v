(* C02 — lemmas about the model of crypt/crypt.go and cmbbs/passwd.go (Model/C02.v). Table facts are sweeps
   (vm_compute over all entries of the tables regenerated from crypt/const.go), structural facts are proved
   for all passwords and salts. Proofs/C02_Tables.v has the FIPS 46-3 derivations of SPtrans and skb. *)
From Verif Require Import Base.Common Base.ListX Base.Sweep Gen.CryptTab Model.C02.
From Verif Require Model.C02_Frozen Model.C02_DesSpec.
Ltac Zify.zify_post_hook ::= Z.div_mod_to_equations.

(* ---------------------------------------------------------------- wrap-around: the masks are mod 2^32 / mod 2^8 *)

Lemma u32_mod x : u32 x = x mod 2 ^ 32.
Proof. unfold u32. change 4294967295 with (Z.ones 32). apply Z.land_ones. lia. Qed.

Lemma u8_mod x : u8 x = x mod 2 ^ 8.
Proof. unfold u8. change 255 with (Z.ones 8). apply Z.land_ones. lia. Qed.

Lemma u32_is_wrapu32 x : u32 x = wrapu32 x.
Proof. rewrite u32_mod. reflexivity. Qed.

Lemma shl32_mod x n : shl32 x n = (Z.shiftl x n) mod 2 ^ 32.
Proof. unfold shl32. apply u32_mod. Qed.

(* ---------------------------------------------------------------- tables: frozen copy, shapes *)

Lemma tables_frozen :
  con_salt = C02_Frozen.con_salt /\ cov_2char = C02_Frozen.cov_2char /\ shifts2 = C02_Frozen.shifts2 /\
  skb = C02_Frozen.skb /\ SPtrans = C02_Frozen.SPtrans.
Proof. repeat split; vm_compute; reflexivity. Qed.

Lemma tab_shape :
  length con_salt = 128%nat /\ length cov_2char = 64%nat /\ length shifts2 = 16%nat /\
  map (@length Z) skb = repeat 64%nat 8 /\ map (@length Z) SPtrans = repeat 64%nat 8.
Proof. repeat split; vm_compute; reflexivity. Qed.

(* the index expressions of desSetKey and dEncrypt stay below 64, so no table access can panic *)
Lemma idx_range a : 0 <= Z.land a 63 < 64.
Proof. change 63 with (Z.ones 6). rewrite Z.land_ones by lia. apply Z.mod_pos_bound. lia. Qed.

(* ---------------------------------------------------------------- the crypt alphabet *)

Definition crypt_char (c : Z) : bool :=
  (c =? 46) || (c =? 47) || ((48 <=? c) && (c <=? 57)) || ((65 <=? c) && (c <=? 90)) || ((97 <=? c) && (c <=? 122)).

Definition cov_ok (v : Z) : bool :=
  match nthZ cov_2char v with
  | Some ch => crypt_char ch && (nth (Z.to_nat v) C02_DesSpec.ALPHABET 0 =? ch) &&
               match nthZ con_salt ch with Some v' => v' =? v | None => false end
  | None => false
  end.
Lemma cov_sweep : forallb cov_ok (zrange 64) = true.
Proof. vm_compute. reflexivity. Qed.

Lemma cov_2char_is_alphabet : cov_2char = C02_DesSpec.ALPHABET.
Proof. vm_compute. reflexivity. Qed.

Lemma cov_char v : 0 <= v < 64 -> exists ch, nthZ cov_2char v = Some ch /\ crypt_char ch = true /\ nthZ con_salt ch = Some v.
Proof.
  intros Hv. pose proof (sweep cov_ok 64 cov_sweep v Hv) as H. unfold cov_ok in H.
  destruct (nthZ cov_2char v) as [ch|]; [|discriminate]. exists ch.
  apply andb_prop in H. destruct H as [H H3]. apply andb_prop in H. destruct H as [H1 _].
  destruct (nthZ con_salt ch) as [v'|]; [|discriminate].
  repeat split; [exact H1|]. f_equal. lia.
Qed.

(* con_salt is total on 7-bit characters and its values are 6-bit *)
Definition salt_ok (x : Z) : bool := match nthZ con_salt x with Some e => (0 <=? e) && (e <? 64) | None => false end.
Lemma salt_sweep : forallb salt_ok (zrange 128) = true.
Proof. vm_compute. reflexivity. Qed.
Lemma con_salt_total x : 0 <= x < 128 -> exists e, nthZ con_salt x = Some e /\ 0 <= e < 64.
Proof.
  intros Hx. pose proof (sweep salt_ok 128 salt_sweep x Hx) as H. unfold salt_ok in H.
  destruct (nthZ con_salt x) as [e|]; [|discriminate]. exists e. split; [reflexivity|lia].
Qed.
Lemma con_salt_crash x : 128 <= x -> nthZ con_salt x = None.
Proof.
  intros Hx. unfold nthZ. destruct (Z.ltb_spec x 0); [lia|]. apply nth_error_None.
  destruct tab_shape as (-> & _). lia.
Qed.

(* ---------------------------------------------------------------- the output loop: 11 characters of 6 bits *)

Lemma shift_or_bit c : 0 <= c -> Z.shiftl c 1 = 2 * c /\ Z.lor (Z.shiftl c 1) 1 = 2 * c + 1.
Proof.
  intros Hc. destruct c as [|p|p]; [split; reflexivity| |lia].
  split; [reflexivity|]. change (Z.shiftl (Z.pos p) 1) with (Z.pos p~0). cbn [Z.lor Pos.lor]. lia.
Qed.

Lemma enc6_bound j : forall bb y u c k, 0 <= c < k ->
  let '(c', _, _) := enc6 j bb y u c in 0 <= c' < k * 2 ^ Z.of_nat j.
Proof.
  induction j as [|j IH]; intros bb y u c k Hc.
  - cbn [enc6]. change (2 ^ Z.of_nat 0) with 1. lia.
  - cbn [enc6]. destruct (shift_or_bit c) as [E1 E2]; [lia|].
    rewrite Nat2Z.inj_succ, Z.pow_succ_r by lia.
    set (c1 := if Z.land (nth y bb 0) u =? 0 then Z.shiftl c 1 else Z.lor (Z.shiftl c 1) 1).
    assert (Hc1 : 0 <= c1 < 2 * k) by (unfold c1; destruct (Z.land (nth y bb 0) u =? 0); lia).
    destruct (shr u 1 =? 0).
    + specialize (IH bb (S y) 128 c1 (2 * k) Hc1). destruct (enc6 j bb (S y) 128 c1) as [[c' y'] u']. lia.
    + specialize (IH bb y (shr u 1) c1 (2 * k) Hc1). destruct (enc6 j bb y (shr u 1) c1) as [[c' y'] u']. lia.
Qed.

Lemma enc_chars_shape i : forall bb y u, exists cs,
  enc_chars i bb y u = Ok cs /\ length cs = i /\ forallb crypt_char cs = true.
Proof.
  induction i as [|i IH]; intros bb y u.
  - exists []. repeat split.
  - cbn [enc_chars]. pose proof (enc6_bound 6 bb y u 0 1 ltac:(lia)) as Hb.
    destruct (enc6 6 bb y u 0) as [[c y'] u']. change (1 * 2 ^ Z.of_nat 6) with 64 in Hb.
    destruct (cov_char c Hb) as (ch & -> & Hch & _).
    destruct (IH bb y' u') as (cs & -> & Hl & Hcs).
    exists (ch :: cs). cbn [res_map length forallb]. rewrite Hch, Hcs, Hl. repeat split.
Qed.

Lemma encode_shape l r : exists cs, encode l r = Ok cs /\ length cs = 11%nat /\ forallb crypt_char cs = true.
Proof. unfold encode. apply enc_chars_shape. Qed.

(* ---------------------------------------------------------------- shape of a hash *)

Lemma norm_byte_idem s : norm_byte (norm_byte s) = norm_byte s.
Proof. unfold norm_byte. destruct (Z.eqb_spec s 0) as [->|H]; [reflexivity|]. destruct (Z.eqb_spec s 0); [contradiction|reflexivity]. Qed.
Lemma norm_byte_nonzero s : norm_byte s <> 0.
Proof. unfold norm_byte. destruct (Z.eqb_spec s 0); lia. Qed.
Lemma norm_byte_range s : 0 <= s < 128 -> 0 <= norm_byte s < 128.
Proof. unfold norm_byte. destruct (Z.eqb_spec s 0); lia. Qed.
Lemma norm_idem salt : norm (norm salt) = norm salt.
Proof. unfold norm. cbn [nth]. rewrite !norm_byte_idem. reflexivity. Qed.

Lemma fcrypt_kb_shape kb s0 s1 rest : 0 <= s0 < 128 -> 0 <= s1 < 128 ->
  exists cs, fcrypt_kb kb (s0 :: s1 :: rest) = Ok (norm_byte s0 :: norm_byte s1 :: cs ++ [0]) /\
             length cs = 11%nat /\ forallb crypt_char cs = true.
Proof.
  intros H0 H1. unfold fcrypt_kb.
  destruct (con_salt_total (norm_byte s0) (norm_byte_range s0 H0)) as (e0 & -> & _).
  destruct (con_salt_total (norm_byte s1) (norm_byte_range s1 H1)) as (e1 & -> & _).
  destruct (body (set_key kb) (u32 e0) (shl32 e1 4)) as [l r].
  destruct (encode_shape l r) as (cs & -> & Hl & Hc).
  exists cs. cbn [res_map]. repeat split; assumption.
Qed.

(* the salt only matters through its first two bytes, and only through their normal form *)
Lemma fcrypt_kb_norm kb s0 s1 rest rest' :
  fcrypt_kb kb (s0 :: s1 :: rest) = fcrypt_kb kb (norm_byte s0 :: norm_byte s1 :: rest').
Proof. unfold fcrypt_kb. rewrite !norm_byte_idem. reflexivity. Qed.

Lemma fcrypt_kb_crash_short kb salt : (length salt < 2)%nat -> fcrypt_kb kb salt = Crash.
Proof. destruct salt as [|a [|b r]]; cbn [length]; intros H; try lia; reflexivity. Qed.

Lemma fcrypt_kb_crash_high0 kb s0 s1 rest : 128 <= s0 -> fcrypt_kb kb (s0 :: s1 :: rest) = Crash.
Proof.
  intros H. unfold fcrypt_kb. assert (E : norm_byte s0 = s0) by (unfold norm_byte; destruct (Z.eqb_spec s0 0); lia).
  rewrite E, con_salt_crash by lia. reflexivity.
Qed.

Definition salt7 (salt : list Z) : Prop :=
  (2 <= length salt)%nat /\ 0 <= nth 0 salt 0 < 128 /\ 0 <= nth 1 salt 0 < 128.

Lemma shape pw salt : salt7 salt ->
  exists h, fcrypt pw salt = Ok h /\ length h = 14%nat /\ nth 13 h 1 = 0 /\ firstn 2 h = norm salt /\
            forallb crypt_char (firstn 11 (skipn 2 h)) = true.
Proof.
  intros (Hl & H0 & H1). destruct salt as [|s0 [|s1 rest]]; cbn [length] in Hl; try lia. cbn [nth] in H0, H1.
  unfold fcrypt. destruct (fcrypt_kb_shape (keyblock pw) s0 s1 rest H0 H1) as (cs & -> & Hn & Hc).
  eexists. split; [reflexivity|].
  do 12 (destruct cs as [|? cs]; cbn [length] in Hn; try lia).
  cbn [app length nth firstn skipn]. unfold norm. cbn [nth]. repeat split. exact Hc.
Qed.

(* ---------------------------------------------------------------- key locality *)

Lemma key_locality pw pw' salt : keyblock pw = keyblock pw' -> fcrypt pw salt = fcrypt pw' salt.
Proof. unfold fcrypt. intros ->. reflexivity. Qed.

Lemma key_loop_length n : forall buf, length (key_loop n buf) = n.
Proof.
  induction n as [|n IH]; intros buf; [reflexivity|]. cbn [key_loop].
  destruct buf as [|c r]; [apply repeat_length|]. destruct (c =? 0); [apply repeat_length|]. cbn [length]. rewrite IH. reflexivity.
Qed.
Lemma keyblock_length pw : length (keyblock pw) = 8%nat.
Proof. apply key_loop_length. Qed.

(* bytes after the eighth are ignored *)
Lemma key_loop_tail n : forall a t t', length a = n -> key_loop n (a ++ t) = key_loop n (a ++ t').
Proof.
  induction n as [|n IH]; intros a t t' Hl; [reflexivity|].
  destruct a as [|c a]; [discriminate|]. cbn [app key_loop]. destruct (c =? 0); [reflexivity|].
  f_equal. apply IH. cbn [length] in Hl. lia.
Qed.
Lemma keyblock_after_8 a t t' : length a = 8%nat -> keyblock (a ++ t) = keyblock (a ++ t').
Proof. apply key_loop_tail. Qed.

(* bytes after a NUL are ignored *)
Lemma key_loop_nul n : forall a t t', key_loop n (a ++ 0 :: t) = key_loop n (a ++ 0 :: t').
Proof.
  induction n as [|n IH]; intros a t t'; [reflexivity|].
  destruct a as [|c a]; [reflexivity|]. cbn [app key_loop]. destruct (c =? 0); [reflexivity|]. f_equal. apply IH.
Qed.
Lemma keyblock_after_nul a t t' : keyblock (a ++ 0 :: t) = keyblock (a ++ 0 :: t').
Proof. apply key_loop_nul. Qed.

(* bit 7 is ignored (a byte is a terminator only if all eight bits are zero) *)
Definition same_low7 (c c' : Z) : Prop := c mod 128 = c' mod 128 /\ (c = 0 <-> c' = 0).
Lemma key_byte_low7 c : u8 (Z.shiftl c 1) = 2 * (c mod 128).
Proof. rewrite u8_mod, Z.shiftl_mul_pow2 by lia. change (2 ^ 1) with 2. change (2 ^ 8) with 256. lia. Qed.
Lemma key_loop_bit7 n : forall pw pw', Forall2 same_low7 pw pw' -> key_loop n pw = key_loop n pw'.
Proof.
  induction n as [|n IH]; intros pw pw' H; [reflexivity|].
  destruct H as [|c c' r r' (Hm & Hz) Hr]; [reflexivity|]. cbn [key_loop].
  destruct (Z.eqb_spec c 0) as [Hc|Hc], (Z.eqb_spec c' 0) as [Hc'|Hc']; try reflexivity; try (exfalso; tauto).
  rewrite !key_byte_low7, Hm. f_equal. apply IH. exact Hr.
Qed.
Lemma keyblock_bit7 pw pw' : Forall2 same_low7 pw pw' -> keyblock pw = keyblock pw'.
Proof. apply key_loop_bit7. Qed.

(* the key block is crypt(3)'s: bytes up to the first NUL, at most 8, each (c << 1) & 0xFF, zero padded *)
Lemma key_loop_spec n : forall pw,
  key_loop n pw = map (fun c => (2 * c) mod 256) (firstn n (cprefix pw)) ++ repeat 0 (n - length (firstn n (cprefix pw))).
Proof.
  induction n as [|n IH]; intros pw; [reflexivity|].
  destruct pw as [|c r]; [reflexivity|]. cbn [key_loop cprefix].
  destruct (c =? 0); [reflexivity|]. cbn [firstn map length app]. rewrite IH.
  f_equal. rewrite u8_mod, Z.shiftl_mul_pow2 by lia. change (2 ^ 1) with 2. change (2 ^ 8) with 256. f_equal. lia.
Qed.
Lemma keyblock_is_crypt_key pw : keyblock pw = C02_DesSpec.crypt_key pw.
Proof. unfold keyblock, C02_DesSpec.crypt_key. apply key_loop_spec. Qed.

(* the 56 key bits crypt(3) uses: low 7 bits of the first 8 bytes of the C string, zero padded *)
Definition low7_key (pw : list Z) : list Z :=
  let p := firstn 8 (cprefix pw) in map (fun c => c mod 128) p ++ repeat 0 (8 - length p).
Lemma map_repeat' {A B} (f : A -> B) x n : map f (repeat x n) = repeat (f x) n.
Proof. induction n as [|n IH]; [reflexivity|]. cbn [repeat map]. rewrite IH. reflexivity. Qed.
Lemma keyblock_low7 pw : keyblock pw = map (Z.mul 2) (low7_key pw).
Proof.
  rewrite keyblock_is_crypt_key. unfold C02_DesSpec.crypt_key, low7_key. cbv zeta.
  rewrite map_app, map_map, map_repeat'. f_equal. apply map_ext. intros c.
  change 256 with (2 * 128). apply Z.mul_mod_distr_l; lia.
Qed.
Lemma double_inj l : forall l', map (Z.mul 2) l = map (Z.mul 2) l' -> l = l'.
Proof.
  induction l as [|a l IH]; intros [|b l'] H; try discriminate; [reflexivity|].
  pose proof (f_equal (hd 0) H) as Hab. pose proof (f_equal (@tl Z) H) as Hl. cbn [map hd tl] in Hab, Hl.
  f_equal; [lia|apply IH; exact Hl].
Qed.
Lemma keyblock_iff_low7 pw pw' : keyblock pw = keyblock pw' <-> low7_key pw = low7_key pw'.
Proof. rewrite !keyblock_low7. split; [apply double_inj|intros ->; reflexivity]. Qed.

(* ---------------------------------------------------------------- generate, then verify *)

Lemma list_eqb_spec a : forall b, list_eqb a b = true <-> a = b.
Proof.
  unfold list_eqb. induction a as [|x a IH]; intros [|y b]; cbn [length combine forallb Nat.eqb andb fst snd]; split; intros H;
    try reflexivity; try discriminate.
  - apply andb_prop in H. destruct H as [Hl H]. apply andb_prop in H. destruct H as [Hxy H].
    f_equal; [lia|]. apply IH. rewrite Hl, H. reflexivity.
  - injection H as -> ->. rewrite Z.eqb_refl. cbn [andb]. apply IH. reflexivity.
Qed.

Lemma fcrypt_fixpoint pw salt h : fcrypt pw salt = Ok h -> fcrypt pw h = Ok h.
Proof.
  unfold fcrypt. destruct salt as [|s0 [|s1 rest]]; try discriminate. intros H.
  assert (exists t, h = norm_byte s0 :: norm_byte s1 :: t) as (t & ->).
  { revert H. unfold fcrypt_kb. destruct (nthZ con_salt (norm_byte s0)); [|discriminate].
    destruct (nthZ con_salt (norm_byte s1)); [|discriminate].
    destruct (body _ _ _) as [l r]. destruct (encode l r) as [cs| |]; try discriminate.
    cbn [res_map]. intros [= <-]. eexists. reflexivity. }
  rewrite <- H. symmetry. apply fcrypt_kb_norm.
Qed.

Lemma check_accepts_iff stored pw : check_passwd stored pw = Ok true <-> fcrypt pw stored = Ok stored.
Proof.
  unfold check_passwd. destruct (fcrypt pw stored) as [h| |]; cbn [res_map]; split; intros H; try discriminate.
  - injection H as H. apply list_eqb_spec in H. subst. reflexivity.
  - injection H as ->. f_equal. apply list_eqb_spec. reflexivity.
Qed.

Lemma generate_then_verify pw salt : salt7 salt ->
  exists h, fcrypt pw salt = Ok h /\ forall pw', keyblock pw' = keyblock pw -> check_passwd h pw' = Ok true.
Proof.
  intros Hs. destruct (shape pw salt Hs) as (h & Hh & _). exists h. split; [exact Hh|].
  intros pw' Hk. apply check_accepts_iff. rewrite (key_locality pw' pw h Hk). apply (fcrypt_fixpoint pw salt). exact Hh.
Qed.

(* the real entry points: GenPasswd with the salt it drew (two 7-bit values), then CheckPasswd *)
Lemma gen_then_check c pw s0 s1 : c <> 0 -> 0 <= s0 < 128 -> 0 <= s1 < 128 ->
  exists h, gen_passwd (c :: pw) [s0; s1] = Ok h /\ check_passwd h (c :: pw) = Ok true.
Proof.
  intros Hc H0 H1. unfold gen_passwd. destruct (Z.eqb_spec c 0); [contradiction|].
  destruct (generate_then_verify (c :: pw) [s0; s1]) as (h & Hh & Hv).
  { unfold salt7. cbn [length nth]. lia. }
  exists h. split; [exact Hh|]. apply Hv. reflexivity.
Qed.

(* the empty hash GenPasswd hands out for an empty password (or one starting with NUL) matches no password *)
Lemma gen_empty salt : gen_passwd [] salt = Ok (repeat 0 14) /\ forall r, gen_passwd (0 :: r) salt = Ok (repeat 0 14).
Proof. split; reflexivity. Qed.
Lemma empty_hash_never_verifies pw : check_passwd (repeat 0 14) pw = Ok false.
Proof.
  unfold check_passwd, fcrypt. change (repeat 0 14) with (0 :: 0 :: repeat 0 12).
  destruct (fcrypt_kb_shape (keyblock pw) 0 0 (repeat 0 12)) as (cs & -> & Hl & _); [lia|lia|].
  cbn [res_map]. f_equal. do 12 (destruct cs as [|? cs]; cbn [length] in Hl; try lia). reflexivity.
Qed.

(* a salt byte >= 128 (never produced by GenPasswd, never present in an ASCII hash) makes Go index con_salt[128..] *)
Lemma high_salt_crashes pw s0 s1 rest : 128 <= s0 -> fcrypt pw (s0 :: s1 :: rest) = Crash.
Proof. intros H. unfold fcrypt. apply fcrypt_kb_crash_high0. exact H. Qed.

(* ---------------------------------------------------------------- what can be said on the reject side *)

Lemma reject_partial :
  (forall stored pw, check_passwd stored pw = Ok true <-> fcrypt pw stored = Ok stored) /\
  (forall pw pw', low7_key pw <> low7_key pw' -> keyblock pw <> keyblock pw').
Proof.
  split; [exact check_accepts_iff|]. intros pw pw' H E. apply H. apply keyblock_iff_low7. exact E.
Qed.

(* ---------------------------------------------------------------- packaged statements for Props/C02.v *)

Lemma key_is_crypt3_key pw pw' :
  keyblock pw = C02_DesSpec.crypt_key pw /\ (keyblock pw = keyblock pw' <-> low7_key pw = low7_key pw').
Proof. split; [apply keyblock_is_crypt_key|apply keyblock_iff_low7]. Qed.

Lemma empty_password_cannot_login salt r pw :
  gen_passwd [] salt = Ok (repeat 0 14) /\ gen_passwd (0 :: r) salt = Ok (repeat 0 14) /\
  check_passwd (repeat 0 14) pw = Ok false.
Proof. split; [reflexivity|]. split; [reflexivity|]. apply empty_hash_never_verifies. Qed.

(* ---------------------------------------------------------------- the hypotheses are met by ordinary inputs *)

Example salt7_ex : salt7 [127; 0] /\ salt7 [97; 98; 99].
Proof. unfold salt7. cbn [length nth]. lia. Qed.
Example same_low7_ex : Forall2 same_low7 [97; 128; 200] [225; 128; 72] /\ keyblock [97; 128; 200] = keyblock [225; 128; 72].
Proof. split; [|reflexivity]. repeat constructor; lia. Qed.
Example after_8_ex : (keyblock ([1; 2; 3; 4; 5; 6; 7; 8] ++ [9])) = (keyblock ([1; 2; 3; 4; 5; 6; 7; 8] ++ [10; 11])).
Proof. reflexivity. Qed.
Example low7_differs_ex : low7_key [97] <> low7_key [98] /\ low7_key [97; 0; 5] = low7_key [225].
Proof. split; [discriminate|reflexivity]. Qed.
Example check_ex : check_passwd [65; 65; 51; 81; 66; 104; 76; 87; 107; 49; 66; 87; 65; 0] [48; 49; 50; 51; 52; 53; 54; 55; 56; 57] = Ok true /\
                   check_passwd [65; 65; 51; 81; 66; 104; 76; 87; 107; 49; 66; 87; 65; 0] [48; 49; 50; 51; 52; 53; 54; 54] = Ok false.
Proof. split; vm_compute; reflexivity. Qed.
