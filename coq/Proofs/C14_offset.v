(* C14 — the offset computation of AppendRecord in machine arithmetic (Model/C14.v append_idx / append_off / append_ret)
   coincides with the unbounded arithmetic of the interleaving model for every file length an off_t can hold. *)
From Verif Require Import Base.Common Model.C14.
From Coq Require Import ZArith Lia Arith PeanoNat.
Local Open Scope Z_scope.

Lemma wrap64s_small x : -9223372036854775808 <= x < 9223372036854775808 -> wrap64s x = x.
Proof.
  intros Hx. unfold wrap64s. rewrite Z.mod_small by lia. lia.
Qed.

Lemma div_bounds fsize szz : 0 < szz -> 0 <= fsize ->
  0 <= fsize / szz <= fsize /\ fsize / szz * szz <= fsize < fsize / szz * szz + szz.
Proof.
  intros Hs Hf.
  pose proof (Z.div_mod fsize szz ltac:(lia)) as Hdm.
  pose proof (Z.mod_pos_bound fsize szz Hs) as Hm.
  assert (H0 : 0 <= fsize / szz) by (apply Z.div_pos; lia).
  split; [split; [exact H0|]|nia].
  nia.
Qed.

Lemma offset_exact fsize szz : 0 < szz -> 0 <= fsize -> fsize + szz < 9223372036854775808 ->
  append_idx fsize szz = fsize / szz /\
  append_off fsize szz = fsize / szz * szz /\
  append_ret fsize szz = fsize / szz + 1 /\
  append_seek_ok fsize szz = true /\
  append_off fsize szz <= fsize < append_off fsize szz + szz /\
  (fsize mod szz = 0 -> append_off fsize szz = fsize) /\
  Z.to_nat (append_off fsize szz) = (Z.to_nat fsize / Z.to_nat szz * Z.to_nat szz)%nat /\
  Z.to_nat (append_ret fsize szz) = S (Z.to_nat fsize / Z.to_nat szz).
Proof.
  intros Hs Hf Hlim.
  destruct (div_bounds fsize szz Hs Hf) as [[Hq0 Hq1] [Hlo Hhi]].
  assert (Hi : append_idx fsize szz = fsize / szz).
  { unfold append_idx. rewrite (wrap64s_small szz) by lia.
    rewrite Z.quot_div_nonneg by lia. apply wrap64s_small. lia. }
  assert (Ho : append_off fsize szz = fsize / szz * szz).
  { unfold append_off. rewrite Hi, (wrap64s_small szz), (wrap64s_small (fsize / szz)) by lia.
    apply wrap64s_small. lia. }
  assert (Hr : append_ret fsize szz = fsize / szz + 1).
  { unfold append_ret. rewrite Hi. apply wrap64s_small. lia. }
  assert (Hnat : Z.to_nat (fsize / szz) = (Z.to_nat fsize / Z.to_nat szz)%nat).
  { apply Nat2Z.inj. rewrite Nat2Z.inj_div, !Z2Nat.id by lia. reflexivity. }
  repeat split.
  - exact Hi.
  - exact Ho.
  - exact Hr.
  - unfold append_seek_ok. rewrite Ho. apply Z.leb_le. nia.
  - rewrite Ho. exact Hlo.
  - rewrite Ho. exact Hhi.
  - intros Hm. rewrite Ho. pose proof (Z.div_mod fsize szz ltac:(lia)). nia.
  - rewrite Ho, Z2Nat.inj_mul, Hnat by lia. reflexivity.
  - rewrite Hr, Z2Nat.inj_add, Hnat by lia. cbn. lia.
Qed.

(* non-vacuity, at the lengths where narrower arithmetic breaks: 2 GiB, 4 GiB and 1 TiB of 128-byte records *)
Example offset_2GiB : append_ret 2147483648 128 = 16777217 /\ append_off 2147483648 128 = 2147483648.
Proof. vm_compute. split; reflexivity. Qed.
Example offset_4GiB : append_ret 4294967296 128 = 33554433 /\ append_off 4294967296 128 = 4294967296.
Proof. vm_compute. split; reflexivity. Qed.
Example offset_1TiB : append_ret 1099511627776 128 = 8589934593 /\ append_off 1099511627776 128 = 1099511627776.
Proof. vm_compute. split; reflexivity. Qed.

(* the statement is about the widths: the same expressions evaluated in 32 bits (wrap32 of Base/Common.v) give a negative
   offset at 2 GiB (Seek refuses it: every later append fails) and offset 0 at 4 GiB (the first record is overwritten) *)
Example offset_in_32_bits_breaks :
  wrap32 (wrap32 (2147483648 / 128) * 128) = -2147483648 /\ wrap32 (wrap32 (4294967296 / 128) * 128) = 0.
Proof. vm_compute. split; reflexivity. Qed.
