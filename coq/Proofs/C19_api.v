(* C19: every tree the API can build (NewFavRaw, then any sequence of AddBoard/AddLine/AddFolder in any folder,
   attribute / payload assignments, refusals at the limits included) has consistent counters and sequential ids
   on every level; such trees are well-formed (wf_fav) and the reader's renumbering changes nothing in them but
   the FavNum cache of the sub-folders. *)
From Verif Require Import Base.Common Base.ListX Base.Fs Gen.Consts_default Model.C19 Proofs.C19_rt.
From Coq Require Import ZifyBool.
Ltac Zify.zify_post_hook ::= Z.div_mod_to_equations.

(* ---------------------------------------------------------------- counting the entries of one level *)
Fixpoint nboards (its : list item) : Z :=
  match its with [] => 0 | IBoard _ _ _ _ :: r => 1 + nboards r | _ :: r => nboards r end.
Fixpoint nlines (its : list item) : Z :=
  match its with [] => 0 | ILine _ _ :: r => 1 + nlines r | _ :: r => nlines r end.
Fixpoint nfolders (its : list item) : Z :=
  match its with [] => 0 | IFolder _ _ _ _ _ :: r => 1 + nfolders r | _ :: r => nfolders r end.

(* line ids and folder ids count up from lid+1 / fid+1 in entry order (top level of the list only) *)
Fixpoint ids_seq (its : list item) (lid fid : Z) : Prop :=
  match its with
  | [] => True
  | IBoard _ _ _ _ :: r => ids_seq r lid fid
  | ILine _ l :: r => l = lid + 1 /\ ids_seq r (lid + 1) fid
  | IFolder _ f _ _ _ :: r => f = fid + 1 /\ ids_seq r lid (fid + 1)
  end.

(* number of entries below an entry / in a forest, all levels *)
Fixpoint total_item (i : item) : Z :=
  match i with
  | IFolder _ _ _ _ sub => fold_right (fun x acc => 1 + total_item x + acc) 0 sub
  | _ => 0
  end.
Definition total_items (its : list item) : Z := fold_right (fun x acc => 1 + total_item x + acc) 0 its.

(* the counters of one level say what the level holds: NBoards/NLines/NFolders are the numbers of boards, lines
   and folders, LineID = NLines, FolderID = NFolders, the k-th line has Lid k and the k-th folder Fid k, and
   everything fits the Go types (int8 / int16) *)
Definition level_ok (h : hdr) (its : list item) : Prop :=
  h_nb h = nboards its /\ h_nl h = nlines its /\ h_nf h = nfolders its /\
  h_lineid h = nlines its /\ h_folderid h = nfolders its /\
  ids_seq its 0 0 /\ nlines its < 128 /\ nfolders its < 128 /\ lenZ its < 32768.

(* level_ok on every level, payload fields within their Go types; z = true additionally says that the FavNum cache
   of every sub-folder is 0 (what the API leaves there: only the reader fills it) *)
Fixpoint sok_item (z : bool) (i : item) : Prop :=
  match i with
  | IBoard a b v ba => i8 a /\ i32 b /\ i32 v /\ i8 ba
  | ILine a l => i8 a /\ i8 l
  | IFolder a f t h sub =>
      i8 a /\ i8 f /\ length t = TITLE_SZ /\ level_ok h sub /\ (if z then h_favnum h = 0 else True) /\
      fold_right (fun x acc => sok_item z x /\ acc) True sub
  end.
Definition lvl (z : bool) (f : fav) : Prop := level_ok (fst f) (snd f) /\ Forall (sok_item z) (snd f).
(* a whole tree: every level consistent, fewer than 2^15 entries in total *)
Definition sok_fav (z : bool) (f : fav) : Prop := lvl z f /\ total_items (snd f) < 32768.

(* the tree with the FavNum cache of every (sub-)folder filled = number of entries below it; nothing else changes *)
Fixpoint fill_item (i : item) : item :=
  match i with
  | IFolder a f t h sub =>
      IFolder a f t (Hdr (h_nb h) (h_nl h) (h_nf h) (h_lineid h) (h_folderid h) (total_items sub)) (map fill_item sub)
  | x => x
  end.
Definition fill_cache (f : fav) : fav :=
  (Hdr (h_nb (fst f)) (h_nl (fst f)) (h_nf (fst f)) (h_lineid (fst f)) (h_folderid (fst f)) (total_items (snd f)),
   map fill_item (snd f)).
(* ... and with the cache of every sub-folder reset to 0 *)
Fixpoint zero_item (i : item) : item :=
  match i with
  | IFolder a f t h sub => IFolder a f t (Hdr (h_nb h) (h_nl h) (h_nf h) (h_lineid h) (h_folderid h) 0) (map zero_item sub)
  | x => x
  end.

Ltac pair3 := match goal with |- (?a, (?b, ?c, ?d)) = (?a', (?b', ?c', ?d')) =>
  replace b with b' by lia; replace c with c' by lia; replace d with d' by lia; reflexivity end.
Ltac sok_split := split; [|split; [|split; [|split; [|split]]]].

(* ---------------------------------------------------------------- arithmetic *)
Lemma wrap8_id x : -128 <= x < 128 -> wrap8 x = x.
Proof. unfold wrap8. intros H. destruct (x mod 256 <? 128) eqn:E; lia. Qed.
Lemma wrap16_id x : -32768 <= x < 32768 -> wrap16 x = x.
Proof. unfold wrap16. intros H. destruct (x mod 65536 <? 32768) eqn:E; lia. Qed.
Lemma wrap8_i8 x : i8 (wrap8 x).
Proof. unfold i8, wrap8. destruct (x mod 256 <? 128) eqn:E; lia. Qed.
Lemma wrap32_i32 x : i32 (wrap32 x).
Proof. unfold i32, wrap32. destruct (x mod 4294967296 <? 2147483648) eqn:E; lia. Qed.

(* ---------------------------------------------------------------- counts *)
Lemma counts_nonneg its : 0 <= nboards its /\ 0 <= nlines its /\ 0 <= nfolders its.
Proof. induction its as [|[| |] r IH]; cbn [nboards nlines nfolders]; lia. Qed.

Lemma counts_len its : nboards its + nlines its + nfolders its = lenZ its.
Proof.
  unfold lenZ. induction its as [|[| |] r IH]; cbn [nboards nlines nfolders length]; lia.
Qed.

Lemma counts_app a b : nboards (a ++ b) = nboards a + nboards b /\ nlines (a ++ b) = nlines a + nlines b /\
  nfolders (a ++ b) = nfolders a + nfolders b.
Proof. induction a as [|[| |] r IH]; cbn [app nboards nlines nfolders]; lia. Qed.

Lemma ids_seq_app a : forall b l0 f0,
  ids_seq (a ++ b) l0 f0 <-> ids_seq a l0 f0 /\ ids_seq b (l0 + nlines a) (f0 + nfolders a).
Proof.
  induction a as [|[| |] r IH]; intros b l0 f0; cbn [app ids_seq nlines nfolders].
  - rewrite !Z.add_0_r. tauto.
  - apply IH.
  - rewrite IH. replace (l0 + 1 + nlines r) with (l0 + (1 + nlines r)) by lia. tauto.
  - rewrite IH. replace (f0 + 1 + nfolders r) with (f0 + (1 + nfolders r)) by lia. tauto.
Qed.

(* counts and id sequences depend only on the kind and id of each entry *)
Definition kind_id (i : item) : Z * Z :=
  match i with IBoard _ _ _ _ => (1, 0) | ILine _ l => (3, l) | IFolder _ f _ _ _ => (2, f) end.

Lemma kinds_same : forall a b, map kind_id a = map kind_id b ->
  nboards a = nboards b /\ nlines a = nlines b /\ nfolders a = nfolders b /\
  (forall l0 f0, ids_seq a l0 f0 <-> ids_seq b l0 f0).
Proof.
  induction a as [|x a IH]; intros [|y b] E; try discriminate.
  - repeat split; auto.
  - cbn [map] in E. injection E as Ek Er. destruct (IH b Er) as (H1 & H2 & H3 & H4).
    destruct x, y; cbn in Ek; try discriminate; try (injection Ek as ->); cbn [nboards nlines nfolders ids_seq];
      (split; [lia|split; [lia|split; [lia|]]]); intros l0 f0;
      pose proof (H4 l0 f0); pose proof (H4 (l0 + 1) f0); pose proof (H4 l0 (f0 + 1)); tauto.
Qed.

Lemma total_item_nonneg i : 0 <= total_item i.
Proof.
  induction i as [| |a f t h sub IH] using item_ind'; cbn [total_item]; try lia.
  induction IH as [|x r Hx _ IHr]; cbn [fold_right]; lia.
Qed.

Lemma total_items_cons x r : total_items (x :: r) = 1 + total_item x + total_items r.
Proof. reflexivity. Qed.

Lemma total_items_nonneg its : 0 <= total_items its.
Proof. induction its as [|x r IH]; [cbn; lia|]. rewrite total_items_cons. pose proof (total_item_nonneg x). lia. Qed.

Lemma total_items_app a b : total_items (a ++ b) = total_items a + total_items b.
Proof. induction a as [|x r IH]; [reflexivity|]. cbn [app]. rewrite !total_items_cons, IH. lia. Qed.

Lemma total_items_len its : lenZ its <= total_items its.
Proof.
  unfold lenZ. induction its as [|x r IH]; [cbn; lia|]. rewrite total_items_cons. cbn [length].
  pose proof (total_item_nonneg x). lia.
Qed.

Lemma total_items_in x its : In x its -> total_item x < total_items its.
Proof.
  induction its as [|y r IH]; [intros []|]. rewrite total_items_cons. pose proof (total_items_nonneg r) as N1. pose proof (total_item_nonneg y) as N2.
  intros [->|Hin]; [lia|]. specialize (IH Hin). lia.
Qed.

Lemma nth_error_total n : forall its x, nth_error its n = Some x -> total_item x < total_items its.
Proof. intros its x H. apply total_items_in. eapply nth_error_In. exact H. Qed.

(* ---------------------------------------------------------------- consistent trees are well-formed *)
Lemma level_ok_wf h its : level_ok h its -> wf_hdr h (length its).
Proof.
  unfold level_ok, wf_hdr. intros (Hb & Hl & Hf & _ & _ & _ & Bl & Bf & Bn).
  pose proof (counts_nonneg its). pose proof (counts_len its). unfold lenZ in *. lia.
Qed.

Lemma sok_item_wf z i : sok_item z i -> wf_item i.
Proof.
  induction i as [a b v ba|a l|a f t h sub IH] using item_ind'; intros H; cbn [sok_item wf_item] in *; try exact H.
  destruct H as (Ha & Hf & Ht & Hl & _ & Hs).
  split; [exact Ha|split; [exact Hf|split; [exact Ht|split; [apply level_ok_wf; exact Hl|]]]].
  apply fold_right_Forall. apply fold_right_Forall in Hs. rewrite Forall_forall in *. intros x Hx. apply IH; [exact Hx|apply Hs; exact Hx].
Qed.

Lemma lvl_wf z f : lvl z f -> wf_fav f.
Proof.
  intros [Hl Hs]. split; [apply level_ok_wf; exact Hl|].
  rewrite Forall_forall in *. intros x Hx. apply (sok_item_wf z). apply Hs. exact Hx.
Qed.

Lemma sok_item_weaken z i : sok_item z i -> sok_item false i.
Proof.
  induction i as [a b v ba|a l|a f t h sub IH] using item_ind'; intros H; cbn [sok_item] in *; try exact H.
  destruct H as (Ha & Hf & Ht & Hl & _ & Hs). sok_split; try assumption; [exact I|].
  apply fold_right_Forall. apply fold_right_Forall in Hs. rewrite Forall_forall in *. intros x Hx. apply IH; [exact Hx|apply Hs; exact Hx].
Qed.

(* ---------------------------------------------------------------- renumbering a consistent tree only fills the cache *)
Definition sumtot (its : list item) : Z := fold_right (fun x acc => total_item x + acc) 0 its.
Lemma sumtot_cons x r : sumtot (x :: r) = total_item x + sumtot r.
Proof. reflexivity. Qed.
Lemma total_items_sumtot its : total_items its = lenZ its + sumtot its.
Proof.
  unfold lenZ. induction its as [|x r IH]; [reflexivity|]. rewrite total_items_cons, sumtot_cons.
  change (length (x :: r)) with (S (length r)). lia.
Qed.
Lemma sumtot_nonneg its : 0 <= sumtot its.
Proof. induction its as [|x r IH]; [cbn; lia|]. rewrite sumtot_cons. pose proof (total_item_nonneg x). lia. Qed.

Lemma fill_item_total i : total_item (fill_item i) = total_item i.
Proof.
  induction i as [| |a f t h sub IH] using item_ind'; try reflexivity.
  cbn [fill_item total_item]. induction IH as [|x r Hx _ IHr]; [reflexivity|]. cbn [map fold_right]. rewrite Hx, IHr. reflexivity.
Qed.

Lemma renum_items_sok its : Forall (fun i => renum_item i = fill_item i) its ->
  forall lid fid fn, ids_seq its lid fid ->
  -128 <= lid -> lid + nlines its < 128 -> -128 <= fid -> fid + nfolders its < 128 ->
  0 <= fn -> fn + sumtot its < 32768 ->
  renum_items renum_item its lid fid fn =
  (map fill_item its, (lid + nlines its, fid + nfolders its, fn + sumtot its)).
Proof.
  induction 1 as [|i r Hi _ IH]; intros lid fid fn Hs Hl1 Hl2 Hf1 Hf2 Hn1 Hn2.
  - cbn. rewrite !Z.add_0_r. reflexivity.
  - pose proof (counts_nonneg r) as (_ & Hnl & Hnf). pose proof (sumtot_nonneg r) as Hst. pose proof (total_item_nonneg i) as Hti.
    destruct i as [a b v ba|a l|a f t h sub]; cbn [ids_seq nlines nfolders sumtot fold_right] in *.
    + cbn [renum_items]. change (fold_right (fun x acc => total_item x + acc) 0 r) with (sumtot r) in *.
      rewrite (IH lid fid fn) by (assumption || lia). cbn [map fill_item]. cbn [total_item]; pair3.
    + destruct Hs as [-> Hs]. cbn [renum_items]. change (fold_right (fun x acc => total_item x + acc) 0 r) with (sumtot r) in *.
      rewrite (wrap8_id (lid + 1)) by lia.
      rewrite (IH (lid + 1) fid fn) by (assumption || lia). cbn [map fill_item]. cbn [total_item]; pair3.
    + destruct Hs as [-> Hs]. change (fold_right (fun x acc => total_item x + acc) 0 r) with (sumtot r) in *.
      cbn [renum_items]. rewrite Hi. cbn [fill_item h_favnum].
      change (total_items sub) with (total_item (IFolder a (fid + 1) t h sub)) in *.
      set (ti := total_item (IFolder a (fid + 1) t h sub)) in *.
      rewrite (wrap8_id (fid + 1)) by lia. rewrite (wrap16_id (fn + ti)) by lia.
      rewrite (IH lid (fid + 1) (fn + ti)) by (assumption || lia). cbn [map fill_item]. fold ti.
      pair3.
Qed.

Lemma renum_level h its : level_ok h its -> Forall (fun i => renum_item i = fill_item i) its -> total_items its < 32768 ->
  renum_items renum_item its 0 0 (data_number h) = (map fill_item its, (h_lineid h, h_folderid h, total_items its)).
Proof.
  intros Hl Hall Ht. pose proof (data_number_wf _ _ (level_ok_wf _ _ Hl)) as Ed. rewrite Ed. fold (lenZ its).
  destruct Hl as (Hb & Hnl & Hnf & Hli & Hfi & Hs & Bl & Bf & Bn).
  pose proof (counts_nonneg its) as (_ & ? & ?). pose proof (total_items_sumtot its) as Et. pose proof (sumtot_nonneg its).
  assert (0 <= lenZ its) by (unfold lenZ; lia).
  rewrite (renum_items_sok its Hall 0 0 (lenZ its)) by (assumption || lia).
  rewrite Hli, Hfi, Et. repeat f_equal.
Qed.

Lemma renum_item_sok z i : sok_item z i -> total_item i < 32768 -> renum_item i = fill_item i.
Proof.
  induction i as [a b v ba|a l|a f t h sub IH] using item_ind'; intros Hs Ht; try reflexivity.
  cbn [sok_item] in Hs. destruct Hs as (_ & _ & _ & Hl & _ & Hsub). apply fold_right_Forall in Hsub.
  change (total_item (IFolder a f t h sub)) with (total_items sub) in Ht.
  cbn [renum_item]. rewrite (renum_level h sub Hl); [reflexivity| |exact Ht].
  rewrite Forall_forall in *. intros x Hx. apply IH; [exact Hx|apply Hsub; exact Hx|].
  pose proof (total_items_in x sub Hx). lia.
Qed.

Lemma renumber_sok z f : sok_fav z f -> renumber f = fill_cache f.
Proof.
  destruct f as [h its]. intros [[Hl Hs] Ht]. cbn [fst snd] in *.
  unfold renumber, fill_cache. cbn [fst snd]. rewrite (renum_level h its Hl); [reflexivity| |exact Ht].
  rewrite Forall_forall in *. intros x Hx. apply (renum_item_sok z); [apply Hs; exact Hx|].
  pose proof (total_items_in x its Hx). lia.
Qed.

(* filling the cache keeps consistency, and is idempotent *)
Lemma fill_items_total its : total_items (map fill_item its) = total_items its.
Proof. induction its as [|x r IH]; [reflexivity|]. cbn [map]. rewrite !total_items_cons, fill_item_total, IH. reflexivity. Qed.

Lemma fill_counts its : nboards (map fill_item its) = nboards its /\ nlines (map fill_item its) = nlines its /\
  nfolders (map fill_item its) = nfolders its /\ (forall lid fid, ids_seq (map fill_item its) lid fid <-> ids_seq its lid fid) /\
  total_items (map fill_item its) = total_items its.
Proof.
  assert (E : map kind_id (map fill_item its) = map kind_id its) by (rewrite map_map; apply map_ext; intros []; reflexivity).
  destruct (kinds_same _ _ E) as (H1 & H2 & H3 & H4). pose proof (fill_items_total its). auto.
Qed.

Lemma fill_level h its h' : level_ok h its ->
  h_nb h' = h_nb h -> h_nl h' = h_nl h -> h_nf h' = h_nf h -> h_lineid h' = h_lineid h -> h_folderid h' = h_folderid h ->
  level_ok h' (map fill_item its).
Proof.
  unfold level_ok. intros (Hb & Hnl & Hnf & Hli & Hfi & Hs & Bl & Bf & Bn) E1 E2 E3 E4 E5.
  destruct (fill_counts its) as (C1 & C2 & C3 & C4 & _). unfold lenZ in *. rewrite map_length, C1, C2, C3, E1, E2, E3, E4, E5.
  repeat split; try assumption. apply C4. exact Hs.
Qed.

Lemma fill_item_sok z i : sok_item z i -> sok_item false (fill_item i).
Proof.
  induction i as [a b v ba|a l|a f t h sub IH] using item_ind'; intros H; cbn [sok_item fill_item] in *; try exact H.
  destruct H as (Ha & Hf & Ht & Hl & _ & Hs). sok_split; try assumption.
  - eapply fill_level; [exact Hl|reflexivity..].
  - exact I.
  - apply fold_right_Forall. apply fold_right_Forall in Hs. apply Forall_map. rewrite Forall_forall in *. intros x Hx. apply IH; [exact Hx|apply Hs; exact Hx].
Qed.

Lemma fill_cache_sok z f : sok_fav z f -> sok_fav false (fill_cache f).
Proof.
  destruct f as [h its]. intros [[Hl Hs] Ht]. cbn [fst snd] in *. unfold sok_fav, lvl, fill_cache. cbn [fst snd].
  destruct (fill_counts its) as (_ & _ & _ & _ & C5). rewrite C5. split; [split|exact Ht].
  - eapply fill_level; [exact Hl|reflexivity..].
  - apply Forall_map. rewrite Forall_forall in *. intros x Hx. apply (fill_item_sok z). apply Hs. exact Hx.
Qed.

Lemma fill_item_idem i : fill_item (fill_item i) = fill_item i.
Proof.
  induction i as [| |a f t h sub IH] using item_ind'; try reflexivity.
  cbn [fill_item h_nb h_nl h_nf h_lineid h_folderid]. destruct (fill_counts sub) as (_ & _ & _ & _ & ->).
  f_equal. rewrite map_map. apply map_ext_in. intros x Hx. rewrite Forall_forall in IH. apply IH. exact Hx.
Qed.

Lemma fill_cache_idem f : fill_cache (fill_cache f) = fill_cache f.
Proof.
  destruct f as [h its]. unfold fill_cache. cbn [fst snd h_nb h_nl h_nf h_lineid h_folderid].
  destruct (fill_counts its) as (_ & _ & _ & _ & ->). f_equal. rewrite map_map. apply map_ext. intros x. apply fill_item_idem.
Qed.

(* a tree whose sub-folder caches are 0: resetting the filled caches gives the tree back *)
Lemma zero_fill_item i : zero_item (fill_item i) = zero_item i.
Proof.
  induction i as [| |a f t h sub IH] using item_ind'; try reflexivity.
  cbn [fill_item zero_item h_nb h_nl h_nf h_lineid h_folderid]. f_equal. rewrite map_map. apply map_ext_in. intros x Hx. rewrite Forall_forall in IH. apply IH. exact Hx.
Qed.

Lemma zero_item_sok i : sok_item true i -> zero_item i = i.
Proof.
  induction i as [| |a f t h sub IH] using item_ind'; intros H; try reflexivity.
  cbn [sok_item] in H. destruct H as (_ & _ & _ & _ & Hz & Hs). apply fold_right_Forall in Hs.
  cbn [zero_item]. destruct h as [nb nl nf li fi fnum]. cbn [h_favnum h_nb h_nl h_nf h_lineid h_folderid] in *. subst fnum. f_equal.
  rewrite <- (map_id sub) at 2. apply map_ext_in. intros x Hx. rewrite Forall_forall in *. apply IH; [exact Hx|apply Hs; exact Hx].
Qed.

Lemma zero_fill_items its : Forall (sok_item true) its -> map zero_item (map fill_item its) = its.
Proof.
  intros H. rewrite map_map. rewrite <- (map_id its) at 2. apply map_ext_in. intros x Hx.
  rewrite zero_fill_item. apply zero_item_sok. rewrite Forall_forall in H. apply H. exact Hx.
Qed.

(* ---------------------------------------------------------------- replacing one entry by one of the same kind and id *)
Lemma replace_nth_kinds n : forall (its : list item) x y, nth_error its n = Some x -> kind_id y = kind_id x ->
  map kind_id (replace_nth n y its) = map kind_id its /\ length (replace_nth n y its) = length its /\
  total_items (replace_nth n y its) = total_items its - total_item x + total_item y.
Proof.
  induction n as [|n IH]; intros [|i r] x y Hn Hk; try discriminate.
  - cbn in Hn. injection Hn as ->. cbn [replace_nth map length]. rewrite !total_items_cons, Hk. repeat split; lia.
  - cbn [nth_error] in Hn. destruct (IH r x y Hn Hk) as (H1 & H2 & H3).
    cbn [replace_nth map length]. rewrite !total_items_cons, H1, H2, H3. repeat split; lia.
Qed.

Lemma replace_nth_same n (its : list item) x y : nth_error its n = Some x -> kind_id y = kind_id x ->
  nboards (replace_nth n y its) = nboards its /\ nlines (replace_nth n y its) = nlines its /\
  nfolders (replace_nth n y its) = nfolders its /\
  (forall lid fid, ids_seq (replace_nth n y its) lid fid <-> ids_seq its lid fid) /\
  length (replace_nth n y its) = length its /\
  total_items (replace_nth n y its) = total_items its - total_item x + total_item y.
Proof.
  intros Hn Hk. destruct (replace_nth_kinds n its x y Hn Hk) as (E & H5 & H6).
  destruct (kinds_same _ _ E) as (H1 & H2 & H3 & H4). auto 10.
Qed.

Lemma replace_nth_Forall {A} (P : A -> Prop) n : forall l y, Forall P l -> P y -> Forall P (replace_nth n y l).
Proof.
  induction n as [|n IH]; intros [|x r] y Hl Hy; cbn [replace_nth]; try constructor; inversion Hl; subst; auto.
Qed.

Lemma level_ok_replace h its n x y : level_ok h its -> nth_error its n = Some x -> kind_id y = kind_id x ->
  level_ok h (replace_nth n y its).
Proof.
  unfold level_ok. intros (Hb & Hnl & Hnf & Hli & Hfi & Hs & Bl & Bf & Bn) Hn Hk.
  destruct (replace_nth_same n its x y Hn Hk) as (-> & -> & -> & H4 & H5 & _). unfold lenZ in *. rewrite H5.
  repeat split; try assumption. apply H4. exact Hs.
Qed.

(* ---------------------------------------------------------------- the API operations keep every level consistent *)
(* g works on one folder: it keeps lvl, adds one entry exactly when it says so - and then only while the root count B
   is below MAX_FAV -, and does not touch the folder's own FavNum *)
Definition good_local (z : bool) (B : Z) (g : fav -> upd (fav * bool)) : Prop :=
  forall f f' b, lvl z f -> total_items (snd f) <= B -> g f = UOk (f', b) ->
    lvl z f' /\ total_items (snd f') = total_items (snd f) + (if b then 1 else 0) /\
    h_favnum (fst f') = h_favnum (fst f) /\ (b = true -> B < ptt_fav.MAX_FAV).

Lemma at_path_good z B g : good_local z B g -> forall path, good_local z B (at_path path g).
Proof.
  intros Hg. induction path as [|p rest IH]; [exact Hg|].
  intros [h its] f' b Hl Hb Hr. cbn [at_path snd fst] in Hr.
  destruct (p <? 0); [discriminate|].
  destruct (nth_error its (Z.to_nat p)) as [[| |a fid t hs sub]|] eqn:En; try discriminate.
  destruct (at_path rest g (hs, sub)) as [[[hs' sub'] b']|e|] eqn:Ea; try discriminate.
  injection Hr as <- <-. destruct Hl as [Hlv Hs]. cbn [fst snd] in *.
  assert (Hx : sok_item z (IFolder a fid t hs sub)) by (rewrite Forall_forall in Hs; apply Hs; eapply nth_error_In; exact En).
  cbn [sok_item] in Hx. destruct Hx as (Ha & Hf & Ht & Hls & Hz & Hss). apply fold_right_Forall in Hss.
  pose proof (nth_error_total _ _ _ En) as Htot. change (total_item (IFolder a fid t hs sub)) with (total_items sub) in Htot.
  destruct (IH (hs, sub) (hs', sub') b') as ([Hl' Hs'] & Ht' & Hfn & HB); [split; assumption|cbn [snd]; lia|exact Ea|]. cbn [fst snd] in *.
  destruct (replace_nth_same _ its _ (IFolder a fid t hs' sub') En eq_refl) as (_ & _ & _ & _ & _ & H6).
  split; [split|split; [|split; [reflexivity|exact HB]]].
  - eapply level_ok_replace; [exact Hlv|exact En|reflexivity].
  - apply replace_nth_Forall; [exact Hs|]. cbn [sok_item]. sok_split; try assumption.
    + destruct z; [rewrite Hfn; exact Hz|exact I].
    + apply fold_right_Forall. exact Hs'.
  - rewrite H6. change (total_item (IFolder a fid t hs sub)) with (total_items sub).
    change (total_item (IFolder a fid t hs' sub')) with (total_items sub'). lia.
Qed.

Lemma max_fav_v : ptt_fav.MAX_FAV = 1024. Proof. reflexivity. Qed.
Lemma max_line_v : ptt_fav.MAX_LINE = 64. Proof. reflexivity. Qed.
Lemma max_folder_v : ptt_fav.MAX_FOLDER = 64. Proof. reflexivity. Qed.
Lemma max_board_v : ptttype.MAX_BOARD < 2147483648. Proof. reflexivity. Qed.
Lemma favh_fav_i8 : i8 ptt_fav.FAVH_FAV. Proof. unfold i8. change ptt_fav.FAVH_FAV with 1. lia. Qed.

(* appending one entry to a consistent level *)
Lemma level_ok_snoc z h its h' x : level_ok h its -> Forall (sok_item z) its -> sok_item z x -> lenZ its < 32767 ->
  h_nb h' = nboards (its ++ [x]) -> h_nl h' = nlines (its ++ [x]) -> h_nf h' = nfolders (its ++ [x]) ->
  h_lineid h' = nlines (its ++ [x]) -> h_folderid h' = nfolders (its ++ [x]) ->
  nlines (its ++ [x]) < 128 -> nfolders (its ++ [x]) < 128 -> ids_seq [x] (nlines its) (nfolders its) ->
  lvl z (h', its ++ [x]).
Proof.
  intros (Hb & Hnl & Hnf & Hli & Hfi & Hs & Bl & Bf & Bn) Hall Hx Hlen E1 E2 E3 E4 E5 B1 B2 Hid.
  split; cbn [fst snd]; [|apply Forall_app; split; [exact Hall|constructor; [exact Hx|constructor]]].
  unfold level_ok. repeat split; try assumption.
  - apply ids_seq_app. split; [exact Hs|]. rewrite !Z.add_0_l. exact Hid.
  - unfold lenZ in *. rewrite app_length. cbn [length]. lia.
Qed.

Lemma add_board_good z B bid : good_local z B (add_board_local (ptt_fav.MAX_FAV <=? B) bid).
Proof.
  intros [h its] f' b [Hlv Hs] Hb Hr. cbn [fst snd] in *. unfold add_board_local in Hr.
  destruct (negb ((1 <=? bid) && (bid <=? ptttype.MAX_BOARD))) eqn:Ebid; [discriminate|].
  destruct (has_board bid its); [injection Hr as <- <-; cbn [fst snd]; split; [split; assumption|split; [lia|split; [reflexivity|discriminate]]]|].
  destruct (ptt_fav.MAX_FAV <=? B) eqn:Efull; [discriminate|]. injection Hr as <- <-. cbn [fst snd].
  pose proof max_fav_v. pose proof max_board_v. pose proof (total_items_len its) as Hlen.
  pose proof (counts_app its [IBoard ptt_fav.FAVH_FAV bid 0 0]) as (C1 & C2 & C3). cbn [nboards nlines nfolders] in C1, C2, C3.
  pose proof (counts_nonneg its) as (? & ? & ?). pose proof (counts_len its).
  pose proof Hlv as (Hb' & Hnl & Hnf & Hli & Hfi & Hsq & Bl & Bf & Bn).
  split; [|split; [rewrite total_items_app; cbn; lia|split; [reflexivity|intros _; lia]]].
  apply (level_ok_snoc z h); try assumption; cbn [h_nb h_nl h_nf h_lineid h_folderid ids_seq]; try lia.
  - cbn [sok_item]. unfold i32, i8. pose proof favh_fav_i8. unfold i8 in *. lia.
  - rewrite wrap16_id by lia. lia.
Qed.

Lemma add_line_good z B : good_local z B (add_line_local (ptt_fav.MAX_FAV <=? B)).
Proof.
  intros [h its] f' b [Hlv Hs] Hb Hr. cbn [fst snd] in *. unfold add_line_local in Hr.
  destruct (ptt_fav.MAX_FAV <=? B) eqn:Efull; [discriminate|].
  destruct (ptt_fav.MAX_LINE <=? h_nl h) eqn:Eml; [discriminate|]. injection Hr as <- <-. cbn [fst snd].
  pose proof max_fav_v. pose proof max_line_v. pose proof (total_items_len its) as Hlen.
  pose proof Hlv as (Hb' & Hnl & Hnf & Hli & Hfi & Hsq & Bl & Bf & Bn).
  pose proof (counts_nonneg its) as (? & ? & ?). pose proof (counts_len its).
  assert (Elid : wrap8 (h_lineid h + 1) = nlines its + 1) by (rewrite wrap8_id by lia; lia).
  rewrite Elid.
  pose proof (counts_app its [ILine ptt_fav.FAVH_FAV (nlines its + 1)]) as (C1 & C2 & C3). cbn [nboards nlines nfolders] in C1, C2, C3.
  split; [|split; [rewrite total_items_app; cbn; lia|split; [reflexivity|intros _; lia]]].
  apply (level_ok_snoc z h); try assumption; cbn [h_nb h_nl h_nf h_lineid h_folderid ids_seq]; try lia.
  - cbn [sok_item]. pose proof favh_fav_i8. unfold i8 in *. lia.
  - rewrite wrap8_id by lia. lia.
Qed.

Lemma add_folder_good z B title : good_local z B (add_folder_local (ptt_fav.MAX_FAV <=? B) title).
Proof.
  intros [h its] f' b [Hlv Hs] Hb Hr. cbn [fst snd] in *. unfold add_folder_local in Hr.
  destruct (ptt_fav.MAX_FAV <=? B) eqn:Efull; [discriminate|].
  destruct (ptt_fav.MAX_FOLDER <=? h_nf h) eqn:Emf; [discriminate|]. injection Hr as <- <-. cbn [fst snd].
  pose proof max_fav_v. pose proof max_folder_v. pose proof (total_items_len its) as Hlen.
  pose proof Hlv as (Hb' & Hnl & Hnf & Hli & Hfi & Hsq & Bl & Bf & Bn).
  pose proof (counts_nonneg its) as (? & ? & ?). pose proof (counts_len its).
  assert (Efid : wrap8 (h_folderid h + 1) = nfolders its + 1) by (rewrite wrap8_id by lia; lia).
  rewrite Efid.
  pose proof (counts_app its [IFolder ptt_fav.FAVH_FAV (nfolders its + 1) (fixlen TITLE_SZ title) empty_hdr []]) as (C1 & C2 & C3).
  cbn [nboards nlines nfolders] in C1, C2, C3.
  split; [|split; [rewrite total_items_app; cbn; lia|split; [reflexivity|intros _; lia]]].
  apply (level_ok_snoc z h); try assumption; cbn [h_nb h_nl h_nf h_lineid h_folderid ids_seq]; try lia.
  - cbn [sok_item]. pose proof favh_fav_i8. unfold i8 in *. sok_split; try lia.
    + apply fixlen_length.
    + unfold level_ok. cbn. repeat split; lia.
    + destruct z; [reflexivity|exact I].
    + exact I.
  - rewrite wrap8_id by lia. lia.
Qed.

(* assignments to exported fields of one entry *)
Definition lift_set (g : fav -> upd fav) : fav -> upd (fav * bool) :=
  fun f => match g f with UOk f' => UOk (f', false) | UErr e => UErr e | UBad => UBad end.

Lemma set_good z B (g : fav -> upd fav) :
  (forall f f', lvl z f -> g f = UOk f' -> lvl z f' /\ total_items (snd f') = total_items (snd f) /\ fst f' = fst f) ->
  good_local z B (lift_set g).
Proof.
  intros Hg f f' b Hl _ Hr. unfold lift_set in Hr. destruct (g f) as [f1|e|] eqn:E; try discriminate. injection Hr as <- <-.
  destruct (Hg f f1 Hl E) as (H1 & H2 & H3). rewrite H3. repeat split; try apply H1; try lia; try discriminate.
Qed.

Lemma set_attr_good z idx attr f f' : lvl z f -> set_attr_local idx attr f = UOk f' ->
  lvl z f' /\ total_items (snd f') = total_items (snd f) /\ fst f' = fst f.
Proof.
  destruct f as [h its]. intros [Hlv Hs] Hr. cbn [fst snd] in *. unfold set_attr_local in Hr. cbn [fst snd] in Hr.
  destruct (idx <? 0); [discriminate|].
  destruct (nth_error its (Z.to_nat idx)) as [x|] eqn:En; [|discriminate].
  assert (Hx : sok_item z x) by (rewrite Forall_forall in Hs; apply Hs; eapply nth_error_In; exact En).
  pose proof (wrap8_i8 attr) as Hw.
  destruct x as [a b v ba|a l|a fid t hs sub]; injection Hr as <-; cbn [fst snd];
    (match goal with |- context [replace_nth _ ?y its] =>
       destruct (replace_nth_same _ its _ y En eq_refl) as (_ & _ & _ & _ & _ & H6);
       split; [split; [eapply level_ok_replace; [exact Hlv|exact En|reflexivity]|apply replace_nth_Forall; [exact Hs|]]
              |split; [rewrite H6; cbn [total_item]; lia|reflexivity]]
     end); cbn [sok_item] in *; tauto.
Qed.

Lemma set_board_good z idx v ba f f' : lvl z f -> set_board_local idx v ba f = UOk f' ->
  lvl z f' /\ total_items (snd f') = total_items (snd f) /\ fst f' = fst f.
Proof.
  destruct f as [h its]. intros [Hlv Hs] Hr. cbn [fst snd] in *. unfold set_board_local in Hr. cbn [fst snd] in Hr.
  destruct (idx <? 0); [discriminate|].
  destruct (nth_error its (Z.to_nat idx)) as [[a b v0 ba0| |]|] eqn:En; try discriminate.
  assert (Hx : sok_item z (IBoard a b v0 ba0)) by (rewrite Forall_forall in Hs; apply Hs; eapply nth_error_In; exact En).
  pose proof (wrap8_i8 ba) as Hw. pose proof (wrap32_i32 v) as Hw2.
  injection Hr as <-; cbn [fst snd].
  destruct (replace_nth_same _ its _ (IBoard a b (wrap32 v) (wrap8 ba)) En eq_refl) as (_ & _ & _ & _ & _ & H6).
  split; [split; [eapply level_ok_replace; [exact Hlv|exact En|reflexivity]|apply replace_nth_Forall; [exact Hs|]]
         |split; [rewrite H6; cbn [total_item]; lia|reflexivity]].
  cbn [sok_item] in *. tauto.
Qed.

(* ---------------------------------------------------------------- the invariant of the root *)
(* every level consistent, sub-folder caches 0, Root.FavNum = number of entries in the whole tree <= MAX_FAV *)
Definition api_inv (f : fav) : Prop :=
  lvl true f /\ h_favnum (fst f) = total_items (snd f) /\ total_items (snd f) <= ptt_fav.MAX_FAV.

Lemma api_inv_empty : api_inv empty_fav.
Proof. unfold api_inv, lvl, level_ok, empty_fav. cbn. repeat split; try lia; try constructor. discriminate. Qed.

Lemma add_op_inv local path root root' :
  (forall B, good_local true B (local (ptt_fav.MAX_FAV <=? B))) ->
  api_inv root -> add_op local path root = UOk root' -> api_inv root'.
Proof.
  intros Hloc (Hl & Hfn & Hb) Hr. unfold add_op in Hr.
  destruct (at_path path (local (ptt_fav.MAX_FAV <=? h_favnum (fst root))) root) as [[r1 grew]|e|] eqn:Ea; try discriminate.
  injection Hr as <-.
  destruct (at_path_good true _ _ (Hloc (h_favnum (fst root))) path root r1 grew Hl) as (Hl1 & Ht1 & Hf1 & HB); [lia|exact Ea|].
  destruct grew.
  - specialize (HB eq_refl). destruct r1 as [h1 its1]. cbn [fst snd] in *. unfold api_inv, bump_root. cbn [fst snd h_favnum].
    pose proof max_fav_v. pose proof (total_items_nonneg (snd root)).
    split; [|split; [rewrite wrap16_id by lia; lia|lia]].
    destruct Hl1 as [Hlv Hs]. split; [|exact Hs]. exact Hlv.
  - unfold api_inv. split; [exact Hl1|]. lia.
Qed.

Lemma set_op_inv g path root root' :
  (forall f f', lvl true f -> g f = UOk f' -> lvl true f' /\ total_items (snd f') = total_items (snd f) /\ fst f' = fst f) ->
  api_inv root -> set_op g path root = UOk root' -> api_inv root'.
Proof.
  intros Hg (Hl & Hfn & Hb) Hr. unfold set_op in Hr. fold (lift_set g) in Hr.
  destruct (at_path path (lift_set g) root) as [[r1 grew]|e|] eqn:Ea; try discriminate. injection Hr as <-.
  destruct (at_path_good true (total_items (snd root)) _ (set_good true _ g Hg) path root r1 grew Hl) as (Hl1 & Ht1 & Hf1 & HB); [lia|exact Ea|].
  assert (grew = false) as ->.
  { destruct grew; [|reflexivity]. exfalso. clear - Ea.
    revert root r1 Ea. induction path as [|p rest IH]; intros [h its] r1 Ea; cbn [at_path fst snd] in Ea.
    - unfold lift_set in Ea. destruct (g (h, its)); discriminate.
    - destruct (p <? 0); [discriminate|]. destruct (nth_error its (Z.to_nat p)) as [[| |a fid t hs sub]|]; try discriminate.
      destruct (at_path rest (lift_set g) (hs, sub)) as [[[hs' sub'] b']|e|] eqn:E2; try discriminate.
      injection Ea as _ ->. eapply IH. exact E2. }
  unfold api_inv. split; [exact Hl1|]. lia.
Qed.

Lemma run_op_inv g root root' : api_inv root -> run_op g root = UOk root' -> api_inv root'.
Proof.
  intros Hi Hr. unfold run_op in Hr. destruct g as [|code [|plen rest]]; try discriminate.
  destruct (plen <? 0); [discriminate|]. destruct (lenZ rest <? plen); [discriminate|].
  destruct (code =? 1).
  { destruct (skipn (Z.to_nat plen) rest) as [|bid [|? ?]]; try discriminate.
    eapply (add_op_inv (fun full => add_board_local full bid)); [intros B; apply add_board_good|exact Hi|exact Hr]. }
  destruct (code =? 2).
  { destruct (skipn (Z.to_nat plen) rest) as [|? ?]; try discriminate.
    eapply (add_op_inv add_line_local); [intros B; apply add_line_good|exact Hi|exact Hr]. }
  destruct (code =? 3).
  { eapply (add_op_inv (fun full => add_folder_local full (skipn (Z.to_nat plen) rest))); [intros B; apply add_folder_good|exact Hi|exact Hr]. }
  destruct (code =? 4).
  { destruct (skipn (Z.to_nat plen) rest) as [|idx [|attr [|? ?]]]; try discriminate.
    eapply set_op_inv; [|exact Hi|exact Hr]. intros f f'. apply set_attr_good. }
  destruct (code =? 5).
  { destruct (skipn (Z.to_nat plen) rest) as [|idx [|v [|ba [|? ?]]]]; try discriminate.
    eapply set_op_inv; [|exact Hi|exact Hr]. intros f f'. apply set_board_good. }
  discriminate.
Qed.

Lemma run_script_inv ops : forall root nerr t n, api_inv root -> run_script ops root nerr = Some (t, n) -> api_inv t.
Proof.
  induction ops as [|g r IH]; intros root nerr t n Hi Hr; cbn [run_script] in Hr.
  - injection Hr as <- _. exact Hi.
  - destruct (run_op g root) as [root'|e|] eqn:Eo; try discriminate.
    + eapply IH; [|exact Hr]. eapply run_op_inv; [exact Hi|exact Eo].
    + eapply IH; [exact Hi|exact Hr].
Qed.

Lemma api_inv_sok f : api_inv f -> sok_fav true f.
Proof. intros (Hl & _ & Hb). split; [exact Hl|]. pose proof max_fav_v. lia. Qed.

(* ---------------------------------------------------------------- the statements of Props/C19.v *)
(* trees reachable from NewFavRaw by any script of API calls are well-formed, have consistent counters on every
   level, Root.FavNum = number of entries <= MAX_FAV, and the reader's renumbering only fills the sub-folder caches *)
Lemma api_trees_wellformed ops t n : run_script ops empty_fav 0 = Some (t, n) ->
  wf_fav t /\ sok_fav true t /\ h_favnum (fst t) = total_items (snd t) /\ total_items (snd t) <= ptt_fav.MAX_FAV /\
  renumber t = fill_cache t /\ fst (fill_cache t) = fst t /\ map zero_item (snd (fill_cache t)) = snd t.
Proof.
  intros Hr. pose proof (run_script_inv ops empty_fav 0 t n api_inv_empty Hr) as Hi.
  pose proof (api_inv_sok t Hi) as Hs. destruct Hi as (Hl & Hfn & Hb).
  split; [apply (lvl_wf true); exact Hl|]. split; [exact Hs|]. split; [exact Hfn|]. split; [exact Hb|].
  split; [apply (renumber_sok true); exact Hs|]. split.
  - destruct t as [[nb nl nf li fi fnum] its]. unfold fill_cache. cbn [fst snd h_nb h_nl h_nf h_lineid h_folderid h_favnum] in *. rewrite Hfn. reflexivity.
  - unfold fill_cache. cbn [snd]. apply zero_fill_items. apply Hl.
Qed.

(* a tree with consistent counters that has been loaded once is an exact fixed point of save/load *)
Lemma loaded_fixed_point z f : sok_fav z f ->
  wf_fav (fill_cache f) /\ renumber (fill_cache f) = fill_cache f.
Proof.
  intros Hs. pose proof (fill_cache_sok z f Hs) as Hs'. split; [apply (lvl_wf false); apply Hs'|].
  rewrite (renumber_sok false _ Hs'). apply fill_cache_idem.
Qed.

Lemma api_roundtrip_identity ops t n : run_script ops empty_fav 0 = Some (t, n) ->
  exists img t', file_image t = Ok img /\ load img = ROk t' /\
    fst t' = fst t /\ map zero_item (snd t') = snd t /\
    exists img', file_image t' = Ok img' /\ load img' = ROk t'.
Proof.
  intros Hr. destruct (api_trees_wellformed ops t n Hr) as (Hw & Hs & _ & _ & Hre & Hf & Hz).
  destruct (roundtrip t Hw) as (img & Ei & El). exists img, (fill_cache t).
  rewrite Hre in El. repeat split; try assumption.
  destruct (loaded_fixed_point true t Hs) as (Hw' & Hre').
  destruct (roundtrip _ Hw') as (img' & Ei' & El'). exists img'. rewrite Hre' in El'. split; assumption.
Qed.

Lemma consistent_roundtrip z f : sok_fav z f ->
  wf_fav f /\ renumber f = fill_cache f /\ wf_fav (fill_cache f) /\ renumber (fill_cache f) = fill_cache f.
Proof.
  intros Hs. split; [apply (lvl_wf z); apply Hs|]. split; [apply (renumber_sok z); exact Hs|]. apply (loaded_fixed_point z). exact Hs.
Qed.

(* ---------------------------------------------------------------- non-vacuity *)
Definition ex_script : list (list Z) :=
  [[3; 0; 70]; [1; 0; 5]; [2; 0]; [1; 1; 0; 9]; [3; 1; 0; 71]; [2; 2; 0; 1]; [1; 0; 5]; [1; 0; 0]; [4; 1; 0; 1; 6]; [5; 0; 1; -7; 8]].

Example ex_script_runs : exists t, run_script ex_script empty_fav 0 = Some (t, 1) /\
  h_favnum (fst t) = 6 /\ total_items (snd t) = 6 /\ renumber t <> t /\ renumber (renumber t) = renumber t.
Proof. eexists. split; [vm_compute; reflexivity|]. repeat split; try (vm_compute; reflexivity). vm_compute. discriminate. Qed.

Lemma api_renumber_not_identity : exists ops t n,
  run_script ops empty_fav 0 = Some (t, n) /\ renumber t <> t /\ renumber (renumber t) = renumber t.
Proof.
  destruct ex_script_runs as (t & Hr & _ & _ & Hne & Hid). exists ex_script, t, 1. repeat split; assumption.
Qed.

(* the refusals at the limits: the 65th line / folder of a level, and the 1025th entry of the tree *)
Example ex_line_limit : exists t, run_script (repeat [2; 0] 70) empty_fav 0 = Some (t, 6) /\ h_nl (fst t) = 64 /\ lenZ (snd t) = 64.
Proof. eexists. split; [vm_compute; reflexivity|]. split; reflexivity. Qed.
Example ex_folder_limit : exists t, run_script (repeat [3; 0; 65] 70) empty_fav 0 = Some (t, 6) /\ h_nf (fst t) = 64 /\ lenZ (snd t) = 64.
Proof. eexists. split; [vm_compute; reflexivity|]. split; reflexivity. Qed.
Example ex_fav_limit : exists t n, run_script (repeat [3; 0; 70] 40 ++ flat_map (fun i => repeat [2; 1; i] 30) (map Z.of_nat (seq 0 40))) empty_fav 0 = Some (t, n) /\
  h_favnum (fst t) = 1024 /\ 0 < n.
Proof. eexists. eexists. split; [vm_compute; reflexivity|]. split; reflexivity. Qed.
