(* C02 — "fcrypt = traditional crypt(3)" (Model/C02_DesSpec.crypt): the building blocks in one statement, and the
   equality itself evaluated in the kernel on a list of vectors (non-vacuity of the general theorem).

   The full claim
     forall pw salt h, C02_DesSpec.crypt pw salt = Some h -> fcrypt pw salt = Ok (h ++ [0])
   is proved in Proofs/C02_Crypt3.v (equals_crypt3) from Proofs/C02_KeySched.v (round keys), Proofs/C02_Round.v (one
   round), Proofs/C02_Compose.v (16 x 25 rounds) and Proofs/C02_Output.v (final permutation and output loop).
   [equals_crypt3_blocks] below keeps the earlier conjunction: same inputs, tables = FIPS tables, PC1, FP, vectors. *)
From Verif Require Import Base.Common Base.Sweep Gen.CryptTab Model.C02 Model.C02_DesSpec Proofs.C02_Core Proofs.C02_Tables Proofs.C02_Perm.

Definition agree (v : list Z * list Z) : bool :=
  match fcrypt (fst v) (snd v), crypt (fst v) (snd v) with
  | Ok h, Some h' => list_eqb h (h' ++ [0])
  | _, _ => false
  end.

(* passwords: the repo's test vector, empty, one byte, NUL inside, bit 7 set, longer than 8, all-ones, 0x80 (a zero
   key byte that is not a terminator); salts from all three character classes and both ends of the alphabet *)
Definition VECTORS : list (list Z * list Z) :=
  [([48; 49; 50; 51; 52; 53; 54; 55; 56; 57; 48; 49], [65; 65]);
   ([], [46; 46]);
   ([], [122; 122]);
   ([97], [46; 47]);
   ([112; 97; 115; 115; 119; 111; 114; 100], [97; 98]);
   ([112; 97; 115; 115; 0; 111; 114; 100], [57; 90]);
   ([228; 184; 173; 230; 150; 135; 112; 119], [48; 122]);
   ([255; 255; 255; 255; 255; 255; 255; 255], [90; 97]);
   ([128; 97], [71; 104]);
   ([1; 2; 3; 4; 5; 6; 7; 8; 9; 10], [122; 46]);
   ([127; 126; 125; 124; 123; 122; 121; 120], [47; 57]);
   ([85; 170; 85; 170; 85; 170; 85; 170; 85], [77; 109])].

Lemma vectors_agree : forallb agree VECTORS = true.
Proof. vm_compute. reflexivity. Qed.

Lemma same_inputs pw s0 s1 i0 i1 :
  index_of s0 ALPHABET O = Some i0 -> index_of s1 ALPHABET O = Some i1 ->
  keyblock pw = crypt_key pw /\
  nthZ con_salt (norm_byte s0) = Some (Z.of_nat i0) /\ nthZ con_salt (norm_byte s1) = Some (Z.of_nat i1) /\
  (i0 < 64)%nat /\ (i1 < 64)%nat.
Proof.
  intros H0 H1. destruct (con_salt_inverts_alphabet _ _ H0) as (L0 & N0 & C0).
  destruct (con_salt_inverts_alphabet _ _ H1) as (L1 & N1 & C1).
  rewrite N0, N1. repeat split; try assumption. apply keyblock_is_crypt_key.
Qed.

Lemma equals_crypt3_blocks :
  (* same key block, same salt bits *)
  (forall pw s0 s1 i0 i1, index_of s0 ALPHABET O = Some i0 -> index_of s1 ALPHABET O = Some i1 ->
     keyblock pw = crypt_key pw /\
     nthZ con_salt (norm_byte s0) = Some (Z.of_nat i0) /\ nthZ con_salt (norm_byte s1) = Some (Z.of_nat i1) /\
     (i0 < 64)%nat /\ (i1 < 64)%nat) /\
  (* the tables are the FIPS tables *)
  (forall i x, (i < 8)%nat -> 0 <= x < 64 -> tab SPtrans i x = sp_spec i x) /\
  (forall k x, (k < 8)%nat -> 0 <= x < 64 -> skb_spec k x = if (k <? 4)%nat then (tab skb k x, 0) else (0, tab skb k x)) /\
  map (fun b => Z.to_nat (1 + b)) shifts2 = SHIFTS /\
  cov_2char = ALPHABET /\
  (* the head of desSetKey is PC1: bit j < 28 of c / d is key bit PC1[j] / PC1[28 + j] *)
  (forall key, length key = 8%nat -> bytes_ok key = true -> forall j, 0 <= j < 32 ->
     Z.testbit (fst (pc1_words key)) j = (if j <? 28 then key_bit key (Z.of_nat (nth (Z.to_nat j) PC1 O)) else false) /\
     Z.testbit (snd (pc1_words key)) j = (if j <? 28 then key_bit key (Z.of_nat (nth (Z.to_nat (28 + j)) PC1 O)) else false)) /\
  (* the tail of body is FP *)
  (forall l r, 0 <= l < 2 ^ 32 -> 0 <= r < 2 ^ 32 -> forall j, 0 <= j < 32 ->
     Z.testbit (fst (final_perm l r)) j = block_bit l r (Z.of_nat (nth (Z.to_nat (out_n 0 j)) FP O)) /\
     Z.testbit (snd (final_perm l r)) j = block_bit l r (Z.of_nat (nth (Z.to_nat (out_n 1 j)) FP O))) /\
  (* the equality itself, in the kernel, on the vectors *)
  forallb agree VECTORS = true.
Proof.
  split; [exact same_inputs|]. split; [exact sptrans_is_P_after_S|]. split; [exact skb_is_PC2|].
  split; [exact shifts2_is_schedule|]. split; [exact cov_2char_is_alphabet|].
  split; [exact setkey_head_is_PC1|]. split; [exact body_tail_is_FP|]. exact vectors_agree.
Qed.
