(* C11 — lemmas about the model of cache/cache_board.go (Model/C11.v); the search skeleton is Base/OddSearch.v. *)
From Verif Require Import Base.Common Base.OddSearch Model.C11.

(* the by-name / by-class index is sorted for the key: the sign of the comparison never increases along it *)
Definition sorted_for_name (names : list (list Z)) (q : list Z) : Prop := mono (cmp_name names q) (lenZ names).
Definition sorted_for_class (titles names : list (list Z)) (cls q : list Z) : Prop :=
  mono (cmp_class titles names cls q) (lenZ names).

Lemma lenZ_nonneg {A} (l : list A) : 0 <= lenZ l.
Proof. unfold lenZ. lia. Qed.

(* GetBid: the bid of an entry equal to the key (ignoring case), or 0 exactly when there is none *)
Lemma getbid names bids q : sorted_for_name names q ->
  exists b, get_bid names bids q = Ok b /\
    ((exists idx, 0 <= idx < lenZ names /\ cmp_name names q idx = 0 /\ b = nth (Z.to_nat idx) bids 0) \/
     (b = 0 /\ forall i, 0 <= i < lenZ names -> cmp_name names q i <> 0)).
Proof.
  intros Hm. unfold get_bid.
  destruct (search_exact (cmp_name names q) (lenZ names) Hm (lenZ_nonneg names)) as (idx & found & E & Ht & Hf).
  rewrite E. destruct found.
  - eexists. split; [reflexivity|]. left. exists idx. destruct (Ht eq_refl). auto.
  - exists 0. split; [reflexivity|]. right. split; [reflexivity|]. exact (Hf eq_refl).
Qed.

Lemma find_by_name_spec names q asc : sorted_for_name names q ->
  exists r, find_by_name names q asc = Ok r /\
    ((1 <= r <= lenZ names /\ cmp_name names q (r - 1) = 0) \/ scan (cmp_name names q) (lenZ names) asc = Ok r).
Proof. intros Hm. apply find_eq_scan; [exact Hm|apply lenZ_nonneg]. Qed.

Lemma find_by_class_spec titles names cls q asc : sorted_for_class titles names cls q ->
  exists r, find_by_class titles names cls q asc = Ok r /\
    ((1 <= r <= lenZ names /\ cmp_class titles names cls q (r - 1) = 0) \/
     scan (cmp_class titles names cls q) (lenZ names) asc = Ok r).
Proof. intros Hm. apply find_eq_scan; [exact Hm|apply lenZ_nonneg]. Qed.

(* auto-completion never panics or hangs, whatever the prefix (after the fix: also empty and longer than a name) *)
Lemma autocomplete_total (names : list (list Z)) (kw : list Z) (asc : bool) :
  sorted_for_name names (if asc then kw else bump_last kw) -> exists r, autocomplete names kw asc = Ok r.
Proof.
  intros Hm. unfold autocomplete.
  destruct ((lenZ kw =? 0) || (12 <? lenZ kw)); [eexists; reflexivity|].
  destruct (find_eq_scan _ (lenZ names) (negb asc) Hm (lenZ_nonneg names)) as (r & E & _).
  rewrite E. eexists. reflexivity.
Qed.

(* by name the search compares exactly as the index was sorted *)
Lemma search_order_agrees_name names q i : 0 <= i ->
  (cmp_name names q i <? 0) = less_name q (nth (Z.to_nat i) names []).
Proof. intros _. unfold cmp_name, less_name, name_at, boardid. reflexivity. Qed.

(* ---- non-vacuity: a table with a vacated slot, a shared prefix and mixed case ---- *)
Definition ex_names : list (list Z) := [[]; [48; 122]; [97]; [97; 66]; [97; 98; 99]; [98]].   (* "", 0z, a, aB, abc, b *)

Example ex_sorted_aa : sorted_for_name ex_names [97; 97].   (* key "aa": absent, between a and aB *)
Proof.
  unfold sorted_for_name. intros i j Hi Hij Hj. cbn in Hj.
  assert (Hc : (i = 0 \/ i = 1 \/ i = 2 \/ i = 3 \/ i = 4 \/ i = 5) /\ (j = 0 \/ j = 1 \/ j = 2 \/ j = 3 \/ j = 4 \/ j = 5)) by lia.
  destruct Hc as [Hci Hcj].
  destruct Hci as [->|[->|[->|[->|[->| ->]]]]]; destruct Hcj as [->|[->|[->|[->|[->| ->]]]]]; try lia;
    repeat match goal with |- context [cmp_name ?a ?b ?c] => let v := eval vm_compute in (cmp_name a b c) in change (cmp_name a b c) with v end; lia.
Qed.
Example ex_find : find_by_name ex_names [97; 97] true = Ok 4 /\ find_by_name ex_names [97; 97] false = Ok 3 /\
                  find_by_name ex_names [33] true = Ok 2 /\ get_bid ex_names [5; 3; 1; 6; 2; 4] [65; 98] = Ok 6 /\
                  autocomplete ex_names [97] true = Ok 3 /\ autocomplete ex_names [97] false = Ok 5.
Proof. vm_compute. auto 10. Qed.

(* ---- refutations (known findings) ---- *)
(* by class the array is sorted on Title[:4] but searched on BoardClass() = Title[:5] when the fifth byte is not a
   blank: [("AAAAx","ab"); ("AAAA ","aB")] is in order for the sort, yet looking ("AAAA","zz") up descending finds
   nothing where the scan of the table finds entry 2 *)
Lemma find_by_class_refuted_nonblank_title_byte :
  exists titles names cls q,
    sorted_by less_class (combine titles names) = true /\
    find_by_class titles names cls q false = Ok (-1) /\
    scan (cmp_class titles names cls q) (lenZ names) false = Ok 2.
Proof.
  exists [[65; 65; 65; 65; 120]; [65; 65; 65; 65; 32]], [[97; 98]; [97; 66]], [65; 65; 65; 65], [122; 122].
  vm_compute. auto.
Qed.

(* descending auto-completion with a prefix ending in 'Z': 'Z'+1 = '[' folds below every letter, the probe lands
   before the carriers; table ["", "ab", "aZ"], prefix "aZ": entry 3 carries it, the answer is "none" *)
Lemma autocomplete_refuted_desc_upper_Z :
  exists names kw, sorted_by less_name names = true /\ cmp_prefix names kw 2 = 0 /\ autocomplete names kw false = Ok (-1).
Proof. exists [[]; [97; 98]; [97; 90]], [97; 90]. vm_compute. auto. Qed.

(* names equal up to case: the core may stop on any twin, so ascending auto-completion of "a" over
   ["a"; "A"; "ab"] starts at entry 2 although entry 1 carries the prefix *)
Lemma autocomplete_refuted_case_twins :
  exists names kw, sorted_by less_name names = true /\ cmp_prefix names kw 0 = 0 /\ autocomplete names kw true = Ok 2.
Proof. exists [[97]; [65]; [97; 98]], [97]. vm_compute. auto. Qed.

(* ... and the by-name listing of ["a"; "A"] with page size 1 never ends: the next-cursor "A" resolves to "a" again *)
Lemma page_walk_refuted_case_twins :
  exists names k asc, sorted_by less_name names = true /\ (0 < k)%nat /\ page_walk names k asc = Hang.
Proof. exists [[97]; [65]], 1%nat, true. vm_compute. auto. Qed.

(* the listing of the example table: every visible board once, in order, ceil(5/2) pages *)
Example ex_walk : page_walk ex_names 2 true = Ok (3, [2; 3; 4; 5; 6]) /\ page_walk ex_names 2 false = Ok (3, [6; 5; 4; 3; 2]).
Proof. vm_compute. auto. Qed.
