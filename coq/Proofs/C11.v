(* C11 — lemmas about the model of cache/cache_board.go (Model/C11.v); the search skeleton is Base/OddSearch.v.
   Proofs/C11_order.v: the two sort orders are strict weak orders, a sorted index is monotone for every key
   ([sorted_for_name] / [sorted_for_class] are defined there); Proofs/C11_auto.v: the scan declaratively and the
   functional half of auto-completion; Proofs/C11_walk.v: the listing walk; Proofs/C11_filter.v: filtered listings. *)
From Coq Require Import Permutation.
From Verif Require Import Base.Common Base.Cstr Base.OddSearch Model.C11.
From Verif Require Export Proofs.C11_order Proofs.C11_auto Proofs.C11_walk Proofs.C11_walkclass Proofs.C11_filter.

Lemma lenZ_nonneg {A} (l : list A) : 0 <= lenZ l.
Proof. unfold lenZ. lia. Qed.

(* GetBid: the bid of an entry equal to the key (ignoring case), or 0 exactly when there is none *)
Lemma getbid names bids q : sorted_for_name names q ->
  exists b, get_bid names bids q = Ok b /\
    ((exists idx, 0 <= idx < lenZ names /\ cmp_name names q idx = 0 /\ b = nth (Z.to_nat idx) bids 0) \/
     (b = 0 /\ forall i, 0 <= i < lenZ names -> cmp_name names q i <> 0)).
Proof.
  intros Hm. unfold get_bid.
  destruct (search_exact (cmp_name names q) (lenZ names) Hm (lenZ_nonneg names)) as (idx & found & E & Ht & Hf).
  rewrite E. destruct found.
  - eexists. split; [reflexivity|]. left. exists idx. destruct (Ht eq_refl). auto.
  - exists 0. split; [reflexivity|]. right. split; [reflexivity|]. exact (Hf eq_refl).
Qed.

Lemma find_by_name_spec names q asc : sorted_for_name names q ->
  exists r, find_by_name names q asc = Ok r /\
    ((1 <= r <= lenZ names /\ cmp_name names q (r - 1) = 0) \/ scan (cmp_name names q) (lenZ names) asc = Ok r).
Proof. intros Hm. apply find_eq_scan; [exact Hm|apply lenZ_nonneg]. Qed.

Lemma find_by_class_spec titles names cls q asc : sorted_for_class titles names cls q ->
  exists r, find_by_class titles names cls q asc = Ok r /\
    ((1 <= r <= lenZ names /\ cmp_class titles names cls q (r - 1) = 0) \/
     scan (cmp_class titles names cls q) (lenZ names) asc = Ok r).
Proof. intros Hm. apply find_eq_scan; [exact Hm|apply lenZ_nonneg]. Qed.

(* auto-completion never panics or hangs, whatever the prefix (after the fix: also empty and longer than a name) *)
Lemma autocomplete_total (names : list (list Z)) (kw : list Z) (asc : bool) :
  sorted_for_name names (if asc then kw else bump_last kw) -> exists r, autocomplete names kw asc = Ok r.
Proof.
  intros Hm. unfold autocomplete.
  destruct ((lenZ kw =? 0) || (12 <? lenZ kw)); [eexists; reflexivity|].
  destruct (find_eq_scan _ (lenZ names) (negb asc) Hm (lenZ_nonneg names)) as (r & E & _).
  rewrite E. eexists. reflexivity.
Qed.

(* by name the search compares exactly as the index was sorted *)
Lemma search_order_agrees_name names q i : 0 <= i ->
  (cmp_name names q i <? 0) = less_name q (nth (Z.to_nat i) names []).
Proof. intros _. unfold cmp_name, less_name, name_at, boardid. reflexivity. Qed.

(* ---- non-vacuity: a table with a vacated slot, a shared prefix and mixed case ---- *)
Definition ex_names : list (list Z) := [[]; [48; 122]; [97]; [97; 66]; [97; 98; 99]; [98]].   (* "", 0z, a, aB, abc, b *)

Example ex_sorted_aa : sorted_for_name ex_names [97; 97].   (* key "aa": absent, between a and aB *)
Proof.
  unfold sorted_for_name. intros i j Hi Hij Hj. cbn in Hj.
  assert (Hc : (i = 0 \/ i = 1 \/ i = 2 \/ i = 3 \/ i = 4 \/ i = 5) /\ (j = 0 \/ j = 1 \/ j = 2 \/ j = 3 \/ j = 4 \/ j = 5)) by lia.
  destruct Hc as [Hci Hcj].
  destruct Hci as [->|[->|[->|[->|[->| ->]]]]]; destruct Hcj as [->|[->|[->|[->|[->| ->]]]]]; try lia;
    repeat match goal with |- context [cmp_name ?a ?b ?c] => let v := eval vm_compute in (cmp_name a b c) in change (cmp_name a b c) with v end; lia.
Qed.
Example ex_find : find_by_name ex_names [97; 97] true = Ok 4 /\ find_by_name ex_names [97; 97] false = Ok 3 /\
                  find_by_name ex_names [33] true = Ok 2 /\ get_bid ex_names [5; 3; 1; 6; 2; 4] [65; 98] = Ok 6 /\
                  autocomplete ex_names [97] true = Ok 3 /\ autocomplete ex_names [97] false = Ok 5.
Proof. vm_compute. auto 10. Qed.

(* ---- refutations (known findings) ---- *)
(* by class the array is sorted on Title[:4] but searched on BoardClass() = Title[:5] when the fifth byte is not a
   blank: [("AAAAx","ab"); ("AAAA ","aB")] is in order for the sort, yet looking ("AAAA","zz") up descending finds
   nothing where the scan of the table finds entry 2 *)
Lemma find_by_class_refuted_nonblank_title_byte :
  exists titles names cls q,
    sorted_by less_class (combine titles names) = true /\
    find_by_class titles names cls q false = Ok (-1) /\
    scan (cmp_class titles names cls q) (lenZ names) false = Ok 2.
Proof.
  exists [[65; 65; 65; 65; 120]; [65; 65; 65; 65; 32]], [[97; 98]; [97; 66]], [65; 65; 65; 65], [122; 122].
  vm_compute. auto.
Qed.

(* descending auto-completion with a prefix ending in 'Z': 'Z'+1 = '[' folds below every letter, the probe lands
   before the carriers; table ["", "ab", "aZ"], prefix "aZ": entry 3 carries it, the answer is "none" *)
Lemma autocomplete_refuted_desc_upper_Z :
  exists names kw, sorted_by less_name names = true /\ cmp_prefix names kw 2 = 0 /\ autocomplete names kw false = Ok (-1).
Proof. exists [[]; [97; 98]; [97; 90]], [97; 90]. vm_compute. auto. Qed.

(* names equal up to case: the core may stop on any twin, so ascending auto-completion of "a" over
   ["a"; "A"; "ab"] starts at entry 2 although entry 1 carries the prefix *)
Lemma autocomplete_refuted_case_twins :
  exists names kw, sorted_by less_name names = true /\ cmp_prefix names kw 0 = 0 /\ autocomplete names kw true = Ok 2.
Proof. exists [[97]; [65]; [97; 98]], [97]. vm_compute. auto. Qed.

(* ... and the by-name listing of ["a"; "A"] with page size 1 never ends: the next-cursor "A" resolves to "a" again *)
Lemma page_walk_refuted_case_twins :
  exists names k asc, sorted_by less_name names = true /\ (0 < k)%nat /\ page_walk names k asc = Hang.
Proof. exists [[97]; [65]], 1%nat, true. vm_compute. auto. Qed.

(* the listing of the example table: every visible board once, in order, ceil(5/2) pages *)
Example ex_walk : page_walk ex_names 2 true = Ok (3, [2; 3; 4; 5; 6]) /\ page_walk ex_names 2 false = Ok (3, [6; 5; 4; 3; 2]).
Proof. vm_compute. auto. Qed.

(* ================================================================ sorted tables ================================================================ *)
(* what sort.Sort is assumed to return (and the check verifies on every table): a sorted permutation *)
Definition sorted_permutation {A} (less : A -> A -> bool) (table sorted : list A) : Prop :=
  Permutation table sorted /\ sorted_by less sorted = true.

Lemma perm_forallb {A} (f : A -> bool) (l l' : list A) : Permutation l l' -> forallb f l = true -> forallb f l' = true.
Proof.
  intros P H. rewrite forallb_forall in *. intros x Hx. apply H. apply (Permutation_in x (Permutation_sym P)). exact Hx.
Qed.

Lemma in_combine_ex_l {A B} : forall (l : list A) (l' : list B) a, length l = length l' -> In a l -> exists b, In (a, b) (combine l l').
Proof.
  induction l as [|x l IH]; intros l' a Hlen Hin; [destruct Hin|]. destruct l' as [|y l']; [discriminate|].
  destruct Hin as [->|Hin]; [exists y; left; reflexivity|].
  destruct (IH l' a ltac:(cbn in Hlen; lia) Hin) as (b & Hb). exists b. right. exact Hb.
Qed.
Lemma in_combine_ex_r {A B} : forall (l : list A) (l' : list B) b, length l = length l' -> In b l' -> exists a, In (a, b) (combine l l').
Proof.
  induction l as [|x l IH]; intros l' b Hlen Hin; [destruct l'; [destruct Hin|discriminate]|]. destruct l' as [|y l']; [destruct Hin|].
  destruct Hin as [->|Hin]; [exists x; left; reflexivity|].
  destruct (IH l' b ltac:(cbn in Hlen; lia) Hin) as (a & Ha). exists a. right. exact Ha.
Qed.

Lemma find_by_name_sorted table names q asc :
  sorted_permutation less_name table names -> forallb bytes_ok table = true -> bytes_ok q = true ->
  exists r, find_by_name names q asc = Ok r /\
    ((1 <= r <= lenZ names /\ cmp_name names q (r - 1) = 0) \/ scan (cmp_name names q) (lenZ names) asc = Ok r).
Proof.
  intros [P S] Hb Hq. apply find_by_name_spec. apply sorted_implies_monotone_name; [exact (perm_forallb _ _ _ P Hb)|exact Hq|exact S].
Qed.

(* a by-class table entry is (Title[:5], name) *)
Definition entry_ok (e : list Z * list Z) : Prop := bytes_ok (fst e) = true /\ bytes_ok (snd e) = true /\ title_ok (fst e).

Lemma find_by_class_sorted table titles names cls q asc :
  length titles = length names -> sorted_permutation less_class table (combine titles names) ->
  Forall entry_ok table -> bytes_ok cls = true -> bytes_ok q = true ->
  exists r, find_by_class titles names cls q asc = Ok r /\
    ((1 <= r <= lenZ names /\ cmp_class titles names cls q (r - 1) = 0) \/
     scan (cmp_class titles names cls q) (lenZ names) asc = Ok r).
Proof.
  intros Hlen [P S] He Hcls Hq. apply find_by_class_spec.
  assert (He' : forall e, In e (combine titles names) -> entry_ok e).
  { intros e Hin. rewrite Forall_forall in He. apply He. apply (Permutation_in e (Permutation_sym P)). exact Hin. }
  apply sorted_implies_monotone_class; try assumption.
  - apply Forall_forall. intros t Ht. destruct (in_combine_ex_l titles names t Hlen Ht) as (s & Hin). exact (proj2 (proj2 (He' _ Hin))).
  - apply forallb_forall. intros t Ht. destruct (in_combine_ex_l titles names t Hlen Ht) as (s & Hin). exact (proj1 (He' _ Hin)).
  - apply forallb_forall. intros s Hs. destruct (in_combine_ex_r titles names s Hlen Hs) as (t & Hin). exact (proj1 (proj2 (He' _ Hin))).
Qed.

(* GetBid on the board table itself: [table] in bid order, [bids] = BSorted[by name] + 1 *)
Definition bid_index (table : list (list Z)) (bids : list Z) : Prop :=
  Permutation bids (map (fun i => Z.of_nat i + 1) (seq 0 (length table))).
Definition names_by (table : list (list Z)) (bids : list Z) : list (list Z) :=
  map (fun b => nth (Z.to_nat (b - 1)) table []) bids.

Lemma getbid_table table bids q :
  bid_index table bids -> forallb bytes_ok table = true -> bytes_ok q = true ->
  sorted_by less_name (names_by table bids) = true ->
  exists b, get_bid (names_by table bids) bids q = Ok b /\
    ((1 <= b <= lenZ table /\ cstrcasecmp (boardid q) (boardid (nth (Z.to_nat (b - 1)) table [])) = 0) \/
     (b = 0 /\ forall j, 0 <= j < lenZ table -> cstrcasecmp (boardid q) (boardid (nth (Z.to_nat j) table [])) <> 0)).
Proof.
  intros P Hb Hq Hs. set (f := fun b => nth (Z.to_nat (b - 1)) table []).
  assert (Hbn : forallb bytes_ok (names_by table bids) = true).
  { apply forallb_forall. intros x Hx. apply in_map_iff in Hx. destruct Hx as (b & <- & _). apply all_bytes_ok_nth, Hb. }
  assert (Hlen : lenZ (names_by table bids) = lenZ bids) by (unfold lenZ, names_by; rewrite map_length; reflexivity).
  assert (Hname : forall idx, 0 <= idx < lenZ bids ->
            cmp_name (names_by table bids) q idx = cstrcasecmp (boardid q) (boardid (f (nth (Z.to_nat idx) bids 0)))).
  { intros idx Hidx. unfold cmp_name, name_at, names_by. fold f. unfold lenZ in Hidx.
    rewrite (nth_indep _ [] (f 0)) by (rewrite map_length; lia). rewrite map_nth. reflexivity. }
  destruct (getbid _ bids q (sorted_implies_monotone_name _ q Hbn Hq Hs)) as (b & E & H).
  exists b. split; [exact E|]. rewrite Hlen in H. destruct H as [(idx & Hidx & Hc & Hbv)|(Hb0 & Hall)].
  - left. rewrite (Hname idx Hidx), <- Hbv in Hc. split; [|exact Hc].
    assert (Hin : In b bids). { rewrite Hbv. apply nth_In. unfold lenZ in Hidx. lia. }
    apply (Permutation_in b P) in Hin. apply in_map_iff in Hin. destruct Hin as (i & <- & Hi). apply in_seq in Hi.
    unfold lenZ. lia.
  - right. split; [exact Hb0|]. intros j Hj Hc.
    assert (Hin : In (j + 1) bids).
    { apply (Permutation_in (j + 1) (Permutation_sym P)). apply in_map_iff. exists (Z.to_nat j). split; [lia|].
      apply in_seq. unfold lenZ in Hj. lia. }
    destruct (In_nth bids (j + 1) 0 Hin) as (idx & Hidx & Hnth).
    apply (Hall (Z.of_nat idx) ltac:(unfold lenZ; lia)). rewrite (Hname (Z.of_nat idx)) by (unfold lenZ; lia).
    rewrite Nat2Z.id, Hnth. unfold f. replace (j + 1 - 1) with j by lia. exact Hc.
Qed.

(* ================================================================ non-vacuity ================================================================ *)
Example ex_table_hyps :
  forallb bytes_ok ex_names = true /\ sorted_by less_name ex_names = true /\ distinct_names ex_names = true.
Proof. vm_compute. auto. Qed.

(* a table with two vacated slots still has "names distinct up to case" *)
Definition ex_names2 : list (list Z) := [[]; []; [65; 98]; [98]].
Example ex_table2_hyps :
  forallb bytes_ok ex_names2 = true /\ sorted_by less_name ex_names2 = true /\ distinct_names ex_names2 = true.
Proof. vm_compute. auto. Qed.

(* the orders are not empty, and both sort keys really decide *)
Example ex_less : less_name [97] [66] = true /\ less_name [66] [97] = false /\
                  less_class ([65; 65; 65; 65; 32], [98]) ([66; 66; 66; 66; 32], [97]) = true /\
                  less_class ([65; 65; 65; 65; 32], [97]) ([65; 65; 65; 65; 32], [66]) = true.
Proof. vm_compute. auto. Qed.

(* sorted => monotone: every key, not one computed key *)
Example ex_sorted_any q : bytes_ok q = true -> sorted_for_name ex_names q.
Proof.
  intros Hq. destruct ex_table_hyps as (Hb & Hs & _). exact (sorted_implies_monotone_name ex_names q Hb Hq Hs).
Qed.

(* a by-class index: a vacated slot (all-zero title), then "AAAA " ab, "AAAA " b, "BBBB " a *)
Definition ex_titles : list (list Z) := [[0; 0; 0; 0; 0]; [65; 65; 65; 65; 32]; [65; 65; 65; 65; 32]; [66; 66; 66; 66; 32]].
Definition ex_cnames : list (list Z) := [[]; [97; 98]; [98]; [97]].
Example ex_class_any cls q : bytes_ok cls = true -> bytes_ok q = true -> sorted_for_class ex_titles ex_cnames cls q.
Proof.
  intros Hc Hq. apply sorted_implies_monotone_class; try assumption; try reflexivity.
  unfold ex_titles, title_ok. constructor; [right; reflexivity|]. repeat (constructor; [left; reflexivity|]). constructor.
Qed.
Example ex_find_class : find_by_class ex_titles ex_cnames [65; 65; 65; 65] [97; 122] true = Ok 3 /\
                        find_by_class ex_titles ex_cnames [65; 65; 65; 65] [97; 122] false = Ok 2 /\
                        find_by_class ex_titles ex_cnames [66; 66; 66; 66] [65] true = Ok 4.
Proof. vm_compute. auto. Qed.

(* GetBid on a table in bid order: bids 1..4 = b, (vacated), aB, a; by-name order = (vacated), a, aB, b *)
Definition ex_table : list (list Z) := [[98]; []; [97; 66]; [97]].
Definition ex_bids : list Z := [2; 4; 3; 1].
Example ex_bid_index : bid_index ex_table ex_bids /\ sorted_by less_name (names_by ex_table ex_bids) = true /\
                       get_bid (names_by ex_table ex_bids) ex_bids [65; 98] = Ok 3 /\
                       get_bid (names_by ex_table ex_bids) ex_bids [99] = Ok 0.
Proof.
  split; [|vm_compute; auto]. unfold bid_index, ex_bids, ex_table. cbn [length seq map Z.of_nat Z.add Pos.of_succ_nat Pos.succ Pos.add].
  apply (perm_trans (l' := [1; 2; 4; 3])).
  - apply (perm_trans (l' := [2; 1; 4; 3])); [|apply perm_swap].
    apply perm_skip. apply (perm_trans (l' := [4; 1; 3])); [apply perm_skip, perm_swap|apply perm_swap].
  - do 2 apply perm_skip. apply perm_swap.
Qed.

(* prefixes the auto-completion theorem covers *)
Example ex_prefix_ok : prefix_ok [97] true /\ prefix_ok [97] false /\ prefix_ok [97; 90] true /\ prefix_ok [97; 66] false.
Proof.
  unfold prefix_ok, bumpable, kbyte. repeat split; cbn; try lia; repeat constructor; try lia; intros; try discriminate; lia.
Qed.

Example ex_auto : first_carrier ex_names [97] 3 /\ last_carrier ex_names [97] 5 /\
                  first_carrier ex_names [122] (-1) /\ last_carrier ex_names [97; 66] 5.
Proof.
  destruct ex_table_hyps as (Hb & Hs & Hd).
  assert (P : forall kw asc, (1 <= length kw <= 12)%nat -> Forall kbyte kw -> bumpable (last kw 0) -> prefix_ok kw asc).
  { intros kw asc H1 H2 H3. split; [exact H1|]. split; [exact H2|]. intros _. exact H3. }
  repeat split.
  - destruct (autocomplete_spec ex_names [97] true Hb Hs Hd) as (r & E & H).
    { apply P; [cbn; lia|repeat constructor; unfold kbyte; lia|unfold bumpable; cbn; lia]. }
    vm_compute in E. injection E as <-. exact H.
  - destruct (autocomplete_spec ex_names [97] false Hb Hs Hd) as (r & E & H).
    { apply P; [cbn; lia|repeat constructor; unfold kbyte; lia|unfold bumpable; cbn; lia]. }
    vm_compute in E. injection E as <-. exact H.
  - destruct (autocomplete_spec ex_names [122] true Hb Hs Hd) as (r & E & H).
    { apply P; [cbn; lia|repeat constructor; unfold kbyte; lia|unfold bumpable; cbn; lia]. }
    vm_compute in E. injection E as <-. exact H.
  - destruct (autocomplete_spec ex_names [97; 66] false Hb Hs Hd) as (r & E & H).
    { apply P; [cbn; lia|repeat constructor; unfold kbyte; lia|unfold bumpable; cbn; lia]. }
    vm_compute in E. injection E as <-. exact H.
Qed.

(* the walk with a visibility predicate that hides entry 4 ("aB"), and over the table with two vacated slots *)
Example ex_walk_vis :
  page_walk_g (fun i => visible ex_names i && negb (i =? 3)) ex_names 2 true = Ok (2, [2; 3; 5; 6]) /\
  page_walk ex_names2 1 false = Ok (2, [4; 3]) /\ page_walk ex_names2 5 true = Ok (1, [3; 4]).
Proof. vm_compute. auto. Qed.

(* ---- two more refutations: the other last bytes the descending search cannot increment ---- *)
(* '@' + 1 = 'A' folds to 'a', which is not the successor of '@': boards whose next byte is in '[' .. '`' sort between
   the carriers and the probe; with two of them the three probes run out. Sorted ["a@"; "a_a"; "a_b"; "aa"], prefix "a@" *)
Lemma autocomplete_refuted_desc_at_sign :
  exists names kw, forallb bytes_ok names = true /\ sorted_by less_name names = true /\ distinct_names names = true /\
    last kw 0 = 64 /\ cmp_prefix names kw 0 = 0 /\ autocomplete names kw false = Ok (-1).
Proof. exists [[97; 64]; [97; 95; 97]; [97; 95; 98]; [97; 97]], [97; 64]. vm_compute. auto 10. Qed.

(* 0xFF + 1 wraps to NUL, which ends the key: the probe lands on the first board of the shorter prefix.
   Sorted ["a"; "ab"; "a\xff"], prefix "a\xff" *)
Lemma autocomplete_refuted_desc_0xff :
  exists names kw, forallb bytes_ok names = true /\ sorted_by less_name names = true /\ distinct_names names = true /\
    last kw 0 = 255 /\ cmp_prefix names kw 2 = 0 /\ autocomplete names kw false = Ok (-1).
Proof. exists [[97]; [97; 98]; [97; 255]], [97; 255]. vm_compute. auto 10. Qed.

(* ================================================================ totality on sorted tables ================================================================ *)
Lemma bump_last_bytes_ok kw : bytes_ok kw = true -> bytes_ok (bump_last kw) = true.
Proof.
  intros H. unfold bump_last, bytes_ok in *. rewrite forallb_app. apply andb_true_intro. split.
  - rewrite forallb_forall in *. intros x Hx. apply H. apply ListX.In_firstn in Hx. exact Hx.
  - cbn [forallb]. rewrite andb_true_r. unfold is_byte, wrapu8.
    pose proof (Z.mod_pos_bound (nth (length kw - 1) kw 0 + 1) 256 ltac:(lia)) as Hm.
    destruct (Z.leb_spec 0 ((nth (length kw - 1) kw 0 + 1) mod 256)), (Z.ltb_spec ((nth (length kw - 1) kw 0 + 1) mod 256) 256); cbn; try reflexivity; lia.
Qed.

Lemma autocomplete_total_sorted names kw asc :
  forallb bytes_ok names = true -> bytes_ok kw = true -> sorted_by less_name names = true ->
  exists r, autocomplete names kw asc = Ok r.
Proof.
  intros Hb Hk Hs. apply autocomplete_total. apply sorted_implies_monotone_name; [exact Hb| |exact Hs].
  destruct asc; [exact Hk|apply bump_last_bytes_ok, Hk].
Qed.

(* ================================================================ histories ================================================================ *)
(* the board cache over any history of reloads and creations (Model/C11.v: reload / install / create / run_hist) *)
Definition sorter_ok (srt : sorter) : Prop :=
  (forall names, bid_index names (fst srt names) /\ sorted_by less_name (names_by names (fst srt names)) = true) /\
  (forall ents : list (list Z * list Z), bid_index (map snd ents) (snd srt ents) /\
     sorted_by less_class (by_bids ([], []) ents (snd srt ents)) = true).

Definition op_ok (o : bop) : Prop :=
  match o with OInstall b => bytes_ok b = true | OReload => True | OCreate r => bytes_ok r = true end.

Definition hist_inv (s : bst) : Prop :=
  bbusy s = 0 /\ btbl s = firstn (Z.to_nat MAXB) (file_recs s) /\
  Forall (fun r => bytes_ok r = true) (file_recs s) /\
  bid_index (tnames s) (bsn s) /\ sorted_by less_name (snames s) = true /\
  bid_index (map snd (tentries s)) (bsc s) /\ sorted_by less_class (by_bids ([], []) (tentries s) (bsc s)) = true.

Lemma hist_inv_fresh : hist_inv fresh.
Proof.
  unfold hist_inv, fresh, bid_index. cbn. repeat split; try reflexivity; try constructor.
Qed.

Lemma sort_bcache_inv srt s : sorter_ok srt -> bbusy s = 0 -> btbl s = firstn (Z.to_nat MAXB) (file_recs s) ->
  Forall (fun r => bytes_ok r = true) (file_recs s) -> hist_inv (sort_bcache srt s).
Proof.
  intros [Hn Hc] Hb Ht Hf. unfold sort_bcache. rewrite Hb. cbn [Z.eqb].
  unfold hist_inv, snames, tnames, tentries, file_recs in *. cbn [bbusy btbl bfile bsn bsc].
  destruct (Hn (map rec_name (btbl s))) as [Hn1 Hn2]. destruct (Hc (map rec_entry (btbl s))) as [Hc1 Hc2].
  repeat split; assumption.
Qed.

Lemma reload_inv srt s : sorter_ok srt -> hist_inv s -> hist_inv (reload srt s).
Proof.
  intros Hs (Hb & Ht & Hf & _). unfold reload. apply sort_bcache_inv; [exact Hs| | |]; unfold reload_core; cbn [bfile];
    unfold file_recs in *; destruct (bfile s) as [recs|] eqn:E; cbn [bbusy btbl bfile]; try rewrite E; try reflexivity; try assumption.
Qed.

Lemma forallb_firstn {A} (f : A -> bool) : forall n l, forallb f l = true -> forallb f (firstn n l) = true.
Proof.
  induction n as [|n IH]; intros l H; [reflexivity|]. destruct l as [|a l]; [reflexivity|].
  cbn [firstn forallb] in *. apply andb_prop in H. destruct H as [H1 H2]. rewrite H1, (IH l H2). reflexivity.
Qed.
Lemma forallb_skipn {A} (f : A -> bool) : forall n l, forallb f l = true -> forallb f (skipn n l) = true.
Proof.
  induction n as [|n IH]; intros l H; [exact H|]. destruct l as [|a l]; [reflexivity|].
  cbn [skipn forallb] in *. apply andb_prop in H. destruct H as [_ H2]. exact (IH l H2).
Qed.
Lemma chunks_bytes : forall fuel b, bytes_ok b = true -> Forall (fun r => bytes_ok r = true) (chunks fuel b).
Proof.
  induction fuel as [|f IH]; intros b H; [constructor|]. cbn [chunks]. destruct (RS <=? lenZ b); [|constructor].
  constructor; [apply forallb_firstn, H|apply IH, forallb_skipn, H].
Qed.

Lemma install_inv srt b s : sorter_ok srt -> bytes_ok b = true -> hist_inv (install srt b s).
Proof.
  intros Hs Hb. unfold install, reload. apply sort_bcache_inv; [exact Hs| | |]; unfold reload_core, file_recs; cbn [bbusy btbl bfile]; try reflexivity.
  apply chunks_bytes, Hb.
Qed.

Lemma create_inv srt r s s' : sorter_ok srt -> bytes_ok r = true -> hist_inv s -> create srt r s = Some s' -> hist_inv s'.
Proof.
  intros Hs Hr (Hb & Ht & Hf & _) E. unfold create in E.
  destruct (MAXB <=? Z.of_nat (length (btbl s))) eqn:EM; [discriminate|]. apply Z.leb_gt in EM.
  unfold reset_board in E. cbn [bbusy bfile btbl bsn bsc] in E. rewrite Hb in E. cbn [Z.eqb] in E.
  unfold file_recs at 1 in E. cbn [bfile] in E.
  assert (Hlen : length (btbl s) = length (file_recs s)).
  { rewrite Ht. rewrite firstn_length. rewrite Ht, firstn_length in EM. lia. }
  assert (Htbl : btbl s = file_recs s).
  { rewrite Ht. apply firstn_all2. rewrite Ht, firstn_length in EM. lia. }
  rewrite Hlen, nth_error_app2, Nat.sub_diag in E by lia. cbn [nth_error] in E.
  injection E as <-. apply sort_bcache_inv; [exact Hs|reflexivity| |]; unfold file_recs at 1; cbn [bfile btbl].
  - unfold set_slot. rewrite <- Hlen, firstn_all, skipn_all2 by lia. rewrite Htbl.
    symmetry. apply firstn_all2. rewrite app_length. cbn [length]. rewrite <- Hlen. lia.
  - apply Forall_app. split; [exact Hf|constructor; [exact Hr|constructor]].
Qed.

Theorem run_hist_inv srt : sorter_ok srt -> forall ops s s', Forall op_ok ops -> hist_inv s -> run_hist srt ops s = Some s' -> hist_inv s'.
Proof.
  intros Hs. induction ops as [|o ops IH]; intros s s' Ho Hi E; [injection E as <-; exact Hi|].
  inversion Ho as [|? ? Ho1 Ho2]; subst. cbn [run_hist] in E. destruct o as [b| |r]; cbn [step_hist op_ok] in *.
  - apply (IH _ _ Ho2 (install_inv srt b s Hs Ho1) E).
  - apply (IH _ _ Ho2 (reload_inv srt s Hs Hi) E).
  - destruct (create srt r s) as [s1|] eqn:Ec; [|discriminate]. apply (IH _ _ Ho2 (create_inv srt r s s1 Hs Ho1 Hi Ec) E).
Qed.

(* a creation is never refused while the table is coherent and has room *)
Lemma create_total srt r s : hist_inv s -> Z.of_nat (length (btbl s)) < MAXB -> exists s', create srt r s = Some s'.
Proof.
  intros (Hb & Ht & _) Hm. unfold create. apply Z.leb_gt in Hm. rewrite Hm. apply Z.leb_gt in Hm.
  unfold reset_board. cbn [bbusy bfile btbl bsn bsc]. rewrite Hb. cbn [Z.eqb]. unfold file_recs at 1. cbn [bfile].
  assert (Hlen : length (btbl s) = length (file_recs s)).
  { rewrite Ht. rewrite firstn_length. rewrite Ht, firstn_length in Hm. lia. }
  rewrite Hlen, nth_error_app2, Nat.sub_diag by lia. cbn [nth_error]. eexists. reflexivity.
Qed.

(* ---------------------------------------------------------------- what the lookups return in every reachable state *)
Lemma cprefix_bytes : forall l, bytes_ok l = true -> bytes_ok (cprefix l) = true.
Proof.
  induction l as [|c r IH]; intros H; [reflexivity|]. cbn [cprefix]. destruct (c =? 0); [reflexivity|].
  cbn [bytes_ok forallb] in *. apply andb_prop in H. destruct H as [H1 H2]. rewrite H1. exact (IH H2).
Qed.
Lemma rec_name_bytes r : bytes_ok r = true -> bytes_ok (rec_name r) = true.
Proof. intros H. apply cprefix_bytes. apply forallb_firstn, H. Qed.
Lemma rec_title5_bytes r : bytes_ok r = true -> bytes_ok (rec_title5 r) = true.
Proof. intros H. apply forallb_firstn, forallb_skipn, H. Qed.

Lemma tbl_bytes s : hist_inv s -> forall r, In r (btbl s) -> bytes_ok r = true.
Proof.
  intros (_ & Ht & Hf & _) r Hin. rewrite Ht in Hin. apply ListX.In_firstn in Hin. rewrite Forall_forall in Hf. exact (Hf r Hin).
Qed.
Lemma tnames_bytes s : hist_inv s -> forallb bytes_ok (tnames s) = true.
Proof.
  intros Hi. apply forallb_forall. intros x Hx. apply in_map_iff in Hx. destruct Hx as (r & <- & Hr).
  apply rec_name_bytes, (tbl_bytes s Hi r Hr).
Qed.

Lemma map_nth_seq' {A} (d : A) : forall l, map (fun i => nth i l d) (seq 0 (length l)) = l.
Proof.
  induction l as [|a l IH]; [reflexivity|]. cbn [length seq map nth]. f_equal.
  rewrite <- seq_shift, map_map. cbn [nth]. exact IH.
Qed.
Lemma by_bids_perm {A} (d : A) l bids :
  Permutation bids (map (fun i => Z.of_nat i + 1) (seq 0 (length l))) -> Permutation l (by_bids d l bids).
Proof.
  intros P. unfold by_bids. apply Permutation_sym. etransitivity; [apply Permutation_map, P|]. rewrite map_map.
  rewrite (map_ext _ (fun i => nth i l d)); [rewrite map_nth_seq'; reflexivity|]. intros i. f_equal. lia.
Qed.

Theorem hist_lookups s : hist_inv s ->
  (forall q, bytes_ok q = true -> exists b, get_bid (snames s) (bsn s) q = Ok b /\
     ((1 <= b <= lenZ (tnames s) /\ cstrcasecmp (boardid q) (boardid (nth (Z.to_nat (b - 1)) (tnames s) [])) = 0) \/
      (b = 0 /\ forall j, 0 <= j < lenZ (tnames s) -> cstrcasecmp (boardid q) (boardid (nth (Z.to_nat j) (tnames s) [])) <> 0))) /\
  (forall q asc, bytes_ok q = true -> exists r, find_by_name (snames s) q asc = Ok r /\
     ((1 <= r <= lenZ (snames s) /\ cmp_name (snames s) q (r - 1) = 0) \/ scan (cmp_name (snames s) q) (lenZ (snames s)) asc = Ok r)) /\
  Permutation (tnames s) (snames s).
Proof.
  intros Hi. pose proof (tnames_bytes s Hi) as Hb. destruct Hi as (_ & _ & _ & Hn1 & Hn2 & _).
  assert (P : Permutation (tnames s) (snames s)) by (apply by_bids_perm, Hn1).
  split; [|split; [|exact P]].
  - intros q Hq. exact (getbid_table (tnames s) (bsn s) q Hn1 Hb Hq Hn2).
  - intros q asc Hq. exact (find_by_name_sorted (tnames s) (snames s) q asc (conj P Hn2) Hb Hq).
Qed.

(* by class, for tables whose fifth title byte is a blank (what mNewbrd writes) or a NUL (a vacated slot) *)
Lemma nth_map_d {A B} (f : A -> B) d d' l i : f d = d' -> nth i (map f l) d' = f (nth i l d).
Proof. intros <-. apply map_nth. Qed.
Lemma combine_map {A B C} (f : A -> B) (g : A -> C) : forall l, combine (map f l) (map g l) = map (fun x => (f x, g x)) l.
Proof. induction l as [|a l IH]; [reflexivity|]. cbn [map combine]. rewrite IH. reflexivity. Qed.

Lemma class_index_eq s : combine (ctitles s) (cnames s) = by_bids ([], []) (tentries s) (bsc s).
Proof.
  unfold ctitles, cnames, tnames, tentries, by_bids.
  rewrite (map_ext (fun b => nth (Z.to_nat (b - 1)) (map rec_title5 (btbl s)) []) (fun b => rec_title5 (nth (Z.to_nat (b - 1)) (btbl s) [])))
    by (intros b; apply nth_map_d; reflexivity).
  rewrite (map_ext (fun b => nth (Z.to_nat (b - 1)) (map rec_name (btbl s)) []) (fun b => rec_name (nth (Z.to_nat (b - 1)) (btbl s) [])))
    by (intros b; apply nth_map_d; reflexivity).
  rewrite (map_ext (fun b => nth (Z.to_nat (b - 1)) (map rec_entry (btbl s)) ([], [])) (fun b => rec_entry (nth (Z.to_nat (b - 1)) (btbl s) [])))
    by (intros b; apply nth_map_d; reflexivity).
  apply combine_map.
Qed.

Theorem hist_lookups_class s : hist_inv s -> Forall (fun r => title_ok (rec_title5 r)) (btbl s) ->
  forall cls q asc, bytes_ok cls = true -> bytes_ok q = true ->
  exists r, find_by_class (ctitles s) (cnames s) cls q asc = Ok r /\
    ((1 <= r <= lenZ (cnames s) /\ cmp_class (ctitles s) (cnames s) cls q (r - 1) = 0) \/
     scan (cmp_class (ctitles s) (cnames s) cls q) (lenZ (cnames s)) asc = Ok r).
Proof.
  intros Hi Htl cls q asc Hc Hq. pose proof (tbl_bytes s Hi) as Hb. destruct Hi as (_ & _ & _ & _ & _ & Hc1 & Hc2).
  apply (find_by_class_sorted (tentries s)); try assumption.
  - unfold ctitles, cnames, by_bids. rewrite !map_length. reflexivity.
  - rewrite class_index_eq. split; [|exact Hc2]. apply by_bids_perm.
    unfold bid_index, tentries in *. rewrite !map_length in Hc1. rewrite map_length. exact Hc1.
  - apply Forall_forall. intros e He. unfold tentries in He. apply in_map_iff in He. destruct He as (r & <- & Hr).
    rewrite Forall_forall in Htl. unfold entry_ok, rec_entry. cbn [fst snd].
    split; [apply rec_title5_bytes, Hb, Hr|split; [apply rec_name_bytes, Hb, Hr|apply Htl, Hr]].
Qed.

(* ---------------------------------------------------------------- the insertion sort of the executable model is such a sorter *)
Lemma insert_perm {A} (less : A -> A -> bool) x : forall l, Permutation (insert_by less x l) (x :: l).
Proof.
  induction l as [|y l IH]; [reflexivity|]. cbn [insert_by]. destruct (less x y); [reflexivity|].
  etransitivity; [apply perm_skip, IH|apply perm_swap].
Qed.
Lemma isort_perm {A} (less : A -> A -> bool) : forall l, Permutation (isort_by less l) l.
Proof.
  induction l as [|a l IH]; [reflexivity|]. unfold isort_by in *. cbn [fold_right].
  etransitivity; [apply insert_perm|apply perm_skip, IH].
Qed.
Lemma insert_sorted {A} (less : A -> A -> bool) (asym : forall a b, less a b = true -> less b a = false) x :
  forall l, sorted_by less l = true -> sorted_by less (insert_by less x l) = true.
Proof.
  induction l as [|y l IH]; intros H; [reflexivity|]. cbn [insert_by]. destruct (less x y) eqn:E.
  - change (negb (less y x) && sorted_by less (y :: l) = true). rewrite (asym _ _ E). exact H.
  - destruct l as [|z l].
    + cbn [insert_by sorted_by]. rewrite E. reflexivity.
    + change (negb (less z y) && sorted_by less (z :: l) = true) in H. apply andb_prop in H. destruct H as [H1 H2].
      specialize (IH H2). cbn [insert_by] in *. destruct (less x z) eqn:E2.
      * change (negb (less x y) && sorted_by less (x :: z :: l) = true). rewrite E. exact IH.
      * change (negb (less z y) && sorted_by less (z :: insert_by less x l) = true). rewrite H1. exact IH.
Qed.
Lemma isort_sorted {A} (less : A -> A -> bool) (asym : forall a b, less a b = true -> less b a = false) :
  forall l, sorted_by less (isort_by less l) = true.
Proof.
  induction l as [|a l IH]; [reflexivity|]. unfold isort_by in *. cbn [fold_right]. apply insert_sorted; assumption.
Qed.

Lemma less_name_asym a b : less_name a b = true -> less_name b a = false.
Proof.
  rewrite !less_name_key. unfold lessK. intros H. apply Z.ltb_lt in H. apply Z.ltb_ge. rewrite ss_antisym. lia.
Qed.
Lemma less_class_asym a b : less_class a b = true -> less_class b a = false.
Proof.
  rewrite !less_class_key. unfold lessK. intros H. apply Z.ltb_lt in H. apply Z.ltb_ge. rewrite cmp2_anti. lia.
Qed.

Theorem isorter_ok : sorter_ok isorter.
Proof.
  split.
  - intros names. unfold isorter, fst. split.
    + unfold bid_index. apply isort_perm.
    + unfold names_by. rewrite <- sorted_by_map. apply isort_sorted. intros a b. apply less_name_asym.
  - intros ents. unfold isorter, snd. split.
    + unfold bid_index. rewrite map_length. apply isort_perm.
    + unfold by_bids. rewrite <- sorted_by_map. apply isort_sorted. intros a b. apply less_class_asym.
Qed.

(* ---------------------------------------------------------------- non-vacuity: the first board of a fresh site *)
(* ReloadBCache with no .BRD, then the first board "Ab" (class "AAAA") is created: it is found in any letter case *)
Definition ex_rec : list Z := mkrec [65; 98; 0; 0; 0; 0; 0; 0; 0; 0; 0; 0; 0; 65; 65; 65; 65; 32].
Example ex_first_board :
  exists s, run_hist isorter [OReload; OCreate ex_rec] fresh = Some s /\ bbusy s = 0 /\ tnames s = [[65; 98]] /\
    get_bid (snames s) (bsn s) [97; 66] = Ok 1 /\ find_by_name (snames s) [65; 66] true = Ok 1 /\
    find_by_class (ctitles s) (cnames s) [65; 65; 65; 65] [97; 98] false = Ok 1.
Proof. eexists. split; [vm_compute; reflexivity|]. vm_compute. repeat split; reflexivity. Qed.
(* an empty file, a file shorter than a record, a file with an incomplete last record: the complete records, no more *)
Example ex_records : records [] = [] /\ records (repeat 122 100) = [] /\
  map rec_name (records (ex_rec ++ repeat 122 255)) = [[65; 98]].
Proof. vm_compute. repeat split; reflexivity. Qed.
(* were the flag not released on the early return (bbusy = 1 after ReloadBCache without .BRD), the creation would be
   refused: ResetBoard answers busy *)
Example ex_flag_matters :
  create isorter ex_rec (mk_bst None [] 1 [] []) = None /\ sort_bcache isorter (mk_bst None [ex_rec] 1 [] []) = mk_bst None [ex_rec] 1 [] [].
Proof. vm_compute. split; reflexivity. Qed.

(* ---------------------------------------------------------------- the next-cursor carries a name of the full field width *)
(* the by-name cursor is CstrToString(Brdname) copied back into a BoardID_t (13 bytes): for EVERY name the C string in
   the field is unchanged by the round trip, names of the full 12 characters included; the cursor of a board resolves
   to that board (cursor_resolves, Proofs/C11_walk.v) *)
Lemma cprefix_no_nul : forall l, ~ In 0 (cprefix l).
Proof.
  induction l as [|c r IH]; [intros []|]. cbn [cprefix]. destruct (c =? 0) eqn:E; [intros []|].
  intros [H|H]; [apply Z.eqb_neq in E; lia|exact (IH H)].
Qed.
Lemma cprefix_length : forall l, (length (cprefix l) <= length l)%nat.
Proof. induction l as [|c r IH]; [cbn; lia|]. cbn [cprefix]. destruct (c =? 0); cbn [length]; lia. Qed.

Lemma cursor_field_roundtrip nm : cprefix (boardid (cprefix (boardid nm))) = cprefix (boardid nm).
Proof.
  set (p := cprefix (boardid nm)).
  assert (Hl : (length p <= 13)%nat). { unfold p. etransitivity; [apply cprefix_length|]. unfold boardid. rewrite ListX.fixlen_length. lia. }
  unfold boardid at 1. unfold fixlen. rewrite firstn_all2 by lia.
  destruct (13 - length p)%nat as [|k] eqn:E.
  - cbn [repeat]. rewrite app_nil_r. apply cprefix_nonul. apply cprefix_no_nul.
  - cbn [repeat]. apply cprefix_app_nul. apply cprefix_no_nul.
Qed.
(* ... whereas a copy clipped at 11 bytes loses the twelfth character *)
Example ex_clip11 : let nm := [97; 98; 99; 100; 101; 102; 103; 104; 105; 106; 107; 108] in
  cprefix (boardid (cprefix (boardid nm))) = nm /\ cprefix (boardid (firstn 11 nm)) <> nm.
Proof. vm_compute. split; [reflexivity|discriminate]. Qed.

(* ---------------------------------------------------------------- the statements of Props/C11.v *)
Theorem history_lookups srt ops s : sorter_ok srt -> Forall op_ok ops -> run_hist srt ops fresh = Some s ->
  bbusy s = 0 /\ btbl s = firstn (Z.to_nat MAXB) (file_recs s) /\
  (forall q, bytes_ok q = true -> exists b, get_bid (snames s) (bsn s) q = Ok b /\
     ((1 <= b <= lenZ (tnames s) /\ cstrcasecmp (boardid q) (boardid (nth (Z.to_nat (b - 1)) (tnames s) [])) = 0) \/
      (b = 0 /\ forall j, 0 <= j < lenZ (tnames s) -> cstrcasecmp (boardid q) (boardid (nth (Z.to_nat j) (tnames s) [])) <> 0))) /\
  (forall q asc, bytes_ok q = true -> exists r, find_by_name (snames s) q asc = Ok r /\
     ((1 <= r <= lenZ (snames s) /\ cmp_name (snames s) q (r - 1) = 0) \/ scan (cmp_name (snames s) q) (lenZ (snames s)) asc = Ok r)) /\
  Permutation (tnames s) (snames s) /\ sorted_by less_name (snames s) = true.
Proof.
  intros Hs Ho E. pose proof (run_hist_inv srt Hs ops fresh s Ho hist_inv_fresh E) as Hi.
  destruct (hist_lookups s Hi) as (H1 & H2 & H3). destruct Hi as (Hb & Ht & _ & _ & Hn2 & _).
  repeat split; assumption.
Qed.

Theorem history_lookups_class srt ops s : sorter_ok srt -> Forall op_ok ops -> run_hist srt ops fresh = Some s ->
  Forall (fun r => nth 4 (rec_title5 r) 0 = 32 \/ nth 4 (rec_title5 r) 0 = 0) (btbl s) ->
  forall cls q asc, bytes_ok cls = true -> bytes_ok q = true ->
  exists r, find_by_class (ctitles s) (cnames s) cls q asc = Ok r /\
    ((1 <= r <= lenZ (cnames s) /\ cmp_class (ctitles s) (cnames s) cls q (r - 1) = 0) \/
     scan (cmp_class (ctitles s) (cnames s) cls q) (lenZ (cnames s)) asc = Ok r).
Proof.
  intros Hs Ho E Ht. exact (hist_lookups_class s (run_hist_inv srt Hs ops fresh s Ho hist_inv_fresh E) Ht).
Qed.

Theorem history_creation_not_refused srt ops s r : sorter_ok srt -> Forall op_ok ops -> run_hist srt ops fresh = Some s ->
  Z.of_nat (length (btbl s)) < MAXB -> exists s', create srt r s = Some s'.
Proof.
  intros Hs Ho E. exact (create_total srt r s (run_hist_inv srt Hs ops fresh s Ho hist_inv_fresh E)).
Qed.

(* ---------------------------------------------------------------- a writer stopped inside its critical section (op 12) *)
Lemma waited_eq {A} (e a : Z) (k : A) : waited e a k = k.
Proof. unfold waited. destruct (e =? 0); [reflexivity|]. destruct (a =? 0); reflexivity. Qed.

Lemma stall_same v s : bbusy (stall v s) = v /\ btbl (stall v s) = btbl s /\ bfile (stall v s) = bfile s /\
  bsn (stall v s) = bsn s /\ bsc (stall v s) = bsc s /\ tnames (stall v s) = tnames s /\ snames (stall v s) = snames s /\
  cnames (stall v s) = cnames s /\ ctitles (stall v s) = ctitles s.
Proof. repeat split; reflexivity. Qed.

Theorem stalled_flag_independence v after s :
  (forall q, st_get_bid after (stall v s) q = get_bid (snames s) (bsn s) q) /\
  (forall q asc, st_find_by_name after (stall v s) q asc = find_by_name (snames s) q asc) /\
  (forall q asc, st_autocomplete after (stall v s) q asc = autocomplete (snames s) q asc) /\
  (forall cls q asc, st_find_by_class after (stall v s) cls q asc = find_by_class (ctitles s) (cnames s) cls q asc) /\
  (forall k asc, st_page_walk after (stall v s) k asc = page_walk (snames s) k asc) /\
  (forall k asc, st_page_walk_class after (stall v s) k asc = page_walk_class (ctitles s) (cnames s) k asc).
Proof.
  unfold st_get_bid, st_find_by_name, st_autocomplete, st_find_by_class, st_page_walk, st_page_walk_class.
  repeat split; intros; rewrite waited_eq; reflexivity.
Qed.

Theorem stalled_lookups srt ops s v after : sorter_ok srt -> Forall op_ok ops -> run_hist srt ops fresh = Some s ->
  let s' := stall v s in
  bbusy s' = v /\ btbl s' = firstn (Z.to_nat MAXB) (file_recs s') /\
  (forall q, bytes_ok q = true -> exists b, st_get_bid after s' q = Ok b /\
     ((1 <= b <= lenZ (tnames s') /\ cstrcasecmp (boardid q) (boardid (nth (Z.to_nat (b - 1)) (tnames s') [])) = 0) \/
      (b = 0 /\ forall j, 0 <= j < lenZ (tnames s') -> cstrcasecmp (boardid q) (boardid (nth (Z.to_nat j) (tnames s') [])) <> 0))) /\
  (forall q asc, bytes_ok q = true -> exists r, st_find_by_name after s' q asc = Ok r /\
     ((1 <= r <= lenZ (snames s') /\ cmp_name (snames s') q (r - 1) = 0) \/ scan (cmp_name (snames s') q) (lenZ (snames s')) asc = Ok r)) /\
  Permutation (tnames s') (snames s') /\ sorted_by less_name (snames s') = true.
Proof.
  intros Hs Ho E s'. destruct (history_lookups srt ops s Hs Ho E) as (_ & H2 & H3 & H4 & H5 & H6).
  destruct (stalled_flag_independence v after s) as (G1 & G2 & _).
  subst s'. repeat split; try assumption.
  - intros q Hq. rewrite G1. exact (H3 q Hq).
  - intros q asc Hq. rewrite G2. exact (H4 q asc Hq).
Qed.

Theorem stalled_lookups_class srt ops s v after : sorter_ok srt -> Forall op_ok ops -> run_hist srt ops fresh = Some s ->
  Forall (fun r => nth 4 (rec_title5 r) 0 = 32 \/ nth 4 (rec_title5 r) 0 = 0) (btbl s) ->
  let s' := stall v s in
  forall cls q asc, bytes_ok cls = true -> bytes_ok q = true ->
  exists r, st_find_by_class after s' cls q asc = Ok r /\
    ((1 <= r <= lenZ (cnames s') /\ cmp_class (ctitles s') (cnames s') cls q (r - 1) = 0) \/
     scan (cmp_class (ctitles s') (cnames s') cls q) (lenZ (cnames s')) asc = Ok r).
Proof.
  intros Hs Ho E Ht s' cls q asc Hc Hq. subst s'.
  destruct (stalled_flag_independence v after s) as (_ & _ & _ & G4 & _). rewrite G4.
  exact (history_lookups_class srt ops s Hs Ho E Ht cls q asc Hc Hq).
Qed.

(* not vacuous: a table of two boards loaded from a file, then a writer stopped with the flag at 1, the flag still 1 after the wait:
   "ab" in another letter case is board 2, found at position 1 of the by-name index; "zz" is no board *)
Example stalled_example :
  let rec_ n := mkrec (fixlen 13 n ++ [65; 65; 65; 65; 32]) in
  exists s, run_hist isorter [OInstall (rec_ [122] ++ rec_ [97; 98])] fresh = Some s /\
    bbusy (stall 1 s) = 1 /\ st_get_bid 1 (stall 1 s) [65; 66] = Ok 2 /\ st_find_by_name 1 (stall 1 s) [65; 66] true = Ok 1 /\
    st_get_bid 1 (stall 1 s) [122; 122] = Ok 0.
Proof. eexists. split; [reflexivity|]. vm_compute. repeat split; reflexivity. Qed.
