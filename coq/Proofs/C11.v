(* C11 — lemmas about the model of cache/cache_board.go (Model/C11.v); the search skeleton is Base/OddSearch.v.
   Proofs/C11_order.v: the two sort orders are strict weak orders, a sorted index is monotone for every key
   ([sorted_for_name] / [sorted_for_class] are defined there); Proofs/C11_auto.v: the scan declaratively and the
   functional half of auto-completion; Proofs/C11_walk.v: the listing walk. *)
From Coq Require Import Permutation.
From Verif Require Import Base.Common Base.Cstr Base.OddSearch Model.C11.
From Verif Require Export Proofs.C11_order Proofs.C11_auto Proofs.C11_walk Proofs.C11_walkclass.

Lemma lenZ_nonneg {A} (l : list A) : 0 <= lenZ l.
Proof. unfold lenZ. lia. Qed.

(* GetBid: the bid of an entry equal to the key (ignoring case), or 0 exactly when there is none *)
Lemma getbid names bids q : sorted_for_name names q ->
  exists b, get_bid names bids q = Ok b /\
    ((exists idx, 0 <= idx < lenZ names /\ cmp_name names q idx = 0 /\ b = nth (Z.to_nat idx) bids 0) \/
     (b = 0 /\ forall i, 0 <= i < lenZ names -> cmp_name names q i <> 0)).
Proof.
  intros Hm. unfold get_bid.
  destruct (search_exact (cmp_name names q) (lenZ names) Hm (lenZ_nonneg names)) as (idx & found & E & Ht & Hf).
  rewrite E. destruct found.
  - eexists. split; [reflexivity|]. left. exists idx. destruct (Ht eq_refl). auto.
  - exists 0. split; [reflexivity|]. right. split; [reflexivity|]. exact (Hf eq_refl).
Qed.

Lemma find_by_name_spec names q asc : sorted_for_name names q ->
  exists r, find_by_name names q asc = Ok r /\
    ((1 <= r <= lenZ names /\ cmp_name names q (r - 1) = 0) \/ scan (cmp_name names q) (lenZ names) asc = Ok r).
Proof. intros Hm. apply find_eq_scan; [exact Hm|apply lenZ_nonneg]. Qed.

Lemma find_by_class_spec titles names cls q asc : sorted_for_class titles names cls q ->
  exists r, find_by_class titles names cls q asc = Ok r /\
    ((1 <= r <= lenZ names /\ cmp_class titles names cls q (r - 1) = 0) \/
     scan (cmp_class titles names cls q) (lenZ names) asc = Ok r).
Proof. intros Hm. apply find_eq_scan; [exact Hm|apply lenZ_nonneg]. Qed.

(* auto-completion never panics or hangs, whatever the prefix (after the fix: also empty and longer than a name) *)
Lemma autocomplete_total (names : list (list Z)) (kw : list Z) (asc : bool) :
  sorted_for_name names (if asc then kw else bump_last kw) -> exists r, autocomplete names kw asc = Ok r.
Proof.
  intros Hm. unfold autocomplete.
  destruct ((lenZ kw =? 0) || (12 <? lenZ kw)); [eexists; reflexivity|].
  destruct (find_eq_scan _ (lenZ names) (negb asc) Hm (lenZ_nonneg names)) as (r & E & _).
  rewrite E. eexists. reflexivity.
Qed.

(* by name the search compares exactly as the index was sorted *)
Lemma search_order_agrees_name names q i : 0 <= i ->
  (cmp_name names q i <? 0) = less_name q (nth (Z.to_nat i) names []).
Proof. intros _. unfold cmp_name, less_name, name_at, boardid. reflexivity. Qed.

(* ---- non-vacuity: a table with a vacated slot, a shared prefix and mixed case ---- *)
Definition ex_names : list (list Z) := [[]; [48; 122]; [97]; [97; 66]; [97; 98; 99]; [98]].   (* "", 0z, a, aB, abc, b *)

Example ex_sorted_aa : sorted_for_name ex_names [97; 97].   (* key "aa": absent, between a and aB *)
Proof.
  unfold sorted_for_name. intros i j Hi Hij Hj. cbn in Hj.
  assert (Hc : (i = 0 \/ i = 1 \/ i = 2 \/ i = 3 \/ i = 4 \/ i = 5) /\ (j = 0 \/ j = 1 \/ j = 2 \/ j = 3 \/ j = 4 \/ j = 5)) by lia.
  destruct Hc as [Hci Hcj].
  destruct Hci as [->|[->|[->|[->|[->| ->]]]]]; destruct Hcj as [->|[->|[->|[->|[->| ->]]]]]; try lia;
    repeat match goal with |- context [cmp_name ?a ?b ?c] => let v := eval vm_compute in (cmp_name a b c) in change (cmp_name a b c) with v end; lia.
Qed.
Example ex_find : find_by_name ex_names [97; 97] true = Ok 4 /\ find_by_name ex_names [97; 97] false = Ok 3 /\
                  find_by_name ex_names [33] true = Ok 2 /\ get_bid ex_names [5; 3; 1; 6; 2; 4] [65; 98] = Ok 6 /\
                  autocomplete ex_names [97] true = Ok 3 /\ autocomplete ex_names [97] false = Ok 5.
Proof. vm_compute. auto 10. Qed.

(* ---- refutations (known findings) ---- *)
(* by class the array is sorted on Title[:4] but searched on BoardClass() = Title[:5] when the fifth byte is not a
   blank: [("AAAAx","ab"); ("AAAA ","aB")] is in order for the sort, yet looking ("AAAA","zz") up descending finds
   nothing where the scan of the table finds entry 2 *)
Lemma find_by_class_refuted_nonblank_title_byte :
  exists titles names cls q,
    sorted_by less_class (combine titles names) = true /\
    find_by_class titles names cls q false = Ok (-1) /\
    scan (cmp_class titles names cls q) (lenZ names) false = Ok 2.
Proof.
  exists [[65; 65; 65; 65; 120]; [65; 65; 65; 65; 32]], [[97; 98]; [97; 66]], [65; 65; 65; 65], [122; 122].
  vm_compute. auto.
Qed.

(* descending auto-completion with a prefix ending in 'Z': 'Z'+1 = '[' folds below every letter, the probe lands
   before the carriers; table ["", "ab", "aZ"], prefix "aZ": entry 3 carries it, the answer is "none" *)
Lemma autocomplete_refuted_desc_upper_Z :
  exists names kw, sorted_by less_name names = true /\ cmp_prefix names kw 2 = 0 /\ autocomplete names kw false = Ok (-1).
Proof. exists [[]; [97; 98]; [97; 90]], [97; 90]. vm_compute. auto. Qed.

(* names equal up to case: the core may stop on any twin, so ascending auto-completion of "a" over
   ["a"; "A"; "ab"] starts at entry 2 although entry 1 carries the prefix *)
Lemma autocomplete_refuted_case_twins :
  exists names kw, sorted_by less_name names = true /\ cmp_prefix names kw 0 = 0 /\ autocomplete names kw true = Ok 2.
Proof. exists [[97]; [65]; [97; 98]], [97]. vm_compute. auto. Qed.

(* ... and the by-name listing of ["a"; "A"] with page size 1 never ends: the next-cursor "A" resolves to "a" again *)
Lemma page_walk_refuted_case_twins :
  exists names k asc, sorted_by less_name names = true /\ (0 < k)%nat /\ page_walk names k asc = Hang.
Proof. exists [[97]; [65]], 1%nat, true. vm_compute. auto. Qed.

(* the listing of the example table: every visible board once, in order, ceil(5/2) pages *)
Example ex_walk : page_walk ex_names 2 true = Ok (3, [2; 3; 4; 5; 6]) /\ page_walk ex_names 2 false = Ok (3, [6; 5; 4; 3; 2]).
Proof. vm_compute. auto. Qed.

(* ================================================================ sorted tables ================================================================ *)
(* what sort.Sort is assumed to return (and the check verifies on every table): a sorted permutation *)
Definition sorted_permutation {A} (less : A -> A -> bool) (table sorted : list A) : Prop :=
  Permutation table sorted /\ sorted_by less sorted = true.

Lemma perm_forallb {A} (f : A -> bool) (l l' : list A) : Permutation l l' -> forallb f l = true -> forallb f l' = true.
Proof.
  intros P H. rewrite forallb_forall in *. intros x Hx. apply H. apply (Permutation_in x (Permutation_sym P)). exact Hx.
Qed.

Lemma in_combine_ex_l {A B} : forall (l : list A) (l' : list B) a, length l = length l' -> In a l -> exists b, In (a, b) (combine l l').
Proof.
  induction l as [|x l IH]; intros l' a Hlen Hin; [destruct Hin|]. destruct l' as [|y l']; [discriminate|].
  destruct Hin as [->|Hin]; [exists y; left; reflexivity|].
  destruct (IH l' a ltac:(cbn in Hlen; lia) Hin) as (b & Hb). exists b. right. exact Hb.
Qed.
Lemma in_combine_ex_r {A B} : forall (l : list A) (l' : list B) b, length l = length l' -> In b l' -> exists a, In (a, b) (combine l l').
Proof.
  induction l as [|x l IH]; intros l' b Hlen Hin; [destruct l'; [destruct Hin|discriminate]|]. destruct l' as [|y l']; [destruct Hin|].
  destruct Hin as [->|Hin]; [exists x; left; reflexivity|].
  destruct (IH l' b ltac:(cbn in Hlen; lia) Hin) as (a & Ha). exists a. right. exact Ha.
Qed.

Lemma find_by_name_sorted table names q asc :
  sorted_permutation less_name table names -> forallb bytes_ok table = true -> bytes_ok q = true ->
  exists r, find_by_name names q asc = Ok r /\
    ((1 <= r <= lenZ names /\ cmp_name names q (r - 1) = 0) \/ scan (cmp_name names q) (lenZ names) asc = Ok r).
Proof.
  intros [P S] Hb Hq. apply find_by_name_spec. apply sorted_implies_monotone_name; [exact (perm_forallb _ _ _ P Hb)|exact Hq|exact S].
Qed.

(* a by-class table entry is (Title[:5], name) *)
Definition entry_ok (e : list Z * list Z) : Prop := bytes_ok (fst e) = true /\ bytes_ok (snd e) = true /\ title_ok (fst e).

Lemma find_by_class_sorted table titles names cls q asc :
  length titles = length names -> sorted_permutation less_class table (combine titles names) ->
  Forall entry_ok table -> bytes_ok cls = true -> bytes_ok q = true ->
  exists r, find_by_class titles names cls q asc = Ok r /\
    ((1 <= r <= lenZ names /\ cmp_class titles names cls q (r - 1) = 0) \/
     scan (cmp_class titles names cls q) (lenZ names) asc = Ok r).
Proof.
  intros Hlen [P S] He Hcls Hq. apply find_by_class_spec.
  assert (He' : forall e, In e (combine titles names) -> entry_ok e).
  { intros e Hin. rewrite Forall_forall in He. apply He. apply (Permutation_in e (Permutation_sym P)). exact Hin. }
  apply sorted_implies_monotone_class; try assumption.
  - apply Forall_forall. intros t Ht. destruct (in_combine_ex_l titles names t Hlen Ht) as (s & Hin). exact (proj2 (proj2 (He' _ Hin))).
  - apply forallb_forall. intros t Ht. destruct (in_combine_ex_l titles names t Hlen Ht) as (s & Hin). exact (proj1 (He' _ Hin)).
  - apply forallb_forall. intros s Hs. destruct (in_combine_ex_r titles names s Hlen Hs) as (t & Hin). exact (proj1 (proj2 (He' _ Hin))).
Qed.

(* GetBid on the board table itself: [table] in bid order, [bids] = BSorted[by name] + 1 *)
Definition bid_index (table : list (list Z)) (bids : list Z) : Prop :=
  Permutation bids (map (fun i => Z.of_nat i + 1) (seq 0 (length table))).
Definition names_by (table : list (list Z)) (bids : list Z) : list (list Z) :=
  map (fun b => nth (Z.to_nat (b - 1)) table []) bids.

Lemma getbid_table table bids q :
  bid_index table bids -> forallb bytes_ok table = true -> bytes_ok q = true ->
  sorted_by less_name (names_by table bids) = true ->
  exists b, get_bid (names_by table bids) bids q = Ok b /\
    ((1 <= b <= lenZ table /\ cstrcasecmp (boardid q) (boardid (nth (Z.to_nat (b - 1)) table [])) = 0) \/
     (b = 0 /\ forall j, 0 <= j < lenZ table -> cstrcasecmp (boardid q) (boardid (nth (Z.to_nat j) table [])) <> 0)).
Proof.
  intros P Hb Hq Hs. set (f := fun b => nth (Z.to_nat (b - 1)) table []).
  assert (Hbn : forallb bytes_ok (names_by table bids) = true).
  { apply forallb_forall. intros x Hx. apply in_map_iff in Hx. destruct Hx as (b & <- & _). apply all_bytes_ok_nth, Hb. }
  assert (Hlen : lenZ (names_by table bids) = lenZ bids) by (unfold lenZ, names_by; rewrite map_length; reflexivity).
  assert (Hname : forall idx, 0 <= idx < lenZ bids ->
            cmp_name (names_by table bids) q idx = cstrcasecmp (boardid q) (boardid (f (nth (Z.to_nat idx) bids 0)))).
  { intros idx Hidx. unfold cmp_name, name_at, names_by. fold f. unfold lenZ in Hidx.
    rewrite (nth_indep _ [] (f 0)) by (rewrite map_length; lia). rewrite map_nth. reflexivity. }
  destruct (getbid _ bids q (sorted_implies_monotone_name _ q Hbn Hq Hs)) as (b & E & H).
  exists b. split; [exact E|]. rewrite Hlen in H. destruct H as [(idx & Hidx & Hc & Hbv)|(Hb0 & Hall)].
  - left. rewrite (Hname idx Hidx), <- Hbv in Hc. split; [|exact Hc].
    assert (Hin : In b bids). { rewrite Hbv. apply nth_In. unfold lenZ in Hidx. lia. }
    apply (Permutation_in b P) in Hin. apply in_map_iff in Hin. destruct Hin as (i & <- & Hi). apply in_seq in Hi.
    unfold lenZ. lia.
  - right. split; [exact Hb0|]. intros j Hj Hc.
    assert (Hin : In (j + 1) bids).
    { apply (Permutation_in (j + 1) (Permutation_sym P)). apply in_map_iff. exists (Z.to_nat j). split; [lia|].
      apply in_seq. unfold lenZ in Hj. lia. }
    destruct (In_nth bids (j + 1) 0 Hin) as (idx & Hidx & Hnth).
    apply (Hall (Z.of_nat idx) ltac:(unfold lenZ; lia)). rewrite (Hname (Z.of_nat idx)) by (unfold lenZ; lia).
    rewrite Nat2Z.id, Hnth. unfold f. replace (j + 1 - 1) with j by lia. exact Hc.
Qed.

(* ================================================================ non-vacuity ================================================================ *)
Example ex_table_hyps :
  forallb bytes_ok ex_names = true /\ sorted_by less_name ex_names = true /\ distinct_names ex_names = true.
Proof. vm_compute. auto. Qed.

(* a table with two vacated slots still has "names distinct up to case" *)
Definition ex_names2 : list (list Z) := [[]; []; [65; 98]; [98]].
Example ex_table2_hyps :
  forallb bytes_ok ex_names2 = true /\ sorted_by less_name ex_names2 = true /\ distinct_names ex_names2 = true.
Proof. vm_compute. auto. Qed.

(* the orders are not empty, and both sort keys really decide *)
Example ex_less : less_name [97] [66] = true /\ less_name [66] [97] = false /\
                  less_class ([65; 65; 65; 65; 32], [98]) ([66; 66; 66; 66; 32], [97]) = true /\
                  less_class ([65; 65; 65; 65; 32], [97]) ([65; 65; 65; 65; 32], [66]) = true.
Proof. vm_compute. auto. Qed.

(* sorted => monotone: every key, not one computed key *)
Example ex_sorted_any q : bytes_ok q = true -> sorted_for_name ex_names q.
Proof.
  intros Hq. destruct ex_table_hyps as (Hb & Hs & _). exact (sorted_implies_monotone_name ex_names q Hb Hq Hs).
Qed.

(* a by-class index: a vacated slot (all-zero title), then "AAAA " ab, "AAAA " b, "BBBB " a *)
Definition ex_titles : list (list Z) := [[0; 0; 0; 0; 0]; [65; 65; 65; 65; 32]; [65; 65; 65; 65; 32]; [66; 66; 66; 66; 32]].
Definition ex_cnames : list (list Z) := [[]; [97; 98]; [98]; [97]].
Example ex_class_any cls q : bytes_ok cls = true -> bytes_ok q = true -> sorted_for_class ex_titles ex_cnames cls q.
Proof.
  intros Hc Hq. apply sorted_implies_monotone_class; try assumption; try reflexivity.
  unfold ex_titles, title_ok. constructor; [right; reflexivity|]. repeat (constructor; [left; reflexivity|]). constructor.
Qed.
Example ex_find_class : find_by_class ex_titles ex_cnames [65; 65; 65; 65] [97; 122] true = Ok 3 /\
                        find_by_class ex_titles ex_cnames [65; 65; 65; 65] [97; 122] false = Ok 2 /\
                        find_by_class ex_titles ex_cnames [66; 66; 66; 66] [65] true = Ok 4.
Proof. vm_compute. auto. Qed.

(* GetBid on a table in bid order: bids 1..4 = b, (vacated), aB, a; by-name order = (vacated), a, aB, b *)
Definition ex_table : list (list Z) := [[98]; []; [97; 66]; [97]].
Definition ex_bids : list Z := [2; 4; 3; 1].
Example ex_bid_index : bid_index ex_table ex_bids /\ sorted_by less_name (names_by ex_table ex_bids) = true /\
                       get_bid (names_by ex_table ex_bids) ex_bids [65; 98] = Ok 3 /\
                       get_bid (names_by ex_table ex_bids) ex_bids [99] = Ok 0.
Proof.
  split; [|vm_compute; auto]. unfold bid_index, ex_bids, ex_table. cbn [length seq map Z.of_nat Z.add Pos.of_succ_nat Pos.succ Pos.add].
  apply (perm_trans (l' := [1; 2; 4; 3])).
  - apply (perm_trans (l' := [2; 1; 4; 3])); [|apply perm_swap].
    apply perm_skip. apply (perm_trans (l' := [4; 1; 3])); [apply perm_skip, perm_swap|apply perm_swap].
  - do 2 apply perm_skip. apply perm_swap.
Qed.

(* prefixes the auto-completion theorem covers *)
Example ex_prefix_ok : prefix_ok [97] true /\ prefix_ok [97] false /\ prefix_ok [97; 90] true /\ prefix_ok [97; 66] false.
Proof.
  unfold prefix_ok, bumpable, kbyte. repeat split; cbn; try lia; repeat constructor; try lia; intros; try discriminate; lia.
Qed.

Example ex_auto : first_carrier ex_names [97] 3 /\ last_carrier ex_names [97] 5 /\
                  first_carrier ex_names [122] (-1) /\ last_carrier ex_names [97; 66] 5.
Proof.
  destruct ex_table_hyps as (Hb & Hs & Hd).
  assert (P : forall kw asc, (1 <= length kw <= 12)%nat -> Forall kbyte kw -> bumpable (last kw 0) -> prefix_ok kw asc).
  { intros kw asc H1 H2 H3. split; [exact H1|]. split; [exact H2|]. intros _. exact H3. }
  repeat split.
  - destruct (autocomplete_spec ex_names [97] true Hb Hs Hd) as (r & E & H).
    { apply P; [cbn; lia|repeat constructor; unfold kbyte; lia|unfold bumpable; cbn; lia]. }
    vm_compute in E. injection E as <-. exact H.
  - destruct (autocomplete_spec ex_names [97] false Hb Hs Hd) as (r & E & H).
    { apply P; [cbn; lia|repeat constructor; unfold kbyte; lia|unfold bumpable; cbn; lia]. }
    vm_compute in E. injection E as <-. exact H.
  - destruct (autocomplete_spec ex_names [122] true Hb Hs Hd) as (r & E & H).
    { apply P; [cbn; lia|repeat constructor; unfold kbyte; lia|unfold bumpable; cbn; lia]. }
    vm_compute in E. injection E as <-. exact H.
  - destruct (autocomplete_spec ex_names [97; 66] false Hb Hs Hd) as (r & E & H).
    { apply P; [cbn; lia|repeat constructor; unfold kbyte; lia|unfold bumpable; cbn; lia]. }
    vm_compute in E. injection E as <-. exact H.
Qed.

(* the walk with a visibility predicate that hides entry 4 ("aB"), and over the table with two vacated slots *)
Example ex_walk_vis :
  page_walk_g (fun i => visible ex_names i && negb (i =? 3)) ex_names 2 true = Ok (2, [2; 3; 5; 6]) /\
  page_walk ex_names2 1 false = Ok (2, [4; 3]) /\ page_walk ex_names2 5 true = Ok (1, [3; 4]).
Proof. vm_compute. auto. Qed.

(* ---- two more refutations: the other last bytes the descending search cannot increment ---- *)
(* '@' + 1 = 'A' folds to 'a', which is not the successor of '@': boards whose next byte is in '[' .. '`' sort between
   the carriers and the probe; with two of them the three probes run out. Sorted ["a@"; "a_a"; "a_b"; "aa"], prefix "a@" *)
Lemma autocomplete_refuted_desc_at_sign :
  exists names kw, forallb bytes_ok names = true /\ sorted_by less_name names = true /\ distinct_names names = true /\
    last kw 0 = 64 /\ cmp_prefix names kw 0 = 0 /\ autocomplete names kw false = Ok (-1).
Proof. exists [[97; 64]; [97; 95; 97]; [97; 95; 98]; [97; 97]], [97; 64]. vm_compute. auto 10. Qed.

(* 0xFF + 1 wraps to NUL, which ends the key: the probe lands on the first board of the shorter prefix.
   Sorted ["a"; "ab"; "a\xff"], prefix "a\xff" *)
Lemma autocomplete_refuted_desc_0xff :
  exists names kw, forallb bytes_ok names = true /\ sorted_by less_name names = true /\ distinct_names names = true /\
    last kw 0 = 255 /\ cmp_prefix names kw 2 = 0 /\ autocomplete names kw false = Ok (-1).
Proof. exists [[97]; [97; 98]; [97; 255]], [97; 255]. vm_compute. auto 10. Qed.

(* ================================================================ totality on sorted tables ================================================================ *)
Lemma bump_last_bytes_ok kw : bytes_ok kw = true -> bytes_ok (bump_last kw) = true.
Proof.
  intros H. unfold bump_last, bytes_ok in *. rewrite forallb_app. apply andb_true_intro. split.
  - rewrite forallb_forall in *. intros x Hx. apply H. apply ListX.In_firstn in Hx. exact Hx.
  - cbn [forallb]. rewrite andb_true_r. unfold is_byte, wrapu8.
    pose proof (Z.mod_pos_bound (nth (length kw - 1) kw 0 + 1) 256 ltac:(lia)) as Hm.
    destruct (Z.leb_spec 0 ((nth (length kw - 1) kw 0 + 1) mod 256)), (Z.ltb_spec ((nth (length kw - 1) kw 0 + 1) mod 256) 256); cbn; try reflexivity; lia.
Qed.

Lemma autocomplete_total_sorted names kw asc :
  forallb bytes_ok names = true -> bytes_ok kw = true -> sorted_by less_name names = true ->
  exists r, autocomplete names kw asc = Ok r.
Proof.
  intros Hb Hk Hs. apply autocomplete_total. apply sorted_implies_monotone_name; [exact Hb| |exact Hs].
  destruct asc; [exact Hk|apply bump_last_bytes_ok, Hk].
Qed.
