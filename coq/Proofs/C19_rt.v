(* C19: format of the written file and the save/load round trip. *)
From Verif Require Import Base.Common Base.ListX Base.Fs Gen.Consts_default Model.C19.
From Coq Require Import ZifyBool.
Ltac Zify.zify_post_hook ::= Z.div_mod_to_equations.

(* ---------------------------------------------------------------- induction over nested items *)
Section ItemInd.
  Variable P : item -> Prop.
  Hypothesis HB : forall a b v ba, P (IBoard a b v ba).
  Hypothesis HL : forall a l, P (ILine a l).
  Hypothesis HF : forall a f t h sub, Forall P sub -> P (IFolder a f t h sub).
  Fixpoint item_ind' (i : item) : P i :=
    match i with
    | IBoard a b v ba => HB a b v ba
    | ILine a l => HL a l
    | IFolder a f t h sub =>
        HF a f t h sub ((fix go (l : list item) : Forall P l :=
                           match l with [] => Forall_nil P | x :: r => Forall_cons x (item_ind' x) (go r) end) sub)
    end.
End ItemInd.

(* ---------------------------------------------------------------- well-formed trees: every field within its Go type, counts = entries *)
Definition i8 (x : Z) : Prop := -128 <= x < 128.
Definition i32 (x : Z) : Prop := -2147483648 <= x < 2147483648.
Definition wf_hdr (h : hdr) (n : nat) : Prop :=
  0 <= h_nb h < 32768 /\ 0 <= h_nl h < 128 /\ 0 <= h_nf h < 128 /\
  h_nb h + h_nl h + h_nf h = Z.of_nat n /\ Z.of_nat n < 32768.
Fixpoint wf_item (i : item) : Prop :=
  match i with
  | IBoard a b v ba => i8 a /\ i32 b /\ i32 v /\ i8 ba
  | ILine a l => i8 a /\ i8 l
  | IFolder a f t h sub =>
      i8 a /\ i8 f /\ length t = TITLE_SZ /\ wf_hdr h (length sub) /\
      fold_right (fun x acc => wf_item x /\ acc) True sub
  end.
Definition wf_fav (f : fav) : Prop := wf_hdr (fst f) (length (snd f)) /\ Forall wf_item (snd f).

Lemma fold_right_Forall {A} (P : A -> Prop) l : fold_right (fun x acc => P x /\ acc) True l <-> Forall P l.
Proof.
  induction l as [|x r IH]; cbn; [split; auto|]. rewrite IH. split; [intros [H1 H2]; constructor; auto|intros H; inversion H; auto].
Qed.

(* ---------------------------------------------------------------- codec facts *)
Lemma wrap8_u8 x : i8 x -> wrap8 (u8 x) = x.
Proof. unfold i8, wrap8, u8. intros H. rewrite Z.mod_mod by lia. destruct (x mod 256 <? 128) eqn:E; lia. Qed.

Lemma rd16_le16 x : -32768 <= x < 32768 -> rd16 (x mod 256) ((x / 256) mod 256) = x.
Proof. unfold rd16, wrap16. intros H. destruct ((x mod 256 + 256 * ((x / 256) mod 256)) mod 65536 <? 32768) eqn:E; lia. Qed.

Lemma rd32_le32 x : i32 x ->
  rd32 (x mod 256) ((x / 256) mod 256) ((x / 65536) mod 256) ((x / 16777216) mod 256) = x.
Proof.
  unfold rd32, wrap32, i32. intros H.
  assert (E : x mod 256 + 256 * ((x / 256) mod 256) + 65536 * ((x / 65536) mod 256) + 16777216 * ((x / 16777216) mod 256) = x mod 4294967296).
  { assert (x / 65536 = x / 256 / 256) by (rewrite Z.div_div by lia; reflexivity).
    assert (x / 16777216 = x / 256 / 256 / 256) by (rewrite !Z.div_div by lia; reflexivity).
    lia. }
  rewrite E, Z.mod_mod by lia. destruct (x mod 4294967296 <? 2147483648) eqn:E2; lia.
Qed.

Lemma bytes_of_app a b : bytes_of (a ++ b) = bytes_of a ++ bytes_of b.
Proof. unfold bytes_of. rewrite map_app, concat_app. reflexivity. Qed.

Lemma entry_bytes_chunks i : bytes_of (item_entry i) = entry_bytes i.
Proof. destruct i; try reflexivity. unfold bytes_of. cbn [item_entry map snd concat]. rewrite app_nil_r. reflexivity. Qed.

(* ---------------------------------------------------------------- format: the writer produces exactly the specified bytes *)
Lemma entries_upto_all its : exists cs, entries_upto its (length its) = Ok cs /\ bytes_of cs = flat_map entry_bytes its.
Proof.
  induction its as [|i r (cs & E & B)]; [exists []; split; reflexivity|].
  cbn [length entries_upto]. rewrite E. cbn [res_map]. eexists. split; [reflexivity|].
  rewrite bytes_of_app, B, entry_bytes_chunks. reflexivity.
Qed.

Lemma subs_upto_all rec its :
  Forall (fun i => exists c, rec i = Ok c /\ bytes_of c = spec_sub i) its ->
  exists cs, subs_upto rec its (length its) = Ok cs /\ bytes_of cs = flat_map spec_sub its.
Proof.
  induction 1 as [|i r (c & Ec & Bc) _ (cs & E & B)]; [exists []; split; reflexivity|].
  cbn [length subs_upto]. rewrite Ec. cbn [res_bind]. rewrite E. cbn [res_map]. eexists. split; [reflexivity|].
  rewrite bytes_of_app, B, Bc. reflexivity.
Qed.

Lemma data_number_wf h n : wf_hdr h n -> data_number h = Z.of_nat n.
Proof. unfold wf_hdr, data_number, wrap16. intros H. destruct ((h_nb h + h_nl h + h_nf h) mod 65536 <? 32768) eqn:E; lia. Qed.

Lemma fav_chunks_with_spec rec h its : wf_hdr h (length its) ->
  Forall (fun i => exists c, rec i = Ok c /\ bytes_of c = spec_sub i) its ->
  exists cs, fav_chunks_with rec h its = Ok cs /\
    bytes_of cs = le16 (h_nb h) ++ [u8 (h_nl h); u8 (h_nf h)] ++ flat_map entry_bytes its ++ flat_map spec_sub its.
Proof.
  intros Hh Hs. unfold fav_chunks_with. rewrite (data_number_wf _ _ Hh), Nat2Z.id.
  destruct (entries_upto_all its) as (e & Ee & Be). destruct (subs_upto_all rec its Hs) as (s & Es & Bs).
  rewrite Ee, Es. cbn [res_bind]. eexists. split; [reflexivity|].
  rewrite !bytes_of_app, Be, Bs. reflexivity.
Qed.

Lemma sub_chunks_spec i : wf_item i -> exists c, sub_chunks i = Ok c /\ bytes_of c = spec_sub i.
Proof.
  induction i as [a b v ba|a l|a f t h sub IH] using item_ind'; intros Hw; try (exists []; split; reflexivity).
  cbn [wf_item] in Hw. destruct Hw as (_ & _ & _ & Hh & Hsub). apply fold_right_Forall in Hsub.
  cbn [sub_chunks spec_sub]. apply fav_chunks_with_spec; [exact Hh|].
  rewrite Forall_forall in *. intros x Hx. apply IH; [exact Hx|apply Hsub; exact Hx].
Qed.

Lemma format (f : fav) : wf_fav f -> file_image f = Ok (spec_file f).
Proof.
  destruct f as [h its]. intros [Hh Hits]. cbn [fst snd] in *.
  destruct (fav_chunks_with_spec sub_chunks h its Hh) as (cs & E & B).
  { rewrite Forall_forall in *. intros x Hx. apply sub_chunks_spec. apply Hits. exact Hx. }
  unfold file_image, file_chunks, fav_chunks. cbn [fst snd]. rewrite E. cbn [res_map]. f_equal.
  change (bytes_of (version_chunk :: cs)) with (snd version_chunk ++ bytes_of cs). rewrite B. reflexivity.
Qed.

(* every board entry occupies 2 + 12 bytes, a line 2 + 1, a folder 2 + 1 + 49 *)
Lemma entry_sizes i : wf_item i ->
  length (entry_bytes i) = match i with IBoard _ _ _ _ => 14%nat | ILine _ _ => 3%nat | IFolder _ _ _ _ _ => 52%nat end.
Proof. destruct i; intros H; cbn in *; try reflexivity. destruct H as (_ & _ & -> & _). reflexivity. Qed.

(* ---------------------------------------------------------------- round trip *)
Definition strip (i : item) : item :=
  match i with IFolder a f t _ _ => IFolder a f t empty_hdr [] | x => x end.

Lemma skipn_app_exact {A} (a b : list A) n : length a = n -> skipn n (a ++ b) = b.
Proof. intros <-. rewrite skipn_app, skipn_all, Nat.sub_diag. reflexivity. Qed.
Lemma firstn_app_exact {A} (a b : list A) n : length a = n -> firstn n (a ++ b) = a.
Proof. intros <-. rewrite firstn_app, firstn_all, Nat.sub_diag. cbn. apply app_nil_r. Qed.

Lemma read_entry_step n i rest : wf_item i ->
  read_entries (S n) (entry_bytes i ++ rest) =
  match read_entries n rest with
  | ROk (its, r) => ROk (strip i :: its, r)
  | RErr e => RErr e | RCrash => RCrash | RFuel => RFuel
  end.
Proof.
  destruct i as [a b v ba|a l|a f t h sub]; intros Hw; cbn [wf_item] in Hw.
  - destruct Hw as (Ha & Hb & Hv & Hba).
    unfold entry_bytes, le32. cbn [app]. cbn [read_entries].
    change (valid_type (wrap8 1)) with true. change (wrap8 1 =? T_FOLDER) with false. change (wrap8 1 =? T_BOARD) with true.
    cbn [negb]. cbv zeta. change (skipn BOARD_SZ ?l) with (skipn 12 l). cbn [skipn].
    rewrite (wrap8_u8 a Ha), (wrap8_u8 ba Hba), (rd32_le32 b Hb), (rd32_le32 v Hv). reflexivity.
  - destruct Hw as (Ha & Hl).
    unfold entry_bytes. cbn [app]. cbn [read_entries].
    change (valid_type (wrap8 3)) with true. change (wrap8 3 =? T_FOLDER) with false. change (wrap8 3 =? T_BOARD) with false.
    cbn [negb]. cbv zeta. change (skipn LINE_SZ ?l) with (skipn 1 l). cbn [skipn].
    rewrite (wrap8_u8 a Ha), (wrap8_u8 l Hl). reflexivity.
  - destruct Hw as (Ha & Hf & Ht & _).
    unfold entry_bytes. cbn [app]. cbn [read_entries].
    change (valid_type (wrap8 2)) with true. change (wrap8 2 =? T_FOLDER) with true.
    cbn [negb]. cbv zeta.
    assert (E : (length (t ++ rest) <? TITLE_SZ)%nat = false) by (apply Nat.ltb_ge; rewrite app_length; lia).
    rewrite E, (firstn_app_exact t rest _ Ht), (skipn_app_exact t rest _ Ht), (wrap8_u8 a Ha), (wrap8_u8 f Hf). reflexivity.
Qed.

Lemma read_entries_all its : forall rest, Forall wf_item its ->
  read_entries (length its) (flat_map entry_bytes its ++ rest) = ROk (map strip its, rest).
Proof.
  induction its as [|i r IH]; intros rest Hw; [reflexivity|].
  inversion Hw as [|? ? Hi Hr]; subst. cbn [length flat_map map]. rewrite <- app_assoc.
  rewrite (read_entry_step _ i _ Hi), (IH rest Hr). reflexivity.
Qed.

(* reading the sub-trees: what rf must do on each folder's image *)
Definition rf_ok (rf : list Z -> rres (fav * list Z)) (i : item) : Prop :=
  match i with
  | IFolder _ _ _ h sub => forall rest, rf (spec_sub i ++ rest) = ROk (renumber (h, sub), rest)
  | _ => True
  end.

Lemma renum_item_folder a f t h sub :
  renum_item (IFolder a f t h sub) = IFolder a f t (fst (renumber (h, sub))) (snd (renumber (h, sub))).
Proof.
  cbn [renum_item renumber]. destruct (renum_items renum_item sub 0 0 (data_number h)) as [sub' [[lid fid] fn]]. reflexivity.
Qed.

Lemma read_subs_all rf its : Forall (rf_ok rf) its -> forall rest lid fid fn,
  read_subs rf (map strip its) (flat_map spec_sub its ++ rest) lid fid fn =
  ROk (fst (renum_items renum_item its lid fid fn), snd (renum_items renum_item its lid fid fn), rest).
Proof.
  induction 1 as [|i r Hi _ IH]; intros rest lid fid fn; [reflexivity|].
  destruct i as [a b v ba|a l|a f t h sub]; cbn [map strip flat_map read_subs renum_items].
  - change (spec_sub (IBoard a b v ba)) with (@nil Z). cbn [app]. rewrite IH.
    destruct (renum_items renum_item r lid fid fn) as [r' c]. reflexivity.
  - change (spec_sub (ILine a l)) with (@nil Z). cbn [app]. rewrite IH.
    destruct (renum_items renum_item r (wrap8 (lid + 1)) fid fn) as [r' c]. reflexivity.
  - rewrite <- app_assoc. cbn [rf_ok] in Hi. rewrite Hi. rewrite renum_item_folder.
    destruct (renumber (h, sub)) as [h' sub'] eqn:Er. cbn [fst snd]. rewrite IH.
    destruct (renum_items renum_item r lid (wrap8 (fid + 1)) (wrap16 (fn + h_favnum h'))) as [r' c]. reflexivity.
Qed.

Lemma read_hdr_spec h n rest : wf_hdr h n ->
  read_hdr (le16 (h_nb h) ++ [u8 (h_nl h); u8 (h_nf h)] ++ rest) = Some (h_nb h, h_nl h, h_nf h, rest).
Proof.
  intros (Hb & Hl & Hf & _). unfold le16. cbn [app read_hdr].
  rewrite rd16_le16 by lia. rewrite !wrap8_u8 by (unfold i8; lia). reflexivity.
Qed.

Lemma spec_sub_in_length x its : In x its -> (length (spec_sub x) <= length (flat_map spec_sub its))%nat.
Proof.
  induction its as [|y r IH]; [intros []|]. cbn [flat_map]. rewrite app_length. intros [->|H]; [lia|]. specialize (IH H). lia.
Qed.

(* core: with more fuel than bytes, reading a written (sub-)tree gives the renumbered tree and leaves the rest *)
Lemma read_fav_spec fuel h its rest : wf_hdr h (length its) -> Forall wf_item its ->
  Forall (rf_ok (read_fav fuel)) its ->
  read_fav (S fuel) (le16 (h_nb h) ++ [u8 (h_nl h); u8 (h_nf h)] ++ flat_map entry_bytes its ++ flat_map spec_sub its ++ rest)
  = ROk (renumber (h, its), rest).
Proof.
  intros Hh Hw Hrf. cbn [read_fav].
  rewrite (read_hdr_spec h (length its) _ Hh).
  pose proof (data_number_wf h _ Hh) as Ed. unfold data_number in Ed. rewrite Ed.
  assert (E0 : (Z.of_nat (length its) <? 0) = false) by lia. rewrite E0, Nat2Z.id.
  rewrite (read_entries_all its _ Hw), (read_subs_all _ its Hrf).
  cbn [renumber]. unfold data_number. rewrite Ed.
  destruct (renum_items renum_item its 0 0 (Z.of_nat (length its))) as [its' [[lid fid] fn]]. reflexivity.
Qed.

Lemma roundtrip_item i : wf_item i -> forall fuel, (length (spec_sub i) < fuel)%nat -> rf_ok (read_fav fuel) i.
Proof.
  induction i as [a b v ba|a l|a f t h sub IH] using item_ind'; intros Hw fuel Hfuel; try exact I.
  cbn [rf_ok]. intros rest. cbn [wf_item] in Hw. destruct Hw as (_ & _ & _ & Hh & Hsub). apply fold_right_Forall in Hsub.
  destruct fuel as [|fuel]; [lia|].
  cbn [spec_sub]. rewrite <- !app_assoc. cbn [app]. 
  change (le16 (h_nb h) ++ u8 (h_nl h) :: u8 (h_nf h) :: ?x) with (le16 (h_nb h) ++ [u8 (h_nl h); u8 (h_nf h)] ++ x).
  apply read_fav_spec; [exact Hh|exact Hsub|].
  rewrite Forall_forall in *. intros x Hx. apply IH; [exact Hx|apply Hsub; exact Hx|].
  pose proof (spec_sub_in_length x sub Hx) as Hl. cbn [spec_sub] in Hfuel. rewrite !app_length in Hfuel. cbn [length] in Hfuel. lia.
Qed.

(* saving a well-formed tree and loading the file gives back the renumbered tree *)
Lemma roundtrip (f : fav) : wf_fav f -> exists img, file_image f = Ok img /\ load img = ROk (renumber f).
Proof.
  intros Hw. exists (spec_file f). split; [apply format; exact Hw|].
  destruct f as [h its]. destruct Hw as [Hh Hits]. cbn [fst snd] in *.
  unfold spec_file, spec_fav. cbn [fst snd].
  set (body := le16 (h_nb h) ++ [u8 (h_nl h); u8 (h_nf h)] ++ flat_map entry_bytes its ++ flat_map spec_sub its).
  assert (E : forall n, (length body <= n)%nat -> read_fav (S n) body = ROk (renumber (h, its), [])).
  { intros n Hn. unfold body in *. rewrite <- (app_nil_r (flat_map spec_sub its)).
    apply read_fav_spec; [exact Hh|exact Hits|].
    rewrite Forall_forall in *. intros x Hx. apply roundtrip_item; [apply Hits; exact Hx|].
    pose proof (spec_sub_in_length x its Hx) as Hl. rewrite !app_length in Hn. unfold le16 in Hn. cbn [length] in Hn. lia. }
  clearbody body. unfold load, le16. cbn [app]. rewrite E; [reflexivity|]. cbn [length]. lia.
Qed.

(* ---------------------------------------------------------------- what renumbering keeps: all entries, their order and payloads *)
Fixpoint shape_item (i : item) : item :=     (* forget line ids, folder ids and the derived counters *)
  match i with
  | IBoard a b v ba => IBoard a b v ba
  | ILine a _ => ILine a 0
  | IFolder a _ t h sub => IFolder a 0 t (Hdr (h_nb h) (h_nl h) (h_nf h) 0 0 0) (map shape_item sub)
  end.
Definition shape (f : fav) : fav :=
  (Hdr (h_nb (fst f)) (h_nl (fst f)) (h_nf (fst f)) 0 0 0, map shape_item (snd f)).

Lemma renum_items_shape its : Forall (fun i => shape_item (renum_item i) = shape_item i) its ->
  forall lid fid fn, map shape_item (fst (renum_items renum_item its lid fid fn)) = map shape_item its.
Proof.
  induction 1 as [|i r Hi _ IH]; intros lid fid fn; [reflexivity|].
  destruct i as [a b v ba|a l|a f t h sub]; cbn [renum_items].
  - specialize (IH lid fid fn). destruct (renum_items renum_item r lid fid fn) as [r' c]. cbn [fst map] in *. rewrite IH. reflexivity.
  - specialize (IH (wrap8 (lid + 1)) fid fn). destruct (renum_items renum_item r (wrap8 (lid + 1)) fid fn) as [r' c].
    cbn [fst map shape_item] in *. rewrite IH. reflexivity.
  - rewrite renum_item_folder in *. destruct (renumber (h, sub)) as [h' sub'] eqn:Er. cbn [fst snd] in *.
    specialize (IH lid (wrap8 (fid + 1)) (wrap16 (fn + h_favnum h'))).
    destruct (renum_items renum_item r lid (wrap8 (fid + 1)) (wrap16 (fn + h_favnum h'))) as [r' c].
    cbn [fst map] in *. rewrite IH. f_equal. cbn [shape_item] in *. exact Hi.
Qed.

Lemma renum_item_shape i : shape_item (renum_item i) = shape_item i.
Proof.
  induction i as [a b v ba|a l|a f t h sub IH] using item_ind'; try reflexivity.
  cbn [renum_item]. pose proof (renum_items_shape sub IH 0 0 (data_number h)) as H.
  destruct (renum_items renum_item sub 0 0 (data_number h)) as [sub' [[lid fid] fn]]. cbn [fst] in H.
  cbn [shape_item h_nb h_nl h_nf]. rewrite H. reflexivity.
Qed.

Lemma renumber_shape f : shape (renumber f) = shape f.
Proof.
  destruct f as [h its]. cbn [renumber].
  pose proof (renum_items_shape its) as H.
  assert (Hall : Forall (fun i => shape_item (renum_item i) = shape_item i) its) by (apply Forall_forall; intros x _; apply renum_item_shape).
  specialize (H Hall 0 0 (data_number h)).
  destruct (renum_items renum_item its 0 0 (data_number h)) as [its' [[lid fid] fn]]. cbn [fst] in H.
  unfold shape. cbn [fst snd h_nb h_nl h_nf]. rewrite H. reflexivity.
Qed.

(* ---------------------------------------------------------------- non-vacuity: a three-level tree with all entry kinds *)
Definition title_A : list Z := fixlen TITLE_SZ [65].
Definition ex_tree : fav :=
  (Hdr 1 1 1 1 1 6,
   [IBoard 1 5 0 0; ILine 1 1;
    IFolder 1 1 title_A (Hdr 1 0 1 0 1 0) [IFolder 3 1 title_A (Hdr 1 0 0 0 0 0) [IBoard 1 9 (-7) 8]; IBoard 1 2 0 0]]).

Example ex_tree_wf : wf_fav ex_tree.
Proof.
  unfold wf_fav, ex_tree, wf_hdr, i8, i32. cbn [fst snd length h_nb h_nl h_nf].
  split; [lia|]. repeat constructor; cbn; unfold i8, i32, wf_hdr; cbn; try lia; repeat split; try lia; try reflexivity.
Qed.

Example ex_tree_roundtrip : exists img, file_image ex_tree = Ok img /\ length img = 163%nat /\
  load img = ROk (renumber ex_tree) /\ h_favnum (fst (renumber ex_tree)) = 6.
Proof. eexists. split; [vm_compute; reflexivity|]. split; [reflexivity|]. split; vm_compute; reflexivity. Qed.

Example ex_read_error : load [35; 13; 255; 255; 0; 0] = RErr E_RECORD.    (* the count FFFF of finding 13 *)
Proof. vm_compute. reflexivity. Qed.
