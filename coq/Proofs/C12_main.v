(* C12 — acceptance, frame, refusal, name rule and histories. *)
From Verif Require Import Base.Common Base.ListX Gen.Consts_default Model.C12 Proofs.C12_base Proofs.C12_step.
Import ptttype.

Definition req_name (r : req) : list Z := fixlen 13 (r_name r).
Definition req_rec (u : users) (r : req) : slot :=
  mk_rec (req_name r) (build_title r) (sanitize_bms u (new_bm (map (fixlen 13) (r_bms r)))) (norm_attr r) (r_chess r) (norm_level r) (r_cls r).

Lemma req_rec_length u r : length (req_rec u r) = 256%nat. Proof. apply mk_rec_length. Qed.

Lemma get_bid_with_dirs s d k : get_bid (with_dirs s d) k = get_bid s k. Proof. reflexivity. Qed.
Lemma wf_with_dirs s d : wf s -> wf (with_dirs s d).
Proof. intros W. destruct W. constructor; assumption. Qed.

Lemma remove_dir_not_in l d : in_dirs l d = false -> remove_dir l d = l.
Proof.
  unfold in_dirs, remove_dir. induction l as [|x l IH]; cbn; [reflexivity|].
  destruct (list_eq_dec Z.eq_dec x d); cbn; [discriminate|]. intros H. rewrite IH by exact H. reflexivity.
Qed.
Lemma remove_dir_head l d : in_dirs l d = false -> remove_dir (d :: l) d = l.
Proof.
  intros H. unfold remove_dir. cbn [filter]. destruct (list_eq_dec Z.eq_dec d d) as [_|Hn]; [|congruence].
  apply remove_dir_not_in. exact H.
Qed.
Lemma with_dirs_same s : with_dirs s (s_dirs s) = s. Proof. destruct s. reflexivity. Qed.

(* the bad conditions of the property text, on the state the request meets *)
Definition no_rights (s : st) (r : req) : Prop :=
  has (r_ulevel r) PERM_BOARD = false /\ is_ubm (r_uname r) (bm_of (gets (s_cache s) (r_cls r - 1))) = false.
Definition duplicate (s : st) (r : req) : Prop :=
  exists b, 0 <= b < s_bnum s /\ casecmp (req_name r) (name_of (gets (s_cache s) b)) = 0.
Definition no_vacated (s : st) : Prop :=
  forall b, 0 <= b < s_bnum s -> casecmp zero13 (name_of (gets (s_cache s) b)) <> 0.
Definition no_capacity (s : st) : Prop := MAXB <= s_bnum s /\ no_vacated s.

Lemma create_refuse u s r os : wf s ->
  bid_valid (r_cls r) = false \/ no_rights s r \/ is_valid_name (req_name r) = false \/ duplicate s r \/ no_capacity s ->
  exists code, code <> 0 /\ create_board u s r os = Done code 0 s os.
Proof.
  intros W H. unfold create_board. fold (req_name r).
  destruct (bid_valid (r_cls r)) eqn:E1; cbn [negb].
  2:{ exists E_BID. split; [discriminate|reflexivity]. }
  destruct (negb (has (r_ulevel r) PERM_BOARD) && negb (is_ubm (r_uname r) (bm_of (gets (s_cache s) (r_cls r - 1))))) eqn:E2.
  { exists E_PERM. split; [discriminate|reflexivity]. }
  destruct (is_valid_name (req_name r)) eqn:E3; cbn [negb].
  2:{ exists E_NAME. split; [discriminate|reflexivity]. }
  destruct (get_bid_spec s (req_name r) W) as [[Hg Hno]|(b & Hb & Hg & Hm)]; rewrite Hg.
  2:{ replace (0 <? b + 1) with true by (symmetry; apply Z.ltb_lt; lia). exists E_EXISTS. split; [discriminate|reflexivity]. }
  replace (0 <? 0) with false by reflexivity.
  destruct (in_dirs (s_dirs s) (cprefix (req_name r))) eqn:E5.
  { exists E_MKDIR. split; [discriminate|reflexivity]. }
  destruct H as [H|[H|[H|[H|H]]]].
  - discriminate.
  - destruct H as [H1 H2]. rewrite H1, H2 in E2. discriminate.
  - discriminate.
  - destruct H as (b & Hb & Hm). exfalso. apply (Hno b Hb Hm).
  - destruct H as [Hcap Hnv].
    unfold add_board_record. rewrite get_bid_with_dirs.
    destruct (get_bid_spec s (repeat 0 13) W) as [[Hg2 _]|(b & Hb & _ & Hm)]; [|exfalso; apply (Hnv b Hb Hm)].
    rewrite Hg2. replace (bid_valid 0) with false by reflexivity.
    cbn [with_dirs s_bnum]. replace (MAXB <=? s_bnum s) with true by (symmetry; apply Z.leb_le; exact Hcap).
    replace (E_FULL =? E_OK) with false by reflexivity.
    exists E_FULL. split; [discriminate|].
    destruct s as [f c bm sn sc bn d]. cbn [with_dirs s_file s_cache s_bm s_sn s_sc s_bnum s_dirs] in *.
    rewrite remove_dir_head by exact E5. reflexivity.
Qed.

Lemma create_spec u s r os code bid s' os' : wf s -> create_board u s r os = Done code bid s' os' ->
  (code <> 0 /\ bid = 0 /\ s' = s /\ os' = os)
  \/ (code = 0 /\ bid_valid (r_cls r) = true /\ ~ no_rights s r /\ is_valid_name (req_name r) = true /\ ~ duplicate s r /\
      in_dirs (s_dirs s) (cprefix (req_name r)) = false /\
      exists s2 o, placed u (with_dirs s (cprefix (req_name r) :: s_dirs s)) (req_rec u r) bid s2 /\ s' = postmask_hack r s2 bid /\ os = o :: os').
Proof.
  intros W. unfold create_board. fold (req_name r).
  destruct (bid_valid (r_cls r)) eqn:E1; cbn [negb].
  2:{ intros H. inversion H. left. repeat split; try reflexivity. discriminate. }
  destruct (negb (has (r_ulevel r) PERM_BOARD) && negb (is_ubm (r_uname r) (bm_of (gets (s_cache s) (r_cls r - 1))))) eqn:E2.
  { intros H. inversion H. left. repeat split; try reflexivity. discriminate. }
  destruct (is_valid_name (req_name r)) eqn:E3; cbn [negb].
  2:{ intros H. inversion H. left. repeat split; try reflexivity. discriminate. }
  destruct (get_bid_spec s (req_name r) W) as [[Hg Hno]|(b & Hb & Hg & Hm)]; rewrite Hg.
  2:{ replace (0 <? b + 1) with true by (symmetry; apply Z.ltb_lt; lia). intros H. inversion H. left. repeat split; try reflexivity. discriminate. }
  replace (0 <? 0) with false by reflexivity.
  destruct (in_dirs (s_dirs s) (cprefix (req_name r))) eqn:E5.
  { intros H. inversion H. left. repeat split; try reflexivity. discriminate. }
  fold (req_rec u r).
  destruct (add_board_record u (with_dirs s (cprefix (req_name r) :: s_dirs s)) (req_rec u r) os) as [c2 b2 s2 os2| | |] eqn:Ea; try discriminate.
  destruct (add_spec _ _ _ _ _ _ _ _ (wf_with_dirs s _ W) (req_rec_length u r) Ea) as [(-> & Hpl & o & ->)|(-> & -> & -> & -> & Hcap & Hnv)].
  - replace (0 =? E_OK) with true by reflexivity. intros H. inversion H. subst. right.
    split; [reflexivity|]. split; [reflexivity|]. split.
    { intros [H1 H2]. rewrite H1, H2 in E2. discriminate. }
    split; [reflexivity|]. split.
    { intros (b & Hb & Hm). apply (Hno b Hb Hm). }
    split; [reflexivity|]. exists s2, o. split; [exact Hpl|]. split; reflexivity.
  - replace (E_FULL =? E_OK) with false by reflexivity. intros H. inversion H. left.
    split; [discriminate|]. split; [reflexivity|]. split; [|reflexivity].
    destruct (list_eq_dec Z.eq_dec (cprefix (req_name r)) (cprefix (req_name r))) as [_|Hn]; [|congruence].
    rewrite remove_dir_not_in by exact E5. destruct s; reflexivity.
Qed.

(* ------------------------------------------------------------------ acceptance and frame *)
Lemma fixlen_idem n l : fixlen n (fixlen n l) = fixlen n l.
Proof.
  unfold fixlen at 1. rewrite fixlen_length, Nat.sub_diag. cbn [repeat]. rewrite app_nil_r.
  rewrite <- (fixlen_length n l) at 1. apply firstn_all.
Qed.
Lemma name_of_req_rec u r : name_of (req_rec u r) = req_name r.
Proof. unfold req_rec. rewrite name_of_mk_rec. apply fixlen_idem. Qed.
Lemma clear_fc_req_rec u r : clear_fc (req_rec u r) = req_rec u r.
Proof. apply clear_fc_mk_rec. Qed.

Lemma accept u s r os bid s' os' : wf s -> create_board u s r os = Done 0 bid s' os' ->
  wf s' /\ 1 <= bid <= s_bnum s' /\ s_bnum s' = lenZ (s_file s') /\
  gets (s_file s') (bid - 1) = req_rec u r /\
  (gets (s_cache s') (bid - 1) = req_rec u r
   \/ (has (attr_of (req_rec u r)) BRD_HIDE = true /\ has (r_ulevel r) PERM_SYSOP = false /\
       gets (s_cache s') (bid - 1) = set_attr (req_rec u r) (Z.lor (attr_of (req_rec u r)) BRD_POSTMASK))) /\
  getn [0; 0; 0; 0] (s_bm s') (bid - 1) = parse_bm_list u (bm_of (req_rec u r)) /\
  get_bid s' (req_name r) = Ok bid /\
  In (bid - 1) (s_sn s') /\
  s_dirs s' = cprefix (req_name r) :: s_dirs s /\
  ((s_bnum s' = s_bnum s /\ casecmp zero13 (name_of (gets (s_cache s) (bid - 1))) = 0)
   \/ (s_bnum s' = s_bnum s + 1 /\ bid = s_bnum s + 1 /\ no_vacated s)) /\
  forall i, i <> bid - 1 ->
    gets (s_file s') i = gets (s_file s) i /\ gets (s_cache s') i = gets (s_cache s) i /\
    getn [0; 0; 0; 0] (s_bm s') i = getn [0; 0; 0; 0] (s_bm s) i.
Proof.
  intros W H. destruct (create_spec _ _ _ _ _ _ _ _ W H) as [(Hc & _)|(_ & Hcls & Hr & Hv & Hdup & Hd & s2 & o & Hpl & -> & ->)]; [congruence|].
  destruct Hpl as [W2 Hb Hf Hc Hbm Hfr Hwh Hdirs].
  cbn [with_dirs s_file s_cache s_bm s_sn s_sc s_bnum s_dirs] in *.
  destruct (hack_spec r s2 bid W2 Hb) as (W3 & Ef & Ebm & Ebn & Ed & Esn & Esc & Hfr3 & Hat).
  rewrite clear_fc_req_rec in Hc.
  assert (Hname : name_of (gets (s_cache (postmask_hack r s2 bid)) (bid - 1)) = req_name r).
  { destruct Hat as [->|(_ & _ & ->)]; rewrite Hc; [|rewrite name_of_set_attr by apply req_rec_length]; apply name_of_req_rec. }
  split; [exact W3|]. rewrite Ef, Ebm, Ebn, Ed.
  split; [exact Hb|]. split; [symmetry; apply (wf_len s2 W2)|]. split; [exact Hf|].
  split. { destruct Hat as [->|(Hh & Hs & ->)]; rewrite Hc in *; [left; reflexivity|right; repeat split; assumption]. }
  split; [exact Hbm|].
  split.
  { destruct (get_bid_spec _ (req_name r) W3) as [[_ Hno]|(b & Hbr & Hg & Hm)].
    - exfalso. apply (Hno (bid - 1)); [rewrite Ebn; lia|]. rewrite Hname. apply casecmp_refl.
    - destruct (Z.eq_dec b (bid - 1)) as [->|Hne]; [rewrite Hg; f_equal; lia|].
      exfalso. apply Hdup. exists b. rewrite Hfr3 in Hm by exact Hne.
      destruct (Hfr b Hne) as (_ & Hcb & _). rewrite Hcb in Hm. split; [|exact Hm].
      rewrite Ebn in Hbr. destruct Hwh as [[Hn _]|(Hn & Hbid & _)]; lia. }
  split.
  { destruct (perm_ok_parts _ _ (wf_perm _ W3)) as (_ & _ & Hcov). rewrite Ebn, Esn in Hcov.
    destruct (covers_spec _ _ Hcov (Z.to_nat (bid - 1)) ltac:(lia)) as (i & Hi & Hn).
    rewrite Esn. replace (bid - 1) with (Z.of_nat (Z.to_nat (bid - 1))) by lia. rewrite <- Hn. apply nth_In. exact Hi. }
  split; [exact Hdirs|].
  split. { destruct Hwh as [Hw|(Hn & Hbid & _ & Hnv)]; [left; exact Hw|right; repeat split; assumption]. }
  intros i Hi. destruct (Hfr i Hi) as (H1 & H2 & H3). rewrite Hfr3 by exact Hi. repeat split; assumption.
Qed.

Lemma refuse_unchanged u s r os code bid s' os' : wf s -> create_board u s r os = Done code bid s' os' -> code <> 0 ->
  bid = 0 /\ s' = s /\ os' = os.
Proof.
  intros W H Hc. destruct (create_spec _ _ _ _ _ _ _ _ W H) as [(_ & H1 & H2 & H3)|(H0 & _)]; [repeat split; assumption|congruence].
Qed.

(* ------------------------------------------------------------------ no crash, no hang *)
Lemma add_total u s rec os : wf s -> add_board_record u s rec os <> Crashed /\ add_board_record u s rec os <> Hung.
Proof.
  intros W. unfold add_board_record. destruct (get_bid_ok s (repeat 0 13) W) as (v & -> & _).
  destruct (bid_valid v).
  - destruct os as [|o os1]; [split; discriminate|]. destruct (sort_bcache _ o); split; discriminate.
  - destruct (MAXB <=? s_bnum s); [split; discriminate|].
    destruct (reset_board u _ _) as [s3 [|]]; [|split; discriminate].
    destruct os as [|o os1]; [split; discriminate|]. destruct (sort_bcache _ o); split; discriminate.
Qed.
Lemma create_total u s r os : wf s -> create_board u s r os <> Crashed /\ create_board u s r os <> Hung.
Proof.
  intros W. unfold create_board.
  destruct (negb (bid_valid (r_cls r))); [split; discriminate|].
  destruct (negb (has (r_ulevel r) PERM_BOARD) && _); [split; discriminate|].
  destruct (negb (is_valid_name _)); [split; discriminate|].
  destruct (get_bid_ok s (fixlen 13 (r_name r)) W) as (v & -> & _).
  destruct (0 <? v); [split; discriminate|].
  destruct (in_dirs _ _); [split; discriminate|].
  match goal with |- context [add_board_record ?a ?b ?c ?d] =>
    destruct (add_total a b c d (wf_with_dirs s _ W)) as [H1 H2]; destruct (add_board_record a b c d) as [c2 b2 s2 os2| | |] end;
    try congruence; [|split; discriminate].
  destruct (c2 =? E_OK); split; discriminate.
Qed.

(* ------------------------------------------------------------------ the name rule *)
Lemma firstn_cprefix : forall n, firstn (length (cprefix n)) n = cprefix n.
Proof. induction n as [|c n IH]; cbn; [reflexivity|]. destruct (c =? 0); cbn; [reflexivity|]. rewrite IH. reflexivity. Qed.
Lemma isalpha_okchar c : isalpha c = true -> okchar c = true.
Proof. unfold okchar, isalnum. intros ->. reflexivity. Qed.

Lemma name_rule_cprefix n : is_valid_name n = name_rule (cprefix n).
Proof.
  unfold is_valid_name, name_rule, cstrlen. replace (Z.to_nat IDLEN) with 12%nat by reflexivity.
  destruct n as [|c n]; [reflexivity|]. cbn [cprefix]. destruct (c =? 0) eqn:Ec; [reflexivity|].
  cbn [length nth]. set (p := cprefix n).
  destruct (length p) as [|k] eqn:Ek; [reflexivity|].
  replace (S (S k) <? 2)%nat with false by (symmetry; apply Nat.ltb_ge; lia).
  replace (2 <=? S (S k))%nat with true by (symmetry; apply Nat.leb_le; lia).
  cbn [orb andb].
  replace (12 <? S (S k))%nat with (negb (S (S k) <=? 12)%nat) by (rewrite Nat.leb_antisym, negb_involutive; reflexivity).
  destruct (S (S k) <=? 12)%nat; cbn [negb andb]; [|reflexivity].
  unfold sub. cbn [skipn]. replace (S (S k) - 1)%nat with (length p) by lia. unfold p. rewrite firstn_cprefix. fold p.
  cbn [forallb]. destruct (isalpha c) eqn:Ea.
  - rewrite (isalpha_okchar c Ea). cbn [andb]. rewrite andb_true_r. reflexivity.
  - rewrite andb_false_r. reflexivity.
Qed.

Lemma cprefix_nulfree_id l : forallb (fun c => negb (c =? 0)) l = true -> cprefix l = l.
Proof.
  induction l as [|c l IH]; cbn; [reflexivity|]. intros H. apply andb_true_iff in H. destruct H as [Hc Hl].
  apply negb_true_iff in Hc. rewrite Hc, IH by exact Hl. reflexivity.
Qed.
Lemma cprefix_app_zeros l k : forallb (fun c => negb (c =? 0)) l = true -> cprefix (l ++ repeat 0 k) = l.
Proof.
  induction l as [|c l IH]; cbn.
  - intros _. destruct k; reflexivity.
  - intros H. apply andb_true_iff in H. destruct H as [Hc Hl]. apply negb_true_iff in Hc. rewrite Hc, IH by exact Hl. reflexivity.
Qed.
Lemma forallb_firstn {A} (f : A -> bool) n : forall l, forallb f l = true -> forallb f (firstn n l) = true.
Proof.
  induction n as [|n IH]; intros [|x l] H; cbn in *; try reflexivity.
  apply andb_true_iff in H. destruct H as [Hx Hl]. rewrite Hx, IH by exact Hl. reflexivity.
Qed.

(* on the bytes a client sends (no NUL among them): IsValid of the 13-byte array = the rule of the property text *)
Lemma name_rule_raw raw : forallb (fun c => negb (c =? 0)) raw = true -> is_valid_name (fixlen 13 raw) = name_rule raw.
Proof.
  intros H. rewrite name_rule_cprefix. unfold fixlen.
  destruct (Nat.le_gt_cases (length raw) 12) as [Hl|Hl].
  - rewrite firstn_all2 by lia. rewrite cprefix_app_zeros by exact H. reflexivity.
  - replace (13 - length raw)%nat with O by lia. cbn [repeat]. rewrite app_nil_r.
    rewrite cprefix_nulfree_id by (apply forallb_firstn; exact H).
    unfold name_rule. rewrite firstn_length. replace (Nat.min 13 (length raw)) with 13%nat by lia.
    replace (length raw <=? 12)%nat with false by (symmetry; apply Nat.leb_gt; lia).
    cbn [Nat.leb andb]. rewrite andb_false_r. reflexivity.
Qed.

(* ------------------------------------------------------------------ histories *)
Fixpoint accepted_bids (u : users) (s : st) (rs : list req) (os : list oracle) : list Z :=
  match rs with
  | [] => []
  | r :: rs' =>
      match create_board u s r os with
      | Done code bid s' os' => (if code =? 0 then [bid] else []) ++ accepted_bids u s' rs' os'
      | _ => []
      end
  end.

Lemma history u : forall rs s os c b s' os', wf s -> run_reqs u s rs os = Done c b s' os' ->
  wf s' /\ lenZ (s_file s') = s_bnum s' /\ s_bnum s <= s_bnum s' /\
  forall i, ~ In (i + 1) (accepted_bids u s rs os) ->
    gets (s_file s') i = gets (s_file s) i /\ gets (s_cache s') i = gets (s_cache s) i.
Proof.
  induction rs as [|r rs IH]; intros s os c b s' os' W H.
  - cbn in H. inversion H. subst. split; [exact W|]. split; [apply W|]. split; [lia|]. intros i _. split; reflexivity.
  - cbn [run_reqs accepted_bids] in *.
    destruct (create_board u s r os) as [code bid s1 os1| | |] eqn:Ec; try discriminate.
    destruct (Z.eq_dec code 0) as [->|Hne].
    + destruct (accept _ _ _ _ _ _ _ W Ec) as (W1 & Hb & _ & _ & _ & _ & _ & _ & _ & Hwh & Hfr).
      destruct (IH _ _ _ _ _ _ W1 H) as (W' & Hl & Hmono & Hrest).
      split; [exact W'|]. split; [exact Hl|]. split; [destruct Hwh as [[Hn _]|(Hn & _)]; lia|].
      intros i Hi. cbn [Z.eqb app] in Hi.
      assert (Hi1 : i <> bid - 1) by (intros ->; apply Hi; left; lia).
      destruct (Hfr i Hi1) as (F1 & F2 & _). destruct (Hrest i) as (R1 & R2); [intros Hin; apply Hi; right; exact Hin|].
      rewrite R1, R2. split; assumption.
    + destruct (refuse_unchanged _ _ _ _ _ _ _ _ W Ec Hne) as (_ & -> & ->).
      replace (code =? 0) with false by (symmetry; apply Z.eqb_neq; exact Hne). cbn [app].
      apply (IH _ _ _ _ _ _ W H).
Qed.

(* ------------------------------------------------------------------ initial states *)
Lemma reload_wf slots dirs o s0 : Forall (fun x => length x = 256%nat) slots -> lenZ slots <= MAXB ->
  reload slots dirs o = Some s0 -> wf s0 /\ s_file s0 = slots /\ s_cache s0 = map clear_fc slots /\ s_dirs s0 = dirs.
Proof.
  intros Hf Hl. unfold reload. rewrite firstn_all2 by (unfold lenZ, MAXB, MAX_BOARD, slot in *; lia). intros Hs.
  apply wf_after_sort in Hs; cbn [s_file s_cache s_bm s_sn s_sc s_bnum s_dirs]; try assumption; try reflexivity.
  destruct Hs as (W & H1 & H2 & _ & _ & H3). cbn [s_file s_cache s_bm s_sn s_sc s_bnum s_dirs] in *. split; [exact W|]. repeat split; assumption.
Qed.

(* ------------------------------------------------------------------ the shared-memory copy of a hidden board (known finding) *)
Definition w_empty : st := mkSt [] [] [] [] [] 0 [].
Definition w_req : req := mkReq 2 [67; 111; 100; 105; 110; 103; 77; 97; 110; 0; 0; 0; 0] 8217 1 [97; 98] [84; 101; 115; 116] [116] [] BRD_HIDE 0 0 false.
Lemma w_empty_wf : wf w_empty.
Proof. constructor; try reflexivity; try constructor. unfold MAXB, MAX_BOARD. cbn. lia. Qed.

Lemma cache_copy_equals_record_refuted :
  exists u s r os bid s' os', wf s /\ create_board u s r os = Done 0 bid s' os' /\
    attr_of (gets (s_cache s') (bid - 1)) <> attr_of (gets (s_file s') (bid - 1)).
Proof.
  exists [], w_empty, w_req, [([0], [0])], 1.
  eexists. eexists. split; [exact w_empty_wf|]. split; [vm_compute; reflexivity|].
  vm_compute. discriminate.
Qed.

(* non-vacuity: a table with a vacated slot in the middle; the request lands in it *)
Definition ex_slots : list slot :=
  [mk_init [65; 108; 112; 104; 97] [67; 108; 97; 115; 32; 163; 85] [112; 105; 99; 104; 117] 8 0 0 0 170;
   mk_init [0; 108; 100] [71; 111; 110; 101] [] 0 0 0 1 170;
   mk_init [71; 97; 109; 109; 97] [67; 108; 97; 115; 32; 161; 183] [] 0 0 0 1 0].
Definition ex_state : st := match reload ex_slots [] ([1; 0; 2], [0; 2; 1]) with Some s => s | None => w_empty end.
Example ex_state_wf : wf ex_state.
Proof.
  destruct (reload ex_slots [] ([1; 0; 2], [0; 2; 1])) as [s0|] eqn:E; [|vm_compute in E; discriminate].
  assert (ex_state = s0) as -> by (unfold ex_state; rewrite E; reflexivity).
  apply (reload_wf ex_slots [] ([1; 0; 2], [0; 2; 1]) s0); [repeat constructor|vm_compute; discriminate|exact E].
Qed.
Example ex_accept_in_vacated_slot :
  exists s' os', create_board [] ex_state w_req [([1; 0; 2], [0; 2; 1])] = Done 0 2 s' os' /\ s_bnum s' = 3.
Proof. eexists. eexists. split; vm_compute; reflexivity. Qed.
Example ex_refuse_case_twin :
  exists code, code <> 0 /\
    create_board [] ex_state (mkReq 2 [67; 111] 8217 1 [97; 76; 80; 72; 65] [] [] [] 0 0 0 false) [] = Done code 0 ex_state [].
Proof. exists E_EXISTS. split; [discriminate|vm_compute; reflexivity]. Qed.
