(* C19: the save over ANY initial content of the user's home directory (no .fav yet, a .fav4 waiting for its
   conversion, an existing .fav, a temporary file left by an earlier crash - also one with the very name the save
   takes -, any other files): after every prefix of the system calls of the save .fav is as before or the complete
   new image, and no file other than .fav and the temporary file is touched. *)
From Verif Require Import Base.Common Base.ListX Base.Fs Gen.Consts_default Model.C19.
From Verif Require Import Proofs.C19_rt Proofs.C19_crash Proofs.C19_api Proofs.C19_clean Proofs.C19_save.
From Coq Require Import ZifyBool.
Ltac Zify.zify_post_hook ::= Z.div_mod_to_equations.

(* ---------------------------------------------------------------- frame of the file-system steps *)
(* the names a system call can change *)
Definition op_targets (o : op) : list Z :=
  match o with Create n => [n] | Write n _ => [n] | Rename a b => [a; b] end.

Lemma lookup_remove_none n m s : lookup n s = None -> lookup n (remove m s) = None.
Proof.
  induction s as [|[k c] r IH]; [reflexivity|]. cbn [lookup remove].
  destruct (k =? n) eqn:E1; [discriminate|]. intros H.
  destruct (k =? m); [exact (IH H)|]. cbn [lookup]. rewrite E1. exact (IH H).
Qed.

Lemma step_frame s o m : ~ In m (op_targets o) -> lookup m (step s o) = lookup m s.
Proof.
  destruct o as [n|n bs|a b]; cbn [op_targets In step]; intros Hn.
  - apply lookup_set_other. intros ->. apply Hn. left. reflexivity.
  - destruct (lookup n s); [|reflexivity]. apply lookup_set_other. intros ->. apply Hn. left. reflexivity.
  - destruct (lookup a s); [|reflexivity].
    rewrite lookup_set_other by (intros ->; apply Hn; right; left; reflexivity).
    apply lookup_remove_other. intros ->. apply Hn. left. reflexivity.
Qed.

Lemma exec_frame ops : forall s m, (forall o, In o ops -> ~ In m (op_targets o)) -> lookup m (exec s ops) = lookup m s.
Proof.
  induction ops as [|o r IH]; intros s m H; [reflexivity|].
  change (exec s (o :: r)) with (exec (step s o) r).
  rewrite IH by (intros o' Ho'; apply H; right; exact Ho').
  apply step_frame. apply H. left. reflexivity.
Qed.

Lemma in_firstn {A} (x : A) n : forall l, In x (firstn n l) -> In x l.
Proof.
  induction n as [|n IH]; intros [|y l]; cbn [firstn In]; try tauto.
  intros [H|H]; [left; exact H|right; exact (IH l H)].
Qed.

Lemma save_ops_targets tmp dst chunks o m :
  In o (save_ops tmp dst chunks) -> In m (op_targets o) -> m = tmp \/ m = dst.
Proof.
  unfold save_ops. cbn [In]. rewrite in_app_iff, in_map_iff. cbn [In].
  intros [<-|[(bs & <- & _)|[<-|[]]]]; cbn [op_targets In]; intros H; intuition.
Qed.

(* a prefix of a save through tmp touches no file other than tmp and the target *)
Lemma save_prefix_frame tmp dst chunks s n m : m <> tmp -> m <> dst ->
  lookup m (exec s (firstn n (save_ops tmp dst chunks))) = lookup m s.
Proof.
  intros H1 H2. apply exec_frame. intros o Ho Hm.
  destruct (save_ops_targets tmp dst chunks o m (in_firstn _ _ _ Ho) Hm); contradiction.
Qed.

(* ---------------------------------------------------------------- the save over any directory *)
Lemma save_any_disk z f rel (disk : fs) : lvl z f ->
  exists f1, cleanup f = Ok f1 /\ wf_fav f1 /\
    (forall n, let disk' := exec disk (firstn n (save_syscalls rel (lookup FN_FAV disk) f)) in
       (lookup FN_FAV disk' = lookup FN_FAV disk \/
        (writes rel (lookup FN_FAV disk) = true /\ lookup FN_FAV disk' = Some (spec_file f1) /\
         load (spec_file f1) = ROk (renumber f1))) /\
       (forall m, m <> FN_FAV -> m <> FN_TMP -> lookup m disk' = lookup m disk)) /\
    lookup FN_FAV (exec disk (save_syscalls rel (lookup FN_FAV disk) f)) =
      (if writes rel (lookup FN_FAV disk) then Some (spec_file f1) else lookup FN_FAV disk).
Proof.
  intros Hl. destruct (cleanup_spec z f Hl) as (f1 & Ec & _ & _ & _ & Hw1 & _).
  destruct (load_image f1 _ Hw1 (format f1 Hw1)) as (_ & El1).
  destruct (file_chunks_of_image f1 _ (format f1 Hw1)) as (cs & Ecs & Eb).
  exists f1. split; [exact Ec|]. split; [exact Hw1|].
  unfold save_syscalls, save_tmp_name. rewrite Ec, Ecs.
  destruct (writes rel (lookup FN_FAV disk)) eqn:Ew.
  - split.
    + intros n. cbv zeta. split.
      * destruct (crash_atomic f1 cs disk n Ecs) as [H|[_ H]]; [left; exact H|right].
        split; [reflexivity|]. rewrite <- Eb. split; [exact H|]. rewrite Eb. exact El1.
      * intros m Hm1 Hm2. apply save_prefix_frame; assumption.
    + rewrite (save_complete FN_TMP FN_FAV (map snd cs) disk tmp_ne_fav). rewrite <- Eb. reflexivity.
  - split; [|reflexivity]. intros n. cbv zeta. rewrite firstn_nil. split; [left; reflexivity|]. intros; reflexivity.
Qed.

(* Load succeeds afterwards, whenever it succeeded before: an existing .fav is the image of a well-formed tree *)
Lemma save_any_disk_loads z f rel (disk : fs) : lvl z f ->
  (forall c, lookup FN_FAV disk = Some c -> exists fo, wf_fav fo /\ file_image fo = Ok c) ->
  forall n, match lookup FN_FAV (exec disk (firstn n (save_syscalls rel (lookup FN_FAV disk) f))) with
            | None => lookup FN_FAV disk = None
            | Some c => exists t, load c = ROk t
            end.
Proof.
  intros Hl Hold n. destruct (save_any_disk z f rel disk Hl) as (f1 & _ & _ & Hn & _).
  destruct (Hn n) as [[H|(_ & H & El)] _]; cbv zeta in H; rewrite H.
  - destruct (lookup FN_FAV disk) as [c|] eqn:E; [|reflexivity].
    destruct (Hold c eq_refl) as (fo & Hwo & Hc). destruct (load_image fo c Hwo Hc) as (_ & Elo).
    eexists. exact Elo.
  - eexists. exact El.
Qed.

(* the temporary file is needed also when there is no .fav yet: for EVERY tree, a first save that wrote .fav in place
   (Create .fav, then the same writes, no rename) passes through a state in which .fav holds only the version
   word - neither "no .fav" nor the complete image - and Load rejects that file *)
Definition inplace_ops (chunks : list (list Z)) : list op := Create FN_FAV :: map (Write FN_FAV) chunks.

Lemma first_save_needs_tempfile (f : fav) (cs : list chunk) : file_chunks f = Ok cs ->
  let torn := le16 ptt_fav.FAV_VERSION in
  lookup FN_FAV (exec [] (firstn 2 (inplace_ops (map snd cs)))) = Some torn /\
  Some torn <> @None (list Z) /\ file_image f <> Ok torn /\ exists e, load torn = RErr e.
Proof.
  intros Hc. cbv zeta. unfold file_chunks in Hc. destruct (fav_chunks f) as [c0| |] eqn:E0; try discriminate.
  cbn [res_map] in Hc. injection Hc as <-.
  split; [reflexivity|]. split; [discriminate|]. split.
  - unfold file_image, file_chunks. rewrite E0. cbn [res_map]. intros H. injection H as H.
    unfold fav_chunks, fav_chunks_with in E0.
    destruct (entries_upto (snd f) (Z.to_nat (data_number (fst f)))) as [e| |]; try discriminate.
    cbn [res_bind] in E0. destruct (subs_upto sub_chunks (snd f) (Z.to_nat (data_number (fst f)))) as [s| |]; try discriminate.
    cbn [res_bind] in E0. injection E0 as <-. cbn in H. discriminate.
  - eexists. vm_compute. reflexivity.
Qed.

(* ---------------------------------------------------------------- non-vacuity *)
(* first save of the example tree into a home that holds a .fav4 and a stale temporary file: after Create and 7 writes
   there is still no .fav, the temporary file is partly written, .fav4 and the stale file are untouched; the complete
   list leaves the new image under .fav *)
Example ex_save_any_disk : exists t n f1,
  run_script ex_script empty_fav 0 = Some (t, n) /\ cleanup t = Ok f1 /\
  let disk := [(FN_FAV4, [1; 0; 0; 0]); (FN_STALE, [35; 13; 7])] in
  let ops := save_syscalls 0 (lookup FN_FAV disk) t in
  length ops = 25%nat /\
  lookup FN_FAV (exec disk (firstn 8 ops)) = None /\
  (exists c, lookup FN_TMP (exec disk (firstn 8 ops)) = Some c /\ length c = 9%nat) /\
  lookup FN_FAV4 (exec disk (firstn 8 ops)) = Some [1; 0; 0; 0] /\
  lookup FN_STALE (exec disk ops) = Some [35; 13; 7] /\
  lookup FN_FAV (exec disk ops) = Some (spec_file f1) /\ lookup FN_TMP (exec disk ops) = None.
Proof.
  eexists. eexists. eexists. split; [vm_compute; reflexivity|]. split; [vm_compute; reflexivity|].
  cbv zeta. split; [vm_compute; reflexivity|]. split; [vm_compute; reflexivity|].
  split; [eexists; split; vm_compute; reflexivity|].
  repeat split; vm_compute; reflexivity.
Qed.
