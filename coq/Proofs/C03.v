(* C03 — all lemmas: C03_ops (each operation of the account-table model, frame, invariants over histories),
   C03_refine (the abstract account map, the abstraction function, refinement step by step and over histories),
   C03_loader (well-formed ids are ASCII, requests naming a malformed id, which records the loader puts into the index),
   C03_clock (account expiry for a last-login stamp on either side of the clock, the on-line table). *)
From Verif Require Export Proofs.C03_ops Proofs.C03_refine Proofs.C03_loader Proofs.C03_clock.
