(* C03 — all lemmas: C03_ops (each operation of the account-table model, frame, invariants over histories),
   C03_refine (the abstract account map, the abstraction function, refinement step by step and over histories). *)
From Verif Require Export Proofs.C03_ops Proofs.C03_refine.
