From Verif Require Import Base.Common Base.ListX Base.Dec Base.Sweep Gen.AidTab Model.C13.
From Coq Require Import ZifyBool.
Ltac Zify.zify_post_hook ::= Z.div_mod_to_equations.

(* ---------------------------------------------------------------- table sweeps (re-checked against Gen/AidTab.v) *)

Definition digit_ok (v : Z) : bool :=
  let c := enc_digit v in
  negb (c =? 0) && negb (c =? 64) && (0 <=? c) && (c <? 128) &&
  match nthZ decodeAidcTable c with Some v' => v' =? v | None => false end.

Lemma digit_sweep : forallb digit_ok (zrange 64) = true.
Proof. vm_compute. reflexivity. Qed.

Lemma enc_dec v : 0 <= v < 64 ->
  let c := enc_digit v in c <> 0 /\ c <> 64 /\ 0 <= c < 128 /\ nthZ decodeAidcTable c = Some v.
Proof.
  intros Hv. pose proof (sweep digit_ok 64 digit_sweep v Hv) as H. unfold digit_ok in H. cbv zeta.
  destruct (nthZ decodeAidcTable (enc_digit v)) as [v'|] eqn:E; [|rewrite andb_false_r in H; discriminate].
  assert (v' = v) by lia. subst. repeat split; lia.
Qed.

Definition char_ok (c : Z) : bool :=
  negb (c =? 0) && negb (c =? 64) && (0 <=? c) && (c <? 128) &&
  match nthZ decodeAidcTable c with Some v => (0 <=? v) && (v <? 64) && (enc_digit v =? c) | None => false end.

Lemma alphabet_sweep : forallb char_ok encodeAidc = true.
Proof. vm_compute. reflexivity. Qed.

Lemma table_length : length decodeAidcTable = 128%nat.
Proof. reflexivity. Qed.

Lemma alphabet_length : length encodeAidc = 64%nat.
Proof. reflexivity. Qed.

Definition dec_digit (c : Z) : Z := match nthZ decodeAidcTable c with Some v => v | None => 0 end.

Lemma dec_enc c : in_alphabet c = true ->
  c <> 0 /\ c <> 64 /\ 0 <= c < 128 /\ nthZ decodeAidcTable c = Some (dec_digit c) /\
  0 <= dec_digit c < 64 /\ enc_digit (dec_digit c) = c.
Proof.
  unfold in_alphabet. rewrite existsb_exists. intros (x & Hin & Hx).
  assert (x = c) by lia. subst x.
  pose proof alphabet_sweep as H. rewrite forallb_forall in H. specialize (H c Hin).
  unfold char_ok in H. unfold dec_digit.
  destruct (nthZ decodeAidcTable c) as [v|]; [|rewrite andb_false_r in H; discriminate].
  repeat split; lia.
Qed.

(* ---------------------------------------------------------------- bit arithmetic *)

Lemma low6_disjoint a v : 0 <= v < 64 -> Z.land (a * 64) v = 0.
Proof.
  intros Hv. apply Z.bits_inj'. intros n Hn. rewrite Z.land_spec, Z.bits_0.
  destruct (Z.ltb_spec n 6) as [Hlt|Hge].
  - change 64 with (2 ^ 6). rewrite Z.mul_pow2_bits_low by lia. reflexivity.
  - assert (Z.testbit v n = false) as ->; [|apply andb_false_r].
    destruct (Z.eq_dec v 0) as [->|Hz]; [apply Z.bits_0|].
    apply Z.bits_above_log2; [lia|]. apply Z.log2_lt_pow2; [lia|].
    apply Z.lt_le_trans with (2 ^ 6); [lia|]. apply Z.pow_le_mono_r; lia.
Qed.

Lemma lor_shift a v : 0 <= v < 64 -> Z.lor (Z.shiftl a 6) v = a * 64 + v.
Proof.
  intros Hv. rewrite Z.shiftl_mul_pow2 by lia. change (2 ^ 6) with 64.
  rewrite <- Z.lxor_lor by (apply low6_disjoint; exact Hv).
  symmetry. apply Z.add_nocarry_lxor. apply low6_disjoint; exact Hv.
Qed.

Lemma step_value a v : 0 <= a -> a * 64 < 2 ^ 64 -> 0 <= v < 64 ->
  Z.lor (wrapu64 (Z.shiftl a 6)) v = a * 64 + v.
Proof.
  intros Ha Hb Hv. unfold wrapu64. change 18446744073709551616 with (2 ^ 64).
  assert (E : Z.shiftl a 6 = a * 64) by (rewrite Z.shiftl_mul_pow2 by lia; reflexivity).
  rewrite Z.mod_small by (rewrite E; lia). apply lor_shift. exact Hv.
Qed.

(* ---------------------------------------------------------------- number -> text -> number *)

Lemma pow64_pos k : 0 < 64 ^ Z.of_nat k.
Proof. apply Z.pow_pos_nonneg; lia. Qed.

Lemma num_text_num_gen k : forall a acc hi, 0 <= a < 64 ^ Z.of_nat k -> 0 <= hi ->
  hi * 64 ^ Z.of_nat k + a < 2 ^ 64 ->
  to_aidu_loop (to_aidc_loop k a acc) hi = to_aidu_loop acc (hi * 64 ^ Z.of_nat k + a).
Proof.
  induction k as [|k IH]; intros a acc hi Ha Hhi Hb.
  - cbn in *. f_equal. lia.
  - cbn [to_aidc_loop].
    rewrite Nat2Z.inj_succ, Z.pow_succ_r in * by lia.
    pose proof (pow64_pos k) as Hp.
    rewrite IH; [| lia | lia | nia].
    destruct (enc_dec (a mod 64)) as (H0 & H64 & Hr & Ht); [lia|].
    cbn [to_aidu_loop].
    destruct (Z.eqb_spec (enc_digit (a mod 64)) 0); [contradiction|].
    destruct (Z.eqb_spec (enc_digit (a mod 64)) 64); [contradiction|]. cbn [orb].
    destruct (Z.leb_spec 128 (enc_digit (a mod 64))); [lia|].
    rewrite Ht. rewrite step_value; [| nia | nia | lia].
    f_equal. lia.
Qed.

Lemma num_text_num a : 0 <= a < 2 ^ 48 -> aidc_to_aidu (aidu_to_aidc a) = Ok a.
Proof.
  intros Ha. unfold aidc_to_aidu, aidu_to_aidc.
  rewrite num_text_num_gen; [reflexivity| | lia |].
  - change (64 ^ Z.of_nat 8) with (2 ^ 48). exact Ha.
  - change (64 ^ Z.of_nat 8) with (2 ^ 48). lia.
Qed.

Lemma aidc_length_gen k : forall a acc, length (to_aidc_loop k a acc) = (k + length acc)%nat.
Proof. induction k as [|k IH]; intros a acc; cbn [to_aidc_loop]; [reflexivity|]. rewrite IH. cbn. lia. Qed.

Lemma aidc_length a : length (aidu_to_aidc a) = 8%nat.
Proof. unfold aidu_to_aidc. rewrite aidc_length_gen. reflexivity. Qed.

(* ---------------------------------------------------------------- text -> number -> text *)

Definition valfrom (hi : Z) (s : list Z) : Z := fold_left (fun a c => a * 64 + dec_digit c) s hi.

Lemma valfrom_range s : forall hi, forallb in_alphabet s = true -> 0 <= hi ->
  hi * 64 ^ Z.of_nat (length s) <= valfrom hi s < (hi + 1) * 64 ^ Z.of_nat (length s).
Proof.
  induction s as [|c r IH]; intros hi Hs Hhi.
  - cbn. lia.
  - cbn [forallb] in Hs. apply andb_prop in Hs. destruct Hs as [Hc Hr].
    destruct (dec_enc c Hc) as (_ & _ & _ & _ & Hd & _).
    cbn [valfrom fold_left length]. fold (valfrom (hi * 64 + dec_digit c) r).
    specialize (IH (hi * 64 + dec_digit c) Hr ltac:(lia)).
    rewrite Nat2Z.inj_succ, Z.pow_succ_r by lia. pose proof (pow64_pos (length r)). nia.
Qed.

Lemma text_num s : forall hi, forallb in_alphabet s = true -> 0 <= hi ->
  (hi + 1) * 64 ^ Z.of_nat (length s) <= 2 ^ 64 ->
  to_aidu_loop s hi = Ok (valfrom hi s).
Proof.
  induction s as [|c r IH]; intros hi Hs Hhi Hb; [reflexivity|].
  cbn [forallb] in Hs. apply andb_prop in Hs. destruct Hs as [Hc Hr].
  destruct (dec_enc c Hc) as (H0 & H64 & Hrange & Ht & Hd & _).
  cbn [to_aidu_loop].
  destruct (Z.eqb_spec c 0); [contradiction|]. destruct (Z.eqb_spec c 64); [contradiction|]. cbn [orb].
  destruct (Z.leb_spec 128 c); [lia|]. rewrite Ht.
  cbn [length] in Hb. rewrite Nat2Z.inj_succ, Z.pow_succ_r in Hb by lia.
  pose proof (pow64_pos (length r)) as Hp.
  rewrite step_value; [| lia | nia | lia].
  rewrite IH; [reflexivity | exact Hr | lia | nia].
Qed.

Lemma num_text_gen s : forall acc, forallb in_alphabet s = true ->
  to_aidc_loop (length s) (valfrom 0 s) acc = s ++ acc.
Proof.
  induction s as [|c s' IH] using rev_ind; intros acc Hs; [reflexivity|].
  rewrite forallb_app in Hs. apply andb_prop in Hs. destruct Hs as [Hs' Hc].
  cbn [forallb] in Hc. rewrite andb_true_r in Hc.
  destruct (dec_enc c Hc) as (_ & _ & _ & _ & Hd & He).
  rewrite app_length. cbn [length]. replace (length s' + 1)%nat with (S (length s')) by lia.
  cbn [to_aidc_loop]. unfold valfrom. rewrite fold_left_app. cbn [fold_left]. fold (valfrom 0 s').
  pose proof (valfrom_range s' 0 Hs' ltac:(lia)) as Hv.
  replace ((valfrom 0 s' * 64 + dec_digit c) / 64) with (valfrom 0 s') by lia.
  replace ((valfrom 0 s' * 64 + dec_digit c) mod 64) with (dec_digit c) by lia.
  rewrite He. rewrite IH by exact Hs'. rewrite <- app_assoc. reflexivity.
Qed.

Lemma text_num_text s : length s = 8%nat -> forallb in_alphabet s = true ->
  exists a, aidc_to_aidu s = Ok a /\ 0 <= a < 2 ^ 48 /\ aidu_to_aidc a = s.
Proof.
  intros Hl Hs. exists (valfrom 0 s). unfold aidc_to_aidu, aidu_to_aidc.
  pose proof (valfrom_range s 0 Hs ltac:(lia)) as Hv. rewrite Hl in Hv.
  change (64 ^ Z.of_nat 8) with (2 ^ 48) in Hv.
  split; [|split].
  - apply text_num; [exact Hs | lia |]. rewrite Hl. change (64 ^ Z.of_nat 8) with (2 ^ 48). lia.
  - lia.
  - rewrite <- Hl at 1. rewrite num_text_gen by exact Hs. apply app_nil_r.
Qed.

(* ---------------------------------------------------------------- decoder totality *)

Lemma nthZ_table_some c : 0 <= c < 128 -> exists v, nthZ decodeAidcTable c = Some v.
Proof.
  intros Hc. unfold nthZ. destruct (Z.ltb_spec c 0); [lia|].
  destruct (nth_error decodeAidcTable (Z.to_nat c)) eqn:E; [eauto|].
  apply nth_error_None in E. rewrite table_length in E. lia.
Qed.

Lemma decoder_total_gen s : forall a, bytes_ok s = true -> exists v, to_aidu_loop s a = Ok v.
Proof.
  induction s as [|c r IH]; intros a Hs; [eexists; reflexivity|].
  cbn [bytes_ok forallb] in Hs. apply andb_prop in Hs. destruct Hs as [Hc Hr]. unfold is_byte in Hc.
  cbn [to_aidu_loop]. destruct ((c =? 0) || (c =? 64)); [eexists; reflexivity|].
  destruct (Z.leb_spec 128 c); [eexists; reflexivity|].
  destruct (nthZ_table_some c) as [v ->]; [lia|]. apply IH. exact Hr.
Qed.

Lemma decoder_total s : bytes_ok s = true -> exists v, aidc_to_aidu s = Ok v.
Proof. apply decoder_total_gen. Qed.

Lemma fixlen_bytes n s : bytes_ok s = true -> bytes_ok (fixlen n s) = true.
Proof.
  intros H. unfold fixlen, bytes_ok in *. rewrite forallb_app. apply andb_true_intro. split.
  - rewrite forallb_forall in *. intros x Hx. apply H. eapply In_firstn; eauto.
  - rewrite forallb_forall. intros x Hx. apply repeat_spec in Hx. subst. reflexivity.
Qed.

Lemma articleid_total s : bytes_ok s = true -> exists f, articleid_to_fn s = Ok f.
Proof.
  intros H. unfold articleid_to_fn.
  destruct (decoder_total (fixlen 8 s) (fixlen_bytes 8 s H)) as [v ->]. eexists; reflexivity.
Qed.

(* ---------------------------------------------------------------- file name <-> number *)

Lemma atoi_digits ds : ds <> [] -> Forall (fun d => 0 <= d < 10) ds ->
  atoi (map dec_char ds) = Some (parseB 10 ds).
Proof.
  intros Hne Hd. destruct ds as [|d r]; [congruence|]. cbn [map atoi].
  inversion Hd as [|? ? Hd0 Hr]; subst. change (dec_char d) with (48 + d).
  destruct (Z.eqb_spec (48 + d) 45); [lia|]. destruct (Z.eqb_spec (48 + d) 43); [lia|]. cbn [orb].
  assert (Hall : forallb is_dec_digit (48 + d :: map dec_char r) = true).
  { cbn [forallb]. apply andb_true_intro. split; [unfold is_dec_digit; lia|].
    rewrite forallb_forall. intros x Hx. apply in_map_iff in Hx. destruct Hx as (y & <- & Hy).
    rewrite Forall_forall in Hr. specialize (Hr y Hy). unfold is_dec_digit, dec_char. lia. }
  rewrite Hall. f_equal.
  assert (Hm : map (fun c => c - 48) (48 + d :: map dec_char r) = d :: r).
  { cbn [map]. f_equal; [lia|]. rewrite map_map. rewrite <- (map_id r) at 2. apply map_ext.
    intros x. unfold dec_char. lia. }
  rewrite Hm. lia.
Qed.

Lemma hex_val_char d : 0 <= d < 16 -> hex_val (hexU_char d) = Some d.
Proof.
  intros Hd. unfold hex_val, hexU_char. destruct (Z.ltb_spec d 10) as [Hlt|Hge].
  - replace ((48 <=? 48 + d) && (48 + d <=? 57)) with true by lia. f_equal. lia.
  - replace ((48 <=? 55 + d) && (55 + d <=? 57)) with false by lia.
    replace ((97 <=? 55 + d) && (55 + d <=? 102)) with false by lia.
    replace ((65 <=? 55 + d) && (55 + d <=? 70)) with true by lia. f_equal. lia.
Qed.

Lemma hex_vals_digits ds : Forall (fun d => 0 <= d < 16) ds -> hex_vals (map hexU_char ds) = Some ds.
Proof.
  induction ds as [|d r IH]; intros H; [reflexivity|]. inversion H as [|? ? Hd Hr]; subst.
  cbn [map hex_vals]. rewrite IH by exact Hr. rewrite hex_val_char by exact Hd. reflexivity.
Qed.

(* shape of a well-formed name: positions of the three dots and of the two numeric fields *)
Lemma name_fields ty D H : length D = 10%nat -> length H = 3%nat ->
  let f := fixlen 28 (ty :: 46 :: D ++ [46; 65; 46] ++ H) in
  nth 0 f 0 = ty /\ nth 1 f 0 = 46 /\ nth 12 f 0 = 46 /\ nth 14 f 0 = 46 /\
  firstn 10 (skipn 2 f) = D /\ firstn 3 (skipn 15 f) = H.
Proof.
  intros HD HH.
  do 10 (destruct D as [|? D]; [discriminate|]). destruct D; [|discriminate].
  do 3 (destruct H as [|? H]; [discriminate|]). destruct H; [|discriminate].
  cbn. repeat split; reflexivity.
Qed.

Definition ty_code (ty : Z) : Z := if ty =? 77 then 0 else 1.

Lemma parse_uint16_digits ds bits : ds <> [] -> Forall (fun d => 0 <= d < 16) ds ->
  parse_uint16 (map hexU_char ds) bits = if parseB 16 ds <? 2 ^ bits then Some (parseB 16 ds) else None.
Proof.
  intros Hne Hd. unfold parse_uint16. rewrite hex_vals_digits by exact Hd.
  destruct ds; [congruence|reflexivity].
Qed.

Lemma name_to_aidu ty t sfx : 0 <= t < 2 ^ 31 -> 0 <= sfx < 4096 ->
  fn_to_aidu (mk_name ty t sfx) = ty_code ty * 2 ^ 44 + t * 4096 + sfx.
Proof.
  intros Ht Hs. unfold mk_name, fn_to_aidu.
  destruct (name_fields ty (map dec_char (digitsB 10 10 t)) (map hexU_char (digitsB 16 3 sfx)))
    as (E0 & E1 & E12 & E14 & ED & EH); [rewrite map_length; apply digitsB_length | rewrite map_length; apply digitsB_length |].
  cbv zeta in *. rewrite E0, E1, E12, E14, ED, EH. clear E0 E1 E12 E14 ED EH.
  change (46 =? 46) with true. cbn [negb].
  rewrite atoi_digits.
  2:{ intros E. apply (f_equal (@length Z)) in E. rewrite digitsB_length in E. discriminate. }
  2:{ apply digitsB_range. lia. }
  rewrite parse_digits by lia. change (10 ^ Z.of_nat 10) with 10000000000.
  rewrite parse_uint16_digits.
  2:{ intros E. apply (f_equal (@length Z)) in E. rewrite digitsB_length in E. discriminate. }
  2:{ apply digitsB_range. lia. }
  rewrite parse_digits by lia. change (16 ^ Z.of_nat 3) with 4096. change (2 ^ 12) with 4096.
  change (2 ^ 31) with 2147483648 in *.
  rewrite (Z.mod_small sfx) by lia. destruct (Z.ltb_spec sfx 4096); [|lia].
  rewrite (Z.mod_small t 10000000000) by lia.
  unfold wrap32. rewrite (Z.mod_small t 4294967296) by lia.
  destruct (Z.ltb_spec t 2147483648); [|lia].
  unfold wrapu64, ty_code. rewrite !Z.shiftl_mul_pow2 by lia.
  change 15 with (Z.ones 4). rewrite Z.land_ones by lia.
  change (2 ^ 4) with 16. change (2 ^ 12) with 4096. change (2 ^ 44) with 17592186044416.
  destruct (ty =? 77); lia.
Qed.

Lemma aidu_to_name c t sfx : 0 <= c <= 1 -> 1000000000 <= t < 2 ^ 31 -> 0 <= sfx < 4096 ->
  aidu_to_fn (c * 2 ^ 44 + t * 4096 + sfx) = mk_name (if c =? 0 then 77 else 71) t sfx.
Proof.
  intros Hc Ht Hs. unfold aidu_to_fn, mk_name.
  set (a := c * 2 ^ 44 + t * 4096 + sfx).
  change (2 ^ 31) with 2147483648 in *.
  assert (Ha : a = c * 17592186044416 + t * 4096 + sfx) by reflexivity.
  rewrite !Z.shiftr_div_pow2 by lia.
  change 15 with (Z.ones 4). change 4294967295 with (Z.ones 32). change 4095 with (Z.ones 12).
  rewrite !Z.land_ones by lia. unfold wrapu16, wrap32.
  change (2 ^ 44) with 17592186044416. change (2 ^ 4) with 16. change (2 ^ 12) with 4096. change (2 ^ 32) with 4294967296.
  assert (E1 : (a / 17592186044416) mod 16 = c) by lia.
  assert (E2 : ((a / 4096) mod 4294967296) mod 4294967296 = t) by lia.
  assert (E3 : (a mod 65536) mod 4096 = sfx) by lia.
  rewrite E1, E2, E3. destruct (Z.ltb_spec t 2147483648); [|lia].
  unfold print_dec. destruct (Z.ltb_spec t 0); [lia|].
  rewrite (min_digits_exact 10 9) by (cbn; lia). reflexivity.
Qed.

Lemma name_roundtrip ty t sfx : ty = 77 \/ ty = 71 -> 1000000000 <= t < 2 ^ 31 -> 0 <= sfx < 4096 ->
  aidu_to_fn (fn_to_aidu (mk_name ty t sfx)) = mk_name ty t sfx.
Proof.
  intros Hty Ht Hs. rewrite name_to_aidu by lia. rewrite aidu_to_name; [| unfold ty_code; destruct (ty =? 77); lia | lia | lia].
  unfold ty_code. destruct Hty; subst; reflexivity.
Qed.

Lemma name_aidu_range ty t sfx : 0 <= t < 2 ^ 31 -> 0 <= sfx < 4096 ->
  0 <= fn_to_aidu (mk_name ty t sfx) < 2 ^ 48.
Proof.
  intros Ht Hs. rewrite name_to_aidu by lia. unfold ty_code.
  change (2 ^ 31) with 2147483648 in *. change (2 ^ 44) with 17592186044416. change (2 ^ 48) with 281474976710656.
  destruct (ty =? 77); lia.
Qed.

(* distinct names, distinct numbers, distinct texts *)
Lemma name_injective ty t sfx ty' t' sfx' :
  ty = 77 \/ ty = 71 -> 1000000000 <= t < 2 ^ 31 -> 0 <= sfx < 4096 ->
  ty' = 77 \/ ty' = 71 -> 1000000000 <= t' < 2 ^ 31 -> 0 <= sfx' < 4096 ->
  fn_to_articleid (mk_name ty t sfx) = fn_to_articleid (mk_name ty' t' sfx') ->
  mk_name ty t sfx = mk_name ty' t' sfx'.
Proof.
  intros Hty Ht Hs Hty' Ht' Hs' E.
  rewrite <- (name_roundtrip ty t sfx), <- (name_roundtrip ty' t' sfx') by assumption.
  f_equal.
  pose proof (name_aidu_range ty t sfx ltac:(lia) Hs) as R.
  pose proof (name_aidu_range ty' t' sfx' ltac:(lia) Hs') as R'.
  pose proof (num_text_num _ R) as N. pose proof (num_text_num _ R') as N'.
  unfold fn_to_articleid in E.
  (* the 8 characters contain no NUL, so cprefix is the identity on them *)
  assert (Hcp : forall a, 0 <= a < 2 ^ 48 -> cprefix (aidu_to_aidc a) = aidu_to_aidc a).
  { intros a Ha. clear -Ha. unfold aidu_to_aidc. cbn [to_aidc_loop].
    repeat match goal with |- context [enc_digit ?x] =>
      let H := fresh in
      assert (H : enc_digit x <> 0) by (apply (enc_dec x); lia);
      generalize dependent (enc_digit x); intros end.
    cbn [cprefix].
    repeat match goal with H : ?z <> 0 |- context [?z =? 0] => destruct (Z.eqb_spec z 0); [contradiction|] end.
    reflexivity. }
  rewrite !Hcp in E by assumption. rewrite E in N. rewrite N in N'. inversion N'. reflexivity.
Qed.

(* ---------------------------------------------------------------- the year-2038 limit of the 32-bit time field *)

Lemma name_roundtrip_refuted_2038 :
  exists t, 2 ^ 31 <= t < 10 ^ 10 /\ aidu_to_fn (fn_to_aidu (mk_name 77 t 490)) <> mk_name 77 t 490.
Proof. exists 3000000000. split; [lia|]. intros H. vm_compute in H. discriminate H. Qed.

(* ---------------------------------------------------------------- non-vacuity *)
Example name_example : aidu_to_fn (fn_to_aidu (mk_name 77 1607202239 490)) = mk_name 77 1607202239 490
  /\ fn_to_articleid (mk_name 77 1607202239 490) = [49; 86; 111; 95; 77; 95; 55; 103].
Proof. split; vm_compute; reflexivity. Qed.
