(* C18 — comparison, search and hash helpers against their C specifications *)
From Verif Require Import Base.Common Base.Cstr Gen.Consts_default Model.C18.

(* ------------------------------------------------------------------ case folding and cprefix *)
Lemma to_lower_spec c : to_lower c = lower_spec c.
Proof. unfold to_lower, lower_spec, is_upper. destruct ((65 <=? c) && (c <=? 90)); lia. Qed.
Lemma to_upper_spec c : to_upper c = upper_spec c.
Proof. unfold to_upper, upper_spec, is_lower. reflexivity. Qed.

Lemma to_lower_zero c : (to_lower c =? 0) = (c =? 0).
Proof.
  unfold to_lower, is_upper. destruct ((65 <=? c) && (c <=? 90)) eqn:E; [|reflexivity].
  apply andb_true_iff in E. destruct E as [E1 E2]. apply Z.leb_le in E1.
  destruct (c + 97 - 65 =? 0) eqn:A; destruct (c =? 0) eqn:B; try reflexivity;
  try apply Z.eqb_eq in A; try apply Z.eqb_eq in B; lia.
Qed.
Lemma to_upper_zero c : (to_upper c =? 0) = (c =? 0).
Proof.
  unfold to_upper, is_lower. destruct ((97 <=? c) && (c <=? 122)) eqn:E; [|reflexivity].
  apply andb_true_iff in E. destruct E as [E1 E2]. apply Z.leb_le in E1.
  destruct (c - 32 =? 0) eqn:A; destruct (c =? 0) eqn:B; try reflexivity;
  try apply Z.eqb_eq in A; try apply Z.eqb_eq in B; lia.
Qed.

Lemma cprefix_map_lower a : cprefix (map to_lower a) = map to_lower (cprefix a).
Proof.
  induction a as [|x a IH]; [reflexivity|]. cbn [map cprefix]. rewrite to_lower_zero.
  destruct (x =? 0); [reflexivity|]. cbn [map]. rewrite IH. reflexivity.
Qed.
Lemma cprefix_map_upper a : cprefix (map to_upper a) = map to_upper (cprefix a).
Proof.
  induction a as [|x a IH]; [reflexivity|]. cbn [map cprefix]. rewrite to_upper_zero.
  destruct (x =? 0); [reflexivity|]. cbn [map]. rewrite IH. reflexivity.
Qed.

Lemma cprefix_no_nul a : ~ In 0 (cprefix a).
Proof.
  induction a as [|x a IH]; cbn [cprefix]; [intros []|].
  destruct (x =? 0) eqn:E; [intros []|]. intros [H|H]; [apply Z.eqb_neq in E; lia|exact (IH H)].
Qed.

(* ------------------------------------------------------------------ Cstrcmp = strcmp on the prefixes *)
Lemma cstrcmp_eq : forall a b, cstrcmp a b = strcmp_spec (cprefix a) (cprefix b).
Proof.
  induction a as [|x a IH]; intros b.
  - cbn [cstrcmp cprefix]. destruct b as [|y b]; [reflexivity|]. cbn [cprefix].
    destruct (y =? 0) eqn:E; cbn [strcmp_spec]; [apply Z.eqb_eq in E; lia|reflexivity].
  - cbn [cstrcmp cprefix]. destruct (x =? 0) eqn:Ex.
    + destruct b as [|y b]; [reflexivity|]. cbn [cprefix]. destruct (y =? 0); reflexivity.
    + destruct b as [|y b]; [reflexivity|]. cbn [cprefix]. destruct (y =? 0) eqn:Ey.
      * apply Z.eqb_eq in Ey. subst y. rewrite Ex. cbn [strcmp_spec]. lia.
      * cbn [strcmp_spec]. destruct (x =? y); [apply IH|reflexivity].
Qed.

Lemma cstrcasecmp_eq a b : cstrcasecmp a b = strcasecmp_spec (cprefix a) (cprefix b).
Proof.
  unfold cstrcasecmp, cstr_tolower, strcasecmp_spec. rewrite cstrcmp_eq, !cprefix_map_lower.
  f_equal; apply map_ext; exact to_lower_spec.
Qed.

Lemma cmp_sign a b :
  Z.sgn (cstrcmp a b) = Z.sgn (strcmp_spec (cprefix a) (cprefix b)) /\
  Z.sgn (cstrcasecmp a b) = Z.sgn (strcasecmp_spec (cprefix a) (cprefix b)).
Proof. rewrite cstrcmp_eq, cstrcasecmp_eq. split; reflexivity. Qed.

(* unterminated arrays on both sides, a NUL in the middle, case folding *)
Example cmp_sign_ex :
  cstrcmp [97; 98; 99] [97; 98; 0; 99] = 99 /\ cstrcmp [97; 0; 7] [97] = 0 /\ cstrcmp [97] [97; 200] = -200 /\
  cstrcasecmp [65; 98] [97; 66; 0] = 0.
Proof. vm_compute. repeat split. Qed.

(* ------------------------------------------------------------------ Cstrstr *)
Lemma has_prefix_iff : forall p s, has_prefix s p = true <-> exists post, s = p ++ post.
Proof.
  induction p as [|y p IH]; intros s; cbn [has_prefix].
  - split; [intros _; exists s; reflexivity|reflexivity].
  - destruct s as [|x s].
    + split; [discriminate|intros [post H]; discriminate].
    + rewrite andb_true_iff, Z.eqb_eq, IH. split.
      * intros [-> [post ->]]. exists post. reflexivity.
      * intros [post H]. cbn in H. injection H as -> ->. split; [reflexivity|exists post; reflexivity].
Qed.

Lemma occurs_at_zero s p : occurs_at s p 0 <-> has_prefix s p = true.
Proof.
  rewrite has_prefix_iff. unfold occurs_at. split.
  - intros [pre [post [H L]]]. destruct pre; [|discriminate]. exists post. exact H.
  - intros [post H]. exists [], post. split; [exact H|reflexivity].
Qed.
Lemma occurs_at_succ x s p k : occurs_at (x :: s) p (S k) <-> occurs_at s p k.
Proof.
  unfold occurs_at. split.
  - intros [pre [post [H L]]]. destruct pre as [|z pre]; [discriminate|]. cbn in H. injection H as -> H.
    exists pre, post. split; [exact H|cbn in L; lia].
  - intros [pre [post [H L]]]. exists (x :: pre), post. split; [cbn; rewrite H; reflexivity|cbn; lia].
Qed.

Lemma bytes_index_from_spec : forall s p i,
  (bytes_index_from s p i = -1 /\ forall k, ~ occurs_at s p k) \/
  (exists k, bytes_index_from s p i = i + Z.of_nat k /\ occurs_at s p k /\ forall q, (q < k)%nat -> ~ occurs_at s p q).
Proof.
  induction s as [|x s IH]; intros p i; cbn [bytes_index_from]; destruct (has_prefix _ p) eqn:E.
  - right. exists 0%nat. split; [lia|]. split; [apply occurs_at_zero; exact E|intros q Hq; lia].
  - left. split; [reflexivity|]. intros k [pre [post [H L]]].
    destruct pre; [|discriminate]. destruct p; [discriminate|discriminate].
  - right. exists 0%nat. split; [lia|]. split; [apply occurs_at_zero; exact E|intros q Hq; lia].
  - assert (N0 : ~ occurs_at (x :: s) p 0) by (rewrite occurs_at_zero, E; discriminate).
    destruct (IH p (i + 1)) as [[R N]|[k [R [O M]]]].
    + left. split; [exact R|]. intros [|k]; [exact N0|]. rewrite occurs_at_succ. apply N.
    + right. exists (S k). split; [lia|]. split; [apply occurs_at_succ; exact O|].
      intros [|q] Hq; [exact N0|]. rewrite occurs_at_succ. apply M. lia.
Qed.

Lemma bytes_index_from_range s p : forall i, bytes_index_from s p i = -1 \/ i <= bytes_index_from s p i.
Proof.
  induction s as [|x s IH]; intros i; cbn [bytes_index_from]; destruct (has_prefix _ p); try lia.
  destruct (IH (i + 1)); lia.
Qed.

Lemma has_prefix_cprefix : forall n a, ~ In 0 n -> has_prefix a n = has_prefix (cprefix a) n.
Proof.
  induction n as [|y n IH]; intros a Hn; [reflexivity|].
  destruct a as [|x a]; [reflexivity|]. cbn [cprefix]. destruct (x =? 0) eqn:E.
  - cbn [has_prefix]. apply Z.eqb_eq in E. subst x. destruct (0 =? y) eqn:F; [|reflexivity].
    apply Z.eqb_eq in F. exfalso. apply Hn. left. lia.
  - cbn [has_prefix]. rewrite IH; [reflexivity|]. intros H. apply Hn. right. exact H.
Qed.

(* cutting the haystack at its first NUL changes nothing below the cut *)
Lemma bytes_index_cut n : ~ In 0 n -> forall a i,
  let r := bytes_index_from a n i in let r' := bytes_index_from (cprefix a) n i in
  (r' <> -1 -> r = r') /\ (r' = -1 -> r = -1 \/ i + lenZ (cprefix a) <= r).
Proof.
  intros Hn. induction a as [|x a IH]; intros i; cbn zeta.
  - cbn [cprefix]. split; [reflexivity|]. intros H. left. exact H.
  - cbn [bytes_index_from]. rewrite (has_prefix_cprefix n (x :: a) Hn).
    cbn [cprefix]. destruct (x =? 0) eqn:E.
    + cbn [bytes_index_from]. destruct (has_prefix [] n) eqn:F.
      * split; [reflexivity|]. intros H. left. exact H.
      * split; [intros H; exfalso; apply H; reflexivity|]. intros _. unfold lenZ. cbn [length].
        destruct (bytes_index_from_range a n (i + 1)); lia.
    + cbn [bytes_index_from]. destruct (has_prefix (x :: cprefix a) n) eqn:F.
      * split; [reflexivity|]. intros H. left. exact H.
      * specialize (IH (i + 1)). cbn zeta in IH. destruct IH as [IH1 IH2]. split; [exact IH1|].
        intros H. destruct (IH2 H) as [K|K]; [left; exact K|right]. unfold lenZ in *. cbn [length]. lia.
Qed.

Lemma occurs_at_length h n k : occurs_at h n k -> (k + length n <= length h)%nat.
Proof. intros [pre [post [-> L]]]. rewrite !app_length. lia. Qed.

Lemma cstrstr_is_index a n : ~ In 0 n -> (n <> [] \/ cprefix a <> []) -> cstrstr a n = bytes_index (cprefix a) n.
Proof.
  intros Hn Hne. unfold cstrstr, bytes_index, cstrlen.
  destruct (bytes_index_cut n Hn a 0) as [C1 C2]. cbn zeta in C1, C2.
  destruct (bytes_index_from_spec (cprefix a) n 0) as [[R N]|[k [R [O M]]]].
  - rewrite R in *. destruct (C2 eq_refl) as [K|K]; rewrite ?K.
    + reflexivity.
    + destruct (bytes_index_from a n 0 <? 0); [reflexivity|]. cbn [orb].
      destruct (bytes_index_from a n 0 >=? lenZ (cprefix a)) eqn:G; [reflexivity|]. rewrite Z.geb_leb in G. apply Z.leb_gt in G. lia.
  - assert (Hr : bytes_index_from (cprefix a) n 0 <> -1) by lia. rewrite (C1 Hr), R.
    assert (Hk : (k < length (cprefix a))%nat).
    { destruct n as [|y n'].
      - destruct Hne as [Hne|Hne]; [contradiction|]. destruct k as [|k'].
        + destruct (cprefix a); [contradiction|cbn [length]; lia].
        + exfalso. apply (M 0%nat); [lia|]. exists [], (cprefix a). split; reflexivity.
      - pose proof (occurs_at_length _ _ _ O) as L. cbn [length] in L. lia. }
    destruct (0 + Z.of_nat k <? 0) eqn:G1; [apply Z.ltb_lt in G1; lia|]. cbn [orb].
    destruct (0 + Z.of_nat k >=? lenZ (cprefix a)) eqn:G2; [|reflexivity].
    rewrite Z.geb_leb in G2. apply Z.leb_le in G2. unfold lenZ in G2. lia.
Qed.

Lemma strstr_position a n : ~ In 0 n -> (n <> [] \/ cprefix a <> []) -> strstr_rel (cprefix a) n (cstrstr a n).
Proof.
  intros Hn Hne. rewrite (cstrstr_is_index a n Hn Hne). unfold bytes_index, strstr_rel.
  destruct (bytes_index_from_spec (cprefix a) n 0) as [[R N]|[k [R [O M]]]].
  - left. split; assumption.
  - right. exists k. split; [lia|]. split; assumption.
Qed.

Lemma not_in_map_lower n : ~ In 0 n -> ~ In 0 (map to_lower n).
Proof.
  intros H K. apply in_map_iff in K. destruct K as [c [E I]]. 
  assert (Z : (to_lower c =? 0) = true) by (apply Z.eqb_eq; exact E).
  rewrite to_lower_zero in Z. apply Z.eqb_eq in Z. subst c. exact (H I).
Qed.

Lemma strcasestr_position a n : ~ In 0 n -> (n <> [] \/ cprefix a <> []) ->
  strstr_rel (map lower_spec (cprefix a)) (map lower_spec n) (cstrcasestr a n).
Proof.
  intros Hn Hne. unfold cstrcasestr, cstr_tolower.
  rewrite <- (map_ext _ _ to_lower_spec), <- (map_ext _ _ to_lower_spec), <- cprefix_map_lower.
  apply strstr_position; [apply not_in_map_lower; exact Hn|].
  rewrite cprefix_map_lower. destruct Hne as [H|H]; [left|right]; intros K; apply map_eq_nil in K; contradiction.
Qed.

Lemma case_has_prefix_spec a n : ~ In 0 n ->
  cstr_case_has_prefix a n = has_prefix (map lower_spec (cprefix a)) (map lower_spec n).
Proof.
  intros Hn. unfold cstr_case_has_prefix, cstr_tolower.
  rewrite <- (map_ext _ _ to_lower_spec), <- (map_ext _ _ to_lower_spec), <- cprefix_map_lower.
  apply has_prefix_cprefix. apply not_in_map_lower. exact Hn.
Qed.

Example strstr_ex :
  cstrstr [97; 98; 97; 98; 99; 0; 99] [97; 98; 99] = 2 /\ cstrstr [97; 0; 98] [98] = -1 /\ cstrstr [97] [] = 0 /\
  cstrcasestr [88; 65; 98] [97; 66] = 1.
Proof. vm_compute. repeat split. Qed.

(* strstr("", "") is "" (offset 0); the code answers -1 *)
Lemma strstr_refuted_empty :
  exists a n, ~ In 0 n /\ strstr_rel (cprefix a) n 0 /\ cstrstr a n = -1.
Proof.
  exists [], []. split; [intros []|]. split; [|reflexivity].
  right. exists 0%nat. split; [reflexivity|]. split; [exists [], []; split; reflexivity|intros q Hq; lia].
Qed.

(* ------------------------------------------------------------------ hashes *)
Lemma fnv1a32_gen_spec f : forall l h,
  fnv1a32_gen f l h = fnv1a_spec 32 16777619 h (map f (cprefix l)).
Proof.
  induction l as [|c l IH]; intros h; [reflexivity|]. cbn [fnv1a32_gen cprefix].
  destruct (c =? 0); [reflexivity|]. cbn [map]. unfold fnv1a_spec. cbn [fold_left]. rewrite IH. reflexivity.
Qed.
Lemma fnv1a64_gen_spec f : forall l h,
  fnv1a64_gen f l h = fnv1a_spec 64 1099511628211 h (map f (cprefix l)).
Proof.
  induction l as [|c l IH]; intros h; [reflexivity|]. cbn [fnv1a64_gen cprefix].
  destruct (c =? 0); [reflexivity|]. cbn [map]. unfold fnv1a_spec. cbn [fold_left]. rewrite IH. reflexivity.
Qed.
Lemma fnv32_bytes_spec : forall l h, fnv32_bytes l h = fnv1_spec 32 16777619 h l.
Proof. induction l as [|c l IH]; intros h; [reflexivity|]. cbn [fnv32_bytes]. rewrite IH. reflexivity. Qed.
Lemma fnv64_bytes_spec : forall l h, fnv64_bytes l h = fnv1_spec 64 1099511628211 h l.
Proof. induction l as [|c l IH]; intros h; [reflexivity|]. cbn [fnv64_bytes]. rewrite IH. reflexivity. Qed.
(* Fnv64Buf over exactly len(buf) bytes (how ptt/article.go calls it) is FNV-1 of the buffer *)
Lemma fnv64_buf_spec : forall l h n, (n <= 0 \/ lenZ l <= n) -> fnv64_buf l n h = fnv1_spec 64 1099511628211 h l.
Proof.
  induction l as [|c l IH]; intros h n Hn; [reflexivity|]. cbn [fnv64_buf].
  unfold lenZ in Hn. cbn [length] in Hn. destruct (n - 1 =? 0) eqn:E.
  - apply Z.eqb_eq in E. destruct l; [reflexivity|]. cbn [length] in Hn. lia.
  - apply Z.eqb_neq in E. rewrite IH; [reflexivity|]. unfold lenZ. lia.
Qed.

Lemma hash_spec a :
  string_hash a = fnv1a_spec 32 16777619 33554467 (map upper_spec (cprefix a)) /\
  string_hash_bits a = fnv1a_spec 32 16777619 33554467 (map upper_spec (cprefix a)) mod 2 ^ 16.
Proof.
  unfold string_hash_bits, string_hash, fnv1a32_strcase. rewrite fnv1a32_gen_spec.
  rewrite (map_ext _ _ to_upper_spec). split; reflexivity.
Qed.

Lemma hash_family l h :
  fnv1a32_bytes l h = fnv1a_spec 32 16777619 h (cprefix l) /\
  fnv1a32_strcase l h = fnv1a_spec 32 16777619 h (map upper_spec (cprefix l)) /\
  fnv1a64_bytes l h = fnv1a_spec 64 1099511628211 h (cprefix l) /\
  fnv1a64_strcase l h = fnv1a_spec 64 1099511628211 h (map upper_spec (cprefix l)) /\
  fnv32_bytes l h = fnv1_spec 32 16777619 h l /\
  fnv64_bytes l h = fnv1_spec 64 1099511628211 h l /\
  fnv64_buf l (lenZ l) h = fnv1_spec 64 1099511628211 h l.
Proof.
  unfold fnv1a32_bytes, fnv1a32_strcase, fnv1a64_bytes, fnv1a64_strcase.
  rewrite !fnv1a32_gen_spec, !fnv1a64_gen_spec, map_id, !(map_ext _ _ to_upper_spec).
  repeat split; try reflexivity;
    first [apply fnv32_bytes_spec | apply fnv64_bytes_spec | apply fnv64_buf_spec; right; lia].
Qed.

(* "SYSOP" and "sysop\0junk" hash alike; the value is the one pttbbs computes *)
Example hash_ex : string_hash [83; 89; 83; 79; 80] = string_hash [115; 121; 115; 111; 112; 0; 1; 2] /\
                  string_hash [83; 89; 83; 79; 80] = 1202484463 /\ string_hash_bits [83; 89; 83; 79; 80] = 29935.
Proof. vm_compute. repeat split. Qed.

(* the DBCS-aware variants upper-case ASCII bytes except in trail position *)
Fixpoint dbcs_upper (l : list Z) (trail : bool) : list Z :=
  match l with
  | [] => []
  | c :: r => if trail then c :: dbcs_upper r false
              else if c <? 128 then upper_spec c :: dbcs_upper r false else c :: dbcs_upper r true
  end.
Lemma fnv1a32_dbcs_spec : forall l tr h, fnv1a32_dbcscase l tr h = fnv1a_spec 32 16777619 h (dbcs_upper (cprefix l) tr).
Proof.
  induction l as [|c l IH]; intros tr h; [reflexivity|]. cbn [fnv1a32_dbcscase cprefix].
  destruct (c =? 0); [reflexivity|]. cbn [dbcs_upper]. destruct tr; [rewrite IH; reflexivity|].
  destruct (c <? 128); rewrite IH; reflexivity.
Qed.
Lemma fnv1a64_dbcs_spec : forall l tr h, fnv1a64_dbcscase l tr h = fnv1a_spec 64 1099511628211 h (dbcs_upper (cprefix l) tr).
Proof.
  induction l as [|c l IH]; intros tr h; [reflexivity|]. cbn [fnv1a64_dbcscase cprefix].
  destruct (c =? 0); [reflexivity|]. cbn [dbcs_upper]. destruct tr; [rewrite IH; reflexivity|].
  destruct (c <? 128); rewrite IH; reflexivity.
Qed.
Lemma hash_dbcs l h :
  fnv1a32_dbcscase l false h = fnv1a_spec 32 16777619 h (dbcs_upper (cprefix l) false) /\
  fnv1a64_dbcscase l false h = fnv1a_spec 64 1099511628211 h (dbcs_upper (cprefix l) false).
Proof. split; [apply fnv1a32_dbcs_spec|apply fnv1a64_dbcs_spec]. Qed.
Example hash_dbcs_ex : dbcs_upper [97; 164; 97; 98] false = [65; 164; 97; 66].
Proof. vm_compute. reflexivity. Qed.
