(* C04 — the index as the code maintains it: every operation of cache/cache_user.go and both loaders of
   cache/uhash_loader.go preserve the chain invariant, lookups are exact, and no walk runs out of fuel. *)
From Verif Require Import Base.Common Base.TMap Gen.Consts_default Model.C04 Proofs.C04_chain.
From Verif Require Gen.Consts_docker.

Section Cfg.
Context {K : consts} (HK : consts_ok K).

(* ------------------------------------------------------------------ ids: case folding and the hash *)
Lemma zlist_eqb_eq : forall a b, zlist_eqb a b = true <-> a = b.
Proof.
  induction a as [|x a IH]; destruct b as [|y b]; cbn [zlist_eqb]; split; intros H; try reflexivity; try discriminate.
  - apply andb_prop in H. destruct H as [H1 H2]. apply Z.eqb_eq in H1. apply IH in H2. congruence.
  - inversion H; subst. rewrite Z.eqb_refl. cbn. apply IH. reflexivity.
Qed.

Definition fold_id (a : list Z) : list Z := map tolower (cprefix a).
Lemma id_eq_ci_spec a b : id_eq_ci a b = true <-> fold_id a = fold_id b.
Proof. unfold id_eq_ci. apply zlist_eqb_eq. Qed.
Lemma id_eq_ci_refl a : id_eq_ci a a = true.
Proof. apply id_eq_ci_spec. reflexivity. Qed.
Lemma id_eq_ci_sym a b : id_eq_ci a b = true -> id_eq_ci b a = true.
Proof. rewrite !id_eq_ci_spec. congruence. Qed.
Lemma id_eq_ci_trans a b c : id_eq_ci a b = true -> id_eq_ci b c = true -> id_eq_ci a c = true.
Proof. rewrite !id_eq_ci_spec. congruence. Qed.
Lemma cstr_eq_spec a b : cstr_eq a b = true <-> cprefix a = cprefix b.
Proof. unfold cstr_eq. apply zlist_eqb_eq. Qed.
Lemma cstr_eq_ci a b : cstr_eq a b = true -> id_eq_ci a b = true.
Proof. rewrite cstr_eq_spec, id_eq_ci_spec. unfold fold_id. congruence. Qed.

Lemma lower_upper c d : tolower c = tolower d -> toupper c = toupper d.
Proof.
  unfold tolower, toupper. intros H.
  destruct (Z.leb_spec 65 c), (Z.leb_spec c 90), (Z.leb_spec 65 d), (Z.leb_spec d 90),
           (Z.leb_spec 97 c), (Z.leb_spec c 122), (Z.leb_spec 97 d), (Z.leb_spec d 122); cbn [andb] in *; lia.
Qed.
Lemma tolower_zero c : tolower c = 0 <-> c = 0.
Proof. unfold tolower. destruct (Z.leb_spec 65 c), (Z.leb_spec c 90); cbn [andb]; lia. Qed.

Lemma fnv_nil_prefix b h : cprefix b = [] -> fnv1a_case b h = h.
Proof. destruct b as [|d b]; [reflexivity|]. cbn [cprefix fnv1a_case]. destruct (d =? 0); [reflexivity|discriminate]. Qed.

Lemma fnv_ci : forall a b h, fold_id a = fold_id b -> fnv1a_case a h = fnv1a_case b h.
Proof.
  unfold fold_id. induction a as [|c a IH]; intros b h H.
  - cbn in H. symmetry in H. apply map_eq_nil in H. rewrite (fnv_nil_prefix b h H). reflexivity.
  - cbn [cprefix fnv1a_case] in *. destruct (Z.eqb_spec c 0) as [Hc|Hc].
    + cbn in H. symmetry in H. apply map_eq_nil in H. rewrite (fnv_nil_prefix b h H). reflexivity.
    + destruct b as [|d b]; [discriminate H|]. cbn [cprefix fnv1a_case] in *.
      destruct (Z.eqb_spec d 0) as [Hd|Hd]; [discriminate H|].
      cbn [map] in H. inversion H as [[H1 H2]]. rewrite (lower_upper c d H1). apply IH. exact H2.
Qed.

Lemma id_eq_ci_hash a b : id_eq_ci a b = true -> uhash a = uhash b.
Proof. intros H. apply id_eq_ci_spec in H. unfold uhash. rewrite (fnv_ci a b _ H). reflexivity. Qed.

(* ------------------------------------------------------------------ in_range *)
Lemma in_range_spec x : in_range x = true <-> 0 <= x < MAXU.
Proof. unfold in_range. rewrite andb_true_iff, Z.leb_le, Z.ltb_lt. reflexivity. Qed.

(* ------------------------------------------------------------------ the walks, on a chain *)
Definition tail_ptr (l : list Z) (isn : bool) (p : Z) : bool * Z :=
  match l with [] => (isn, p) | _ => (true, last l 0) end.

Lemma tail_ptr_cons a l isn p : tail_ptr (a :: l) isn p = tail_ptr l true a.
Proof. destruct l; reflexivity. Qed.

Lemma add_walk_chain nxm : forall val l, chain (tget nxm) val l -> (forall x, In x l -> in_range x = true) ->
  forall fuel isn p, (length l < fuel)%nat -> add_walk fuel nxm isn p val = Ok (Some (tail_ptr l isn p)).
Proof.
  induction 1 as [|a l Ha Hc IH]; intros Hr fuel isn p Hf; (destruct fuel as [|f]; [cbn in Hf; lia|]); cbn [add_walk].
  - reflexivity.
  - destruct (Z.eqb_spec a (-1)); [contradiction|]. rewrite (Hr a (or_introl eq_refl)).
    rewrite IH; [rewrite tail_ptr_cons; reflexivity| |cbn in Hf; lia]. intros x Hx. apply Hr. right. exact Hx.
Qed.

Lemma rm_walk_absent nxm slot : forall val l, chain (tget nxm) val l -> ~ In slot l -> (forall x, In x l -> in_range x = true) ->
  forall fuel isn p, (length l < fuel)%nat -> rm_walk fuel nxm slot isn p val = Ok (Some (tail_ptr l isn p, -1)).
Proof.
  induction 1 as [|a l Ha Hc IH]; intros Hni Hr fuel isn p Hf; (destruct fuel as [|f]; [cbn in Hf; lia|]); cbn [rm_walk].
  - reflexivity.
  - destruct (Z.eqb_spec a (-1)); [contradiction|]. destruct (Z.eqb_spec a slot) as [->|Hne]; [exfalso; apply Hni; left; reflexivity|].
    cbn [orb]. rewrite (Hr a (or_introl eq_refl)).
    rewrite IH; [rewrite tail_ptr_cons; reflexivity| | |cbn in Hf; lia].
    + intros Hin. apply Hni. right. exact Hin.
    + intros x Hx. apply Hr. right. exact Hx.
Qed.

Lemma rm_walk_found nxm slot : forall l1 val l2, chain (tget nxm) val (l1 ++ slot :: l2) -> ~ In slot l1 ->
  (forall x, In x l1 -> in_range x = true) ->
  forall fuel isn p, (length l1 < fuel)%nat -> rm_walk fuel nxm slot isn p val = Ok (Some (tail_ptr l1 isn p, slot)).
Proof.
  induction l1 as [|a l1 IH]; intros val l2 Hc Hni Hr fuel isn p Hf; (destruct fuel as [|f]; [cbn in Hf; lia|]); cbn [rm_walk app] in *.
  - inversion Hc; subst. rewrite Z.eqb_refl, orb_true_r. reflexivity.
  - inversion Hc as [|? ? Ha Hc']; subst.
    destruct (Z.eqb_spec a (-1)); [contradiction|]. destruct (Z.eqb_spec a slot) as [->|Hne]; [exfalso; apply Hni; left; reflexivity|].
    cbn [orb]. rewrite (Hr a (or_introl eq_refl)).
    rewrite (IH _ l2); [rewrite tail_ptr_cons; reflexivity|exact Hc'| | |cbn in Hf; lia].
    + intros Hin. apply Hni. right. exact Hin.
    + intros x Hx. apply Hr. right. exact Hx.
Qed.

Lemma load_walk_chain nxm onfly i : forall val l, chain (tget nxm) val l -> (forall x, In x l -> in_range x = true) ->
  forall fuel isn p, (length l < fuel)%nat ->
  load_walk fuel nxm onfly i isn p val = Ok (if onfly && existsb (fun x => x =? i) l then None else Some (tail_ptr l isn p)).
Proof.
  induction 1 as [|a l Ha Hc IH]; intros Hr fuel isn p Hf; (destruct fuel as [|f]; [cbn in Hf; lia|]); cbn [load_walk].
  - cbn [existsb]. rewrite andb_false_r. reflexivity.
  - rewrite (Hr a (or_introl eq_refl)). cbn [existsb].
    destruct onfly; cbn [andb].
    + destruct (a =? i); cbn [orb]; [reflexivity|].
      rewrite IH; [rewrite tail_ptr_cons; reflexivity| |cbn in Hf; lia]. intros x Hx. apply Hr. right. exact Hx.
    + rewrite IH; [rewrite tail_ptr_cons; reflexivity| |cbn in Hf; lia]. intros x Hx. apply Hr. right. exact Hx.
Qed.

Definition hd (s : st) : Z -> Z := tget (head s).
Definition nx (s : st) : Z -> Z := tget (next s).
Definition idf (s : st) : Z -> list Z := tget (ids s).

Lemma search_walk_chain s q : forall val l, chain (nx s) val l -> (forall x, In x l -> in_range x = true) ->
  forall fuel, (length l <= fuel)%nat ->
  search_walk fuel s q val = Ok (match find (fun x => id_eq_ci q (idf s x)) l with Some x => x + 1 | None => 0 end).
Proof.
  induction 1 as [|a l Ha Hc IH]; intros Hr fuel Hf.
  - destruct fuel; reflexivity.
  - destruct fuel as [|f]; [cbn in Hf; lia|]. cbn [search_walk find].
    pose proof (Hr a (or_introl eq_refl)) as Hra. apply in_range_spec in Hra.
    destruct (Z.eqb_spec a (-1)); [contradiction|]. destruct (Z.leb_spec MAXU a); [lia|]. cbn [orb].
    destruct (Z.ltb_spec a 0); [lia|]. fold (idf s a). destruct (id_eq_ci q (idf s a)); [reflexivity|].
    apply IH; [|cbn in Hf; lia]. intros x Hx. apply Hr. right. exact Hx.
Qed.

Lemma check_walk_wf s h : forall val l, chain (nx s) val l ->
  (forall x, In x l -> in_range x = true /\ uhash (idf s x) = h) ->
  forall fuel isn p, (length l < fuel)%nat -> check_walk fuel s h isn p val = Ok s.
Proof.
  induction 1 as [|a l Ha Hc IH]; intros Hr fuel isn p Hf; (destruct fuel as [|f]; [cbn in Hf; lia|]); cbn [check_walk].
  - reflexivity.
  - destruct (Hr a (or_introl eq_refl)) as [Hra Hha]. apply in_range_spec in Hra.
    destruct (Z.eqb_spec a (-1)); [contradiction|].
    destruct (Z.ltb_spec a (-1)); [lia|]. destruct (Z.leb_spec MAXU a); [lia|]. cbn [orb].
    fold (idf s a). rewrite Hha, Z.eqb_refl. cbn [negb].
    apply IH; [|cbn in Hf; lia]. intros x Hx. apply Hr. right. exact Hx.
Qed.

(* ------------------------------------------------------------------ the invariant on states *)
Definition WF (s : st) : Prop := WFf (hd s) (nx s) (idf s).
Definition on_chain (s : st) (x : Z) : Prop := on_chainf (hd s) (nx s) x.

(* what WF gives for one bucket *)
Lemma WF_bucket s h : WF s -> hash_ok h -> exists l, chain (nx s) (hd s h) l /\ NoDup l /\
  (forall x, In x l -> in_range x = true) /\ (forall x, In x l -> uhash (idf s x) = h) /\ (length l <= Z.to_nat MAXU)%nat.
Proof.
  intros W Hh. destruct (W h Hh) as [l [Hc [Hnd Hx]]]. exists l. split; [exact Hc|]. split; [exact Hnd|].
  assert (Hr : forall x, In x l -> in_range x = true) by (intros x Hin; apply (Hx x Hin)).
  split; [exact Hr|]. split; [intros x Hin; apply (Hx x Hin)|]. apply range_len_bound; assumption.
Qed.

(* a slot that is on a chain is on the chain of its id's bucket *)
Lemma on_chain_own_bucket s x : WF s -> on_chain s x -> exists l, chain (nx s) (hd s (uhash (idf s x))) l /\ In x l.
Proof.
  intros W [h [l [Hh [Hc Hin]]]]. pose proof (WFf_on_chain_bucket _ _ _ x h l W Hh Hc Hin) as E. rewrite E. exists l. auto.
Qed.

(* the state after linking [slot] behind the tail of bucket h (l0 = the chain of h) *)
Definition link_state (s1 : st) (l0 : list Z) (h slot : Z) : st :=
  set_next (set_link s1 (fst (tail_ptr l0 false h)) (snd (tail_ptr l0 false h)) slot) slot (-1).

Lemma link_state_wf s s1 slot h l0 : WF s -> in_range slot = true -> ~ on_chain s slot -> hash_ok h ->
  head s1 = head s -> next s1 = next s -> uhash (idf s1 slot) = h -> (forall x, x <> slot -> idf s1 x = idf s x) ->
  chain (nx s) (hd s h) l0 ->
  let s' := link_state s1 l0 h slot in
  WF s' /\ (forall x, idf s' x = idf s1 x) /\ (forall x, on_chain s' x <-> on_chain s x \/ x = slot) /\
  number s' = number s1 /\ loaded s' = loaded s1.
Proof.
  intros W Hr Hfree Hh Eh En Hid Hoth Hc s'.
  destruct (WFf_link (hd s) (nx s) (idf s) (idf s1) slot h l0 W Hr Hfree Hh Hid Hoth Hc) as [W' [_ Hon]].
  assert (Ehd : forall x, (if match l0 with [] => true | _ => false end then upd (hd s) h slot else hd s) x = hd s' x).
  { intros x. subst s'. unfold link_state, hd. destruct l0 as [|a l0]; cbn [tail_ptr fst snd set_link set_next set_head head].
    - rewrite Eh. rewrite tget_tset. reflexivity.
    - rewrite Eh. reflexivity. }
  assert (Enx : forall x, (if match l0 with [] => true | _ => false end then upd (nx s) slot (-1) else upd (upd (nx s) (last l0 0) slot) slot (-1)) x = nx s' x).
  { intros x. subst s'. unfold link_state, nx. destruct l0 as [|a l0]; cbn [tail_ptr fst snd set_link set_next set_head next].
    - rewrite En. rewrite tget_tset. reflexivity.
    - rewrite En. rewrite !tget_tset. reflexivity. }
  assert (Eid : forall x, idf s1 x = idf s' x).
  { intros x. subst s'. unfold link_state, idf. destruct (fst (tail_ptr l0 false h)); reflexivity. }
  split; [exact (WFf_ext _ _ _ _ _ _ Ehd Enx Eid W')|].
  split; [intros x; symmetry; apply Eid|].
  split.
  - intros x. unfold on_chain. rewrite <- Hon.
    split; [apply on_chainf_ext; intros y; symmetry; [apply Ehd|apply Enx]|apply on_chainf_ext; intros y; [apply Ehd|apply Enx]].
  - subst s'. unfold link_state. destruct (fst (tail_ptr l0 false h)); split; reflexivity.
Qed.

(* ------------------------------------------------------------------ AddToUHash *)
Lemma add_wf s slot id : WF s -> in_range slot = true -> ~ on_chain s slot ->
  exists s', add_to_uhash s slot id = Ok (s', 0) /\ WF s' /\ idf s' slot = id /\ (forall x, x <> slot -> idf s' x = idf s x) /\
    (forall x, on_chain s' x <-> on_chain s x \/ x = slot) /\ number s' = number s /\ loaded s' = loaded s.
Proof.
  intros W Hr Hfree. unfold add_to_uhash. rewrite Hr. cbn [negb]. cbv zeta.
  set (h := uhash id). set (s1 := set_id s slot id).
  destruct (WF_bucket s h W (uhash_ok HK id)) as [l0 [Hc [Hnd [Hrange [_ _]]]]].
  assert (Hni : ~ In slot l0) by (intros Hin; apply Hfree; exists h, l0; split; [apply (uhash_ok HK)|auto]).
  pose proof (range_len_bound_strict l0 slot Hnd Hrange Hr Hni) as Hlen.
  change (next s1) with (next s). change (tget (head s1) h) with (hd s h).
  rewrite (FUEL_MAXU_eq HK). rewrite (add_walk_chain (next s) (hd s h) l0 Hc Hrange (Z.to_nat MAXU) false h Hlen).
  assert (Hid1 : idf s1 slot = id) by (unfold idf, s1; cbn [set_id ids]; apply tget_tset_same).
  assert (Hoth1 : forall x, x <> slot -> idf s1 x = idf s x) by (intros x Hx; unfold idf, s1; cbn [set_id ids]; apply tget_tset_other; exact Hx).
  destruct (link_state_wf s s1 slot h l0 W Hr Hfree (uhash_ok HK id) eq_refl eq_refl) as [W' [Hids [Hon [Hn Hl]]]];
    [rewrite Hid1; reflexivity|exact Hoth1|exact Hc|].
  exists (link_state s1 l0 h slot). split.
  - unfold link_state. destruct (tail_ptr l0 false h) as [isn p]. reflexivity.
  - split; [exact W'|]. split; [rewrite Hids; exact Hid1|]. split; [intros x Hx; rewrite Hids; apply Hoth1; exact Hx|].
    split; [exact Hon|]. split; assumption.
Qed.

(* ------------------------------------------------------------------ RemoveFromUHash *)
Lemma in_split_first (x : Z) : forall l, In x l -> exists l1 l2, l = l1 ++ x :: l2 /\ ~ In x l1.
Proof.
  induction l as [|a l IH]; intros Hin; [destruct Hin|].
  destruct (Z.eq_dec a x) as [->|Hne].
  - exists [], l. split; [reflexivity|intros []].
  - destruct Hin as [E|Hin]; [contradiction|]. destruct (IH Hin) as [l1 [l2 [E Hni]]]. exists (a :: l1), l2. split.
    + rewrite E. reflexivity.
    + intros [E'|Hin']; [contradiction|auto].
Qed.

Lemma remove_wf s slot : WF s -> in_range slot = true ->
  exists s', remove_from_uhash s slot = Ok (s', 0) /\ WF s' /\ (forall x, idf s' x = idf s x) /\
    (forall x, on_chain s' x <-> on_chain s x /\ x <> slot) /\ number s' = number s /\ loaded s' = loaded s.
Proof.
  intros W Hr. unfold remove_from_uhash. rewrite Hr. cbn [negb]. cbv zeta.
  fold (idf s slot). set (h := uhash (idf s slot)).
  destruct (WF_bucket s h W (uhash_ok HK _)) as [l0 [Hc [Hnd [Hrange [_ Hlen0]]]]].
  fold (hd s h).
  destruct (in_dec Z.eq_dec slot l0) as [Hin|Hni].
  - destruct (in_split_first slot l0 Hin) as [l1 [l2 [E Hni1]]]. subst l0.
    assert (Hr1 : forall x, In x l1 -> in_range x = true) by (intros x Hx; apply Hrange; apply in_or_app; left; exact Hx).
    assert (Hlen1 : (length l1 < FUEL_MAXU)%nat).
    { rewrite (FUEL_MAXU_eq HK). rewrite app_length in Hlen0. cbn [length] in Hlen0. lia. }
    rewrite (rm_walk_found (next s) slot l1 (hd s h) l2 Hc Hni1 Hr1 FUEL_MAXU false h Hlen1).
    rewrite Z.eqb_refl.
    destruct (WFf_unlink HK (hd s) (nx s) (idf s) slot l1 l2 W Hc) as [W' Hon].
    set (s' := set_link s (fst (tail_ptr l1 false h)) (snd (tail_ptr l1 false h)) (tget (next s) slot)).
    assert (Ehd : forall x, (if match l1 with [] => true | _ => false end then upd (hd s) (uhash (idf s slot)) (nx s slot) else hd s) x = hd s' x).
    { intros x. subst s'. unfold hd, nx. destruct l1 as [|a l1]; cbn [tail_ptr fst snd set_link set_next set_head head].
      - rewrite tget_tset. reflexivity.
      - reflexivity. }
    assert (Enx : forall x, (if match l1 with [] => true | _ => false end then nx s else upd (nx s) (last l1 0) (nx s slot)) x = nx s' x).
    { intros x. subst s'. unfold nx. destruct l1 as [|a l1]; cbn [tail_ptr fst snd set_link set_next set_head next].
      - reflexivity.
      - rewrite tget_tset. reflexivity. }
    assert (Eid : forall x, idf s x = idf s' x) by (intros x; subst s'; unfold idf; destruct (fst (tail_ptr l1 false h)); reflexivity).
    exists s'. split; [subst s'; destruct (tail_ptr l1 false h); reflexivity|].
    split; [exact (WFf_ext _ _ _ _ _ _ Ehd Enx Eid W')|]. split; [intros x; symmetry; apply Eid|]. split.
    + intros x. unfold on_chain. rewrite <- Hon.
    split; [apply on_chainf_ext; intros y; symmetry; [apply Ehd|apply Enx]|apply on_chainf_ext; intros y; [apply Ehd|apply Enx]].
    + subst s'. destruct (fst (tail_ptr l1 false h)); split; reflexivity.
  - assert (Hlen : (length l0 < FUEL_MAXU)%nat) by (rewrite (FUEL_MAXU_eq HK); apply range_len_bound_strict with (slot := slot); assumption).
    rewrite (rm_walk_absent (next s) slot (hd s h) l0 Hc Hni Hrange FUEL_MAXU false h Hlen).
    apply in_range_spec in Hr. destruct (Z.eqb_spec (-1) slot); [lia|]. destruct (tail_ptr l0 false h) as [isn0 p0].
    exists s. split; [reflexivity|]. split; [exact W|]. split; [reflexivity|]. split; [|split; reflexivity].
    intros x. split; [|intros [H _]; exact H]. intros Hon. split; [exact Hon|]. intros ->.
    destruct (on_chain_own_bucket s slot W Hon) as [l [Hc' Hin']]. fold h in Hc'.
    rewrite (chain_fun _ _ _ Hc' _ Hc) in Hin'. contradiction.
Qed.

(* ------------------------------------------------------------------ SetUserID *)
Lemma set_wf s uid id : WF s -> 1 <= uid <= MAXU ->
  exists s', set_user_id s uid id = Ok (s', 0) /\ WF s' /\ idf s' (uid - 1) = id /\ (forall x, x <> uid - 1 -> idf s' x = idf s x) /\
    (forall x, on_chain s' x <-> on_chain s x \/ x = uid - 1) /\ number s' = number s /\ loaded s' = loaded s.
Proof.
  intros W Hu. unfold set_user_id.
  destruct (Z.leb_spec uid 0); [lia|]. destruct (Z.ltb_spec MAXU uid); [lia|]. cbn [orb].
  assert (Hr : in_range (uid - 1) = true) by (apply in_range_spec; lia).
  destruct (remove_wf s (uid - 1) W Hr) as [s1 [E1 [W1 [Hid1 [Hon1 [Hn1 Hl1]]]]]]. rewrite E1.
  assert (Hfree : ~ on_chain s1 (uid - 1)) by (intros Hx; apply Hon1 in Hx; destruct Hx as [_ Hx]; congruence).
  destruct (add_wf s1 (uid - 1) id W1 Hr Hfree) as [s2 [E2 [W2 [Hid2 [Hoth2 [Hon2 [Hn2 Hl2]]]]]]]. rewrite E2.
  exists s2. split; [reflexivity|]. split; [exact W2|]. split; [exact Hid2|].
  split; [intros x Hx; rewrite Hoth2 by exact Hx; apply Hid1|]. split; [|split; congruence].
  intros x. rewrite Hon2, Hon1. destruct (Z.eq_dec x (uid - 1)); tauto.
Qed.

Lemma set_invalid s uid id : ~ (1 <= uid <= MAXU) -> set_user_id s uid id = Ok (s, ERR_INVALID_UID).
Proof.
  intros H. unfold set_user_id. destruct (Z.leb_spec uid 0); [reflexivity|]. destruct (Z.ltb_spec MAXU uid); [reflexivity|]. lia.
Qed.

(* ------------------------------------------------------------------ lookups *)
Lemma do_search_spec s q : WF s -> exists l, chain (nx s) (hd s (uhash q)) l /\
  (forall x, In x l -> in_range x = true /\ uhash (idf s x) = uhash q) /\
  do_search_user_raw s q = Ok (match find (fun x => id_eq_ci q (idf s x)) l with Some x => x + 1 | None => 0 end).
Proof.
  intros W. destruct (WF_bucket s (uhash q) W (uhash_ok HK q)) as [l [Hc [Hnd [Hrange [Hh Hlen]]]]].
  exists l. split; [exact Hc|]. split; [intros x Hin; split; auto|].
  unfold do_search_user_raw. fold (hd s (uhash q)). rewrite (FUEL_MAXU_eq HK). apply search_walk_chain; assumption.
Qed.

Lemma find_unique {A} (p : A -> bool) x : forall l, In x l -> p x = true -> (forall y, In y l -> p y = true -> y = x) -> find p l = Some x.
Proof.
  induction l as [|a l IH]; intros Hin Hp Hu; [destruct Hin|]. cbn [find].
  destruct (p a) eqn:E.
  - f_equal. apply Hu; [left; reflexivity|exact E].
  - destruct Hin as [->|Hin]; [congruence|]. apply IH; [exact Hin|exact Hp|]. intros y Hy. apply Hu. right. exact Hy.
Qed.

(* a lookup that answers uid <> 0 names a slot that is in the index and holds the queried id up to letter case *)
Lemma search_sound s q v : WF s -> do_search_user_raw s q = Ok v -> v <> 0 ->
  in_range (v - 1) = true /\ on_chain s (v - 1) /\ id_eq_ci q (idf s (v - 1)) = true.
Proof.
  intros W E Hv. destruct (do_search_spec s q W) as [l [Hc [Hx Es]]]. rewrite Es in E. inversion E as [Ev]. clear E.
  destruct (find (fun x => id_eq_ci q (idf s x)) l) as [x|] eqn:F; [|congruence].
  apply find_some in F. destruct F as [Hin Hp]. replace (x + 1 - 1) with x by lia.
  split; [apply (Hx x Hin)|]. split; [|exact Hp]. exists (uhash q), l. split; [apply (uhash_ok HK)|auto].
Qed.

(* distinct up to case: no other indexed slot holds x's id in any letter case *)
Definition unique_ci (s : st) (x : Z) : Prop := forall y, on_chain s y -> id_eq_ci (idf s y) (idf s x) = true -> y = x.

(* any letter case of an id held by an indexed slot finds that slot *)
Lemma search_complete s x q : WF s -> on_chain s x -> unique_ci s x -> id_eq_ci q (idf s x) = true ->
  do_search_user_raw s q = Ok (x + 1).
Proof.
  intros W Hon Hu Hq. destruct (do_search_spec s q W) as [l [Hc [Hx Es]]]. rewrite Es.
  destruct (on_chain_own_bucket s x W Hon) as [l' [Hc' Hin']].
  rewrite <- (id_eq_ci_hash q (idf s x) Hq) in Hc'. rewrite (chain_fun _ _ _ Hc' _ Hc) in Hin'.
  rewrite (find_unique _ x l Hin' Hq); [reflexivity|].
  intros y Hy Hpy. apply Hu; [exists (uhash q), l; split; [apply (uhash_ok HK)|auto]|].
  apply id_eq_ci_trans with (b := q); [apply id_eq_ci_sym; exact Hpy|exact Hq].
Qed.

(* an id held by no indexed slot (in any letter case) is not found *)
Lemma search_absent s q : WF s -> (forall y, on_chain s y -> id_eq_ci q (idf s y) = false) -> do_search_user_raw s q = Ok 0.
Proof.
  intros W Hno. destruct (do_search_spec s q W) as [l [Hc [Hx Es]]]. rewrite Es.
  destruct (find (fun x => id_eq_ci q (idf s x)) l) as [x|] eqn:F; [|reflexivity].
  apply find_some in F. destruct F as [Hin Hp]. rewrite Hno in Hp; [discriminate|].
  exists (uhash q), l. split; [apply (uhash_ok HK)|auto].
Qed.

(* SearchUserRaw: the empty id is answered 0 without a walk, everything else is DoSearchUserRaw *)
Lemma search_user_raw_nonempty s q : nth 0 q 0 <> 0 -> search_user_raw s q = do_search_user_raw s q.
Proof. intros H. unfold search_user_raw. destruct (Z.eqb_spec (nth 0 q 0) 0); [contradiction|reflexivity]. Qed.
Lemma search_user_raw_empty s q : nth 0 q 0 = 0 -> search_user_raw s q = Ok 0.
Proof. intros H. unfold search_user_raw. rewrite H. reflexivity. Qed.

Local Notation MAXU_pos := (MAXU_pos HK).

(* termination: under WF no walk crashes or runs out of fuel *)
Lemma search_total s q : WF s -> exists v, search_user_raw s q = Ok v /\ 0 <= v <= MAXU.
Proof.
  intros W. unfold search_user_raw. destruct (nth 0 q 0 =? 0); [exists 0; split; [reflexivity|]; pose proof MAXU_pos; lia|].
  destruct (do_search_spec s q W) as [l [Hc [Hx Es]]]. rewrite Es.
  destruct (find (fun x => id_eq_ci q (idf s x)) l) as [x|] eqn:F.
  - exists (x + 1). split; [reflexivity|]. apply find_some in F. destruct F as [Hin _]. destruct (Hx x Hin) as [Hr _]. apply in_range_spec in Hr. lia.
  - exists 0. split; [reflexivity|]. pose proof MAXU_pos. lia.
Qed.

(* ------------------------------------------------------------------ cold load *)
Lemma lenZ_cons {A} (a : A) l : lenZ (a :: l) = 1 + lenZ l.
Proof. unfold lenZ. cbn [length]. lia. Qed.

Definition fresh_from (s : st) (i : Z) : Prop := forall x, i <= x -> ~ on_chain s x.

Lemma fuel_loader_ok (l : list Z) : (length l <= Z.to_nat MAXU)%nat -> (length l < FUEL_LOADER)%nat.
Proof. rewrite (FUEL_LOADER_eq HK). lia. Qed.

Lemma userec_add_cold s cnt i id : WF s -> in_range i = true -> ~ on_chain s i ->
  exists s' cnt', userec_add s cnt i id false = Ok (s', cnt') /\ WF s' /\ (forall x, on_chain s' x -> on_chain s x \/ x = i).
Proof.
  intros W Hr Hfree. unfold userec_add. cbv zeta.
  destruct (negb (is_valid_id id) && (PREALLOC <? (if is_valid_id id then cnt else cnt + 1))).
  - eexists. eexists. split; [reflexivity|]. split; [exact W|]. intros x Hx. left. exact Hx.
  - rewrite Hr. cbn [negb orb].
    set (h := uhash id). set (s1 := set_id s i id).
    destruct (WF_bucket s h W (uhash_ok HK id)) as [l0 [Hc [Hnd [Hrange [_ Hlen]]]]].
    change (next s1) with (next s). change (tget (head s1) h) with (hd s h).
    rewrite (load_walk_chain (next s) false i (hd s h) l0 Hc Hrange FUEL_LOADER false h (fuel_loader_ok l0 Hlen)).
    cbn [andb].
    assert (Hid1 : idf s1 i = id) by (unfold idf, s1; cbn [set_id ids]; apply tget_tset_same).
    assert (Hoth1 : forall x, x <> i -> idf s1 x = idf s x) by (intros x Hx; unfold idf, s1; cbn [set_id ids]; apply tget_tset_other; exact Hx).
    destruct (link_state_wf s s1 i h l0 W Hr Hfree (uhash_ok HK id) eq_refl eq_refl) as [W' [_ [Hon _]]];
      [rewrite Hid1; reflexivity|exact Hoth1|exact Hc|].
    exists (link_state s1 l0 h i). eexists. split.
    + unfold link_state. destruct (tail_ptr l0 false h) as [isn p]. reflexivity.
    + split; [exact W'|]. intros x Hx. apply Hon. exact Hx.
Qed.

Lemma fill_records_cold : forall recs s cnt i, WF s -> 0 <= i -> i + lenZ recs <= MAXU -> fresh_from s i ->
  exists s', fill_records s cnt i recs false = Ok s' /\ WF s' /\ number s' = number s /\ loaded s' = loaded s.
Proof.
  induction recs as [|id r IH]; intros s cnt i W Hi Hlen Hfresh; cbn [fill_records].
  - exists s. auto.
  - rewrite lenZ_cons in Hlen. assert (Hl0 : 0 <= lenZ r) by (unfold lenZ; lia).
    assert (Hr : in_range i = true) by (apply in_range_spec; lia).
    destruct (userec_add_cold s cnt i id W Hr (Hfresh i (Z.le_refl i))) as [s1 [cnt1 [E [W1 Hon]]]]. rewrite E.
    assert (Hns : number s1 = number s /\ loaded s1 = loaded s).
    { clear - E. unfold userec_add in E. cbv zeta in E.
      destruct (negb (is_valid_id id) && _); [inversion E; auto|]. destruct (negb (in_range i)); [discriminate|].
      cbn [negb orb] in E. destruct (load_walk _ _ _ _ _ _ _) as [[[isn p]|]| |]; inversion E; subst; [|auto].
      destruct isn; auto. }
    destruct (IH s1 cnt1 (i + 1) W1) as [s' [E' [W' [Hn Hl]]]]; [lia|lia| |].
    + intros x Hx Hon'. destruct (Hon x Hon') as [H|H]; [apply (Hfresh x); [lia|exact H]|lia].
    + exists s'. split; [exact E'|]. split; [exact W'|]. destruct Hns. split; congruence.
Qed.

Local Notation HASHN_pos := (HASHN_pos HK).

(* fillUHash(false) from ANY state, garbage included *)
Lemma fill_cold_wf s recs : lenZ recs <= MAXU ->
  exists s1, fill_uhash s recs false = Ok s1 /\ WF s1 /\ number s1 = lenZ recs /\ loaded s1 = loaded s.
Proof.
  intros Hlen. unfold fill_uhash, init_fill.
  set (s0 := mkst (tconst (-1)) (next s) (ids s) (number s) (loaded s)).
  assert (Hd0 : forall h, hd s0 h = -1) by (intros h; unfold hd, s0; cbn [head]; apply tget_tconst).
  assert (W0 : WF s0).
  { intros h Hh. exists []. rewrite Hd0. split; [constructor|]. split; [constructor|]. intros x []. }
  assert (F0 : fresh_from s0 0).
  { intros x _ [h [l [Hh [Hc Hin]]]]. rewrite Hd0 in Hc. inversion Hc; subst; [destruct Hin|congruence]. }
  destruct (fill_records_cold recs s0 0 0 W0 (Z.le_refl 0)) as [s1 [E [W1 [Hn Hl]]]]; [lia|exact F0|].
  rewrite E. eexists. split; [reflexivity|]. split; [exact W1|]. split; [reflexivity|]. cbn [loaded]. rewrite Hl. reflexivity.
Qed.

Lemma cold_load_wf s0 recs : lenZ recs <= MAXU ->
  exists s', load_uhash (unload s0) recs = Ok s' /\ WF s' /\ number s' = lenZ recs /\ loaded s' = 1.
Proof.
  intros Hlen. unfold load_uhash.
  change (number (unload s0)) with 0. change (loaded (unload s0)) with 0. cbn [Z.eqb andb].
  destruct (fill_cold_wf (unload s0) recs Hlen) as [s1 [E [W1 [Hn _]]]]. rewrite E.
  eexists. split; [reflexivity|]. split; [exact W1|]. split; [exact Hn|reflexivity].
Qed.

(* ... and the index it builds is the file's. The loader's cap: a record WITHOUT a valid id (a free slot) is filed only while at most PRE_ALLOCATED_USERS
   such records have been seen; a record WITH a valid id is always filed. [filed cnt recs] says, record by record, whether the loader files it when cnt
   records without a valid id precede the list. *)
Definition skips (cnt : Z) (id : list Z) : bool := negb (is_valid_id id) && (PREALLOC <? cnt + 1).
Definition cnt_after (cnt : Z) (id : list Z) : Z := if is_valid_id id then cnt else cnt + 1.
Fixpoint filed (cnt : Z) (recs : list (list Z)) : list bool :=
  match recs with [] => [] | id :: r => negb (skips cnt id) :: filed (cnt_after cnt id) r end.

Lemma userec_add_cond cnt id :
  negb (is_valid_id id) && (PREALLOC <? (if is_valid_id id then cnt else cnt + 1)) = skips cnt id.
Proof. unfold skips. destruct (is_valid_id id); reflexivity. Qed.

Lemma userec_add_skip s cnt i id onfly : skips cnt id = true -> userec_add s cnt i id onfly = Ok (s, cnt_after cnt id).
Proof. intros H. unfold userec_add. cbv zeta. rewrite userec_add_cond, H. reflexivity. Qed.

(* a record with a valid id is filed whatever precedes it *)
Lemma filed_valid : forall recs cnt k id, nth_error recs k = Some id -> is_valid_id id = true -> nth k (filed cnt recs) false = true.
Proof.
  induction recs as [|a r IH]; intros cnt [|k] id E Hv; cbn [nth_error] in E; try discriminate; cbn [filed nth].
  - inversion E; subst a. unfold skips. rewrite Hv. reflexivity.
  - eapply IH; eassumption.
Qed.
(* no record is skipped while the cap cannot have been reached *)
Lemma filed_all_small : forall recs cnt k, cnt + lenZ recs <= PREALLOC -> (k < length recs)%nat -> nth k (filed cnt recs) false = true.
Proof.
  induction recs as [|a r IH]; intros cnt k Hle Hk; cbn [length] in Hk; [lia|]. rewrite lenZ_cons in Hle.
  assert (Hl0 : 0 <= lenZ r) by (unfold lenZ; lia).
  destruct k as [|k]; cbn [filed nth].
  - unfold skips. destruct (Z.ltb_spec PREALLOC (cnt + 1)); [lia|]. rewrite andb_false_r. reflexivity.
  - apply IH; [|lia]. unfold cnt_after. destruct (is_valid_id a); lia.
Qed.
(* a record that is not filed has no valid id and more than PRE_ALLOCATED_USERS records without one precede or are it *)
Lemma not_filed_invalid : forall recs cnt k id, nth_error recs k = Some id -> nth k (filed cnt recs) false = false -> is_valid_id id = false.
Proof.
  intros recs cnt k id E Hf. destruct (is_valid_id id) eqn:Hv; [|reflexivity]. rewrite (filed_valid recs cnt k id E Hv) in Hf. discriminate.
Qed.

Lemma userec_add_cold_exact s cnt i id : WF s -> in_range i = true -> ~ on_chain s i -> skips cnt id = false ->
  exists s', userec_add s cnt i id false = Ok (s', cnt_after cnt id) /\ WF s' /\ idf s' i = id /\ (forall x, x <> i -> idf s' x = idf s x) /\
    (forall x, on_chain s' x <-> on_chain s x \/ x = i) /\ number s' = number s /\ loaded s' = loaded s.
Proof.
  intros W Hr Hfree Hsk. unfold userec_add. cbv zeta. rewrite userec_add_cond, Hsk.
  rewrite Hr. cbn [negb orb].
  set (h := uhash id). set (s1 := set_id s i id).
  destruct (WF_bucket s h W (uhash_ok HK id)) as [l0 [Hc [Hnd [Hrange [_ Hlen]]]]].
  change (next s1) with (next s). change (tget (head s1) h) with (hd s h).
  rewrite (load_walk_chain (next s) false i (hd s h) l0 Hc Hrange FUEL_LOADER false h (fuel_loader_ok l0 Hlen)).
  cbn [andb].
  assert (Hid1 : idf s1 i = id) by (unfold idf, s1; cbn [set_id ids]; apply tget_tset_same).
  assert (Hoth1 : forall x, x <> i -> idf s1 x = idf s x) by (intros x Hx; unfold idf, s1; cbn [set_id ids]; apply tget_tset_other; exact Hx).
  destruct (link_state_wf s s1 i h l0 W Hr Hfree (uhash_ok HK id) eq_refl eq_refl) as [W' [Hids [Hon [Hn Hl]]]];
    [rewrite Hid1; reflexivity|exact Hoth1|exact Hc|].
  exists (link_state s1 l0 h i). split.
  - unfold link_state, cnt_after. destruct (tail_ptr l0 false h) as [isn p]. reflexivity.
  - split; [exact W'|]. split; [rewrite Hids; exact Hid1|]. split; [intros x Hx; rewrite Hids; apply Hoth1; exact Hx|].
    split; [exact Hon|]. split; assumption.
Qed.

Lemma fill_records_cold_exact : forall recs s cnt i, WF s -> 0 <= i -> i + lenZ recs <= MAXU -> fresh_from s i ->
  exists s', fill_records s cnt i recs false = Ok s' /\ WF s' /\
    (forall k id, nth_error recs k = Some id -> nth k (filed cnt recs) false = true -> idf s' (i + Z.of_nat k) = id) /\
    (forall x, (forall k, x = i + Z.of_nat k -> nth k (filed cnt recs) false = false) -> idf s' x = idf s x) /\
    (forall x, on_chain s' x <-> on_chain s x \/ exists k, x = i + Z.of_nat k /\ nth k (filed cnt recs) false = true) /\
    number s' = number s /\ loaded s' = loaded s.
Proof.
  induction recs as [|id r IH]; intros s cnt i W Hi Hlen Hfresh; cbn [fill_records filed].
  - exists s. split; [reflexivity|]. split; [exact W|]. split; [intros [|k] id0 E; discriminate|]. split; [reflexivity|].
    split; [|auto]. intros x. split; [auto|]. intros [H|[k [_ H]]]; [exact H|]. destruct k; discriminate.
  - rewrite lenZ_cons in Hlen. assert (Hl0 : 0 <= lenZ r) by (unfold lenZ; lia).
    assert (Hr : in_range i = true) by (apply in_range_spec; lia).
    assert (Hstep : exists s1, userec_add s cnt i id false = Ok (s1, cnt_after cnt id) /\ WF s1 /\
              (skips cnt id = false -> idf s1 i = id) /\ (forall x, x <> i \/ skips cnt id = true -> idf s1 x = idf s x) /\
              (forall x, on_chain s1 x <-> on_chain s x \/ (x = i /\ skips cnt id = false)) /\ number s1 = number s /\ loaded s1 = loaded s).
    { destruct (skips cnt id) eqn:Hsk.
      - exists s. split; [apply userec_add_skip; exact Hsk|]. split; [exact W|]. split; [discriminate|]. split; [reflexivity|].
        split; [|auto]. intros x. split; [auto|]. intros [H|[_ H]]; [exact H|discriminate].
      - destruct (userec_add_cold_exact s cnt i id W Hr (Hfresh i (Z.le_refl i)) Hsk) as [s1 [E [W1 [Hid1 [Hoth1 [Hon1 [Hn1 Hld1]]]]]]].
        exists s1. split; [exact E|]. split; [exact W1|]. split; [intros _; exact Hid1|].
        split; [intros x [Hx|Hx]; [apply Hoth1; exact Hx|discriminate]|].
        split; [|auto]. intros x. rewrite Hon1. split; [intros [H|H]; [left; exact H|right; auto]|intros [H|[H _]]; auto]. }
    destruct Hstep as [s1 [E [W1 [Hid1 [Hoth1 [Hon1 [Hn1 Hld1]]]]]]]. rewrite E.
    destruct (IH s1 (cnt_after cnt id) (i + 1) W1) as [s' [E' [W' [Hids [Hrest [Hon' [Hn Hl]]]]]]]; [lia|lia| |].
    + intros x Hx Hon. apply Hon1 in Hon. destruct Hon as [H|[H _]]; [apply (Hfresh x); [lia|exact H]|lia].
    + exists s'. split; [exact E'|]. split; [exact W'|]. split; [|split; [|split; [|split; congruence]]].
      * intros [|k] id0 Ek Hf; cbn [nth_error] in Ek; cbn [nth] in Hf.
        -- inversion Ek; subst id0. rewrite Z.add_0_r. rewrite Hrest.
           ++ apply Hid1. destruct (skips cnt id); [discriminate|reflexivity].
           ++ intros k Hk. lia.
        -- replace (i + Z.of_nat (S k)) with (i + 1 + Z.of_nat k) by lia. apply Hids; assumption.
      * intros x Hx. rewrite Hrest.
        -- apply Hoth1. destruct (Z.eq_dec x i) as [->|Hne]; [right|left; exact Hne].
           specialize (Hx 0%nat). cbn [nth] in Hx. rewrite Z.add_0_r in Hx. specialize (Hx eq_refl). destruct (skips cnt id); [reflexivity|discriminate].
        -- intros k Hk. specialize (Hx (S k)). cbn [nth] in Hx. apply Hx. lia.
      * intros x. rewrite Hon', Hon1. split.
        -- intros [[H|[H1 H2]]|[k [Hk Hf]]]; [left; exact H| |].
           ++ right. exists 0%nat. cbn [nth]. rewrite H2. split; [lia|reflexivity].
           ++ right. exists (S k). cbn [nth]. split; [lia|exact Hf].
        -- intros [H|[[|k] [Hk Hf]]]; try (cbn [nth] in Hf).
           ++ left. left. exact H.
           ++ left. right. split; [lia|]. destruct (skips cnt id); [discriminate|reflexivity].
           ++ right. exists k. split; [lia|exact Hf].
Qed.

(* the cold load in general: exactly the filed records are stored and indexed - every record with a valid id among them, wherever it is in the file and
   however many free records precede it - and nothing else *)
Lemma cold_load_general s0 recs : lenZ recs <= MAXU ->
  exists s', load_uhash (unload s0) recs = Ok s' /\ WF s' /\ number s' = lenZ recs /\ loaded s' = 1 /\
    (forall k id, nth_error recs k = Some id -> nth k (filed 0 recs) false = true -> idf s' (Z.of_nat k) = id /\ on_chain s' (Z.of_nat k)) /\
    (forall k id, nth_error recs k = Some id -> is_valid_id id = true -> idf s' (Z.of_nat k) = id /\ on_chain s' (Z.of_nat k)) /\
    (forall x, on_chain s' x -> exists k, x = Z.of_nat k /\ (k < length recs)%nat /\ nth k (filed 0 recs) false = true) /\
    (forall x, (forall k, x = Z.of_nat k -> nth k (filed 0 recs) false = false) -> idf s' x = idf s0 x).
Proof.
  intros Hlen. unfold load_uhash.
  change (number (unload s0)) with 0. change (loaded (unload s0)) with 0. cbn [Z.eqb andb].
  unfold fill_uhash, init_fill.
  set (s1 := mkst (tconst (-1)) (next (unload s0)) (ids (unload s0)) (number (unload s0)) (loaded (unload s0))).
  assert (Hd0 : forall h, hd s1 h = -1) by (intros h; unfold hd, s1; cbn [head]; apply tget_tconst).
  assert (W0 : WF s1).
  { intros h Hh. exists []. rewrite Hd0. split; [constructor|]. split; [constructor|]. intros x []. }
  assert (N0 : forall x, ~ on_chain s1 x).
  { intros x [h [l [Hh [Hc Hin]]]]. rewrite Hd0 in Hc. inversion Hc; subst; [destruct Hin|congruence]. }
  destruct (fill_records_cold_exact recs s1 0 0 W0 (Z.le_refl 0)) as [s2 [E [W2 [Hids [Hrest [Hon [Hn Hl]]]]]]]; [lia|intros x _; apply N0|].
  rewrite E. eexists. split; [reflexivity|]. split; [exact W2|]. split; [reflexivity|]. split; [reflexivity|].
  assert (Hfiled : forall k id, nth_error recs k = Some id -> nth k (filed 0 recs) false = true -> idf s2 (Z.of_nat k) = id /\ on_chain s2 (Z.of_nat k)).
  { intros k id Ek Hf. split; [apply (Hids k id Ek Hf)|]. apply Hon. right. exists k. split; [lia|exact Hf]. }
  split; [exact Hfiled|]. split; [intros k id Ek Hv; apply (Hfiled k id Ek); eapply filed_valid; eassumption|]. split.
  - intros x Hx. change (on_chain s2 x) in Hx. apply Hon in Hx. destruct Hx as [Hx|[k [Hk Hf]]]; [destruct (N0 x Hx)|].
    exists k. split; [lia|]. split; [|exact Hf].
    destruct (Nat.lt_ge_cases k (length recs)) as [H|H]; [exact H|]. rewrite nth_overflow in Hf; [discriminate|].
    clear - H. revert H. generalize 0. revert k. induction recs as [|a r IH]; intros k c H; cbn [filed length] in *; [lia|].
    destruct k; [lia|]. specialize (IH k (cnt_after c a)). lia.
  - intros x Hx. change (idf s2 x = idf s1 x). apply Hrest. intros k Hk. apply Hx. lia.
Qed.

(* when the file has at most PRE_ALLOCATED_USERS records (in particular in every configuration with MAX_USERS <= PRE_ALLOCATED_USERS, the default build)
   nothing is skipped: record k sits in slot k, on a chain, and nothing else is indexed *)
Lemma cold_load_exact s0 recs : lenZ recs <= MAXU -> lenZ recs <= PREALLOC ->
  exists s', load_uhash (unload s0) recs = Ok s' /\ WF s' /\ number s' = lenZ recs /\ loaded s' = 1 /\
    (forall k id, nth_error recs k = Some id -> idf s' (Z.of_nat k) = id) /\
    (forall x, ~ (0 <= x < lenZ recs) -> idf s' x = idf s0 x) /\
    (forall x, on_chain s' x <-> 0 <= x < lenZ recs).
Proof.
  intros Hlen Hcap. destruct (cold_load_general s0 recs Hlen) as [s' [E [W [Hn [Hl [Hf [_ [Hon Hrest]]]]]]]].
  assert (Hall : forall k, (k < length recs)%nat -> nth k (filed 0 recs) false = true) by (intros k Hk; apply filed_all_small; [lia|exact Hk]).
  exists s'. split; [exact E|]. split; [exact W|]. split; [exact Hn|]. split; [exact Hl|]. split; [|split].
  - intros k id Ek. apply (Hf k id Ek). apply Hall. apply nth_error_Some. congruence.
  - intros x Hx. apply Hrest. intros k Hk. apply nth_overflow.
    assert (length (filed 0 recs) = length recs) by (clear; generalize 0; induction recs as [|a r IH]; intros c; cbn [filed length]; [reflexivity|rewrite IH; reflexivity]).
    unfold lenZ in Hx. lia.
  - intros x. split.
    + intros Hx. destruct (Hon x Hx) as [k [-> [Hk _]]]. unfold lenZ. lia.
    + intros Hx. unfold lenZ in Hx. destruct (nth_error recs (Z.to_nat x)) as [id|] eqn:Ek.
      * replace x with (Z.of_nat (Z.to_nat x)) by lia. apply (Hf _ id Ek). apply Hall. lia.
      * apply nth_error_None in Ek. lia.
Qed.

(* ------------------------------------------------------------------ reload into a populated segment *)
Lemma check_hash_wf s h : WF s -> hash_ok h -> check_hash s h = Ok s.
Proof.
  intros W Hh. destruct (WF_bucket s h W Hh) as [l [Hc [Hnd [Hrange [Hhash Hlen]]]]].
  unfold check_hash. fold (hd s h). apply (check_walk_wf s h (hd s h) l Hc); [|apply fuel_loader_ok; exact Hlen].
  intros x Hin. split; auto.
Qed.

Lemma check_from_wf s : WF s -> forall n h, 0 <= h -> h + Z.of_nat n <= HASHN -> check_from n h s = Ok s.
Proof.
  intros W. induction n as [|n IH]; intros h H0 Hn; cbn [check_from]; [reflexivity|].
  rewrite check_hash_wf; [|exact W|unfold hash_ok; lia]. apply IH; lia.
Qed.

Lemma userec_add_onfly s cnt i id : WF s -> in_range i = true -> cstr_eq id (idf s i) = true ->
  exists s' cnt', userec_add s cnt i id true = Ok (s', cnt') /\ WF s' /\ (forall x, idf s' x = idf s x) /\
    (forall x, on_chain s x -> on_chain s' x) /\ number s' = number s /\ loaded s' = loaded s /\
    cnt' = cnt_after cnt id /\ (skips cnt id = false -> on_chain s' i).
Proof.
  intros W Hr Heq. unfold userec_add. cbv zeta. rewrite userec_add_cond. fold (cnt_after cnt id).
  destruct (skips cnt id) eqn:Hsk.
  - eexists. eexists. split; [reflexivity|]. split; [exact W|]. repeat split; auto. discriminate.
  - rewrite Hr. cbn [negb orb]. fold (idf s i). rewrite Heq. cbn [negb].
    assert (Eh : uhash id = uhash (idf s i)) by (apply id_eq_ci_hash; apply cstr_eq_ci; exact Heq).
    set (h := uhash id) in *.
    destruct (WF_bucket s h W (uhash_ok HK id)) as [l0 [Hc [Hnd [Hrange [_ Hlen]]]]].
    fold (hd s h).
    rewrite (load_walk_chain (next s) true i (hd s h) l0 Hc Hrange FUEL_LOADER false h (fuel_loader_ok l0 Hlen)).
    cbn [andb]. destruct (existsb (fun x => x =? i) l0) eqn:Ex.
    + eexists. eexists. split; [reflexivity|]. split; [exact W|]. repeat split; auto. intros _.
      apply existsb_exists in Ex. destruct Ex as [x [Hin Hx]]. apply Z.eqb_eq in Hx. subst x. exists h, l0. split; [apply (uhash_ok HK)|auto].
    + assert (Hni : ~ In i l0).
      { intros Hin. assert (existsb (fun x => x =? i) l0 = true) by (apply existsb_exists; exists i; split; [exact Hin|apply Z.eqb_refl]). congruence. }
      assert (Hfree : ~ on_chain s i).
      { intros Hon. destruct (on_chain_own_bucket s i W Hon) as [l [Hc' Hin']]. rewrite <- Eh in Hc'.
        rewrite (chain_fun _ _ _ Hc' _ Hc) in Hin'. contradiction. }
      destruct (link_state_wf s s i h l0 W Hr Hfree (uhash_ok HK id) eq_refl eq_refl) as [W' [Hids [Hon [Hn Hl]]]];
        [symmetry; exact Eh|reflexivity|exact Hc|].
      exists (link_state s l0 h i). eexists. split.
      * unfold link_state. destruct (tail_ptr l0 false h) as [isn p]. reflexivity.
      * split; [exact W'|]. split; [exact Hids|]. split; [intros x Hx; apply Hon; left; exact Hx|]. split; [assumption|]. split; [assumption|].
        split; [reflexivity|]. intros _. apply Hon. right. reflexivity.
Qed.

Lemma fill_records_onfly : forall recs s cnt i, WF s -> 0 <= i -> i + lenZ recs <= MAXU ->
  (forall k id, nth_error recs k = Some id -> cstr_eq id (idf s (i + Z.of_nat k)) = true) ->
  exists s', fill_records s cnt i recs true = Ok s' /\ WF s' /\ (forall x, idf s' x = idf s x) /\
    (forall x, on_chain s x -> on_chain s' x) /\ number s' = number s /\ loaded s' = loaded s /\
    (forall k id, nth_error recs k = Some id -> nth k (filed cnt recs) false = true -> on_chain s' (i + Z.of_nat k)).
Proof.
  induction recs as [|id r IH]; intros s cnt i W Hi Hlen Hag; cbn [fill_records filed].
  - exists s. repeat split; auto. intros [|k] id0 E; discriminate.
  - rewrite lenZ_cons in Hlen. assert (Hl0 : 0 <= lenZ r) by (unfold lenZ; lia).
    assert (Hr : in_range i = true) by (apply in_range_spec; lia).
    pose proof (Hag 0%nat id eq_refl) as H0. cbn in H0. rewrite Z.add_0_r in H0.
    destruct (userec_add_onfly s cnt i id W Hr H0) as [s1 [cnt1 [E [W1 [Hid1 [Hon1 [Hn1 [Hl1 [Ec1 Hf1]]]]]]]]]. rewrite E. subst cnt1.
    destruct (IH s1 (cnt_after cnt id) (i + 1) W1) as [s' [E' [W' [Hid' [Hon' [Hn' [Hl' Hf']]]]]]]; [lia|lia| |].
    + intros k id' Hk. rewrite Hid1. replace (i + 1 + Z.of_nat k) with (i + Z.of_nat (S k)) by lia. apply Hag. exact Hk.
    + exists s'. split; [exact E'|]. split; [exact W'|]. split; [intros x; rewrite Hid'; apply Hid1|].
      split; [intros x Hx; apply Hon'; apply Hon1; exact Hx|]. split; [congruence|]. split; [congruence|].
      intros [|k] id0 Ek Hf; cbn [nth_error] in Ek; cbn [nth] in Hf.
      * rewrite Z.add_0_r. apply Hon'. apply Hf1. destruct (skips cnt id); [discriminate|reflexivity].
      * replace (i + Z.of_nat (S k)) with (i + 1 + Z.of_nat k) by lia. apply (Hf' k id0 Ek Hf).
Qed.

(* .PASSWDS agrees with the live table: record i carries (as a C string) the id the segment holds for slot i *)
Definition agrees (s : st) (recs : list (list Z)) : Prop :=
  forall k id, nth_error recs k = Some id -> cstr_eq id (idf s (Z.of_nat k)) = true.

Lemma fill_onfly_wf s recs : WF s -> lenZ recs <= MAXU -> agrees s recs ->
  exists s1, fill_uhash s recs true = Ok s1 /\ WF s1 /\ (forall x, idf s1 x = idf s x) /\
    (forall x, on_chain s x -> on_chain s1 x) /\ number s1 = lenZ recs /\ loaded s1 = loaded s /\
    (forall k id, nth_error recs k = Some id -> nth k (filed 0 recs) false = true -> on_chain s1 (Z.of_nat k)).
Proof.
  intros W Hlen Hag. unfold fill_uhash, init_fill.
  rewrite (check_from_wf s W); [|lia|pose proof HASHN_pos; rewrite Z2Nat.id; lia].
  destruct (fill_records_onfly recs s 0 0 W (Z.le_refl 0)) as [s1 [E [W1 [Hid [Hon [Hn [Hl Hf]]]]]]]; [lia|exact Hag|].
  rewrite E. eexists. split; [reflexivity|]. split; [exact W1|]. split; [exact Hid|]. split; [exact Hon|]. split; [reflexivity|]. split; [exact Hl|].
  intros k id Ek Hk. apply (Hf k id Ek Hk).
Qed.

(* LoadUHash on a WF state from an agreeing file: whichever branch the Number/Loaded test takes *)
Lemma reload_wf s recs : WF s -> lenZ recs <= MAXU -> agrees s recs ->
  exists s', load_uhash s recs = Ok s' /\ WF s' /\ number s' = lenZ recs.
Proof.
  intros W Hlen Hag. unfold load_uhash. destruct ((number s =? 0) && (loaded s =? 0)).
  - destruct (fill_cold_wf s recs Hlen) as [s1 [E [W1 [Hn _]]]]. rewrite E. eexists. split; [reflexivity|]. split; [exact W1|exact Hn].
  - destruct (fill_onfly_wf s recs W Hlen Hag) as [s1 [E [W1 [_ [_ [Hn _]]]]]]. exists s1. auto.
Qed.

(* a reload into a loaded segment keeps every id and every indexed slot *)
Lemma reload_keeps s recs : WF s -> loaded s <> 0 -> lenZ recs <= MAXU -> agrees s recs ->
  exists s', load_uhash s recs = Ok s' /\ WF s' /\ (forall x, idf s' x = idf s x) /\ (forall x, on_chain s x -> on_chain s' x).
Proof.
  intros W Hl Hlen Hag. unfold load_uhash. destruct (Z.eqb_spec (loaded s) 0); [contradiction|]. rewrite andb_false_r.
  destruct (fill_onfly_wf s recs W Hlen Hag) as [s1 [E [W1 [Hid [Hon _]]]]]. exists s1. auto.
Qed.

(* ... and every record with a valid id is on a chain afterwards - also one that was on none before (removed, or left out by an earlier load) - however many
   free records precede it in the file; its slot holds the record's id as a C string *)
Lemma reload_indexes_users s recs : WF s -> loaded s <> 0 -> lenZ recs <= MAXU -> agrees s recs ->
  exists s', load_uhash s recs = Ok s' /\ WF s' /\ (forall x, idf s' x = idf s x) /\ (forall x, on_chain s x -> on_chain s' x) /\
    (forall k id, nth_error recs k = Some id -> is_valid_id id = true -> on_chain s' (Z.of_nat k) /\ cstr_eq id (idf s' (Z.of_nat k)) = true).
Proof.
  intros W Hl Hlen Hag. unfold load_uhash. destruct (Z.eqb_spec (loaded s) 0); [contradiction|]. rewrite andb_false_r.
  destruct (fill_onfly_wf s recs W Hlen Hag) as [s1 [E [W1 [Hid [Hon [_ [_ Hf]]]]]]]. exists s1.
  split; [exact E|]. split; [exact W1|]. split; [exact Hid|]. split; [exact Hon|].
  intros k id Ek Hv. split; [apply (Hf k id Ek); eapply filed_valid; eassumption|]. rewrite Hid. apply (Hag k id Ek).
Qed.


(* ------------------------------------------------------------------ every history *)
Inductive reachable : st -> Prop :=
| r_cold s0 recs s : lenZ recs <= MAXU -> load_uhash (unload s0) recs = Ok s -> reachable s        (* from ANY prior content *)
| r_set s uid id s' e : reachable s -> set_user_id s uid id = Ok (s', e) -> reachable s'
| r_remove s slot s' e : reachable s -> in_range slot = true -> remove_from_uhash s slot = Ok (s', e) -> reachable s'
| r_add s slot id s' e : reachable s -> in_range slot = true -> ~ on_chain s slot -> add_to_uhash s slot id = Ok (s', e) -> reachable s'
| r_reload s recs s' : reachable s -> lenZ recs <= MAXU -> agrees s recs -> load_uhash s recs = Ok s' -> reachable s'.

Lemma reachable_wf s : reachable s -> WF s.
Proof.
  induction 1 as [s0 recs s Hlen E|s uid id s' e _ IH E|s slot s' e _ IH Hr E|s slot id s' e _ IH Hr Hfree E|s recs s' _ IH Hlen Hag E].
  - destruct (cold_load_wf s0 recs Hlen) as [s1 [E1 [W1 _]]]. rewrite E1 in E; inversion E; subst; exact W1.
  - destruct (Z_le_dec 1 uid) as [H1|H1]; [destruct (Z_le_dec uid MAXU) as [H2|H2]|].
    + destruct (set_wf s uid id IH (conj H1 H2)) as [s1 [E1 [W1 _]]]. rewrite E1 in E; inversion E; subst; exact W1.
    + rewrite set_invalid in E by lia. inversion E; subst. exact IH.
    + rewrite set_invalid in E by lia. inversion E; subst. exact IH.
  - destruct (remove_wf s slot IH Hr) as [s1 [E1 [W1 _]]]. rewrite E1 in E; inversion E; subst; exact W1.
  - destruct (add_wf s slot id IH Hr Hfree) as [s1 [E1 [W1 _]]]. rewrite E1 in E; inversion E; subst; exact W1.
  - destruct (reload_wf s recs IH Hlen Hag) as [s1 [E1 [W1 _]]]. rewrite E1 in E; inversion E; subst; exact W1.
Qed.

(* termination / no crash: from a WF state every operation returns *)
Lemma no_fuel_exhaustion s : WF s ->
  (forall q, exists v, search_user_raw s q = Ok v) /\
  (forall uid id, exists s' e, set_user_id s uid id = Ok (s', e)) /\
  (forall slot, in_range slot = true -> exists s', remove_from_uhash s slot = Ok (s', 0)) /\
  (forall slot id, in_range slot = true -> ~ on_chain s slot -> exists s', add_to_uhash s slot id = Ok (s', 0)) /\
  (forall recs, lenZ recs <= MAXU -> agrees s recs -> exists s', load_uhash s recs = Ok s') /\
  (forall h, hash_ok h -> exists l, chain (nx s) (hd s h) l /\ (length l <= Z.to_nat MAXU)%nat).
Proof.
  intros W. repeat split.
  - intros q. destruct (search_total s q W) as [v [E _]]. exists v. exact E.
  - intros uid id. destruct (Z_le_dec 1 uid) as [H1|H1]; [destruct (Z_le_dec uid MAXU) as [H2|H2]|].
    + destruct (set_wf s uid id W (conj H1 H2)) as [s1 [E1 _]]. exists s1, 0. exact E1.
    + exists s, ERR_INVALID_UID. apply set_invalid. lia.
    + exists s, ERR_INVALID_UID. apply set_invalid. lia.
  - intros slot Hr. destruct (remove_wf s slot W Hr) as [s1 [E1 _]]. exists s1. exact E1.
  - intros slot id Hr Hfree. destruct (add_wf s slot id W Hr Hfree) as [s1 [E1 _]]. exists s1. exact E1.
  - intros recs Hlen Hag. destruct (reload_wf s recs W Hlen Hag) as [s1 [E1 _]]. exists s1. exact E1.
  - intros h Hh. destruct (WF_bucket s h W Hh) as [l [Hc [_ [_ [_ Hlen]]]]]. exists l. auto.
Qed.

(* ------------------------------------------------------------------ attach *)
Lemma attach_same g v : attach g = Attached v ->
  seg_version g = SHMVER /\ seg_size g = SHMSZ /\ v = seg_body g /\
  (forall q, search_user_raw v q = search_user_raw (seg_body g) q).
Proof.
  unfold attach. destruct (Z.eqb_spec (seg_version g) SHMVER); [|discriminate].
  destruct (Z.eqb_spec (seg_size g) SHMSZ); [|discriminate]. cbn [negb].
  intros E. inversion E; subst. auto.
Qed.
Lemma attach_refused g : seg_version g <> SHMVER \/ seg_size g <> SHMSZ -> forall v, attach g <> Attached v.
Proof.
  intros H v E. apply attach_same in E. destruct E as [E1 [E2 _]]. destruct H; contradiction.
Qed.

(* ------------------------------------------------------------------ the invariant spelled out, and corollaries for Props *)
Lemma WF_unfold s : WF s <->
  (forall h, 0 <= h < HASHN -> exists l, chain (nx s) (hd s h) l /\ NoDup l /\
     (forall x, In x l -> in_range x = true /\ uhash (idf s x) = h)).
Proof. reflexivity. Qed.

Lemma one_chain s x h l : WF s -> 0 <= h < HASHN -> chain (nx s) (hd s h) l -> In x l ->
  uhash (idf s x) = h /\ NoDup l /\ (length l <= Z.to_nat MAXU)%nat /\ in_range x = true.
Proof.
  intros W Hh Hc Hin. destruct (WF_bucket s h W Hh) as [l' [Hc' [Hnd [Hr [Hhash Hlen]]]]].
  rewrite <- (chain_fun _ _ _ Hc _ Hc') in *. auto.
Qed.

Lemma lookup_exact s : reachable s ->
  (forall q v, search_user_raw s q = Ok v -> v <> 0 -> on_chain s (v - 1) /\ id_eq_ci q (idf s (v - 1)) = true) /\
  (forall x q, on_chain s x -> unique_ci s x -> id_eq_ci q (idf s x) = true -> nth 0 q 0 <> 0 -> search_user_raw s q = Ok (x + 1)) /\
  (forall q, (forall y, on_chain s y -> id_eq_ci q (idf s y) = false) -> search_user_raw s q = Ok 0) /\
  (forall q, exists v, search_user_raw s q = Ok v).
Proof.
  intros R. pose proof (reachable_wf s R) as W. repeat split.
  - unfold search_user_raw in H. destruct (nth 0 q 0 =? 0); [inversion H; congruence|]. apply (search_sound s q v W H H0).
  - unfold search_user_raw in H. destruct (nth 0 q 0 =? 0); [inversion H; congruence|]. apply (search_sound s q v W H H0).
  - intros x q Hon Hu Hq Hne. rewrite search_user_raw_nonempty by exact Hne. apply search_complete; assumption.
  - intros q Hno. unfold search_user_raw. destruct (nth 0 q 0 =? 0); [reflexivity|]. apply search_absent; assumption.
  - intros q. destruct (search_total s q W) as [v [E _]]. exists v. exact E.
Qed.

(* ------------------------------------------------------------------ who loads: the creator or a second, attached process *)
Lemma unload_same s : number s = 0 -> loaded s = 0 -> unload s = s.
Proof. destruct s as [h n i nb ld]. cbn [number loaded unload head next ids]. intros -> ->. reflexivity. Qed.

(* LoadUHash by ANY process p (creator or not) terminates and leaves a well-formed index in which every lookup terminates:
   (1) on a segment that says Number = Loaded = 0 - freshly created and zeroed, created by somebody else and never loaded,
       unloaded with arbitrary garbage left behind; (2) on a well-formed segment, from an agreeing file *)
Lemma load_any_process (p : proc) s recs : lenZ recs <= MAXU ->
  (number s = 0 -> loaded s = 0 ->
     exists s', load_uhash_by p s recs = Ok s' /\ WF s' /\ number s' = lenZ recs /\ loaded s' = 1 /\ (forall q, exists v, search_user_raw s' q = Ok v) /\
       (forall k id, nth_error recs k = Some id -> is_valid_id id = true -> idf s' (Z.of_nat k) = id /\ on_chain s' (Z.of_nat k)) /\
       (lenZ recs <= PREALLOC ->
          (forall k id, nth_error recs k = Some id -> idf s' (Z.of_nat k) = id) /\ (forall x, on_chain s' x <-> 0 <= x < lenZ recs))) /\
  (WF s -> agrees s recs ->
     exists s', load_uhash_by p s recs = Ok s' /\ WF s' /\ number s' = lenZ recs /\ (forall q, exists v, search_user_raw s' q = Ok v)).
Proof.
  intros Hlen. unfold load_uhash_by. split.
  - intros Hn Hl. destruct (cold_load_general s recs Hlen) as [s' [E [W' [Hn' [Hl' [_ [Hval _]]]]]]].
    exists s'. split; [rewrite (unload_same s Hn Hl) in E; exact E|]. split; [exact W'|]. split; [exact Hn'|]. split; [exact Hl'|].
    split; [|split; [exact Hval|]].
    + intros q. destruct (search_total s' q W') as [v [Ev _]]. exists v. exact Ev.
    + intros Hcap. destruct (cold_load_exact s recs Hlen Hcap) as [s'' [E'' [_ [_ [_ [Hids [_ Hon]]]]]]].
      rewrite E in E''. inversion E''; subst s''. split; [exact Hids|exact Hon].
  - intros W Hag. destruct (reload_wf s recs W Hlen Hag) as [s' [E [W' Hn']]].
    exists s'. split; [exact E|]. split; [exact W'|]. split; [exact Hn'|].
    intros q. destruct (search_total s' q W') as [v [Ev _]]. exists v. exact Ev.
Qed.

Lemma attach_ok_header b : attach (mkseg SHMVER SHMSZ b) = Attached b.
Proof. unfold attach. cbn [seg_version seg_size seg_body]. rewrite !Z.eqb_refl. reflexivity. Qed.

Lemma reset_not_wf : ~ WF reset_st.
Proof.
  intros W. destruct (W 0) as [l [Hc [Hnd Hx]]]; [unfold hash_ok; pose proof HASHN_pos; lia|].
  unfold hd, reset_st in Hc. cbn [head] in Hc. rewrite tget_tconst in Hc. inversion Hc as [|p l' Hp Hc' E1 E2]; subst.
  destruct (Hx 0 (or_introl eq_refl)) as [_ Hh]. unfold idf, reset_st in Hh. cbn [ids] in Hh. rewrite tget_tconst in Hh.
  change (uhash EMPTY_ID) with (cmsys.FNV1_32_INIT mod HASHN) in Hh. exact (empty_hash_nonzero HK Hh).
Qed.

(* the start-up interleaving / crash point: process 1 creates the segment (zeroed, header written) and has not loaded it;
   process 2 - started with or without the create flag - attaches, finds IsNew = false and an index that is NOT well-formed
   (every head points at slot 0), and its LoadUHash builds the well-formed index of .PASSWDS *)
Lemma second_process_loads_created_segment (is_create : bool) recs : lenZ recs <= MAXU ->
  exists p2 v, new_shm_existing is_create (snd new_shm_create) = (p2, Attached v) /\ p_is_new (fst new_shm_create) = true /\
    p_is_new p2 = false /\ v = reset_st /\ ~ WF v /\
    exists s', load_uhash_by p2 v recs = Ok s' /\ WF s' /\ number s' = lenZ recs /\ loaded s' = 1 /\
      (forall q, exists u, search_user_raw s' q = Ok u) /\
      (forall k id, nth_error recs k = Some id -> is_valid_id id = true -> idf s' (Z.of_nat k) = id /\ on_chain s' (Z.of_nat k)) /\
      (lenZ recs <= PREALLOC ->
         (forall k id, nth_error recs k = Some id -> idf s' (Z.of_nat k) = id) /\ (forall x, on_chain s' x <-> 0 <= x < lenZ recs)).
Proof.
  intros Hlen. exists (mkproc false), reset_st. unfold new_shm_existing, new_shm_create. cbn [fst snd].
  rewrite attach_ok_header. split; [reflexivity|]. split; [reflexivity|]. split; [reflexivity|]. split; [reflexivity|].
  split; [exact reset_not_wf|].
  destruct (load_any_process (mkproc false) reset_st recs Hlen) as [H _]. apply H; reflexivity.
Qed.

(* why the decision has to be the segment's Number / Loaded: the on-the-fly branch on the created-but-not-loaded segment never ends.
   Every bucket h other than the empty id's is the self-loop 0 -> 0 whose node does not belong there; checkHash unlinks slot 0
   by storing its successor - slot 0 - and meets it again, for any amount of fuel *)
Lemma check_walk_self_loop h : forall fuel s, tget (next s) 0 = 0 -> uhash (tget (ids s) 0) <> h ->
  check_walk fuel s h false h 0 = Hang.
Proof.
  induction fuel as [|f IH]; intros s Hnx Hh; [reflexivity|].
  cbn [check_walk]. change (0 =? -1) with false. replace (MAXU <=? 0) with false by (symmetry; apply Z.leb_gt; exact MAXU_pos). change ((0 <? -1) || false) with false. cbv iota.
  destruct (Z.eqb_spec (uhash (tget (ids s) 0)) h) as [E|_]; [contradiction|]. cbn [negb]. cbv zeta. rewrite Hnx.
  apply IH; cbn [set_link set_head next ids]; assumption.
Qed.

Lemma onfly_on_created_segment_hangs :
  (forall fuel, check_walk fuel reset_st 0 false 0 (tget (head reset_st) 0) = Hang) /\
  (forall recs, fill_uhash reset_st recs true = Hang).
Proof.
  assert (Hnx : tget (next reset_st) 0 = 0) by (unfold reset_st; cbn [next]; apply tget_tconst).
  assert (Hh : uhash (tget (ids reset_st) 0) <> 0) by (unfold reset_st; cbn [ids]; rewrite tget_tconst; exact (empty_hash_nonzero HK)).
  assert (Hhd : tget (head reset_st) 0 = 0) by (unfold reset_st; cbn [head]; apply tget_tconst).
  split.
  - intros fuel. rewrite Hhd. apply check_walk_self_loop; assumption.
  - intros recs. unfold fill_uhash, init_fill.
    assert (Hpos : (0 < Z.to_nat HASHN)%nat) by (pose proof HASHN_pos; lia).
    destruct (Z.to_nat HASHN) as [|n]; [lia|]. cbn [check_from]. unfold check_hash. rewrite Hhd.
    rewrite (check_walk_self_loop 0 FUEL_LOADER reset_st Hnx Hh). reflexivity.
Qed.

(* histories in which every step is executed by some process - the creator or any attached one; all of them act on the same memory *)
Inductive reachable_mp : st -> Prop :=
| m_cold (p : proc) s0 recs s : lenZ recs <= MAXU -> number s0 = 0 -> loaded s0 = 0 -> load_uhash_by p s0 recs = Ok s -> reachable_mp s   (* ANY content otherwise *)
| m_set (p : proc) s uid id s' e : reachable_mp s -> set_user_id s uid id = Ok (s', e) -> reachable_mp s'
| m_remove (p : proc) s slot s' e : reachable_mp s -> in_range slot = true -> remove_from_uhash s slot = Ok (s', e) -> reachable_mp s'
| m_add (p : proc) s slot id s' e : reachable_mp s -> in_range slot = true -> ~ on_chain s slot -> add_to_uhash s slot id = Ok (s', e) -> reachable_mp s'
| m_reload (p : proc) s recs s' : reachable_mp s -> lenZ recs <= MAXU -> agrees s recs -> load_uhash_by p s recs = Ok s' -> reachable_mp s'
| m_attach (is_create : bool) g p v : reachable_mp (seg_body g) -> new_shm_existing is_create g = (p, Attached v) -> reachable_mp v.

Lemma reachable_mp_reachable s : reachable_mp s -> reachable s.
Proof.
  induction 1 as [p s0 recs s Hlen Hn Hl E|p s uid id s' e _ IH E|p s slot s' e _ IH Hr E|p s slot id s' e _ IH Hr Hfree E|p s recs s' _ IH Hlen Hag E
                  |c g p v _ IH E].
  - unfold load_uhash_by in E. rewrite <- (unload_same s0 Hn Hl) in E. exact (r_cold s0 recs s Hlen E).
  - exact (r_set s uid id s' e IH E).
  - exact (r_remove s slot s' e IH Hr E).
  - exact (r_add s slot id s' e IH Hr Hfree E).
  - exact (r_reload s recs s' IH Hlen Hag E).
  - unfold new_shm_existing in E. inversion E as [[Ep Ea]]. apply attach_same in Ea. destruct Ea as [_ [_ [-> _]]]. exact IH.
Qed.

Lemma multi_process_exact s : reachable_mp s ->
  WF s /\
  (forall q v, search_user_raw s q = Ok v -> v <> 0 -> on_chain s (v - 1) /\ id_eq_ci q (idf s (v - 1)) = true) /\
  (forall x q, on_chain s x -> unique_ci s x -> id_eq_ci q (idf s x) = true -> nth 0 q 0 <> 0 -> search_user_raw s q = Ok (x + 1)) /\
  (forall q, (forall y, on_chain s y -> id_eq_ci q (idf s y) = false) -> search_user_raw s q = Ok 0) /\
  (forall q, exists v, search_user_raw s q = Ok v) /\
  (forall (p : proc) recs, lenZ recs <= MAXU -> agrees s recs -> exists s', load_uhash_by p s recs = Ok s' /\ reachable_mp s').
Proof.
  intros R. pose proof (reachable_mp_reachable s R) as R0. split; [exact (reachable_wf s R0)|].
  destruct (lookup_exact s R0) as [H1 [H2 [H3 H4]]]. split; [exact H1|]. split; [exact H2|]. split; [exact H3|]. split; [exact H4|].
  intros p recs Hlen Hag. destruct (reload_wf s recs (reachable_wf s R0) Hlen Hag) as [s' [E _]].
  exists s'. split; [exact E|]. exact (m_reload p s recs s' R Hlen Hag E).
Qed.

(* ------------------------------------------------------------------ a match is a match of the WHOLE id *)
(* Cstrcasecmp == 0 compares the complete NUL-terminated strings: an id never matches a proper prefix or a proper extension of itself *)
Lemma match_whole_id a b : id_eq_ci a b = true <->
  map tolower (cprefix a) = map tolower (cprefix b).
Proof. exact (id_eq_ci_spec a b). Qed.
Lemma match_same_length a b : id_eq_ci a b = true -> length (cprefix a) = length (cprefix b).
Proof. intros H. apply match_whole_id in H. apply (f_equal (@length Z)) in H. rewrite !map_length in H. exact H. Qed.

(* a valid id is not empty, so neither is a query that matches it *)
Lemma valid_nonempty id : is_valid_id id = true -> cprefix id <> [].
Proof.
  unfold is_valid_id. intros H E. rewrite E in H. cbn in H. discriminate.
Qed.
Lemma cprefix_nonempty_first q : cprefix q <> [] -> nth 0 q 0 <> 0.
Proof. destruct q as [|c r]; cbn [cprefix nth]; [congruence|]. destruct (Z.eqb_spec c 0); congruence. Qed.

(* the guarantee of a cold load in terms of lookups, for ANY constants: a user of the file - a record with a valid id that no other record carries in any
   letter case - is found in every letter case at its slot, wherever it is in the file and however many free records precede it *)
Lemma cold_load_finds_users s0 recs : lenZ recs <= MAXU ->
  exists s', load_uhash (unload s0) recs = Ok s' /\ WF s' /\
    forall k id q, nth_error recs k = Some id -> is_valid_id id = true ->
      (forall j id', nth_error recs j = Some id' -> id_eq_ci id' id = true -> j = k) ->
      id_eq_ci q id = true -> search_user_raw s' q = Ok (Z.of_nat k + 1).
Proof.
  intros Hlen. destruct (cold_load_general s0 recs Hlen) as [s' [E [W [_ [_ [Hf [Hval [Hon _]]]]]]]].
  exists s'. split; [exact E|]. split; [exact W|].
  intros k id q Ek Hv Huniq Hq. destruct (Hval k id Ek Hv) as [Hid Hk].
  rewrite search_user_raw_nonempty.
  - apply search_complete; [exact W|exact Hk| |rewrite Hid; exact Hq].
    intros y Hy Hyk. destruct (Hon y Hy) as [j [-> [Hj Hfj]]].
    destruct (nth_error recs j) as [id'|] eqn:Ej; [|apply nth_error_None in Ej; lia].
    destruct (Hf j id' Ej Hfj) as [Hidj _]. rewrite Hidj, Hid in Hyk. rewrite (Huniq j id' Ej Hyk). reflexivity.
  - apply cprefix_nonempty_first. pose proof (match_same_length q id Hq) as Hl. pose proof (valid_nonempty id Hv) as Hne.
    intros Eq. rewrite Eq in Hl. destruct (cprefix id); [congruence|discriminate].
Qed.


(* ------------------------------------------------------------------ C-string semantics: the bytes behind the terminator *)
(* an id is the bytes before its first NUL; what the rest of the USER_ID_SZ-byte array holds (leftovers of a longer id the buffer held before) takes part in
   nothing: not in the comparison, not in the hash, hence not in any lookup - neither on the side of the query nor on the side of the stored id *)
Lemma id_eq_ci_cprefix a a' b b' : cprefix a = cprefix a' -> cprefix b = cprefix b' -> id_eq_ci a b = id_eq_ci a' b'.
Proof. intros E1 E2. unfold id_eq_ci. rewrite E1, E2. reflexivity. Qed.
Lemma uhash_cprefix a a' : cprefix a = cprefix a' -> uhash a = uhash a'.
Proof. intros E. apply id_eq_ci_hash. rewrite (id_eq_ci_cprefix a a' a' a' E eq_refl). apply id_eq_ci_refl. Qed.
Lemma search_walk_cprefix s q q' : cprefix q = cprefix q' -> forall fuel p, search_walk fuel s q p = search_walk fuel s q' p.
Proof.
  intros E. induction fuel as [|f IH]; intros p; cbn [search_walk]; [reflexivity|].
  rewrite (id_eq_ci_cprefix q q' _ _ E eq_refl). rewrite IH. reflexivity.
Qed.
Lemma search_ignores_bytes_after_nul s q q' : cprefix q = cprefix q' ->
  do_search_user_raw s q = do_search_user_raw s q' /\ search_user_raw s q = search_user_raw s q' /\ uhash q = uhash q' /\
  (forall b, id_eq_ci q b = id_eq_ci q' b) /\ (forall b, id_eq_ci b q = id_eq_ci b q').
Proof.
  intros E.
  assert (D : do_search_user_raw s q = do_search_user_raw s q').
  { unfold do_search_user_raw. rewrite (uhash_cprefix q q' E). apply search_walk_cprefix. exact E. }
  split; [exact D|]. split; [|split; [apply uhash_cprefix; exact E|split; intros b; apply id_eq_ci_cprefix; auto]].
  unfold search_user_raw. rewrite D.
  replace (nth 0 q' 0 =? 0) with (nth 0 q 0 =? 0); [reflexivity|].
  clear D. destruct q as [|c r], q' as [|c' r']; cbn [nth cprefix] in *; try reflexivity;
    repeat match goal with |- context [?a =? 0] => destruct (Z.eqb_spec a 0) | H : context [?a =? 0] |- _ => destruct (Z.eqb_spec a 0) end;
    try reflexivity; try discriminate; try (inversion E; subst; contradiction); try congruence.
Qed.
(* a slot whose array holds leftovers is found by the clean spelling and by every other dirty one: stated through search_complete with the stored id as it is *)
Lemma search_finds_dirty_slot s x q : WF s -> on_chain s x -> unique_ci s x -> map tolower (cprefix q) = map tolower (cprefix (idf s x)) ->
  do_search_user_raw s q = Ok (x + 1).
Proof. intros W Hx Hu E. apply search_complete; auto. apply id_eq_ci_spec. exact E. Qed.

End Cfg.

(* ------------------------------------------------------------------ the two configurations of the repository *)
Lemma K_default_ok : consts_ok K_default.
Proof. split; [reflexivity|]. split; [vm_compute; discriminate|]. split; [vm_compute; discriminate|]. split; reflexivity. Qed.
(* -tags docker: MAX_USERS = 2 000 000 *)
Lemma K_docker_ok : consts_ok K_docker.
Proof. split; [reflexivity|]. split; [vm_compute; discriminate|]. split; [vm_compute; discriminate|]. split; reflexivity. Qed.
(* what distinguishes them for this property: the default table is smaller than the cap on free records and than the number of buckets, the production table
   is larger than both; the id size, IDLEN, the hash and the cap are the same *)
Lemma consts_shared :
  @MAXU K_default <= @PREALLOC K_default /\ @MAXU K_default < @HASHN K_default /\
  @PREALLOC K_docker + @HASHN K_docker < @MAXU K_docker /\
  @PREALLOC K_docker = @PREALLOC K_default /\ @HASHBITS K_docker = @HASHBITS K_default /\
  Gen.Consts_docker.ptttype.USER_ID_SZ = ptttype.USER_ID_SZ /\ Gen.Consts_docker.ptttype.IDLEN = ptttype.IDLEN /\
  Gen.Consts_docker.cmsys.FNV1_32_INIT = cmsys.FNV1_32_INIT /\ Gen.Consts_docker.cmsys.FNV_32_PRIME = cmsys.FNV_32_PRIME.
Proof. vm_compute. repeat split; try reflexivity; discriminate. Qed.

Local Existing Instance K_default.

(* ------------------------------------------------------------------ the default build: MAX_USERS <= PRE_ALLOCATED_USERS, the cap never bites *)
Lemma default_cap (recs : list (list Z)) : lenZ recs <= MAXU -> lenZ recs <= PREALLOC.
Proof. intros H. pose proof (proj1 consts_shared) as C. lia. Qed.

Lemma cold_load_exact_default s0 recs : lenZ recs <= MAXU ->
  exists s', load_uhash (unload s0) recs = Ok s' /\ WF s' /\ number s' = lenZ recs /\ loaded s' = 1 /\
    (forall k id, nth_error recs k = Some id -> idf s' (Z.of_nat k) = id) /\
    (forall x, ~ (0 <= x < lenZ recs) -> idf s' x = idf s0 x) /\
    (forall x, on_chain s' x <-> 0 <= x < lenZ recs).
Proof. intros H. exact (cold_load_exact K_default_ok s0 recs H (default_cap recs H)). Qed.

Lemma load_any_process_default (p : proc) s recs : lenZ recs <= MAXU ->
  (number s = 0 -> loaded s = 0 ->
     exists s', load_uhash_by p s recs = Ok s' /\ WF s' /\ number s' = lenZ recs /\ loaded s' = 1 /\ (forall q, exists v, search_user_raw s' q = Ok v) /\
       (forall k id, nth_error recs k = Some id -> idf s' (Z.of_nat k) = id) /\ (forall x, on_chain s' x <-> 0 <= x < lenZ recs)) /\
  (WF s -> agrees s recs ->
     exists s', load_uhash_by p s recs = Ok s' /\ WF s' /\ number s' = lenZ recs /\ (forall q, exists v, search_user_raw s' q = Ok v)).
Proof.
  intros H. destruct (load_any_process K_default_ok p s recs H) as [H1 H2]. split; [|exact H2].
  intros Hn Hl. destruct (H1 Hn Hl) as [s' [E [W [Hn' [Hl' [Hq [_ Hex]]]]]]]. destruct (Hex (default_cap recs H)) as [Hids Hon].
  exists s'. auto 10.
Qed.

Lemma second_process_loads_created_segment_default (is_create : bool) recs : lenZ recs <= MAXU ->
  exists p2 v, new_shm_existing is_create (snd new_shm_create) = (p2, Attached v) /\ p_is_new (fst new_shm_create) = true /\
    p_is_new p2 = false /\ v = reset_st /\ ~ WF v /\
    exists s', load_uhash_by p2 v recs = Ok s' /\ WF s' /\ number s' = lenZ recs /\ loaded s' = 1 /\
      (forall q, exists u, search_user_raw s' q = Ok u) /\
      (forall k id, nth_error recs k = Some id -> idf s' (Z.of_nat k) = id) /\ (forall x, on_chain s' x <-> 0 <= x < lenZ recs).
Proof.
  intros H. destruct (second_process_loads_created_segment K_default_ok is_create recs H) as [p2 [v [A [B [C [D [E [s' [F [W [Hn' [Hl' [Hq [_ Hex]]]]]]]]]]]]]].
  destruct (Hex (default_cap recs H)) as [Hids Hon]. exists p2, v. repeat (split; [assumption|]). exists s'. auto 10.
Qed.

(* ------------------------------------------------------------------ non-vacuity *)
Definition ex_id (l : list Z) : list Z := fixlen IDSZ l.
Definition ex_recs : list (list Z) := [ex_id [83; 89; 83; 79; 80]; ex_id [97; 108]; ex_id []; ex_id [66; 111; 98]].   (* SYSOP al "" Bob *)

(* a cold load over a zeroed segment, a rename to a case twin's bucket-mate, an unlink and a re-link, a reload from the agreeing file:
   every lookup (any letter case) answers as the table says *)
Example ex_history :
  match load_uhash (unload reset_st) ex_recs with
  | Ok s1 =>
      match set_user_id s1 2 (ex_id [90; 101; 100]) with
      | Ok (s2, 0) =>
          match remove_from_uhash s2 0 with
          | Ok (s3, 0) =>
              match add_to_uhash s3 0 (ex_id [115; 121; 115; 111; 112]) with
              | Ok (s4, 0) =>
                  match load_uhash s4 [ex_id [115; 121; 115; 111; 112]; ex_id [90; 101; 100]; ex_id []; ex_id [66; 111; 98]] with
                  | Ok s5 => search_user_raw s5 (ex_id [83; 121; 83; 111; 80]) = Ok 1 /\ search_user_raw s5 (ex_id [122; 69; 68]) = Ok 2 /\
                             search_user_raw s5 (ex_id [97; 108]) = Ok 0 /\ search_user_raw s5 (ex_id [98; 79; 98]) = Ok 4 /\
                             search_user_raw s3 (ex_id [83; 89; 83; 79; 80]) = Ok 0 /\ do_search_user_raw s5 (ex_id []) = Ok 3 /\ number s5 = 4 /\ loaded s5 = 1
                  | _ => False
                  end
              | _ => False
              end
          | _ => False
          end
      | _ => False
      end
  | _ => False
  end.
Proof. vm_compute. repeat split; reflexivity. Qed.

Example ex_reachable : exists s, reachable s /\ on_chain s 0 /\ idf s 0 = ex_id [90; 101; 100] /\ WF s.
Proof.
  destruct (cold_load_wf K_default_ok reset_st ex_recs) as [s1 [E1 [W1 _]]]; [vm_compute; discriminate|].
  assert (R1 : reachable s1) by (eapply r_cold; [|exact E1]; vm_compute; discriminate).
  assert (Hr : in_range 0 = true) by reflexivity.
  destruct (remove_wf K_default_ok s1 0 W1 Hr) as [s2 [E2 [W2 [_ [Hon2 _]]]]].
  assert (R2 : reachable s2) by (eapply r_remove; eauto).
  assert (Hfree : ~ on_chain s2 0) by (intros Hx; apply Hon2 in Hx; destruct Hx as [_ Hx]; congruence).
  destruct (add_wf K_default_ok s2 0 (ex_id [90; 101; 100]) W2 Hr Hfree) as [s3 [E3 [W3 [Hid [_ [Hon3 _]]]]]].
  exists s3. split; [eapply r_add; eauto|]. split; [apply Hon3; right; reflexivity|]. split; [exact Hid|exact W3].
Qed.

(* a state that is NOT well-formed exists (the zeroed segment: every head points at slot 0, whose id hashes elsewhere), so WF is not vacuous *)
Example ex_reset_not_wf : ~ WF reset_st.
Proof. exact (reset_not_wf K_default_ok). Qed.

(* the created-but-not-loaded segment loaded by a second process (IsNew = false): lookups in any letter case find the file's ids;
   then the creator reloads on the fly and a third view answers the same *)
Example ex_second_process_loads :
  match new_shm_existing true (snd new_shm_create) with
  | (p2, Attached v) =>
      p_is_new p2 = false /\ number v = 0 /\ loaded v = 0 /\
      match load_uhash_by p2 v ex_recs with
      | Ok s1 => search_user_raw s1 (ex_id [115; 121; 115; 111; 112]) = Ok 1 /\ search_user_raw s1 (ex_id [98; 79; 98]) = Ok 4 /\
                 search_user_raw s1 (ex_id [110; 111]) = Ok 0 /\ loaded s1 = 1 /\ number s1 = 4 /\
                 match load_uhash_by creator s1 ex_recs with
                 | Ok s2 => search_user_raw s2 (ex_id [65; 76]) = Ok 2 /\ loaded s2 = 1
                 | _ => False
                 end
      | _ => False
      end
  | _ => False
  end.
Proof. vm_compute. repeat split; reflexivity. Qed.

Example ex_reachable_mp : exists s, reachable_mp s /\ on_chain s 0.
Proof.
  destruct (load_any_process K_default_ok (mkproc false) reset_st ex_recs) as [H _]; [vm_compute; discriminate|].
  destruct (H eq_refl eq_refl) as [s1 [E1 [W1 _]]].
  assert (R1 : reachable_mp s1) by (eapply (m_cold (mkproc false) reset_st ex_recs); [vm_compute; discriminate|reflexivity|reflexivity|exact E1]).
  assert (Hr : in_range 0 = true) by reflexivity.
  destruct (remove_wf K_default_ok s1 0 W1 Hr) as [s2 [E2 [W2 [_ [Hon2 _]]]]].
  assert (R2 : reachable_mp s2) by (eapply (m_remove creator); eauto).
  assert (Hfree : ~ on_chain s2 0) by (intros Hx; apply Hon2 in Hx; destruct Hx as [_ Hx]; congruence).
  destruct (add_wf K_default_ok s2 0 (ex_id [90; 101; 100]) W2 Hr Hfree) as [s3 [E3 [W3 [Hid [_ [Hon3 _]]]]]].
  exists s3. split; [eapply (m_add (mkproc false)); eauto|]. apply Hon3; right; reflexivity.
Qed.

(* a prefix pair on ONE chain: "bobgal" (slot 0) and "bob" (slot 1) collide in the 16-bit hash and the longer one comes first.
   Each spelling finds its own slot; "bo", "bobga", "bobgal1" find nothing; with "bob" removed "bob" finds nothing although "bobgal" is
   still ahead on that chain; and with "tu1" - which shares the empty id's bucket - in slot 0, the free-slot search DoSearchUserRaw("")
   returns the first slot that holds the empty id, not slot 0 *)
Definition ex_bob : list Z := ex_id [98; 111; 98].
Definition ex_bobgal : list Z := ex_id [98; 111; 98; 103; 97; 108].
Example ex_prefix_pair :
  uhash ex_bob = uhash ex_bobgal /\ id_eq_ci ex_bob ex_bobgal = false /\ id_eq_ci ex_bobgal ex_bob = false /\
  match load_uhash (unload reset_st) [ex_bobgal; ex_bob; ex_id []] with
  | Ok s1 =>
      obs_chain s1 (uhash ex_bob) = [uhash ex_bob; 2; 0; 1; -1] /\
      search_user_raw s1 ex_bob = Ok 2 /\ search_user_raw s1 (ex_id [66; 79; 66]) = Ok 2 /\
      search_user_raw s1 ex_bobgal = Ok 1 /\ search_user_raw s1 (ex_id [66; 111; 98; 71; 65; 76]) = Ok 1 /\
      search_user_raw s1 (ex_id [98; 111]) = Ok 0 /\ search_user_raw s1 (ex_id [98; 111; 98; 103; 97]) = Ok 0 /\
      search_user_raw s1 (ex_id [98; 111; 98; 103; 97; 108; 49]) = Ok 0 /\
      match remove_from_uhash s1 1 with
      | Ok (s2, 0) => search_user_raw s2 ex_bob = Ok 0 /\ search_user_raw s2 (ex_id [66; 79; 66]) = Ok 0 /\ search_user_raw s2 ex_bobgal = Ok 1
      | _ => False
      end
  | _ => False
  end /\
  match load_uhash (unload reset_st) [ex_id [116; 117; 49]; ex_id []; ex_id []] with
  | Ok s1 => uhash (ex_id [116; 117; 49]) = uhash (ex_id []) /\ obs_chain s1 (uhash (ex_id [])) = [uhash (ex_id []); 3; 0; 1; 2; -1] /\
             do_search_user_raw s1 (ex_id []) = Ok 2 /\ search_user_raw s1 (ex_id [84; 85; 49]) = Ok 1 /\ search_user_raw s1 (ex_id [116; 117]) = Ok 0
  | _ => False
  end.
Proof. vm_compute. repeat split; reflexivity. Qed.

(* leftovers behind the terminator: slot 1 is set from a buffer that held "LongUserName" before "bob" ("bob\0UserName\0"), slot 2 is loaded from a record
   "amy\0ongName1\0"; both are found by the clean spelling in any letter case and by a query buffer with other leftovers; the stored bytes are kept as they are *)
Definition ex_bob_dirty : list Z := [98; 111; 98; 0; 85; 115; 101; 114; 78; 97; 109; 101; 0].
Definition ex_amy_dirty : list Z := [97; 109; 121; 0; 111; 110; 103; 78; 97; 109; 101; 49; 0].
Example ex_leftovers :
  match load_uhash (unload reset_st) [ex_id [83; 89; 83; 79; 80]; ex_id []; ex_amy_dirty] with
  | Ok s1 =>
      match set_user_id s1 2 ex_bob_dirty with
      | Ok (s2, 0) => search_user_raw s2 (ex_id [66; 79; 66]) = Ok 2 /\ search_user_raw s2 ex_bob = Ok 2 /\
                      search_user_raw s2 [98; 111; 98; 0; 120; 121; 122; 0; 0; 0; 0; 0; 0] = Ok 2 /\
                      search_user_raw s2 (ex_id [65; 109; 89]) = Ok 3 /\ search_user_raw s2 [97; 109; 121; 0; 0; 0; 0; 0; 0; 0; 0; 0; 255] = Ok 3 /\
                      search_user_raw s2 (ex_id [98; 111; 98; 85]) = Ok 0 /\ idf s2 1 = ex_bob_dirty /\ idf s2 2 = ex_amy_dirty
      | _ => False
      end
  | _ => False
  end.
Proof. vm_compute. repeat split; reflexivity. Qed.

(* the production configuration: 1003 records without an id, then a user. The user is filed (slot 1003, found in any letter case), the free records beyond the
   PRE_ALLOCATED_USERS-th are not (1000 slots on the empty id's chain), and the cap is really hit: record 1000 is the first one left alone *)
Example ex_docker_cap :
  let recs := repeat (ex_id []) 1003 ++ [ex_id [65; 108; 105; 99; 101; 48; 49]] in
  nth 999 (@filed K_docker 0 recs) false = true /\ nth 1000 (@filed K_docker 0 recs) false = false /\ nth 1003 (@filed K_docker 0 recs) false = true /\
  match @load_uhash K_docker (unload reset_st) recs with
  | Ok s1 => @search_user_raw K_docker s1 (ex_id [97; 76; 73; 67; 69; 48; 49]) = Ok 1004 /\
             nth 1 (@obs_chain K_docker s1 (@uhash K_docker (ex_id []))) 0 = 1000 /\ number s1 = 1004
  | _ => False
  end.
Proof. vm_compute. repeat split; reflexivity. Qed.

(* ------------------------------------------------------------------ the table behind symbolic links; processes own no index state *)
(* BBSHOME/.PASSWDS may be a symbolic link (or a link to a link) to the table: a load through the entry is the load of the records the entry resolves to,
   so every theorem about load_uhash / load_uhash_by speaks about linked tables as well. In the model this holds by construction (load_passwd_by resolves first);
   that cache.LoadUHash does the same is what the harness validates (op 33). *)
Lemma presolve_plink n r : presolve (plink n r) = r.
Proof. induction n as [|n IH]; cbn [plink presolve]; [reflexivity|exact IH]. Qed.

Lemma load_through_links {K : consts} (p : proc) s :
  (forall n recs, load_passwd_by p s (plink n recs) = load_uhash s recs) /\
  (forall mode recs, load_passwd_by p s (passwd_entry mode recs) = load_uhash s recs) /\
  (forall e e', presolve e = presolve e' -> load_passwd_by p s e = load_passwd_by p s e').
Proof.
  split; [|split].
  - intros n recs. unfold load_passwd_by, load_uhash_by. rewrite presolve_plink. reflexivity.
  - intros mode recs. unfold load_passwd_by, load_uhash_by, passwd_entry. rewrite presolve_plink. reflexivity.
  - intros e e' E. unfold load_passwd_by. rewrite E. reflexivity.
Qed.

Example ex_linked_table : presolve (passwd_entry 3 ex_recs) = ex_recs /\ passwd_entry 3 ex_recs = PLink (PLink (PRegular ex_recs)) /\
  @load_passwd_by K_default (mkproc false) reset_st (passwd_entry 1 ex_recs) = @load_uhash K_default reset_st ex_recs.
Proof. split; [reflexivity|split; reflexivity]. Qed.

(* What an operation does and answers is a function of the segment (and of the harness's own .PASSWDS / battery) alone: no process of the model - creator, freshly attached,
   or attached long ago - owns a private picture of a chain. Hence the long-lived attached process of op 34 is the creator executing the same operation. *)
Lemma op_function_of_segment {K : consts} (p q : proc) x g : apply_local p x g = apply_local q x g.
Proof. reflexivity. Qed.

Lemma peer_is_any_process {K : consts} x k g : (0 <=? k) && (k <? 3) = true -> proc2_op g = true ->
  apply_op x (34 :: k :: g) = apply_local creator x g /\ apply_op x (29 :: 0 :: g) = apply_local creator x g.
Proof.
  intros Hk Hg. destruct x as [s f b bk sl].
  unfold apply_op. rewrite Hk, Hg. cbn [andb orb]. unfold new_shm_existing, attach. cbn [seg_version seg_size seg_body hs].
  rewrite !Z.eqb_refl. cbn [negb orb andb]. unfold with_st. cbn [hs hfile hbattery hbuckets hslots].
  split; apply op_function_of_segment.
Qed.
