(* C04 — the index as the code maintains it: every operation of cache/cache_user.go and both loaders of
   cache/uhash_loader.go preserve the chain invariant, lookups are exact, and no walk runs out of fuel. *)
From Verif Require Import Base.Common Base.TMap Model.C04 Proofs.C04_chain.

(* ------------------------------------------------------------------ ids: case folding and the hash *)
Lemma zlist_eqb_eq : forall a b, zlist_eqb a b = true <-> a = b.
Proof.
  induction a as [|x a IH]; destruct b as [|y b]; cbn [zlist_eqb]; split; intros H; try reflexivity; try discriminate.
  - apply andb_prop in H. destruct H as [H1 H2]. apply Z.eqb_eq in H1. apply IH in H2. congruence.
  - inversion H; subst. rewrite Z.eqb_refl. cbn. apply IH. reflexivity.
Qed.

Definition fold_id (a : list Z) : list Z := map tolower (cprefix a).
Lemma id_eq_ci_spec a b : id_eq_ci a b = true <-> fold_id a = fold_id b.
Proof. unfold id_eq_ci. apply zlist_eqb_eq. Qed.
Lemma id_eq_ci_refl a : id_eq_ci a a = true.
Proof. apply id_eq_ci_spec. reflexivity. Qed.
Lemma id_eq_ci_sym a b : id_eq_ci a b = true -> id_eq_ci b a = true.
Proof. rewrite !id_eq_ci_spec. congruence. Qed.
Lemma id_eq_ci_trans a b c : id_eq_ci a b = true -> id_eq_ci b c = true -> id_eq_ci a c = true.
Proof. rewrite !id_eq_ci_spec. congruence. Qed.
Lemma cstr_eq_spec a b : cstr_eq a b = true <-> cprefix a = cprefix b.
Proof. unfold cstr_eq. apply zlist_eqb_eq. Qed.
Lemma cstr_eq_ci a b : cstr_eq a b = true -> id_eq_ci a b = true.
Proof. rewrite cstr_eq_spec, id_eq_ci_spec. unfold fold_id. congruence. Qed.

Lemma lower_upper c d : tolower c = tolower d -> toupper c = toupper d.
Proof.
  unfold tolower, toupper. intros H.
  destruct (Z.leb_spec 65 c), (Z.leb_spec c 90), (Z.leb_spec 65 d), (Z.leb_spec d 90),
           (Z.leb_spec 97 c), (Z.leb_spec c 122), (Z.leb_spec 97 d), (Z.leb_spec d 122); cbn [andb] in *; lia.
Qed.
Lemma tolower_zero c : tolower c = 0 <-> c = 0.
Proof. unfold tolower. destruct (Z.leb_spec 65 c), (Z.leb_spec c 90); cbn [andb]; lia. Qed.

Lemma fnv_nil_prefix b h : cprefix b = [] -> fnv1a_case b h = h.
Proof. destruct b as [|d b]; [reflexivity|]. cbn [cprefix fnv1a_case]. destruct (d =? 0); [reflexivity|discriminate]. Qed.

Lemma fnv_ci : forall a b h, fold_id a = fold_id b -> fnv1a_case a h = fnv1a_case b h.
Proof.
  unfold fold_id. induction a as [|c a IH]; intros b h H.
  - cbn in H. symmetry in H. apply map_eq_nil in H. rewrite (fnv_nil_prefix b h H). reflexivity.
  - cbn [cprefix fnv1a_case] in *. destruct (Z.eqb_spec c 0) as [Hc|Hc].
    + cbn in H. symmetry in H. apply map_eq_nil in H. rewrite (fnv_nil_prefix b h H). reflexivity.
    + destruct b as [|d b]; [discriminate H|]. cbn [cprefix fnv1a_case] in *.
      destruct (Z.eqb_spec d 0) as [Hd|Hd]; [discriminate H|].
      cbn [map] in H. inversion H as [[H1 H2]]. rewrite (lower_upper c d H1). apply IH. exact H2.
Qed.

Lemma id_eq_ci_hash a b : id_eq_ci a b = true -> uhash a = uhash b.
Proof. intros H. apply id_eq_ci_spec in H. unfold uhash. rewrite (fnv_ci a b _ H). reflexivity. Qed.

(* ------------------------------------------------------------------ in_range *)
Lemma in_range_spec x : in_range x = true <-> 0 <= x < MAXU.
Proof. unfold in_range. rewrite andb_true_iff, Z.leb_le, Z.ltb_lt. reflexivity. Qed.

(* ------------------------------------------------------------------ the walks, on a chain *)
Definition tail_ptr (l : list Z) (isn : bool) (p : Z) : bool * Z :=
  match l with [] => (isn, p) | _ => (true, last l 0) end.

Lemma tail_ptr_cons a l isn p : tail_ptr (a :: l) isn p = tail_ptr l true a.
Proof. destruct l; reflexivity. Qed.

Lemma add_walk_chain nxm : forall val l, chain (tget nxm) val l -> (forall x, In x l -> in_range x = true) ->
  forall fuel isn p, (length l < fuel)%nat -> add_walk fuel nxm isn p val = Ok (Some (tail_ptr l isn p)).
Proof.
  induction 1 as [|a l Ha Hc IH]; intros Hr fuel isn p Hf; (destruct fuel as [|f]; [cbn in Hf; lia|]); cbn [add_walk].
  - reflexivity.
  - destruct (Z.eqb_spec a (-1)); [contradiction|]. rewrite (Hr a (or_introl eq_refl)).
    rewrite IH; [rewrite tail_ptr_cons; reflexivity| |cbn in Hf; lia]. intros x Hx. apply Hr. right. exact Hx.
Qed.

Lemma rm_walk_absent nxm slot : forall val l, chain (tget nxm) val l -> ~ In slot l -> (forall x, In x l -> in_range x = true) ->
  forall fuel isn p, (length l < fuel)%nat -> rm_walk fuel nxm slot isn p val = Ok (Some (tail_ptr l isn p, -1)).
Proof.
  induction 1 as [|a l Ha Hc IH]; intros Hni Hr fuel isn p Hf; (destruct fuel as [|f]; [cbn in Hf; lia|]); cbn [rm_walk].
  - reflexivity.
  - destruct (Z.eqb_spec a (-1)); [contradiction|]. destruct (Z.eqb_spec a slot) as [->|Hne]; [exfalso; apply Hni; left; reflexivity|].
    cbn [orb]. rewrite (Hr a (or_introl eq_refl)).
    rewrite IH; [rewrite tail_ptr_cons; reflexivity| | |cbn in Hf; lia].
    + intros Hin. apply Hni. right. exact Hin.
    + intros x Hx. apply Hr. right. exact Hx.
Qed.

Lemma rm_walk_found nxm slot : forall l1 val l2, chain (tget nxm) val (l1 ++ slot :: l2) -> ~ In slot l1 ->
  (forall x, In x l1 -> in_range x = true) ->
  forall fuel isn p, (length l1 < fuel)%nat -> rm_walk fuel nxm slot isn p val = Ok (Some (tail_ptr l1 isn p, slot)).
Proof.
  induction l1 as [|a l1 IH]; intros val l2 Hc Hni Hr fuel isn p Hf; (destruct fuel as [|f]; [cbn in Hf; lia|]); cbn [rm_walk app] in *.
  - inversion Hc; subst. rewrite Z.eqb_refl, orb_true_r. reflexivity.
  - inversion Hc as [|? ? Ha Hc']; subst.
    destruct (Z.eqb_spec a (-1)); [contradiction|]. destruct (Z.eqb_spec a slot) as [->|Hne]; [exfalso; apply Hni; left; reflexivity|].
    cbn [orb]. rewrite (Hr a (or_introl eq_refl)).
    rewrite (IH _ l2); [rewrite tail_ptr_cons; reflexivity|exact Hc'| | |cbn in Hf; lia].
    + intros Hin. apply Hni. right. exact Hin.
    + intros x Hx. apply Hr. right. exact Hx.
Qed.

Lemma load_walk_chain nxm onfly i : forall val l, chain (tget nxm) val l -> (forall x, In x l -> in_range x = true) ->
  forall fuel isn p, (length l < fuel)%nat ->
  load_walk fuel nxm onfly i isn p val = Ok (if onfly && existsb (fun x => x =? i) l then None else Some (tail_ptr l isn p)).
Proof.
  induction 1 as [|a l Ha Hc IH]; intros Hr fuel isn p Hf; (destruct fuel as [|f]; [cbn in Hf; lia|]); cbn [load_walk].
  - cbn [existsb]. rewrite andb_false_r. reflexivity.
  - rewrite (Hr a (or_introl eq_refl)). cbn [existsb].
    destruct onfly; cbn [andb].
    + destruct (a =? i); cbn [orb]; [reflexivity|].
      rewrite IH; [rewrite tail_ptr_cons; reflexivity| |cbn in Hf; lia]. intros x Hx. apply Hr. right. exact Hx.
    + rewrite IH; [rewrite tail_ptr_cons; reflexivity| |cbn in Hf; lia]. intros x Hx. apply Hr. right. exact Hx.
Qed.

Definition hd (s : st) : Z -> Z := tget (head s).
Definition nx (s : st) : Z -> Z := tget (next s).
Definition idf (s : st) : Z -> list Z := tget (ids s).

Lemma search_walk_chain s q : forall val l, chain (nx s) val l -> (forall x, In x l -> in_range x = true) ->
  forall fuel, (length l <= fuel)%nat ->
  search_walk fuel s q val = Ok (match find (fun x => id_eq_ci q (idf s x)) l with Some x => x + 1 | None => 0 end).
Proof.
  induction 1 as [|a l Ha Hc IH]; intros Hr fuel Hf.
  - destruct fuel; reflexivity.
  - destruct fuel as [|f]; [cbn in Hf; lia|]. cbn [search_walk find].
    pose proof (Hr a (or_introl eq_refl)) as Hra. apply in_range_spec in Hra.
    destruct (Z.eqb_spec a (-1)); [contradiction|]. destruct (Z.leb_spec MAXU a); [lia|]. cbn [orb].
    destruct (Z.ltb_spec a 0); [lia|]. fold (idf s a). destruct (id_eq_ci q (idf s a)); [reflexivity|].
    apply IH; [|cbn in Hf; lia]. intros x Hx. apply Hr. right. exact Hx.
Qed.

Lemma check_walk_wf s h : forall val l, chain (nx s) val l ->
  (forall x, In x l -> in_range x = true /\ uhash (idf s x) = h) ->
  forall fuel isn p, (length l < fuel)%nat -> check_walk fuel s h isn p val = Ok s.
Proof.
  induction 1 as [|a l Ha Hc IH]; intros Hr fuel isn p Hf; (destruct fuel as [|f]; [cbn in Hf; lia|]); cbn [check_walk].
  - reflexivity.
  - destruct (Hr a (or_introl eq_refl)) as [Hra Hha]. apply in_range_spec in Hra.
    destruct (Z.eqb_spec a (-1)); [contradiction|].
    destruct (Z.ltb_spec a (-1)); [lia|]. destruct (Z.leb_spec MAXU a); [lia|]. cbn [orb].
    fold (idf s a). rewrite Hha, Z.eqb_refl. cbn [negb].
    apply IH; [|cbn in Hf; lia]. intros x Hx. apply Hr. right. exact Hx.
Qed.

(* ------------------------------------------------------------------ the invariant on states *)
Definition WF (s : st) : Prop := WFf (hd s) (nx s) (idf s).
Definition on_chain (s : st) (x : Z) : Prop := on_chainf (hd s) (nx s) x.

(* what WF gives for one bucket *)
Lemma WF_bucket s h : WF s -> hash_ok h -> exists l, chain (nx s) (hd s h) l /\ NoDup l /\
  (forall x, In x l -> in_range x = true) /\ (forall x, In x l -> uhash (idf s x) = h) /\ (length l <= Z.to_nat MAXU)%nat.
Proof.
  intros W Hh. destruct (W h Hh) as [l [Hc [Hnd Hx]]]. exists l. split; [exact Hc|]. split; [exact Hnd|].
  assert (Hr : forall x, In x l -> in_range x = true) by (intros x Hin; apply (Hx x Hin)).
  split; [exact Hr|]. split; [intros x Hin; apply (Hx x Hin)|]. apply range_len_bound; assumption.
Qed.

(* a slot that is on a chain is on the chain of its id's bucket *)
Lemma on_chain_own_bucket s x : WF s -> on_chain s x -> exists l, chain (nx s) (hd s (uhash (idf s x))) l /\ In x l.
Proof.
  intros W [h [l [Hh [Hc Hin]]]]. pose proof (WFf_on_chain_bucket _ _ _ x h l W Hh Hc Hin) as E. rewrite E. exists l. auto.
Qed.

(* the state after linking [slot] behind the tail of bucket h (l0 = the chain of h) *)
Definition link_state (s1 : st) (l0 : list Z) (h slot : Z) : st :=
  set_next (set_link s1 (fst (tail_ptr l0 false h)) (snd (tail_ptr l0 false h)) slot) slot (-1).

Lemma link_state_wf s s1 slot h l0 : WF s -> in_range slot = true -> ~ on_chain s slot -> hash_ok h ->
  head s1 = head s -> next s1 = next s -> uhash (idf s1 slot) = h -> (forall x, x <> slot -> idf s1 x = idf s x) ->
  chain (nx s) (hd s h) l0 ->
  let s' := link_state s1 l0 h slot in
  WF s' /\ (forall x, idf s' x = idf s1 x) /\ (forall x, on_chain s' x <-> on_chain s x \/ x = slot) /\
  number s' = number s1 /\ loaded s' = loaded s1.
Proof.
  intros W Hr Hfree Hh Eh En Hid Hoth Hc s'.
  destruct (WFf_link (hd s) (nx s) (idf s) (idf s1) slot h l0 W Hr Hfree Hh Hid Hoth Hc) as [W' [_ Hon]].
  assert (Ehd : forall x, (if match l0 with [] => true | _ => false end then upd (hd s) h slot else hd s) x = hd s' x).
  { intros x. subst s'. unfold link_state, hd. destruct l0 as [|a l0]; cbn [tail_ptr fst snd set_link set_next set_head head].
    - rewrite Eh. rewrite tget_tset. reflexivity.
    - rewrite Eh. reflexivity. }
  assert (Enx : forall x, (if match l0 with [] => true | _ => false end then upd (nx s) slot (-1) else upd (upd (nx s) (last l0 0) slot) slot (-1)) x = nx s' x).
  { intros x. subst s'. unfold link_state, nx. destruct l0 as [|a l0]; cbn [tail_ptr fst snd set_link set_next set_head next].
    - rewrite En. rewrite tget_tset. reflexivity.
    - rewrite En. rewrite !tget_tset. reflexivity. }
  assert (Eid : forall x, idf s1 x = idf s' x).
  { intros x. subst s'. unfold link_state, idf. destruct (fst (tail_ptr l0 false h)); reflexivity. }
  split; [exact (WFf_ext _ _ _ _ _ _ Ehd Enx Eid W')|].
  split; [intros x; symmetry; apply Eid|].
  split.
  - intros x. unfold on_chain. rewrite <- Hon.
    split; [apply on_chainf_ext; intros y; symmetry; [apply Ehd|apply Enx]|apply on_chainf_ext; intros y; [apply Ehd|apply Enx]].
  - subst s'. unfold link_state. destruct (fst (tail_ptr l0 false h)); split; reflexivity.
Qed.

(* ------------------------------------------------------------------ AddToUHash *)
Lemma add_wf s slot id : WF s -> in_range slot = true -> ~ on_chain s slot ->
  exists s', add_to_uhash s slot id = Ok (s', 0) /\ WF s' /\ idf s' slot = id /\ (forall x, x <> slot -> idf s' x = idf s x) /\
    (forall x, on_chain s' x <-> on_chain s x \/ x = slot) /\ number s' = number s /\ loaded s' = loaded s.
Proof.
  intros W Hr Hfree. unfold add_to_uhash. rewrite Hr. cbn [negb]. cbv zeta.
  set (h := uhash id). set (s1 := set_id s slot id).
  destruct (WF_bucket s h W (uhash_ok id)) as [l0 [Hc [Hnd [Hrange [_ _]]]]].
  assert (Hni : ~ In slot l0) by (intros Hin; apply Hfree; exists h, l0; split; [apply uhash_ok|auto]).
  pose proof (range_len_bound_strict l0 slot Hnd Hrange Hr Hni) as Hlen.
  change (next s1) with (next s). change (tget (head s1) h) with (hd s h).
  rewrite (add_walk_chain (next s) (hd s h) l0 Hc Hrange FUEL_MAXU false h Hlen).
  assert (Hid1 : idf s1 slot = id) by (unfold idf, s1; cbn [set_id ids]; apply tget_tset_same).
  assert (Hoth1 : forall x, x <> slot -> idf s1 x = idf s x) by (intros x Hx; unfold idf, s1; cbn [set_id ids]; apply tget_tset_other; exact Hx).
  destruct (link_state_wf s s1 slot h l0 W Hr Hfree (uhash_ok id) eq_refl eq_refl) as [W' [Hids [Hon [Hn Hl]]]];
    [rewrite Hid1; reflexivity|exact Hoth1|exact Hc|].
  exists (link_state s1 l0 h slot). split.
  - unfold link_state. destruct (tail_ptr l0 false h) as [isn p]. reflexivity.
  - split; [exact W'|]. split; [rewrite Hids; exact Hid1|]. split; [intros x Hx; rewrite Hids; apply Hoth1; exact Hx|].
    split; [exact Hon|]. split; assumption.
Qed.

(* ------------------------------------------------------------------ RemoveFromUHash *)
Lemma in_split_first (x : Z) : forall l, In x l -> exists l1 l2, l = l1 ++ x :: l2 /\ ~ In x l1.
Proof.
  induction l as [|a l IH]; intros Hin; [destruct Hin|].
  destruct (Z.eq_dec a x) as [->|Hne].
  - exists [], l. split; [reflexivity|intros []].
  - destruct Hin as [E|Hin]; [contradiction|]. destruct (IH Hin) as [l1 [l2 [E Hni]]]. exists (a :: l1), l2. split.
    + rewrite E. reflexivity.
    + intros [E'|Hin']; [contradiction|auto].
Qed.

Lemma remove_wf s slot : WF s -> in_range slot = true ->
  exists s', remove_from_uhash s slot = Ok (s', 0) /\ WF s' /\ (forall x, idf s' x = idf s x) /\
    (forall x, on_chain s' x <-> on_chain s x /\ x <> slot) /\ number s' = number s /\ loaded s' = loaded s.
Proof.
  intros W Hr. unfold remove_from_uhash. rewrite Hr. cbn [negb]. cbv zeta.
  fold (idf s slot). set (h := uhash (idf s slot)).
  destruct (WF_bucket s h W (uhash_ok _)) as [l0 [Hc [Hnd [Hrange [_ Hlen0]]]]].
  fold (hd s h).
  destruct (in_dec Z.eq_dec slot l0) as [Hin|Hni].
  - destruct (in_split_first slot l0 Hin) as [l1 [l2 [E Hni1]]]. subst l0.
    assert (Hr1 : forall x, In x l1 -> in_range x = true) by (intros x Hx; apply Hrange; apply in_or_app; left; exact Hx).
    assert (Hlen1 : (length l1 < FUEL_MAXU)%nat).
    { unfold FUEL_MAXU. rewrite app_length in Hlen0. cbn [length] in Hlen0. lia. }
    rewrite (rm_walk_found (next s) slot l1 (hd s h) l2 Hc Hni1 Hr1 FUEL_MAXU false h Hlen1).
    rewrite Z.eqb_refl.
    destruct (WFf_unlink (hd s) (nx s) (idf s) slot l1 l2 W Hc) as [W' Hon].
    set (s' := set_link s (fst (tail_ptr l1 false h)) (snd (tail_ptr l1 false h)) (tget (next s) slot)).
    assert (Ehd : forall x, (if match l1 with [] => true | _ => false end then upd (hd s) (uhash (idf s slot)) (nx s slot) else hd s) x = hd s' x).
    { intros x. subst s'. unfold hd, nx. destruct l1 as [|a l1]; cbn [tail_ptr fst snd set_link set_next set_head head].
      - rewrite tget_tset. reflexivity.
      - reflexivity. }
    assert (Enx : forall x, (if match l1 with [] => true | _ => false end then nx s else upd (nx s) (last l1 0) (nx s slot)) x = nx s' x).
    { intros x. subst s'. unfold nx. destruct l1 as [|a l1]; cbn [tail_ptr fst snd set_link set_next set_head next].
      - reflexivity.
      - rewrite tget_tset. reflexivity. }
    assert (Eid : forall x, idf s x = idf s' x) by (intros x; subst s'; unfold idf; destruct (fst (tail_ptr l1 false h)); reflexivity).
    exists s'. split; [subst s'; destruct (tail_ptr l1 false h); reflexivity|].
    split; [exact (WFf_ext _ _ _ _ _ _ Ehd Enx Eid W')|]. split; [intros x; symmetry; apply Eid|]. split.
    + intros x. unfold on_chain. rewrite <- Hon.
    split; [apply on_chainf_ext; intros y; symmetry; [apply Ehd|apply Enx]|apply on_chainf_ext; intros y; [apply Ehd|apply Enx]].
    + subst s'. destruct (fst (tail_ptr l1 false h)); split; reflexivity.
  - assert (Hlen : (length l0 < FUEL_MAXU)%nat) by (apply range_len_bound_strict with (slot := slot); assumption).
    rewrite (rm_walk_absent (next s) slot (hd s h) l0 Hc Hni Hrange FUEL_MAXU false h Hlen).
    apply in_range_spec in Hr. destruct (Z.eqb_spec (-1) slot); [lia|]. destruct (tail_ptr l0 false h) as [isn0 p0].
    exists s. split; [reflexivity|]. split; [exact W|]. split; [reflexivity|]. split; [|split; reflexivity].
    intros x. split; [|intros [H _]; exact H]. intros Hon. split; [exact Hon|]. intros ->.
    destruct (on_chain_own_bucket s slot W Hon) as [l [Hc' Hin']]. fold h in Hc'.
    rewrite (chain_fun _ _ _ Hc' _ Hc) in Hin'. contradiction.
Qed.

(* ------------------------------------------------------------------ SetUserID *)
Lemma set_wf s uid id : WF s -> 1 <= uid <= MAXU ->
  exists s', set_user_id s uid id = Ok (s', 0) /\ WF s' /\ idf s' (uid - 1) = id /\ (forall x, x <> uid - 1 -> idf s' x = idf s x) /\
    (forall x, on_chain s' x <-> on_chain s x \/ x = uid - 1) /\ number s' = number s /\ loaded s' = loaded s.
Proof.
  intros W Hu. unfold set_user_id.
  destruct (Z.leb_spec uid 0); [lia|]. destruct (Z.ltb_spec MAXU uid); [lia|]. cbn [orb].
  assert (Hr : in_range (uid - 1) = true) by (apply in_range_spec; lia).
  destruct (remove_wf s (uid - 1) W Hr) as [s1 [E1 [W1 [Hid1 [Hon1 [Hn1 Hl1]]]]]]. rewrite E1.
  assert (Hfree : ~ on_chain s1 (uid - 1)) by (intros Hx; apply Hon1 in Hx; destruct Hx as [_ Hx]; congruence).
  destruct (add_wf s1 (uid - 1) id W1 Hr Hfree) as [s2 [E2 [W2 [Hid2 [Hoth2 [Hon2 [Hn2 Hl2]]]]]]]. rewrite E2.
  exists s2. split; [reflexivity|]. split; [exact W2|]. split; [exact Hid2|].
  split; [intros x Hx; rewrite Hoth2 by exact Hx; apply Hid1|]. split; [|split; congruence].
  intros x. rewrite Hon2, Hon1. destruct (Z.eq_dec x (uid - 1)); tauto.
Qed.

Lemma set_invalid s uid id : ~ (1 <= uid <= MAXU) -> set_user_id s uid id = Ok (s, ERR_INVALID_UID).
Proof.
  intros H. unfold set_user_id. destruct (Z.leb_spec uid 0); [reflexivity|]. destruct (Z.ltb_spec MAXU uid); [reflexivity|]. lia.
Qed.
