(* C19: cleanup / rebuildFav. On a tree whose levels have consistent counters (Proofs/C19_api.v: lvl) the rebuild
   does not panic, keeps exactly the entries that have FAVH_FAV (recursively, in order, payloads untouched), and
   leaves counters = entry counts and sequential ids on every level. *)
From Verif Require Import Base.Common Base.ListX Base.Fs Gen.Consts_default Model.C19 Proofs.C19_rt Proofs.C19_api.
From Coq Require Import ZifyBool.
Ltac Zify.zify_post_hook ::= Z.div_mod_to_equations.

(* the valid entries of a forest, recursively, in order, with their payloads (attr, bid, LastVisit, board attr,
   title); line ids, folder ids and all counters forgotten *)
Fixpoint skel_item (i : item) : item :=
  match i with
  | IBoard a b v ba => IBoard a b v ba
  | ILine a _ => ILine a 0
  | IFolder a _ t _ sub =>
      IFolder a 0 t empty_hdr (fold_right (fun x acc => if item_valid x then skel_item x :: acc else acc) [] sub)
  end.
Definition skel_items (its : list item) : list item :=
  fold_right (fun x acc => if item_valid x then skel_item x :: acc else acc) [] its.

Lemma skel_cons x r : skel_items (x :: r) = if item_valid x then skel_item x :: skel_items r else skel_items r.
Proof. reflexivity. Qed.

Lemma counts_cons i r : nboards r <= nboards (i :: r) /\ nlines r <= nlines (i :: r) /\ nfolders r <= nfolders (i :: r) /\
  total_items r <= total_items (i :: r).
Proof. rewrite total_items_cons. pose proof (total_item_nonneg i). destruct i; cbn [nboards nlines nfolders]; lia. Qed.

Ltac tuple5 := match goal with |- Ok (?x, (?a, ?b, ?c, ?d, ?e)) = Ok (?x', (?a', ?b', ?c', ?d', ?e')) =>
  replace a with a' by lia; replace b with b' by lia; replace c with c' by lia; replace d with d' by lia; replace e with e' by lia;
  reflexivity end.

(* what rebuilding one (valid) folder entry gives *)
Definition rb_spec (z : bool) (i : item) : Prop :=
  match i with
  | IFolder a f t h sub => sok_item z i ->
      exists h' sub', rebuild_item i = Ok (IFolder a f t h' sub') /\ level_ok h' sub' /\ h_favnum h' = h_favnum h /\
        Forall (sok_item z) sub' /\ skel_items sub' = skel_items sub /\ existsb need_rebuild_item sub' = false /\
        total_items sub' <= total_items sub
  | _ => True
  end.

Definition rb_post (z : bool) (its its' : list item) : Prop :=
  Forall (sok_item z) its' /\ skel_items its' = skel_items its /\ existsb need_rebuild_item its' = false /\
  nboards its' <= nboards its /\ nlines its' <= nlines its /\ nfolders its' <= nfolders its /\
  total_items its' <= total_items its.

Lemma rebuild_items_ok z its : Forall (sok_item z) its -> Forall (rb_spec z) its ->
  forall nb nl nf lid fid,
  0 <= nb -> nb + nboards its < 32768 -> 0 <= nl -> nl + nlines its < 128 -> 0 <= nf -> nf + nfolders its < 128 ->
  0 <= lid -> lid + nlines its < 128 -> 0 <= fid -> fid + nfolders its < 128 ->
  exists its', rebuild_items rebuild_item its nb nl nf lid fid =
      Ok (its', (nb + nboards its', nl + nlines its', nf + nfolders its', lid + nlines its', fid + nfolders its')) /\
    ids_seq its' lid fid /\ rb_post z its its'.
Proof.
  intros Hs Hrb. induction its as [|i r IH]; intros nb nl nf lid fid B1 B2 B3 B4 B5 B6 B7 B8 B9 B10.
  - exists []. cbn [rebuild_items nboards nlines nfolders]. rewrite !Z.add_0_r. split; [reflexivity|]. split; [exact I|].
    unfold rb_post. cbn. repeat split; try lia. constructor.
  - inversion Hs as [|? ? Hi Hr]; subst. inversion Hrb as [|? ? Hbi Hbr]; subst. specialize (IH Hr Hbr).
    pose proof (counts_nonneg r) as (N1 & N2 & N3). pose proof (counts_cons i r) as (M1 & M2 & M3 & M4).
    cbn [rebuild_items]. unfold rb_post. rewrite skel_cons.
    destruct (item_valid i) eqn:Ev; cbn [negb].
    2:{ destruct (IH nb nl nf lid fid) as (its' & E & Hid & Hall & Hsk & Hnr & C1 & C2 & C3 & C4); try lia.
        exists its'. split; [exact E|]. split; [exact Hid|]. rewrite Hsk. repeat split; try assumption; lia. }
    destruct i as [a b v ba|a l|a f t h sub]; cbn [nboards nlines nfolders] in *.
    + rewrite (wrap16_id (nb + 1)) by lia.
      destruct (IH (nb + 1) nl nf lid fid) as (its' & E & Hid & Hall & Hsk & Hnr & C1 & C2 & C3 & C4); try lia.
      exists (IBoard a b v ba :: its'). rewrite E. cbn [res_map nboards nlines nfolders ids_seq].
      split; [tuple5|]. split; [exact Hid|].
      rewrite skel_cons, Ev, Hsk, !total_items_cons. cbn [existsb need_rebuild_item]. rewrite Ev. cbn [negb orb].
      split; [constructor; assumption|]. repeat split; try assumption; try lia.
    + rewrite (wrap8_id (lid + 1)) by lia. rewrite (wrap8_id (nl + 1)) by lia.
      destruct (IH nb (nl + 1) nf (lid + 1) fid) as (its' & E & Hid & Hall & Hsk & Hnr & C1 & C2 & C3 & C4); try lia.
      exists (ILine a (lid + 1) :: its'). rewrite E. cbn [res_map nboards nlines nfolders ids_seq].
      split; [tuple5|]. split; [split; [reflexivity|exact Hid]|].
      assert (Ev' : item_valid (ILine a (lid + 1)) = true) by exact Ev.
      rewrite skel_cons, Ev', Hsk, !total_items_cons. cbn [existsb need_rebuild_item]. rewrite Ev'. cbn [negb orb skel_item total_item].
      split; [constructor; [|assumption]|repeat split; try assumption; try lia].
      cbn [sok_item] in *. unfold i8 in *. lia.
    + cbn [rb_spec] in Hbi. destruct (Hbi Hi) as (h' & sub' & E1 & Hl' & Hfn' & Hs' & Hsk' & Hnr' & Ht').
      rewrite E1. cbn [res_bind]. rewrite (wrap8_id (fid + 1)) by lia. rewrite (wrap8_id (nf + 1)) by lia.
      destruct (IH nb nl (nf + 1) lid (fid + 1)) as (its' & E & Hid & Hall & Hsk & Hnr & C1 & C2 & C3 & C4); try lia.
      exists (IFolder a (fid + 1) t h' sub' :: its'). rewrite E. cbn [res_map nboards nlines nfolders ids_seq].
      split; [tuple5|]. split; [split; [reflexivity|exact Hid]|].
      assert (Ev' : item_valid (IFolder a (fid + 1) t h' sub') = true) by exact Ev.
      rewrite skel_cons, Ev', Hsk, !total_items_cons. cbn [existsb need_rebuild_item]. rewrite Ev', Hnr'. cbn [negb orb].
      change (skel_item (IFolder a (fid + 1) t h' sub')) with (IFolder a 0 t empty_hdr (skel_items sub')).
      change (skel_item (IFolder a f t h sub)) with (IFolder a 0 t empty_hdr (skel_items sub)). rewrite Hsk'.
      change (total_item (IFolder a (fid + 1) t h' sub')) with (total_items sub').
      change (total_item (IFolder a f t h sub)) with (total_items sub).
      split; [constructor; [|assumption]|repeat split; try assumption; try lia].
      cbn [sok_item] in *. destruct Hi as (Ha & Hf & Htl & _ & Hz & _). sok_split; try assumption.
      * unfold i8 in *. lia.
      * destruct z; [rewrite Hfn'; exact Hz|exact I].
      * apply fold_right_Forall. exact Hs'.
Qed.

Lemma rebuild_with_ok z h its : nlines its < 128 -> nfolders its < 128 -> lenZ its < 32768 ->
  Forall (sok_item z) its -> Forall (rb_spec z) its ->
  exists h' its', rebuild_with rebuild_item h its = Ok (h', its') /\ level_ok h' its' /\ h_favnum h' = h_favnum h /\
    Forall (sok_item z) its' /\ skel_items its' = skel_items its /\ existsb need_rebuild_item its' = false /\
    total_items its' <= total_items its.
Proof.
  intros Bl Bf Bn Hs Hrb. pose proof (counts_nonneg its) as (N1 & N2 & N3). pose proof (counts_len its) as Hc.
  destruct (rebuild_items_ok z its Hs Hrb 0 0 0 0 0) as (its' & E & Hid & Hall & Hsk & Hnr & C1 & C2 & C3 & C4); try lia.
  pose proof (counts_nonneg its') as (N1' & N2' & N3'). pose proof (counts_len its') as Hc'.
  assert (N0 : 0 <= lenZ its') by (unfold lenZ; lia).
  unfold rebuild_with. rewrite E. cbn [res_bind]. rewrite !Z.add_0_l.
  set (h' := Hdr (nboards its') (nlines its') (nfolders its') (nlines its') (nfolders its') (h_favnum h)).
  assert (Hn : data_number h' = lenZ its').
  { unfold data_number, h'. cbn [h_nb h_nl h_nf]. rewrite Hc'. apply wrap16_id. lia. }
  cbv zeta. rewrite Hn.
  assert (Eb : (lenZ its' <? 0) || (lenZ its' <? lenZ its') = false) by lia. rewrite Eb.
  unfold lenZ at 1. rewrite Nat2Z.id, firstn_all.
  exists h', its'. split; [reflexivity|]. split; [|repeat split; assumption].
  unfold level_ok, h'. cbn [h_nb h_nl h_nf h_lineid h_folderid]. repeat split; try assumption; lia.
Qed.

Lemma rebuild_item_ok z i : rb_spec z i.
Proof.
  induction i as [| |a f t h sub IH] using item_ind'; try exact I.
  cbn [rb_spec]. intros Hi. cbn [sok_item] in Hi. destruct Hi as (_ & _ & _ & Hl & _ & Hs). apply fold_right_Forall in Hs.
  destruct Hl as (_ & _ & _ & _ & _ & _ & Bl & Bf & Bn).
  destruct (rebuild_with_ok z h sub Bl Bf Bn Hs IH) as (h' & sub' & E & R).
  exists h', sub'. split; [|exact R]. cbn [rebuild_item]. rewrite E. reflexivity.
Qed.

(* rebuildFav on a tree with consistent counters *)
Lemma rebuild_ok z f : lvl z f ->
  exists f', rebuild f = Ok f' /\ lvl z f' /\ h_favnum (fst f') = h_favnum (fst f) /\
    skel_items (snd f') = skel_items (snd f) /\ need_rebuild f' = false /\ total_items (snd f') <= total_items (snd f).
Proof.
  destruct f as [h its]. intros [Hl Hs]. cbn [fst snd] in *.
  destruct Hl as (_ & _ & _ & _ & _ & _ & Bl & Bf & Bn).
  destruct (rebuild_with_ok z h its Bl Bf Bn Hs) as (h' & its' & E & Hl' & Hfn & Hs' & Hsk & Hnr & Ht).
  { apply Forall_forall. intros x _. apply rebuild_item_ok. }
  exists (h', its'). unfold rebuild, lvl, need_rebuild. cbn [fst snd]. split; [exact E|split; [split; assumption|repeat split; assumption]].
Qed.

(* cleanup = rebuild when some entry lost FAVH_FAV, nothing otherwise *)
Lemma cleanup_ok z f : lvl z f ->
  exists f', cleanup f = Ok f' /\ lvl z f' /\ h_favnum (fst f') = h_favnum (fst f) /\
    skel_items (snd f') = skel_items (snd f) /\ need_rebuild f' = false /\ total_items (snd f') <= total_items (snd f).
Proof.
  intros Hl. unfold cleanup. destruct (need_rebuild f) eqn:En; [apply rebuild_ok; exact Hl|].
  exists f. split; [reflexivity|split; [exact Hl|repeat split; try assumption; lia]].
Qed.

(* in a tree that needs no rebuild every entry is valid: skel_items lists all entries *)
Lemma skel_all_valid its : existsb need_rebuild_item its = false -> skel_items its = map skel_item its.
Proof.
  induction its as [|x r IH]; [reflexivity|]. cbn [existsb map]. rewrite skel_cons. intros H.
  apply orb_false_iff in H. destruct H as [Hx Hr]. rewrite (IH Hr).
  destruct x; cbn [need_rebuild_item] in Hx; apply orb_false_iff in Hx; destruct Hx as [Hv _]; apply negb_false_iff in Hv; rewrite Hv; reflexivity.
Qed.

(* the statement of Props/C19.v *)
Lemma cleanup_spec z f : lvl z f ->
  exists f', cleanup f = Ok f' /\
    map skel_item (snd f') = skel_items (snd f) /\ need_rebuild f' = false /\
    lvl z f' /\ wf_fav f' /\ h_favnum (fst f') = h_favnum (fst f).
Proof.
  intros Hl. destruct (cleanup_ok z f Hl) as (f' & E & Hl' & Hfn & Hsk & Hnr & _).
  exists f'. split; [exact E|]. split; [rewrite <- Hsk; symmetry; apply skel_all_valid; exact Hnr|].
  split; [exact Hnr|]. split; [exact Hl'|]. split; [apply (lvl_wf z); exact Hl'|exact Hfn].
Qed.

(* without consistent counters the rebuild can panic or drop valid entries: 200 lines on one level wrap NLines (int8) *)
Example rebuild_needs_bounds :
  rebuild (Hdr 200 0 0 0 0 0, ILine 0 0 :: repeat (ILine 1 0) 200) = Crash /\
  exists f', rebuild (Hdr 256 0 0 0 0 0, ILine 0 0 :: repeat (ILine 1 0) 256) = Ok f' /\ snd f' = [].
Proof. split; [vm_compute; reflexivity|]. eexists. split; vm_compute; reflexivity. Qed.

(* non-vacuity: the example script of C19_api.v drops FAVH_FAV on the nested folder [0;0]; its board goes with it *)
Example ex_cleanup : exists t n t', run_script ex_script empty_fav 0 = Some (t, n) /\ need_rebuild t = true /\
  cleanup t = Ok t' /\ total_items (snd t) = 6 /\ total_items (snd t') = 4 /\ h_nf (fst t') = 1 /\ h_favnum (fst t') = 6.
Proof. eexists. eexists. eexists. split; [vm_compute; reflexivity|]. repeat split; vm_compute; reflexivity. Qed.
