(* C18 — CstrTokenR: the first token ends at the first NUL or separator byte *)
From Verif Require Import Base.Common Base.Cstr Model.C18.

Definition tok_stop (sep : list Z) (c : Z) : bool := (c =? 0) || in_bytes c sep.

Lemma index_byte_from_spec : forall s c i,
  (index_byte_from s c i = -1 /\ ~ In c s) \/
  (exists pre post, s = pre ++ c :: post /\ ~ In c pre /\ index_byte_from s c i = i + lenZ pre).
Proof.
  induction s as [|x s IH]; intros c i; [left; split; [reflexivity|intros []]|].
  cbn [index_byte_from]. destruct (x =? c) eqn:E.
  - apply Z.eqb_eq in E. subst x. right. exists [], s. split; [reflexivity|]. split; [intros []|unfold lenZ; cbn; lia].
  - apply Z.eqb_neq in E. destruct (IH c (i + 1)) as [[R N]|[pre [post [S [N R]]]]].
    + left. split; [exact R|]. intros [K|K]; [contradiction|exact (N K)].
    + right. exists (x :: pre), post. split; [cbn; rewrite S; reflexivity|]. split; [intros [K|K]; [contradiction|exact (N K)]|].
      rewrite R. unfold lenZ. cbn [length]. lia.
Qed.
Lemma index_byte_spec s c :
  (index_byte s c = -1 /\ ~ In c s) \/
  (exists pre post, s = pre ++ c :: post /\ ~ In c pre /\ index_byte s c = lenZ pre).
Proof.
  unfold index_byte. destruct (index_byte_from_spec s c 0) as [H|[pre [post [A [B C]]]]]; [left; exact H|].
  right. exists pre, post. split; [exact A|]. split; [exact B|lia].
Qed.

Definition tok_step (a : list Z) (m c : Z) : Z :=
  let i := index_byte a c in if i =? -1 then m else if i <? m then i else m.

(* the fold over the separators computes a minimum *)
Lemma tok_fold_spec a : forall sep m0, let M := fold_left (tok_step a) sep m0 in
  M <= m0 /\ (forall c, In c sep -> index_byte a c = -1 \/ M <= index_byte a c) /\
  (M = m0 \/ exists c, In c sep /\ index_byte a c = M /\ M <> -1).
Proof.
  induction sep as [|c sep IH]; intros m0; cbn zeta.
  - cbn [fold_left]. split; [lia|]. split; [intros c []|left; reflexivity].
  - cbn [fold_left]. specialize (IH (tok_step a m0 c)). cbn zeta in IH. destruct IH as [A [B C]].
    set (M := fold_left (tok_step a) sep (tok_step a m0 c)) in *.
    assert (S : tok_step a m0 c <= m0 /\ (index_byte a c = -1 \/ tok_step a m0 c <= index_byte a c) /\
                (tok_step a m0 c = m0 \/ (tok_step a m0 c = index_byte a c /\ index_byte a c <> -1))).
    { unfold tok_step. cbn zeta. destruct (index_byte a c =? -1) eqn:E1.
      - apply Z.eqb_eq in E1. split; [lia|]. split; [left; exact E1|left; reflexivity].
      - apply Z.eqb_neq in E1. destruct (index_byte a c <? m0) eqn:E2.
        + apply Z.ltb_lt in E2. split; [lia|]. split; [right; lia|right; split; [reflexivity|exact E1]].
        + apply Z.ltb_ge in E2. split; [lia|]. split; [right; lia|left; reflexivity]. }
    destruct S as [S1 [S2 S3]]. split; [lia|]. split.
    + intros c' [<-|K]; [destruct S2; [left; assumption|right; lia]|apply B; exact K].
    + destruct C as [C|[c' [K1 [K2 K3]]]].
      * destruct S3 as [S3|[S3 S4]]; [left; lia|]. right. exists c. split; [left; reflexivity|]. split; [lia|lia].
      * right. exists c'. split; [right; exact K1|]. split; assumption.
Qed.

Lemma in_firstn_idx (c : Z) : forall pre post n, ~ In c pre -> In c (firstn n (pre ++ c :: post)) -> (length pre < n)%nat.
Proof.
  induction pre as [|x pre IH]; intros post n N H.
  - destruct n; [destruct H|cbn; lia].
  - destruct n; [destruct H|]. cbn [app firstn] in H. destruct H as [H|H]; [exfalso; apply N; left; exact H|].
    cbn [length]. apply IH in H; [lia|]. intros K. apply N. right. exact K.
Qed.

Lemma in_bytes_in c l : in_bytes c l = true <-> In c l.
Proof.
  unfold in_bytes. rewrite existsb_exists. split.
  - intros [x [I E]]. apply Z.eqb_eq in E. subst x. exact I.
  - intros I. exists c. split; [exact I|apply Z.eqb_refl].
Qed.

Lemma skipn_S_cons {A} : forall n (a : list A) c t, skipn n a = c :: t -> skipn (S n) a = t.
Proof.
  induction n as [|n IH]; intros a c t H.
  - cbn in H. subst a. reflexivity.
  - destruct a as [|x a]; [discriminate|]. cbn [skipn] in H. cbn [skipn]. destruct a as [|y a]; [destruct n; discriminate|].
    exact (IH (y :: a) c t H).
Qed.

Definition tok_m0 (a : list Z) : Z := let i := index_byte a 0 in if i =? -1 then lenZ a else i.
Lemma token_min_idx_eq a sep : token_min_idx a sep = fold_left (tok_step a) sep (tok_m0 a).
Proof. reflexivity. Qed.

(* CstrTokenR(cstr, sep) = (first, rest): cstr = first ++ tail, no byte of first is NUL or a separator, and either
   tail is empty (then rest is) or tail = stop byte :: rest *)
Lemma token_r_spec a sep :
  let (f, r) := cstr_token_r a sep in
  exists tail, a = f ++ tail /\ Forall (fun c => tok_stop sep c = false) f /\
               ((tail = [] /\ r = []) \/ exists c, tail = c :: r /\ tok_stop sep c = true).
Proof.
  unfold cstr_token_r. rewrite (token_min_idx_eq a sep). set (m0 := tok_m0 a).
  pose proof (tok_fold_spec a sep m0) as F. cbn zeta in F. set (M := fold_left (tok_step a) sep m0) in *.
  destruct F as [F1 [F2 F3]].
  (* facts about m0 *)
  assert (Z0 : 0 <= m0 <= lenZ a /\ (index_byte a 0 = -1 \/ m0 = index_byte a 0) /\
               (m0 = lenZ a \/ exists pre post, a = pre ++ 0 :: post /\ m0 = lenZ pre)).
  { unfold m0, tok_m0. cbn zeta. destruct (index_byte_spec a 0) as [[R N]|[pre [post [S [N R]]]]].
    - rewrite R. cbn. unfold lenZ. split; [lia|]. split; [left; reflexivity|left; reflexivity].
    - rewrite R. replace (lenZ pre =? -1) with false by (symmetry; apply Z.eqb_neq; unfold lenZ; lia).
      split; [rewrite S; unfold lenZ; rewrite app_length; cbn [length]; lia|]. split; [right; reflexivity|].
      right. exists pre, post. split; [exact S|reflexivity]. }
  destruct Z0 as [Z1 [Z2 Z3]].
  assert (M0 : 0 <= M <= lenZ a).
  { split; [|lia]. destruct F3 as [->|[c [K1 [K2 K3]]]]; [lia|].
    destruct (index_byte_spec a c) as [[R _]|[pre [post [_ [_ R]]]]]; [lia|]. rewrite <- K2, R. unfold lenZ. lia. }
  exists (skipn (Z.to_nat M) a). split; [symmetry; apply firstn_skipn|]. split.
  - apply Forall_forall. intros c Hc. unfold tok_stop. apply orb_false_iff.
    assert (Hidx : forall c', In c' (firstn (Z.to_nat M) a) -> index_byte a c' <> -1 /\ index_byte a c' < M).
    { intros c' H'. destruct (index_byte_spec a c') as [[R N]|[pre [post [S [N R]]]]].
      - exfalso. apply N. apply (firstn_In _ _ _ H') || (clear -H'; revert H'; generalize (Z.to_nat M); induction a as [|x a IH]; intros n H; [destruct n; destruct H|destruct n; [destruct H|]; cbn in H; destruct H as [H|H]; [left; exact H|right; exact (IH _ H)]]).
      - rewrite S in H'. apply in_firstn_idx in H'; [|exact N]. rewrite R. unfold lenZ. lia. }
    split.
    + destruct (c =? 0) eqn:E; [|reflexivity]. apply Z.eqb_eq in E. subst c. destruct (Hidx 0 Hc) as [H1 H2].
      destruct Z2 as [Z2|Z2]; [contradiction|]. lia.
    + destruct (in_bytes c sep) eqn:E; [|reflexivity]. apply in_bytes_in in E. destruct (Hidx c Hc) as [H1 H2].
      destruct (F2 c E); [contradiction|lia].
  - destruct (skipn (Z.to_nat M) a) as [|c t] eqn:K.
    + left. split; [reflexivity|]. apply (f_equal (@length Z)) in K. rewrite skipn_length in K. cbn in K.
      replace (M >=? lenZ a - 1) with true; [reflexivity|]. symmetry. rewrite Z.geb_leb. apply Z.leb_le. unfold lenZ in *. lia.
    + right. exists c.
      assert (Lk : (length a = Z.to_nat M + S (length t))%nat).
      { apply (f_equal (@length Z)) in K. rewrite skipn_length in K. cbn [length] in K. lia. }
      assert (Sk : skipn (Z.to_nat (M + 1)) a = t).
      { replace (Z.to_nat (M + 1)) with (S (Z.to_nat M)) by lia. exact (skipn_S_cons _ _ _ _ K). }
      split.
      * f_equal. destruct (M >=? lenZ a - 1) eqn:G; [|symmetry; exact Sk].
        rewrite Z.geb_leb in G. apply Z.leb_le in G. unfold lenZ in G. destruct t; [reflexivity|cbn [length] in Lk; lia].
      * (* the byte at M is a stop byte *)
        assert (At : forall pre post x, a = pre ++ x :: post -> lenZ pre = M -> c = x).
        { intros pre post x S L. rewrite S in K. unfold lenZ in L. replace (Z.to_nat M) with (length pre) in K by lia.
          rewrite skipn_app, skipn_all, Nat.sub_diag in K. cbn in K. injection K as -> _. reflexivity. }
        unfold tok_stop. apply orb_true_iff.
        destruct F3 as [F3|[c' [K1 [K2 K3]]]].
        -- left. destruct Z3 as [Z3|[pre [post [S L]]]]; [unfold lenZ in *; lia|].
           rewrite (At pre post 0 S); [reflexivity|lia].
        -- right. apply in_bytes_in. destruct (index_byte_spec a c') as [[R _]|[pre [post [S [_ R]]]]]; [lia|].
           rewrite (At pre post c' S); [exact K1|lia].
Qed.

Example token_r_ex :
  cstr_token_r [97; 98; 44; 99; 0; 100] [59; 44] = ([97; 98], [99; 0; 100]) /\
  cstr_token_r [97; 0; 44; 99] [44] = ([97], [44; 99]) /\ cstr_token_r [97; 98] [44] = ([97; 98], []) /\
  cstr_token_r [] [44] = ([], []) /\ cstr_token_r [97; 44] [44] = ([97], []).
Proof. vm_compute. repeat split. Qed.
