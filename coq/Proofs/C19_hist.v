(* C19: several Saves of several users in one process (Model/C19.v: hstep, step_syscalls, run_hist). A Save that is
   refused after part of the image went into its temporary file, or whose temporary file cannot be created, has no
   influence on any later Save: after ANY history .fav of every user is exactly the image of the tree of that user's last
   ordinary Save, and loads as that tree. *)
From Verif Require Import Base.Common Base.ListX Base.Fs Gen.Consts_default Model.C19.
From Verif Require Import Proofs.C19_rt Proofs.C19_crash Proofs.C19_api Proofs.C19_clean Proofs.C19_save Proofs.C19_disk.
From Coq Require Import ZifyBool.
Ltac Zify.zify_post_hook ::= Z.div_mod_to_equations.

Definition step_user (st : hstep) : Z := match st with HSave u _ => u | HRefused u _ _ => u | HNoHome u _ => u end.
Definition step_tree (st : hstep) : fav := match st with HSave _ f => f | HRefused _ f _ => f | HNoHome _ f => f end.

(* the tree of the last ordinary Save of user u in the history *)
Fixpoint last_saved (u : Z) (h : list hstep) : option fav :=
  match h with
  | [] => None
  | st :: r => match last_saved u r with
               | Some f => Some f
               | None => match st with HSave v f => if v =? u then Some f else None | _ => None end
               end
  end.

Lemma uname_tmp_ne_fav u v : uname u FN_TMP <> uname v FN_FAV.
Proof. unfold uname, FN_TMP, FN_FAV. lia. Qed.

Lemma uname_fav_inj u v : uname u FN_FAV = uname v FN_FAV -> u = v.
Proof. unfold uname, FN_FAV. lia. Qed.

Lemma rename_save_ops g tmp dst chunks :
  map (rename_op g) (save_ops tmp dst chunks) = save_ops (g tmp) (g dst) chunks.
Proof.
  unfold save_ops. cbn [map rename_op]. rewrite map_app, map_map. cbn [map rename_op]. reflexivity.
Qed.

Lemma run_hist_cons st r disk : run_hist (st :: r) disk = run_hist r (exec disk (step_syscalls st)).
Proof. unfold run_hist. cbn [flat_map]. apply exec_app. Qed.

(* an ordinary Save of user u over ANY file system (whatever earlier Saves - complete, refused, failed - left there) *)
Lemma save_step z u f (disk : fs) : lvl z f ->
  exists f1, cleanup f = Ok f1 /\ wf_fav f1 /\
    save 1 (lookup (uname u FN_FAV) disk) f = SOk (Some (spec_file f1)) (renumber f1) /\
    lookup (uname u FN_FAV) (exec disk (step_syscalls (HSave u f))) = Some (spec_file f1) /\
    load (spec_file f1) = ROk (renumber f1) /\
    (forall m, m <> uname u FN_FAV -> m <> uname u FN_TMP ->
       lookup m (exec disk (step_syscalls (HSave u f))) = lookup m disk).
Proof.
  intros Hl.
  assert (Hwr : writes 1 (lookup (uname u FN_FAV) disk) = true) by (destruct (lookup (uname u FN_FAV) disk); reflexivity).
  destruct (save_written z f 1 (lookup (uname u FN_FAV) disk) Hl Hwr) as (f1 & Ec & Hw1 & Es & _).
  destruct (load_image f1 _ Hw1 (format f1 Hw1)) as (_ & El1).
  destruct (file_chunks_of_image f1 _ (format f1 Hw1)) as (cs & Ecs & Eb).
  exists f1. split; [exact Ec|]. split; [exact Hw1|]. split; [exact Es|].
  assert (Eops : step_syscalls (HSave u f) = save_ops (uname u FN_TMP) (uname u FN_FAV) (map snd cs)).
  { cbn [step_syscalls]. unfold save_syscalls, save_tmp_name. rewrite Ec. cbn [writes]. rewrite Ecs. apply rename_save_ops. }
  rewrite Eops. split; [|split; [exact El1|]].
  - rewrite (save_complete _ _ (map snd cs) disk (uname_tmp_ne_fav u u)). rewrite <- Eb. reflexivity.
  - intros m Hm1 Hm2. apply exec_frame. intros o Ho Hm.
    destruct (save_ops_targets _ _ _ o m Ho Hm); contradiction.
Qed.

(* a refused Save touches nothing but its own temporary file *)
Lemma refused_step_frame u f k (disk : fs) m : m <> uname u FN_TMP ->
  lookup m (exec disk (step_syscalls (HRefused u f k))) = lookup m disk.
Proof.
  intros Hm. apply exec_frame. intros o Ho Hin. cbn [step_syscalls] in Ho.
  destruct (cleanup f) as [f1| |]; [|destruct Ho..].
  destruct (file_chunks f1) as [cs| |]; [|destruct Ho..].
  destruct Ho as [<-|[<-|[]]]; cbn [op_targets In] in Hin; destruct Hin as [Hin|[]]; congruence.
Qed.

Lemma save_history z (h : list hstep) : Forall (fun st => lvl z (step_tree st)) h ->
  forall (disk : fs) (u : Z),
  match last_saved u h with
  | None => lookup (uname u FN_FAV) (run_hist h disk) = lookup (uname u FN_FAV) disk
  | Some f => exists f1, cleanup f = Ok f1 /\ wf_fav f1 /\
                lookup (uname u FN_FAV) (run_hist h disk) = Some (spec_file f1) /\
                load (spec_file f1) = ROk (renumber f1)
  end.
Proof.
  induction 1 as [|st r Hst Hr IH]; intros disk u; [reflexivity|].
  rewrite run_hist_cons. cbn [last_saved].
  specialize (IH (exec disk (step_syscalls st)) u).
  destruct (last_saved u r) as [f|]; [exact IH|].
  rewrite IH. destruct st as [v f|v f k|v f].
  - cbn [step_tree] in Hst.
    destruct (save_step z v f disk Hst) as (f1 & Ec & Hw1 & _ & Ex & El & Hfr).
    destruct (v =? u) eqn:Ev.
    + apply Z.eqb_eq in Ev. subst v. exists f1. split; [exact Ec|]. split; [exact Hw1|]. split; [exact Ex|exact El].
    + apply Z.eqb_neq in Ev. apply Hfr.
      * intros H. apply uname_fav_inj in H. congruence.
      * intros H. symmetry in H. exact (uname_tmp_ne_fav _ _ H).
  - apply refused_step_frame. intros H. symmetry in H. exact (uname_tmp_ne_fav _ _ H).
  - reflexivity.
Qed.

(* ---------------------------------------------------------------- non-vacuity *)
(* user 0 is refused after 9 bytes of the example tree, user 1 saves the example tree, user 0 cannot create its temporary
   file, user 0 saves the three-level tree: .fav of user 1 is the image of the cleaned example tree, .fav of user 0 the
   image of the three-level tree, and the 9 bytes of the refused save are in nobody's .fav *)
Example ex_history : exists t n t1 c,
  run_script ex_script empty_fav 0 = Some (t, n) /\ cleanup t = Ok t1 /\ file_image ex_tree = Ok c /\
  let h := [HRefused 0 t 9; HSave 1 t; HNoHome 0 t; HSave 0 ex_tree] in
  lookup (uname 0 FN_TMP) (run_hist (firstn 1 h) []) = Some (firstn 9 (spec_file t1)) /\
  lookup (uname 0 FN_FAV) (run_hist (firstn 3 h) []) = None /\
  lookup (uname 1 FN_FAV) (run_hist h []) = Some (spec_file t1) /\
  lookup (uname 0 FN_FAV) (run_hist h []) = Some c /\
  last_saved 1 h = Some t /\ last_saved 0 h = Some ex_tree /\ last_saved 2 h = None.
Proof.
  eexists. eexists. eexists. eexists. split; [vm_compute; reflexivity|]. split; [vm_compute; reflexivity|].
  split; [vm_compute; reflexivity|]. cbv zeta. repeat split; vm_compute; reflexivity.
Qed.
