(* C14 — whole records in front of the file do not matter: the interleaving model on [P ++ init] (P = k whole records) takes
   exactly the steps it takes on [init], with every index shifted by k and P left untouched. *)
From Verif Require Import Base.Common Model.C14.
From Coq Require Import Arith PeanoNat Lia.

Definition shift_pc (k : nat) (p : pc) : pc :=
  match p with
  | PSeeked i => PSeeked (k + i) | PHalf i => PHalf (k + i) | PWritten i => PWritten (k + i)
  | PUnflocked i => PUnflocked (k + i) | PDoneOk i => PDoneOk (k + i)
  | q => q
  end.

(* [s'] is [s] with P in front of the file and the indices shifted *)
Definition shifted (k : nat) (P : list Z) (s s' : st) : Prop :=
  (forall t, pcs s' t = shift_pc k (pcs s t)) /\ (forall p, tbl s' p = tbl s p) /\ owner s' = owner s /\
  file s' = P ++ file s /\ log s' = log s.

Lemma write_at_prefix (P f bs : list Z) off : write_at (length P + off) bs (P ++ f) = P ++ write_at off bs f.
Proof.
  unfold write_at.
  rewrite firstn_app, firstn_all2 by lia.
  replace (length P + off - length P)%nat with off by lia.
  rewrite app_length.
  replace (length P + off - (length P + length f))%nat with (off - length f)%nat by lia.
  rewrite skipn_app, (skipn_all2 P) by lia.
  replace (length P + off + length bs - length P)%nat with (off + length bs)%nat by lia.
  cbn [app]. rewrite <- app_assoc. reflexivity.
Qed.

Section Shift.
Variable c : cfg.
Variable k : nat.
Variable P : list Z.
Hypothesis Hsz : (0 < sz c)%nat.
Hypothesis HP : length P = (k * sz c)%nat.

Lemma idx_prefix f : (length (P ++ f) / sz c = k + length f / sz c)%nat.
Proof. rewrite app_length, HP. rewrite Nat.div_add_l by lia. reflexivity. Qed.

Lemma shifted_updf s s' t p (H : forall u, pcs s' u = shift_pc k (pcs s u)) :
  forall u, updf (pcs s') t (shift_pc k p) u = shift_pc k (updf (pcs s) t p u).
Proof. intros u. unfold updf. destruct (Nat.eqb u t); [reflexivity|apply H]. Qed.

Lemma tbl_updf s s' q b (H : forall p, tbl s' p = tbl s p) : forall p, updf (tbl s') q b p = updf (tbl s) q b p.
Proof. intros p. unfold updf. destruct (Nat.eqb p q); [reflexivity|apply H]. Qed.

Lemma step_shifted s s' t : shifted k P s s' ->
  match step c s t, step c s' t with
  | Some a, Some a' => shifted k P a a'
  | None, None => True
  | _, _ => False
  end.
Proof.
  intros (Hpc & Htb & How & Hfi & Hlg).
  unfold step. rewrite (Hpc t). destruct (pcs s t) as [| | |i|i|i|i|i| | |] eqn:E; cbn [shift_pc].
  - destruct (away c t).
    + unfold set_pc, shifted; cbn. repeat split; try assumption. exact (shifted_updf s s' t PDoneErr Hpc).
    + rewrite Htb. destruct (tbl s (proc c t)).
      * unfold set_pc, shifted; cbn. repeat split; try assumption. exact (shifted_updf s s' t PDoneErr Hpc).
      * unfold shifted; cbn. repeat split; try assumption.
        -- exact (shifted_updf s s' t PLockedFD Hpc).
        -- exact (tbl_updf s s' _ _ Htb).
  - rewrite How. destruct (owner s); [exact I|].
    unfold shifted; cbn. repeat split; try assumption. exact (shifted_updf s s' t PFlocked Hpc).
  - unfold set_pc, shifted; cbn. repeat split; try assumption.
    rewrite Hfi, idx_prefix. exact (shifted_updf s s' t (PSeeked (length (file s) / sz c)) Hpc).
  - destruct (bad c t).
    + unfold set_pc, shifted; cbn. repeat split; try assumption. exact (shifted_updf s s' t PFailing Hpc).
    + unfold shifted; cbn. repeat split; try assumption.
      * exact (shifted_updf s s' t (PHalf i) Hpc).
      * rewrite Hfi. replace ((k + i) * sz c)%nat with (length P + i * sz c)%nat by (rewrite HP; lia).
        apply write_at_prefix.
  - unfold shifted; cbn. repeat split; try assumption.
    + exact (shifted_updf s s' t (PWritten i) Hpc).
    + rewrite Hfi. replace ((k + i) * sz c + half c)%nat with (length P + (i * sz c + half c))%nat by (rewrite HP; lia).
      apply write_at_prefix.
    + rewrite Hlg. reflexivity.
  - unfold shifted; cbn. repeat split; try assumption. exact (shifted_updf s s' t (PUnflocked i) Hpc).
  - unfold shifted; cbn. repeat split; try assumption.
    + replace (S (k + i)) with (k + S i)%nat by lia. exact (shifted_updf s s' t (PDoneOk (S i)) Hpc).
    + exact (tbl_updf s s' _ _ Htb).
  - exact I.
  - unfold shifted; cbn. repeat split; try assumption. exact (shifted_updf s s' t PFailUnflocked Hpc).
  - unfold shifted; cbn. repeat split; try assumption.
    + exact (shifted_updf s s' t PDoneErr Hpc).
    + exact (tbl_updf s s' _ _ Htb).
  - exact I.
Qed.

Lemma init_shifted init : shifted k P (init_st init) (init_st (P ++ init)).
Proof. unfold shifted, init_st; cbn. repeat split; reflexivity. Qed.

Lemma run_shifted sch : forall s s', shifted k P s s' -> shifted k P (run c sch s) (run c sch s').
Proof.
  induction sch as [|t r IH]; intros s s' H; [exact H|].
  cbn [run fold_left]. apply IH. unfold step_skip.
  pose proof (step_shifted s s' t H) as Hs.
  destruct (step c s t), (step c s' t); try contradiction; assumption.
Qed.

Lemma replay_shifted sch : forall s s', shifted k P s s' ->
  match replay c sch s, replay c sch s' with
  | Some a, Some a' => shifted k P a a'
  | None, None => True
  | _, _ => False
  end.
Proof.
  induction sch as [|t r IH]; intros s s' H; cbn [replay]; [exact H|].
  pose proof (step_shifted s s' t H) as Hs.
  destruct (step c s t), (step c s' t); try contradiction; [apply IH; exact Hs|exact I].
Qed.

Lemma prefix_shift init sch :
  shifted k P (run c sch (init_st init)) (run c sch (init_st (P ++ init))) /\
  match replay c sch (init_st init), replay c sch (init_st (P ++ init)) with
  | Some a, Some a' => shifted k P a a'
  | None, None => True
  | _, _ => False
  end.
Proof. split; [apply run_shifted|apply replay_shifted]; apply init_shifted. Qed.
End Shift.

(* non-vacuity: two whole records [9;9] [9;9] in front of a file holding one record; one appender runs to completion *)
Example prefix_shift_example :
  let c := mkCfg 2 1 (fun _ => 0%nat) (fun t => [Z.of_nat (S t); Z.of_nat (S t)]) (fun _ => false) (fun _ => false) in
  match replay c [0;0;0;0;0;0;0]%nat (init_st [200;200]), replay c [0;0;0;0;0;0;0]%nat (init_st ([9;9;9;9] ++ [200;200])) with
  | Some a, Some a' => file a = [200;200;1;1] /\ file a' = [9;9;9;9;200;200;1;1] /\ pcs a 0%nat = PDoneOk 2 /\ pcs a' 0%nat = PDoneOk 4
  | _, _ => False
  end.
Proof. vm_compute. repeat split; reflexivity. Qed.
