(* C12 — the state invariant, GetBid on invariant states, and what an accepted creation does. *)
From Verif Require Import Base.Common Base.ListX Gen.Consts_default Model.C12 Proofs.C12_base.
Import ptttype.

Record wf (s : st) : Prop := mkWf {
  wf_len : lenZ (s_file s) = s_bnum s;
  wf_clen : length (s_cache s) = length (s_file s);
  wf_max : s_bnum s <= MAXB;
  wf_f256 : Forall (fun x => length x = 256%nat) (s_file s);
  wf_c256 : Forall (fun x => length x = 256%nat) (s_cache s);
  wf_fc : Forall (fun x => clear_fc x = x) (s_cache s);
  wf_perm : perm_ok (s_bnum s) (s_sn s) = true;
  wf_sorted : sorted_by (less_name (s_cache s)) (s_sn s) = true
}.

Lemma clear_fc_zero : clear_fc zero_slot = zero_slot. Proof. reflexivity. Qed.
Lemma zero_slot_length : length zero_slot = 256%nat. Proof. reflexivity. Qed.

Lemma gets_forall (P : slot -> Prop) c i : P zero_slot -> Forall P c -> P (gets c i).
Proof.
  intros H0 HF. unfold gets, getn. destruct (i <? 0); [exact H0|].
  destruct (Nat.lt_ge_cases (Z.to_nat i) (length c)) as [Hl|Hl].
  - rewrite Forall_forall in HF. apply HF. apply nth_In. exact Hl.
  - rewrite nth_overflow by exact Hl. exact H0.
Qed.
Lemma gets_len c i : Forall (fun x => length x = 256%nat) c -> length (gets c i) = 256%nat.
Proof. intros H. apply (gets_forall (fun x => length x = 256%nat)); [reflexivity|exact H]. Qed.
Lemma gets_fc c i : Forall (fun x => clear_fc x = x) c -> clear_fc (gets c i) = gets c i.
Proof. intros H. apply (gets_forall (fun x => clear_fc x = x)); [reflexivity|exact H]. Qed.

Lemma gets_map_clear c i : gets (map clear_fc c) i = clear_fc (gets c i).
Proof.
  unfold gets, getn. destruct (i <? 0); [reflexivity|].
  replace (nth (Z.to_nat i) (map clear_fc c) zero_slot) with (nth (Z.to_nat i) (map clear_fc c) (clear_fc zero_slot)) by (rewrite clear_fc_zero; reflexivity).
  apply map_nth.
Qed.

Lemma less_name_ext c c' : (forall i, name_of (gets c' i) = name_of (gets c i)) -> forall a b, less_name c' a b = less_name c a b.
Proof. intros H a b. unfold less_name. rewrite !H. reflexivity. Qed.

Lemma perm_ok_parts n p : perm_ok n p = true -> lenZ p = n /\ in_range n p = true /\ covers (Z.to_nat n) p = true.
Proof. unfold perm_ok. rewrite !andb_true_iff. intros [[H1 H2] H3]. repeat split; try assumption. lia. Qed.

(* ------------------------------------------------------------------ GetBid on an invariant state *)
Lemma get_bid_spec s key : wf s ->
  (get_bid s key = Ok 0 /\ forall b, 0 <= b < s_bnum s -> casecmp key (name_of (gets (s_cache s) b)) <> 0)
  \/ (exists b, 0 <= b < s_bnum s /\ get_bid s key = Ok (b + 1) /\ casecmp key (name_of (gets (s_cache s) b)) = 0).
Proof.
  intros W. destruct (perm_ok_parts _ _ (wf_perm s W)) as (Hlen & Hrange & Hcov).
  pose proof (wf_len s W) as Hfl. unfold lenZ in Hfl.
  unfold get_bid. destruct (s_bnum s - 1 <? 0) eqn:E.
  { left. split; [reflexivity|]. intros b Hb. lia. }
  destruct (search_loop_spec (s_cache s) (s_sn s) key (wf_sorted s W) (S (S (Z.to_nat (s_bnum s)))) 0 (s_bnum s - 1))
    as [[Hr Hno]|(idx & Hidx & Hr & Hm)]; try lia.
  - left. split; [exact Hr|]. intros b Hb Heq.
    destruct (covers_spec _ _ Hcov (Z.to_nat b) ltac:(lia)) as (i & Hi & Hn).
    apply (Hno (Z.of_nat i)); [unfold lenZ in *; lia|].
    unfold getn. destruct (Z.of_nat i <? 0) eqn:E2; [lia|]. rewrite Nat2Z.id, Hn, Z2Nat.id by lia. exact Heq.
  - right. exists (getn 0 (s_sn s) idx). split; [|split; assumption].
    unfold getn. destruct (idx <? 0) eqn:E2; [lia|].
    apply in_range_nth; [exact Hrange|unfold lenZ in *; lia].
Qed.

Lemma get_bid_ok s key : wf s -> exists v, get_bid s key = Ok v /\ 0 <= v <= s_bnum s.
Proof.
  intros W. destruct (get_bid_spec s key W) as [[H _]|(b & Hb & H & _)].
  - exists 0. split; [exact H|]. pose proof (wf_len s W). unfold lenZ in *. lia.
  - exists (b + 1). split; [exact H|lia].
Qed.

(* ------------------------------------------------------------------ the record *)
Lemma fixlen_len n l : length (fixlen n l) = n. Proof. apply fixlen_length. Qed.
Lemma mk_rec_length name title bm attr chess level gid : length (mk_rec name title bm attr chess level gid) = 256%nat.
Proof. unfold mk_rec. rewrite !app_length, !fixlen_length, !repeat_length, !le32_length. reflexivity. Qed.

Lemma name_of_mk_rec name title bm attr chess level gid : name_of (mk_rec name title bm attr chess level gid) = fixlen 13 name.
Proof. unfold name_of, sub, mk_rec, O_NAME, L_NAME. cbn [skipn]. apply firstn_app_exact. apply fixlen_length. Qed.
Lemma title_of_mk_rec name title bm attr chess level gid : title_of (mk_rec name title bm attr chess level gid) = fixlen 49 title.
Proof.
  unfold title_of, sub, mk_rec, O_TITLE, L_TITLE. rewrite skipn_app_exact by apply fixlen_length.
  apply firstn_app_exact. apply fixlen_length.
Qed.
Lemma bm_of_mk_rec name title bm attr chess level gid : bm_of (mk_rec name title bm attr chess level gid) = fixlen 39 bm.
Proof.
  unfold bm_of, sub, mk_rec, O_BM, L_BM.
  replace (fixlen 13 name ++ fixlen 49 title ++ fixlen 39 bm ++ [0; 0; 0] ++ le32 attr ++ [chess mod 256] ++ repeat 0 15 ++ le32 level ++ [0; 0; 0; 0] ++ le32 gid ++ repeat 0 120)
    with ((fixlen 13 name ++ fixlen 49 title) ++ fixlen 39 bm ++ [0; 0; 0] ++ le32 attr ++ [chess mod 256] ++ repeat 0 15 ++ le32 level ++ [0; 0; 0; 0] ++ le32 gid ++ repeat 0 120)
    by (rewrite <- app_assoc; reflexivity).
  rewrite skipn_app_exact by (rewrite app_length, !fixlen_length; reflexivity).
  apply firstn_app_exact. apply fixlen_length.
Qed.

Lemma rd32_le32 v : 0 <= v < 4294967296 -> rd32 (le32 v) = v.
Proof.
  intros H. unfold rd32, le32. cbn [nth].
  Ltac Zify.zify_post_hook ::= Z.div_mod_to_equations. lia.
Qed.
Lemma mk_rec_tail name title bm attr chess level gid :
  skipn 104 (mk_rec name title bm attr chess level gid) = le32 attr ++ [chess mod 256] ++ repeat 0 15 ++ le32 level ++ [0; 0; 0; 0] ++ le32 gid ++ repeat 0 120.
Proof.
  unfold mk_rec.
  replace (fixlen 13 name ++ fixlen 49 title ++ fixlen 39 bm ++ [0; 0; 0] ++ le32 attr ++ [chess mod 256] ++ repeat 0 15 ++ le32 level ++ [0; 0; 0; 0] ++ le32 gid ++ repeat 0 120)
    with ((fixlen 13 name ++ fixlen 49 title ++ fixlen 39 bm ++ [0; 0; 0]) ++ le32 attr ++ [chess mod 256] ++ repeat 0 15 ++ le32 level ++ [0; 0; 0; 0] ++ le32 gid ++ repeat 0 120)
    by (rewrite <- !app_assoc; reflexivity).
  apply skipn_app_exact. rewrite !app_length, !fixlen_length. reflexivity.
Qed.
Lemma attr_of_mk_rec name title bm attr chess level gid : 0 <= attr < 4294967296 -> attr_of (mk_rec name title bm attr chess level gid) = attr.
Proof. intros H. unfold attr_of, sub, O_ATTR. rewrite mk_rec_tail. rewrite <- (rd32_le32 attr H) at 2. reflexivity. Qed.
Lemma level_of_mk_rec name title bm attr chess level gid : 0 <= level < 4294967296 -> level_of (mk_rec name title bm attr chess level gid) = level.
Proof.
  intros H. unfold level_of, sub, O_LEVEL. replace 124%nat with (104 + 20)%nat by reflexivity.
  rewrite <- skipn_skipn', mk_rec_tail. rewrite <- (rd32_le32 level H) at 2. reflexivity.
Qed.
Lemma gid_of_mk_rec name title bm attr chess level gid : 0 <= gid < 4294967296 -> gid_of (mk_rec name title bm attr chess level gid) = gid.
Proof.
  intros H. unfold gid_of, sub, O_GID. replace 132%nat with (104 + 28)%nat by reflexivity.
  rewrite <- skipn_skipn', mk_rec_tail. rewrite <- (rd32_le32 gid H) at 2. reflexivity.
Qed.
Lemma clear_fc_split (a t : list Z) : length a = 104%nat -> firstn 40 t ++ repeat 0 8 ++ skipn 48 t = t -> clear_fc (a ++ t) = a ++ t.
Proof.
  intros Ha Ht. unfold clear_fc, splice, O_FC. rewrite repeat_length.
  rewrite firstn_app, skipn_app, Ha. cbn [Nat.sub Nat.add].
  rewrite firstn_all2 by lia. rewrite skipn_all2 by lia. cbn [app].
  rewrite <- app_assoc. f_equal. exact Ht.
Qed.
Lemma clear_fc_mk_rec name title bm attr chess level gid : clear_fc (mk_rec name title bm attr chess level gid) = mk_rec name title bm attr chess level gid.
Proof.
  rewrite <- (firstn_skipn 104 (mk_rec name title bm attr chess level gid)). rewrite mk_rec_tail.
  apply clear_fc_split; [rewrite firstn_length, mk_rec_length; reflexivity|reflexivity].
Qed.

(* ------------------------------------------------------------------ generic access lemmas *)
Lemma getn_setn_same {A} (d : A) l i v : 0 <= i -> getn d (setn d l (Z.to_nat i) v) i = v.
Proof. intros H. unfold getn. destruct (i <? 0) eqn:E; [lia|]. apply nth_setn_same. Qed.
Lemma getn_setn_other {A} (d : A) l i j v : 0 <= i -> i <> j -> getn d (setn d l (Z.to_nat i) v) j = getn d l j.
Proof. intros H Hn. unfold getn. destruct (j <? 0) eqn:E; [reflexivity|]. apply nth_setn_other. lia. Qed.
Lemma setn_length_le {A} (d : A) l i v : (i <= length l)%nat -> length (setn d l i v) = Nat.max (length l) (S i).
Proof.
  intros H. destruct (Nat.eq_dec i (length l)) as [->|Hne].
  - rewrite setn_at_end, app_length. cbn. lia.
  - rewrite setn_length_in by lia. lia.
Qed.
Lemma Forall_setn_le {A} (P : A -> Prop) (d : A) l i v : (i <= length l)%nat -> Forall P l -> P v -> Forall P (setn d l i v).
Proof.
  intros H HF Hv. destruct (Nat.eq_dec i (length l)) as [->|Hne].
  - rewrite setn_at_end. apply Forall_app. split; [exact HF|constructor; [exact Hv|constructor]].
  - apply Forall_setn_in; [lia|exact HF|exact Hv].
Qed.

(* ------------------------------------------------------------------ SortBCache *)
Lemma sort_bcache_inv s o s' : sort_bcache s o = Some s' ->
  0 <= s_bnum s /\ oracle_ok (s_cache s) (s_bnum s) o = true /\
  s' = mkSt (s_file s) (map_firstn clear_fc (Z.to_nat (s_bnum s)) (s_cache s)) (s_bm s) (fst o) (snd o) (s_bnum s) (s_dirs s).
Proof.
  unfold sort_bcache. destruct ((0 <=? s_bnum s) && oracle_ok (s_cache s) (s_bnum s) o) eqn:E; [|discriminate].
  apply andb_true_iff in E. destruct E as [E1 E2]. intros H. inversion H. repeat split; [lia|exact E2].
Qed.

Lemma name_of_map_clear c i : Forall (fun x => length x = 256%nat) c -> name_of (gets (map clear_fc c) i) = name_of (gets c i).
Proof. intros H. rewrite gets_map_clear. apply name_of_clear_fc. apply gets_len. exact H. Qed.

Lemma wf_after_sort s o s' :
  lenZ (s_file s) = s_bnum s -> length (s_cache s) = length (s_file s) -> s_bnum s <= MAXB ->
  Forall (fun x => length x = 256%nat) (s_file s) -> Forall (fun x => length x = 256%nat) (s_cache s) ->
  sort_bcache s o = Some s' ->
  wf s' /\ s_file s' = s_file s /\ s_cache s' = map clear_fc (s_cache s) /\ s_bm s' = s_bm s /\ s_bnum s' = s_bnum s /\ s_dirs s' = s_dirs s.
Proof.
  intros Hlen Hcl Hmax Hf Hc Hs. destruct (sort_bcache_inv _ _ _ Hs) as (H0 & Hok & ->).
  rewrite map_firstn_all by (unfold lenZ in Hlen; lia).
  unfold oracle_ok in Hok. rewrite !andb_true_iff in Hok. destruct Hok as [[[Hp1 Hs1] Hp2] Hs2].
  split; [|repeat split; reflexivity].
  constructor; cbn [s_file s_cache s_bm s_sn s_sc s_bnum s_dirs]; try assumption.
  - rewrite map_length. exact Hcl.
  - apply Forall_forall. intros x Hx. apply in_map_iff in Hx. destruct Hx as (y & <- & Hy).
    apply clear_fc_length. rewrite Forall_forall in Hc. apply Hc. exact Hy.
  - apply Forall_forall. intros x Hx. apply in_map_iff in Hx. destruct Hx as (y & <- & Hy).
    apply clear_fc_idem. rewrite Forall_forall in Hc. apply Hc. exact Hy.
  - rewrite (sorted_by_ext _ (less_name (s_cache s))); [exact Hs1|].
    apply less_name_ext. intros i. apply name_of_map_clear. exact Hc.
Qed.

(* ------------------------------------------------------------------ the post-mask side effect of LoadBoardSummary *)
Lemma hack_spec r s bid : wf s -> 1 <= bid <= s_bnum s ->
  wf (postmask_hack r s bid) /\
  s_file (postmask_hack r s bid) = s_file s /\ s_bm (postmask_hack r s bid) = s_bm s /\ s_bnum (postmask_hack r s bid) = s_bnum s /\
  s_dirs (postmask_hack r s bid) = s_dirs s /\ s_sn (postmask_hack r s bid) = s_sn s /\ s_sc (postmask_hack r s bid) = s_sc s /\
  (forall i, i <> bid - 1 -> gets (s_cache (postmask_hack r s bid)) i = gets (s_cache s) i) /\
  (gets (s_cache (postmask_hack r s bid)) (bid - 1) = gets (s_cache s) (bid - 1)
   \/ (has (attr_of (gets (s_cache s) (bid - 1))) BRD_HIDE = true /\ has (r_ulevel r) PERM_SYSOP = false /\
       gets (s_cache (postmask_hack r s bid)) (bid - 1) =
       set_attr (gets (s_cache s) (bid - 1)) (Z.lor (attr_of (gets (s_cache s) (bid - 1))) BRD_POSTMASK))).
Proof.
  intros W Hb. unfold postmask_hack.
  set (b := gets (s_cache s) (bid - 1)). set (a := attr_of b).
  destruct (has a BRD_HIDE && negb (has a BRD_POSTMASK) && negb (has (r_ulevel r) PERM_SYSOP)
            && negb (has (level_of b) PERM_BM && (has (r_ulevel r) PERM_POLICE || has (r_ulevel r) PERM_POLICE_MAN))
            && negb (is_bm_cache r s bid)) eqn:E.
  2:{ split; [exact W|]. repeat split; try reflexivity. left. reflexivity. }
  rewrite !andb_true_iff in E. destruct E as [[[[Eh _] Es] _] _]. apply negb_true_iff in Es.
  pose proof (wf_len s W) as Hl. pose proof (wf_clen s W) as Hcl. unfold lenZ in Hl.
  assert (Hin : (Z.to_nat (bid - 1) < length (s_cache s))%nat) by lia.
  assert (Hb256 : length b = 256%nat) by (apply gets_len; apply (wf_c256 s W)).
  assert (Hbfc : clear_fc b = b) by (apply gets_fc; apply (wf_fc s W)).
  unfold with_cache. cbn [s_file s_cache s_bm s_sn s_sc s_bnum s_dirs].
  split.
  { constructor; cbn [s_file s_cache s_bm s_sn s_sc s_bnum s_dirs]; try apply W.
    - rewrite setn_length_in by exact Hin. apply W.
    - apply Forall_setn_in; [exact Hin|apply W|apply set_attr_length; exact Hb256].
    - apply Forall_setn_in; [exact Hin|apply W|apply clear_fc_set_attr; assumption].
    - rewrite (sorted_by_ext _ (less_name (s_cache s))); [apply W|].
      apply less_name_ext. intros i. destruct (Z.eq_dec i (bid - 1)) as [->|Hne].
      + rewrite gets_setn_same by lia. apply name_of_set_attr. exact Hb256.
      + rewrite gets_setn_other by lia. reflexivity. }
  repeat split; try reflexivity.
  - intros i Hi. apply gets_setn_other; lia.
  - right. split; [exact Eh|]. split; [exact Es|]. apply gets_setn_same. lia.
Qed.

(* ------------------------------------------------------------------ addBoardRecord *)
Definition zero13 : list Z := repeat 0 13.

Record placed (u : users) (s : st) (rec : slot) (bid : Z) (s2 : st) : Prop := mkPlaced {
  pl_wf : wf s2;
  pl_bid : 1 <= bid <= s_bnum s2;
  pl_file : gets (s_file s2) (bid - 1) = rec;
  pl_cache : gets (s_cache s2) (bid - 1) = clear_fc rec;
  pl_bm : getn [0; 0; 0; 0] (s_bm s2) (bid - 1) = parse_bm_list u (bm_of rec);
  pl_frame : forall i, i <> bid - 1 ->
      gets (s_file s2) i = gets (s_file s) i /\ gets (s_cache s2) i = gets (s_cache s) i /\
      getn [0; 0; 0; 0] (s_bm s2) i = getn [0; 0; 0; 0] (s_bm s) i;
  pl_where : (s_bnum s2 = s_bnum s /\ casecmp zero13 (name_of (gets (s_cache s) (bid - 1))) = 0)
             \/ (s_bnum s2 = s_bnum s + 1 /\ bid = s_bnum s + 1 /\ s_bnum s < MAXB /\
                 forall b, 0 <= b < s_bnum s -> casecmp zero13 (name_of (gets (s_cache s) b)) <> 0);
  pl_dirs : s_dirs s2 = s_dirs s
}.

Lemma place_common u s rec bid o s2 :
  wf s -> length rec = 256%nat -> 1 <= bid <= s_bnum s + 1 -> bid <= MAXB ->
  sort_bcache (mkSt (setn zero_slot (s_file s) (Z.to_nat (bid - 1)) rec) (setn zero_slot (s_cache s) (Z.to_nat (bid - 1)) rec)
                    (setn [0; 0; 0; 0] (s_bm s) (Z.to_nat (bid - 1)) (parse_bm_list u (bm_of rec)))
                    (s_sn s) (s_sc s) (Z.max (s_bnum s) bid) (s_dirs s)) o = Some s2 ->
  wf s2 /\ s_bnum s2 = Z.max (s_bnum s) bid /\
  gets (s_file s2) (bid - 1) = rec /\ gets (s_cache s2) (bid - 1) = clear_fc rec /\
  getn [0; 0; 0; 0] (s_bm s2) (bid - 1) = parse_bm_list u (bm_of rec) /\
  (forall i, i <> bid - 1 -> gets (s_file s2) i = gets (s_file s) i /\ gets (s_cache s2) i = gets (s_cache s) i /\
      getn [0; 0; 0; 0] (s_bm s2) i = getn [0; 0; 0; 0] (s_bm s) i) /\ s_dirs s2 = s_dirs s.
Proof.
  intros W Hrec Hb Hmax Hs.
  pose proof (wf_len s W) as Hl. pose proof (wf_clen s W) as Hcl. unfold lenZ in Hl.
  assert (Hk : (Z.to_nat (bid - 1) <= length (s_file s))%nat) by lia.
  apply wf_after_sort in Hs; cbn [s_file s_cache s_bm s_sn s_sc s_bnum s_dirs].
  - destruct Hs as (W2 & Hf & Hc & Hbm & Hbn & Hd). cbn [s_file s_cache s_bm s_sn s_sc s_bnum s_dirs] in *.
    split; [exact W2|]. split; [exact Hbn|]. rewrite Hf, Hc, Hbm, Hd.
    split; [apply gets_setn_same; lia|]. split; [rewrite gets_map_clear, gets_setn_same by lia; reflexivity|].
    split; [apply getn_setn_same; lia|]. split; [|reflexivity].
    intros i Hi. split; [apply gets_setn_other; lia|]. split; [|apply getn_setn_other; lia].
    rewrite gets_map_clear, gets_setn_other by lia. apply gets_fc. apply W.
  - unfold lenZ. rewrite setn_length_le by exact Hk. lia.
  - rewrite !setn_length_le by lia. lia.
  - pose proof (wf_max s W). lia.
  - apply Forall_setn_le; [exact Hk|apply W|exact Hrec].
  - apply Forall_setn_le; [unfold slot in *; lia|apply W|exact Hrec].
Qed.

Ltac zl := unfold slot in *; lia.
Lemma add_spec u s rec os code bid s2 os' : wf s -> length rec = 256%nat ->
  add_board_record u s rec os = Done code bid s2 os' ->
  (code = 0 /\ placed u s rec bid s2 /\ exists o, os = o :: os')
  \/ (code = E_FULL /\ bid = 0 /\ s2 = s /\ os' = os /\ MAXB <= s_bnum s /\
      forall b, 0 <= b < s_bnum s -> casecmp zero13 (name_of (gets (s_cache s) b)) <> 0).
Proof.
  intros W Hrec. unfold add_board_record.
  pose proof (wf_len s W) as Hl. pose proof (wf_clen s W) as Hcl. pose proof (wf_max s W) as Hmax. unfold lenZ in Hl.
 
  destruct (get_bid_spec s (repeat 0 13) W) as [[Hg Hno]|(b & Hb & Hg & Hm)]; rewrite Hg.
  - (* no vacated slot: append *)
    replace (bid_valid 0) with false by reflexivity.
    destruct (MAXB <=? s_bnum s) eqn:Ecap.
    { intros H. inversion H. subst. right. repeat split; try reflexivity; [zl|exact Hno]. }
    unfold reset_board, with_bnum, with_file. cbn [s_file s_cache s_bm s_sn s_sc s_bnum s_dirs].
    assert (Hv : bid_valid (s_bnum s + 1) = true) by (unfold bid_valid; zl).
    rewrite Hv. cbn [negb].
    match goal with |- context [lenZ ?x <=? ?y] => assert (Hlen2 : (lenZ x <=? y) = false);
      [unfold lenZ; rewrite app_length; cbn [length]; apply Z.leb_gt; zl|rewrite Hlen2] end.
    destruct os as [|o os1]; [intros H; inversion H|].
    match goal with |- context [sort_bcache ?st o] => destruct (sort_bcache st o) as [s4|] eqn:Es end; [|intros H; inversion H].
    intros H. inversion H. subst code bid s4 os1. clear H. left. split; [reflexivity|].
    split; [|exists o; reflexivity].
    match type of Es with context [gets ?x ?i] => assert (Hgets : gets x i = rec) end.
    { rewrite <- setn_at_end with (d := zero_slot). replace (length (s_file s)) with (Z.to_nat (s_bnum s + 1 - 1)) by zl. apply gets_setn_same. zl. }
    rewrite Hgets in Es.
    rewrite <- (setn_at_end zero_slot (s_file s) rec) in Es.
    replace (length (s_file s)) with (Z.to_nat (s_bnum s + 1 - 1)) in Es by zl.
    replace (s_bnum s + 1) with (Z.max (s_bnum s) (s_bnum s + 1)) in Es at 4 by zl.
    destruct (place_common u s rec (s_bnum s + 1) o s2 W Hrec ltac:(unfold slot in *; lia) ltac:(unfold slot in *; lia) Es) as (W2 & Hbn & Hf & Hc & Hbm & Hfr & Hd).
    constructor; try assumption; [zl|].
    right. repeat split; try zl. exact Hno.
  - (* a vacated slot *)
    assert (Hv : bid_valid (b + 1) = true) by (unfold bid_valid; zl).
    rewrite Hv.
    unfold reset_board, with_file. cbn [s_file s_cache s_bm s_sn s_sc s_bnum s_dirs]. rewrite Hv. cbn [negb].
    assert (Hin : (Z.to_nat (b + 1 - 1) < length (s_file s))%nat) by zl.
    match goal with |- context [lenZ ?x <=? ?y] => assert (Hlen2 : (lenZ x <=? y) = false);
      [unfold lenZ; rewrite setn_length_in by exact Hin; apply Z.leb_gt; zl|rewrite Hlen2] end.
    cbn [fst].
    destruct os as [|o os1]; [intros H; inversion H|].
    match goal with |- context [sort_bcache ?st o] => destruct (sort_bcache st o) as [s4|] eqn:Es end; [|intros H; inversion H].
    intros H. inversion H. subst code bid s4 os1. clear H. left. split; [reflexivity|].
    split; [|exists o; reflexivity].
    rewrite gets_setn_same in Es by zl.
    replace (s_bnum s) with (Z.max (s_bnum s) (b + 1)) in Es at 1 by zl.
    destruct (place_common u s rec (b + 1) o s2 W Hrec ltac:(unfold slot in *; lia) ltac:(unfold slot in *; lia) Es) as (W2 & Hbn & Hf & Hc & Hbm & Hfr & Hd).
    constructor; try assumption; [zl|].
    left. split; [zl|]. replace (b + 1 - 1) with b by zl. exact Hm.
Qed.
