(* C02 — the output side of fcrypt: the two words final_perm returns are, byte for byte, the 64 bits of
   FP (L ++ R) in FIPS order, and the output loop of cFcrypt (eleven times six bits, most significant first, through
   cov_2char) is the textbook base-64 grouping of those 64 bits plus two zero bits. *)
From Verif Require Import Base.Common Base.Sweep Gen.CryptTab Model.C02 Model.C02_DesSpec Proofs.C02_Core Proofs.C02_Tables Proofs.C02_Sym Proofs.C02_Perm Proofs.C02_KeySched Proofs.C02_Bits Proofs.C02_Round.
Ltac Zify.zify_post_hook ::= Z.div_mod_to_equations.

(* ---------------------------------------------------------------- final_perm in bits *)

Lemma nth_map_zrange {A} (f : Z -> A) d n j : 0 <= j < Z.of_nat n -> nth (Z.to_nat j) (map f (zrange n)) d = f j.
Proof.
  intros Hj. unfold zrange. rewrite map_map.
  rewrite nth_indep with (d' := f (Z.of_nat O)) by (rewrite map_length, seq_length; lia).
  rewrite map_nth with (f := fun x => f (Z.of_nat x)). rewrite seq_nth by lia. f_equal. lia.
Qed.

Lemma hw_bit b j : 0 <= j < 32 -> Z.testbit (hw b) j = nth (Z.to_nat ((j + 31) mod 32)) b false.
Proof.
  intros Hj. unfold hw. rewrite testbit_ofbits by lia. unfold hwl.
  set (f := fun j0 => nth ((j0 + 31) mod 32) b false).
  rewrite nth_indep with (d' := f O) by (rewrite map_length, seq_length; lia).
  rewrite map_nth. rewrite seq_nth by lia. unfold f. cbn [Nat.add]. f_equal.
  assert (S : forallb (fun j => ((Z.to_nat j + 31) mod 32 =? Z.to_nat ((j + 31) mod 32))%nat) (zrange 32) = true) by (vm_compute; reflexivity).
  apply Nat.eqb_eq. exact (sweep _ 32 S j Hj).
Qed.

Lemma block_bit_hw L R q : length L = 32%nat -> length R = 32%nat -> 1 <= q <= 64 ->
  block_bit (hw L) (hw R) q = nth (Z.to_nat (q - 1)) (L ++ R) false.
Proof.
  intros HL HR Hq. unfold block_bit. destruct (Z.leb_spec q 32).
  - rewrite hw_bit by (apply Z.mod_pos_bound; lia). rewrite app_nth1 by lia. f_equal. lia.
  - rewrite hw_bit by (apply Z.mod_pos_bound; lia). rewrite app_nth2 by lia. f_equal. lia.
Qed.

Lemma FP_range : forallb (fun n => let q := Z.of_nat (nth (Z.to_nat n) FP O) in (1 <=? q) && (q <=? 64)) (zrange 64) = true.
Proof. vm_compute. reflexivity. Qed.

Lemma perm_FP_nth x n : (n < 64)%nat -> nth n (perm FP x) false = nth (nth n FP O - 1) x false.
Proof.
  intros Hn. unfold perm. set (f := fun i => nth (i - 1) x false).
  rewrite nth_indep with (d' := f O) by (rewrite map_length; exact Hn). apply map_nth.
Qed.

(* the bits of output word w in terms of the block blk = FP (L ++ R): bit j is blk[out_n w j] *)
Definition out_bits (w : Z) (blk : list bool) : list bool := map (fun j => nth (Z.to_nat (out_n w j)) blk false) (zrange 32).

Lemma final_perm_bits L R : length L = 32%nat -> length R = 32%nat ->
  final_perm (hw L) (hw R) = (ofbits (out_bits 0 (perm FP (L ++ R))), ofbits (out_bits 1 (perm FP (L ++ R)))).
Proof.
  intros HL HR. pose proof (hw_range L) as RL. pose proof (hw_range R) as RR.
  destruct (final_repr (hw L) (hw R) RL RR) as [R0 R1]. apply repr_range in R0. apply repr_range in R1.
  pose proof (body_tail_is_FP (hw L) (hw R) RL RR) as B.
  destruct (final_perm (hw L) (hw R)) as [fl fr]. cbn [fst snd] in *.
  assert (G : forall w v, (w = 0 \/ w = 1) -> 0 <= v < 2 ^ 32 ->
              (forall j, 0 <= j < 32 -> Z.testbit v j = block_bit (hw L) (hw R) (Z.of_nat (nth (Z.to_nat (out_n w j)) FP O))) ->
              v = ofbits (out_bits w (perm FP (L ++ R)))).
  { intros w v Hw Hv Hbits. apply Z.bits_inj'. intros j Hj. rewrite testbit_ofbits by exact Hj. unfold out_bits.
    destruct (Z.ltb_spec j 32).
    - rewrite nth_map_zrange by lia. rewrite Hbits by lia.
      assert (Ho : 0 <= out_n w j < 64) by (unfold out_n; destruct Hw; subst w; lia).
      pose proof (sweep _ 64 FP_range (out_n w j) ltac:(lia)) as Hq. cbv zeta in Hq.
      apply andb_prop in Hq. destruct Hq as [Hq1 Hq2].
      rewrite block_bit_hw by (try assumption; lia). rewrite perm_FP_nth by lia. f_equal. lia.
    - rewrite nth_overflow by (rewrite map_length; unfold zrange; rewrite map_length, seq_length; lia).
      destruct (Z.eq_dec v 0) as [->|Hz]; [apply Z.bits_0|]. apply Z.bits_above_log2; [lia|].
      apply Z.lt_le_trans with 32; [apply Z.log2_lt_pow2; lia|lia]. }
  f_equal.
  - apply G; [left; reflexivity|exact R0|]. intros j Hj. apply (B j Hj).
  - apply G; [right; reflexivity|exact R1|]. intros j Hj. apply (B j Hj).
Qed.

(* ---------------------------------------------------------------- the output loop as a bit stream *)

(* state of the loop: byte index y and mask u = 2^k *)
Definition adv (s : nat * nat) : nat * nat := match snd s with O => (S (fst s), 7%nat) | S k => (fst s, k) end.
Fixpoint advn (n : nat) (s : nat * nat) : nat * nat := match n with O => s | S n' => advn n' (adv s) end.
Fixpoint stream (n : nat) (bb : list Z) (s : nat * nat) : list bool :=
  match n with O => [] | S n' => Z.testbit (nth (fst s) bb 0) (Z.of_nat (snd s)) :: stream n' bb (adv s) end.
Definition zval (l : list bool) (c : Z) : Z := fold_left (fun a b => 2 * a + Z.b2z b) l c.

Lemma adv_bound s : (snd s <= 7)%nat -> (snd (adv s) <= 7)%nat.
Proof. unfold adv. destruct (snd s); cbn [snd]; lia. Qed.
Lemma advn_bound n : forall s, (snd s <= 7)%nat -> (snd (advn n s) <= 7)%nat.
Proof. induction n as [|n IH]; intros s Hs; [exact Hs|]. cbn [advn]. apply IH. apply adv_bound. exact Hs. Qed.

Lemma land_pow2_eqb x k : 0 <= k -> (Z.land x (2 ^ k) =? 0) = negb (Z.testbit x k).
Proof.
  intros Hk. assert (E : Z.land x (2 ^ k) = if Z.testbit x k then 2 ^ k else 0).
  { apply Z.bits_inj'. intros j Hj. rewrite Z.land_spec, Z.pow2_bits_eqb by exact Hk.
    destruct (Z.eqb_spec k j) as [->|Hne].
    - destruct (Z.testbit x j); [rewrite Z.pow2_bits_true by lia; reflexivity|rewrite Z.bits_0; reflexivity].
    - rewrite andb_false_r. destruct (Z.testbit x k); [rewrite Z.pow2_bits_false by lia; reflexivity|rewrite Z.bits_0; reflexivity]. }
  rewrite E. destruct (Z.testbit x k); [|reflexivity]. cbn [negb]. apply Z.eqb_neq.
  pose proof (Z.pow_pos_nonneg 2 k ltac:(lia) Hk). lia.
Qed.

Lemma zval_nonneg l : forall c, 0 <= c -> 0 <= zval l c.
Proof.
  induction l as [|b l IH]; intros c Hc; [exact Hc|]. cbn [zval fold_left]. apply IH. destruct b; cbn [Z.b2z]; lia.
Qed.

Lemma enc6_stream j : forall bb s c, (snd s <= 7)%nat -> 0 <= c ->
  enc6 j bb (fst s) (2 ^ Z.of_nat (snd s)) c = (zval (stream j bb s) c, fst (advn j s), 2 ^ Z.of_nat (snd (advn j s))).
Proof.
  induction j as [|j IH]; intros bb s c Hs Hc; [reflexivity|].
  cbn [enc6 stream advn]. destruct (shift_or_bit c Hc) as [E1 E2]. rewrite E2, E1.
  rewrite land_pow2_eqb by lia.
  set (b := Z.testbit (nth (fst s) bb 0) (Z.of_nat (snd s))).
  assert (Ec : (if negb b then 2 * c else 2 * c + 1) = 2 * c + Z.b2z b) by (destruct b; cbn [negb Z.b2z]; lia).
  rewrite Ec. cbn [zval fold_left]. fold (zval (stream j bb (adv s)) (2 * c + Z.b2z b)).
  assert (Hc' : 0 <= 2 * c + Z.b2z b) by (destruct b; cbn [Z.b2z]; lia).
  pose proof (adv_bound s Hs) as Hs'.
  destruct s as [y k]. cbn [fst snd] in *. destruct k as [|k].
  - change (shr (2 ^ Z.of_nat 0) 1 =? 0) with true. cbv iota.
    change 128 with (2 ^ Z.of_nat (snd (adv (y, O)))). change (S y) with (fst (adv (y, O))). apply IH; assumption.
  - assert (Eu : shr (2 ^ Z.of_nat (S k)) 1 = 2 ^ Z.of_nat k).
    { unfold shr. rewrite Z.shiftr_div_pow2 by lia. rewrite Nat2Z.inj_succ, Z.pow_succ_r by lia.
      change (2 ^ 1) with 2. rewrite Z.mul_comm, Z.div_mul by lia. reflexivity. }
    rewrite Eu. pose proof (Z.pow_pos_nonneg 2 (Z.of_nat k) ltac:(lia) ltac:(lia)) as Hp.
    destruct (Z.eqb_spec (2 ^ Z.of_nat k) 0); [lia|].
    change k with (snd (adv (y, S k))) at 1 2. change y with (fst (adv (y, S k))) at 1. apply IH; assumption.
Qed.

Lemma stream_length n : forall bb s, length (stream n bb s) = n.
Proof. induction n as [|n IH]; intros bb s; [reflexivity|]. cbn [stream length]. rewrite IH. reflexivity. Qed.
Lemma stream_app n m : forall bb s, stream (n + m) bb s = stream n bb s ++ stream m bb (advn n s).
Proof. induction n as [|n IH]; intros bb s; [reflexivity|]. cbn [Nat.add stream advn app]. rewrite IH. reflexivity. Qed.

Lemma zval_bits_val l : forall a, zval l (Z.of_nat a) = Z.of_nat (fold_left (fun a b => (2 * a + bitn b)%nat) l a).
Proof.
  induction l as [|b l IH]; intros a; [reflexivity|]. cbn [zval fold_left].
  replace (2 * Z.of_nat a + Z.b2z b) with (Z.of_nat (2 * a + bitn b)) by (destruct b; cbn [Z.b2z bitn]; lia).
  apply IH.
Qed.

Lemma zval_bound l : forall c k, 0 <= c < k -> 0 <= zval l c < k * 2 ^ Z.of_nat (length l).
Proof.
  induction l as [|b l IH]; intros c k Hc; [cbn [zval fold_left length]; change (2 ^ Z.of_nat 0) with 1; lia|].
  cbn [zval fold_left length]. rewrite Nat2Z.inj_succ, Z.pow_succ_r by lia.
  specialize (IH (2 * c + Z.b2z b) (2 * k) ltac:(destruct b; cbn [Z.b2z]; lia)). unfold zval in IH. lia.
Qed.

Lemma enc_chars_stream i : forall bb s, (snd s <= 7)%nat ->
  enc_chars i bb (fst s) (2 ^ Z.of_nat (snd s)) = Ok (map (fun v => nth v ALPHABET 0) (groups6 i (stream (6 * i) bb s))).
Proof.
  induction i as [|i IH]; intros bb s Hs; [reflexivity|].
  cbn [enc_chars]. rewrite (enc6_stream 6 bb s 0 Hs ltac:(lia)).
  replace (6 * S i)%nat with (6 + 6 * i)%nat by lia. rewrite stream_app.
  set (a := stream 6 bb s). assert (La : length a = 6%nat) by apply stream_length.
  pose proof (zval_bound a 0 1 ltac:(lia)) as Hb. rewrite La in Hb. change (1 * 2 ^ Z.of_nat 6) with 64 in Hb.
  cbn [groups6]. rewrite firstn_app, firstn_all2 by lia. replace (6 - length a)%nat with O by lia. cbn [firstn]. rewrite app_nil_r.
  rewrite skipn_app, skipn_all2 by lia. replace (6 - length a)%nat with O by lia. cbn [skipn app].
  assert (Ev : zval a 0 = Z.of_nat (bits_val a)) by (unfold bits_val; apply (zval_bits_val a O)).
  unfold nthZ. destruct (Z.ltb_spec (zval a 0) 0); [lia|]. rewrite cov_2char_is_alphabet.
  rewrite Ev, Nat2Z.id. rewrite (nth_error_nth' ALPHABET 0) by (change (length ALPHABET) with 64%nat; lia).
  rewrite (IH bb (advn 6 s) (advn_bound 6 s Hs)). reflexivity.
Qed.

(* ---------------------------------------------------------------- encode on the two output words *)

Lemma ofbits_and255 a : Z.land (ofbits a) 255 = ofbits (firstn 8 a).
Proof.
  apply Z.bits_inj'. intros j Hj. rewrite Z.land_spec, !testbit_ofbits by exact Hj. rewrite nth_firstn'.
  change 255 with (Z.ones 8). destruct (Z.ltb_spec j 8).
  - rewrite Z.ones_spec_low by lia. destruct (Nat.ltb_spec (Z.to_nat j) 8); [|lia]. apply andb_true_r.
  - rewrite Z.ones_spec_high by lia. destruct (Nat.ltb_spec (Z.to_nat j) 8); [lia|]. apply andb_false_r.
Qed.

Theorem encode_is_groups6 blk : length blk = 64%nat ->
  encode (ofbits (out_bits 0 blk)) (ofbits (out_bits 1 blk)) =
  Ok (map (fun v => nth v ALPHABET 0) (groups6 11 (blk ++ [false; false]))).
Proof.
  intros Hl. unfold encode.
  match goal with |- enc_chars 11 ?bb 0 128 = _ =>
    pose proof (enc_chars_stream 11 bb (O, 7%nat) ltac:(cbn [snd]; lia)) as E end.
  cbn [fst snd] in E. change (2 ^ Z.of_nat 7) with 128 in E. rewrite E. clear E. do 3 f_equal.
  destruct_list blk 64. clear Hl.
  set (ol := out_bits 0 _). vm_compute in ol. set (or := out_bits 1 _). vm_compute in or. subst ol or.
  unfold l2c, u8. rewrite !ofbits_shr by lia. rewrite !ofbits_and255.
  cbv [stream adv fst snd nth app Nat.mul Nat.add].
  rewrite !testbit_ofbits by lia. rewrite !Z.bits_0. vm_compute. reflexivity.
Qed.
