(* C18 — ReadLine until EOF returns exactly the lines of the stream *)
From Verif Require Import Base.Common Base.Cstr Model.C18.

Lemma last_is_rev l c : last_is l c = match rev l with [] => Crash | x :: _ => Ok (x =? c) end.
Proof. unfold last_is. rewrite <- rev_alt. reflexivity. Qed.

Lemma rbl_cases : forall s,
  (exists l r, ~ In 10 l /\ s = l ++ 10 :: r /\ read_bytes_lf s = (l ++ [10], r)) \/
  (~ In 10 s /\ read_bytes_lf s = (s, [])).
Proof.
  induction s as [|c s IH]; [right; split; [intros []|reflexivity]|].
  cbn [read_bytes_lf]. destruct (c =? 10) eqn:E.
  - apply Z.eqb_eq in E. subst c. left. exists [], s. split; [intros []|split; reflexivity].
  - apply Z.eqb_neq in E. destruct IH as [[l [r [N [S R]]]]|[N R]].
    + left. exists (c :: l), r. split; [intros [H|H]; [lia|exact (N H)]|]. split; [cbn; rewrite S; reflexivity|].
      rewrite R. reflexivity.
    + right. split; [intros [H|H]; [lia|exact (N H)]|]. rewrite R. reflexivity.
Qed.

Lemma sla_app : forall l cur t, ~ In 10 l -> split_lines_acc cur (l ++ t) = split_lines_acc (rev l ++ cur) t.
Proof.
  induction l as [|c l IH]; intros cur t N; [reflexivity|].
  cbn [app split_lines_acc]. destruct (c =? 10) eqn:E; [apply Z.eqb_eq in E; exfalso; apply N; left; lia|].
  rewrite IH; [|intros H; apply N; right; exact H]. cbn [rev]. rewrite <- app_assoc. reflexivity.
Qed.

Lemma split_lines_lf l r : ~ In 10 l -> split_lines (l ++ 10 :: r) = strip_cr l :: split_lines r.
Proof.
  intros N. unfold split_lines. rewrite sla_app by exact N. rewrite app_nil_r.
  cbn [split_lines_acc]. rewrite rev_involutive. reflexivity.
Qed.
Lemma split_lines_last l : ~ In 10 l -> l <> [] -> split_lines l = [strip_cr l].
Proof.
  intros N NE. unfold split_lines. rewrite <- (app_nil_r l) at 1. rewrite sla_app by exact N. rewrite app_nil_r.
  cbn [split_lines_acc]. destruct (rev l) eqn:R.
  - apply (f_equal (@rev Z)) in R. rewrite rev_involutive in R. contradiction.
  - rewrite <- R, rev_involutive. reflexivity.
Qed.

(* the CR test of ReadLine (guarded by len(line) > 0) is strip_cr *)
Lemma match_nonnil {A B} (l : list A) (a b : B) : l <> [] -> match l with [] => a | _ :: _ => b end = b.
Proof. destruct l; [contradiction|reflexivity]. Qed.

Lemma cr_step' l (rest : list Z) :
  res_bind (match l with [] => Ok false | _ => last_is l 13 end)
           (fun b => let line := if b then removelast l else l in Ok (Some (line, rest)))
  = Ok (Some (strip_cr l, rest)).
Proof.
  unfold strip_cr. destruct l as [|x l]; [reflexivity|]. rewrite last_is_rev.
  destruct (rev (x :: l)) as [|c r] eqn:R.
  - apply (f_equal (@rev Z)) in R. rewrite rev_involutive in R. discriminate.
  - cbn [res_bind]. destruct (c =? 13); [|reflexivity].
    apply (f_equal (@rev Z)) in R. rewrite rev_involutive in R. cbn [rev] in R. rewrite R.
    rewrite removelast_last. reflexivity.
Qed.

Lemma read_line_lf l r : ~ In 10 l -> read_line (l ++ 10 :: r) = Ok (Some (strip_cr l, r)).
Proof.
  intros N. unfold read_line. destruct (rbl_cases (l ++ 10 :: r)) as [[l' [r' [N' [S R]]]]|[N' R]].
  - assert (l' = l /\ r' = r) as [-> ->].
    { clear R. revert l' N' S. induction l as [|c l IH]; intros l' N' S.
      - destruct l' as [|c' l']; [injection S as ->; split; reflexivity|].
        cbn in S. injection S as <- S. exfalso. apply N'. left. reflexivity.
      - destruct l' as [|c' l'].
        + cbn in S. injection S as -> S. exfalso. apply N. left. reflexivity.
        + cbn in S. injection S as -> S. destruct (IH (fun H => N (or_intror H)) l' (fun H => N' (or_intror H)) S) as [-> ->].
          split; reflexivity. }
    rewrite R. rewrite match_nonnil by (destruct l; discriminate).
    rewrite last_is_rev. rewrite rev_app_distr. cbn [rev app res_bind Z.eqb Pos.eqb].
    rewrite removelast_last. apply cr_step'.
  - exfalso. apply N'. apply in_or_app. right. left. reflexivity.
Qed.

Lemma read_line_last l : ~ In 10 l -> l <> [] -> read_line l = Ok (Some (strip_cr l, [])).
Proof.
  intros N NE. unfold read_line. destruct (rbl_cases l) as [[l' [r' [N' [S R]]]]|[N' R]].
  - exfalso. apply N. rewrite S. apply in_or_app. right. left. reflexivity.
  - rewrite R. rewrite match_nonnil by exact NE.
    rewrite last_is_rev. destruct (rev l) as [|c r] eqn:Rv.
    + apply (f_equal (@rev Z)) in Rv. rewrite rev_involutive in Rv. cbn in Rv. congruence.
    + assert (Hc : c <> 10).
      { intros ->. apply N. apply in_rev. rewrite Rv. left. reflexivity. }
      apply Z.eqb_neq in Hc. cbn [res_bind]. rewrite Hc. apply cr_step'.
Qed.

Lemma read_all_spec : forall n s fuel, (length s <= n)%nat -> (length s < fuel)%nat ->
  read_all fuel s = Ok (split_lines s).
Proof.
  induction n as [|n IH]; intros s fuel Ln Lf.
  - destruct s; [|cbn in Ln; lia]. destruct fuel; [lia|]. reflexivity.
  - destruct fuel as [|fuel]; [lia|]. cbn [read_all].
    destruct (rbl_cases s) as [[l [r [N [S R]]]]|[N R]].
    + subst s. rewrite read_line_lf by exact N. cbn [res_bind]. rewrite app_length in Ln, Lf. cbn [length] in Ln, Lf.
      rewrite IH by lia. cbn [res_map]. rewrite split_lines_lf by exact N. reflexivity.
    + destruct s as [|x s]; [reflexivity|].
      rewrite read_line_last by (try exact N; discriminate). cbn [res_bind].
      destruct fuel; [cbn in Lf; lia|]. cbn [read_all read_line read_bytes_lf res_bind res_map].
      rewrite split_lines_last by (try exact N; discriminate). reflexivity.
Qed.

Lemma readline_split_lines s : read_lines s = Ok (split_lines s).
Proof. unfold read_lines. apply (read_all_spec (length s)); lia. Qed.

(* empty lines (also the very first), CR LF, a lone CR, and an unterminated last line *)
Example readline_ex :
  read_lines [10; 97; 13; 10; 10; 13; 10; 98] = Ok [[]; [97]; []; []; [98]] /\ read_lines [] = Ok [] /\
  read_lines [13] = Ok [[]] /\ split_lines [97; 10; 10] = [[97]; []].
Proof. vm_compute. repeat split. Qed.
