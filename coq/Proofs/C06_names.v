(* C06 — file names as bytes: Filename_t.Eq (comparison from byte 2) is equality of the (creation time, suffix) pair the
   rest of the model works with, under every site configuration (Model/C06.v: digits, fname, fn_eq_from, fn_eq). *)
From Verif Require Import Base.Common Model.C06.
Ltac Zify.zify_post_hook ::= Z.to_euclidean_division_equations.

Lemma digits_length b : forall n v, length (digits b n v) = n.
Proof.
  induction n as [|n IH]; intros v; [reflexivity|].
  cbn [digits]. rewrite app_length, IH. cbn [length]. lia.
Qed.

Lemma sdigits_length b n v : length (sdigits b n v) = n.
Proof. unfold sdigits. rewrite map_length. apply digits_length. Qed.

Lemma dchar_inj a b : 0 <= a < 16 -> 0 <= b < 16 -> dchar a = dchar b -> a = b.
Proof.
  unfold dchar. intros Ha Hb.
  destruct (Z.ltb_spec a 10), (Z.ltb_spec b 10); lia.
Qed.

(* a number below b^n is determined by its n digits (2 <= b <= 16: decimal and hexadecimal) *)
Lemma sdigits_inj b : 1 < b <= 16 -> forall n v v',
  0 <= v < b ^ Z.of_nat n -> 0 <= v' < b ^ Z.of_nat n -> sdigits b n v = sdigits b n v' -> v = v'.
Proof.
  intros Hb. unfold sdigits.
  induction n as [|n IH]; intros v v' Hv Hv' E.
  - cbn in Hv, Hv'. lia.
  - cbn [digits] in E. rewrite !map_app in E. cbn [map] in E.
    apply app_inj_tail in E. destruct E as [E1 E2].
    rewrite Nat2Z.inj_succ, Z.pow_succ_r in Hv, Hv' by lia.
    assert (Hq : v / b = v' / b).
    { apply IH; [| |exact E1].
      - split; [apply Z.div_pos; lia|apply Z.div_lt_upper_bound; lia].
      - split; [apply Z.div_pos; lia|apply Z.div_lt_upper_bound; lia]. }
    assert (Hm : v mod b = v' mod b).
    { apply dchar_inj; [| |exact E2].
      - pose proof (Z.mod_pos_bound v b). lia.
      - pose proof (Z.mod_pos_bound v' b). lia. }
    rewrite (Z.div_mod v b), (Z.div_mod v' b) by lia. rewrite Hq, Hm. reflexivity.
Qed.

Lemma bytes_eqb_eq : forall a b, bytes_eqb a b = true <-> a = b.
Proof.
  induction a as [|x a IH]; intros [|y b]; cbn [bytes_eqb]; split; intros H; try reflexivity; try discriminate.
  - apply andb_true_iff in H. destruct H as [H1 H2]. apply Z.eqb_eq in H1. apply IH in H2. subst. reflexivity.
  - injection H as -> ->. rewrite Z.eqb_refl. cbn [andb]. apply IH. reflexivity.
Qed.

Lemma app_eq_len {A} : forall (a a' x x' : list A), length a = length a' -> a ++ x = a' ++ x' -> a = a' /\ x = x'.
Proof.
  induction a as [|h a IH]; intros [|h' a'] x x' Hl E; cbn in Hl; try discriminate.
  - split; [reflexivity|exact E].
  - cbn [app] in E. injection E as -> E. injection Hl as Hl.
    destruct (IH a' x x' Hl E) as [-> ->]. split; reflexivity.
Qed.

Definition name_ok (t nm : Z) : Prop := 0 <= t < 10 ^ 10 /\ 0 <= nm < 4096.

(* Filename_t.Eq on two article names is equality of the (creation time, suffix) pairs - under every configuration *)
Theorem fn_eq_pair sd t nm t' nm' : name_ok t nm -> name_ok t' nm' ->
  fn_eq sd (fname t nm) (fname t' nm') = (t =? t') && (nm =? nm').
Proof.
  intros [Ht Hn] [Ht' Hn'].
  unfold fn_eq, fn_eq_from, fname. cbn [skipn].
  destruct (bytes_eqb _ _) eqn:E.
  - apply bytes_eqb_eq in E.
    apply app_eq_len in E; [|rewrite !sdigits_length; reflexivity].
    destruct E as [E1 E2].
    apply app_eq_len in E2; [|reflexivity]. destruct E2 as [_ E2].
    apply (sdigits_inj 10) in E1; [|lia|exact Ht|exact Ht'].
    apply (sdigits_inj 16) in E2; [|lia|exact Hn|exact Hn'].
    subst. rewrite !Z.eqb_refl. reflexivity.
  - symmetry. apply andb_false_iff.
    destruct (Z.eqb_spec t t') as [->|Ht2]; [|left; reflexivity].
    destruct (Z.eqb_spec nm nm') as [->|Hn2]; [|right; reflexivity].
    exfalso. assert (H : bytes_eqb (sdigits 10 10 t' ++ [46; 65; 46] ++ sdigits 16 3 nm')
                                   (sdigits 10 10 t' ++ [46; 65; 46] ++ sdigits 16 3 nm') = true)
      by (apply bytes_eqb_eq; reflexivity).
    rewrite H in E. discriminate.
Qed.

(* not vacuous, and the offset 2 is essential: a comparison that skips the 8 bytes of the ".deleted" prefix instead
   identifies two different articles whose creation times differ by 10000 seconds *)
Example fn_eq_instances :
  fname 1607203395 3948 = [77;46;49;54;48;55;50;48;51;51;57;53;46;65;46;70;54;67] /\
  fn_eq 8 (fname 1607203395 3948) (fname 1607203395 3948) = true /\
  fn_eq 8 (fname 1607203395 3948) (fname 1607213395 3948) = false /\
  fn_eq 2 (fname 1607203395 3948) (fname 1607203395 3949) = false.
Proof. vm_compute. repeat split. Qed.

Lemma fn_eq_from_safedel_prefix_refuted :
  exists t nm t' nm', name_ok t nm /\ name_ok t' nm' /\ (t, nm) <> (t', nm') /\
    fn_eq_from 8 (fname t nm) (fname t' nm') = true.
Proof.
  exists 1607203395, 3948, 1607213395, 3948. unfold name_ok.
  repeat split; try lia; try discriminate.
Qed.
