(* C02 — accounts: the password as the server's entry points hand it on (Model/C02.v: aop, astep, arun, after).
   Every entry point that asks for a password makes the same comparison — cmbbs.CheckPasswd of the stored hash with
   the very bytes it was given — and every entry point that sets one stores cmbbs.GenPasswd of the very bytes it was
   given. So, after ANY history, the password an accepted Register / ChangePasswd set opens the account at Login,
   CheckPasswd and ChangePasswd(old), the stored hash is crypt(3) of exactly those bytes, and nobody else's hash moved. *)
From Verif Require Import Base.Common Gen.CryptTab Model.C02 Model.C02_DesSpec.
From Verif Require Import Proofs.C02_Core Proofs.C02_Crypt3.

Local Open Scope nat_scope.

(* stored hashes whose two salt bytes are 7-bit — everything GenPasswd writes, everything an ASCII .PASSWDS holds *)
Definition wf_accounts (st : accounts) : Prop :=
  Forall (fun x => match x with None => True | Some h => salt7 h end) st.
(* the salt bytes GenPasswd drew are 7-bit (num & 0x7f) *)
Definition op_ok (o : aop) : Prop :=
  match o with ARegister _ _ s => salt7 s | AChange _ _ _ s => salt7 s | _ => True end.
(* the operations that can write the hash of account u *)
Definition sets (u : nat) (o : aop) : bool :=
  match o with ARegister v _ _ => Nat.eqb u v | AChange v _ _ _ => Nat.eqb u v | _ => false end.
Definition target (o : aop) : nat :=
  match o with ARegister u _ _ => u | ALogin u _ => u | ACheck u _ => u | AChange u _ _ _ => u end.
(* a password GenPasswd does not map to the empty hash *)
Definition real_password (p : list Z) : Prop := exists c r, p = c :: r /\ c <> 0%Z.

(* ---- set_stored / stored_of *)
Lemma set_stored_length : forall st u h, length (set_stored st u h) = length st.
Proof. induction st as [| x r IH]; intros u h; [reflexivity |]. destruct u; cbn [set_stored length]; [reflexivity | rewrite IH; reflexivity]. Qed.

Lemma stored_set_same : forall st u h, u < length st -> stored_of (set_stored st u h) u = Some h.
Proof.
  unfold stored_of. induction st as [| x r IH]; intros u h Hu; [cbn [length] in Hu; lia |].
  destruct u; cbn [set_stored nth]; [reflexivity |]. apply IH. cbn [length] in Hu. lia.
Qed.

Lemma stored_set_other : forall st u v h, u <> v -> stored_of (set_stored st u h) v = stored_of st v.
Proof.
  unfold stored_of. induction st as [| x r IH]; intros u v h Huv; [reflexivity |].
  destruct u, v; cbn [set_stored nth]; try reflexivity; [contradiction |]. apply IH. intros E. apply Huv. f_equal. exact E.
Qed.

Lemma stored_none_beyond : forall st u, length st <= u -> stored_of st u = None.
Proof. intros st u H. unfold stored_of. apply nth_overflow. exact H. Qed.

Lemma wf_stored : forall st u h, wf_accounts st -> stored_of st u = Some h -> salt7 h.
Proof.
  unfold wf_accounts, stored_of. intros st u h HF Hs.
  destruct (Nat.lt_ge_cases u (length st)) as [Hu | Hu].
  - pose proof (proj1 (Forall_forall _ _) HF (nth u st None) (nth_In _ _ Hu)) as H. rewrite Hs in H. exact H.
  - rewrite (nth_overflow _ _ Hu) in Hs. discriminate Hs.
Qed.

Lemma wf_set_stored : forall st u h, wf_accounts st -> salt7 h -> wf_accounts (set_stored st u h).
Proof.
  unfold wf_accounts. induction st as [| x r IH]; intros u h HF Hh; [constructor |].
  inversion HF as [| x' r' Hx Hr]; subst. destruct u; cbn [set_stored]; constructor; auto.
Qed.

(* ---- totality on 7-bit salts *)
Lemma check_total : forall h pw, salt7 h -> exists b, check_passwd h pw = Ok b.
Proof. intros h pw Hh. destruct (shape pw h Hh) as (x & Hx & _). unfold check_passwd. rewrite Hx. cbn [res_map]. eexists. reflexivity. Qed.

Lemma salt7_repeat0 : salt7 (repeat 0%Z 14).
Proof. unfold salt7. cbn [repeat length nth]. lia. Qed.

Lemma norm_byte_7 : forall s, (0 <= s < 128)%Z -> (0 <= norm_byte s < 128)%Z.
Proof. intros s Hs. unfold norm_byte. destruct (Z.eqb_spec s 0); lia. Qed.

Lemma fcrypt_salt7 : forall pw s h, salt7 s -> fcrypt pw s = Ok h -> salt7 h.
Proof.
  intros pw s h Hs Hf. destruct (shape pw s Hs) as (x & Hx & Hlen & _ & Hfirst & _). rewrite Hf in Hx. injection Hx as <-.
  destruct Hs as (_ & H0 & H1). unfold norm in Hfirst.
  destruct h as [| a [| b t]]; cbn [length] in Hlen; try lia. cbn [firstn] in Hfirst. injection Hfirst as Ha Hb.
  unfold salt7. cbn [length nth]. subst a b. split; [lia |]. split; apply norm_byte_7; assumption.
Qed.

Lemma gen_total : forall pw s, salt7 s -> exists h, gen_passwd pw s = Ok h /\ salt7 h.
Proof.
  intros pw s Hs. unfold gen_passwd. destruct pw as [| c r].
  - exists (repeat 0%Z 14). split; [reflexivity | exact salt7_repeat0].
  - destruct (Z.eqb_spec c 0).
    + exists (repeat 0%Z 14). split; [reflexivity | exact salt7_repeat0].
    + destruct (shape (c :: r) s Hs) as (x & Hx & _). exists x. split; [exact Hx |]. exact (fcrypt_salt7 _ _ _ Hs Hx).
Qed.

Lemma accepts_total : forall st u pw, wf_accounts st -> exists b, accepts st u pw = Ok b.
Proof.
  intros st u pw Hwf. unfold accepts. destruct (stored_of st u) as [h |] eqn:E; [| eexists; reflexivity].
  exact (check_total h pw (wf_stored st u h Hwf E)).
Qed.

(* no operation crashes, and the accounts stay well-formed *)
Lemma astep_total : forall st o, wf_accounts st -> op_ok o ->
  exists st' b, astep st o = Ok (st', b) /\ wf_accounts st' /\ length st' = length st.
Proof.
  intros st o Hwf Ho. destruct o as [u pw s | u pw | u pw | u old new s]; cbn [astep op_ok] in *.
  - destruct (gen_total pw s Ho) as (h & Hg & Hh). rewrite Hg. cbn [res_bind].
    destruct (Nat.ltb u (length st)); [| exists st, false; auto].
    destruct (stored_of st u); [exists st, false; auto |].
    exists (set_stored st u h), true. split; [reflexivity |]. split; [exact (wf_set_stored st u h Hwf Hh) | apply set_stored_length].
  - destruct (accepts_total st u pw Hwf) as (b & Hb). rewrite Hb. exists st, b. auto.
  - destruct (accepts_total st u pw Hwf) as (b & Hb). rewrite Hb. exists st, b. auto.
  - destruct (accepts_total st u old Hwf) as (b & Hb). rewrite Hb. cbn [res_bind]. destruct b; [| exists st, false; auto].
    destruct (gen_total new s Ho) as (h & Hg & Hh). rewrite Hg. cbn [res_map].
    exists (set_stored st u h), true. split; [reflexivity |]. split; [exact (wf_set_stored st u h Hwf Hh) | apply set_stored_length].
Qed.

Lemma after_total : forall ops st, wf_accounts st -> Forall op_ok ops ->
  exists st', after st ops = Ok st' /\ wf_accounts st' /\ length st' = length st.
Proof.
  induction ops as [| o r IH]; intros st Hwf HF; [exists st; auto |].
  inversion HF as [| o' r' Ho Hr]; subst.
  destruct (astep_total st o Hwf Ho) as (st1 & b & Hs & Hwf1 & Hl1). cbn [after]. rewrite Hs. cbn [res_bind fst].
  destruct (IH st1 Hwf1 Hr) as (st2 & Ha & Hwf2 & Hl2). exists st2. split; [exact Ha |]. split; [exact Hwf2 | lia].
Qed.

Lemma arun_total : forall ops st, wf_accounts st -> Forall op_ok ops ->
  exists l, arun st ops = Ok l /\ length l = length ops.
Proof.
  induction ops as [| o r IH]; intros st Hwf HF; [exists []; auto |].
  inversion HF as [| o' r' Ho Hr]; subst.
  destruct (astep_total st o Hwf Ho) as (st1 & b & Hs & Hwf1 & _). cbn [arun]. rewrite Hs. cbn [res_bind fst snd].
  destruct (IH st1 Hwf1 Hr) as (l & Hl & Hlen). rewrite Hl. cbn [res_map]. eexists. split; [reflexivity |]. cbn [length]. lia.
Qed.

Lemma accounts_total : forall ops st, wf_accounts st -> Forall op_ok ops ->
  (exists l, arun st ops = Ok l /\ length l = length ops) /\
  (exists st', after st ops = Ok st' /\ wf_accounts st' /\ length st' = length st).
Proof. intros ops st Hwf HF. exact (conj (arun_total ops st Hwf HF) (after_total ops st Hwf HF)). Qed.

(* arun and after walk the same states *)
Lemma arun_app : forall pre st post st1 l1, arun st pre = Ok l1 -> after st pre = Ok st1 ->
  arun st (pre ++ post) = res_map (app l1) (arun st1 post).
Proof.
  induction pre as [| o r IH]; intros st post st1 l1 Hr Ha.
  - cbn [arun after] in *. injection Hr as <-. injection Ha as <-. cbn [app]. destruct (arun st post); reflexivity.
  - cbn [arun after app] in *. destruct (astep st o) as [[st' b] | |]; cbn [res_bind fst snd] in *; try discriminate.
    destruct (arun st' r) as [l' | |] eqn:El; cbn [res_map] in Hr; try discriminate. injection Hr as <-.
    rewrite (IH st' post st1 l' El Ha). destruct (arun st1 post); reflexivity.
Qed.

Lemma after_app : forall pre st post st1, after st pre = Ok st1 -> after st (pre ++ post) = after st1 post.
Proof.
  induction pre as [| o r IH]; intros st post st1 Ha.
  - cbn [after] in Ha. injection Ha as <-. reflexivity.
  - cbn [after app] in *. destruct (astep st o) as [[st' b] | |]; cbn [res_bind fst] in *; try discriminate. exact (IH st' post st1 Ha).
Qed.

(* ---- frame: what an operation can change *)
Lemma astep_frame : forall st o st' b, astep st o = Ok (st', b) ->
  (b = false -> st' = st) /\
  (forall v, sets v o = false -> stored_of st' v = stored_of st v) /\
  (forall v, v <> target o -> stored_of st' v = stored_of st v).
Proof.
  intros st o st' b Hs.
  assert (Hkey : (st' = st) \/ (b = true /\ exists h, st' = set_stored st (target o) h /\ sets (target o) o = true)).
  { destruct o as [u pw s | u pw | u pw | u old new s]; cbn [astep target sets] in *.
    - destruct (gen_passwd pw s) as [h | |]; cbn [res_bind] in Hs; try discriminate.
      destruct (Nat.ltb u (length st)); [| injection Hs as <- <-; left; reflexivity].
      destruct (stored_of st u); injection Hs as <- <-; [left; reflexivity |].
      right. split; [reflexivity |]. exists h. split; [reflexivity | apply Nat.eqb_refl].
    - destruct (accepts st u pw); cbn [res_map] in Hs; try discriminate. injection Hs as <- <-. left; reflexivity.
    - destruct (accepts st u pw); cbn [res_map] in Hs; try discriminate. injection Hs as <- <-. left; reflexivity.
    - destruct (accepts st u old) as [[|] | |]; cbn [res_bind] in Hs; try discriminate; [| injection Hs as <- <-; left; reflexivity].
      destruct (gen_passwd new s) as [h | |]; cbn [res_map] in Hs; try discriminate. injection Hs as <- <-.
      right. split; [reflexivity |]. exists h. split; [reflexivity | apply Nat.eqb_refl]. }
  destruct Hkey as [-> | (-> & h & -> & Hset)].
  - split; [reflexivity |]. split; reflexivity.
  - split; [discriminate |]. split; intros v Hv.
    + apply stored_set_other. intros E. subst v. rewrite Hset in Hv. discriminate Hv.
    + apply stored_set_other. intros E. apply Hv. symmetry. exact E.
Qed.

Lemma after_preserves : forall mid st st' u, after st mid = Ok st' -> Forall (fun o => sets u o = false) mid ->
  stored_of st' u = stored_of st u.
Proof.
  induction mid as [| o r IH]; intros st st' u Ha HF.
  - cbn [after] in Ha. injection Ha as <-. reflexivity.
  - inversion HF as [| o' r' Ho Hr]; subst. cbn [after] in Ha.
    destruct (astep st o) as [[st1 b] | |] eqn:Es; cbn [res_bind fst] in Ha; try discriminate.
    rewrite (IH st1 st' u Ha Hr). exact (proj1 (proj2 (astep_frame st o st1 b Es)) u Ho).
Qed.

(* ---- every entry point makes the same comparison, on the bytes it was given *)
Lemma entry_points_agree : forall st u q,
  astep st (ALogin u q) = res_map (fun b => (st, b)) (accepts st u q) /\
  astep st (ACheck u q) = res_map (fun b => (st, b)) (accepts st u q) /\
  (forall new s, salt7 s -> wf_accounts st ->
     exists b st', accepts st u q = Ok b /\ astep st (AChange u q new s) = Ok (st', b)) /\
  (forall h, stored_of st u = Some h -> accepts st u q = check_passwd h q) /\
  (stored_of st u = None -> accepts st u q = Ok false).
Proof.
  intros st u q. split; [reflexivity |]. split; [reflexivity |]. split; [| split].
  - intros new s Hs Hwf. destruct (accepts_total st u q Hwf) as (b & Hb). exists b. cbn [astep]. rewrite Hb. cbn [res_bind].
    destruct b; [| exists st; auto]. destruct (gen_total new s Hs) as (h & Hg & _). rewrite Hg. cbn [res_map]. eexists. split; reflexivity.
  - intros h Hh. unfold accepts. rewrite Hh. reflexivity.
  - intros Hn. unfold accepts. rewrite Hn. reflexivity.
Qed.

(* what an accepted set operation stores: GenPasswd of the very bytes given as the (new) password *)
Definition sets_password (o : aop) (u : nat) (p salt : list Z) : Prop :=
  o = ARegister u p salt \/ exists old, o = AChange u old p salt.

Lemma accepted_set_stores : forall st o u p salt st', sets_password o u p salt ->
  astep st o = Ok (st', true) -> exists h, gen_passwd p salt = Ok h /\ stored_of st' u = Some h /\ length st' = length st.
Proof.
  intros st o u p salt st' [-> | (old & ->)] Hs; cbn [astep] in Hs.
  - destruct (gen_passwd p salt) as [h | |]; cbn [res_bind] in Hs; try discriminate.
    destruct (Nat.ltb u (length st)) eqn:Hu; [| discriminate Hs].
    destruct (stored_of st u); [discriminate Hs |]. injection Hs as <-. exists h. split; [reflexivity |].
    split; [apply stored_set_same; apply Nat.ltb_lt; exact Hu | apply set_stored_length].
  - destruct (accepts st u old) as [[|] | |] eqn:Ea; cbn [res_bind] in Hs; try discriminate.
    destruct (gen_passwd p salt) as [h | |]; cbn [res_map] in Hs; try discriminate. injection Hs as <-. exists h. split; [reflexivity |].
    split; [| apply set_stored_length]. apply stored_set_same.
    destruct (Nat.lt_ge_cases u (length st)) as [Hlt | Hge]; [exact Hlt |].
    unfold accepts in Ea. rewrite (stored_none_beyond st u Hge) in Ea. discriminate Ea.
Qed.

Lemma real_gen : forall p salt, real_password p -> gen_passwd p salt = fcrypt p salt.
Proof. intros p salt (c & r & -> & Hc). unfold gen_passwd. destruct (Z.eqb_spec c 0); [contradiction | reflexivity]. Qed.

(* THE GUARANTEE, for all histories: [pre] any operations, [o] an accepted Register / ChangePasswd that gives account u
   the password p, [mid] any operations that are not a Register / ChangePasswd of u (other accounts' operations of every
   kind, u's own logins and checks, right or wrong). Then the stored hash of u is GenPasswd(p) with the salt drawn, every
   entry point answers CheckPasswd(that hash, q) for the bytes q it is given, p itself and every q with p's key block are
   accepted (when p is not the empty password), and q is accepted exactly if re-hashing q reproduces the stored hash. *)
Lemma set_then_verify : forall st pre o u p salt mid st1 st2,
  wf_accounts st -> Forall op_ok pre -> Forall op_ok mid -> salt7 salt ->
  sets_password o u p salt ->
  after st pre = Ok st1 -> astep st1 o = Ok (st2, true) ->
  Forall (fun x => sets u x = false) mid ->
  exists h st3,
    gen_passwd p salt = Ok h /\ after st (pre ++ o :: mid) = Ok st3 /\ stored_of st3 u = Some h /\
    (forall q, accepts st3 u q = check_passwd h q) /\
    (forall q, accepts st3 u q = Ok true <-> fcrypt q h = Ok h) /\
    (real_password p -> forall q, keyblock q = keyblock p ->
       accepts st3 u q = Ok true /\
       astep st3 (ALogin u q) = Ok (st3, true) /\ astep st3 (ACheck u q) = Ok (st3, true) /\
       forall new s, salt7 s -> exists st4, astep st3 (AChange u q new s) = Ok (st4, true)) /\
    (real_password p -> forall c, crypt p salt = Some c -> h = c ++ [0%Z]).
Proof.
  intros st pre o u p salt mid st1 st2 Hwf Hpre Hmid Hsalt Hset Hafter Hstep Hnos.
  destruct (accepted_set_stores st1 o u p salt st2 Hset Hstep) as (h & Hg & Hst2 & _).
  assert (Hok : op_ok o). { destruct Hset as [-> | (old & ->)]; exact Hsalt. }
  destruct (after_total pre st Hwf Hpre) as (st1' & Ha1 & Hwf1 & _). rewrite Hafter in Ha1. injection Ha1 as <-.
  destruct (astep_total st1 o Hwf1 Hok) as (st2' & b & Hs2 & Hwf2 & _). rewrite Hstep in Hs2. injection Hs2 as <- <-.
  destruct (after_total mid st2 Hwf2 Hmid) as (st3 & Ha3 & Hwf3 & _).
  exists h, st3.
  assert (Hst3 : stored_of st3 u = Some h). { rewrite (after_preserves mid st2 st3 u Ha3 Hnos). exact Hst2. }
  assert (Hacc : forall q, accepts st3 u q = check_passwd h q). { intros q. unfold accepts. rewrite Hst3. reflexivity. }
  split; [exact Hg |]. split.
  { rewrite (after_app pre st (o :: mid) st1 Hafter). cbn [after]. rewrite Hstep. cbn [res_bind fst]. exact Ha3. }
  split; [exact Hst3 |]. split; [exact Hacc |]. split.
  { intros q. rewrite Hacc. apply check_accepts_iff. }
  split.
  - intros Hreal q Hq. rewrite (real_gen p salt Hreal) in Hg.
    destruct (generate_then_verify p salt Hsalt) as (h' & Hh' & Hv). rewrite Hg in Hh'. injection Hh' as <-.
    assert (Hq1 : accepts st3 u q = Ok true). { rewrite Hacc. apply Hv. exact Hq. }
    split; [exact Hq1 |]. cbn [astep]. rewrite Hq1. cbn [res_map res_bind]. split; [reflexivity |]. split; [reflexivity |].
    intros new s Hs. destruct (gen_total new s Hs) as (hn & Hgn & _). rewrite Hgn. cbn [res_map]. eexists. reflexivity.
  - intros Hreal c Hc. rewrite (real_gen p salt Hreal) in Hg. rewrite (equals_crypt3 p salt c Hc) in Hg. injection Hg as <-. reflexivity.
Qed.

(* the same, read off the answers of the whole history as the wire shows them: the last answer is "accepted" *)
Lemma set_then_login_history : forall st pre o u p salt mid q vop,
  wf_accounts st -> Forall op_ok pre -> Forall op_ok mid -> salt7 salt -> real_password p ->
  sets_password o u p salt ->
  (exists st1 st2, after st pre = Ok st1 /\ astep st1 o = Ok (st2, true)) ->
  Forall (fun x => sets u x = false) mid ->
  keyblock q = keyblock p ->
  (vop = ALogin u q \/ vop = ACheck u q) ->
  exists l st3, arun st (pre ++ o :: mid ++ [vop]) = Ok (l ++ [(true, st3)]) /\ length l = S (length pre + length mid).
Proof.
  intros st pre o u p salt mid q vop Hwf Hpre Hmid Hsalt Hreal Hset (st1 & st2 & Ha & Hs) Hnos Hq Hv.
  destruct (set_then_verify st pre o u p salt mid st1 st2 Hwf Hpre Hmid Hsalt Hset Ha Hs Hnos)
    as (h & st3 & _ & Ha3 & _ & _ & _ & Hacc & _).
  destruct (Hacc Hreal q Hq) as (_ & HL & HC & _).
  assert (Hok : op_ok o). { destruct Hset as [-> | (old & ->)]; exact Hsalt. }
  assert (Hall : Forall op_ok (pre ++ o :: mid)). { apply Forall_app. split; [exact Hpre | constructor; assumption]. }
  destruct (arun_total (pre ++ o :: mid) st Hwf Hall) as (l & Hl & Hlen).
  exists l, st3. split.
  - replace (pre ++ o :: mid ++ [vop]) with ((pre ++ o :: mid) ++ [vop]) by (rewrite <- app_assoc; reflexivity).
    rewrite (arun_app (pre ++ o :: mid) st [vop] st3 l Hl Ha3). cbn [arun].
    destruct Hv as [-> | ->]; [rewrite HL | rewrite HC]; reflexivity.
  - rewrite Hlen, app_length. cbn [length]. lia.
Qed.

(* non-vacuity: SYSOP ("123123", hash bhwvOJtfT1TAI) changes to a password with bytes >= 0x80 (utf8 of two CJK characters
   + "ab"), a second account registers with another one and logs in; then SYSOP logs in with the new password (accepted),
   with the old one (refused) and with the same password, bit 7 of a byte dropped (accepted: crypt(3) ignores bit 7) *)
Example accounts_example :
  let h0 := [98; 104; 119; 118; 79; 74; 116; 102; 84; 49; 84; 65; 73; 0]%Z in
  let p := [229; 175; 134; 231; 162; 188; 97; 98]%Z in
  let p' := [101; 175; 134; 231; 162; 188; 97; 98]%Z in
  let old := [49; 50; 51; 49; 50; 51]%Z in
  let st := [Some h0; None; None] in
  wf_accounts st /\ real_password p /\
  exists l, arun st [AChange 0 old p [81; 118]%Z; ARegister 1 [195; 164; 120]%Z [65; 66]%Z; ALogin 1 [195; 164; 120]%Z;
                     ALogin 0 p; ACheck 0 old; ALogin 0 p'] = Ok l /\
            map fst l = [true; true; true; true; false; true].
Proof.
  cbv zeta. split.
  - repeat constructor; unfold salt7; cbn [length nth]; lia.
  - split; [eexists; eexists; split; [reflexivity | lia] |]. eexists. split; [vm_compute; reflexivity | reflexivity].
Qed.
