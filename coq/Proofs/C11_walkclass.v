(* C11 — the by-class listing walk (bsortBy = BSORT_BY_CLASS): "collect k+1 visible boards of BSorted[by class], the
   (k+1)-th is the next cursor (its class = the C string of Title[:4], its name), look it up with
   FindBoardIdxByClass, go on from there" returns every visible board exactly once, in by-class order, in ceil(V/k)
   pages, and terminates — for every table sorted by class whose fifth title bytes are blanks (or NULs: vacated slots)
   and whose boards have (class, name up to case) keys distinct, every visibility predicate that never shows a vacated
   slot, every page size k >= 1, both directions. The class may be shorter than 4 columns and padded with blanks
   ("NB  "): the cursor carries the padding, which is what makes it resolve to its own board. *)
From Coq Require Import Sorted.
From Verif Require Import Base.Common Base.Cstr Base.ListX Base.OddSearch Model.C11 Proofs.C11_order Proofs.C11_auto Proofs.C11_walk.

(* the walk with the cursor resolution and the visibility predicate as parameters *)
Fixpoint walk_r (resolve : Z -> res Z) (vis : Z -> bool) (fuel : nat) (n : Z) (k : nat) (asc : bool) (start pages : Z) (acc : list Z)
  : res (Z * list Z) :=
  match fuel with
  | O => Hang
  | S f =>
      let '(items, next) := load_page_g vis n start k asc in
      let acc' := acc ++ map (fun i => i + 1) items in
      match next with
      | None => Ok (pages + 1, acc')
      | Some i =>
          match resolve i with
          | Ok s => if s <? 0 then Ok (pages + 2, acc') else walk_r resolve vis f n k asc s (pages + 1) acc'
          | Crash => Crash
          | Hang => Hang
          end
      end
  end.

(* how the by-class listing resolves the cursor made from entry i *)
Definition resolve_class (titles names : list (list Z)) (asc : bool) (i : Z) : res Z :=
  find_by_class titles names (cursor_class (nth (Z.to_nat i) titles [])) (nth (Z.to_nat i) names []) asc.

Definition page_walk_class_g (vis : Z -> bool) (titles names : list (list Z)) (k : nat) (asc : bool) : res (Z * list Z) :=
  walk_r (resolve_class titles names asc) vis (S (S (S (2 * length names)))) (lenZ names) k asc (if asc then 1 else 0) 0 [].

Lemma walk_class_is_r : forall fuel titles names k asc start pages acc,
  walk_class fuel titles names k asc start pages acc =
  walk_r (resolve_class titles names asc) (visible names) fuel (lenZ names) k asc start pages acc.
Proof.
  induction fuel as [|f IH]; intros; [reflexivity|]. cbn [walk_class walk_r].
  change (load_page names start k asc) with (load_page_g (visible names) (lenZ names) start k asc).
  destruct (load_page_g (visible names) (lenZ names) start k asc) as [items next].
  destruct next as [i|]; [|reflexivity]. unfold resolve_class.
  destruct (find_by_class titles names (cursor_class (nth (Z.to_nat i) titles [])) (nth (Z.to_nat i) names []) asc) as [s| |]; try reflexivity.
  destruct (s <? 0); [reflexivity|apply IH].
Qed.

Lemma page_walk_class_is_g titles names k asc :
  page_walk_class titles names k asc = page_walk_class_g (visible names) titles names k asc.
Proof. apply walk_class_is_r. Qed.

(* ---------------------------------------------------------------- the walk, for any resolution that finds its own board *)
Section WalkR.
  Variables (resolve : Z -> res Z) (vis : Z -> bool) (n : Z) (k : nat) (asc : bool).
  Hypothesis Hn : 0 <= n.
  Hypothesis Hk : (1 <= k)%nat.
  (* the cursor resolves to its own board *)
  Hypothesis Hres : forall i, 0 <= i < n -> vis i = true -> resolve i = Ok (i + 1).

  Definition adjr (s : Z) : Z := if (s =? 0) && negb asc then n else s.

  Lemma walk_r_spec : forall fuel s pages acc, (asc = true -> 1 <= s) ->
    (length (filter vis (candidates n (adjr s) asc)) < fuel)%nat ->
    walk_r resolve vis fuel n k asc s pages acc =
    Ok (pages + pages_of (length (filter vis (candidates n (adjr s) asc))) k,
        acc ++ map (fun i => i + 1) (filter vis (candidates n (adjr s) asc))).
  Proof.
    induction fuel as [|f IH]; intros s pages acc Hs Hf; [lia|].
    cbn [walk_r]. unfold load_page_g. fold (adjr s).
    assert (Hadj : asc = true -> 1 <= adjr s).
    { intros Ha. unfold adjr. rewrite Ha. rewrite andb_false_r. apply Hs. exact Ha. }
    set (R := filter vis (candidates n (adjr s) asc)) in *.
    destruct (Nat.le_gt_cases (length R) k) as [Hle|Hgt].
    - rewrite firstn_all2 by lia. destruct (Nat.eqb_spec (length R) (S k)); [lia|].
      rewrite pages_small by assumption. reflexivity.
    - assert (HL : length (firstn (S k) R) = S k) by (rewrite firstn_length; lia).
      rewrite HL, Nat.eqb_refl. rewrite firstn_firstn, Nat.min_l by lia. rewrite nth_error_firstn_lt by lia.
      destruct (nth_error R k) as [i|] eqn:En; [|apply nth_error_None in En; lia].
      assert (Hin : In i (candidates n (adjr s) asc)).
      { apply nth_error_In in En. unfold R in En. apply filter_In in En. tauto. }
      assert (Hv : vis i = true). { apply nth_error_In in En. unfold R in En. apply filter_In in En. tauto. }
      destruct (in_split _ _ Hin) as (l1 & l2 & Hsplit).
      destruct (cand_suffix n (adjr s) asc l1 i l2 Hn Hadj Hsplit) as [Hi Hnext].
      rewrite (Hres i Hi Hv). destruct (Z.ltb_spec (i + 1) 0); [lia|].
      assert (Hadj' : adjr (i + 1) = i + 1). { unfold adjr. destruct (Z.eqb_spec (i + 1) 0); [lia|reflexivity]. }
      pose proof (NoDup_candidates n (adjr s) asc) as Hnd. rewrite Hsplit in Hnd.
      assert (En' : nth_error (filter vis (l1 ++ i :: l2)) k = Some i) by (rewrite <- Hsplit; exact En).
      destruct (filter_split_nth vis l1 l2 i k Hnd En') as [_ Hskip]. rewrite <- Hsplit in Hskip. fold R in Hskip.
      rewrite (IH (i + 1) (pages + 1) _ ltac:(intros; lia)); rewrite Hadj', Hnext, <- Hskip.
      + rewrite skipn_length, (pages_step (length R) k Hk Hgt), <- app_assoc, <- map_app, firstn_skipn.
        f_equal. f_equal. lia.
      + rewrite skipn_length. lia.
  Qed.
End WalkR.

(* ---------------------------------------------------------------- (class, name) keys distinct, vacated slots excepted *)
(* an entry is (Title[:5], name): two different slots have the same class (Title[:4] as a C string) and names equal
   up to case only when both are vacated (empty name) *)
Fixpoint distinct_class (l : list (list Z * list Z)) : bool :=
  match l with
  | [] => true
  | a :: r =>
      forallb (fun b => negb ((cstrcmp (firstn 4 (fst a)) (firstn 4 (fst b)) =? 0) &&
                              (cstrcasecmp (boardid (snd a)) (boardid (snd b)) =? 0))
                        || (is_nil (snd a) && is_nil (snd b))) r && distinct_class r
  end.

Lemma distinct_class_spec : forall l, distinct_class l = true -> forall i j, (i < j < length l)%nat ->
  cstrcmp (firstn 4 (fst (nth i l ([], [])))) (firstn 4 (fst (nth j l ([], [])))) = 0 ->
  cstrcasecmp (boardid (snd (nth i l ([], [])))) (boardid (snd (nth j l ([], [])))) = 0 ->
  snd (nth i l ([], [])) = [] /\ snd (nth j l ([], [])) = [].
Proof.
  induction l as [|a l IH]; intros H i j Hij Hc Hn; [cbn in Hij; lia|].
  cbn [distinct_class] in H. apply andb_prop in H. destruct H as [H1 H2].
  destruct j as [|j]; [lia|]. destruct i as [|i].
  - cbn [nth] in *. rewrite forallb_forall in H1. specialize (H1 (nth j l ([], [])) ltac:(apply nth_In; cbn in Hij; lia)).
    rewrite Hc, Hn in H1. cbn in H1. apply andb_prop in H1. destruct H1 as [Ha Hb].
    destruct (snd a); [|discriminate]. destruct (snd (nth j l ([], []))); [|discriminate]. split; reflexivity.
  - cbn [nth] in *. apply IH; [exact H2|cbn in Hij; lia|exact Hc|exact Hn].
Qed.

(* ---------------------------------------------------------------- the cursor is a well-formed key *)
Lemma cprefix_idem : forall l, cprefix (cprefix l) = cprefix l.
Proof.
  induction l as [|c l IH]; [reflexivity|]. cbn [cprefix]. destruct (c =? 0) eqn:E; [reflexivity|].
  cbn [cprefix]. rewrite E, IH. reflexivity.
Qed.

Lemma In_cprefix : forall l x, In x (cprefix l) -> In x l.
Proof.
  induction l as [|c l IH]; intros x H; [destruct H|]. cbn [cprefix] in H. destruct (c =? 0); [destruct H|].
  destruct H as [->|H]; [left; reflexivity|right; apply IH; exact H].
Qed.

Lemma bytes_ok_cursor t : bytes_ok t = true -> bytes_ok (cursor_class t) = true.
Proof.
  unfold bytes_ok, cursor_class. rewrite !forallb_forall. intros H x Hx. apply H.
  apply In_cprefix in Hx. apply In_firstn in Hx. exact Hx.
Qed.

(* ---------------------------------------------------------------- the cursor resolves to its own board *)
Lemma cmp2_zero a b : cmp2 a b = 0 -> strcmp_spec (fst a) (fst b) = 0 /\ strcmp_spec (snd a) (snd b) = 0.
Proof. unfold cmp2. destruct (Z.eqb_spec (strcmp_spec (fst a) (fst b)) 0); [tauto|lia]. Qed.

Lemma cursor_resolves_class titles names asc :
  length titles = length names -> Forall title_ok titles ->
  forallb bytes_ok titles = true -> forallb bytes_ok names = true ->
  sorted_by less_class (combine titles names) = true -> distinct_class (combine titles names) = true ->
  forall i, 0 <= i < lenZ names -> visible names i = true -> resolve_class titles names asc i = Ok (i + 1).
Proof.
  intros Hlen Hok Hbt Hbn Hs Hd i Hi Hv. unfold resolve_class.
  set (t := nth (Z.to_nat i) titles []) in *. set (q := nth (Z.to_nat i) names []) in *.
  set (cls := cursor_class t).
  assert (Hq : bytes_ok q = true) by apply all_bytes_ok_nth, Hbn.
  assert (Hcls : bytes_ok cls = true) by (apply bytes_ok_cursor, all_bytes_ok_nth, Hbt).
  pose proof (sorted_implies_monotone_class titles names cls q Hlen Hok Hbt Hbn Hcls Hq Hs) as Hm. unfold sorted_for_class in Hm.
  assert (Hti : forall x, 0 <= x < lenZ names -> title_ok (nth (Z.to_nat x) titles [])).
  { intros x Hx. rewrite Forall_forall in Hok. apply Hok, nth_In. unfold lenZ in Hx. lia. }
  (* the comparison with entry j, on keys *)
  assert (HK : forall j, 0 <= j < lenZ names ->
            cmp_class titles names cls q j =
            cmp2 (cprefix (firstn 4 t), key_name q)
                 (cprefix (firstn 4 (nth (Z.to_nat j) titles [])), key_name (nth (Z.to_nat j) names []))).
  { intros j Hj. rewrite (cmp_class_key titles names cls q j Hlen (Hti j Hj)).
    change (@nil Z, @nil Z) with (key_class ([], [])). rewrite map_nth, combine_nth by exact Hlen.
    unfold key_class, cls, cursor_class. cbn [fst snd]. rewrite cprefix_idem. reflexivity. }
  assert (Hci : cmp_class titles names cls q i = 0).
  { rewrite (HK i Hi). fold t. fold q. unfold cmp2. cbn [fst snd]. rewrite !ss_refl. reflexivity. }
  assert (Hne : q <> []). { unfold visible in Hv. fold q in Hv. destruct q; [discriminate|discriminate]. }
  assert (Hu : forall j, 0 <= j < lenZ names -> cmp_class titles names cls q j = 0 -> j = i).
  { intros j Hj Hc. destruct (Z.eq_dec j i) as [|Hji]; [assumption|exfalso].
    rewrite (HK j Hj) in Hc. apply cmp2_zero in Hc. cbn [fst snd] in Hc. destruct Hc as [Hc1 Hc2].
    unfold lenZ in Hi, Hj.
    assert (HL : length (combine titles names) = length names) by (rewrite combine_length, Hlen; apply Nat.min_id).
    destruct (Z_lt_le_dec i j).
    - destruct (distinct_class_spec _ Hd (Z.to_nat i) (Z.to_nat j) ltac:(lia)) as [E _].
      + rewrite !combine_nth by exact Hlen. cbn [fst]. rewrite cstrcmp_spec. exact Hc1.
      + rewrite !combine_nth by exact Hlen. cbn [snd]. rewrite casecmp_key. exact Hc2.
      + rewrite combine_nth in E by exact Hlen. cbn [snd] in E. apply Hne. exact E.
    - destruct (distinct_class_spec _ Hd (Z.to_nat j) (Z.to_nat i) ltac:(lia)) as [_ E].
      + rewrite !combine_nth by exact Hlen. cbn [fst]. rewrite cstrcmp_spec, ss_antisym. fold t. lia.
      + rewrite !combine_nth by exact Hlen. cbn [snd]. rewrite casecmp_key, ss_antisym. fold q. lia.
      + rewrite combine_nth in E by exact Hlen. cbn [snd] in E. apply Hne. exact E. }
  unfold find_by_class, find.
  destruct (search_exact (cmp_class titles names cls q) (lenZ names) Hm ltac:(unfold lenZ; lia)) as (idx & found & E & Ht & Hf).
  rewrite E. destruct found.
  - destruct (Ht eq_refl) as [Hr Hc]. rewrite (Hu idx Hr Hc). reflexivity.
  - exfalso. exact (Hf eq_refl i Hi Hci).
Qed.

(* ---------------------------------------------------------------- the theorems *)
Theorem page_walk_class_any_visibility titles names vis k asc :
  length titles = length names -> Forall title_ok titles ->
  forallb bytes_ok titles = true -> forallb bytes_ok names = true ->
  sorted_by less_class (combine titles names) = true -> distinct_class (combine titles names) = true ->
  (forall i, vis i = true -> visible names i = true) -> (1 <= k)%nat ->
  page_walk_class_g vis titles names k asc =
  let V := filter vis (if asc then zseq 0 (length names) else rev (zseq 0 (length names))) in
  Ok (pages_of (length V) k, map (fun i => i + 1) V).
Proof.
  intros Hlen Hok Hbt Hbn Hs Hd Hvis Hk. unfold page_walk_class_g.
  set (n := lenZ names).
  assert (Hn : 0 <= n) by (unfold n, lenZ; lia).
  assert (Hres : forall i, 0 <= i < n -> vis i = true -> resolve_class titles names asc i = Ok (i + 1)).
  { intros i Hi Hv. apply cursor_resolves_class; try assumption. apply Hvis. exact Hv. }
  assert (EC : candidates n (adjr n asc (if asc then 1 else 0)) asc = if asc then zseq 0 (length names) else rev (zseq 0 (length names))).
  { unfold adjr, candidates, n, lenZ. destruct asc; cbn [negb andb Z.eqb].
    - f_equal. lia.
    - rewrite Z.min_id, Nat2Z.id. reflexivity. }
  rewrite (walk_r_spec (resolve_class titles names asc) vis n k asc Hn Hk Hres).
  - rewrite EC. reflexivity.
  - destruct asc; intros; [lia|discriminate].
  - rewrite EC. eapply Nat.le_lt_trans; [apply filter_length_le'|].
    destruct asc; [|rewrite rev_length]; rewrite zseq_length; lia.
Qed.

(* the model's walk (every non-vacated board is visible: what the harness exercises as SYSOP) *)
Theorem page_walk_class_spec titles names k asc :
  length titles = length names -> Forall title_ok titles ->
  forallb bytes_ok titles = true -> forallb bytes_ok names = true ->
  sorted_by less_class (combine titles names) = true -> distinct_class (combine titles names) = true -> (1 <= k)%nat ->
  page_walk_class titles names k asc =
  let V := filter (visible names) (if asc then zseq 0 (length names) else rev (zseq 0 (length names))) in
  Ok (pages_of (length V) k, map (fun i => i + 1) V).
Proof.
  intros Hlen Hok Hbt Hbn Hs Hd Hk. rewrite page_walk_class_is_g. apply page_walk_class_any_visibility; auto.
Qed.

(* ---------------------------------------------------------------- non-vacuity: space-padded short classes sharing prefixes *)
(* by-class order: a vacated slot, ("A   ","b"), ("N   ","a"), ("NB  ","Note"), ("NB  ","sysop"), ("NBA ","ab"), ("NBAB","a") *)
Definition ex_ctitles : list (list Z) :=
  [[0; 0; 0; 0; 0]; [65; 32; 32; 32; 32]; [78; 32; 32; 32; 32]; [78; 66; 32; 32; 32]; [78; 66; 32; 32; 32];
   [78; 66; 65; 32; 32]; [78; 66; 65; 66; 32]].
Definition ex_cnames : list (list Z) := [[]; [98]; [97]; [78; 111; 116; 101]; [115; 121; 115; 111; 112]; [97; 98]; [97]].

Example ex_class_hyps :
  sorted_by less_class (combine ex_ctitles ex_cnames) = true /\ distinct_class (combine ex_ctitles ex_cnames) = true /\
  Forall title_ok ex_ctitles.
Proof. split; [reflexivity|]. split; [reflexivity|]. unfold ex_ctitles. apply Forall_forall; intros t Ht; cbn [In] in Ht; unfold title_ok; repeat (destruct Ht as [<-|Ht]; [cbn; auto|]); destruct Ht. Qed.

Example ex_walk_class :
  page_walk_class ex_ctitles ex_cnames 1 true = Ok (6, [2; 3; 4; 5; 6; 7]) /\
  page_walk_class ex_ctitles ex_cnames 1 false = Ok (6, [7; 6; 5; 4; 3; 2]) /\
  page_walk_class ex_ctitles ex_cnames 4 true = Ok (2, [2; 3; 4; 5; 6; 7]) /\
  page_walk_class ex_ctitles ex_cnames 4 false = Ok (2, [7; 6; 5; 4; 3; 2]).
Proof. vm_compute. auto. Qed.

(* ---------------------------------------------------------------- refutations *)
(* what goes wrong when the cursor does not carry the padding of a short class: the walk with the blanks stripped from
   the cursor class ("NB  " -> "NB") — NOT the code's walk, the counterfactual the padding guards against *)
Fixpoint strip_blanks (l : list Z) : list Z :=
  match l with
  | [] => []
  | c :: r => match strip_blanks r with [] => if c =? 32 then [] else [c] | r' => c :: r' end
  end.
Definition resolve_class_stripped (titles names : list (list Z)) (asc : bool) (i : Z) : res Z :=
  find_by_class titles names (strip_blanks (cursor_class (nth (Z.to_nat i) titles []))) (nth (Z.to_nat i) names []) asc.
Definition page_walk_class_stripped (titles names : list (list Z)) (k : nat) (asc : bool) : res (Z * list Z) :=
  walk_r (resolve_class_stripped titles names asc) (visible names) (S (S (S (2 * length names)))) (lenZ names) k asc
         (if asc then 1 else 0) 0 [].

(* with the padding stripped, the example table (all hypotheses of the theorem hold) pages for ever ascending and
   skips boards descending (positions 6, 4, 2 are never returned) *)
Lemma page_walk_class_needs_padding :
  page_walk_class_stripped ex_ctitles ex_cnames 1 true = Hang /\
  page_walk_class_stripped ex_ctitles ex_cnames 1 false = Ok (4, [7; 5; 3]).
Proof. vm_compute. auto. Qed.

(* names equal up to case inside one class: the cursor resolves to the other twin and the walk never ends *)
Lemma page_walk_class_refuted_case_twins :
  exists titles names k asc, sorted_by less_class (combine titles names) = true /\ Forall title_ok titles /\ (0 < k)%nat /\
    page_walk_class titles names k asc = Hang.
Proof.
  exists [[78; 66; 32; 32; 32]; [78; 66; 32; 32; 32]], [[97]; [65]], 1%nat, true.
  split; [reflexivity|]. split; [apply Forall_forall; intros t Ht; cbn [In] in Ht; unfold title_ok; repeat (destruct Ht as [<-|Ht]; [cbn; auto|]); destruct Ht|]. split; [lia|]. vm_compute. reflexivity.
Qed.

(* a non-blank fifth title byte: the cursor class is Title[:4] but the search compares with Title[:5], the cursor does
   not resolve to its own board (consequence of the known finding find-by-class-nonblank-fifth-title-byte) *)
Lemma page_walk_class_refuted_nonblank_title_byte :
  exists titles names k asc, sorted_by less_class (combine titles names) = true /\
    distinct_class (combine titles names) = true /\ (0 < k)%nat /\
    page_walk_class titles names k asc <>
    Ok (pages_of (length (filter (visible names) (if asc then zseq 0 (length names) else rev (zseq 0 (length names))))) k,
        map (fun i => i + 1) (filter (visible names) (if asc then zseq 0 (length names) else rev (zseq 0 (length names))))).
Proof.
  exists [[65; 65; 65; 65; 120]; [65; 65; 65; 65; 120]; [65; 65; 65; 65; 120]], [[97]; [98]; [99]], 1%nat, false.
  split; [reflexivity|]. split; [reflexivity|]. split; [lia|]. vm_compute. discriminate.
Qed.
