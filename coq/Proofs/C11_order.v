(* C11 — the two orders the board indexes are sorted with (cache/shm_board_by.go) are strict weak orders on byte
   strings, and an index sorted with them is monotone for EVERY key the searches of cache/cache_board.go compare
   with it (the hypothesis [mono] of Base/OddSearch.v).

   Everything goes through the C string a comparison really looks at: [key_name s] is the lower-cased text before
   the first NUL of the BoardID_t copy of s; Cstrcmp / Cstrcasecmp are [strcmp_spec] (Base/Cstr.v) on those. *)
From Verif Require Import Base.Common Base.Cstr Base.ListX Base.OddSearch Model.C11.

Definition pos (l : list Z) : Prop := Forall (fun x => 0 < x) l.
Definition nonneg (l : list Z) : Prop := Forall (fun x => 0 <= x) l.

Lemma bytes_ok_nonneg l : bytes_ok l = true -> nonneg l.
Proof.
  unfold bytes_ok, nonneg. rewrite forallb_forall, Forall_forall. intros H x Hx. specialize (H x Hx).
  unfold is_byte in H. apply andb_prop in H. destruct H as [H _]. apply Z.leb_le in H. exact H.
Qed.

Lemma all_bytes_ok_nth (names : list (list Z)) i : forallb bytes_ok names = true -> bytes_ok (nth i names []) = true.
Proof.
  intros H. destruct (Nat.lt_ge_cases i (length names)) as [Hi|Hi].
  - rewrite forallb_forall in H. apply H. apply nth_In. exact Hi.
  - rewrite nth_overflow by exact Hi. reflexivity.
Qed.

(* ---------------------------------------------------------------- strcmp on NUL-free strings *)
Lemma ss_antisym : forall a b, strcmp_spec b a = - strcmp_spec a b.
Proof.
  induction a as [|x a IH]; destruct b as [|y b]; cbn [strcmp_spec]; try lia.
  rewrite (Z.eqb_sym y x). destruct (Z.eqb_spec x y); [apply IH|lia].
Qed.

Lemma ss_refl : forall a, strcmp_spec a a = 0.
Proof. induction a as [|x a IH]; cbn [strcmp_spec]; [reflexivity|]. rewrite Z.eqb_refl. exact IH. Qed.

Lemma ss_eq : forall a b, pos a -> pos b -> strcmp_spec a b = 0 -> a = b.
Proof.
  induction a as [|x a IH]; destruct b as [|y b]; intros Ha Hb H; cbn [strcmp_spec] in H.
  - reflexivity.
  - inversion Hb; subst. lia.
  - inversion Ha; subst. lia.
  - inversion Ha; inversion Hb; subst. destruct (Z.eqb_spec x y); [|lia]. subst. f_equal. apply IH; assumption.
Qed.

Lemma ss_trans : forall a b c, pos a -> pos b -> pos c -> strcmp_spec a b <= 0 -> strcmp_spec b c <= 0 ->
  strcmp_spec a c <= 0 /\ (strcmp_spec a b < 0 \/ strcmp_spec b c < 0 -> strcmp_spec a c < 0).
Proof.
  induction a as [|x a IH]; intros b c Ha Hb Hc; destruct b as [|y b], c as [|z c]; cbn [strcmp_spec];
    intros Hab Hbc; try (inversion Ha; subst); try (inversion Hb; subst); try (inversion Hc; subst); try lia.
  destruct (Z.eqb_spec x y), (Z.eqb_spec y z), (Z.eqb_spec x z); subst; try lia.
  apply IH; assumption.
Qed.

Lemma ss_nil_le a : pos a -> strcmp_spec [] a <= 0.
Proof. intros H. destruct a; cbn; [lia|inversion H; subst; lia]. Qed.

(* ---------------------------------------------------------------- Cstrcmp / Cstrcasecmp are strcmp on the C strings *)
Lemma cstrcmp_spec : forall a b, cstrcmp a b = strcmp_spec (cprefix a) (cprefix b).
Proof.
  induction a as [|x a IH]; intros b.
  - cbn [cstrcmp cprefix]. destruct b as [|y b]; [reflexivity|]. cbn [cprefix].
    destruct (Z.eqb_spec y 0); [subst; reflexivity|reflexivity].
  - cbn [cstrcmp cprefix]. destruct (Z.eqb_spec x 0) as [->|Hx].
    + destruct b as [|y b]; [reflexivity|]. cbn [cprefix]. destruct (Z.eqb_spec y 0); [subst; reflexivity|reflexivity].
    + destruct b as [|y b]; [reflexivity|]. cbn [cprefix]. destruct (Z.eqb_spec y 0) as [->|Hy].
      * destruct (Z.eqb_spec x 0); [contradiction|]. cbn [strcmp_spec]. lia.
      * cbn [strcmp_spec]. destruct (Z.eqb_spec x y); [apply IH|reflexivity].
Qed.

Lemma tolower_zero c : (tolower c =? 0) = (c =? 0).
Proof.
  unfold tolower. destruct ((65 <=? c) && (c <=? 90)) eqn:E; [|reflexivity].
  apply andb_prop in E. destruct E as [E1 _]. apply Z.leb_le in E1.
  destruct (Z.eqb_spec (c + 32) 0), (Z.eqb_spec c 0); try reflexivity; lia.
Qed.

Lemma tolower_pos c : 0 < c -> 0 < tolower c.
Proof. unfold tolower. destruct ((65 <=? c) && (c <=? 90)); lia. Qed.

Lemma tolower_idem c : tolower (tolower c) = tolower c.
Proof.
  unfold tolower. destruct ((65 <=? c) && (c <=? 90)) eqn:E; [|rewrite E; reflexivity].
  apply andb_prop in E. destruct E as [E1 E2]. apply Z.leb_le in E1, E2.
  destruct (Z.leb_spec 65 (c + 32)), (Z.leb_spec (c + 32) 90); cbn; try reflexivity; lia.
Qed.

Lemma cprefix_map_tolower : forall l, cprefix (map tolower l) = map tolower (cprefix l).
Proof.
  induction l as [|c l IH]; [reflexivity|]. cbn [map cprefix]. rewrite tolower_zero.
  destruct (c =? 0); [reflexivity|]. cbn [map]. rewrite IH. reflexivity.
Qed.

Lemma cprefix_pos : forall l, nonneg l -> pos (cprefix l).
Proof.
  induction l as [|c l IH]; intros H; [constructor|]. inversion H; subst. cbn [cprefix].
  destruct (Z.eqb_spec c 0); constructor; [lia|apply IH; assumption].
Qed.

Lemma map_tolower_pos l : pos l -> pos (map tolower l).
Proof. intros H. induction H; constructor; [apply tolower_pos; assumption|assumption]. Qed.

Lemma cprefix_firstn : forall k l, cprefix (firstn k l) = firstn k (cprefix l).
Proof.
  induction k as [|k IH]; intros l; [reflexivity|]. destruct l as [|c l]; [reflexivity|].
  cbn [firstn cprefix]. destruct (c =? 0); [reflexivity|]. cbn [firstn]. rewrite IH. reflexivity.
Qed.

Lemma cprefix_nonul : forall l, ~ In 0 l -> cprefix l = l.
Proof.
  induction l as [|c l IH]; intros H; [reflexivity|]. cbn [cprefix]. destruct (Z.eqb_spec c 0) as [->|Hc].
  - exfalso. apply H. left. reflexivity.
  - rewrite IH; [reflexivity|]. intros Hin. apply H. right. exact Hin.
Qed.

Lemma cprefix_app_nul : forall l r, ~ In 0 l -> cprefix (l ++ 0 :: r) = l.
Proof.
  induction l as [|c l IH]; intros r H; [reflexivity|]. cbn [app cprefix]. destruct (Z.eqb_spec c 0) as [->|Hc].
  - exfalso. apply H. left. reflexivity.
  - rewrite IH; [reflexivity|]. intros Hin. apply H. right. exact Hin.
Qed.

(* the text a name comparison looks at: lower-cased C string of the BoardID_t copy *)
Definition key_name (s : list Z) : list Z := map tolower (cprefix (boardid s)).

Lemma cstrcasecmp_spec a b : cstrcasecmp a b = strcmp_spec (map tolower (cprefix a)) (map tolower (cprefix b)).
Proof. unfold cstrcasecmp. rewrite cstrcmp_spec, !cprefix_map_tolower. reflexivity. Qed.

Lemma casecmp_key a b : cstrcasecmp (boardid a) (boardid b) = strcmp_spec (key_name a) (key_name b).
Proof. apply cstrcasecmp_spec. Qed.

Lemma boardid_nonneg s : nonneg s -> nonneg (boardid s).
Proof.
  intros H. unfold boardid, fixlen, nonneg. apply Forall_app. split.
  - apply Forall_forall. intros x Hx. apply In_firstn in Hx. unfold nonneg in H. rewrite Forall_forall in H. apply H. exact Hx.
  - apply Forall_forall. intros x Hx. apply repeat_spec in Hx. lia.
Qed.

Lemma key_name_pos s : nonneg s -> pos (key_name s).
Proof. intros H. unfold key_name. apply map_tolower_pos, cprefix_pos, boardid_nonneg. exact H. Qed.

Lemma key_name_nil : key_name [] = [].
Proof. reflexivity. Qed.

Lemma nth_keys names i : nth i (map key_name names) [] = key_name (nth i names []).
Proof. change (@nil Z) with (key_name []) at 1. apply map_nth. Qed.

Lemma cmp_name_key names q i :
  cmp_name names q i = strcmp_spec (key_name q) (nth (Z.to_nat i) (map key_name names) []).
Proof.
  unfold cmp_name, name_at. rewrite casecmp_key. f_equal.
  rewrite <- key_name_nil at 2. rewrite map_nth. reflexivity.
Qed.

(* ---------------------------------------------------------------- strict weak orders, generically *)
Definition strict_weak_order {A} (D : A -> Prop) (less : A -> A -> bool) : Prop :=
  (forall a, less a a = false) /\
  (forall a b c, D a -> D b -> D c -> less a b = true -> less b c = true -> less a c = true) /\
  (forall a b c, D a -> D b -> D c ->
     less a b = false -> less b a = false -> less b c = false -> less c b = false ->
     less a c = false /\ less c a = false).

Lemma sorted_by_map {A B} (f : A -> B) (g : B -> B -> bool) : forall l,
  sorted_by (fun a b => g (f a) (f b)) l = sorted_by g (map f l).
Proof.
  induction l as [|a l IH]; [reflexivity|]. destruct l as [|b l]; [reflexivity|].
  cbn [sorted_by map] in *. rewrite IH. reflexivity.
Qed.

Lemma sorted_by_ext {A} (f g : A -> A -> bool) : (forall a b, f a b = g a b) -> forall l, sorted_by f l = sorted_by g l.
Proof.
  intros E. induction l as [|a l IH]; [reflexivity|]. destruct l as [|b l]; [reflexivity|].
  cbn [sorted_by] in *. rewrite IH, E. reflexivity.
Qed.

Section Ord.
  Context {K : Type} (cmp : K -> K -> Z) (D : K -> Prop).
  Hypothesis anti : forall a b, cmp b a = - cmp a b.
  Hypothesis trans : forall a b c, D a -> D b -> D c -> cmp a b <= 0 -> cmp b c <= 0 ->
    cmp a c <= 0 /\ (cmp a b < 0 \/ cmp b c < 0 -> cmp a c < 0).

  Definition lessK (a b : K) : bool := cmp a b <? 0.

  Lemma lessK_swo : strict_weak_order D lessK.
  Proof.
    unfold lessK. split; [|split].
    - intros a. pose proof (anti a a). apply Z.ltb_ge. lia.
    - intros a b c Da Db Dc H1 H2. apply Z.ltb_lt in H1, H2. apply Z.ltb_lt.
      apply (trans a b c Da Db Dc); lia.
    - intros a b c Da Db Dc H1 H2 H3 H4. apply Z.ltb_ge in H1, H2, H3, H4.
      pose proof (anti a b). pose proof (anti b c). pose proof (anti a c).
      destruct (trans a b c Da Db Dc ltac:(lia) ltac:(lia)) as [T1 _].
      destruct (trans c b a Dc Db Da ltac:(lia) ltac:(lia)) as [T2 _].
      split; apply Z.ltb_ge; lia.
  Qed.

  Lemma sorted_head a : forall l, D a -> Forall D l -> sorted_by lessK (a :: l) = true ->
    Forall (fun b => cmp a b <= 0) l /\ sorted_by lessK l = true.
  Proof.
    intros l. revert a. induction l as [|b l IH]; intros a Da Dl H; [split; [constructor|reflexivity]|].
    inversion Dl as [|? ? Db Dl']; subst.
    change (sorted_by lessK (a :: b :: l)) with (negb (lessK b a) && sorted_by lessK (b :: l)) in H.
    apply andb_prop in H. destruct H as [H1 H2]. apply negb_true_iff in H1. unfold lessK in H1. apply Z.ltb_ge in H1.
    pose proof (anti a b) as Hab. split; [|exact H2].
    destruct (IH b Db Dl' H2) as [Hall _]. constructor; [lia|].
    rewrite Forall_forall in *. intros x Hx. specialize (Hall x Hx).
    apply (trans a b x Da Db (Dl' x Hx)); lia.
  Qed.

  Lemma sorted_all d : forall l, Forall D l -> sorted_by lessK l = true ->
    forall i j, (i <= j < length l)%nat -> cmp (nth i l d) (nth j l d) <= 0.
  Proof.
    induction l as [|a l IH]; intros Dl Hs i j Hij; [cbn in Hij; lia|].
    inversion Dl as [|? ? Da Dl']; subst. destruct (sorted_head a l Da Dl' Hs) as [Hall Hs'].
    destruct i as [|i], j as [|j]; cbn [nth].
    - pose proof (anti a a). lia.
    - rewrite Forall_forall in Hall. apply Hall. apply nth_In. cbn in Hij. lia.
    - lia.
    - apply IH; [assumption|assumption|cbn in Hij; lia].
  Qed.

  (* a sorted list is monotone for every key *)
  Lemma mono_sorted d l k : Forall D l -> D d -> D k -> sorted_by lessK l = true ->
    mono (fun i => cmp k (nth (Z.to_nat i) l d)) (lenZ l).
  Proof.
    intros Dl Dd Dk Hs i j Hi Hij Hj. unfold lenZ in Hj. cbv beta.
    pose proof (sorted_all d l Dl Hs (Z.to_nat i) (Z.to_nat j) ltac:(lia)) as Hle.
    assert (Dn : forall x, D (nth x l d)).
    { intros x. destruct (nth_in_or_default x l d) as [H|E]; [|rewrite E; exact Dd]. rewrite Forall_forall in Dl. apply Dl. exact H. }
    pose proof (Dn (Z.to_nat i)) as Dei. pose proof (Dn (Z.to_nat j)) as Dej.
    set (ei := nth (Z.to_nat i) l d) in *. set (ej := nth (Z.to_nat j) l d) in *.
    pose proof (anti k ei). pose proof (anti k ej).
    split; intros Hc.
    - destruct (trans ei ej k Dei Dej Dk Hle ltac:(lia)) as [_ T]. specialize (T ltac:(lia)). lia.
    - destruct (trans ei ej k Dei Dej Dk Hle ltac:(lia)) as [T _]. lia.
  Qed.
End Ord.

(* ---------------------------------------------------------------- by name *)
Definition name_ok (s : list Z) : Prop := bytes_ok s = true.

Lemma less_name_key a b : less_name a b = lessK strcmp_spec (key_name a) (key_name b).
Proof. unfold less_name, lessK. rewrite casecmp_key. reflexivity. Qed.

Lemma less_name_swo : strict_weak_order name_ok less_name.
Proof.
  destruct (lessK_swo strcmp_spec pos ss_antisym ss_trans) as (I & T & E).
  split; [|split].
  - intros a. rewrite less_name_key. apply I.
  - intros a b c Da Db Dc. rewrite !less_name_key.
    apply T; apply key_name_pos, bytes_ok_nonneg; assumption.
  - intros a b c Da Db Dc. rewrite !less_name_key.
    apply E; apply key_name_pos, bytes_ok_nonneg; assumption.
Qed.

Lemma keys_pos names : forallb bytes_ok names = true -> Forall pos (map key_name names).
Proof.
  intros H. rewrite forallb_forall in H. apply Forall_forall. intros x Hx. apply in_map_iff in Hx.
  destruct Hx as (s & <- & Hs). apply key_name_pos, bytes_ok_nonneg, H, Hs.
Qed.

Lemma sorted_names_keys names : sorted_by less_name names = sorted_by (lessK strcmp_spec) (map key_name names).
Proof.
  rewrite <- sorted_by_map. apply sorted_by_ext. intros a b. apply less_name_key.
Qed.

(* the by-name / by-class index is sorted for the key: the sign of the comparison never increases along it *)
Definition sorted_for_name (names : list (list Z)) (q : list Z) : Prop := mono (cmp_name names q) (lenZ names).
Definition sorted_for_class (titles names : list (list Z)) (cls q : list Z) : Prop :=
  mono (cmp_class titles names cls q) (lenZ names).

Lemma sorted_name_all names : forallb bytes_ok names = true -> sorted_by less_name names = true ->
  forall i j, (i <= j < length names)%nat ->
    strcmp_spec (key_name (nth i names [])) (key_name (nth j names [])) <= 0.
Proof.
  intros Hb Hs i j Hij. rewrite sorted_names_keys in Hs.
  pose proof (sorted_all strcmp_spec pos ss_antisym ss_trans [] (map key_name names) (keys_pos names Hb) Hs i j
                ltac:(rewrite map_length; exact Hij)) as H.
  rewrite <- key_name_nil in H at 1 2. rewrite !map_nth in H. exact H.
Qed.

Lemma sorted_implies_monotone_name names q :
  forallb bytes_ok names = true -> bytes_ok q = true -> sorted_by less_name names = true -> sorted_for_name names q.
Proof.
  intros Hb Hq Hs. unfold sorted_for_name. rewrite sorted_names_keys in Hs.
  pose proof (mono_sorted strcmp_spec pos ss_antisym ss_trans [] (map key_name names) (key_name q)
                (keys_pos names Hb) ltac:(constructor) (key_name_pos q (bytes_ok_nonneg q Hq)) Hs) as M.
  unfold lenZ in M. rewrite map_length in M. fold (lenZ names) in M.
  intros i j Hi Hij Hj. rewrite !cmp_name_key. exact (M i j Hi Hij Hj).
Qed.

(* ---------------------------------------------------------------- by class: Cstrcmp on Title[:4], then the name *)
Definition cmp2 (a b : list Z * list Z) : Z :=
  let j := strcmp_spec (fst a) (fst b) in if j =? 0 then strcmp_spec (snd a) (snd b) else j.
Definition pos2 (a : list Z * list Z) : Prop := pos (fst a) /\ pos (snd a).
Definition key_class (a : list Z * list Z) : list Z * list Z := (cprefix (firstn 4 (fst a)), key_name (snd a)).
Definition class_ok (a : list Z * list Z) : Prop := bytes_ok (fst a) = true /\ bytes_ok (snd a) = true.

Lemma cmp2_anti a b : cmp2 b a = - cmp2 a b.
Proof.
  unfold cmp2. rewrite (ss_antisym (fst a) (fst b)), (ss_antisym (snd a) (snd b)).
  destruct (Z.eqb_spec (strcmp_spec (fst a) (fst b)) 0), (Z.eqb_spec (- strcmp_spec (fst a) (fst b)) 0); lia.
Qed.

Lemma cmp2_trans a b c : pos2 a -> pos2 b -> pos2 c -> cmp2 a b <= 0 -> cmp2 b c <= 0 ->
  cmp2 a c <= 0 /\ (cmp2 a b < 0 \/ cmp2 b c < 0 -> cmp2 a c < 0).
Proof.
  intros [A1 A2] [B1 B2] [C1 C2]. unfold cmp2.
  destruct (Z.eqb_spec (strcmp_spec (fst a) (fst b)) 0) as [E1|E1];
  destruct (Z.eqb_spec (strcmp_spec (fst b) (fst c)) 0) as [E2|E2]; intros H1 H2.
  - apply ss_eq in E1, E2; try assumption. rewrite E1, E2, ss_refl. cbn. apply ss_trans; assumption.
  - apply ss_eq in E1; try assumption. rewrite E1. destruct (Z.eqb_spec (strcmp_spec (fst b) (fst c)) 0); lia.
  - apply ss_eq in E2; try assumption. rewrite <- E2. destruct (Z.eqb_spec (strcmp_spec (fst a) (fst b)) 0); lia.
  - destruct (ss_trans (fst a) (fst b) (fst c) A1 B1 C1 H1 H2) as [_ T]. specialize (T ltac:(lia)).
    destruct (Z.eqb_spec (strcmp_spec (fst a) (fst c)) 0); lia.
Qed.

Lemma firstn_nonneg k l : nonneg l -> nonneg (firstn k l).
Proof.
  unfold nonneg. rewrite !Forall_forall. intros H x Hx. apply H. apply In_firstn in Hx. exact Hx.
Qed.

Lemma key_class_pos a : class_ok a -> pos2 (key_class a).
Proof.
  intros [H1 H2]. split; cbn [key_class fst snd].
  - apply cprefix_pos, firstn_nonneg, bytes_ok_nonneg, H1.
  - apply key_name_pos, bytes_ok_nonneg, H2.
Qed.

Lemma less_class_key a b : less_class a b = lessK cmp2 (key_class a) (key_class b).
Proof.
  unfold less_class, lessK, cmp2, key_class. cbn [fst snd]. rewrite cstrcmp_spec, casecmp_key.
  destruct (strcmp_spec (cprefix (firstn 4 (fst a))) (cprefix (firstn 4 (fst b))) =? 0); reflexivity.
Qed.

Lemma less_class_swo : strict_weak_order class_ok less_class.
Proof.
  destruct (lessK_swo cmp2 pos2 cmp2_anti cmp2_trans) as (I & T & E).
  split; [|split].
  - intros a. rewrite less_class_key. apply I.
  - intros a b c Da Db Dc. rewrite !less_class_key. apply T; apply key_class_pos; assumption.
  - intros a b c Da Db Dc. rewrite !less_class_key. apply E; apply key_class_pos; assumption.
Qed.

(* the class string the search compares (BoardClass(): Title[:4], or Title[:5] when the fifth byte is not a blank)
   is the one the sort compared (Title[:4]) when the fifth byte is a blank (what NewBoard writes) or a NUL (a
   vacated slot, an all-zero title) *)
Definition title_ok (t : list Z) : Prop := nth 4 t 0 = 32 \/ nth 4 t 0 = 0.

Lemma title_ok_class t : title_ok t -> cprefix (board_class t) = cprefix (firstn 4 t).
Proof.
  intros [H|H]; unfold board_class; rewrite H; [reflexivity|]. cbn [Z.eqb].
  destruct t as [|a [|b [|c [|d [|e r]]]]]; try reflexivity.
  cbn [nth] in H. subst e. cbn [firstn cprefix].
  destruct (a =? 0); [reflexivity|]. destruct (b =? 0); [reflexivity|]. destruct (c =? 0); [reflexivity|].
  destruct (d =? 0); reflexivity.
Qed.

Lemma cmp_class_key titles names cls q i : length titles = length names -> title_ok (nth (Z.to_nat i) titles []) ->
  cmp_class titles names cls q i =
  cmp2 (cprefix cls, key_name q) (nth (Z.to_nat i) (map key_class (combine titles names)) ([], [])).
Proof.
  intros Hlen Hok. unfold cmp_class, cmp2.
  change (@nil Z, @nil Z) with (key_class ([], [])). rewrite !map_nth, !combine_nth by exact Hlen.
  cbn [key_class fst snd]. unfold name_at. rewrite cstrcmp_spec, casecmp_key, (title_ok_class _ Hok). reflexivity.
Qed.

Lemma sorted_implies_monotone_class titles names cls q :
  length titles = length names -> Forall title_ok titles ->
  forallb bytes_ok titles = true -> forallb bytes_ok names = true -> bytes_ok cls = true -> bytes_ok q = true ->
  sorted_by less_class (combine titles names) = true -> sorted_for_class titles names cls q.
Proof.
  intros Hlen Hok Hbt Hbn Hcls Hq Hs. unfold sorted_for_class.
  assert (Hs' : sorted_by (lessK cmp2) (map key_class (combine titles names)) = true).
  { rewrite <- sorted_by_map. rewrite <- Hs. apply sorted_by_ext. intros a b. symmetry. apply less_class_key. }
  assert (HD : Forall pos2 (map key_class (combine titles names))).
  { apply Forall_forall. intros x Hx. apply in_map_iff in Hx. destruct Hx as ([t s] & <- & Hin).
    apply key_class_pos. rewrite forallb_forall in Hbt, Hbn. split; cbn [fst snd].
    - apply Hbt. exact (in_combine_l _ _ _ _ Hin).
    - apply Hbn. exact (in_combine_r _ _ _ _ Hin). }
  assert (Dk : pos2 (cprefix cls, key_name q)).
  { split; cbn [fst snd]; [apply cprefix_pos, bytes_ok_nonneg, Hcls|apply key_name_pos, bytes_ok_nonneg, Hq]. }
  pose proof (mono_sorted cmp2 pos2 cmp2_anti cmp2_trans ([], []) _ _ HD ltac:(split; constructor) Dk Hs') as M.
  unfold lenZ in M. rewrite map_length, combine_length, Hlen, Nat.min_id in M. fold (lenZ names) in M.
  intros i j Hi Hij Hj.
  assert (Hti : forall x, 0 <= x < lenZ names -> title_ok (nth (Z.to_nat x) titles [])).
  { intros x Hx. rewrite Forall_forall in Hok. apply Hok, nth_In. unfold lenZ in Hx. lia. }
  rewrite !cmp_class_key by (try exact Hlen; apply Hti; lia). exact (M i j Hi Hij Hj).
Qed.
