(* C18 — StripAnsi (all modes) and StripANSIMoveCmd *)
From Verif Require Import Base.Common Base.Sweep Gen.Consts_default Gen.AnsiTab Gen.StrTab Model.C18.

(* ------------------------------------------------------------------ ESCAPE_FLAG *)
Definition param_spec (c : Z) : bool := ((48 <=? c) && (c <=? 57)) || (c =? 59) || (c =? 61).
Definition command_spec (c : Z) : bool := existsb (Z.eqb c) [65; 66; 67; 68; 72; 73; 74; 75; 102; 104; 108; 109; 115; 117].

Lemma escape_flag_spec :
  length ESCAPE_FLAG = 256%nat /\
  forall c, 0 <= c < 256 -> is_escape_param c = param_spec c /\ is_escape_command c = command_spec c.
Proof.
  split; [vm_compute; reflexivity|].
  intros c Hc.
  pose (P := fun c : Z => Bool.eqb (is_escape_param c) (param_spec c) && Bool.eqb (is_escape_command c) (command_spec c)).
  assert (H : P c = true).
  { apply (sweep P 256); [vm_compute; reflexivity|lia]. }
  unfold P in H. apply andb_true_iff in H. destruct H as [H1 H2].
  split; apply Bool.eqb_prop; assumption.
Qed.

(* ------------------------------------------------------------------ totality *)
Lemma strip_ansi_st_total flag : forall s st, exists o, strip_ansi_st flag st s = Ok o.
Proof.
  induction s as [|c s IH]; intros st.
  - destruct st; cbn [strip_ansi_st]; eexists; reflexivity.
  - destruct st as [| |acc]; cbn [strip_ansi_st].
    + destruct (c =? 0); [eexists; reflexivity|]. destruct (c =? ESC); [apply IH|].
      destruct (IH SText) as [o ->]. eexists; reflexivity.
    + destruct (c =? 91); [apply IH|]. destruct (c =? 0); [eexists; reflexivity|apply IH].
    + destruct (is_escape_param c); [apply IH|]. destruct (c =? 0); [eexists; reflexivity|].
      destruct (IH SText) as [o ->]. eexists; reflexivity.
Qed.
Lemma stripansi_total s flag : exists o, strip_ansi s flag = Ok o.
Proof. apply strip_ansi_st_total. Qed.

(* ------------------------------------------------------------------ strip-all: no ESC, no NUL, idempotent *)
Lemma keep_csi_all c : keep_csi cmsys.STRIP_ANSI_ALL c = false.
Proof. reflexivity. Qed.

Lemma strip_all_clean : forall s st o, strip_ansi_st cmsys.STRIP_ANSI_ALL st s = Ok o -> ~ In ESC o /\ ~ In 0 o.
Proof.
  induction s as [|c s IH]; intros st o H.
  - destruct st; cbn [strip_ansi_st] in H; injection H as <-; split; intros [].
  - destruct st as [| |acc]; cbn [strip_ansi_st] in H.
    + destruct (c =? 0) eqn:E0; [injection H as <-; split; intros []|].
      destruct (c =? ESC) eqn:E1; [exact (IH _ _ H)|].
      destruct (strip_ansi_st cmsys.STRIP_ANSI_ALL SText s) as [o'| |] eqn:R; try discriminate.
      cbn [res_map] in H. injection H as <-. destruct (IH _ _ R) as [A B].
      apply Z.eqb_neq in E0, E1. split; intros [K|K]; try contradiction; lia.
    + destruct (c =? 91); [exact (IH _ _ H)|]. destruct (c =? 0); [injection H as <-; split; intros []|exact (IH _ _ H)].
    + destruct (is_escape_param c); [exact (IH _ _ H)|]. rewrite keep_csi_all in H.
      destruct (c =? 0); [injection H as <-; split; intros []|].
      destruct (strip_ansi_st cmsys.STRIP_ANSI_ALL SText s) as [o'| |] eqn:R; try discriminate.
      cbn [res_map app] in H. injection H as <-. exact (IH _ _ R).
Qed.

Lemma strip_clean_id flag : forall o, ~ In ESC o -> ~ In 0 o -> strip_ansi_st flag SText o = Ok o.
Proof.
  induction o as [|c o IH]; intros A B; [reflexivity|]. cbn [strip_ansi_st].
  destruct (c =? 0) eqn:E0; [apply Z.eqb_eq in E0; exfalso; apply B; left; lia|].
  destruct (c =? ESC) eqn:E1; [apply Z.eqb_eq in E1; exfalso; apply A; left; lia|].
  rewrite IH; [reflexivity| |]; intros K; [apply A|apply B]; right; exact K.
Qed.

Lemma strip_all_no_esc s o : strip_ansi s cmsys.STRIP_ANSI_ALL = Ok o -> ~ In ESC o.
Proof. intros H. exact (proj1 (strip_all_clean _ _ _ H)). Qed.
Lemma strip_all_idempotent s o : strip_ansi s cmsys.STRIP_ANSI_ALL = Ok o -> strip_ansi o cmsys.STRIP_ANSI_ALL = Ok o.
Proof. intros H. destruct (strip_all_clean _ _ _ H) as [A B]. apply strip_clean_id; assumption. Qed.

Example strip_all_ex :
  strip_ansi [97; 27; 91; 49; 59; 51; 49; 109; 98; 27; 91; 72; 99; 27; 40; 100; 27; 91; 52] 0 = Ok [97; 98; 99; 100] /\
  strip_ansi [27; 91] 0 = Ok [] /\ strip_ansi [27] 2 = Ok [] /\ strip_ansi [97; 27; 91; 49; 27; 91; 109; 98] 0 = Ok [97; 91; 109; 98].
Proof. vm_compute. repeat split. Qed.

(* ------------------------------------------------------------------ the three modes against a tokeniser *)
Inductive token :=
| TText (b : Z)                          (* a byte outside any escape sequence *)
| TCsi (params : list Z) (cmd : Z)       (* ESC [ params cmd *)
| TEscOther (b : Z).                     (* ESC followed by a byte other than '[' *)
Definition raw (t : token) : list Z :=
  match t with TText b => [b] | TCsi p c => ESC :: 91 :: p ++ [c] | TEscOther b => [ESC; b] end.
(* what a mode lets through *)
Definition keep (flag : Z) (t : token) : list Z :=
  match t with
  | TText b => [b]
  | TCsi p c => if keep_csi flag c then raw t else []
  | TEscOther _ => []
  end.
(* tokenising stops at a NUL, at the end of input and at a sequence the end of input cuts off *)
Fixpoint tokens_st (st : sa_state) (s : list Z) : list token :=
  match st, s with
  | SText, [] => []
  | SText, c :: r => if c =? 0 then [] else if c =? ESC then tokens_st SEsc r else TText c :: tokens_st SText r
  | SEsc, [] => []
  | SEsc, p :: r => if p =? 91 then tokens_st (SCsi []) r else if p =? 0 then [] else TEscOther p :: tokens_st SText r
  | SCsi acc, [] => []
  | SCsi acc, c :: r =>
      if is_escape_param c then tokens_st (SCsi (c :: acc)) r
      else if c =? 0 then [TCsi (rev acc) c] else TCsi (rev acc) c :: tokens_st SText r
  end.
Definition tokens (s : list Z) : list token := tokens_st SText s.
Definition pending (st : sa_state) : list Z :=
  match st with SText => [] | SEsc => [ESC] | SCsi acc => ESC :: 91 :: rev acc end.
Definition token_ok (t : token) : Prop :=
  match t with
  | TText b => b <> 0 /\ b <> ESC
  | TCsi p c => Forall (fun x => is_escape_param x = true) p /\ is_escape_param c = false
  | TEscOther b => b <> 91 /\ b <> 0
  end.

Lemma strip_is_keep flag : forall s st, strip_ansi_st flag st s = Ok (concat (map (keep flag) (tokens_st st s))).
Proof.
  induction s as [|c s IH]; intros st.
  - destruct st; reflexivity.
  - destruct st as [| |acc]; cbn [strip_ansi_st tokens_st].
    + destruct (c =? 0); [reflexivity|]. destruct (c =? ESC); [apply IH|]. rewrite IH. reflexivity.
    + destruct (c =? 91); [apply IH|]. destruct (c =? 0); [reflexivity|]. rewrite IH. reflexivity.
    + destruct (is_escape_param c); [apply IH|]. destruct (c =? 0).
      * cbn [map concat keep raw]. rewrite app_nil_r. reflexivity.
      * rewrite IH. reflexivity.
Qed.

(* the tokens, written out again, are the input up to the point where tokenising stopped; they are well formed *)
Lemma tokens_cover : forall s st, Forall (fun x => is_escape_param x = true) (match st with SCsi acc => acc | _ => [] end) ->
  (exists rest, pending st ++ s = concat (map raw (tokens_st st s)) ++ rest) /\ Forall token_ok (tokens_st st s).
Proof.
  induction s as [|c s IH]; intros st Hst.
  - destruct st; cbn [tokens_st map concat]; (split; [eexists; reflexivity|constructor]).
  - destruct st as [| |acc]; cbn [tokens_st].
    + destruct (c =? 0) eqn:E0; [split; [eexists; reflexivity|constructor]|].
      destruct (c =? ESC) eqn:E1.
      * apply Z.eqb_eq in E1. subst c. exact (IH SEsc (Forall_nil _)).
      * destruct (IH SText (Forall_nil _)) as [[rest R] F]. cbn [pending app] in R. split.
        -- exists rest. cbn [pending map concat raw app]. f_equal. exact R.
        -- constructor; [|exact F]. apply Z.eqb_neq in E0, E1. split; assumption.
    + destruct (c =? 91) eqn:E9.
      * apply Z.eqb_eq in E9. subst c. exact (IH (SCsi []) (Forall_nil _)).
      * destruct (c =? 0) eqn:E0; [split; [eexists; reflexivity|constructor]|].
        destruct (IH SText (Forall_nil _)) as [[rest R] F]. cbn [pending app] in R. split.
        -- exists rest. cbn [pending map concat raw app]. do 2 f_equal. exact R.
        -- constructor; [|exact F]. apply Z.eqb_neq in E0, E9. split; assumption.
    + destruct (is_escape_param c) eqn:Ep.
      * destruct (IH (SCsi (c :: acc)) (Forall_cons _ Ep Hst)) as [[rest R] F]. split; [|exact F].
        exists rest. rewrite <- R. cbn [pending rev app]. rewrite <- !app_assoc. reflexivity.
      * assert (Tok : token_ok (TCsi (rev acc) c)) by (split; [apply Forall_rev; exact Hst|exact Ep]).
        destruct (c =? 0).
        -- split; [|constructor; [exact Tok|constructor]]. exists s. cbn [pending map concat raw app].
           rewrite app_nil_r, <- !app_assoc. reflexivity.
        -- destruct (IH SText (Forall_nil _)) as [[rest R] F]. cbn [pending app] in R. split; [|constructor; assumption].
           exists rest. cbn [pending map concat raw app]. rewrite <- !app_assoc. cbn [app]. do 4 f_equal. exact R.
Qed.

Lemma strip_modes s flag :
  strip_ansi s flag = Ok (concat (map (keep flag) (tokens s))) /\
  (exists rest, s = concat (map raw (tokens s)) ++ rest) /\ Forall token_ok (tokens s).
Proof.
  split; [apply strip_is_keep|]. exact (tokens_cover s SText (Forall_nil _)).
Qed.

(* what "kept" means per mode *)
Lemma keep_modes p c :
  keep cmsys.STRIP_ANSI_ALL (TCsi p c) = [] /\
  keep cmsys.STRIP_ANSI_ONLY_COLOR (TCsi p c) = (if c =? 109 then raw (TCsi p c) else []) /\
  keep cmsys.STRIP_ANSI_NO_RELOAD (TCsi p c) = (if is_escape_command c then raw (TCsi p c) else []).
Proof.
  unfold keep, keep_csi. split; [reflexivity|]. split; [reflexivity|].
  change (cmsys.STRIP_ANSI_NO_RELOAD =? cmsys.STRIP_ANSI_NO_RELOAD) with true.
  change (cmsys.STRIP_ANSI_NO_RELOAD =? cmsys.STRIP_ANSI_ONLY_COLOR) with false.
  cbn [andb orb]. rewrite orb_false_r. reflexivity.
Qed.

Example strip_modes_ex :
  tokens [97; 27; 91; 49; 109; 27; 91; 50; 74; 27; 55; 98; 27; 91; 51] = [TText 97; TCsi [49] 109; TCsi [50] 74; TEscOther 55; TText 98] /\
  strip_ansi [97; 27; 91; 49; 109; 27; 91; 50; 74; 27; 55; 98; 27; 91; 51] 1 = Ok [97; 27; 91; 49; 109; 98] /\
  strip_ansi [97; 27; 91; 49; 109; 27; 91; 50; 74; 27; 55; 98; 27; 91; 51] 2 = Ok [97; 27; 91; 49; 109; 27; 91; 50; 74; 98].
Proof. vm_compute. repeat split. Qed.

(* ------------------------------------------------------------------ StripANSIMoveCmd *)
Definition move_rel (x y : Z) : Prop := y = x \/ (y = 115 /\ in_bytes x PATTERN_ANSI_MOVECMD = true).
Lemma movecmd_st_rel : forall s esc, Forall2 move_rel s (strip_movecmd_st esc s).
Proof.
  induction s as [|c s IH]; intros esc; [constructor|]. cbn [strip_movecmd_st]. destruct esc.
  - destruct (in_bytes c PATTERN_ANSI_CODE); [constructor; [left; reflexivity|apply IH]|].
    destruct (in_bytes c PATTERN_ANSI_MOVECMD) eqn:E; constructor; try apply IH; [right; split; [reflexivity|exact E]|left; reflexivity].
  - constructor; [left; reflexivity|apply IH].
Qed.
(* outside an escape sequence nothing changes: a string without ESC is returned as it is *)
Lemma movecmd_no_esc : forall s, ~ In ESC s -> strip_movecmd s = s.
Proof.
  unfold strip_movecmd. induction s as [|c s IH]; intros N; [reflexivity|]. cbn [strip_movecmd_st].
  destruct (c =? ESC) eqn:E; [apply Z.eqb_eq in E; exfalso; apply N; left; lia|].
  rewrite IH; [reflexivity|intros K; apply N; right; exact K].
Qed.
Lemma movecmd_st_length : forall s esc, length (strip_movecmd_st esc s) = length s.
Proof.
  induction s as [|c s IH]; intros esc; [reflexivity|]. cbn [strip_movecmd_st]. destruct esc.
  - destruct (in_bytes c PATTERN_ANSI_CODE); cbn [length]; rewrite IH; reflexivity.
  - cbn [length]. rewrite IH. reflexivity.
Qed.
(* a byte that changes is the command byte of a cursor-movement sequence: ESC, then bytes of PATTERN_ANSI_CODE only,
   then a byte of PATTERN_ANSI_MOVECMD — which becomes 's' *)
Definition move_seq_end (s : list Z) (i : nat) : Prop :=
  exists j, (j < i)%nat /\ nth j s 0 = ESC /\ (forall k, (j < k < i)%nat -> in_bytes (nth k s 0) PATTERN_ANSI_CODE = true) /\
            in_bytes (nth i s 0) PATTERN_ANSI_MOVECMD = true.
Lemma movecmd_st_changed : forall s esc i, nth i (strip_movecmd_st esc s) 0 <> nth i s 0 ->
  nth i (strip_movecmd_st esc s) 0 = 115 /\
  ((esc = true /\ (forall k, (k < i)%nat -> in_bytes (nth k s 0) PATTERN_ANSI_CODE = true) /\ in_bytes (nth i s 0) PATTERN_ANSI_MOVECMD = true)
   \/ move_seq_end s i).
Proof.
  induction s as [|c r IH]; intros esc i H; [destruct i; cbn in H; contradiction|].
  assert (Shift : forall e, (forall i', nth i' (strip_movecmd_st e r) 0 <> nth i' r 0 ->
             nth i' (strip_movecmd_st e r) 0 = 115 /\
             ((e = true /\ (forall k, (k < i')%nat -> in_bytes (nth k r 0) PATTERN_ANSI_CODE = true) /\ in_bytes (nth i' r 0) PATTERN_ANSI_MOVECMD = true)
              \/ move_seq_end r i')) -> forall i' c0, (e = true -> c0 = ESC) ->
             nth i' (strip_movecmd_st e r) 0 <> nth i' r 0 ->
             nth i' (strip_movecmd_st e r) 0 = 115 /\ move_seq_end (c0 :: r) (S i')).
  { intros e He i' c0 Hc Hn. destruct (He i' Hn) as [V [[E [A B]]|[j [J1 [J2 [J3 J4]]]]]]; split; try exact V.
    - exists 0%nat. split; [lia|]. split; [cbn; apply Hc; exact E|]. split; [|exact B].
      intros k Hk. destruct k; [lia|]. cbn [nth]. apply A. lia.
    - exists (S j). split; [lia|]. split; [exact J2|]. split; [|exact J4].
      intros k Hk. destruct k; [lia|]. cbn [nth]. apply J3. lia. }
  cbn [strip_movecmd_st] in *. destruct esc.
  - destruct (in_bytes c PATTERN_ANSI_CODE) eqn:Ec.
    + destruct i as [|i']; [cbn in H; contradiction|]. cbn [nth] in *.
      destruct (IH true i' H) as [V [[_ [A B]]|M]]; split; try exact V.
      * left. split; [reflexivity|]. split; [|exact B]. intros k Hk. destruct k; [exact Ec|]. cbn [nth]. apply A. lia.
      * right. destruct M as [j [J1 [J2 [J3 J4]]]]. exists (S j). split; [lia|]. split; [exact J2|]. split; [|exact J4].
        intros k Hk. destruct k; [lia|]. cbn [nth]. apply J3. lia.
    + destruct i as [|i'].
      * cbn [nth] in *. destruct (in_bytes c PATTERN_ANSI_MOVECMD) eqn:Em; [|contradiction].
        split; [reflexivity|]. left. split; [reflexivity|]. split; [intros k Hk; lia|reflexivity].
      * cbn [nth] in *. set (c' := if in_bytes c PATTERN_ANSI_MOVECMD then 115 else c) in *.
        destruct (Shift (c' =? ESC) (IH (c' =? ESC)) i' c) as [V M]; [|exact H|split; [exact V|right; exact M]].
        intros E. apply Z.eqb_eq in E. unfold c' in E. destruct (in_bytes c PATTERN_ANSI_MOVECMD); [discriminate|exact E].
  - destruct i as [|i']; [cbn in H; contradiction|]. cbn [nth] in *.
    destruct (Shift (c =? ESC) (IH (c =? ESC)) i' c) as [V M]; [|exact H|split; [exact V|right; exact M]].
    intros E. apply Z.eqb_eq in E. exact E.
Qed.
Lemma movecmd_changed s i : nth i (strip_movecmd s) 0 <> nth i s 0 -> nth i (strip_movecmd s) 0 = 115 /\ move_seq_end s i.
Proof.
  intros H. destruct (movecmd_st_changed s false i H) as [V [[E _]|M]]; [discriminate|]. split; assumption.
Qed.

Lemma movecmd_spec s :
  length (strip_movecmd s) = length s /\ Forall2 move_rel s (strip_movecmd s) /\ (~ In ESC s -> strip_movecmd s = s) /\
  (forall i, nth i (strip_movecmd s) 0 <> nth i s 0 -> nth i (strip_movecmd s) 0 = 115 /\ move_seq_end s i).
Proof.
  split; [apply movecmd_st_length|]. split; [apply movecmd_st_rel|]. split; [apply movecmd_no_esc|apply movecmd_changed].
Qed.
Example movecmd_ex :
  strip_movecmd [65; 27; 91; 49; 59; 50; 72; 65; 27; 91; 51; 49; 109; 27; 65] = [65; 27; 91; 49; 59; 50; 115; 65; 27; 91; 51; 49; 109; 27; 115].
Proof. vm_compute. reflexivity. Qed.
