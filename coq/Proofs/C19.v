From Verif Require Import Base.Common Base.ListX Base.Fs Gen.Consts_default Model.C19.
From Coq Require Import ZifyBool.
Ltac Zify.zify_post_hook ::= Z.div_mod_to_equations.

(* ---------------------------------------------------------------- crash atomicity *)
Lemma crash_atomic (f : fav) (cs : list chunk) (old : fs) (n : nat) :
  file_chunks f = Ok cs ->
  let s' := exec old (firstn n (save_ops FN_TMP FN_FAV (map snd cs))) in
  lookup FN_FAV s' = lookup FN_FAV old \/ (file_image f = Ok (bytes_of cs) /\ lookup FN_FAV s' = Some (bytes_of cs)).
Proof.
  intros Hc. cbv zeta.
  destruct (save_prefix_atomic FN_TMP FN_FAV (map snd cs) old n) as [H|H]; [discriminate|left; exact H|right].
  split; [unfold file_image; rewrite Hc; reflexivity|exact H].
Qed.
