(* C19: all lemmas (round trip and format, crash atomicity and reader totality, API-built trees, cleanup, the save sequence, histories of saves of several users, kill points at system-call granularity). *)
From Verif Require Export Proofs.C19_rt Proofs.C19_crash Proofs.C19_api Proofs.C19_clean Proofs.C19_save Proofs.C19_disk Proofs.C19_hist Proofs.C19_size Proofs.C19_calls.
