From Verif Require Import Base.Common Model.C12.
Lemma placeholder : True. Proof. exact I. Qed.
