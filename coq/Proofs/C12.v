(* C12 — entry point of the proofs: Proofs/C12_base.v (lists, comparison, search), Proofs/C12_step.v
   (invariant, GetBid, addBoardRecord), Proofs/C12_main.v (acceptance, refusal, name rule, histories), Proofs/C12_big.v (the lookup on tables of any size). *)
From Verif Require Import Base.Common Base.ListX Gen.Consts_default Model.C12.
From Verif Require Export Proofs.C12_base Proofs.C12_step Proofs.C12_main Proofs.C12_big.
Import ptttype.

Lemma frame u s r os bid s' os' : wf s -> create_board u s r os = Done 0 bid s' os' ->
  forall i, i <> bid - 1 ->
    gets (s_file s') i = gets (s_file s) i /\ gets (s_cache s') i = gets (s_cache s) i /\
    getn [0; 0; 0; 0] (s_bm s') i = getn [0; 0; 0; 0] (s_bm s) i.
Proof. intros W H. apply (accept _ _ _ _ _ _ _ W H). Qed.

Lemma new_bm_loop_length : forall ids first acc room, length (new_bm_loop first ids acc room) = (length acc + room)%nat.
Proof.
  induction ids as [|id ids IH]; intros first acc room; cbn [new_bm_loop].
  - rewrite app_length, repeat_length. reflexivity.
  - match goal with |- context [if ?c then _ else _] => destruct c eqn:E end.
    + rewrite IH, !app_length. apply Nat.leb_le in E. lia.
    + rewrite app_length, repeat_length. reflexivity.
Qed.
Lemma sanitize_bms_length u bm : length (sanitize_bms u bm) = 39%nat.
Proof. unfold sanitize_bms, new_bm. rewrite new_bm_loop_length. reflexivity. Qed.
Lemma build_title_length r : length (build_title r) = 49%nat.
Proof. unfold build_title. rewrite !app_length, !fixlen_length. destruct (r_group r); reflexivity. Qed.
Lemma fixlen_id n l : length l = n -> fixlen n l = l.
Proof. intros <-. unfold fixlen. rewrite firstn_all, Nat.sub_diag. apply app_nil_r. Qed.

(* what the record of an accepted board carries *)
Lemma rec_fields u r : 0 <= norm_attr r < 4294967296 -> 0 <= norm_level r < 4294967296 -> 0 <= r_cls r < 4294967296 ->
  name_of (req_rec u r) = req_name r /\
  title_of (req_rec u r) = fixlen 4 (r_class r) ++ [32] ++ (if r_group r then [163; 85] else [161; 183]) ++ fixlen 42 (r_title r) /\
  bm_of (req_rec u r) = sanitize_bms u (new_bm (map (fixlen 13) (r_bms r))) /\
  attr_of (req_rec u r) = norm_attr r /\ level_of (req_rec u r) = norm_level r /\ gid_of (req_rec u r) = r_cls r.
Proof.
  intros Ha Hl Hg. split; [apply name_of_req_rec|]. unfold req_rec.
  rewrite title_of_mk_rec, bm_of_mk_rec, attr_of_mk_rec, level_of_mk_rec, gid_of_mk_rec by assumption.
  rewrite (fixlen_id 49) by apply build_title_length. rewrite (fixlen_id 39) by apply sanitize_bms_length.
  repeat split; reflexivity.
Qed.

(* SortBCache succeeds only with arrays that are sorted permutations, by name and by class *)
Lemma sort_gives_sorted_permutations s o s' : sort_bcache s o = Some s' ->
  perm_ok (s_bnum s') (s_sn s') = true /\ sorted_by (less_name (s_cache s)) (s_sn s') = true /\
  perm_ok (s_bnum s') (s_sc s') = true /\ sorted_by (less_class (s_cache s)) (s_sc s') = true.
Proof.
  intros H. destruct (sort_bcache_inv _ _ _ H) as (_ & Hok & ->). cbn [s_bnum s_sn s_sc].
  unfold oracle_ok in Hok. rewrite !andb_true_iff in Hok. destruct Hok as [[[H1 H2] H3] H4]. repeat split; assumption.
Qed.
