(* C02 — the 16 round keys of desSetKey are the FIPS 46-3 round keys K_1..K_16, for ALL 8-byte key blocks.

   Route: the whole of desSetKey (PC1 network, 16 rotations, 16 x 8 skb lookups, assembly of the two words per round)
   is GF(2)-linear in the 64 key bits. Each skb table is linear in its 6-bit index (a sweep over all 512 entries),
   so a lookup has a symbolic counterpart [stab]; every [Z.lor] of the assembly is checked to join disjoint words.
   The symbolic evaluation of desSetKey on the two key words is computed once in the kernel (vm_compute): every bit of
   every schedule word is a single key bit or constant zero, and the positions are those the textbook schedule
   (evaluated on 64 boolean variables) dictates under the placement [place]:

     word k[2r]   bit 8a + m           = K_(r+1) bit 6 (2a) + m + 1      (S-boxes 1, 3, 5, 7; a < 4, m < 6)
     word k[2r+1] bit (8a + m + 4)%32  = K_(r+1) bit 6 (2a+1) + m + 1    (S-boxes 2, 4, 6, 8)
     all other bits zero. *)
From Verif Require Import Base.Common Base.Sweep Gen.CryptTab Model.C02 Model.C02_DesSpec Proofs.C02_Core Proofs.C02_Sym Proofs.C02_Perm.

(* ---------------------------------------------------------------- words from bits, least significant first *)

Fixpoint ofbits (l : list bool) : Z :=
  match l with [] => 0 | b :: r => 2 * ofbits r + Z.b2z b end.

Lemma ofbits_nonneg l : 0 <= ofbits l.
Proof. induction l as [|b l IH]; cbn [ofbits]; [lia|]. destruct b; cbn [Z.b2z]; lia. Qed.

Lemma testbit_ofbits l : forall j, 0 <= j -> Z.testbit (ofbits l) j = nth (Z.to_nat j) l false.
Proof.
  induction l as [|b l IH]; intros j Hj; cbn [ofbits].
  - rewrite Z.bits_0. destruct (Z.to_nat j); reflexivity.
  - destruct (Z.eq_dec j 0) as [->|Hz].
    + rewrite Z.testbit_0_r. reflexivity.
    + replace j with (Z.succ (j - 1)) at 1 by lia. rewrite Z.testbit_succ_r by lia. rewrite IH by lia.
      replace (Z.to_nat j) with (S (Z.to_nat (j - 1))) by lia. reflexivity.
Qed.

Lemma ofbits_range l : 0 <= ofbits l < 2 ^ Z.of_nat (length l).
Proof.
  induction l as [|b l IH]; cbn [ofbits length]; [change (2 ^ Z.of_nat 0) with 1; lia|].
  rewrite Nat2Z.inj_succ, Z.pow_succ_r by lia. destruct b; cbn [Z.b2z]; lia.
Qed.

(* ---------------------------------------------------------------- the placement of a 48-bit round key in two words *)

Definition place_src (h : nat) (j : nat) : option nat :=
  match h with
  | O => if (j mod 8 <? 6)%nat then Some (6 * (2 * (j / 8)) + j mod 8)%nat else None
  | _ => let j' := ((j + 28) mod 32)%nat in
         if (j' mod 8 <? 6)%nat then Some (6 * (2 * (j' / 8) + 1) + j' mod 8)%nat else None
  end.

Definition place (h : nat) (K : list bool) : Z :=
  ofbits (map (fun j => match place_src h j with Some p => nth p K false | None => false end) (seq 0 32)).

Lemma place_range h K : 0 <= place h K < 2 ^ 32.
Proof. unfold place. pose proof (ofbits_range (map (fun j => match place_src h j with Some p => nth p K false | None => false end) (seq 0 32))) as H.
  rewrite map_length, seq_length in H. exact H. Qed.

Lemma place_bit h K j : 0 <= j ->
  Z.testbit (place h K) j = if j <? 32 then match place_src h (Z.to_nat j) with Some p => nth p K false | None => false end else false.
Proof.
  intros Hj. unfold place. rewrite testbit_ofbits by exact Hj. destruct (Z.ltb_spec j 32).
  - set (f := fun j0 => match place_src h j0 with Some p => nth p K false | None => false end).
    rewrite nth_indep with (d' := f O) by (rewrite map_length, seq_length; lia).
    rewrite map_nth. rewrite seq_nth by lia. reflexivity.
  - apply nth_overflow. rewrite map_length, seq_length. lia.
Qed.

(* ---------------------------------------------------------------- skb is linear in its index *)

Definition six : list Z := [0; 1; 2; 3; 4; 5].
Definition skb_lin_bit (k : nat) (x j : Z) : bool :=
  fold_right xorb false (map (fun i => Z.testbit x i && Z.testbit (tab skb k (2 ^ i)) j) six).
Definition skb_lin_ok (n : Z) : bool :=
  let k := Z.to_nat (n / 64) in let x := n mod 64 in
  (0 <=? tab skb k x) && (tab skb k x <? 2 ^ 32) &&
  forallb (fun j => Bool.eqb (Z.testbit (tab skb k x) j) (skb_lin_bit k x j)) idx32.
Lemma skb_lin_sweep : forallb skb_lin_ok (zrange 512) = true.
Proof. vm_compute. reflexivity. Qed.

Lemma skb_linear k x : (k < 8)%nat -> 0 <= x < 64 ->
  0 <= tab skb k x < 2 ^ 32 /\ forall j, 0 <= j < 32 -> Z.testbit (tab skb k x) j = skb_lin_bit k x j.
Proof.
  intros Hk Hx. pose proof (sweep skb_lin_ok 512 skb_lin_sweep (64 * Z.of_nat k + x) ltac:(lia)) as H.
  unfold skb_lin_ok in H. cbv zeta in H.
  replace ((64 * Z.of_nat k + x) / 64) with (Z.of_nat k) in H by (apply Z.div_unique with x; lia).
  replace ((64 * Z.of_nat k + x) mod 64) with x in H by (apply Z.mod_unique with (Z.of_nat k); lia).
  rewrite Nat2Z.id in H. apply andb_prop in H. destruct H as [H H3]. apply andb_prop in H. destruct H as [H1 H2].
  split; [lia|]. intros j Hj. rewrite forallb_forall in H3. specialize (H3 j (zrange_in 32 j ltac:(lia))).
  apply eqb_prop in H3. exact H3.
Qed.

(* ---------------------------------------------------------------- symbolic table lookup *)

Definition stab (k : nat) (idx : sword) : sword :=
  map (fun j => fold_right Z.lxor 0 (map (fun i => if Z.testbit (tab skb k (2 ^ i)) j then sget idx i else 0) six)) idx32.
Definition ssmall (w : sword) : bool := forallb (fun j => (j <? 6) || (sget w j =? 0)) idx32.

Lemma high_bits_zero v n : 0 <= n -> (forall j, n <= j -> Z.testbit v j = false) -> 0 <= v < 2 ^ n.
Proof.
  intros Hn H.
  assert (Hv : 0 <= v). { apply Z.bits_iff_nonneg_ex. exists n. intros m Hm. apply H. lia. }
  split; [exact Hv|]. destruct (Z.eq_dec v 0) as [->|Hz]; [apply Z.pow_pos_nonneg; lia|].
  apply Z.log2_lt_pow2; [lia|]. apply Z.lt_nge. intros Hge.
  pose proof (Z.bit_log2 v ltac:(lia)) as Hb. rewrite H in Hb by exact Hge. discriminate.
Qed.

Lemma repr_range w v X : repr w v X -> 0 <= v < 2 ^ 32.
Proof.
  intros Hr. apply high_bits_zero; [lia|]. intros j Hj. rewrite Hr by lia. destruct (Z.ltb_spec j 32); [lia|reflexivity].
Qed.

Lemma repr_small w v X : ssmall w = true -> repr w v X -> 0 <= v < 64.
Proof.
  intros Hs Hr. change 64 with (2 ^ 6). apply high_bits_zero; [lia|]. intros j Hj. rewrite Hr by lia.
  destruct (Z.ltb_spec j 32); [|reflexivity].
  unfold ssmall in Hs. rewrite forallb_forall in Hs. specialize (Hs j (zrange_in 32 j ltac:(lia))).
  destruct (Z.ltb_spec j 6); [lia|]. cbn [orb] in Hs. apply Z.eqb_eq in Hs. rewrite Hs. apply sbit_0.
Qed.

Lemma sbit_if (c : bool) m X : sbit (if c then m else 0) X = c && sbit m X.
Proof. destruct c; [reflexivity|apply sbit_0]. Qed.

Lemma repr_stab k idx v X : (k < 8)%nat -> ssmall idx = true -> repr idx v X -> repr (stab k idx) (tab skb k v) X.
Proof.
  intros Hk Hs Hr. pose proof (repr_small _ _ _ Hs Hr) as Hv. destruct (skb_linear k v Hk Hv) as [Hrange Hlin].
  intros j Hj. unfold stab. destruct (Z.ltb_spec j 32) as [Hlt|Hge].
  - rewrite sget_map by lia. rewrite Hlin by lia. unfold skb_lin_bit, six. cbn [map fold_right].
    rewrite !sbit_xor, !sbit_if, sbit_0.
    rewrite (Hr 0), (Hr 1), (Hr 2), (Hr 3), (Hr 4), (Hr 5) by lia. cbn [Z.ltb Z.compare Pos.compare Pos.compare_cont].
    repeat rewrite (andb_comm (Z.testbit (tab skb k _) j)). reflexivity.
  - destruct (Z.eq_dec (tab skb k v) 0) as [->|Hz]; [apply Z.bits_0|]. apply Z.bits_above_log2; [lia|].
    apply Z.lt_le_trans with 32; [apply Z.log2_lt_pow2; lia|lia].
Qed.

(* ---------------------------------------------------------------- one iteration of the desSetKey loop *)

Definition ks_step (b c d : Z) : Z * Z * Z * Z :=
  let c1 := if b =? 0 then Z.lor (shr c 1) (shl32 c 27) else Z.lor (shr c 2) (shl32 c 26) in
  let d1 := if b =? 0 then Z.lor (shr d 1) (shl32 d 27) else Z.lor (shr d 2) (shl32 d 26) in
  let c2 := Z.land c1 268435455 in
  let d2 := Z.land d1 268435455 in
  let s := Z.lor (Z.lor (Z.lor
             (tab skb 0 (Z.land c2 63))
             (tab skb 1 (Z.lor (Z.land (shr c2 6) 3) (Z.land (shr c2 7) 60))))
             (tab skb 2 (Z.lor (Z.land (shr c2 13) 15) (Z.land (shr c2 14) 48))))
             (tab skb 3 (Z.lor (Z.lor (Z.land (shr c2 20) 1) (Z.land (shr c2 21) 6)) (Z.land (shr c2 22) 56))) in
  let t := Z.lor (Z.lor (Z.lor
             (tab skb 4 (Z.land d2 63))
             (tab skb 5 (Z.lor (Z.land (shr d2 7) 3) (Z.land (shr d2 8) 60))))
             (tab skb 6 (Z.land (shr d2 15) 63)))
             (tab skb 7 (Z.lor (Z.land (shr d2 21) 15) (Z.land (shr d2 22) 48))) in
  let k0 := Z.land (Z.lor (shl32 t 16) (Z.land s 65535)) 4294967295 in
  let s1 := Z.lor (shr s 16) (Z.land t 4294901760) in
  let s2 := Z.lor (shl32 s1 4) (shr s1 28) in
  let k1 := Z.land s2 4294967295 in
  (c2, d2, k0, k1).

Lemma ks_loop_cons b sh c d :
  ks_loop (b :: sh) c d = let '(c2, d2, k0, k1) := ks_step b c d in k0 :: k1 :: ks_loop sh c2 d2.
Proof. reflexivity. Qed.

(* checked or: the symbolic word and the side condition that makes it sound *)
Definition srotw (b : Z) (c : sword) : sword := if b =? 0 then slor (sshr c 1) (sshl c 27) else slor (sshr c 2) (sshl c 26).
Definition srotw_ok (b : Z) (c : sword) : bool := if b =? 0 then sdisjoint (sshr c 1) (sshl c 27) else sdisjoint (sshr c 2) (sshl c 26).

Record sstep := { s_c2 : sword; s_d2 : sword; s_k0 : sword; s_k1 : sword; s_ok : bool }.

Definition sks_step (b : Z) (c d : sword) : sstep :=
  let c2 := sand (srotw b c) 268435455 in
  let d2 := sand (srotw b d) 268435455 in
  let i0 := sand c2 63 in
  let i1a := sand (sshr c2 6) 3 in let i1b := sand (sshr c2 7) 60 in let i1 := slor i1a i1b in
  let i2a := sand (sshr c2 13) 15 in let i2b := sand (sshr c2 14) 48 in let i2 := slor i2a i2b in
  let i3a := sand (sshr c2 20) 1 in let i3b := sand (sshr c2 21) 6 in let i3c := sand (sshr c2 22) 56 in
  let i3ab := slor i3a i3b in let i3 := slor i3ab i3c in
  let i4 := sand d2 63 in
  let i5a := sand (sshr d2 7) 3 in let i5b := sand (sshr d2 8) 60 in let i5 := slor i5a i5b in
  let i6 := sand (sshr d2 15) 63 in
  let i7a := sand (sshr d2 21) 15 in let i7b := sand (sshr d2 22) 48 in let i7 := slor i7a i7b in
  let t0 := stab 0 i0 in let t1 := stab 1 i1 in let t2 := stab 2 i2 in let t3 := stab 3 i3 in
  let t4 := stab 4 i4 in let t5 := stab 5 i5 in let t6 := stab 6 i6 in let t7 := stab 7 i7 in
  let s01 := slor t0 t1 in let s012 := slor s01 t2 in let s := slor s012 t3 in
  let t45 := slor t4 t5 in let t456 := slor t45 t6 in let t := slor t456 t7 in
  let k0a := sshl t 16 in let k0b := sand s 65535 in
  let k0 := sand (slor k0a k0b) 4294967295 in
  let s1a := sshr s 16 in let s1b := sand t 4294901760 in let s1 := slor s1a s1b in
  let s2a := sshl s1 4 in let s2b := sshr s1 28 in
  let k1 := sand (slor s2a s2b) 4294967295 in
  {| s_c2 := c2; s_d2 := d2; s_k0 := k0; s_k1 := k1;
     s_ok := srotw_ok b c && srotw_ok b d &&
             sdisjoint i1a i1b && sdisjoint i2a i2b && sdisjoint i3a i3b && sdisjoint i3ab i3c &&
             sdisjoint i5a i5b && sdisjoint i7a i7b &&
             ssmall i0 && ssmall i1 && ssmall i2 && ssmall i3 && ssmall i4 && ssmall i5 && ssmall i6 && ssmall i7 &&
             sdisjoint t0 t1 && sdisjoint s01 t2 && sdisjoint s012 t3 &&
             sdisjoint t4 t5 && sdisjoint t45 t6 && sdisjoint t456 t7 &&
             sdisjoint k0a k0b && sdisjoint s1a s1b && sdisjoint s2a s2b |}.

Lemma repr_srotw b sc c X : srotw_ok b sc = true -> repr sc c X ->
  repr (srotw b sc) (if b =? 0 then Z.lor (shr c 1) (shl32 c 27) else Z.lor (shr c 2) (shl32 c 26)) X.
Proof.
  unfold srotw_ok, srotw. intros Hok Hr. destruct (b =? 0);
    (apply repr_lor; [exact Hok|apply repr_shr; [lia|exact Hr]|apply repr_shl; [lia|exact Hr]]).
Qed.

Ltac sym_step :=
  match goal with
  | H : repr ?w ?v ?X |- repr ?w ?v ?X => exact H
  | |- repr (sand _ _) (Z.land _ _) _ => apply repr_and
  | |- repr (sshr _ _) (shr _ _) _ => apply repr_shr; [lia|]
  | |- repr (sshl _ _) (shl32 _ _) _ => apply repr_shl; [lia|]
  | H : srotw_ok ?b ?c = true |- repr (srotw ?b ?c) _ _ => apply repr_srotw; [exact H|]
  | H : sdisjoint ?a ?b = true |- repr (slor ?a ?b) (Z.lor _ _) _ => apply repr_lor; [exact H| |]
  | H : ssmall ?i = true |- repr (stab _ ?i) (tab skb _ _) _ => apply repr_stab; [lia|exact H|]
  end.

Lemma sks_step_sound b sc sd c d X : repr sc c X -> repr sd d X -> s_ok (sks_step b sc sd) = true ->
  let '(c2, d2, k0, k1) := ks_step b c d in
  repr (s_c2 (sks_step b sc sd)) c2 X /\ repr (s_d2 (sks_step b sc sd)) d2 X /\
  repr (s_k0 (sks_step b sc sd)) k0 X /\ repr (s_k1 (sks_step b sc sd)) k1 X.
Proof.
  intros Hc Hd Hok. unfold sks_step in *. cbv zeta in *. cbn [s_ok s_c2 s_d2 s_k0 s_k1] in *.
  repeat match type of Hok with (_ && _) = true => apply andb_prop in Hok; let H := fresh "F" in destruct Hok as [Hok H] end.
  unfold ks_step. cbv zeta.
  assert (C2 : repr (sand (srotw b sc) 268435455)
                 (Z.land (if b =? 0 then Z.lor (shr c 1) (shl32 c 27) else Z.lor (shr c 2) (shl32 c 26)) 268435455) X)
    by (repeat sym_step).
  assert (D2 : repr (sand (srotw b sd) 268435455)
                 (Z.land (if b =? 0 then Z.lor (shr d 1) (shl32 d 27) else Z.lor (shr d 2) (shl32 d 26)) 268435455) X)
    by (repeat sym_step).
  set (c2 := Z.land (if b =? 0 then Z.lor (shr c 1) (shl32 c 27) else Z.lor (shr c 2) (shl32 c 26)) 268435455) in *.
  set (d2 := Z.land (if b =? 0 then Z.lor (shr d 1) (shl32 d 27) else Z.lor (shr d 2) (shl32 d 26)) 268435455) in *.
  set (sc2 := sand (srotw b sc) 268435455) in *. set (sd2 := sand (srotw b sd) 268435455) in *.
  clearbody c2 d2 sc2 sd2.
  split; [exact C2|]. split; [exact D2|].
  match goal with |- repr (sand (slor (sshl ?st 16) (sand ?ss 65535)) _) (Z.land (Z.lor (shl32 ?t 16) (Z.land ?s 65535)) _) X /\ _ =>
    assert (S : repr ss s X) by (repeat sym_step); assert (T : repr st t X) by (repeat sym_step);
    set (vs := s) in *; set (vt := t) in *; set (ws := ss) in *; set (wt := st) in *; clearbody vs vt ws wt end.
  split; repeat sym_step.
Qed.

Fixpoint sks_loop (sh : list Z) (c d : sword) : list sword * bool :=
  match sh with
  | [] => ([], true)
  | b :: sh' => let st := sks_step b c d in
                let r := sks_loop sh' (s_c2 st) (s_d2 st) in
                (s_k0 st :: s_k1 st :: fst r, s_ok st && snd r)
  end.

Lemma sks_loop_sound sh : forall sc sd c d X, repr sc c X -> repr sd d X -> snd (sks_loop sh sc sd) = true ->
  Forall2 (fun w v => repr w v X) (fst (sks_loop sh sc sd)) (ks_loop sh c d).
Proof.
  induction sh as [|b sh IH]; intros sc sd c d X Hc Hd Hok; [constructor|].
  cbn [sks_loop fst snd] in *. apply andb_prop in Hok. destruct Hok as [Ok1 Ok2].
  rewrite ks_loop_cons. pose proof (sks_step_sound b sc sd c d X Hc Hd Ok1) as H.
  destruct (ks_step b c d) as [[[c2 d2] k0] k1]. destruct H as (H1 & H2 & H3 & H4).
  constructor; [exact H3|]. constructor; [exact H4|]. apply IH; assumption.
Qed.

Lemma Forall2_nth' {A B} (R : A -> B -> Prop) l1 : forall l2 i da db, Forall2 R l1 l2 -> (i < length l1)%nat -> R (nth i l1 da) (nth i l2 db).
Proof.
  induction l1 as [|a l1 IH]; intros l2 i da db H Hi; [cbn [length] in Hi; lia|].
  inversion H as [|? b ? l2' Hab Hr]; subst. destruct i as [|i]; [exact Hab|]. cbn [nth]. apply IH; [exact Hr|cbn [length] in Hi; lia].
Qed.

(* ---------------------------------------------------------------- the whole of desSetKey, symbolically *)

Definition sset_key : list sword * bool :=
  let p := spc1 (svar 0) (svar 1) in sks_loop shifts2 (fst p) (snd p).

Lemma sset_key_ok : snd sset_key = true.
Proof. vm_compute. reflexivity. Qed.

Lemma sset_key_len : length (fst sset_key) = 32%nat.
Proof. vm_compute. reflexivity. Qed.

Lemma set_key_length key : length (set_key key) = 32%nat.
Proof.
  unfold set_key. destruct (pc1_words key) as [c d].
  assert (G : forall sh c d, length (ks_loop sh c d) = (2 * length sh)%nat).
  { induction sh as [|b sh IH]; intros c' d'; [reflexivity|]. cbn [ks_loop length]. rewrite IH. lia. }
  rewrite G. reflexivity.
Qed.

Opaque sks_loop ks_loop spc1 pc1_net.
Lemma set_key_repr x0 x1 : 0 <= x0 < 2 ^ 32 -> 0 <= x1 < 2 ^ 32 ->
  Forall2 (fun w v => repr w v (X64 x0 x1)) (fst sset_key)
          (let '(c, d) := pc1_net x0 x1 in ks_loop shifts2 c d).
Proof.
  intros H0 H1. destruct (pc1_repr x0 x1 H0 H1) as [RC RD]. destruct (pc1_net x0 x1) as [c d]. cbn [fst snd] in RC, RD.
  exact (sks_loop_sound shifts2 _ _ c d _ RC RD sset_key_ok).
Qed.

(* ---------------------------------------------------------------- the textbook schedule on 64 boolean variables *)

(* the textbook functions are pure rearrangements: run them on positions instead of bits *)
Definition gperm {A} (d : A) (t : list nat) (b : list A) : list A := map (fun i => nth (i - 1) b d) t.
Definition grotl {A} (n : nat) (l : list A) : list A := skipn n l ++ firstn n l.
Fixpoint gschedule_from {A} (d : A) (sh : list nat) (C D : list A) : list (list A) :=
  match sh with
  | [] => []
  | n :: sh' => let C' := grotl n C in let D' := grotl n D in gperm d PC2 (C' ++ D') :: gschedule_from d sh' C' D'
  end.
(* KS_IDX r p = 0-based position in the 64-bit key of bit p of K_(r+1) *)
Definition KS_IDX : list (list nat) :=
  let cd := gperm 64%nat PC1 (seq 0 64) in gschedule_from 64%nat SHIFTS (firstn 28 cd) (skipn 28 cd).

Lemma key_schedule_positions bits : length bits = 64%nat ->
  key_schedule bits = map (map (fun i => nth i bits false)) KS_IDX.
Proof.
  intros Hl. do 64 (destruct bits as [|? bits]; [discriminate Hl|]).
  destruct bits; [|cbn [length] in Hl; lia]. vm_compute. reflexivity.
Qed.

Definition ks_idx (r p : nat) : nat := nth p (nth r KS_IDX []) 64%nat.

Lemma ks_idx_range : forallb (fun r => forallb (fun p => (ks_idx (Z.to_nat r) (Z.to_nat p) <? 64)%nat) (zrange 48)) (zrange 16) = true.
Proof. vm_compute. reflexivity. Qed.
Lemma ks_idx_shape : length KS_IDX = 16%nat /\ forallb (fun l => (length l =? 48)%nat) KS_IDX = true.
Proof. split; vm_compute; reflexivity. Qed.

Lemma place_src_range h j : (j < 32)%nat -> match place_src h j with Some p => (p < 48)%nat | None => True end.
Proof.
  intros Hj. assert (H : forallb (fun h => forallb (fun j => match place_src h j with Some p => (p <? 48)%nat | None => true end) (seq 0 32)) [O; 1%nat] = true)
    by (vm_compute; reflexivity).
  destruct h as [|h].
  - cbn [forallb] in H. apply andb_prop in H. destruct H as [H _]. rewrite forallb_forall in H.
    specialize (H j ltac:(apply in_seq; lia)). destruct (place_src 0 j); [apply Nat.ltb_lt; exact H|exact I].
  - cbn [forallb] in H. apply andb_prop in H. destruct H as [_ H]. apply andb_prop in H. destruct H as [H _].
    rewrite forallb_forall in H. specialize (H j ltac:(apply in_seq; lia)).
    change (place_src (S h) j) with (place_src 1 j). destruct (place_src 1 j); [apply Nat.ltb_lt; exact H|exact I].
Qed.

(* expected position (in X64 of the two key words) of bit j of schedule word 2 r + h; -1: constant zero *)
Definition exp_pos (i : Z) (j : Z) : Z :=
  let r := Z.to_nat (i / 2) in let h := Z.to_nat (i mod 2) in
  match place_src h (Z.to_nat j) with
  | Some p => let n := Z.of_nat (ks_idx r p) in 8 * (n / 8) + 7 - n mod 8
  | None => -1
  end.

Lemma sset_key_single :
  forallb (fun i => single_bits (nth (Z.to_nat i) (fst sset_key) []) (map (exp_pos i) idx32)) (zrange 32) = true.
Proof. vm_compute. reflexivity. Qed.

(* ---------------------------------------------------------------- the theorem *)

Lemma flat_bits_key_bit k0 k1 k2 k3 k4 k5 k6 k7 n : (n < 64)%nat ->
  nth n (flat_map byte_bits [k0; k1; k2; k3; k4; k5; k6; k7]) false = key_bit [k0; k1; k2; k3; k4; k5; k6; k7] (Z.of_nat n + 1).
Proof.
  intros Hn. do 64 (destruct n as [|n]; [reflexivity|]). lia.
Qed.

Theorem round_keys key r h : length key = 8%nat -> bytes_ok key = true -> (r < 16)%nat -> (h < 2)%nat ->
  nth (2 * r + h) (set_key key) 0 = place h (nth r (key_schedule (flat_map byte_bits key)) []).
Proof.
  intros Hl Hb Hr Hh.
  do 9 (destruct key as [|? key]; cbn [length] in Hl; try lia). clear Hl.
  pose proof Hb as Hb'. apply bytes_ok_forall in Hb'.
  repeat match goal with H : Forall _ (_ :: _) |- _ => inversion H; subst; clear H end.
  set (key := [z; z0; z1; z2; z3; z4; z5; z6]).
  set (x0 := c2l z z0 z1 z2). set (x1 := c2l z3 z4 z5 z6).
  assert (R0 : 0 <= x0 < 2 ^ 32) by (apply c2l_range; assumption).
  assert (R1 : 0 <= x1 < 2 ^ 32) by (apply c2l_range; assumption).
  assert (F : Forall2 (fun w v => repr w v (X64 x0 x1)) (fst sset_key) (set_key key)).
  { unfold set_key, pc1_words, key. cbn [nth]. fold x0 x1. exact (set_key_repr x0 x1 R0 R1). }
  set (i := (2 * r + h)%nat).
  assert (Hi : (i < 32)%nat) by (unfold i; lia).
  assert (Hi' : (i < length (fst sset_key))%nat) by (rewrite sset_key_len; exact Hi).
  pose proof (Forall2_nth' _ _ _ i [] 0 F Hi') as Rw. cbv beta in Rw.
  pose proof (sweep _ 32 sset_key_single (Z.of_nat i) ltac:(lia)) as Sg. cbv beta in Sg. rewrite Nat2Z.id in Sg.
  assert (Ei2 : Z.to_nat (Z.of_nat i / 2) = r) by (unfold i; zify; Z.div_mod_to_equations; lia).
  assert (Eim : Z.to_nat (Z.of_nat i mod 2) = h) by (unfold i; zify; Z.div_mod_to_equations; lia).
  assert (Hks : length (flat_map byte_bits key) = 64%nat) by reflexivity.
  rewrite (key_schedule_positions _ Hks).
  apply Z.bits_inj'. intros j Hj. rewrite place_bit by exact Hj.
  destruct (Z.ltb_spec j 32) as [Hlt|Hge].
  - rewrite (repr_single _ _ _ _ Rw Sg j ltac:(lia)). rewrite sget_map by lia.
    unfold exp_pos. cbv zeta. rewrite Ei2, Eim.
    pose proof (place_src_range h (Z.to_nat j) ltac:(lia)) as Hp.
    destruct (place_src h (Z.to_nat j)) as [p|]; [|reflexivity].
    pose proof (sweep _ 16 ks_idx_range (Z.of_nat r) ltac:(lia)) as Hn. cbv beta in Hn.
    pose proof (sweep _ 48 Hn (Z.of_nat p) ltac:(lia)) as Hn'. cbv beta in Hn'. rewrite !Nat2Z.id in Hn'.
    apply Nat.ltb_lt in Hn'. set (n := ks_idx r p) in *.
    match goal with |- (if ?c then _ else _) = _ => destruct (Z.ltb_spec (8 * (Z.of_nat n / 8) + 7 - Z.of_nat n mod 8) 0) as [Hneg|_] end.
    { exfalso. zify; Z.div_mod_to_equations; lia. }
    (* spec side: bit p of K_(r+1) is key bit n *)
    destruct ks_idx_shape as [L16 L48].
    assert (Hrow : nth r (map (map (fun i0 => nth i0 (flat_map byte_bits key) false)) KS_IDX) [] =
                   map (fun i0 => nth i0 (flat_map byte_bits key) false) (nth r KS_IDX [])).
    { change [] with (map (fun i0 => nth i0 (flat_map byte_bits key) false) []) at 1. apply map_nth. }
    rewrite Hrow.
    assert (Hrl : length (nth r KS_IDX []) = 48%nat).
    { rewrite forallb_forall in L48. apply Nat.eqb_eq. apply L48. apply nth_In. lia. }
    rewrite nth_indep with (d' := (fun i0 => nth i0 (flat_map byte_bits key) false) 64%nat) by (rewrite map_length; lia).
    rewrite (map_nth (fun i0 => nth i0 (flat_map byte_bits key) false)). fold (ks_idx r p). fold n.
    unfold key. rewrite flat_bits_key_bit by exact Hn'.
    rewrite <- (key_bit_pos z z0 z1 z2 z3 z4 z5 z6 (Z.of_nat n + 1)) by (try assumption; lia).
    fold x0 x1. f_equal. replace (Z.of_nat n + 1 - 1) with (Z.of_nat n) by lia. reflexivity.
  - pose proof (repr_range _ _ _ Rw) as Rg.
    destruct (Z.eq_dec (nth i (set_key key) 0) 0) as [->|Hz]; [apply Z.bits_0|]. apply Z.bits_above_log2; [lia|].
    apply Z.lt_le_trans with 32; [apply Z.log2_lt_pow2; lia|lia].
Qed.

Example place_ex : place 0 (repeat true 48) = 1061109567 /\ place 1 (repeat true 48) = 4092851187.
Proof. split; vm_compute; reflexivity. Qed.
Example round_keys_ex :
  nth 0 (set_key [2; 4; 6; 8; 10; 12; 14; 16]) 0 = place 0 (nth 0 (key_schedule (flat_map byte_bits [2; 4; 6; 8; 10; 12; 14; 16])) []) /\
  nth 0 (set_key [2; 4; 6; 8; 10; 12; 14; 16]) 0 <> 0.
Proof. split; vm_compute; [reflexivity|discriminate]. Qed.
