(* C18 — the surroundings of a call: a helper on buf[:n] of a larger buffer (op 28), helpers called by several
   goroutines at once (op 29). *)
From Verif Require Import Base.Common Base.Cstr Gen.Consts_default Gen.AnsiTab Gen.StrTab Model.C18.

Lemma lenZ_nonneg {A} (l : list A) : lenZ l <? 0 = false.
Proof. unfold lenZ. apply Z.ltb_ge. lia. Qed.
Lemma to_nat_lenZ {A} (l : list A) : Z.to_nat (lenZ l) = length l.
Proof. unfold lenZ. apply Nat2Z.id. Qed.

Lemma win_cut_app a t : win_cut (lenZ a) (a ++ t) = a.
Proof.
  unfold win_cut. rewrite lenZ_nonneg, to_nat_lenZ.
  rewrite firstn_app, Nat.sub_diag, firstn_all. cbn [firstn]. apply app_nil_r.
Qed.
Lemma win_tail_app a t : win_tail (lenZ a) (a ++ t) = t.
Proof.
  unfold win_tail. rewrite lenZ_nonneg, to_nat_lenZ.
  rewrite skipn_app, Nat.sub_diag, skipn_all. reflexivity.
Qed.

Definition win_lens (ps : list (list Z * list Z)) : list Z := map (fun p => lenZ (fst p)) ps.
Definition win_bufs (ps : list (list Z * list Z)) : list (list Z) := map (fun p => fst p ++ snd p) ps.

Lemma win_ok_app ps extra : win_ok (win_lens ps) (win_bufs ps ++ extra) = true.
Proof.
  induction ps as [|[a t] ps IH]; [reflexivity|].
  cbn [win_lens win_bufs map app win_ok fst snd]. fold (win_lens ps). fold (win_bufs ps). rewrite IH, andb_true_r.
  apply Z.leb_le. unfold lenZ. rewrite app_length. lia.
Qed.
Lemma win_args_app ps extra : win_args (win_lens ps) (win_bufs ps ++ extra) = map fst ps ++ extra.
Proof.
  induction ps as [|[a t] ps IH]; [destruct extra; reflexivity|].
  cbn [win_lens win_bufs map app win_args fst snd]. fold (win_lens ps). fold (win_bufs ps).
  rewrite IH, win_cut_app. reflexivity.
Qed.
Lemma win_tails_app ps extra : win_tails (win_lens ps) (win_bufs ps ++ extra) = concat (map snd ps).
Proof.
  induction ps as [|[a t] ps IH]; [destruct extra; reflexivity|].
  cbn [win_lens win_bufs map app win_tails concat fst snd]. fold (win_lens ps). fold (win_bufs ps).
  rewrite IH, win_tail_app. reflexivity.
Qed.

(* a helper called on buf[:n] of larger buffers: whatever bytes [snd p] lie behind the inputs [fst p] (inside the
   capacity of the slices), the call answers what it answers on the inputs alone, and those bytes are unchanged *)
Lemma window_frame iop ps extra :
  let out := run_op_base iop (map fst ps ++ extra) in
  hd 9 out = ST_OK ->
  run_case ([28] :: [iop] :: win_lens ps :: win_bufs ps ++ extra) = ST_OK :: lenZ out :: out ++ concat (map snd ps).
Proof.
  intros out H. cbn [run_case]. unfold run_op. cbn [Z.eqb Pos.eqb]. unfold run_window.
  rewrite win_ok_app, win_args_app, win_tails_app. fold out. rewrite H. reflexivity.
Qed.

Example window_frame_ex :
  run_case [[28]; [12]; [3]; [97; 98; 164; 64; 99; 100]] = [0; 7; 0; 2; 97; 98; 97; 98; 0; 64; 99; 100] /\
  run_case [[28]; [20]; [1; 1]; [97; 98]; [97; 99]] = [0; 2; 0; 0; 98; 99] /\
  run_case [[28]; [13]; [2; -1]; [27; 91; 49; 109]; [1]] = [0; 1; 0; 49; 109].
Proof. vm_compute. repeat split. Qed.

(* ------------------------------------------------------------------ several goroutines *)
Definition conc_groups (cases : list (Z * list (list Z))) : list (list Z) :=
  flat_map (fun c => [lenZ (snd c); fst c] :: snd c) cases.

Lemma conc_outs_cases cases : forall fuel, (length (conc_groups cases) < fuel)%nat ->
  conc_outs fuel (conc_groups cases) = Some (map (fun c => run_op_base (fst c) (snd c)) cases).
Proof.
  induction cases as [|[iop args] cases IH]; intros fuel L.
  - destruct fuel; [cbn in L; lia|reflexivity].
  - destruct fuel as [|f]; [lia|].
    cbn [conc_groups flat_map fst snd app] in *. fold (conc_groups cases) in *.
    cbn [conc_outs]. rewrite lenZ_nonneg. cbn [orb].
    replace (lenZ (args ++ conc_groups cases) <? lenZ args) with false
      by (symmetry; apply Z.ltb_ge; unfold lenZ; rewrite app_length; lia).
    rewrite to_nat_lenZ, skipn_app, Nat.sub_diag, skipn_all, firstn_app, Nat.sub_diag, firstn_all.
    cbn [skipn firstn app]. rewrite app_nil_r.
    rewrite IH; [reflexivity|]. cbn [length] in L. rewrite app_length in L. lia.
Qed.

(* G goroutines running these cases for any number of rounds: one distinct answer per case, the one the case gives
   when it is called alone *)
Lemma conc_independent g rounds cases : 1 <= g <= 64 -> 1 <= rounds ->
  run_case ([29] :: [g; rounds] :: conc_groups cases) =
  ST_OK :: lenZ cases :: wire_conc (map (fun c => run_op_base (fst c) (snd c)) cases).
Proof.
  intros G R. cbn [run_case]. unfold run_op. cbn [Z.eqb Pos.eqb]. unfold run_conc.
  replace (g <? 1) with false by (symmetry; apply Z.ltb_ge; lia).
  replace (64 <? g) with false by (symmetry; apply Z.ltb_ge; lia).
  replace (rounds <? 1) with false by (symmetry; apply Z.ltb_ge; lia). cbn [orb].
  rewrite conc_outs_cases by lia. unfold lenZ. rewrite map_length. reflexivity.
Qed.

Example conc_independent_ex :
  run_case [[29]; [4; 1000]; [2; 21]; [65; 66]; [97; 98]; [2; 21]; [97]; [66]; [1; 8]; [97]] =
  [0; 3; 1; 2; 0; 0; 1; 2; 0; -1; 1; 2; 0; 2281740870].
Proof. vm_compute. reflexivity. Qed.
