(* C19: the whole Save (cleanup, mtime gate, temporary file, rename, reload) on a tree with consistent counters,
   composed with crash atomicity and the round trip: whatever prefix of the system calls of the save was executed
   when the process died, Load of .fav succeeds and returns the old tree or the new tree. *)
From Verif Require Import Base.Common Base.ListX Base.Fs Gen.Consts_default Model.C19.
From Verif Require Import Proofs.C19_rt Proofs.C19_crash Proofs.C19_api Proofs.C19_clean.
From Coq Require Import ZifyBool.
Ltac Zify.zify_post_hook ::= Z.div_mod_to_equations.

(* writes / save_syscalls (does Save write at all; the system calls Model.C19.save issues) are in Model/C19.v *)
(* the user's home before the save: only .fav matters *)
Definition disk0 (old : option (list Z)) : fs := match old with Some c => [(FN_FAV, c)] | None => [] end.

Lemma file_chunks_of_image f img : file_image f = Ok img -> exists cs, file_chunks f = Ok cs /\ bytes_of cs = img.
Proof.
  unfold file_image. destruct (file_chunks f) as [cs| |]; try discriminate. cbn [res_map]. intros H. injection H as <-.
  exists cs. split; reflexivity.
Qed.

Lemma load_image f c : wf_fav f -> file_image f = Ok c -> c = spec_file f /\ load c = ROk (renumber f).
Proof.
  intros Hw Hc. destruct (roundtrip f Hw) as (img & Ei & El). rewrite (format f Hw) in Ei, Hc.
  injection Ei as <-. injection Hc as <-. split; [reflexivity|exact El].
Qed.

Lemma tmp_ne_fav : FN_TMP <> FN_FAV. Proof. discriminate. Qed.

(* a save that writes: the complete system-call list leaves the new image, Save returns the reloaded tree *)
Lemma save_written z f rel old : lvl z f -> writes rel old = true ->
  exists f1, cleanup f = Ok f1 /\ wf_fav f1 /\
    save rel old f = SOk (Some (spec_file f1)) (renumber f1) /\
    lookup FN_FAV (exec (disk0 old) (save_syscalls rel old f)) = Some (spec_file f1).
Proof.
  intros Hl Hwr. destruct (cleanup_spec z f Hl) as (f1 & Ec & _ & _ & _ & Hw1 & _).
  exists f1. split; [exact Ec|]. split; [exact Hw1|].
  destruct (file_chunks_of_image f1 _ (format f1 Hw1)) as (cs & Ecs & Eb).
  destruct (load_image f1 _ Hw1 (format f1 Hw1)) as (_ & El).
  assert (Ex : forall s, lookup FN_FAV (exec s (save_ops FN_TMP FN_FAV (map snd cs))) = Some (spec_file f1)).
  { intros s. rewrite (save_complete FN_TMP FN_FAV (map snd cs) s tmp_ne_fav). rewrite <- Eb. reflexivity. }
  split.
  - unfold save. rewrite Ec, Ecs. cbv zeta. rewrite Ex, El.
    destruct old as [c|]; [|reflexivity]. cbn [writes] in Hwr. rewrite Hwr. reflexivity.
  - unfold save_syscalls, save_tmp_name. rewrite Ec, Hwr, Ecs. apply Ex.
Qed.

(* the whole save over an existing, well-formed .fav *)
Lemma save_sequence z f rel fo c : lvl z f -> wf_fav fo -> file_image fo = Ok c ->
  exists f1, cleanup f = Ok f1 /\ wf_fav f1 /\
    (* the process dies after n system calls, for any n *)
    (forall n, let disk := exec [(FN_FAV, c)] (firstn n (save_syscalls rel (Some c) f)) in
       (lookup FN_FAV disk = Some c /\ load c = ROk (renumber fo)) \/
       (0 < rel /\ lookup FN_FAV disk = Some (spec_file f1) /\ load (spec_file f1) = ROk (renumber f1))) /\
    (* the save runs to its end: what Save returns, and .fav is what the complete system-call list leaves *)
    save rel (Some c) f = (if 0 <? rel then SOk (Some (spec_file f1)) (renumber f1)
                           else if rel =? 0 then SOk (Some c) f1 else SOk (Some c) (renumber fo)) /\
    image_of (save rel (Some c) f) = lookup FN_FAV (exec [(FN_FAV, c)] (save_syscalls rel (Some c) f)).
Proof.
  intros Hl Hwo Hc. destruct (cleanup_spec z f Hl) as (f1 & Ec & _ & _ & _ & Hw1 & _).
  destruct (load_image fo c Hwo Hc) as (_ & Elo).
  destruct (load_image f1 _ Hw1 (format f1 Hw1)) as (_ & El1).
  destruct (file_chunks_of_image f1 _ (format f1 Hw1)) as (cs & Ecs & Eb).
  assert (E0 : lookup FN_FAV [(FN_FAV, c)] = Some c) by reflexivity.
  exists f1. split; [exact Ec|]. split; [exact Hw1|].
  destruct (0 <? rel) eqn:Erel.
  - destruct (save_written z f rel (Some c) Hl Erel) as (f1' & Ec' & _ & Es & Ex).
    rewrite Ec in Ec'. injection Ec' as <-.
    split; [|split; [exact Es|rewrite Es; cbn [image_of]; symmetry; exact Ex]].
    intros n. cbv zeta. unfold save_syscalls, save_tmp_name. rewrite Ec. cbn [writes]. rewrite Erel, Ecs.
    destruct (crash_atomic f1 cs [(FN_FAV, c)] n Ecs) as [H|[_ H]].
    + left. split; [rewrite H; exact E0|exact Elo].
    + right. split; [lia|]. rewrite <- Eb. split; [exact H|]. rewrite Eb. exact El1.
  - assert (Es : save rel (Some c) f = if rel =? 0 then SOk (Some c) f1 else SOk (Some c) (renumber fo)).
    { unfold save. rewrite Ec. cbv zeta. rewrite Erel. destruct (rel =? 0); [reflexivity|]. rewrite Elo. reflexivity. }
    assert (En : save_syscalls rel (Some c) f = []) by (unfold save_syscalls, save_tmp_name; rewrite Ec; cbn [writes]; rewrite Erel; reflexivity).
    split; [|split; [exact Es|]].
    + intros n. cbv zeta. rewrite En. left. destruct n; cbn [firstn exec fold_left]; (split; [exact E0|exact Elo]).
    + rewrite Es, En. destruct (rel =? 0); reflexivity.
Qed.

(* the first save: there is no .fav yet *)
Lemma save_sequence_fresh z f rel : lvl z f ->
  exists f1, cleanup f = Ok f1 /\ wf_fav f1 /\
    (forall n, let disk := exec [] (firstn n (save_syscalls rel None f)) in
       lookup FN_FAV disk = None \/
       (lookup FN_FAV disk = Some (spec_file f1) /\ load (spec_file f1) = ROk (renumber f1))) /\
    save rel None f = SOk (Some (spec_file f1)) (renumber f1) /\
    image_of (save rel None f) = lookup FN_FAV (exec [] (save_syscalls rel None f)).
Proof.
  intros Hl. destruct (save_written z f rel None Hl eq_refl) as (f1 & Ec & Hw1 & Es & Ex).
  destruct (load_image f1 _ Hw1 (format f1 Hw1)) as (_ & El1).
  destruct (file_chunks_of_image f1 _ (format f1 Hw1)) as (cs & Ecs & Eb).
  exists f1. split; [exact Ec|]. split; [exact Hw1|].
  split; [|split; [exact Es|rewrite Es; cbn [image_of]; symmetry; exact Ex]].
  intros n. cbv zeta. unfold save_syscalls, save_tmp_name. rewrite Ec. cbn [writes]. rewrite Ecs.
  destruct (crash_atomic f1 cs [] n Ecs) as [H|[_ H]].
  - left. rewrite H. reflexivity.
  - right. rewrite <- Eb. split; [exact H|]. rewrite Eb. exact El1.
Qed.

(* what the harness runs (run_case op 1): a script of API calls, then Save into an empty home *)
Lemma api_save_load ops t n : run_script ops empty_fav 0 = Some (t, n) ->
  exists t1, cleanup t = Ok t1 /\
    save 1 None t = SOk (Some (spec_file t1)) (fill_cache t1) /\
    map skel_item (snd t1) = skel_items (snd t) /\ lvl true t1 /\
    (need_rebuild t = false -> t1 = t /\ fst (fill_cache t) = fst t /\ map zero_item (snd (fill_cache t)) = snd t).
Proof.
  intros Hr. destruct (api_trees_wellformed ops t n Hr) as (_ & [Hl Ht] & _ & _ & _ & Hf & Hz).
  destruct (cleanup_ok true t Hl) as (t1 & Ec & Hl1 & _ & Hsk & Hnr & Ht1).
  destruct (save_written true t 1 None Hl eq_refl) as (t1' & Ec' & _ & Es & _).
  rewrite Ec in Ec'. injection Ec' as <-.
  exists t1. split; [exact Ec|]. split.
  - rewrite Es. f_equal. apply (renumber_sok true). split; [exact Hl1|lia].
  - split; [rewrite <- Hsk; symmetry; apply skel_all_valid; exact Hnr|]. split; [exact Hl1|].
    intros Hn. unfold cleanup in Ec. rewrite Hn in Ec. injection Ec as <-. repeat split; assumption.
Qed.

(* ---------------------------------------------------------------- non-vacuity *)
(* old .fav: the three-level tree of C19_rt.v; new tree: the example script with one folder invalidated *)
Example ex_save_sequence : exists t n c f1,
  run_script ex_script empty_fav 0 = Some (t, n) /\ file_image ex_tree = Ok c /\ cleanup t = Ok f1 /\
  length (save_syscalls 1 (Some c) t) = 25%nat /\
  lookup FN_FAV (exec [(FN_FAV, c)] (firstn 24 (save_syscalls 1 (Some c) t))) = Some c /\
  lookup FN_FAV (exec [(FN_FAV, c)] (firstn 25 (save_syscalls 1 (Some c) t))) = Some (spec_file f1) /\
  c <> spec_file f1 /\ save_syscalls 0 (Some c) t = [].
Proof.
  eexists. eexists. eexists. eexists. split; [vm_compute; reflexivity|]. split; [vm_compute; reflexivity|].
  split; [vm_compute; reflexivity|]. split; [vm_compute; reflexivity|]. split; [vm_compute; reflexivity|].
  split; [vm_compute; reflexivity|]. split; [vm_compute; discriminate|vm_compute; reflexivity].
Qed.
