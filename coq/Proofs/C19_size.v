(* C19: how large a .fav can get. Every entry costs at most 56 bytes (a folder: type, attr, fid, 49-byte title and the
   4 bytes of counts of its own record; a board 14; a line 3), so the image of a tree built through the API
   (<= MAX_FAV = 1024 entries) has at most 6 + 56 * 1024 = 57350 bytes - and trees reaching that size, and trees beyond
   the 14342 bytes of 1024 boards, exist and round-trip. *)
From Verif Require Import Base.Common Base.ListX Base.Fs Gen.Consts_default Model.C19.
From Verif Require Import Proofs.C19_rt Proofs.C19_crash Proofs.C19_api.
From Coq Require Import ZifyBool.
Ltac Zify.zify_post_hook ::= Z.div_mod_to_equations.

Definition item_bytes (i : item) : Z := Z.of_nat (length (entry_bytes i) + length (spec_sub i)).
Definition items_bytes (its : list item) : Z :=
  Z.of_nat (length (flat_map entry_bytes its) + length (flat_map spec_sub its)).

Lemma items_bytes_bound its :
  Forall (fun i => item_bytes i <= 56 * (1 + total_item i)) its -> items_bytes its <= 56 * total_items its.
Proof.
  unfold items_bytes, item_bytes. induction 1 as [|x r Hx _ IH]; [cbn; lia|].
  cbn [flat_map]. rewrite !app_length, total_items_cons. lia.
Qed.

Lemma item_bytes_bound i : wf_item i -> item_bytes i <= 56 * (1 + total_item i).
Proof.
  induction i as [a b v ba|a l|a f t h sub IH] using item_ind'; intros Hw.
  - unfold item_bytes. rewrite (entry_sizes _ Hw). cbn. lia.
  - unfold item_bytes. rewrite (entry_sizes _ Hw). cbn. lia.
  - pose proof (entry_sizes _ Hw) as He. cbn beta iota in He.
    destruct Hw as (_ & _ & _ & _ & Hsub). apply fold_right_Forall in Hsub.
    assert (Hall : Forall (fun i => item_bytes i <= 56 * (1 + total_item i)) sub).
    { rewrite Forall_forall in *. intros x Hx. apply IH; [exact Hx|apply Hsub; exact Hx]. }
    pose proof (items_bytes_bound sub Hall) as Hb. unfold items_bytes in Hb.
    unfold item_bytes. rewrite He. cbn [spec_sub]. unfold le16. rewrite !app_length. cbn [length].
    change (total_item (IFolder a f t h sub)) with (total_items sub). lia.
Qed.

(* the image of a well-formed tree: version word, counts, at most 56 bytes per entry *)
Lemma image_size f : wf_fav f -> lenZ (spec_file f) <= 6 + 56 * total_items (snd f).
Proof.
  intros [_ Hits].
  assert (Hall : Forall (fun i => item_bytes i <= 56 * (1 + total_item i)) (snd f)).
  { rewrite Forall_forall in *. intros x Hx. apply item_bytes_bound. apply Hits. exact Hx. }
  pose proof (items_bytes_bound (snd f) Hall) as Hb. unfold items_bytes in Hb.
  unfold lenZ, spec_file, spec_fav, le16. rewrite !app_length. cbn [length]. lia.
Qed.

(* every tree built through the API is written as a file of at most 57350 bytes, which Load reads back *)
Lemma api_image_size ops t n : run_script ops empty_fav 0 = Some (t, n) ->
  file_image t = Ok (spec_file t) /\ lenZ (spec_file t) <= 6 + 56 * ptt_fav.MAX_FAV /\
  load (spec_file t) = ROk (renumber t).
Proof.
  intros Hr. destruct (api_trees_wellformed ops t n Hr) as (Hw & _ & _ & Hb & _).
  split; [exact (format t Hw)|]. split; [pose proof (image_size t Hw); lia|].
  destruct (roundtrip t Hw) as (img & Ei & El). rewrite (format t Hw) in Ei. injection Ei as <-. exact El.
Qed.

(* ---------------------------------------------------------------- the bound is reached, and 14342 bytes (1024 boards) is not it *)
Definition zrange (n : nat) : list Z := map Z.of_nat (seq 0 n).
(* nroot folders in the root; in each of them nsub folders and nb boards *)
Definition grid_script (nroot nsub nb : nat) : list (list Z) :=
  repeat [3; 0; 70] nroot ++
  flat_map (fun i => repeat [3; 1; i; 97] nsub ++ map (fun b => [1; 1; i; b + 1]) (zrange nb)) (zrange nroot).

(* 64 folders of 15 folders: 1024 entries, the largest .fav an API tree can have *)
Lemma largest_image : exists t,
  run_script (grid_script 64 15 0) empty_fav 0 = Some (t, 0) /\ total_items (snd t) = ptt_fav.MAX_FAV /\
  lenZ (spec_file t) = 6 + 56 * ptt_fav.MAX_FAV /\ load (spec_file t) = ROk (renumber t).
Proof.
  eexists. split; [vm_compute; reflexivity|]. split; [vm_compute; reflexivity|]. split; vm_compute; reflexivity.
Qed.

(* 16 folders of 62 boards: 1008 entries, 14790 bytes - more than 1024 boards take (6 + 1024 * 14 = 14342) *)
Lemma folders_beat_boards : exists t,
  run_script (grid_script 16 0 62) empty_fav 0 = Some (t, 0) /\ total_items (snd t) = 1008 /\
  lenZ (spec_file t) = 14790 /\ 6 + ptt_fav.MAX_FAV * 14 < 14790 /\ load (spec_file t) = ROk (renumber t).
Proof.
  eexists. split; [vm_compute; reflexivity|]. split; [vm_compute; reflexivity|]. split; [vm_compute; reflexivity|].
  split; vm_compute; reflexivity.
Qed.
