From Verif Require Import Base.Common Model.C14.
From Verif Require Export Proofs.C14_offset Proofs.C14_shift.
From Coq Require Import Arith PeanoNat.

Lemma NoDup_snoc {A} (l : list A) t : NoDup l -> ~ In t l -> NoDup (l ++ [t]).
Proof.
  induction l as [|a l IH]; intros Hnd Hni; cbn; [constructor; [intros []|constructor]|].
  inversion Hnd as [|? ? Ha Hl]; subst. constructor.
  - rewrite in_app_iff. cbn. intros [H|[H|[]]]; [contradiction|]. apply Hni. left. symmetry. exact H.
  - apply IH; [exact Hl|]. intros H. apply Hni. right. exact H.
Qed.

Section Appenders.
Variable c : cfg.
Variable init : list Z.
Variable n0 : nat.
Hypothesis Hsz : (0 < sz c)%nat.
Hypothesis Hhalf : (half c <= sz c)%nat.
Hypothesis Hrec : forall t, length (recd c t) = sz c.
Hypothesis Hinit : length init = (n0 * sz c)%nat.     (* the file starts as n0 whole records *)

Definition holder (p : pc) : bool :=
  match p with PFlocked | PSeeked _ | PHalf _ | PWritten _ | PFailing => true | _ => false end.
Definition inlock (p : pc) : bool :=
  match p with PLockedFD | PFlocked | PSeeked _ | PHalf _ | PWritten _ | PUnflocked _ | PFailing | PFailUnflocked => true | _ => false end.
Definition committed (p : pc) : bool :=
  match p with PWritten _ | PUnflocked _ | PDoneOk _ => true | _ => false end.
Definition finished (p : pc) : bool :=
  match p with PDoneOk _ | PDoneErr => true | _ => false end.

Definition partial (s : st) : list Z :=
  match owner s with
  | Some t => match pcs s t with PHalf _ => firstn (half c) (recd c t) | _ => [] end
  | None => []
  end.

Record Inv (s : st) : Prop := {
  I_owner : forall t, owner s = Some t <-> holder (pcs s t) = true;
  I_tbl1 : forall t, inlock (pcs s t) = true -> tbl s (proc c t) = true;
  I_tbl2 : forall p, tbl s p = true -> exists t, proc c t = p /\ inlock (pcs s t) = true;
  I_tbl3 : forall t t', inlock (pcs s t) = true -> inlock (pcs s t') = true -> proc c t = proc c t' -> t = t';
  I_file : file s = init ++ concat (map (recd c) (log s)) ++ partial s;
  I_cur : forall t i, pcs s t = PSeeked i \/ pcs s t = PHalf i -> i = (n0 + length (log s))%nat;
  I_done : forall t i, pcs s t = PWritten i \/ pcs s t = PUnflocked i \/ pcs s t = PDoneOk (S i) ->
            (n0 <= i)%nat /\ nth_error (log s) (i - n0) = Some t;
  I_pos : forall t, pcs s t <> PDoneOk 0;
  I_log : forall t, In t (log s) <-> committed (pcs s t) = true;
  I_nodup : NoDup (log s)
}.

(* ------------------------------------------------------------------ small facts *)

Lemma updf_same {A} (f : nat -> A) k v : updf f k v k = v.
Proof. unfold updf. rewrite Nat.eqb_refl. reflexivity. Qed.
Lemma updf_other {A} (f : nat -> A) k v x : x <> k -> updf f k v x = f x.
Proof. unfold updf. intros H. destruct (Nat.eqb_spec x k); congruence. Qed.

Lemma recs_length l : length (concat (map (recd c) l)) = (length l * sz c)%nat.
Proof. induction l as [|t l IH]; [reflexivity|]. cbn. rewrite app_length, Hrec, IH. reflexivity. Qed.

Lemma write_at_end off bs f : off = length f -> write_at off bs f = f ++ bs.
Proof.
  intros ->. unfold write_at. rewrite firstn_all, Nat.sub_diag. cbn [repeat app].
  rewrite skipn_all2 by lia. rewrite app_nil_r. reflexivity.
Qed.

Lemma init_inv : Inv (init_st init).
Proof.
  constructor; cbn; intros; try discriminate; try tauto; try (split; [intros ?; discriminate|discriminate]).
  - rewrite app_nil_r. reflexivity.
  - destruct H; discriminate.
  - destruct H as [H|[H|H]]; discriminate.
  - split; [intros []|discriminate].
  - constructor.
Qed.

(* the owner is the only holder *)
Lemma holder_unique s t t' : Inv s -> holder (pcs s t) = true -> holder (pcs s t') = true -> t = t'.
Proof.
  intros I H H'. apply (I_owner s I) in H. apply (I_owner s I) in H'. congruence.
Qed.

Ltac upd t0 t :=
  destruct (Nat.eq_dec t0 t) as [->|?];
  [rewrite ?updf_same in * | rewrite ?updf_other in * by assumption].

(* a call that returns an error without having touched this file's lock or bytes *)
Lemma refused_inv s t : Inv s -> pcs s t = PStart -> Inv (set_pc s t PDoneErr).
Proof.
  intros I Ept.
  constructor; cbn [pcs tbl owner file log set_pc].
  * intros t0. upd t0 t; [|apply (I_owner s I)]. rewrite (I_owner s I), Ept. cbn. tauto.
  * intros t0. upd t0 t; [discriminate|apply (I_tbl1 s I)].
  * intros p Hp. destruct (I_tbl2 s I p Hp) as (t0 & Hp0 & Hl). exists t0. split; [exact Hp0|].
    upd t0 t; [rewrite Ept in Hl; discriminate|exact Hl].
  * intros t0 t1. upd t0 t; [discriminate|]. upd t1 t; [discriminate|]. apply (I_tbl3 s I).
  * rewrite (I_file s I) at 1. unfold partial. cbn [owner pcs set_pc].
    destruct (owner s) as [o|]; [|reflexivity]. upd o t; [rewrite Ept|]; reflexivity.
  * intros t0 i. upd t0 t; [intros [H|H]; discriminate|apply (I_cur s I)].
  * intros t0 i. upd t0 t; [intros [H|[H|H]]; discriminate|apply (I_done s I)].
  * intros t0. upd t0 t; [discriminate|apply (I_pos s I)].
  * intros t0. upd t0 t; [|apply (I_log s I)]. rewrite (I_log s I), Ept. cbn. tauto.
  * apply (I_nodup s I).
Qed.

(* ------------------------------------------------------------------ one step preserves the invariant *)

Lemma step_inv s t s' : Inv s -> step c s t = Some s' -> Inv s'.
Proof.
  intros I Hstep. unfold step in Hstep.
  destruct (pcs s t) eqn:Ept.
  - (* PStart *)
    destruct (away c t) eqn:Eaway; [|destruct (tbl s (proc c t)) eqn:Etbl]; inversion Hstep; subst; clear Hstep.
    + (* the call goes to another file and fails there: nothing of this file changes *)
      apply refused_inv; assumption.
    + (* ErrPttLock *)
      apply refused_inv; assumption.
    + (* table entry taken *)
      constructor; cbn [pcs tbl owner file log].
      * intros t0. upd t0 t; [|apply (I_owner s I)]. rewrite (I_owner s I), Ept. cbn. tauto.
      * intros t0 Hl. upd t0 t; [reflexivity|].
        unfold updf. destruct (Nat.eqb_spec (proc c t0) (proc c t)); [reflexivity|apply (I_tbl1 s I); exact Hl].
      * intros p Hp. unfold updf in Hp. destruct (Nat.eqb_spec p (proc c t)) as [Ep|Hne].
        -- subst p. exists t. rewrite updf_same. split; reflexivity.
        -- destruct (I_tbl2 s I p Hp) as (t0 & Hp0 & Hl). exists t0. split; [exact Hp0|].
           rewrite updf_other by (intros ->; congruence). exact Hl.
      * intros t0 t1 H0 H1 Hp.
        destruct (Nat.eq_dec t0 t) as [->|N0]; destruct (Nat.eq_dec t1 t) as [->|N1]; try reflexivity.
        -- rewrite updf_other in H1 by assumption. apply (I_tbl1 s I) in H1. congruence.
        -- rewrite updf_other in H0 by assumption. apply (I_tbl1 s I) in H0. congruence.
        -- rewrite updf_other in H0, H1 by assumption. apply (I_tbl3 s I); assumption.
      * rewrite (I_file s I) at 1. unfold partial. cbn [owner pcs].
        destruct (owner s) as [o|]; [|reflexivity]. upd o t; [rewrite Ept|]; reflexivity.
      * intros t0 i. upd t0 t; [intros [H|H]; discriminate|apply (I_cur s I)].
      * intros t0 i. upd t0 t; [intros [H|[H|H]]; discriminate|apply (I_done s I)].
      * intros t0. upd t0 t; [discriminate|apply (I_pos s I)].
      * intros t0. upd t0 t; [|apply (I_log s I)]. rewrite (I_log s I), Ept. cbn. tauto.
      * apply (I_nodup s I).
  - (* PLockedFD: take the flock if it is free *)
    destruct (owner s) as [o|] eqn:Eo; [discriminate|]. inversion Hstep; subst; clear Hstep.
    assert (Hnoholder : forall t0, holder (pcs s t0) = false).
    { intros t0. destruct (holder (pcs s t0)) eqn:E; [|reflexivity]. apply (I_owner s I) in E. congruence. }
    constructor; cbn [pcs tbl owner file log].
    + intros t0. upd t0 t; [cbn; tauto|]. rewrite Hnoholder. split; [intros H; inversion H; congruence|discriminate].
    + intros t0. upd t0 t; [intros _; apply (I_tbl1 s I); rewrite Ept; reflexivity|apply (I_tbl1 s I)].
    + intros p Hp. destruct (I_tbl2 s I p Hp) as (t0 & Hp0 & Hl). exists t0. split; [exact Hp0|].
      upd t0 t; [reflexivity|exact Hl].
    + intros t0 t1 H0 H1. apply (I_tbl3 s I).
      * upd t0 t; [rewrite Ept; reflexivity|exact H0].
      * upd t1 t; [rewrite Ept; reflexivity|exact H1].
    + rewrite (I_file s I) at 1. unfold partial. cbn [owner pcs]. rewrite Eo, updf_same. reflexivity.
    + intros t0 i. upd t0 t; [intros [H|H]; discriminate|apply (I_cur s I)].
    + intros t0 i. upd t0 t; [intros [H|[H|H]]; discriminate|apply (I_done s I)].
    + intros t0. upd t0 t; [discriminate|apply (I_pos s I)].
    + intros t0. upd t0 t; [|apply (I_log s I)]. rewrite (I_log s I), Ept. cbn. tauto.
    + apply (I_nodup s I).
  - (* PFlocked: seek to the end *)
    inversion Hstep; subst; clear Hstep.
    assert (Ho : owner s = Some t) by (apply (I_owner s I); rewrite Ept; reflexivity).
    assert (Hlen : (length (file s) / sz c = n0 + length (log s))%nat).
    { rewrite (I_file s I). unfold partial. rewrite Ho, Ept, app_nil_r, app_length, recs_length, Hinit.
      rewrite <- Nat.mul_add_distr_r. apply Nat.div_mul. lia. }
    constructor; cbn [pcs tbl owner file log set_pc].
    + intros t0. upd t0 t; [rewrite Ho; cbn; tauto|apply (I_owner s I)].
    + intros t0. upd t0 t; [intros _; apply (I_tbl1 s I); rewrite Ept; reflexivity|apply (I_tbl1 s I)].
    + intros p Hp. destruct (I_tbl2 s I p Hp) as (t0 & Hp0 & Hl). exists t0. split; [exact Hp0|].
      upd t0 t; [reflexivity|exact Hl].
    + intros t0 t1 H0 H1. apply (I_tbl3 s I).
      * upd t0 t; [rewrite Ept; reflexivity|exact H0].
      * upd t1 t; [rewrite Ept; reflexivity|exact H1].
    + rewrite (I_file s I) at 1. unfold partial. cbn [owner pcs set_pc]. rewrite Ho, Ept, updf_same. reflexivity.
    + intros t0 i. upd t0 t; [|apply (I_cur s I)]. intros [H|H]; inversion H; subst; exact Hlen.
    + intros t0 i. upd t0 t; [intros [H|[H|H]]; discriminate|apply (I_done s I)].
    + intros t0. upd t0 t; [discriminate|apply (I_pos s I)].
    + intros t0. upd t0 t; [|apply (I_log s I)]. rewrite (I_log s I), Ept. cbn. tauto.
    + apply (I_nodup s I).
  - (* PSeeked i: the write fails before anything is written, or its first half goes out *)
    assert (Ho : owner s = Some t) by (apply (I_owner s I); rewrite Ept; reflexivity).
    destruct (bad c t) eqn:Ebad; inversion Hstep; subst; clear Hstep.
    { (* BinaryWrite error: nothing written, error pending *)
      constructor; cbn [pcs tbl owner file log set_pc].
      + intros t0. upd t0 t; [rewrite Ho; cbn; tauto|apply (I_owner s I)].
      + intros t0. upd t0 t; [intros _; apply (I_tbl1 s I); rewrite Ept; reflexivity|apply (I_tbl1 s I)].
      + intros p Hp. destruct (I_tbl2 s I p Hp) as (t0 & Hp0 & Hl). exists t0. split; [exact Hp0|].
        upd t0 t; [reflexivity|exact Hl].
      + intros t0 t1 H0 H1. apply (I_tbl3 s I).
        * upd t0 t; [rewrite Ept; reflexivity|exact H0].
        * upd t1 t; [rewrite Ept; reflexivity|exact H1].
      + rewrite (I_file s I) at 1. unfold partial. cbn [owner pcs set_pc]. rewrite Ho, Ept, updf_same. reflexivity.
      + intros t0 i0. upd t0 t; [intros [H|H]; discriminate|apply (I_cur s I)].
      + intros t0 i0. upd t0 t; [intros [H|[H|H]]; discriminate|apply (I_done s I)].
      + intros t0. upd t0 t; [discriminate|apply (I_pos s I)].
      + intros t0. upd t0 t; [|apply (I_log s I)]. rewrite (I_log s I), Ept. cbn. tauto.
      + apply (I_nodup s I). }
    assert (Hi : i = (n0 + length (log s))%nat) by (apply (I_cur s I t); left; exact Ept).
    assert (Hf : file s = init ++ concat (map (recd c) (log s))).
    { rewrite (I_file s I) at 1. unfold partial. rewrite Ho, Ept, app_nil_r. reflexivity. }
    constructor; cbn [pcs tbl owner file log].
    + intros t0. upd t0 t; [rewrite Ho; cbn; tauto|apply (I_owner s I)].
    + intros t0. upd t0 t; [intros _; apply (I_tbl1 s I); rewrite Ept; reflexivity|apply (I_tbl1 s I)].
    + intros p Hp. destruct (I_tbl2 s I p Hp) as (t0 & Hp0 & Hl). exists t0. split; [exact Hp0|].
      upd t0 t; [reflexivity|exact Hl].
    + intros t0 t1 H0 H1. apply (I_tbl3 s I).
      * upd t0 t; [rewrite Ept; reflexivity|exact H0].
      * upd t1 t; [rewrite Ept; reflexivity|exact H1].
    + rewrite write_at_end.
      * rewrite Hf. unfold partial. cbn [owner pcs]. rewrite Ho, updf_same, <- app_assoc. reflexivity.
      * rewrite Hf, app_length, recs_length, Hinit, Hi. lia.
    + intros t0 i0. upd t0 t; [|apply (I_cur s I)]. intros [H|H]; inversion H; subst; lia.
    + intros t0 i0. upd t0 t; [intros [H|[H|H]]; discriminate|apply (I_done s I)].
    + intros t0. upd t0 t; [discriminate|apply (I_pos s I)].
    + intros t0. upd t0 t; [|apply (I_log s I)]. rewrite (I_log s I), Ept. cbn. tauto.
    + apply (I_nodup s I).
  - (* PHalf i: second half; the write is complete *)
    inversion Hstep; subst; clear Hstep.
    assert (Ho : owner s = Some t) by (apply (I_owner s I); rewrite Ept; reflexivity).
    assert (Hi : i = (n0 + length (log s))%nat) by (apply (I_cur s I t); right; exact Ept).
    assert (Hf : file s = init ++ concat (map (recd c) (log s)) ++ firstn (half c) (recd c t)).
    { rewrite (I_file s I) at 1. unfold partial. rewrite Ho, Ept. reflexivity. }
    assert (Hnotin : ~ In t (log s)) by (rewrite (I_log s I), Ept; discriminate).
    constructor; cbn [pcs tbl owner file log].
    + intros t0. upd t0 t; [rewrite Ho; cbn; tauto|apply (I_owner s I)].
    + intros t0. upd t0 t; [intros _; apply (I_tbl1 s I); rewrite Ept; reflexivity|apply (I_tbl1 s I)].
    + intros p Hp. destruct (I_tbl2 s I p Hp) as (t0 & Hp0 & Hl). exists t0. split; [exact Hp0|].
      upd t0 t; [reflexivity|exact Hl].
    + intros t0 t1 H0 H1. apply (I_tbl3 s I).
      * upd t0 t; [rewrite Ept; reflexivity|exact H0].
      * upd t1 t; [rewrite Ept; reflexivity|exact H1].
    + rewrite write_at_end.
      * rewrite Hf. unfold partial. cbn [owner pcs]. rewrite Ho, updf_same, app_nil_r.
        rewrite map_app, concat_app. cbn [map concat]. rewrite app_nil_r.
        rewrite <- !app_assoc. rewrite firstn_skipn. reflexivity.
      * rewrite Hf, !app_length, recs_length, Hinit, firstn_length, Hrec, Hi. lia.
    + intros t0 i0. upd t0 t; [intros [H|H]; discriminate|]. intros H.
      assert (Hh : holder (pcs s t0) = true) by (destruct H as [H|H]; rewrite H; reflexivity).
      exfalso. apply n. apply (holder_unique s t0 t I Hh). rewrite Ept. reflexivity.
    + intros t0 i0. upd t0 t.
      * intros [H|[H|H]]; inversion H; subst. split; [lia|].
        rewrite nth_error_app2 by lia. replace (n0 + length (log s) - n0 - length (log s))%nat with 0%nat by lia. reflexivity.
      * intros H. destruct (I_done s I t0 i0 H) as [Hle Hn]. split; [exact Hle|].
        rewrite nth_error_app1; [exact Hn|]. apply nth_error_Some. congruence.
    + intros t0. upd t0 t; [discriminate|apply (I_pos s I)].
    + intros t0. rewrite in_app_iff. cbn [In]. upd t0 t; [cbn; tauto|]. rewrite (I_log s I). intuition congruence.
    + apply NoDup_snoc; [apply (I_nodup s I)|exact Hnotin].
  - (* PWritten i: release the flock *)
    inversion Hstep; subst; clear Hstep.
    assert (Ho : owner s = Some t) by (apply (I_owner s I); rewrite Ept; reflexivity).
    constructor; cbn [pcs tbl owner file log].
    + intros t0. upd t0 t; [cbn; split; discriminate|].
      split; [discriminate|]. intros Hh. exfalso. apply n. apply (holder_unique s t0 t I Hh). rewrite Ept. reflexivity.
    + intros t0. upd t0 t; [intros _; apply (I_tbl1 s I); rewrite Ept; reflexivity|apply (I_tbl1 s I)].
    + intros p Hp. destruct (I_tbl2 s I p Hp) as (t0 & Hp0 & Hl). exists t0. split; [exact Hp0|].
      upd t0 t; [reflexivity|exact Hl].
    + intros t0 t1 H0 H1. apply (I_tbl3 s I).
      * upd t0 t; [rewrite Ept; reflexivity|exact H0].
      * upd t1 t; [rewrite Ept; reflexivity|exact H1].
    + rewrite (I_file s I) at 1. unfold partial. cbn [owner]. rewrite Ho, Ept. reflexivity.
    + intros t0 i0. upd t0 t; [intros [H|H]; discriminate|apply (I_cur s I)].
    + intros t0 i0. upd t0 t; [|apply (I_done s I)].
      intros [H|[H|H]]; inversion H; subst. apply (I_done s I t). left. exact Ept.
    + intros t0. upd t0 t; [discriminate|apply (I_pos s I)].
    + intros t0. upd t0 t; [|apply (I_log s I)]. rewrite (I_log s I), Ept. cbn. tauto.
    + apply (I_nodup s I).
  - (* PUnflocked i: drop the table entry, return i+1 *)
    inversion Hstep; subst; clear Hstep.
    constructor; cbn [pcs tbl owner file log].
    + intros t0. upd t0 t; [|apply (I_owner s I)]. rewrite (I_owner s I), Ept. cbn. tauto.
    + intros t0. upd t0 t; [discriminate|]. intros Hl. unfold updf.
      destruct (Nat.eqb_spec (proc c t0) (proc c t)) as [E|_]; [|apply (I_tbl1 s I); exact Hl].
      exfalso. apply n. apply (I_tbl3 s I); [exact Hl | rewrite Ept; reflexivity | exact E].
    + intros p Hp. unfold updf in Hp. destruct (Nat.eqb_spec p (proc c t)) as [Ep|Hne]; [discriminate|].
      destruct (I_tbl2 s I p Hp) as (t0 & Hp0 & Hl). exists t0. split; [exact Hp0|].
      rewrite updf_other by (intros ->; congruence). exact Hl.
    + intros t0 t1. upd t0 t; [discriminate|]. upd t1 t; [discriminate|]. apply (I_tbl3 s I).
    + rewrite (I_file s I) at 1. unfold partial. cbn [owner pcs].
      destruct (owner s) as [o|] eqn:Eo; [|reflexivity]. upd o t; [|reflexivity].
      apply (I_owner s I) in Eo. rewrite Ept in Eo. discriminate.
    + intros t0 i0. upd t0 t; [intros [H|H]; discriminate|apply (I_cur s I)].
    + intros t0 i0. upd t0 t; [|apply (I_done s I)].
      intros [H|[H|H]]; inversion H; subst. apply (I_done s I t). right; left. exact Ept.
    + intros t0. upd t0 t; [discriminate|apply (I_pos s I)].
    + intros t0. upd t0 t; [|apply (I_log s I)]. rewrite (I_log s I), Ept. cbn. tauto.
    + apply (I_nodup s I).
  - discriminate.
  - (* PFailing: error path, release the flock *)
    inversion Hstep; subst; clear Hstep.
    assert (Ho : owner s = Some t) by (apply (I_owner s I); rewrite Ept; reflexivity).
    constructor; cbn [pcs tbl owner file log].
    + intros t0. upd t0 t; [cbn; split; discriminate|].
      split; [discriminate|]. intros Hh. exfalso. apply n. apply (holder_unique s t0 t I Hh). rewrite Ept. reflexivity.
    + intros t0. upd t0 t; [intros _; apply (I_tbl1 s I); rewrite Ept; reflexivity|apply (I_tbl1 s I)].
    + intros p Hp. destruct (I_tbl2 s I p Hp) as (t0 & Hp0 & Hl). exists t0. split; [exact Hp0|].
      upd t0 t; [reflexivity|exact Hl].
    + intros t0 t1 H0 H1. apply (I_tbl3 s I).
      * upd t0 t; [rewrite Ept; reflexivity|exact H0].
      * upd t1 t; [rewrite Ept; reflexivity|exact H1].
    + rewrite (I_file s I) at 1. unfold partial. cbn [owner]. rewrite Ho, Ept. reflexivity.
    + intros t0 i0. upd t0 t; [intros [H|H]; discriminate|apply (I_cur s I)].
    + intros t0 i0. upd t0 t; [intros [H|[H|H]]; discriminate|apply (I_done s I)].
    + intros t0. upd t0 t; [discriminate|apply (I_pos s I)].
    + intros t0. upd t0 t; [|apply (I_log s I)]. rewrite (I_log s I), Ept. cbn. tauto.
    + apply (I_nodup s I).
  - (* PFailUnflocked: error path, drop the table entry, return the error *)
    inversion Hstep; subst; clear Hstep.
    constructor; cbn [pcs tbl owner file log].
    + intros t0. upd t0 t; [|apply (I_owner s I)]. rewrite (I_owner s I), Ept. cbn. tauto.
    + intros t0. upd t0 t; [discriminate|]. intros Hl. unfold updf.
      destruct (Nat.eqb_spec (proc c t0) (proc c t)) as [E|_]; [|apply (I_tbl1 s I); exact Hl].
      exfalso. apply n. apply (I_tbl3 s I); [exact Hl | rewrite Ept; reflexivity | exact E].
    + intros p Hp. unfold updf in Hp. destruct (Nat.eqb_spec p (proc c t)) as [Ep|Hne]; [discriminate|].
      destruct (I_tbl2 s I p Hp) as (t0 & Hp0 & Hl). exists t0. split; [exact Hp0|].
      rewrite updf_other by (intros ->; congruence). exact Hl.
    + intros t0 t1. upd t0 t; [discriminate|]. upd t1 t; [discriminate|]. apply (I_tbl3 s I).
    + rewrite (I_file s I) at 1. unfold partial. cbn [owner pcs].
      destruct (owner s) as [o|] eqn:Eo; [|reflexivity]. upd o t; [|reflexivity].
      apply (I_owner s I) in Eo. rewrite Ept in Eo. discriminate.
    + intros t0 i0. upd t0 t; [intros [H|H]; discriminate|apply (I_cur s I)].
    + intros t0 i0. upd t0 t; [intros [H|[H|H]]; discriminate|apply (I_done s I)].
    + intros t0. upd t0 t; [discriminate|apply (I_pos s I)].
    + intros t0. upd t0 t; [|apply (I_log s I)]. rewrite (I_log s I), Ept. cbn. tauto.
    + apply (I_nodup s I).
  - discriminate.
Qed.

Lemma run_inv sch : forall s, Inv s -> Inv (run c sch s).
Proof.
  induction sch as [|t sch IH]; intros s I; [exact I|]. cbn [run fold_left]. apply IH.
  unfold step_skip. destruct (step c s t) eqn:E; [eapply step_inv; eauto|exact I].
Qed.

Lemma replay_run sch : forall s s', replay c sch s = Some s' -> run c sch s = s'.
Proof.
  induction sch as [|t sch IH]; intros s s' H; cbn in *; [congruence|].
  unfold step_skip at 2. destruct (step c s t); [apply IH; exact H|discriminate].
Qed.

(* ------------------------------------------------------------------ every reachable state *)

Theorem reachable_inv sch : Inv (run c sch (init_st init)).
Proof. apply run_inv, init_inv. Qed.

(* mutual exclusion: at most one thread between Flock and Funlock, and it owns the flock *)
Theorem mutex sch t t' : let s := run c sch (init_st init) in
  holder (pcs s t) = true -> holder (pcs s t') = true -> t = t' /\ owner s = Some t.
Proof.
  cbv zeta. intros H H'. pose proof (reachable_inv sch) as I. split.
  - eapply holder_unique; eauto.
  - apply (I_owner _ I). exact H.
Qed.

Lemma record_at l t k : nth_error l k = Some t ->
  forall tail, firstn (sz c) (skipn (k * sz c) (concat (map (recd c) l) ++ tail)) = recd c t.
Proof.
  revert k. induction l as [|a l IH]; intros k H tail; [destruct k; discriminate|].
  destruct k as [|k]; cbn in H.
  - inversion H; subst. cbn [Nat.mul skipn map concat]. rewrite <- app_assoc.
    rewrite firstn_app, Hrec, Nat.sub_diag. cbn [firstn]. rewrite app_nil_r.
    rewrite <- (Hrec t). apply firstn_all.
  - cbn [map concat]. rewrite <- app_assoc. replace (S k * sz c)%nat with (length (recd c a) + k * sz c)%nat by (rewrite Hrec; cbn [Nat.mul]; lia).
    rewrite skipn_app. rewrite skipn_all2 by lia. cbn [app].
    replace (length (recd c a) + k * sz c - length (recd c a))%nat with (k * sz c)%nat by lia.
    apply IH. exact H.
Qed.

(* a returned index designates that thread's record, intact, in the file — in every reachable state *)
Theorem record_intact sch t i : let s := run c sch (init_st init) in
  pcs s t = PDoneOk i -> (n0 < i)%nat /\ firstn (sz c) (skipn ((i - 1) * sz c) (file s)) = recd c t.
Proof.
  cbv zeta. intros H. pose proof (reachable_inv sch) as I.
  destruct i as [|i]; [exfalso; eapply (I_pos _ I); eauto|].
  destruct (I_done _ I t i (or_intror (or_intror H))) as [Hle Hn]. split; [lia|].
  rewrite (I_file _ I). replace (S i - 1)%nat with i by lia.
  replace (i * sz c)%nat with (length init + (i - n0) * sz c)%nat by (rewrite Hinit; nia).
  rewrite skipn_app, skipn_all2 by apply Nat.le_add_r. cbn [app].
  rewrite Nat.add_comm, Nat.add_sub.
  apply record_at. exact Hn.
Qed.

(* two successful calls never return the same index *)
Theorem distinct_indices sch t t' i : let s := run c sch (init_st init) in
  pcs s t = PDoneOk i -> pcs s t' = PDoneOk i -> t = t'.
Proof.
  cbv zeta. intros H H'. pose proof (reachable_inv sch) as I.
  destruct i as [|i]; [exfalso; eapply (I_pos _ I); eauto|].
  destruct (I_done _ I t i (or_intror (or_intror H))) as [_ Hn].
  destruct (I_done _ I t' i (or_intror (or_intror H'))) as [_ Hn']. congruence.
Qed.

Definition quiescent (s : st) : Prop := forall t, pcs s t = PStart \/ finished (pcs s t) = true.

(* when nobody is inside a call: length = initial length + one record per successful call, the successful
   calls are exactly the logged ones, nothing is left locked *)
Theorem quiescent_outcome sch : let s := run c sch (init_st init) in quiescent s ->
  length (file s) = (length init + sz c * length (log s))%nat /\
  (forall t, In t (log s) <-> exists i, pcs s t = PDoneOk i) /\ NoDup (log s) /\
  owner s = None /\ (forall p, tbl s p = false).
Proof.
  cbv zeta. intros Q. pose proof (reachable_inv sch) as I. set (s := run c sch (init_st init)) in *.
  assert (Hown : owner s = None).
  { destruct (owner s) as [o|] eqn:E; [|reflexivity]. apply (I_owner _ I) in E.
    destruct (Q o) as [H|H]; [rewrite H in E; discriminate|]. destruct (pcs s o); discriminate. }
  repeat split.
  - rewrite (I_file _ I). unfold partial. rewrite Hown, app_nil_r, app_length, recs_length. lia.
  - intros Hin. apply (I_log _ I) in Hin. destruct (Q t) as [H|H]; [rewrite H in Hin; discriminate|].
    destruct (pcs s t); try discriminate. eauto.
  - intros [i H]. apply (I_log _ I). rewrite H. reflexivity.
  - apply (I_nodup _ I).
  - exact Hown.
  - intros p. destruct (tbl s p) eqn:E; [|reflexivity]. destruct (I_tbl2 _ I p E) as (t & _ & Hl).
    destruct (Q t) as [H|H]; [rewrite H in Hl; discriminate|]. destruct (pcs s t); discriminate.
Qed.

(* hence an append issued after the others have finished always succeeds, at the next index *)
Theorem later_append_succeeds sch t : let s := run c sch (init_st init) in quiescent s -> pcs s t = PStart -> bad c t = false -> away c t = false ->
  exists s', replay c [t; t; t; t; t; t; t] s = Some s' /\
             pcs s' t = PDoneOk (S (n0 + length (log s))) /\ log s' = log s ++ [t].
Proof.
  cbv zeta. intros Q Ht Hgood Hhere. pose proof (reachable_inv sch) as I.
  destruct (quiescent_outcome sch Q) as (Hlen & _ & _ & Hown & Htbl).
  set (s := run c sch (init_st init)) in *.
  cbn [replay]. unfold step at 1. rewrite Ht, Hhere, Htbl.
  unfold step at 1. cbn [pcs owner tbl file log]. rewrite updf_same, Hown.
  unfold step at 1. cbn [pcs owner tbl file log set_pc]. rewrite updf_same.
  unfold step at 1. cbn [pcs owner tbl file log set_pc]. rewrite updf_same, Hgood.
  unfold step at 1. cbn [pcs owner tbl file log set_pc]. rewrite updf_same.
  unfold step at 1. cbn [pcs owner tbl file log set_pc]. rewrite updf_same.
  unfold step at 1. cbn [pcs owner tbl file log set_pc]. rewrite updf_same.
  eexists. split; [reflexivity|]. cbn [pcs log]. rewrite updf_same. split; [|reflexivity].
  f_equal. f_equal. rewrite Hlen, Hinit.
  replace (n0 * sz c + sz c * length (log s))%nat with ((n0 + length (log s)) * sz c)%nat by lia.
  apply Nat.div_mul. lia.
Qed.

(* no deadlock: while some thread is inside a call, some thread can move *)
Theorem progress sch t : let s := run c sch (init_st init) in
  pcs s t <> PStart -> finished (pcs s t) = false -> exists t', step c s t' <> None.
Proof.
  cbv zeta. intros Hs Hf. pose proof (reachable_inv sch) as I. set (s := run c sch (init_st init)) in *.
  destruct (step c s t) eqn:E; [exists t; congruence|].
  unfold step in E. destruct (pcs s t) eqn:Ept; try discriminate; try congruence.
  - destruct (owner s) as [o|] eqn:Eo; [|discriminate].
    exists o. apply (I_owner _ I) in Eo. unfold step.
    destruct (pcs s o); try discriminate; destruct (bad c o); discriminate.
  - destruct (bad c t); discriminate.
Qed.

(* a failed write leaves nothing behind (same file): a call whose write fails inside the critical section, run from a
   state where nobody is inside a call, ends with the error and gives back exactly the state it started from *)
Theorem failed_append_leaves_nothing sch u : let s := run c sch (init_st init) in
  quiescent s -> pcs s u = PStart -> bad c u = true -> away c u = false ->
  exists s', replay c [u; u; u; u; u; u] s = Some s' /\ pcs s' u = PDoneErr /\
             file s' = file s /\ log s' = log s /\ owner s' = owner s /\ (forall p, tbl s' p = tbl s p) /\
             (forall t, t <> u -> pcs s' t = pcs s t).
Proof.
  cbv zeta. intros Q Ht Hbad Hhere.
  destruct (quiescent_outcome sch Q) as (_ & _ & _ & Hown & Htbl).
  set (s := run c sch (init_st init)) in *.
  cbn [replay]. unfold step at 1. rewrite Ht, Hhere, Htbl.
  unfold step at 1. cbn [pcs owner tbl file log]. rewrite updf_same, Hown.
  unfold step at 1. cbn [pcs owner tbl file log set_pc]. rewrite updf_same.
  unfold step at 1. cbn [pcs owner tbl file log set_pc]. rewrite updf_same, Hbad.
  unfold step at 1. cbn [pcs owner tbl file log set_pc]. rewrite updf_same.
  unfold step at 1. cbn [pcs owner tbl file log set_pc]. rewrite updf_same.
  eexists. split; [reflexivity|]. cbn [pcs owner tbl file log]. rewrite updf_same.
  repeat split; try reflexivity.
  - intros p. unfold updf. destruct (Nat.eqb p (proc c u)) eqn:E; [|reflexivity].
    apply Nat.eqb_eq in E. subst p. symmetry. apply Htbl.
  - intros t Hne. rewrite !updf_other by exact Hne. reflexivity.
Qed.

End Appenders.

(* ------------------------------------------------------------------ failed calls on other files leave nothing behind *)
(* Erasing from a history every call that went to another file and failed there changes nothing for the other calls:
   same file, same order of completed writes, same lock state, same program counter (hence same result) for every
   call on this file. No hypothesis on the configuration is needed. *)
Section Away.
Variable c : cfg.

Definition here (t : nat) : bool := negb (away c t).

Record Sim (s s' : st) : Prop := {
  S_pcs : forall t, away c t = false -> pcs s t = pcs s' t;
  S_away : forall t, away c t = true -> pcs s t = PStart \/ pcs s t = PDoneErr;
  S_tbl : tbl s = tbl s';
  S_owner : owner s = owner s';
  S_file : file s = file s';
  S_log : log s = log s'
}.

Lemma sim_updf (f g : nat -> pc) t v : (forall x, away c x = false -> f x = g x) ->
  forall x, away c x = false -> updf f t v x = updf g t v x.
Proof. intros H x Hx. unfold updf. destruct (Nat.eqb x t); [reflexivity|apply H; exact Hx]. Qed.

Lemma away_updf (f : nat -> pc) t v : away c t = false -> (forall x, away c x = true -> f x = PStart \/ f x = PDoneErr) ->
  forall x, away c x = true -> updf f t v x = PStart \/ updf f t v x = PDoneErr.
Proof.
  intros Ht H x Hx. unfold updf. destruct (Nat.eqb_spec x t) as [->|_]; [congruence|apply H; exact Hx].
Qed.

Lemma sim_step_here s s' t : Sim s s' -> away c t = false ->
  match step c s t, step c s' t with
  | Some a, Some b => Sim a b
  | None, None => True
  | _, _ => False
  end.
Proof.
  intros [Hp Ha Ht Ho Hf Hl] Hh. destruct s as [p1 t1 o1 f1 l1], s' as [p2 t2 o2 f2 l2].
  cbn [pcs tbl owner file log] in *. subst t2 o2 f2 l2.
  unfold step. cbn [pcs tbl owner file log]. rewrite <- (Hp t Hh), Hh.
  destruct (p1 t); unfold set_pc; cbn [pcs tbl owner file log];
    repeat match goal with
           | |- context [if ?b then _ else _] => destruct b
           | |- context [match ?o with Some _ => _ | None => _ end] => destruct o
           end;
    try exact I;
    (constructor; cbn [pcs tbl owner file log]; try reflexivity; [apply sim_updf; exact Hp|apply away_updf; assumption]).
Qed.

Lemma sim_step_away s s' t : Sim s s' -> away c t = true -> Sim (step_skip c s t) s'.
Proof.
  intros [Hp Ha Ht Ho Hf Hl] Hw. unfold step_skip, step. rewrite Hw.
  destruct (Ha t Hw) as [E|E]; rewrite E.
  - constructor; cbn [pcs tbl owner file log set_pc]; try assumption.
    + intros x Hx. rewrite updf_other by (intros ->; congruence). apply Hp. exact Hx.
    + intros x Hx. unfold updf. destruct (Nat.eqb x t); [right; reflexivity|apply Ha; exact Hx].
  - constructor; assumption.
Qed.

Lemma sim_run sch : forall s s', Sim s s' -> Sim (run c sch s) (run c (filter here sch) s').
Proof.
  induction sch as [|t sch IH]; intros s s' H; [exact H|]. cbn [run fold_left filter].
  unfold here at 1. destruct (away c t) eqn:E; cbn [negb].
  - apply IH. apply sim_step_away; assumption.
  - cbn [run fold_left]. apply IH. pose proof (sim_step_here s s' t H E) as Hs. unfold step_skip.
    destruct (step c s t), (step c s' t); try contradiction; assumption.
Qed.

Theorem failed_elsewhere_leaves_nothing init sch :
  let s := run c sch (init_st init) in
  let s' := run c (filter here sch) (init_st init) in
  file s = file s' /\ log s = log s' /\ owner s = owner s' /\ (forall p, tbl s p = tbl s' p) /\
  (forall t, away c t = false -> pcs s t = pcs s' t) /\
  (forall t, away c t = true -> pcs s t = PStart \/ pcs s t = PDoneErr).
Proof.
  cbv zeta. assert (H0 : Sim (init_st init) (init_st init)).
  { constructor; try reflexivity. intros t _. left. reflexivity. }
  destruct (sim_run sch _ _ H0) as [Hp Ha Ht Ho Hf Hl].
  repeat split; try assumption. intros p. rewrite Ht. reflexivity.
Qed.

End Away.

(* ------------------------------------------------------------------ non-vacuity: two processes, three threads *)
Definition ex_cfg : cfg := mkCfg 4 2 (fun t => Nat.modulo t 2) (fun t => repeat (Z.of_nat (S t)) 4) (fun t => Nat.eqb t 3) (fun t => Nat.eqb t 4).
Example ex_run :
  let s := run ex_cfg [0;1;0;2;1;0;0;0;0;0;1;1;1;1;1;1;2;2;2;2;2;2;2]%nat (init_st [9;9;9;9]) in
  (pcs s 0%nat, pcs s 1%nat, pcs s 2%nat, file s) =
  (PDoneOk 2, PDoneOk 3, PDoneErr, [9;9;9;9; 1;1;1;1; 2;2;2;2]).
Proof. vm_compute. reflexivity. Qed.

(* a call that fails on another file (thread 4) in the middle of the others, and a call whose write fails on this file
   (thread 3) before a later append (thread 5): both leave nothing behind *)
Example ex_run_failed :
  let sch := [0;0;0;4;1;0;0;0;0;1;1;1;1;1;1;3;3;3;3;3;3;5;5;5;5;5;5;5]%nat in
  let s := run ex_cfg sch (init_st [9;9;9;9]) in
  (pcs s 0%nat, pcs s 1%nat, pcs s 3%nat, pcs s 4%nat, pcs s 5%nat, file s) =
  (PDoneOk 2, PDoneOk 3, PDoneErr, PDoneErr, PDoneOk 4, [9;9;9;9; 1;1;1;1; 2;2;2;2; 6;6;6;6]) /\
  filter (here ex_cfg) sch = [0;0;0;1;0;0;0;0;1;1;1;1;1;1;3;3;3;3;3;3;5;5;5;5;5;5;5]%nat.
Proof. vm_compute. split; reflexivity. Qed.
